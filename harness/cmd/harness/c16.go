package main

import (
	"crypto/sha1"
	"encoding/hex"
	"encoding/json"
	"errors"
	"fmt"
	"io"
	"math/rand"
	"os"
	"strings"

	"github.com/simpleiot/simpleiot/client"
)

func init() { areas["c16"] = runC16 }

// scripted device: Read returns the next chunk, Write records what was written
type scriptDev struct {
	chunks  [][]byte
	written [][]byte
}

func (d *scriptDev) Read(p []byte) (int, error) {
	if len(d.chunks) == 0 {
		return 0, io.EOF
	}
	c := d.chunks[0]
	n := copy(p, c)
	if n < len(c) {
		d.chunks[0] = c[n:]
	} else {
		d.chunks = d.chunks[1:]
	}
	return n, nil
}
func (d *scriptDev) Write(p []byte) (int, error) {
	d.written = append(d.written, append([]byte{}, p...))
	return len(p), nil
}
func (d *scriptDev) Close() error { return nil }

type c16Res struct {
	Frame []byte `json:"frame,omitempty"`
	Err   int    `json:"err,omitempty"`
}

type c16Case struct {
	ID      int      `json:"id"`
	Kind    string   `json:"kind"`
	Blen    int      `json:"blen"`
	Maxlen  int      `json:"maxlen"`
	Frames  [][]byte `json:"frames"`
	Written [][]byte `json:"written"`
	Chunks  [][]byte `json:"chunks"`
	Pre     [][]byte `json:"pre"`
	Post    [][]byte `json:"post"`
	Results []c16Res `json:"results"`
	Key     string   `json:"key"`
}

func c16ErrCode(err error) int {
	switch {
	case errors.Is(err, client.ErrCobsDecodeError):
		return 1
	case errors.Is(err, client.ErrCobsTooMuchData):
		return 2
	case errors.Is(err, io.EOF):
		return 9
	case strings.Contains(err.Error(), "Not enough data"):
		return 3
	}
	return 8
}

// run the implementation: writer side, then reader side over the chunks
func c16RunImpl(c *c16Case) {
	wdev := &scriptDev{}
	cw := client.NewCobsWrapper(wdev, c.Maxlen)
	for _, f := range c.Frames {
		_, _ = cw.Write(f)
	}
	c.Written = wdev.written
}

func c16RunReader(c *c16Case) {
	chunks := make([][]byte, len(c.Chunks))
	total := 0
	for i, ch := range c.Chunks {
		chunks[i] = append([]byte{}, ch...)
		total += len(ch)
	}
	rdev := &scriptDev{chunks: chunks}
	cr := client.NewCobsWrapper(rdev, c.Maxlen)
	c.Results = nil
	for calls := 0; calls < 2*(total+len(chunks))+8; calls++ {
		buf := make([]byte, c.Blen)
		n, err := func() (n int, err error) {
			defer func() {
				if r := recover(); r != nil {
					n, err = 0, fmt.Errorf("panic: %v", r)
				}
			}()
			return cr.Read(buf)
		}()
		if err != nil {
			code := c16ErrCode(err)
			c.Results = append(c.Results, c16Res{Err: code})
			if code == 9 {
				break
			}
			continue
		}
		c.Results = append(c.Results, c16Res{Frame: append([]byte{}, buf[:n]...)})
	}
}

func c16Val(c *c16Case) string {
	res := make([]string, len(c.Results))
	for i, r := range c.Results {
		if r.Err != 0 {
			res[i] = vL("1", vI(r.Err))
		} else {
			res[i] = vL("0", vB(r.Frame))
		}
	}
	return vL(vI(c.Blen), vI(c.Maxlen), vBL(c.Frames), vBL(c.Written), vBL(c.Chunks),
		vL(res...), vBL(c.Pre), vBL(c.Post))
}

var c16Lens = []int{1, 1, 2, 3, 5, 8, 17, 100, 253, 254, 255, 256, 507, 508, 509, 510}

func c16Frame(r *rand.Rand, maxPayload int) []byte {
	n := c16Lens[r.Intn(len(c16Lens))]
	if r.Intn(3) == 0 {
		n = 1 + r.Intn(40)
	}
	if n > maxPayload {
		n = 1 + r.Intn(maxPayload)
	}
	f := make([]byte, n)
	mode := r.Intn(5)
	for i := range f {
		switch mode {
		case 0: // no zeros
			f[i] = byte(1 + r.Intn(255))
		case 1: // small alphabet with many zeros
			f[i] = []byte{0, 0, 1, 255}[r.Intn(4)]
		case 2: // rare zeros (long runs)
			if r.Intn(200) == 0 {
				f[i] = 0
			} else {
				f[i] = byte(1 + r.Intn(255))
			}
		default:
			f[i] = byte(r.Intn(256))
		}
	}
	if mode == 2 && n >= 255 && r.Intn(2) == 0 {
		// a zero exactly after a full 254-byte block
		for i := 0; i < 254; i++ {
			if f[i] == 0 {
				f[i] = 7
			}
		}
		f[254] = 0
	}
	return f
}

// split stream into chunks of at most blen bytes
func c16Chunk(r *rand.Rand, s []byte, blen int) [][]byte {
	var out [][]byte
	mode := r.Intn(6)
	i := 0
	for i < len(s) {
		var n int
		switch mode {
		case 0:
			n = 1
		case 1:
			n = len(s)
		case 2:
			n = 1 + r.Intn(3)
		case 3:
			n = 1 + r.Intn(40)
		case 4: // cut right after / before zeros
			n = 1
			for i+n < len(s) && s[i+n-1] != 0 && n < 300 {
				n++
			}
			if r.Intn(2) == 0 && n > 1 {
				n--
			}
		default:
			n = 1 + r.Intn(len(s))
		}
		if n > blen {
			n = blen
		}
		if i+n > len(s) {
			n = len(s) - i
		}
		if r.Intn(50) == 0 {
			out = append(out, []byte{}) // a device read that returns no data
		}
		out = append(out, append([]byte{}, s[i:i+n]...))
		i += n
	}
	return out
}

func c16Gen(r *rand.Rand, id int) *c16Case {
	c := &c16Case{ID: id}
	maxPayload := []int{20, 60, 300, 600}[r.Intn(4)]
	nf := 1 + r.Intn(5)
	for i := 0; i < nf; i++ {
		c.Frames = append(c.Frames, c16Frame(r, maxPayload))
	}
	// buffer sizes: large enough for every encoded frame (len+len/254+2), with slack
	maxEnc := 0
	for _, f := range c.Frames {
		e := len(f) + len(f)/254 + 2
		if e > maxEnc {
			maxEnc = e
		}
	}
	c.Blen = maxEnc + r.Intn(4)
	c.Maxlen = maxEnc - 1 + r.Intn(4)
	c.Kind = "clean"
	if r.Intn(12) == 0 {
		// frames that do not fit the limits: correspondence only
		c.Kind = "oversize"
		if r.Intn(2) == 0 {
			c.Blen = 3 + r.Intn(maxEnc)
		} else {
			c.Maxlen = 1 + r.Intn(maxEnc)
		}
	}
	c16RunImpl(c)
	var stream []byte
	starts := make([]int, len(c.Written))
	ends := make([]int, len(c.Written))
	for i, w := range c.Written {
		starts[i] = len(stream)
		stream = append(stream, w...)
		ends[i] = len(stream)
	}
	dmgFrom, dmgTo := len(stream), len(stream) // no damage
	if c.Kind == "clean" && r.Intn(10) < 4 && len(stream) > 0 {
		c.Kind = "damage"
		i := r.Intn(len(stream))
		span := 1 + r.Intn(4)
		if r.Intn(5) == 0 {
			span = 1 + r.Intn(30)
		}
		j := i + span
		if j > len(stream) {
			j = len(stream)
		}
		dmgFrom, dmgTo = i, j
		switch r.Intn(3) {
		case 0: // corrupt
			ns := append([]byte{}, stream...)
			for k := i; k < j; k++ {
				ns[k] ^= byte(1 + r.Intn(255))
			}
			stream = ns
			c.Kind = "damage-corrupt"
		case 1: // lose
			stream = append(append([]byte{}, stream[:i]...), stream[j:]...)
			c.Kind = "damage-lose"
		default: // insert
			ins := make([]byte, span)
			for k := range ins {
				ins[k] = byte(r.Intn(256))
				if r.Intn(4) == 0 {
					ins[k] = 0
				}
			}
			ns := append(append(append([]byte{}, stream[:i]...), ins...), stream[i:]...)
			stream = ns
			dmgTo = i
			c.Kind = "damage-insert"
		}
	}
	if c.Kind != "oversize" {
		for k, f := range c.Frames {
			if ends[k] <= dmgFrom {
				c.Pre = append(c.Pre, f)
			} else if starts[k] >= dmgTo {
				c.Post = append(c.Post, f)
			}
		}
	}
	c.Chunks = c16Chunk(r, stream, c.Blen)
	c16RunReader(c)
	return c
}

func c16Digest(c *c16Case) string {
	h := sha1.New()
	b, _ := json.Marshal([]any{c.Blen, c.Maxlen, c.Frames, c.Chunks})
	h.Write(b)
	return hex.EncodeToString(h.Sum(nil))[:16]
}

func runC16(cfg *config) error {
	cs := newCaseSet("c16")
	var cases []*c16Case
	if cfg.replay != "" {
		b, err := os.ReadFile(cfg.replay)
		if err != nil {
			return err
		}
		var rp struct {
			Cases []*c16Case `json:"cases"`
		}
		if err := json.Unmarshal(b, &rp); err != nil {
			return err
		}
		for _, c := range rp.Cases {
			c16RunImpl(c)
			c16RunReader(c)
			cases = append(cases, c)
		}
	} else {
		r := rand.New(rand.NewSource(cfg.seed))
		n := 1200 * cfg.scale
		for i := 0; i < n; i++ {
			cases = append(cases, c16Gen(r, i))
		}
		if cfg.tier == "thorough" || cfg.search {
			cases = append(cases, c16Exhaustive(len(cases))...)
		}
	}
	for i, c := range cases {
		c.ID = i
		cs.add(c16Val(c), c)
		cs.count("kind:" + c.Kind)
		cs.count(fmt.Sprintf("frames:%d", len(c.Frames)))
		nchunks := len(c.Chunks)
		switch {
		case nchunks <= 1:
			cs.count("chunks:1")
		case nchunks <= 4:
			cs.count("chunks:2-4")
		case nchunks <= 32:
			cs.count("chunks:5-32")
		default:
			cs.count("chunks:>32")
		}
		for _, res := range c.Results {
			if res.Err != 0 {
				cs.count(fmt.Sprintf("result:err%d", res.Err))
			} else {
				cs.count("result:frame")
			}
		}
		// non-trivial: more than one device read or more than one frame
		if nchunks > 1 || len(c.Frames) > 1 {
			cs.markNontrivial(c16Digest(c))
		}
		if i < 3 {
			cs.samples = append(cs.samples, c)
		}
	}
	return cs.write(cfg.out)
}

// every segmentation of every stream of <= 2 frames with <= 3 payload bytes over {0,1,2}
func c16Exhaustive(startID int) []*c16Case {
	var out []*c16Case
	alpha := []byte{0, 1, 2}
	var payloads [][]byte
	var gen func(cur []byte, n int)
	gen = func(cur []byte, n int) {
		if len(cur) > 0 {
			payloads = append(payloads, append([]byte{}, cur...))
		}
		if n == 0 {
			return
		}
		for _, a := range alpha {
			gen(append(cur, a), n-1)
		}
	}
	gen(nil, 3)
	id := startID
	for _, f1 := range payloads {
		for _, f2 := range payloads {
			if len(f1)+len(f2) > 4 {
				continue
			}
			base := &c16Case{Blen: 8, Maxlen: 8, Frames: [][]byte{f1, f2}, Kind: "exhaustive"}
			c16RunImpl(base)
			var stream []byte
			for _, w := range base.Written {
				stream = append(stream, w...)
			}
			n := len(stream)
			for mask := 0; mask < 1<<(n-1); mask++ {
				c := &c16Case{ID: id, Blen: 8, Maxlen: 8, Frames: base.Frames, Written: base.Written,
					Kind: "exhaustive", Pre: base.Frames}
				last := 0
				for i := 1; i < n; i++ {
					if mask&(1<<(i-1)) != 0 {
						c.Chunks = append(c.Chunks, stream[last:i])
						last = i
					}
				}
				c.Chunks = append(c.Chunks, stream[last:])
				c16RunReader(c)
				out = append(out, c)
				id++
			}
		}
	}
	return out
}
