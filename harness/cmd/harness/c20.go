package main

import (
	"bytes"
	"context"
	"encoding/json"
	"fmt"
	"io"
	"log"
	"math"
	"math/rand"
	"os"
	"os/exec"
	"path/filepath"
	"sync"
	"sync/atomic"
	"time"

	"github.com/nats-io/nats.go"
	"github.com/simpleiot/simpleiot/client"
	"github.com/simpleiot/simpleiot/data"
	"github.com/simpleiot/simpleiot/server"
)

// C20: concurrent stress of one instance (run from a -race build), then shutdown and reopen.

func init() {
	areas["c20"] = runC20
	areas["c20-worker"] = runC20Worker
	areas["c20-fullstop"] = runC20FullStop
}

type c20Read struct {
	Node   string   `json:"node"`
	Points []sPoint `json:"points"`
}

type c20Raa struct {
	Op     sOp      `json:"op"`
	Points []sPoint `json:"points"`
}

type c20Case struct {
	ID         int         `json:"id"`
	Seed       int64       `json:"seed"`
	Writers    int         `json:"writers"`
	OpsPer     int         `json:"ops_per_writer"`
	Root       string      `json:"root"`
	Init       []sView     `json:"init"`
	Acked      []sOp       `json:"acked"`
	Final      []sView     `json:"final"`
	Reopen     []sView     `json:"reopen"`
	Readers    [][]c20Read `json:"readers"`
	Raa        []c20Raa    `json:"raa"`
	Unanswered int         `json:"unanswered"`
	Races      int         `json:"races"`
	RaceText   string      `json:"race_text,omitempty"`
	ShutdownOK bool        `json:"shutdown_ok"`
	FullStop   bool        `json:"full_server_stop,omitempty"` // this round also stopped a whole server.Server under load
	ReopenOK   bool        `json:"reopen_ok"`
	VerifyOK   bool        `json:"verify_ok"`
	Err        string      `json:"err,omitempty"`
	Key        string      `json:"key"`
}

func c20OpVal(op sOp) string {
	if op.Kind == "np" {
		return vL("0", vS(op.Node), sPointsVal(op.Points))
	}
	return vL("1", vS(op.Node), vS(op.Parent), sPointsVal(op.Points))
}

func c20ViewsVal(vs []sView) string {
	items := make([]string, len(vs))
	for i, v := range vs {
		items[i] = v.val()
	}
	return vL(items...)
}

func (c *c20Case) val() string {
	acked := make([]string, len(c.Acked))
	for i, op := range c.Acked {
		acked[i] = c20OpVal(op)
	}
	readers := make([]string, len(c.Readers))
	for i, rs := range c.Readers {
		items := make([]string, len(rs))
		for j, r := range rs {
			items[j] = vL(vS(r.Node), sPointsVal(r.Points))
		}
		readers[i] = vL(items...)
	}
	raa := make([]string, len(c.Raa))
	for i, r := range c.Raa {
		raa[i] = vL(c20OpVal(r.Op), sPointsVal(r.Points))
	}
	return vL(vS(c.Root), c20ViewsVal(c.Init), vL(acked...), c20ViewsVal(c.Final), c20ViewsVal(c.Reopen),
		vL(readers...), vL(raa...), vI(c.Unanswered), vI(c.Races), vBool(c.ShutdownOK), vBool(c.ReopenOK), vBool(c.VerifyOK))
}

func c20Request(nc *nats.Conn, op sOp) (int, error) {
	pts := make(data.Points, len(op.Points))
	for i, p := range op.Points {
		pts[i] = p.toData()
	}
	payload, err := pts.ToPb()
	if err != nil {
		return 2, err
	}
	subject := "p." + op.Node
	if op.Kind == "ep" {
		subject += "." + op.Parent
	}
	msg, err := nc.Request(subject, payload, 90*time.Second) // a pipelined burst may be queued ahead of this request
	if err != nil {
		return 2, err
	}
	if len(msg.Data) > 0 {
		return 1, nil
	}
	return 0, nil
}

func c20ReadNode(nc *nats.Conn, id string) ([]sPoint, error) {
	nodes, err := client.GetNodes(nc, "all", id, "", true)
	if err != nil {
		return nil, err
	}
	if len(nodes) == 0 {
		return nil, nil
	}
	var ps []sPoint
	for _, p := range nodes[0].Points {
		ps = append(ps, sPointFrom(p))
	}
	return ps, nil
}

// one stress round in this (race-enabled) process; result as JSON on stdout
func runC20Worker(cfg *config) error {
	log.SetOutput(io.Discard)
	c := &c20Case{Seed: cfg.seed, Writers: 8, OpsPer: 40}
	if cfg.tier == "thorough" {
		c.Writers, c.OpsPer = 16, 80 // a round of 24 x 120 takes 7 minutes under the race detector
	}
	err := c20Round(c, cfg.out)
	if err != nil {
		c.Err = err.Error()
	}
	b, _ := json.Marshal(c)
	_, werr := os.Stdout.Write(append(b, '\n'))
	return werr
}

func c20Round(c *c20Case, dir string) error {
	in, err := startInstance(dir, storeRootID)
	if err != nil {
		return err
	}
	stopped := false
	defer func() {
		if !stopped {
			in.stop()
		}
	}()
	nc, err := nats.Connect(in.url, nats.Timeout(10*time.Second))
	if err != nil {
		return err
	}
	defer nc.Close()
	r := rand.New(rand.NewSource(c.Seed))
	// targets created up front
	base := []string{"n1", "n2", "n3", "n4"}
	var clock int64 = storeBase
	tick := func() int64 { return atomic.AddInt64(&clock, 1000) }
	var ackMu sync.Mutex
	ack := func(op sOp) {
		ackMu.Lock()
		c.Acked = append(c.Acked, op)
		ackMu.Unlock()
	}
	ids := []string{storeRootID}
	kids, err := client.GetNodes(nc, storeRootID, "all", "", true)
	if err != nil {
		return err
	}
	for _, k := range kids {
		ids = append(ids, k.ID)
	}
	for w := 0; w < c.Writers; w++ {
		for j := 0; j < 6; j++ {
			ids = append(ids, fmt.Sprintf("w%dc%d", w, j))
		}
	}
	ids = append(ids, base...)
	grow := 0
	if c.Seed%3 == 1 {
		grow = 60 // one round in three: a parent that keeps gaining children while it is being listed
	}
	for i := 0; i < grow; i++ {
		ids = append(ids, fmt.Sprintf("g%d", i))
	}
	c.Init, c.Root, err = storeDump(nc, ids)
	if err != nil {
		return err
	}
	for i, n := range base {
		parent := storeRootID
		if i >= 2 {
			parent = base[i-2]
		}
		op := sOp{Kind: "ep", Node: n, Parent: parent, Points: []sPoint{
			{Type: "tombstone", Time: tick()}, {Type: "nodeType", Time: tick(), Text: "group"}}}
		if rc, err := c20Request(nc, op); rc != 0 {
			return fmt.Errorf("creating %v: rc=%d %v", n, rc, err)
		}
		ack(op)
	}
	// n3 mirrored under n2 (diamond below the root)
	op := sOp{Kind: "ep", Node: "n3", Parent: "n2", Points: []sPoint{{Type: "tombstone", Time: tick()}, {Type: "nodeType", Time: tick(), Text: "group"}}}
	if rc, err := c20Request(nc, op); rc != 0 {
		return fmt.Errorf("mirroring: rc=%d %v", rc, err)
	}
	ack(op)

	var unanswered int32
	verifyOK := int32(1)
	// verifications are serialised with the writes and slow under the race detector: with many writers asking
	// for one at the same time the last of them waits for all the others
	verifyTimeout := time.Duration(c.Writers) * 15 * time.Second
	var wg sync.WaitGroup
	var raaMu sync.Mutex
	stopReaders := make(chan struct{})
	seeds := make([]int64, c.Writers)
	for i := range seeds {
		seeds[i] = r.Int63()
	}
	for w := 0; w < c.Writers; w++ {
		wg.Add(1)
		go func(w int) {
			defer wg.Done()
			wr := rand.New(rand.NewSource(seeds[w]))
			wnc, err := nats.Connect(in.url, nats.Timeout(10*time.Second))
			if err != nil {
				atomic.AddInt32(&unanswered, 1)
				return
			}
			defer wnc.Close()
			created := 0
			targets := append([]string{storeRootID}, base...)
			for i := 0; i < c.OpsPer; i++ {
				var op sOp
				x := wr.Intn(100)
				switch {
				case x < 60:
					n := targets[wr.Intn(len(targets))]
					np := 1 + wr.Intn(3)
					for k := 0; k < np; k++ {
						op.Points = append(op.Points, sPoint{Type: storeTypes[wr.Intn(len(storeTypes))], Key: storeKeys[wr.Intn(len(storeKeys))],
							Time: tick(), VBits: math.Float64bits(float64(wr.Intn(1000))), Text: storeTexts[wr.Intn(len(storeTexts))], Origin: fmt.Sprintf("w%d", w)})
					}
					op.Kind, op.Node = "np", n
				case x < 75:
					// edge point on one of the fixed edges
					e := [][2]string{{"n1", storeRootID}, {"n2", storeRootID}, {"n3", "n1"}, {"n4", "n2"}, {"n3", "n2"}}[wr.Intn(5)]
					op = sOp{Kind: "ep", Node: e[0], Parent: e[1], Points: []sPoint{{Type: "sortOrder", Key: storeKeys[wr.Intn(3)], Time: tick(), VBits: math.Float64bits(float64(wr.Intn(9)))}}}
					if wr.Intn(3) == 0 {
						op.Points = []sPoint{{Type: "tombstone", Time: tick(), VBits: math.Float64bits(float64(wr.Intn(2)))}}
					}
				case x < 83:
					// a request the store must refuse (root deletion, self edge, NaN): answered with an error, nothing
					// acknowledged, and the store goes on serving everybody
					switch wr.Intn(3) {
					case 0:
						op = sOp{Kind: "ep", Node: storeRootID, Parent: "root", Points: []sPoint{{Type: "tombstone", Time: tick(), VBits: math.Float64bits(1)}}}
					case 1:
						op = sOp{Kind: "ep", Node: "n1", Parent: "n1", Points: []sPoint{{Type: "tombstone", Time: tick()}, {Type: "nodeType", Time: tick(), Text: "group"}}}
					default:
						op = sOp{Kind: "np", Node: "n2", Points: []sPoint{{Type: "value", Time: tick(), VBits: 0x7FF8000000000000}}}
					}
					if rc, _ := c20Request(wnc, op); rc != 1 {
						// not refused (0) or not answered (2)
						atomic.AddInt32(&unanswered, 1)
						if rc == 2 {
							return
						}
					}
					continue
				case x < 95+c.Writers/4 && created < 6: // the share of store verifications shrinks with the number of writers
					id := fmt.Sprintf("w%dc%d", w, created)
					created++
					parent := targets[wr.Intn(len(targets))]
					op = sOp{Kind: "ep", Node: id, Parent: parent, Points: []sPoint{{Type: "tombstone", Time: tick()}, {Type: "nodeType", Time: tick(), Text: "variable"}}}
					targets = append(targets, id)
				default:
					// store verification while writes are going on
					// ... one in three with repair (admin.storeMaint): two walks at once, and a repair racing the writers
					subj := "admin.storeVerify"
					if wr.Intn(3) == 0 {
						subj = "admin.storeMaint"
					}
					msg, err := wnc.Request(subj, nil, verifyTimeout)
					if err != nil {
						atomic.AddInt32(&unanswered, 1)
						return
					} else if len(msg.Data) > 0 {
						atomic.StoreInt32(&verifyOK, 0)
					}
					continue
				}
				rc, _ := c20Request(wnc, op)
				switch rc {
				case 2:
					// the instance does not answer any more: no point in queueing further requests
					atomic.AddInt32(&unanswered, 1)
					return
				case 0:
					ack(op)
					if op.Kind == "np" && wr.Intn(3) == 0 {
						got, err := c20ReadNode(wnc, op.Node)
						if err != nil {
							atomic.AddInt32(&unanswered, 1)
						} else {
							raaMu.Lock()
							c.Raa = append(c.Raa, c20Raa{Op: op, Points: got})
							raaMu.Unlock()
						}
					}
				}
			}
		}(w)
	}
	// two clients that send nothing but requests the store must refuse, one node points (not a number), one edge
	// points (a node as its own parent), 150 each, at the same time as everybody else: every one is answered with an
	// error and the two handlers' error paths run side by side
	for k := 0; k < 2; k++ {
		wg.Add(1)
		go func(k int) {
			defer wg.Done()
			rnc, err := nats.Connect(in.url, nats.Timeout(10*time.Second))
			if err != nil {
				atomic.AddInt32(&unanswered, 1)
				return
			}
			defer rnc.Close()
			for i := 0; i < 150; i++ {
				op := sOp{Kind: "np", Node: "n2", Points: []sPoint{{Type: "value", Time: tick(), VBits: 0x7FF8000000000000}}}
				if k == 1 {
					op = sOp{Kind: "ep", Node: "n1", Parent: "n1", Points: []sPoint{{Type: "tombstone", Time: tick()}, {Type: "nodeType", Time: tick(), Text: "group"}}}
				}
				if rc, _ := c20Request(rnc, op); rc != 1 {
					atomic.AddInt32(&unanswered, 1)
					if rc == 2 {
						return
					}
				}
			}
		}(k)
	}
	if grow > 0 {
		wg.Add(1)
		go func() {
			defer wg.Done()
			gnc, err := nats.Connect(in.url, nats.Timeout(10*time.Second))
			if err != nil {
				atomic.AddInt32(&unanswered, 1)
				return
			}
			defer gnc.Close()
			for i := 0; i < grow; i++ {
				id := fmt.Sprintf("g%d", i)
				ops := []sOp{
					{Kind: "ep", Node: id, Parent: "n1", Points: []sPoint{{Type: "tombstone", Time: tick()}, {Type: "nodeType", Time: tick(), Text: "variable"}}},
					{Kind: "np", Node: id, Points: []sPoint{{Type: "value", Time: tick(), VBits: math.Float64bits(float64(i)), Origin: "grower"}}},
				}
				for _, op := range ops {
					switch rc, _ := c20Request(gnc, op); rc {
					case 2:
						atomic.AddInt32(&unanswered, 1)
						return
					case 0:
						ack(op)
					}
				}
			}
		}()
	}
	nReaders := 5
	c.Readers = make([][]c20Read, nReaders)
	var rwg sync.WaitGroup
	for rd := 0; rd < nReaders; rd++ {
		rwg.Add(1)
		go func(rd int) {
			defer rwg.Done()
			rr := rand.New(rand.NewSource(c.Seed*31 + int64(rd)))
			rnc, err := nats.Connect(in.url, nats.Timeout(10*time.Second))
			if err != nil {
				atomic.AddInt32(&unanswered, 1)
				return
			}
			defer rnc.Close()
			targets := append([]string{storeRootID}, base...)
			for len(c.Readers[rd]) < 200 {
				select {
				case <-stopReaders:
					return
				default:
				}
				n := targets[rr.Intn(len(targets))]
				got, err := c20ReadNode(rnc, n)
				if err != nil {
					atomic.AddInt32(&unanswered, 1)
					return
				}
				c.Readers[rd] = append(c.Readers[rd], c20Read{Node: n, Points: got})
				// also list the children of a node that is gaining children meanwhile (the size of what the store
				// has to fetch changes under the reader's feet); only "answered" is checked
				listOf := targets[rr.Intn(len(targets))]
				if grow > 0 {
					listOf = "n1"
				}
				if _, err := client.GetNodes(rnc, listOf, "all", "", true); err != nil {
					atomic.AddInt32(&unanswered, 1)
					return
				}
				time.Sleep(time.Duration(rr.Intn(3)) * time.Millisecond)
			}
		}(rd)
	}
	wg.Wait()
	close(stopReaders)
	rwg.Wait()
	// a pipelined burst: one connection fires its requests without waiting for the replies, so that more than a
	// thousand acknowledged writes are outstanding at once; every one of them must be answered.  It runs after the
	// writers and readers are done, so that their request timeouts are not spent waiting behind it
	burst := 1100
	if c.Writers > 8 {
		burst = 2000
	}
	if c.Seed%3 != 0 {
		burst = 0 // one round in three
	}
	func() {
		bnc, err := nats.Connect(in.url, nats.Timeout(10*time.Second))
		if err != nil {
			atomic.AddInt32(&unanswered, 1)
			return
		}
		defer bnc.Close()
		inbox := nats.NewInbox()
		sub, err := bnc.SubscribeSync(inbox)
		if err != nil {
			atomic.AddInt32(&unanswered, 1)
			return
		}
		_ = sub.SetPendingLimits(-1, -1)
		ops := make([]sOp, burst)
		for i := range ops {
			ops[i] = sOp{Kind: "np", Node: "n4", Points: []sPoint{{Type: "burst", Key: fmt.Sprint(i % 50), Time: tick(),
				VBits: math.Float64bits(float64(i)), Origin: "burst"}}}
			pts := data.Points{ops[i].Points[0].toData()}
			payload, err := pts.ToPb()
			if err != nil || bnc.PublishRequest("p.n4", inbox, payload) != nil {
				atomic.AddInt32(&unanswered, 1)
				return
			}
		}
		_ = bnc.Flush()
		got, refused := 0, 0
		deadline := time.Now().Add(2 * time.Minute)
		for got < burst {
			m, err := sub.NextMsg(time.Until(deadline))
			if err != nil {
				break
			}
			got++
			if len(m.Data) > 0 {
				refused++
			}
		}
		if got < burst || refused > 0 {
			atomic.AddInt32(&unanswered, int32(burst-got+refused))
			return
		}
		for _, op := range ops {
			ack(op)
		}
	}()
	c.Unanswered = int(unanswered)
	c.VerifyOK = verifyOK == 1
	c.Final, _, err = storeDump(nc, ids)
	if err != nil {
		return err
	}
	if c.Seed%3 == 2 {
		// one round in three: the instance is stopped while requests are on their way - a repair walk and, behind it,
		// writes that repeat acknowledged ones (whether or not they are still carried out, the content stays what it
		// is).  Whatever happens to them, stopping must return and the file must open again.
		_ = nc.PublishRequest("admin.storeMaint", nats.NewInbox(), nil)
		ackMu.Lock()
		again := append([]sOp{}, c.Acked...)
		ackMu.Unlock()
		for i := 0; i < 40 && i < len(again); i++ {
			op := again[len(again)-1-i]
			pts := make(data.Points, len(op.Points))
			for j, p := range op.Points {
				pts[j] = p.toData()
			}
			payload, err := pts.ToPb()
			subj := "p." + op.Node
			if op.Kind == "ep" {
				subj += "." + op.Parent
			}
			if err == nil {
				_ = nc.PublishRequest(subj, nats.NewInbox(), payload)
			}
		}
		_ = nc.Flush()
	}
	nc.Close()
	// ordered shutdown must terminate
	done := make(chan struct{})
	go func() { in.stop(); close(done) }()
	select {
	case <-done:
		c.ShutdownOK = true
	case <-time.After(15 * time.Second):
		c.ShutdownOK = false
	}
	stopped = true
	if !c.ShutdownOK {
		return nil
	}
	// the same store file can be opened again and shows the same content
	in2, err := startInstance(dir, storeRootID)
	if err != nil {
		c.ReopenOK = false
		return nil
	}
	defer in2.stop()
	nc2, err := nats.Connect(in2.url, nats.Timeout(10*time.Second))
	if err != nil {
		return err
	}
	defer nc2.Close()
	c.Reopen, _, err = storeDump(nc2, ids)
	c.ReopenOK = err == nil
	return nil
}

func runC20(cfg *config) error {
	cs := newCaseSet("c20")
	rounds := 3 * cfg.scale
	if cfg.tier == "thorough" && rounds > 9 {
		rounds = 9 // each thorough round is 16 writers x 80 requests under the race detector (1-3 min)
	}
	if cfg.replay != "" {
		rounds = 1
	}
	exe, err := os.Executable()
	if err != nil {
		return err
	}
	var cases []*c20Case
	for i := 0; i < rounds; i++ {
		dir, err := os.MkdirTemp("", "verif-c20-")
		if err != nil {
			return err
		}
		seed := cfg.seed*1000 + int64(i)
		if cfg.replay != "" {
			b, err := os.ReadFile(cfg.replay)
			if err == nil {
				var rp struct {
					Cases []*c20Case `json:"cases"`
				}
				if json.Unmarshal(b, &rp) == nil && len(rp.Cases) > 0 {
					seed = rp.Cases[0].Seed
				}
			}
		}
		cmd := exec.Command(exe, "c20-worker", "-seed", fmt.Sprint(seed), "-tier", cfg.tier, "-out", dir)
		cmd.Env = append(os.Environ(), "GORACE=log_path="+filepath.Join(dir, "race")+" halt_on_error=0 exitcode=0", "GOMAXPROCS="+fmt.Sprint(4+4*(i%3)))
		var out bytes.Buffer
		cmd.Stdout = &out
		cmd.Stderr = io.Discard
		done := make(chan error, 1)
		if err := cmd.Start(); err != nil {
			return err
		}
		go func() { done <- cmd.Wait() }()
		c := &c20Case{Seed: seed}
		select {
		case <-done:
			line := bytes.TrimSpace(out.Bytes())
			if idx := bytes.LastIndexByte(line, '\n'); idx >= 0 {
				line = line[idx+1:]
			}
			if err := json.Unmarshal(line, c); err != nil {
				c.Err = "worker output unreadable: " + err.Error()
				c.Unanswered++
			}
		case <-time.After(6 * time.Minute):
			_ = cmd.Process.Kill()
			c.Err = "stress round did not finish (deadlock?)"
			c.Unanswered++
		}
		files, _ := filepath.Glob(filepath.Join(dir, "race*"))
		for _, f := range files {
			b, _ := os.ReadFile(f)
			n := bytes.Count(b, []byte("WARNING: DATA RACE"))
			c.Races += n
			if n > 0 && c.RaceText == "" {
				if len(b) > 3000 {
					b = b[:3000]
				}
				c.RaceText = string(b)
			}
		}
		os.RemoveAll(dir)
		if i%3 == 0 && c.Err == "" && cfg.replay == "" {
			// the whole server (server.NewServer: bus, store, clients, HTTP) stopped while clients are writing: Run must
			// return and the store file must open again.  Run from the plain build: the race detector watches the store
			// rounds, not every package the server starts.
			fs := exec.Command(filepath.Join(filepath.Dir(exe), "harness"), "c20-fullstop")
			fs.Stderr = io.Discard
			res := struct {
				OK  bool   `json:"ok"`
				Err string `json:"err"`
			}{}
			outb, err := c20Output(fs, 90*time.Second)
			if err != nil || json.Unmarshal(bytes.TrimSpace(outb), &res) != nil {
				res.OK, res.Err = false, fmt.Sprint("full-server step: ", err)
			}
			if !res.OK {
				c.ShutdownOK = false
				c.Err = "server shutdown: " + res.Err
			}
			c.FullStop = true
		}
		if c.Err != "" && c.Unanswered == 0 {
			c.Unanswered++
		}
		c.ID = i
		cases = append(cases, c)
	}
	for i, c := range cases {
		cs.add(c.val(), c)
		cs.count(fmt.Sprintf("acked-writes:%d", (len(c.Acked)/100)*100))
		cs.count(fmt.Sprintf("reads:%d", func() int {
			n := 0
			for _, r := range c.Readers {
				n += len(r)
			}
			return (n / 100) * 100
		}()))
		cs.count(fmt.Sprintf("read-after-ack:%d", (len(c.Raa)/10)*10))
		cs.count(fmt.Sprintf("races:%d", c.Races))
		cs.markNontrivial(fmt.Sprintf("%d-%d", c.Seed, len(c.Acked)))
		cs.markNontrivial(fmt.Sprintf("%d-final-%d", c.Seed, len(c.Final)))
		if i < 1 {
			cs.samples = append(cs.samples, map[string]any{"seed": c.Seed, "writers": c.Writers, "ops_per_writer": c.OpsPer,
				"acked": len(c.Acked), "first_acked": c.Acked[:c20Min(3, len(c.Acked))], "races": c.Races, "unanswered": c.Unanswered})
		}
	}
	return cs.write(cfg.out)
}

func c20Min(a, b int) int {
	if a < b {
		return a
	}
	return b
}

func c20Output(cmd *exec.Cmd, limit time.Duration) ([]byte, error) {
	var out bytes.Buffer
	cmd.Stdout = &out
	if err := cmd.Start(); err != nil {
		return nil, err
	}
	done := make(chan error, 1)
	go func() { done <- cmd.Wait() }()
	select {
	case err := <-done:
		return out.Bytes(), err
	case <-time.After(limit):
		_ = cmd.Process.Kill()
		return nil, fmt.Errorf("no result within %v", limit)
	}
}

// c20-fullstop: server.NewServer(...).Run() with clients writing, Stop while they write, Run must return, the file reopens
func runC20FullStop(_ *config) error {
	log.SetOutput(io.Discard)
	ok, msg := c20FullStop()
	b, _ := json.Marshal(map[string]any{"ok": ok, "err": msg})
	_, err := os.Stdout.Write(append(b, '\n'))
	return err
}

func c20FullStop() (bool, string) {
	dir, err := os.MkdirTemp("", "verif-c20f-")
	if err != nil {
		return false, err.Error()
	}
	defer os.RemoveAll(dir)
	np, err1 := c09FreePort()
	hp, err2 := c09FreePort()
	if err1 != nil || err2 != nil {
		return false, "no free port"
	}
	url := fmt.Sprintf("nats://127.0.0.1:%d", np)
	pub := filepath.Join(dir, "public")
	_ = os.MkdirAll(pub, 0o755)
	opts := server.Options{StoreFile: filepath.Join(dir, "db.sqlite"), NatsPort: np, HTTPPort: fmt.Sprint(hp),
		NatsServer: url, ID: storeRootID, CustomUIDir: pub}
	s, snc, err := server.NewServer(opts)
	if err != nil {
		return false, "NewServer: " + err.Error()
	}
	stopped := make(chan struct{})
	go func() {
		_ = s.Run()
		close(stopped)
	}()
	ctx, cancel := context.WithTimeout(context.Background(), 15*time.Second)
	err = s.WaitStart(ctx)
	cancel()
	if err != nil {
		return false, "WaitStart: " + err.Error()
	}
	var quit int32
	var wg sync.WaitGroup
	var acked int32
	for w := 0; w < 4; w++ {
		wg.Add(1)
		go func(w int) {
			defer wg.Done()
			var nc *nats.Conn
			for k := 0; k < 200 && nc == nil; k++ {
				nc, _ = nats.Connect(url, nats.Timeout(2*time.Second), nats.MaxReconnects(0))
				if nc == nil {
					time.Sleep(25 * time.Millisecond)
				}
			}
			if nc == nil {
				return
			}
			defer nc.Close()
			for i := 0; atomic.LoadInt32(&quit) == 0; i++ {
				p := data.Point{Type: "value", Key: fmt.Sprint(w), Value: float64(i), Time: time.Now()}
				if client.SendNodePoint(nc, storeRootID, p, true) == nil {
					atomic.AddInt32(&acked, 1)
				}
			}
		}(w)
	}
	deadline := time.Now().Add(40 * time.Second)
	for atomic.LoadInt32(&acked) < 40 && time.Now().Before(deadline) {
		time.Sleep(10 * time.Millisecond)
	}
	if atomic.LoadInt32(&acked) < 40 {
		atomic.StoreInt32(&quit, 1)
		s.Stop(nil)
		return false, "the server did not acknowledge 40 writes within 40 s"
	}
	s.Stop(nil) // while the writers are still at it
	ok := true
	msg := ""
	select {
	case <-stopped:
	case <-time.After(25 * time.Second):
		ok, msg = false, "Server.Run did not return within 25 s of Stop"
	}
	atomic.StoreInt32(&quit, 1)
	wg.Wait()
	snc.Close()
	if !ok {
		return false, msg
	}
	in2, err := startInstance(dir, storeRootID)
	if err != nil {
		return false, "the store file does not open again: " + err.Error()
	}
	defer in2.stop()
	nc2, err := nats.Connect(in2.url, nats.Timeout(10*time.Second))
	if err != nil {
		return false, err.Error()
	}
	defer nc2.Close()
	nodes, err := client.GetNodes(nc2, "root", "all", "", false)
	if err != nil || len(nodes) == 0 {
		return false, fmt.Sprint("the reopened store does not show its root: ", err)
	}
	return true, ""
}
