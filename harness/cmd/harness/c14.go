package main

// C14: schedule windows (client/schedule.go, schedule.activeForTime), reached
// through the verif-tagged wrapper client.VerifScheduleActive.
//
// One case = one schedule + one instant; the instant is handed to the code as
// several time.Time values that differ only in their Location, and the result
// of every call is recorded. The Coq side (Sched/Model.v) compares each result
// with the model and evaluates the specification on it.

import (
	"crypto/sha1"
	"encoding/hex"
	"encoding/json"
	"fmt"
	"math/rand"
	"os"
	"strconv"
	"strings"
	"time"
	_ "time/tzdata" // named zones independent of the host's zoneinfo

	"github.com/simpleiot/simpleiot/client"
)

func init() { areas["c14"] = runC14 }

type c14Out struct {
	Active bool `json:"active"`
	Err    int  `json:"err,omitempty"` // 1 invalid start, 2 invalid end, 3 invalid date, 8 other
	Panic  bool `json:"panic,omitempty"`
}

type c14Case struct {
	ID       int      `json:"id"`
	Kind     string   `json:"kind"`
	Start    []byte   `json:"start"` // the strings as bytes (they may be malformed UTF-8)
	End      []byte   `json:"end"`
	Weekdays []int    `json:"weekdays"`
	Dates    [][]byte `json:"dates"`
	Sec      int64    `json:"sec"` // Unix seconds (floor) and nanoseconds of the instant
	Ns       int64    `json:"ns"`
	Zones    []string `json:"zones"` // "UTC", "local", "fixed:<seconds east>", "name:<IANA name>"
	// display only
	Text string `json:"text"`
	// observed
	Offsets []int    `json:"offsets"`
	Outs    []c14Out `json:"outs"`
	GoDate  [3]int   `json:"go_date"`
	GoWd    int      `json:"go_weekday"`
	Key     string   `json:"key"`

	near bool // instant within 2 s of a window or day boundary
}

// ---------- running the implementation ----------

func c14Loc(spec string) *time.Location {
	switch {
	case spec == "UTC":
		return time.UTC
	case spec == "local":
		return time.Local
	case strings.HasPrefix(spec, "fixed:"):
		n, err := strconv.Atoi(spec[len("fixed:"):])
		if err != nil {
			return time.UTC
		}
		return time.FixedZone(spec, n)
	case strings.HasPrefix(spec, "name:"):
		l, err := time.LoadLocation(spec[len("name:"):])
		if err != nil {
			return time.UTC
		}
		return l
	}
	return time.UTC
}

func c14ErrCode(err error) int {
	m := err.Error()
	switch {
	case strings.HasPrefix(m, "TimeRange: invalid start"):
		return 1
	case strings.HasPrefix(m, "TimeRange: invalid end"):
		return 2
	case strings.HasPrefix(m, "Invalid date"):
		return 3
	}
	return 8
}

func c14RunImpl(c *c14Case) {
	wds := make([]time.Weekday, len(c.Weekdays))
	for i, w := range c.Weekdays {
		wds[i] = time.Weekday(w)
	}
	dates := make([]string, len(c.Dates))
	for i, d := range c.Dates {
		dates[i] = string(d)
	}
	c.Offsets, c.Outs = nil, nil
	for _, z := range c.Zones {
		t := time.Unix(c.Sec, c.Ns).In(c14Loc(z))
		_, off := t.Zone()
		out := func() (o c14Out) {
			defer func() {
				if r := recover(); r != nil {
					o = c14Out{Panic: true}
				}
			}()
			// fresh slices per call: the code under test must not be able to
			// influence later calls through them
			act, err := client.VerifScheduleActive(string(c.Start), string(c.End),
				append([]time.Weekday{}, wds...), append([]string{}, dates...), t)
			if err != nil {
				return c14Out{Err: c14ErrCode(err)}
			}
			return c14Out{Active: act}
		}()
		c.Offsets = append(c.Offsets, off)
		c.Outs = append(c.Outs, out)
	}
	u := time.Unix(c.Sec, c.Ns).UTC()
	y, m, d := u.Date()
	c.GoDate = [3]int{y, int(m), d}
	c.GoWd = int(u.Weekday())
	c.Text = fmt.Sprintf("%q-%q wd=%v dates=%q at %s", c.Start, c.End, c.Weekdays, c.Dates, u.Format("2006-01-02T15:04:05.000000000Z Mon"))
}

func c14Val(c *c14Case) string {
	wds := make([]string, len(c.Weekdays))
	for i, w := range c.Weekdays {
		wds[i] = vZ(int64(w))
	}
	offs := make([]string, len(c.Offsets))
	for i, o := range c.Offsets {
		offs[i] = vZ(int64(o))
	}
	outs := make([]string, len(c.Outs))
	for i, o := range c.Outs {
		switch {
		case o.Panic:
			outs[i] = vL("2")
		case o.Err != 0:
			outs[i] = vL("1", vI(o.Err))
		default:
			outs[i] = vL("0", vBool(o.Active))
		}
	}
	return vL(vB(c.Start), vB(c.End), vL(wds...), vBL(c.Dates), vZ(c.Sec), vN(uint64(c.Ns)),
		vL(offs...), vL(outs...),
		vL(vZ(int64(c.GoDate[0])), vZ(int64(c.GoDate[1])), vZ(int64(c.GoDate[2]))), vZ(int64(c.GoWd)))
}

// ---------- generator ----------

var c14ZonePool = []string{
	"fixed:50400", "fixed:-50400", "fixed:-43200", // +14:00, -14:00, -12:00
	"fixed:19800", "fixed:20700", "fixed:-12600", "fixed:45900", // +05:30, +05:45, -03:30, +12:45
	"fixed:1", "fixed:-86399", // exotic
	"name:America/New_York", "name:Australia/Lord_Howe", "name:Pacific/Kiritimati",
	"name:Asia/Kolkata", "name:Europe/London", "name:Pacific/Chatham", "local",
}

func c14Zones(r *rand.Rand, n int) []string {
	zs := []string{"UTC"}
	for len(zs) < n {
		if r.Intn(3) == 0 { // the extreme offsets often
			zs = append(zs, c14ZonePool[r.Intn(2)])
		} else {
			zs = append(zs, c14ZonePool[r.Intn(len(c14ZonePool))])
		}
	}
	return zs
}

func c14Day(y int, m time.Month, d int) int64 {
	return time.Date(y, m, d, 0, 0, 0, 0, time.UTC).Unix() / 86400 // exact: midnight UTC
}

func c14DateOf(day int64) (int, int, int) {
	y, m, d := time.Unix(day*86400, 0).UTC().Date()
	return y, int(m), d
}

func c14FmtDate(y, m, d int) []byte { return []byte(fmt.Sprintf("%04d-%02d-%02d", y, m, d)) }

func c14FmtHM(r *rand.Rand, min int) []byte {
	h, m := min/60, min%60
	if h < 10 && r.Intn(2) == 0 {
		return []byte(fmt.Sprintf("%d:%02d", h, m))
	}
	return []byte(fmt.Sprintf("%02d:%02d", h, m))
}

var c14SpecialDays = [][3]int{
	{2024, 2, 28}, {2024, 2, 29}, {2024, 3, 1}, {2023, 2, 28}, {2023, 3, 1}, {2000, 2, 29}, {2000, 3, 1},
	{1900, 2, 28}, {1900, 3, 1}, {2100, 2, 28}, {2100, 3, 1}, {2023, 12, 31}, {2024, 1, 1}, {2024, 12, 31},
	{2025, 1, 1}, {1999, 12, 31}, {2000, 1, 1}, {1969, 12, 31}, {1970, 1, 1}, {1970, 1, 2}, {2024, 4, 30},
	{2024, 5, 1}, {2024, 1, 31}, {2024, 2, 1}, {2025, 2, 28}, {2025, 3, 1}, {2024, 3, 2}, {2024, 3, 3},
	{2024, 3, 4}, {2038, 1, 19}, {1901, 12, 13}, {9999, 12, 31}, {1, 1, 1}, {0, 12, 31}, {0, 2, 29}, {1582, 10, 10},
	{2200, 12, 31}, {1899, 12, 31},
}

var c14Minutes = []int{0, 0, 1, 59, 60, 61, 120, 300, 479, 480, 719, 720, 721, 1020, 1379, 1380, 1438, 1439, 1439}

func c14Minute(r *rand.Rand) int {
	if r.Intn(2) == 0 {
		return c14Minutes[r.Intn(len(c14Minutes))]
	}
	return r.Intn(1440)
}

var c14Offsets = []int64{-2e9, -1e9, -1, 0, 1, 1e9, 2e9, -5e8, 5e8, -1999999999, 1999999999}

var c14BadHM = []string{"", "8", "8:0", ":00", "24:00", "23:60", "25:61", "99:99", "123:456", "x12:34y", "12:34:56",
	" 7:05", "7:05 ", "-1:00", "1\xef\xbc\x92:00", "\xff8:00", "12;00", "\xd9\xa3:\xd9\xa0\xd9\xa0", "0:000", "007:05",
	"7:5", "7::05", "1:2:34", "12:3x4:56", "ab", "::", "1:1:11", "9:59\n", "00:00:00", "٣٣:٣٣", "１２:３４", "7:05:", "+7:05"}

var c14BadDate = []string{"", "2024-1-05", "20240105", "2024-01-5", "12024-01-01", "2024-01-011", "abcd-ef-gh",
	"2024/01/01", "x2024-01-01y", "2024-01", "24-01-01", "2024-01-01T00:00:00Z", " 2024-02-29", "2024-02-29 ",
	"2024--02-29", "2024-02-2\xff", "\xff2024-02-29", "-2024-02-29", "2024-02-29-2024-03-01", "99999-12-31", "２０２４-02-29"}

func c14RandStr(r *rand.Rand, alpha string) []byte {
	n := r.Intn(12)
	b := make([]byte, n)
	for i := range b {
		b[i] = alpha[r.Intn(len(alpha))]
	}
	return b
}

func c14Gen(r *rand.Rand) *c14Case {
	c := &c14Case{Kind: "wellformed"}
	// --- base day D0: a candidate start day of a window
	var d0 int64
	switch k := r.Intn(20); {
	case k < 7:
		s := c14SpecialDays[r.Intn(len(c14SpecialDays))]
		d0 = c14Day(s[0], time.Month(s[1]), s[2])
	case k < 15:
		d0 = c14Day(1900, 1, 1) + r.Int63n(c14Day(2201, 1, 1)-c14Day(1900, 1, 1))
	case k < 17:
		d0 = c14Day(1, 1, 2) + r.Int63n(c14Day(9999, 12, 30)-c14Day(1, 1, 2))
	default:
		d0 = c14Day(2020, 1, 1) + r.Int63n(4000)
	}
	// --- window
	sm, em := c14Minute(r), c14Minute(r)
	switch r.Intn(10) {
	case 0, 1: // start = end: 24 h
		em = sm
	case 2, 3, 4: // wrap past midnight
		if sm < em {
			sm, em = em, sm
		}
	case 5, 6, 7:
		if em < sm {
			sm, em = em, sm
		}
	}
	c.Start, c.End = c14FmtHM(r, sm), c14FmtHM(r, em)
	wrap := !(sm < em)
	// --- weekday filter, chosen relative to D0 so that it matters
	wd0 := int(((d0+4)%7 + 7) % 7)
	switch k := r.Intn(20); {
	case k < 6:
	case k < 11:
		c.Weekdays = []int{wd0}
	case k < 13:
		c.Weekdays = []int{(wd0 + 6) % 7}
	case k < 15:
		c.Weekdays = []int{(wd0 + 1) % 7}
	case k < 16:
		c.Weekdays = []int{0, 1, 2, 3, 4, 5, 6}
	case k < 17:
		for w := 0; w < 7; w++ {
			if w != wd0 {
				c.Weekdays = append(c.Weekdays, w)
			}
		}
	default:
		mask := 1 + r.Intn(126)
		for w := 0; w < 7; w++ {
			if mask&(1<<w) != 0 {
				c.Weekdays = append(c.Weekdays, w)
			}
		}
	}
	r.Shuffle(len(c.Weekdays), func(i, j int) { c.Weekdays[i], c.Weekdays[j] = c.Weekdays[j], c.Weekdays[i] })
	if len(c.Weekdays) > 0 && r.Intn(20) == 0 {
		c.Weekdays = append(c.Weekdays, c.Weekdays[0])
	}
	// --- date filter
	if r.Intn(2) == 0 {
		n := 1 + r.Intn(3)
		for i := 0; i < n; i++ {
			var y, m, d int
			switch k := r.Intn(10); {
			case k < 4:
				y, m, d = c14DateOf(d0)
			case k < 6:
				y, m, d = c14DateOf(d0 - 1)
			case k < 7:
				y, m, d = c14DateOf(d0 + 1)
			case k < 8:
				y, m, d = c14DateOf(d0 - 3 + r.Int63n(7))
			case k < 9: // D0's date (or a neighbour's) with one component off
				y, m, d = c14DateOf(d0 - 1 + r.Int63n(3))
				switch r.Intn(5) {
				case 0:
					y += []int{-1, 1, -100, 4}[r.Intn(4)]
				case 1:
					m = (m+[]int{0, 10, 1}[r.Intn(3)])%12 + 1
				case 2:
					d = d%28 + 1
				case 3:
					m, d = d, m
				default:
					y, m = y+1, (m+5)%12+1
				}
			default: // a date that no day has, close to D0's
				y, m, d = c14DateOf(d0)
				switch r.Intn(4) {
				case 0:
					m, d = 2, 30
				case 1:
					d = 0
				case 2:
					m = 13
				default:
					if m == 2 && d == 28 {
						d = 29
					} else {
						d = 32
					}
				}
			}
			c.Dates = append(c.Dates, c14FmtDate(y, m, d))
		}
		if r.Intn(10) == 0 {
			c.Dates = append(c.Dates, c.Dates[0])
		}
	}
	// --- instant: around a boundary of a window that starts on D0-1, D0 or D0+1, or random
	if r.Intn(4) != 0 {
		dd := d0
		switch r.Intn(6) {
		case 0:
			dd = d0 - 1
		case 1:
			dd = d0 + 1
		}
		var b int64
		switch r.Intn(7) {
		case 0, 1, 2:
			b = dd*86400 + int64(sm)*60
		case 3, 4, 5:
			b = dd*86400 + int64(em)*60
			if wrap {
				b += 86400
			}
		default:
			b = dd * 86400 // the day boundary itself
		}
		off := c14Offsets[r.Intn(len(c14Offsets))]
		if r.Intn(8) == 0 {
			off = r.Int63n(4e9) - 2e9
		}
		tot := off + 4e9 // keep the division below on non-negative numbers
		c.Sec = b - 4 + tot/1e9
		c.Ns = tot % 1e9
		c.near = true
	} else {
		c.Sec = d0*86400 - 86400 + r.Int63n(3*86400)
		switch r.Intn(3) {
		case 0:
			c.Ns = 0
		case 1:
			c.Ns = 999999999
		default:
			c.Ns = r.Int63n(1e9)
		}
	}
	// --- the malformed stream: strings outside the strict reading, odd weekday numbers
	if r.Intn(8) == 0 {
		c.Kind = "malformed"
		switch r.Intn(7) {
		case 0:
			c.Start = []byte(c14BadHM[r.Intn(len(c14BadHM))])
		case 1:
			c.End = []byte(c14BadHM[r.Intn(len(c14BadHM))])
		case 2:
			c.Start = c14RandStr(r, "0123456789::: x\xff")
			if r.Intn(2) == 0 {
				c.End = c14RandStr(r, "0123456789::: x\xff")
			}
		case 3:
			c.Dates = append(c.Dates, []byte(c14BadDate[r.Intn(len(c14BadDate))]))
			r.Shuffle(len(c.Dates), func(i, j int) { c.Dates[i], c.Dates[j] = c.Dates[j], c.Dates[i] })
		case 4:
			c.Dates = append(c.Dates, c14RandStr(r, "0123456789--- x\xff"))
		case 5:
			c.Weekdays = append(c.Weekdays, []int{7, -1, 100, -7, 13}[r.Intn(5)])
		default: // text around a well-formed value: the expressions are not anchored
			c.Start = append(append([]byte("at "), c.Start...), []byte(" h")...)
			if len(c.Dates) > 0 {
				c.Dates[0] = append(append([]byte("on "), c.Dates[0]...), '.')
			}
		}
	}
	c.Zones = c14Zones(r, 4)
	return c
}

// calendar sweep: one case per day, the schedule selects exactly that day by
// its date (as Go prints it) and weekday; active at noon, and the model's
// calendar is compared with Go's for the day
func c14CivilCase(day int64, r *rand.Rand) *c14Case {
	y, m, d := c14DateOf(day)
	c := &c14Case{Kind: "calendar", Start: []byte("0:00"), End: []byte("0:00"),
		Weekdays: []int{int(time.Unix(day*86400, 0).UTC().Weekday())},
		Dates:    [][]byte{c14FmtDate(y, m, d)},
		Sec:      day*86400 + 43200, Zones: []string{"UTC", c14ZonePool[r.Intn(2)]}}
	switch r.Intn(3) { // the ends of the 24 h window as well
	case 0:
		c.Sec, c.Ns = day*86400, 0
	case 1:
		c.Sec, c.Ns = day*86400+86399, 999999999
	}
	return c
}

func c14CivilSweep(r *rand.Rand, all bool) []*c14Case {
	var out []*c14Case
	lo, hi := c14Day(1900, 1, 1), c14Day(2200, 12, 31)
	if all {
		for day := lo; day <= hi; day++ {
			out = append(out, c14CivilCase(day, r))
		}
		return out
	}
	for y := 1900; y <= 2200; y++ {
		for _, day := range []int64{c14Day(y, 2, 28), c14Day(y, 2, 28) + 1, c14Day(y, 3, 1), c14Day(y, 12, 31), c14Day(y, 1, 1)} {
			out = append(out, c14CivilCase(day, r))
		}
	}
	for i := 0; i < 1500; i++ {
		out = append(out, c14CivilCase(lo+r.Int63n(hi-lo+1), r))
	}
	return out
}

// every minute of the nine days 2024-02-24 (Saturday) .. 2024-03-03 (Sunday):
// a week end, a leap day and a month end; three window shapes, five weekday sets
func c14Exhaustive() []*c14Case {
	var out []*c14Case
	shapes := [][2]string{{"8:00", "17:00"}, {"22:00", "2:00"}, {"06:30", "06:30"}}
	wdsets := [][]int{nil, {6}, {0, 6}, {1, 2, 3, 4, 5}, {4}}
	lo := c14Day(2024, 2, 24) * 86400
	for _, sh := range shapes {
		for _, ws := range wdsets {
			for mnt := int64(0); mnt < 9*1440; mnt++ {
				out = append(out, &c14Case{Kind: "exhaustive", Start: []byte(sh[0]), End: []byte(sh[1]),
					Weekdays: ws, Sec: lo + mnt*60, Zones: []string{"UTC"}})
			}
		}
	}
	return out
}

func c14Digest(c *c14Case) string {
	h := sha1.New()
	b, _ := json.Marshal([]any{c.Start, c.End, c.Weekdays, c.Dates, c.Sec, c.Ns})
	h.Write(b)
	return hex.EncodeToString(h.Sum(nil))[:16]
}

func runC14(cfg *config) error {
	cs := newCaseSet("c14")
	var cases []*c14Case
	if cfg.replay != "" {
		b, err := os.ReadFile(cfg.replay)
		if err != nil {
			return err
		}
		var rp struct {
			Cases []*c14Case `json:"cases"`
		}
		if err := json.Unmarshal(b, &rp); err != nil {
			return err
		}
		for _, c := range rp.Cases {
			if len(c.Zones) == 0 {
				c.Zones = []string{"UTC"}
			}
			cases = append(cases, c)
		}
	} else {
		r := rand.New(rand.NewSource(cfg.seed))
		n := 6000 * cfg.scale
		for i := 0; i < n; i++ {
			cases = append(cases, c14Gen(r))
		}
		// the deterministic sweeps belong to the thorough tier; search runs only enlarge the random part
		full := cfg.tier == "thorough"
		cases = append(cases, c14CivilSweep(r, full)...)
		if full {
			cases = append(cases, c14Exhaustive()...)
		}
	}
	evals := 0
	for i, c := range cases {
		c.ID = i
		c.Key = ""
		c14RunImpl(c)
		evals += len(c.Outs)
		cs.add(c14Val(c), c)
		cs.count("kind:" + c.Kind)
		if c.Kind != "malformed" {
			cs.count("window:" + c14Shape(c))
			cs.count(fmt.Sprintf("filters:weekdays=%s,dates=%s", c14Size(len(c.Weekdays)), c14Size(len(c.Dates))))
			if c.near {
				cs.count("instant:within-2s-of-boundary")
			} else if c.Kind == "wellformed" {
				cs.count("instant:random")
			}
			// non-trivial: a well-formed schedule with a filter, or an instant within 2 s of a boundary
			if len(c.Weekdays) > 0 || len(c.Dates) > 0 || c.near {
				cs.markNontrivial(c14Digest(c))
			}
		}
		if c.Sec < 0 {
			cs.count("instant:before-1970")
		}
		for _, z := range c.Zones {
			cs.count("zone:" + z)
		}
		o := c.Outs[0]
		switch {
		case o.Panic:
			cs.count("result:panic")
		case o.Err != 0:
			cs.count(fmt.Sprintf("result:err%d", o.Err))
		case o.Active:
			cs.count("result:active")
		default:
			cs.count("result:inactive")
		}
		if i < 3 {
			cs.samples = append(cs.samples, c)
		}
	}
	cs.extra["extra"] = map[string]any{"implementation_calls": evals}
	return cs.write(cfg.out)
}

func c14Size(n int) string {
	switch {
	case n == 0:
		return "0"
	case n == 1:
		return "1"
	}
	return ">1"
}

func c14Shape(c *c14Case) string {
	p := func(b []byte) int {
		var h, m int
		if _, err := fmt.Sscanf(string(b), "%d:%d", &h, &m); err != nil {
			return -1
		}
		return h*60 + m
	}
	s, e := p(c.Start), p(c.End)
	switch {
	case s < 0 || e < 0:
		return "other"
	case s < e:
		return "same-day"
	case s == e:
		return "start=end"
	}
	return "wrap"
}
