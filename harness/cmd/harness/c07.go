package main

// C07 (exactly one running client per live configured node) and the runner
// shared with C08: the real client.NewManager with an instrumented client type
// on a full instance (embedded NATS server + store on a temp file).  Every
// constructor / Run / Stop / Points / EdgePoints invocation is logged with a
// logical clock.  A case is a list of steps; each step applies store requests,
// triggers a rescan by creating a throw-away node of an unrelated type, waits
// (by polling the log against the state the store dump calls for, never by a
// fixed sleep) until the manager has settled, flushes every per-client
// subscription with a sentinel message and records dump, lifecycle events,
// callbacks and the running set.

import (
	"bufio"
	"crypto/sha1"
	"encoding/hex"
	"encoding/json"
	"fmt"
	"io"
	"log"
	"math"
	"math/rand"
	"os"
	"os/exec"
	"runtime"
	"sort"
	"strings"
	"sync"
	"time"

	"github.com/nats-io/nats.go"
	"github.com/simpleiot/simpleiot/client"
	"github.com/simpleiot/simpleiot/data"
)

// ---- the managed node type (type name -> node type "c07Node") and its child type ----

type c07Kid struct {
	ID          string `node:"id"`
	Parent      string `node:"parent"`
	Description string `point:"description"`
	Role        string `edgepoint:"role"`
}

type c07Node struct {
	ID     string `node:"id"`
	Parent string `node:"parent"`
	// a field whose type cannot take every value (declared before the others: a refused value here must not keep the
	// fields after it from being updated); not part of the compared configuration
	Level       uint8    `point:"level"`
	Description string   `point:"description"`
	Value       float64  `point:"value"`
	Role        string   `edgepoint:"role"`
	Kids        []c07Kid `child:"c07Kid"`
}

const (
	c07TypeNode = "c07Node"
	c07TypeKid  = "c07Kid"
	c07TypePar  = "c07Par"
	c07TypeTmp  = "c07Tmp"
	c07Sentinel = "c07sentinel"
	c07Base     = int64(1700000000) * 1e9
)

// ---- canonical projection of a typed configuration ----

type c07KidCfg struct {
	ID   string `json:"id"`
	Desc string `json:"desc"`
	Role string `json:"role"`
}

type c07Cfg struct {
	ID     string      `json:"id"`
	Parent string      `json:"parent"`
	Desc   string      `json:"desc"`
	VBits  uint64      `json:"vbits"`
	Role   string      `json:"role"`
	Kids   []c07KidCfg `json:"kids"`
}

func c07CfgOf(n c07Node) c07Cfg {
	c := c07Cfg{ID: n.ID, Parent: n.Parent, Desc: n.Description, VBits: math.Float64bits(n.Value), Role: n.Role, Kids: []c07KidCfg{}}
	for _, k := range n.Kids {
		c.Kids = append(c.Kids, c07KidCfg{ID: k.ID, Desc: k.Description, Role: k.Role})
	}
	sort.SliceStable(c.Kids, func(i, j int) bool { return c.Kids[i].ID < c.Kids[j].ID })
	return c
}

func (c c07Cfg) val() string {
	kids := make([]string, len(c.Kids))
	for i, k := range c.Kids {
		kids[i] = vL(vS(k.ID), vS(k.Desc), vS(k.Role))
	}
	return vL(vS(c.ID), vS(c.Parent), vS(c.Desc), vN(c.VBits), vS(c.Role), vL(kids...))
}

// ---- the log ----

type c07Ev struct {
	Clock  int      `json:"clock"`
	Kind   string   `json:"kind"` // new, run, stop, exit, points, edge
	Inst   int      `json:"inst"`
	Key    string   `json:"key"`
	Cfg    *c07Cfg  `json:"cfg,omitempty"`
	Node   string   `json:"node,omitempty"`
	Parent string   `json:"parent,omitempty"`
	Points []sPoint `json:"points,omitempty"`
	// the slice as the manager handed it over: a client may keep it (the clients of the repository pass it on to their
	// Run loop through a channel), so what it holds is read when the log is looked at, not inside the callback
	raw []data.Point
}

type c07Log struct {
	mu    sync.Mutex
	clock int
	evs   []c07Ev
	insts []*c07Client
	// how long a client takes to return from Run after Stop (a client that closes a port or flushes a file first)
	stopDelay time.Duration
}

func (l *c07Log) add(e c07Ev) {
	l.mu.Lock()
	l.clock++
	e.Clock = l.clock
	l.evs = append(l.evs, e)
	l.mu.Unlock()
}

func (l *c07Log) snapshot() ([]c07Ev, []*c07Client) {
	l.mu.Lock()
	defer l.mu.Unlock()
	for i := range l.evs {
		if l.evs[i].raw != nil {
			l.evs[i].Points = c07SPoints(l.evs[i].raw)
		}
	}
	return append([]c07Ev(nil), l.evs...), append([]*c07Client(nil), l.insts...)
}

// ---- the instrumented client ----

type c07Client struct {
	lg     *c07Log
	inst   int
	key    string
	node   string
	mu     sync.Mutex
	cfg    c07Node
	ack    int // highest sentinel number seen
	stopCh chan struct{}
	once   sync.Once
}

func (l *c07Log) construct(_ *nats.Conn, config c07Node) client.Client {
	l.mu.Lock()
	c := &c07Client{lg: l, inst: len(l.insts), key: config.Parent + "-" + config.ID, node: config.ID, cfg: config, stopCh: make(chan struct{})}
	// the client owns its configuration: do not share the slice with the manager
	c.cfg.Kids = append([]c07Kid(nil), config.Kids...)
	l.insts = append(l.insts, c)
	l.clock++
	cf := c07CfgOf(config)
	l.evs = append(l.evs, c07Ev{Clock: l.clock, Kind: "new", Inst: c.inst, Key: c.key, Cfg: &cf})
	l.mu.Unlock()
	return c
}

func (c *c07Client) Run() error {
	c.lg.add(c07Ev{Kind: "run", Inst: c.inst, Key: c.key})
	<-c.stopCh
	if c.lg.stopDelay > 0 {
		time.Sleep(c.lg.stopDelay)
	}
	c.lg.add(c07Ev{Kind: "exit", Inst: c.inst, Key: c.key})
	return nil
}

func (c *c07Client) Stop(_ error) {
	c.lg.add(c07Ev{Kind: "stop", Inst: c.inst, Key: c.key})
	c.once.Do(func() { close(c.stopCh) })
}

func c07SPoints(pts []data.Point) []sPoint {
	out := make([]sPoint, len(pts))
	for i, p := range pts {
		out[i] = sPointFrom(p)
	}
	return out
}

func (c *c07Client) Points(id string, pts []data.Point) {
	if strings.HasPrefix(id, c07Sentinel) {
		var n int
		_, _ = fmt.Sscanf(id[len(c07Sentinel):], "%d", &n)
		c.mu.Lock()
		if n > c.ack {
			c.ack = n
		}
		c.mu.Unlock()
		return
	}
	c.lg.add(c07Ev{Kind: "points", Inst: c.inst, Key: c.key, Node: id, Points: c07SPoints(pts), raw: pts})
	c.mu.Lock()
	_ = data.MergePoints(id, pts, &c.cfg)
	c.mu.Unlock()
}

func (c *c07Client) EdgePoints(id, parent string, pts []data.Point) {
	c.lg.add(c07Ev{Kind: "edge", Inst: c.inst, Key: c.key, Node: id, Parent: parent, Points: c07SPoints(pts), raw: pts})
	c.mu.Lock()
	_ = data.MergeEdgePoints(id, parent, pts, &c.cfg)
	c.mu.Unlock()
}

// own applies points the client authored itself (they are not echoed back to it)
func (c *c07Client) own(id string, pts []data.Point) {
	c.mu.Lock()
	_ = data.MergePoints(id, pts, &c.cfg)
	c.mu.Unlock()
}

func (c *c07Client) folded() c07Cfg {
	c.mu.Lock()
	defer c.mu.Unlock()
	return c07CfgOf(c.cfg)
}

func (c *c07Client) acked() int {
	c.mu.Lock()
	defer c.mu.Unlock()
	return c.ack
}

// ---- cases ----

type c07Step struct {
	Kind int   `json:"kind"` // 0 one request then settle; 1 batch of data writes (no structure change); 2 rapid burst; 3 before the manager starts
	Ops  []sOp `json:"ops"`
}

type c07OpObs struct {
	Op    sOp    `json:"op"`
	Reply int    `json:"reply"`
	Err   string `json:"err,omitempty"`
	Pubs  []sPub `json:"pubs"`
}

type c07Running struct {
	Key   string  `json:"key"`
	Inst  int     `json:"inst"`
	Fold  c07Cfg  `json:"fold"`
	Store *c07Cfg `json:"store"`
}

type c07CbObs struct {
	Inst int     `json:"inst"`
	Cbs  []c07Ev `json:"cbs"`
}

type c07StepObs struct {
	Kind    int          `json:"kind"`
	Ops     []c07OpObs   `json:"ops"`
	Dump    []sView      `json:"dump"`
	Events  []c07Ev      `json:"events"`
	Running []c07Running `json:"running"`
	Cbs     []c07CbObs   `json:"cbs"`
}

type c07Case struct {
	ID          int            `json:"id"`
	Prop        string         `json:"prop"`
	Kind        string         `json:"kind"`
	ParentTypes []string       `json:"parent_types"`
	Nodes       []string       `json:"nodes"`
	Steps       []c07Step      `json:"steps"`
	OpKinds     map[string]int `json:"op_kinds,omitempty"`
	StopDelayMs int            `json:"stop_delay_ms,omitempty"` // clients of this history take that long to return from Run
	// observations
	Root         string       `json:"root"`
	Init         []sView      `json:"init"`
	Obs          []c07StepObs `json:"obs"`
	StopReturned bool         `json:"stop_returned"`
	StopEvents   []c07Ev      `json:"stop_events"`
	Missed       string       `json:"missed,omitempty"`
	Retried      bool         `json:"retried,omitempty"`
	Crashed      bool         `json:"crashed,omitempty"`
	Key          string       `json:"key"`
}

func c07EvVal(e c07Ev) string {
	switch e.Kind {
	case "new":
		return vL("0", vS(e.Key), vI(e.Inst), e.Cfg.val())
	case "exit":
		return vL("1", vS(e.Key), vI(e.Inst))
	case "stop":
		return vL("2", vS(e.Key), vI(e.Inst))
	case "points":
		return vL("0", vS(e.Node), sPointsVal(e.Points))
	case "edge":
		return vL("1", vS(e.Node), vS(e.Parent), sPointsVal(e.Points))
	}
	return vL("9")
}

func c07EvsVal(es []c07Ev) string {
	items := make([]string, len(es))
	for i, e := range es {
		items[i] = c07EvVal(e)
	}
	return vL(items...)
}

func c07ViewsVal(vs []sView) string {
	items := make([]string, len(vs))
	for i, v := range vs {
		items[i] = v.val()
	}
	return vL(items...)
}

func (c *c07Case) val() string {
	steps := make([]string, len(c.Obs))
	for i, st := range c.Obs {
		ops := make([]string, len(st.Ops))
		for j, o := range st.Ops {
			var op string
			if o.Op.Kind == "np" {
				op = vL("0", vS(o.Op.Node), sPointsVal(o.Op.Points))
			} else {
				op = vL("1", vS(o.Op.Node), vS(o.Op.Parent), sPointsVal(o.Op.Points))
			}
			pubs := make([]string, len(o.Pubs))
			for k, p := range o.Pubs {
				pubs[k] = vL(vS(p.Subject), sPointsVal(p.Points))
			}
			ops[j] = vL(op, vI(o.Reply), vL(pubs...))
		}
		run := make([]string, len(st.Running))
		for j, r := range st.Running {
			sc := vNone()
			if r.Store != nil {
				sc = vSome(r.Store.val())
			}
			run[j] = vL(vS(r.Key), vI(r.Inst), r.Fold.val(), sc)
		}
		cbs := make([]string, len(st.Cbs))
		for j, cb := range st.Cbs {
			cbs[j] = vL(vI(cb.Inst), c07EvsVal(cb.Cbs))
		}
		steps[i] = vL(vI(st.Kind), vL(ops...), c07ViewsVal(st.Dump), c07EvsVal(st.Events), vL(run...), vL(cbs...))
	}
	// last field: the history was carried out completely (no deadline missed twice, no harness error)
	return vL(vS(c.Root), vS(c07TypeNode), vSL(c.ParentTypes), c07ViewsVal(c.Init), vL(steps...),
		vL(vBool(c.StopReturned), c07EvsVal(c.StopEvents)), vBool(c.Missed == "" && !c.Crashed && len(c.Obs) == len(c.Steps)))
}

func (c *c07Case) digest() string {
	b, _ := json.Marshal([]any{c.ParentTypes, c.Steps})
	h := sha1.Sum(b)
	return hex.EncodeToString(h[:8])
}

// ---- what the dump calls for (used only to know what to wait for) ----

func c07ViewDeleted(v sView) bool {
	for _, p := range v.EPts {
		if p.Type == "tombstone" && (p.Key == "" || p.Key == "0") {
			return math.Float64frombits(p.VBits) == 1
		}
	}
	return false
}

// keys parent-id of the live placements of the managed type below root
func c07GoPlacements(dump []sView, root string, ptypes []string) map[string]bool {
	isPar := map[string]bool{"group": true}
	for _, t := range ptypes {
		isPar[t] = true
	}
	out := map[string]bool{}
	seen := map[string]bool{}
	todo := []string{root}
	for len(todo) > 0 {
		x := todo[0]
		todo = todo[1:]
		if seen[x] {
			continue
		}
		seen[x] = true
		for _, v := range dump {
			if v.Up != x || c07ViewDeleted(v) {
				continue
			}
			if v.Type == c07TypeNode {
				out[v.Up+"-"+v.Down] = true
			}
			if isPar[v.Type] {
				todo = append(todo, v.Down)
			}
		}
	}
	return out
}

func c07RestartType(pts []sPoint) bool {
	for _, p := range pts {
		v := math.Float64frombits(p.VBits)
		if p.Type == "nodeType" || (p.Type == "tombstone" && (v == 1 || v == 0)) {
			return true
		}
	}
	return false
}

// ---- the runner ----

type c07Runner struct {
	c       *c07Case
	hnc     *nats.Conn
	sub     *nats.Subscription
	lg      *c07Log
	ids     []string
	clock   int64
	tmpN    int
	sentN   int
	stepDl  time.Duration
	missed  string
	lastEv  int // number of log entries already attributed to earlier steps
	running map[string]int
}

type c07Life struct {
	key             string
	node            string
	newClock        int
	stopped, exited bool
}

func c07Lives(evs []c07Ev, insts []*c07Client) []c07Life {
	lv := make([]c07Life, len(insts))
	for i, c := range insts {
		lv[i] = c07Life{key: c.key, node: c.node}
	}
	for _, e := range evs {
		if e.Inst >= len(lv) {
			continue
		}
		switch e.Kind {
		case "new":
			lv[e.Inst].newClock = e.Clock
		case "stop":
			lv[e.Inst].stopped = true
		case "exit":
			lv[e.Inst].exited = true
		}
	}
	return lv
}

func (rn *c07Runner) request(op sOp) c07OpObs {
	o := c07OpObs{Op: op, Pubs: []sPub{}}
	pts := make(data.Points, len(op.Points))
	for i, p := range op.Points {
		pts[i] = p.toData()
		if p.Time > rn.clock {
			rn.clock = p.Time
		}
	}
	payload, err := pts.ToPb()
	if err != nil {
		o.Reply, o.Err = 2, err.Error()
		return o
	}
	subject := "p." + op.Node
	if op.Kind == "ep" {
		subject += "." + op.Parent
	}
	msg, err := rn.hnc.Request(subject, payload, 10*time.Second)
	switch {
	case err != nil:
		o.Reply, o.Err = 2, err.Error()
	case len(msg.Data) > 0:
		o.Reply, o.Err = 1, string(msg.Data)
	}
	// everything the store published before replying was queued on this connection before the reply
	n, _, _ := rn.sub.Pending()
	for i := 0; i < n; i++ {
		m, err := rn.sub.NextMsg(time.Second)
		if err != nil {
			break
		}
		dp, err := data.PbDecodePoints(m.Data)
		if err != nil {
			continue
		}
		o.Pubs = append(o.Pubs, sPub{Subject: m.Subject, Points: c07SPoints(dp)})
	}
	return o
}

// create a throw-away node of an unrelated type: its node-type point on up.root.> makes the manager rescan
func (rn *c07Runner) trigger() c07OpObs {
	rn.tmpN++
	t := rn.clock
	return rn.request(sOp{Kind: "ep", Node: fmt.Sprintf("c07tmp%d", rn.tmpN), Parent: storeRootID, Points: []sPoint{
		{Type: "tombstone", Time: t}, {Type: "nodeType", Time: t, Text: c07TypeTmp}}})
}

// flush the per-client subscriptions of the given instances: a sentinel published on up.<node>.<sentinel> is
// handled after everything published before it (per-subscription order); re-sent until seen because the
// subscription of a client constructed a moment ago may not exist yet
func (rn *c07Runner) flush(only map[int]bool, deadline time.Time) bool {
	var first map[int]int
	lastSend := time.Time{}
	for {
		evs, insts := rn.lg.snapshot()
		lv := c07Lives(evs, insts)
		if first == nil {
			first = map[int]int{}
			for i, l := range lv {
				if !l.stopped && !l.exited && (only == nil || only[i]) {
					first[i] = -1
				}
			}
		}
		pending := 0
		for i := range first {
			if lv[i].stopped || lv[i].exited {
				continue
			}
			if first[i] >= 0 && insts[i].acked() >= first[i] {
				continue
			}
			pending++
		}
		if pending == 0 {
			return true
		}
		if time.Now().After(deadline) {
			return false
		}
		if time.Since(lastSend) > 20*time.Millisecond {
			lastSend = time.Now()
			rn.sentN++
			pts := data.Points{{Type: c07Sentinel, Time: time.Unix(0, c07Base), Origin: "c07h"}}
			payload, _ := pts.ToPb()
			sent := map[string]bool{}
			for i := range first {
				if lv[i].stopped || lv[i].exited {
					continue
				}
				if first[i] < 0 {
					first[i] = rn.sentN
				}
				if !sent[lv[i].node] {
					sent[lv[i].node] = true
					_ = rn.hnc.Publish(fmt.Sprintf("up.%s.%s%d", lv[i].node, c07Sentinel, rn.sentN), payload)
				}
			}
			_ = rn.hnc.Flush()
		}
		time.Sleep(time.Millisecond)
	}
}

// settled reports whether the log shows the state called for; hopeless when waiting cannot help any more
func (rn *c07Runner) settled(kind int, start map[string]int, startClock int, want map[string]bool, restart map[string]bool) (ok, hopeless bool) {
	evs, insts := rn.lg.snapshot()
	lv := c07Lives(evs, insts)
	newIn := map[string][]int{}
	for i, l := range lv {
		if l.newClock > startClock {
			newIn[l.key] = append(newIn[l.key], i)
		}
	}
	ok = true
	if kind == 2 {
		alive := map[string]int{}
		for _, l := range lv {
			if l.exited {
				continue
			}
			if l.stopped {
				ok = false
			}
			alive[l.key]++
		}
		for k, n := range alive {
			if !want[k] || n != 1 {
				ok = false
			}
		}
		for k := range want {
			if alive[k] != 1 {
				ok = false
			}
		}
		return ok, false
	}
	for k := range want {
		old, had := start[k]
		if had && !restart[k] {
			if lv[old].stopped || lv[old].exited {
				ok, hopeless = false, true
			}
			if len(newIn[k]) > 0 {
				ok, hopeless = false, true
			}
			continue
		}
		if had && !lv[old].exited {
			ok = false
		}
		switch len(newIn[k]) {
		case 0:
			ok = false
		case 1:
			n := newIn[k][0]
			if lv[n].stopped || lv[n].exited {
				ok, hopeless = false, true
			}
		default:
			ok, hopeless = false, true
		}
	}
	for k, old := range start {
		if want[k] {
			continue
		}
		if !lv[old].exited {
			ok = false
		}
	}
	for k := range newIn {
		if !want[k] {
			ok, hopeless = false, true
		}
	}
	return ok, hopeless
}

func (rn *c07Runner) storeCfg(parent, id string) *c07Cfg {
	nodes, err := client.GetNodes(rn.hnc, parent, id, "", false)
	if err != nil || len(nodes) == 0 {
		return nil
	}
	kids, err := client.GetNodes(rn.hnc, id, "all", "", false)
	if err != nil {
		return nil
	}
	nec := data.NodeEdgeChildren{NodeEdge: nodes[0]}
	for _, k := range kids {
		nec.Children = append(nec.Children, data.NodeEdgeChildren{NodeEdge: k})
	}
	var cfg c07Node
	// (an error only says that some point did not fit its field, e.g. a level of -3: the other fields are decoded)
	_ = data.Decode(nec, &cfg)
	cf := c07CfgOf(cfg)
	return &cf
}

// does the batch carry a point the client of node c authored itself (the batch is then not echoed back to it)?
func c07Own(op sOp, c string) bool {
	if op.Kind != "np" || len(op.Points) == 0 {
		return false
	}
	for _, p := range op.Points {
		if (p.Origin == "" && op.Node == c) || p.Origin == c {
			return true
		}
	}
	return false
}

func (rn *c07Runner) step(st c07Step) c07StepObs {
	obs := c07StepObs{Kind: st.Kind, Ops: []c07OpObs{}, Events: []c07Ev{}, Running: []c07Running{}, Cbs: []c07CbObs{}}
	evs0, insts0 := rn.lg.snapshot()
	startClock := 0
	if len(evs0) > 0 {
		startClock = evs0[len(evs0)-1].Clock
	}
	lv0 := c07Lives(evs0, insts0)
	start := map[string]int{}
	for i, l := range lv0 {
		if !l.exited {
			start[l.key] = i
		}
	}
	restart := map[string]bool{}
	for _, op := range st.Ops {
		if op.Kind == "wait-stop" {
			// not a request: the history goes on once some client has been told to stop and has not returned from Run yet
			// (a rescan is asked for first); gives up quietly after 3 s
			obs.Ops = append(obs.Ops, rn.trigger())
			for dl := time.Now().Add(3 * time.Second); time.Now().Before(dl); time.Sleep(time.Millisecond) {
				evs, insts := rn.lg.snapshot()
				winding := false
				for _, l := range c07Lives(evs, insts) {
					if l.stopped && !l.exited {
						winding = true
					}
				}
				if winding {
					break
				}
			}
			continue
		}
		// a client that authors a write has handled what it was told before
		var mine map[int]bool
		for k, i := range start {
			_ = k
			if c07Own(op, lv0[i].node) {
				if mine == nil {
					mine = map[int]bool{}
				}
				mine[i] = true
			}
		}
		if mine != nil && st.Kind == 1 {
			rn.flush(mine, time.Now().Add(5*time.Second))
		}
		o := rn.request(op)
		obs.Ops = append(obs.Ops, o)
		if o.Reply == 0 && mine != nil {
			pts := make([]data.Point, len(op.Points))
			for i, p := range op.Points {
				pts[i] = p.toData()
			}
			for i := range mine {
				insts0[i].own(op.Node, pts)
			}
		}
		for _, p := range o.Pubs {
			tk := strings.Split(p.Subject, ".")
			if len(tk) == 4 && c07RestartType(p.Points) {
				for k, i := range start {
					if lv0[i].node == tk[1] {
						restart[k] = true
					}
				}
			}
		}
	}
	if st.Kind != 1 {
		obs.Ops = append(obs.Ops, rn.trigger())
	}
	var err error
	obs.Dump, _, err = storeDump(rn.hnc, rn.ids)
	if err != nil {
		rn.missed = "dump: " + err.Error()
	}
	want := c07GoPlacements(obs.Dump, storeRootID, rn.c.ParentTypes)
	deadline := time.Now().Add(rn.stepDl)
	if st.Kind == 2 {
		deadline = time.Now().Add(2 * rn.stepDl)
	}
	for {
		ok, hopeless := rn.settled(st.Kind, start, startClock, want, restart)
		if ok {
			// everything published so far has been handled by the clients that are still running
			if !rn.flush(nil, deadline) {
				rn.missed = fmt.Sprintf("step %d: subscriptions not flushed", len(rn.c.Obs))
				break
			}
			if ok2, _ := rn.settled(st.Kind, start, startClock, want, restart); ok2 {
				break
			}
			continue
		}
		if hopeless || time.Now().After(deadline) {
			rn.missed = fmt.Sprintf("step %d: not settled (hopeless=%v)", len(rn.c.Obs), hopeless)
			rn.flush(nil, time.Now().Add(2*time.Second))
			break
		}
		time.Sleep(time.Millisecond)
	}
	// record
	evs, insts := rn.lg.snapshot()
	lv := c07Lives(evs, insts)
	cbs := map[int][]c07Ev{}
	for _, e := range evs[rn.lastEv:] {
		switch e.Kind {
		case "new", "exit", "stop":
			obs.Events = append(obs.Events, e)
		case "points", "edge":
			cbs[e.Inst] = append(cbs[e.Inst], e)
		}
	}
	rn.lastEv = len(evs)
	for i := range insts {
		if len(cbs[i]) > 0 {
			obs.Cbs = append(obs.Cbs, c07CbObs{Inst: i, Cbs: cbs[i]})
		}
	}
	for i, l := range lv {
		if l.exited {
			continue
		}
		r := c07Running{Key: l.key, Inst: i, Fold: insts[i].folded()}
		r.Store = rn.storeCfg(r.Fold.Parent, r.Fold.ID)
		obs.Running = append(obs.Running, r)
	}
	sort.SliceStable(obs.Running, func(i, j int) bool { return obs.Running[i].Key < obs.Running[j].Key })
	return obs
}

func c07RunCase(c *c07Case) error {
	dir, err := os.MkdirTemp("", "verif-c07-")
	if err != nil {
		return err
	}
	defer os.RemoveAll(dir)
	in, err := startInstance(dir, storeRootID)
	if err != nil {
		return err
	}
	defer in.stop()
	// the store subscribes before WaitStart returns but does not flush: make sure the server knows its subscriptions
	if err := in.nc.FlushTimeout(10 * time.Second); err != nil {
		return err
	}
	hnc, err := nats.Connect(in.url, nats.Timeout(10*time.Second), nats.NoEcho())
	if err != nil {
		return err
	}
	defer hnc.Close()
	mnc, err := nats.Connect(in.url, nats.Timeout(10*time.Second))
	if err != nil {
		return err
	}
	defer mnc.Close()
	sub, err := hnc.SubscribeSync("up.>")
	if err != nil {
		return err
	}
	_ = sub.SetPendingLimits(-1, -1)
	if err := hnc.Flush(); err != nil {
		return err
	}
	rn := &c07Runner{c: c, hnc: hnc, sub: sub, lg: &c07Log{stopDelay: time.Duration(c.StopDelayMs) * time.Millisecond}, clock: c07Base, stepDl: 12 * time.Second}
	rn.ids = append([]string{storeRootID}, c.Nodes...)
	kids, err := client.GetNodes(hnc, storeRootID, "all", "", true)
	if err != nil {
		return err
	}
	for _, k := range kids {
		rn.ids = append(rn.ids, k.ID)
	}
	c.Init, c.Root, err = storeDump(hnc, rn.ids)
	if err != nil {
		return err
	}
	c.Obs, c.StopEvents, c.Missed, c.StopReturned = nil, []c07Ev{}, "", false
	m := client.NewManager(mnc, rn.lg.construct, append([]string(nil), c.ParentTypes...))
	done := make(chan struct{})
	started := false
	start := func() {
		if !started {
			started = true
			go func() { _ = m.Run(); close(done) }()
		}
	}
	for _, st := range c.Steps {
		if st.Kind == 3 {
			// store population before the manager exists: plain requests, then start the manager and let it settle
			var pre []c07OpObs
			for _, op := range st.Ops {
				pre = append(pre, rn.request(op))
			}
			start()
			obs := rn.step(c07Step{Kind: 0})
			obs.Ops = append(pre, obs.Ops...)
			c.Obs = append(c.Obs, obs)
		} else {
			start()
			c.Obs = append(c.Obs, rn.step(st))
		}
		if rn.missed != "" {
			break
		}
	}
	start()
	c.Missed = rn.missed
	// stop the manager: every client must be stopped and Run must return
	m.Stop(nil)
	select {
	case <-done:
		c.StopReturned = true
	case <-time.After(15 * time.Second):
	}
	dl := time.Now().Add(10 * time.Second)
	for {
		evs, insts := rn.lg.snapshot()
		all := true
		for _, l := range c07Lives(evs, insts) {
			if !l.exited {
				all = false
			}
		}
		if all || time.Now().After(dl) {
			for _, e := range evs[rn.lastEv:] {
				if e.Kind == "new" || e.Kind == "exit" || e.Kind == "stop" {
					c.StopEvents = append(c.StopEvents, e)
				}
			}
			break
		}
		time.Sleep(time.Millisecond)
	}
	return nil
}

// ---- worker processes (an instance that wedges must not take the harness down) ----

func init() {
	areas["c07"] = c07Run
	areas["c07-worker"] = c07Worker
	areas["c07-corpus"] = c07Corpus
}

// c07Corpus writes the histories kept in corpus/C07/group-deletion.json (inputs only)
func c07Corpus(cfg *config) error {
	r := rand.New(rand.NewSource(cfg.seed))
	b, err := json.MarshalIndent(map[string]any{"property": "C07", "kind": "corpus",
		"cases": []*c07Case{c07GroupDeletion(r, 0, false), c07GroupDeletion(r, 1, true)}}, "", " ")
	if err != nil {
		return err
	}
	return os.WriteFile(cfg.out+"/group-deletion.json", b, 0o644)
}

func c07Worker(_ *config) error {
	log.SetOutput(io.Discard)
	// a manager that starts clients without end must not take the machine down: the worker gives up at 3 GiB of
	// heap (its case is then reported as one the worker did not survive)
	go func() {
		var ms runtime.MemStats
		for {
			time.Sleep(300 * time.Millisecond)
			runtime.ReadMemStats(&ms)
			if ms.HeapAlloc > 3<<30 {
				os.Exit(3)
			}
		}
	}()
	in := bufio.NewReaderSize(os.Stdin, 1<<20)
	out := bufio.NewWriter(os.Stdout)
	dec := json.NewDecoder(in)
	enc := json.NewEncoder(out)
	for {
		var c c07Case
		if err := dec.Decode(&c); err != nil {
			return nil
		}
		var err error
		for attempt := 0; attempt < 3; attempt++ {
			// an error of the harness itself (instance did not come up, request without responder) is not an observation
			if err = c07RunCase(&c); err == nil {
				break
			}
		}
		if err == nil && c.Missed != "" {
			// a deadline was missed: once more from a fresh instance; only what reproduces is reported
			first := c.Missed
			if err2 := c07RunCase(&c); err2 == nil {
				c.Retried = true
				if c.Missed != "" {
					c.Missed = first + " / " + c.Missed
				}
			}
		}
		if err != nil {
			c.Crashed = true
			c.Missed = "harness-error: " + err.Error()
		}
		if err := enc.Encode(&c); err != nil {
			return err
		}
		out.Flush()
	}
}

type c07Proc struct {
	cmd *exec.Cmd
	in  io.WriteCloser
	out *bufio.Reader
}

func c07NewProc() (*c07Proc, error) {
	exe, err := os.Executable()
	if err != nil {
		return nil, err
	}
	cmd := exec.Command(exe, "c07-worker")
	cmd.Stderr = io.Discard
	in, err := cmd.StdinPipe()
	if err != nil {
		return nil, err
	}
	outp, err := cmd.StdoutPipe()
	if err != nil {
		return nil, err
	}
	if err := cmd.Start(); err != nil {
		return nil, err
	}
	return &c07Proc{cmd: cmd, in: in, out: bufio.NewReaderSize(outp, 1<<20)}, nil
}

func (w *c07Proc) kill() {
	_ = w.in.Close()
	_ = w.cmd.Process.Kill()
	_ = w.cmd.Wait()
}

func (w *c07Proc) run(c *c07Case, timeout time.Duration) (*c07Case, bool) {
	b, _ := json.Marshal(c)
	if _, err := w.in.Write(append(b, '\n')); err != nil {
		return nil, false
	}
	type res struct {
		c  *c07Case
		ok bool
	}
	ch := make(chan res, 1)
	go func() {
		line, err := w.out.ReadBytes('\n')
		if err != nil {
			ch <- res{nil, false}
			return
		}
		var r c07Case
		if err := json.Unmarshal(line, &r); err != nil {
			ch <- res{nil, false}
			return
		}
		ch <- res{&r, true}
	}()
	select {
	case r := <-ch:
		return r.c, r.ok
	case <-time.After(timeout):
		return nil, false
	}
}

func c07RunAll(cases []*c07Case, workers int) []*c07Case {
	out := make([]*c07Case, len(cases))
	var mu sync.Mutex
	next, ran, missed := 0, 0, 0
	var wg sync.WaitGroup
	for k := 0; k < workers; k++ {
		wg.Add(1)
		go func() {
			defer wg.Done()
			var w *c07Proc
			defer func() {
				if w != nil {
					w.kill()
				}
			}()
			for {
				mu.Lock()
				i := next
				next++
				// when every one of the first dozen histories could not be carried out (twice each) the tree under test
				// breaks the runner itself: the remaining histories would only repeat that at 25 s apiece
				giveUp := ran >= 12 && missed == ran
				mu.Unlock()
				if i >= len(cases) || giveUp {
					return
				}
				var r *c07Case
				ok := false
				for attempt := 0; attempt < 2 && !ok; attempt++ {
					if w == nil {
						var err error
						w, err = c07NewProc()
						if err != nil {
							break
						}
					}
					r, ok = w.run(cases[i], 240*time.Second)
					if !ok {
						w.kill()
						w = nil
					}
				}
				if !ok {
					c := *cases[i]
					c.Crashed = true
					c.Missed = "instance died or hung"
					c.Obs, c.StopEvents = nil, []c07Ev{}
					r = &c
				}
				mu.Lock()
				ran++
				if r.Missed != "" {
					missed++
				}
				out[i] = r
				mu.Unlock()
			}
		}()
	}
	wg.Wait()
	var done []*c07Case
	for _, r := range out {
		if r != nil {
			done = append(done, r)
		}
	}
	return done
}

// ---- generator ----

type c07Gen struct {
	r      *rand.Rand
	clock  int64
	n      int
	nodes  []string
	typ    map[string]string
	edges  []string        // "parent>node" in creation order
	live   map[string]bool // edge -> not deleted
	steps  []c07Step
	kinds  map[string]int
	ptypes []string
}

func (g *c07Gen) tick() int64 { g.clock += 1e9; return g.clock }

func (g *c07Gen) fresh(prefix string) string {
	g.n++
	return fmt.Sprintf("%s%d", prefix, g.n)
}

func (g *c07Gen) createOps(id, typ, parent string) []sOp {
	var ops []sOp
	if typ == c07TypeNode || typ == c07TypeKid || g.r.Intn(3) == 0 {
		t := g.tick()
		pts := []sPoint{{Type: "description", Time: t, Text: "d-" + id, Origin: "u1"}}
		if typ == c07TypeNode && g.r.Intn(2) == 0 {
			pts = append(pts, sPoint{Type: "value", Time: t, VBits: math.Float64bits(float64(g.r.Intn(50))), Origin: "u1"})
		}
		ops = append(ops, sOp{Kind: "np", Node: id, Points: pts})
	}
	t := g.tick()
	who := "u1"
	if g.typ[parent] == c07TypeNode && g.r.Intn(3) == 0 {
		who = parent // a client that creates a child of its own node (as the Shelly and network-manager clients do) stamps it with its own id
	}
	ep := []sPoint{{Type: "tombstone", Time: t, Origin: who}, {Type: "nodeType", Time: t, Text: typ, Origin: who}}
	if g.r.Intn(4) == 0 {
		ep = append(ep, sPoint{Type: "role", Time: t, Text: "admin", Origin: who})
	}
	ops = append(ops, sOp{Kind: "ep", Node: id, Parent: parent, Points: ep})
	g.nodes = append(g.nodes, id)
	g.typ[id] = typ
	g.edges = append(g.edges, parent+">"+id)
	g.live[parent+">"+id] = true
	return ops
}

func (g *c07Gen) seq(kind string, ops ...sOp) {
	for _, op := range ops {
		g.steps = append(g.steps, c07Step{Kind: 0, Ops: []sOp{op}})
	}
	g.kinds[kind]++
}

func (g *c07Gen) nodesOf(types ...string) []string {
	var out []string
	for _, n := range g.nodes {
		for _, t := range types {
			if g.typ[n] == t {
				out = append(out, n)
			}
		}
	}
	return out
}

func (g *c07Gen) edgesInto(types ...string) []string {
	var out []string
	for _, e := range g.edges {
		n := e[strings.Index(e, ">")+1:]
		for _, t := range types {
			if g.typ[n] == t {
				out = append(out, e)
			}
		}
	}
	return out
}

func (g *c07Gen) liveEdgesInto(types ...string) []string {
	var out []string
	for _, e := range g.edgesInto(types...) {
		if g.live[e] {
			out = append(out, e)
		}
	}
	return out
}

func c07Split(e string) (string, string) {
	i := strings.Index(e, ">")
	return e[:i], e[i+1:]
}

func (g *c07Gen) tomb(e string, v float64) sOp {
	p, n := c07Split(e)
	g.live[e] = v != 1
	return sOp{Kind: "ep", Node: n, Parent: p, Points: []sPoint{{Type: "tombstone", Time: g.tick(), VBits: math.Float64bits(v), Origin: "u1"}}}
}

func (g *c07Gen) pick(l []string) string { return l[g.r.Intn(len(l))] }

// a place a node of the managed type (or a group) can hang from
func (g *c07Gen) holder() string {
	hs := append([]string{storeRootID}, g.nodesOf("group", c07TypePar)...)
	if g.r.Intn(8) == 0 {
		hs = append(hs, g.nodesOf("variable")...) // not a parent type: must not be found
	}
	return g.pick(hs)
}

func (g *c07Gen) randomOp() (string, []sOp) {
	switch x := g.r.Intn(100); {
	case x < 14: // new node of the managed type
		return "create", g.createOps(g.fresh("n"), c07TypeNode, g.holder())
	case x < 26: // delete a node of the managed type
		if es := g.edgesInto(c07TypeNode); len(es) > 0 {
			return "delete", []sOp{g.tomb(g.pick(es), 1)}
		}
	case x < 36: // undelete
		if es := g.edgesInto(c07TypeNode, "group", c07TypePar); len(es) > 0 {
			return "undelete", []sOp{g.tomb(g.pick(es), 0)}
		}
	case x < 46: // delete a group / parent-type node above clients
		if es := g.edgesInto("group", c07TypePar); len(es) > 0 {
			return "delete-holder", []sOp{g.tomb(g.pick(es), 1)}
		}
	case x < 58: // add a child
		if ns := g.nodesOf(c07TypeNode); len(ns) > 0 {
			return "add-child", g.createOps(g.fresh("k"), c07TypeKid, g.pick(ns))
		}
	case x < 68: // remove / restore a child
		if es := g.edgesInto(c07TypeKid); len(es) > 0 {
			e := g.pick(es)
			if g.live[e] {
				return "remove-child", []sOp{g.tomb(e, 1)}
			}
			return "restore-child", []sOp{g.tomb(e, 0)}
		}
	case x < 80: // point update on a client node or a child
		if ns := g.nodesOf(c07TypeNode, c07TypeKid); len(ns) > 0 {
			n := g.pick(ns)
			pts := []sPoint{{Type: "description", Time: g.tick(), Text: fmt.Sprintf("upd%d", g.r.Intn(100)), Origin: g.pick([]string{"u1", "u2", ""})}}
			return "point-update", []sOp{{Kind: "np", Node: n, Points: pts}}
		}
	case x < 85: // edge data point (passed through, no restart)
		if es := g.edgesInto(c07TypeNode, c07TypeKid); len(es) > 0 {
			p, n := c07Split(g.pick(es))
			return "edge-data", []sOp{{Kind: "ep", Node: n, Parent: p, Points: []sPoint{{Type: "role", Time: g.tick(), Text: g.pick([]string{"user", "admin"}), Origin: "u1"}}}}
		}
	case x < 90: // mirror a node of the managed type under a second holder, or a child under a second client
		if ns := g.nodesOf(c07TypeNode); len(ns) > 0 {
			n := g.pick(ns)
			h := g.holder()
			if !g.has(h+">"+n) && h != n {
				t := g.tick()
				g.edges = append(g.edges, h+">"+n)
				g.live[h+">"+n] = true
				return "mirror", []sOp{{Kind: "ep", Node: n, Parent: h, Points: []sPoint{{Type: "tombstone", Time: t, Origin: "u1"}, {Type: "nodeType", Time: t, Text: c07TypeNode, Origin: "u1"}}}}
			}
		}
	case x < 94: // new group / parent-type node
		typ := "group"
		if len(g.ptypes) > 0 && g.r.Intn(2) == 0 {
			typ = c07TypePar
		}
		return "create-holder", g.createOps(g.fresh("g"), typ, g.holder())
	case x < 97: // node type re-sent on a live child edge: restart with the same configuration
		if es := g.liveEdgesInto(c07TypeKid); len(es) > 0 {
			p, n := c07Split(g.pick(es))
			return "retype-child", []sOp{{Kind: "ep", Node: n, Parent: p, Points: []sPoint{{Type: "nodeType", Time: g.tick(), Text: c07TypeKid, Origin: "u1"}}}}
		}
	default: // unrelated node
		return "create-unrelated", g.createOps(g.fresh("v"), "variable", g.holder())
	}
	return "", nil
}

func (g *c07Gen) has(e string) bool {
	for _, x := range g.edges {
		if x == e {
			return true
		}
	}
	return false
}

func c07NewGen(r *rand.Rand) *c07Gen {
	g := &c07Gen{r: r, clock: c07Base, typ: map[string]string{}, live: map[string]bool{}, kinds: map[string]int{}}
	if r.Intn(2) == 0 {
		g.ptypes = []string{c07TypePar}
	}
	return g
}

func (g *c07Gen) finish(id int, kind, prop string) *c07Case {
	return &c07Case{ID: id, Prop: prop, Kind: kind, ParentTypes: g.ptypes, Nodes: append([]string(nil), g.nodes...), Steps: g.steps, OpKinds: g.kinds}
}

// the history of finding F6: the only node of the managed type sits under a group; the group is deleted
func c07GroupDeletion(r *rand.Rand, id int, second bool) *c07Case {
	g := c07NewGen(r)
	g.ptypes = nil
	var pre []sOp
	pre = append(pre, g.createOps("g1", "group", storeRootID)...)
	pre = append(pre, g.createOps("n1", c07TypeNode, "g1")...)
	if second {
		pre = append(pre, g.createOps("n2", c07TypeNode, storeRootID)...)
	}
	g.steps = append(g.steps, c07Step{Kind: 3, Ops: pre})
	g.seq("delete-holder", g.tomb(storeRootID+">g1", 1))
	g.seq("create-unrelated", g.createOps("v1", "variable", storeRootID)...)
	g.seq("undelete", g.tomb(storeRootID+">g1", 0))
	kind := "group-deletion"
	if second {
		kind = "group-deletion-second-node-elsewhere"
	}
	return g.finish(id, kind, "c07")
}

// the holder of the only managed node is deleted and, while the client that a rescan stopped is still winding down
// (it takes 700 ms to return from Run), restored: one burst, at the end of which exactly one client runs
func c07GroupRestoredWhileStopping(r *rand.Rand, id int) *c07Case {
	g := c07NewGen(r)
	g.ptypes = nil
	var pre []sOp
	pre = append(pre, g.createOps("g1", "group", storeRootID)...)
	pre = append(pre, g.createOps("n1", c07TypeNode, "g1")...)
	g.steps = append(g.steps, c07Step{Kind: 3, Ops: pre})
	ops := []sOp{g.tomb(storeRootID+">g1", 1), {Kind: "wait-stop"}, g.tomb(storeRootID+">g1", 0)}
	g.steps = append(g.steps, c07Step{Kind: 2, Ops: ops})
	g.kinds["restore-while-stopping"]++
	g.seq("create-unrelated", g.createOps("v1", "variable", storeRootID)...)
	c := g.finish(id, "group-restored-while-client-winds-down", "c07")
	c.StopDelayMs = 700
	return c
}

func c07Generate(r *rand.Rand, id int) *c07Case {
	g := c07NewGen(r)
	// the store before the manager starts
	var pre []sOp
	for i, n := 0, g.r.Intn(3); i < n; i++ {
		typ := "group"
		if len(g.ptypes) > 0 && g.r.Intn(3) == 0 {
			typ = c07TypePar
		}
		pre = append(pre, g.createOps(g.fresh("g"), typ, g.holder())...)
	}
	if id%6 == 3 {
		// a wider, deeper layout: several nodes of the type under the root, a group holding one more and two
		// sub-groups with nodes of their own (sibling containers, each scanned in turn), now and then ten more below the root
		top := g.fresh("g")
		pre = append(pre, g.createOps(top, "group", storeRootID)...)
		for i, n := 0, 2+g.r.Intn(2); i < n; i++ {
			pre = append(pre, g.createOps(g.fresh("n"), c07TypeNode, storeRootID)...)
		}
		pre = append(pre, g.createOps(g.fresh("n"), c07TypeNode, top)...)
		for k := 0; k < 2+g.r.Intn(2); k++ {
			sub := g.fresh("g")
			pre = append(pre, g.createOps(sub, "group", top)...)
			for i, n := 0, 1+g.r.Intn(2); i < n; i++ {
				pre = append(pre, g.createOps(g.fresh("n"), c07TypeNode, sub)...)
			}
		}
		if g.r.Intn(3) == 0 {
			for i := 0; i < 10; i++ {
				pre = append(pre, g.createOps(g.fresh("n"), c07TypeNode, storeRootID)...)
			}
		}
		g.kinds["nested-groups"]++
	}
	if id%12 == 5 {
		// a deep layout: twenty groups nested in one another with a node of the managed type at the bottom (and the
		// holders of later operations anywhere along the chain)
		at := storeRootID
		for i := 0; i < 20; i++ {
			grp := g.fresh("g")
			pre = append(pre, g.createOps(grp, "group", at)...)
			at = grp
		}
		pre = append(pre, g.createOps(g.fresh("n"), c07TypeNode, at)...)
		g.kinds["deep-groups"]++
	}
	for i, n := 0, 1+g.r.Intn(3); i < n; i++ {
		pre = append(pre, g.createOps(g.fresh("n"), c07TypeNode, g.holder())...)
	}
	for i, n := 0, g.r.Intn(3); i < n; i++ {
		pre = append(pre, g.createOps(g.fresh("k"), c07TypeKid, g.pick(g.nodesOf(c07TypeNode)))...)
	}
	if g.r.Intn(4) == 0 {
		if es := g.edgesInto("group", c07TypePar); len(es) > 0 {
			pre = append(pre, g.tomb(g.pick(es), 1)) // clients below a deleted holder must not run
		}
	}
	g.steps = append(g.steps, c07Step{Kind: 3, Ops: pre})
	kind := "history"
	for i, n := 0, 3+g.r.Intn(8); i < n; i++ {
		if k, ops := g.randomOp(); k != "" {
			g.seq(k, ops...)
		}
	}
	switch g.r.Intn(5) {
	case 0, 1: // rapid burst at the end: only the final running set is determined
		kind = "history+burst"
		var ops []sOp
		for i, n := 0, 2+g.r.Intn(5); i < n; i++ {
			if g.r.Intn(3) == 0 {
				// rapid create-delete of a node of the managed type
				id := g.fresh("n")
				h := g.holder()
				ops = append(ops, g.createOps(id, c07TypeNode, h)...)
				ops = append(ops, g.tomb(h+">"+id, 1))
				g.kinds["rapid-create-delete"]++
				continue
			}
			if k, o := g.randomOp(); k != "" {
				ops = append(ops, o...)
				g.kinds["burst:"+k]++
			}
		}
		g.steps = append(g.steps, c07Step{Kind: 2, Ops: ops})
	case 2: // a stale delete: ignored by the store, still restarts the client (after the 5 s poll of the callback)
		if g.r.Intn(4) == 0 {
			if es := g.edgesInto(c07TypeNode); len(es) > 0 {
				e := g.pick(es)
				if g.live[e] {
					kind = "history+stale-delete"
					p, n := c07Split(e)
					g.seq("stale-delete", sOp{Kind: "ep", Node: n, Parent: p, Points: []sPoint{{Type: "tombstone", Time: c07Base - 1e9, VBits: math.Float64bits(1), Origin: "u1"}}})
				}
			}
		}
	}
	return g.finish(id, kind, "c07")
}

func c07Load(path string) ([]*c07Case, error) {
	b, err := os.ReadFile(path)
	if err != nil {
		return nil, err
	}
	var rp struct {
		Cases []*c07Case `json:"cases"`
	}
	if err := json.Unmarshal(b, &rp); err != nil {
		return nil, err
	}
	return rp.Cases, nil
}

func c07Workers() int {
	return 6
}

func c07Emit(cfg *config, area string, results []*c07Case) error {
	cs := newCaseSet(area)
	for i, c := range results {
		c.ID = i
		cs.add(c.val(), c)
		cs.count("kind:" + c.Kind)
		cs.count(fmt.Sprintf("steps:%d", (len(c.Steps)/5)*5))
		if len(c.ParentTypes) > 0 {
			cs.count("with-configured-parent-type")
		}
		for k, n := range c.OpKinds {
			cs.stats["op:"+k] += n
		}
		starts, exits, cbs := 0, 0, 0
		for _, st := range c.Obs {
			cs.count(fmt.Sprintf("step-kind:%d", st.Kind))
			for _, e := range st.Events {
				switch e.Kind {
				case "new":
					starts++
				case "exit":
					exits++
				}
			}
			for _, cb := range st.Cbs {
				cbs += len(cb.Cbs)
			}
		}
		cs.stats["client-starts"] += starts
		cs.stats["client-exits"] += exits
		cs.stats["callbacks"] += cbs
		if c.Retried {
			cs.count("re-run-after-missed-deadline")
		}
		if c.Missed != "" {
			cs.count("missed-deadline-twice")
		}
		if c.Crashed {
			cs.count("crashed")
		}
		// non-trivial (C07): at least one client was started and at least one stopped before the final Stop;
		// (C08): at least one callback was made and at least one batch was authored by a running client
		if (area == "c07" && starts > 0 && exits > 0) || (area == "c08" && cbs > 0 && c.OpKinds["own-authored-batches"] > 0) {
			cs.markNontrivial(c.digest())
		}
		if i < 2 {
			cs.samples = append(cs.samples, map[string]any{"kind": c.Kind, "parent_types": c.ParentTypes, "steps": c.Steps})
		}
	}
	return cs.write(cfg.out)
}

func c07Run(cfg *config) error {
	var cases []*c07Case
	if cfg.replay != "" {
		var err error
		if cases, err = c07Load(cfg.replay); err != nil {
			return err
		}
	} else {
		r := rand.New(rand.NewSource(cfg.seed))
		if cfg.search {
			cfg.scale = (cfg.scale / 5) * 2 // a search run doubles the budget (every history needs its own instance)
		}
		// the two group-deletion histories of finding F6 (c07GroupDeletion) live in corpus/C07 and run every time
		for i := 0; i < 60*cfg.scale; i++ {
			cases = append(cases, c07Generate(r, len(cases)))
		}
		// a client that is slow to stop, and its holder restored while it winds down (twice: the timing is the manager's)
		cases = append(cases, c07GroupRestoredWhileStopping(r, len(cases)), c07GroupRestoredWhileStopping(r, len(cases)+1))
	}
	for _, c := range cases {
		c.Prop = "c07"
	}
	return c07Emit(cfg, "c07", c07RunAll(cases, c07Workers()))
}
