package main

import (
	"bytes"
	"database/sql"
	"encoding/hex"
	"encoding/json"
	"fmt"
	"io"
	"log"
	"math"
	"math/rand"
	"os"
	"os/exec"
	"path/filepath"
	"sync"
	"time"

	"github.com/nats-io/nats.go"
	"github.com/simpleiot/simpleiot/client"
)

// C04: a writer process is killed (strace fault injection) at database writes; the file is then
// reopened and compared with the prefixes of the script the model allows.

func init() {
	areas["c04"] = runC04
	areas["c04-writer"] = runC04Writer
	areas["c04-verify"] = runC04Verify
	areas["c04-resume"] = runC04Resume
}

type c04Meta struct {
	Rows      int    `json:"rows"`
	RootID    string `json:"root_id"`
	Key       string `json:"key"`
	RootEdges int    `json:"root_edges"`  // edges with up = 'root'
	RootIsTop bool   `json:"root_is_top"` // meta.root_id is the lower end of such an edge
}

func c04ReadMeta(dbfile string) (c04Meta, error) {
	var m c04Meta
	db, err := sql.Open("sqlite", dbfile+"?_pragma=busy_timeout(8000)")
	if err != nil {
		return m, err
	}
	defer db.Close()
	rows, err := db.Query("SELECT root_id, jwt_key FROM meta")
	if err != nil {
		return m, err
	}
	defer rows.Close()
	for rows.Next() {
		var root sql.NullString
		var key []byte
		if err := rows.Scan(&root, &key); err != nil {
			return m, err
		}
		m.Rows++
		m.RootID = root.String
		m.Key = hex.EncodeToString(key)
	}
	if err := rows.Err(); err != nil {
		return m, err
	}
	rows.Close()
	er, err := db.Query("SELECT down FROM edges WHERE up = 'root'")
	if err != nil {
		return m, err
	}
	defer er.Close()
	for er.Next() {
		var down string
		if err := er.Scan(&down); err != nil {
			return m, err
		}
		m.RootEdges++
		if down == m.RootID {
			m.RootIsTop = true
		}
	}
	return m, er.Err()
}

func c04Ids(nc *nats.Conn, nodes []string) ([]string, error) {
	ids := append([]string{storeRootID}, nodes...)
	kids, err := client.GetNodes(nc, storeRootID, "all", "", true)
	if err != nil {
		return nil, err
	}
	for _, k := range kids {
		ids = append(ids, k.ID)
	}
	return ids, nil
}

func c04WriteSync(path string, b []byte, flag int) error {
	f, err := os.OpenFile(path, flag|os.O_CREATE|os.O_WRONLY|os.O_SYNC, 0o644)
	if err != nil {
		return err
	}
	defer f.Close()
	_, err = f.Write(b)
	return err
}

// the process that gets killed: -out DIR holds db.sqlite (created here), script.json (input),
// and receives init.json, meta.json, acks.log, done
func runC04Writer(cfg *config) error {
	log.SetOutput(io.Discard)
	dir := cfg.out
	var s sScript
	b, err := os.ReadFile(filepath.Join(dir, "script.json"))
	if err != nil {
		return err
	}
	if err := json.Unmarshal(b, &s); err != nil {
		return err
	}
	rootID := storeRootID
	if s.Kind == "uuid-root" {
		rootID = "" // the instance invents its root id
	}
	in, err := startInstance(dir, rootID)
	if err != nil {
		return err
	}
	nc, err := nats.Connect(in.url, nats.Timeout(10*time.Second))
	if err != nil {
		return err
	}
	if s.Kind == "uuid-root" {
		if err := c04WriteSync(filepath.Join(dir, "done"), []byte("done\n"), os.O_TRUNC); err != nil {
			return err
		}
		in.stop()
		return nil
	}
	ids, err := c04Ids(nc, s.Nodes)
	if err != nil {
		return err
	}
	init, root, err := storeDump(nc, ids)
	if err != nil {
		return err
	}
	meta, err := c04ReadMeta(filepath.Join(dir, "db.sqlite"))
	if err != nil {
		return err
	}
	mb, _ := json.Marshal(meta)
	if err := c04WriteSync(filepath.Join(dir, "meta.json"), mb, os.O_TRUNC); err != nil {
		return err
	}
	ib, _ := json.Marshal(map[string]any{"root": root, "init": init, "ids": ids})
	if err := c04WriteSync(filepath.Join(dir, "init.json"), ib, os.O_TRUNC); err != nil {
		return err
	}
	for i, op := range s.Ops {
		rc, err := c20Request(nc, op)
		if rc == 2 {
			return fmt.Errorf("request %d not answered: %v", i, err)
		}
		if err := c04WriteSync(filepath.Join(dir, "acks.log"), []byte(fmt.Sprintf("%d %d\n", i, rc)), os.O_APPEND); err != nil {
			return err
		}
	}
	if err := c04WriteSync(filepath.Join(dir, "done"), []byte("done\n"), os.O_TRUNC); err != nil {
		return err
	}
	in.stop()
	return nil
}

type c04Verify struct {
	OK    bool    `json:"ok"`
	Err   string  `json:"err,omitempty"`
	Root  string  `json:"root"`
	Views []sView `json:"views"`
	Meta  c04Meta `json:"meta"`
}

// reopen the file in DIR, dump everything; ids.json lists what to dump
func runC04Verify(cfg *config) error {
	log.SetOutput(io.Discard)
	dir := cfg.out
	res := c04Verify{}
	func() {
		rootID := storeRootID
		if _, err := os.Stat(filepath.Join(dir, "uuid-root")); err == nil {
			rootID = ""
		}
		in, err := startInstance(dir, rootID)
		if err != nil {
			res.Err = "reopen: " + err.Error()
			return
		}
		defer in.stop()
		nc, err := nats.Connect(in.url, nats.Timeout(10*time.Second))
		if err != nil {
			res.Err = err.Error()
			return
		}
		defer nc.Close()
		var nodes []string
		if b, err := os.ReadFile(filepath.Join(dir, "nodes.json")); err == nil {
			_ = json.Unmarshal(b, &nodes)
		}
		if rootID == "" {
			res.OK = true // nothing to compare with a model: only the meta / root edge checks apply
			return
		}
		ids, err := c04Ids(nc, nodes)
		if err != nil {
			res.Err = err.Error()
			return
		}
		res.Views, res.Root, err = storeDump(nc, ids)
		if err != nil {
			res.Err = err.Error()
			return
		}
		res.OK = true
	}()
	m, err := c04ReadMeta(filepath.Join(dir, "db.sqlite"))
	if err != nil {
		res.OK = false
		res.Err += " meta: " + err.Error()
	}
	res.Meta = m
	b, _ := json.Marshal(res)
	_, werr := os.Stdout.Write(append(b, '\n'))
	return werr
}

// reopen the file in DIR, send the requests of script.json from index "from" on, dump everything
func runC04Resume(cfg *config) error {
	log.SetOutput(io.Discard)
	dir := cfg.out
	res := c04Verify{}
	func() {
		var s sScript
		b, err := os.ReadFile(filepath.Join(dir, "script.json"))
		if err != nil || json.Unmarshal(b, &s) != nil {
			res.Err = "script unreadable"
			return
		}
		from := 0
		if b, err := os.ReadFile(filepath.Join(dir, "resume-from")); err == nil {
			fmt.Sscan(string(b), &from)
		}
		in, err := startInstance(dir, storeRootID)
		if err != nil {
			res.Err = "reopen: " + err.Error()
			return
		}
		defer in.stop()
		nc, err := nats.Connect(in.url, nats.Timeout(10*time.Second))
		if err != nil {
			res.Err = err.Error()
			return
		}
		defer nc.Close()
		for i := from; i < len(s.Ops); i++ {
			if rc, err := c20Request(nc, s.Ops[i]); rc != 0 {
				res.Err = fmt.Sprintf("request %d after the recovery: rc=%d %v", i, rc, err)
				return
			}
		}
		ids, err := c04Ids(nc, s.Nodes)
		if err != nil {
			res.Err = err.Error()
			return
		}
		res.Views, res.Root, err = storeDump(nc, ids)
		if err != nil {
			res.Err = err.Error()
			return
		}
		res.OK = true
	}()
	b, _ := json.Marshal(res)
	_, werr := os.Stdout.Write(append(b, '\n'))
	return werr
}

type c04Case struct {
	ID       int      `json:"id"`
	Script   int      `json:"script"`
	When     int      `json:"when"` // strace inject when=N; 0 = time-sampled SIGKILL
	KillMs   int      `json:"kill_ms,omitempty"`
	Killed   bool     `json:"killed"`
	HasInit  bool     `json:"has_init"`
	Root     string   `json:"root"`
	Init     []sView  `json:"init"`
	Nodes    []string `json:"nodes"`
	Ops      []sOp    `json:"ops"`
	Acked    int      `json:"acked"`
	ReopenOK bool     `json:"reopen_ok"`
	Err      string   `json:"err,omitempty"`
	RootAft  string   `json:"root_after"`
	After    []sView  `json:"after"`
	Reopen2  bool     `json:"reopen2_same"`
	KeySame  bool     `json:"key_same"`
	OneMeta  bool     `json:"one_meta"`
	OneRoot  bool     `json:"one_root"`
	UUIDRoot bool     `json:"uuid_root,omitempty"`
	Key      string   `json:"key"`
	// after the recovery the client carries on: the requests from the first unacknowledged one are sent (again)
	Resumed   bool    `json:"resumed"`
	RootFinal string  `json:"root_final"`
	Final     []sView `json:"final"`
}

func (c *c04Case) val() string {
	ops := make([]string, len(c.Ops))
	for i, op := range c.Ops {
		ops[i] = c20OpVal(op)
	}
	return vL(vBool(c.HasInit), vS(c.Root), c20ViewsVal(c.Init), vL(ops...), vI(c.Acked), vBool(c.ReopenOK),
		vS(c.RootAft), c20ViewsVal(c.After), vBool(c.Reopen2), vBool(c.KeySame), vBool(c.OneMeta), vBool(c.OneRoot),
		vBool(c.Resumed), vS(c.RootFinal), c20ViewsVal(c.Final))
}

// a script of accepted writes: node points, new edges, a mirror, edge points, a stale write
func c04Script(r *rand.Rand, id int) *sScript {
	g := &storeGenState{r: r, clock: storeBase + 3000*1e9, used: map[string]map[int64]bool{}, nodes: []string{storeRootID},
		edges: map[string]bool{"root>" + storeRootID: true}, parents: map[string][]string{storeRootID: {"root"}}, kinds: map[string]int{}}
	g.ties = true // acknowledged rewrites at an instant already used (other content, or only the fields no checksum covers)
	g.createNode()
	g.add("node-points", sOp{Kind: "np", Node: "n1", Points: g.batch("n1", 3)})
	g.createNode()
	g.mirror()
	// an acknowledged rewrite that changes only what no checksum covers (tombstone counter, payload, author) at the
	// instant of the point it rewrites, together with an ordinary update: one batch, all or nothing, and not lost
	var first []sPoint
	for _, o := range g.ops {
		if o.Kind == "np" && o.Node == "n1" && len(o.Points) > 0 {
			first = o.Points
		}
	}
	if len(first) > 0 {
		q := first[0]
		q.Tomb, q.Data, q.Origin = q.Tomb+1, []byte{7, 0, 7}, "rewriter"
		g.add("node-points-same-checksum", sOp{Kind: "np", Node: "n1", Points: append([]sPoint{q}, g.batch("n1", 1)...)})
	}
	for i := 0; i < 14+r.Intn(6); i++ {
		n := g.pickNode()
		if r.Intn(3) == 0 {
			if p, n2, ok := g.anyEdge(); ok && n2 != storeRootID {
				g.add("edge-points", sOp{Kind: "ep", Node: n2, Parent: p, Points: []sPoint{{Type: "sortOrder", Time: g.tick(), VBits: math.Float64bits(float64(i))}}})
				continue
			}
		}
		g.add("node-points", sOp{Kind: "np", Node: n, Points: g.batch(n, 3)})
	}
	// one large batch (230 points of distinct identity, 600 in every second script): it is still one batch, all or nothing
	nbig := 230
	if id%2 == 1 {
		nbig = 600
	}
	big := make([]sPoint, nbig)
	for i := range big {
		big[i] = sPoint{Type: "big", Key: fmt.Sprint(i), Time: g.tick(), VBits: math.Float64bits(float64(i)), Text: "x"}
	}
	g.add("node-points-large", sOp{Kind: "np", Node: "n1", Points: big})
	g.add("node-points", sOp{Kind: "np", Node: "n1", Points: g.batch("n1", 2)})
	// a new top-level node: the instance root moves to it, in the same transaction as its edge
	newRoot := fmt.Sprintf("r%d", id)
	g.add("new-root", sOp{Kind: "ep", Node: newRoot, Parent: "root", Points: []sPoint{g.tombPoint(0), g.typePoint("device")}})
	g.add("node-points", sOp{Kind: "np", Node: newRoot, Points: g.batch(newRoot, 2)})
	// an edge point on the edge of the former root: the instance root stays the new node, on disk as in memory
	g.add("edge-points-old-root", sOp{Kind: "ep", Node: storeRootID, Parent: "root", Points: []sPoint{{Type: "sortOrder", Time: g.tick(), VBits: math.Float64bits(5)}}})
	g.add("node-points", sOp{Kind: "np", Node: "n1", Points: g.batch("n1", 2)})
	s := &sScript{ID: id, Kind: "c04", Ops: g.ops}
	s.Nodes = append(s.Nodes, g.nodes[1:]...)
	s.Nodes = append(s.Nodes, newRoot)
	return s
}

func c04RunOne(exe string, s *sScript, when int, killMs int) *c04Case {
	c := &c04Case{Script: s.ID, When: when, KillMs: killMs, Ops: s.Ops, Nodes: s.Nodes}
	dir, err := os.MkdirTemp("", "verif-c04-")
	if err != nil {
		c.Err = err.Error()
		return c
	}
	defer os.RemoveAll(dir)
	sb, _ := json.Marshal(s)
	_ = os.WriteFile(filepath.Join(dir, "script.json"), sb, 0o644)
	nb, _ := json.Marshal(s.Nodes)
	_ = os.WriteFile(filepath.Join(dir, "nodes.json"), nb, 0o644)
	if s.Kind == "uuid-root" {
		c.UUIDRoot = true
		_ = os.WriteFile(filepath.Join(dir, "uuid-root"), []byte("1"), 0o644)
	}
	db := filepath.Join(dir, "db.sqlite")
	var cmd *exec.Cmd
	if when > 0 {
		cmd = exec.Command("strace", "-f", "-qq", "-o", "/dev/null", "-P", db, "-P", db+"-wal",
			"-e", "trace=write,pwrite64,fsync,fdatasync,ftruncate",
			"-e", fmt.Sprintf("inject=write,pwrite64,fsync,fdatasync,ftruncate:signal=KILL:when=%d", when),
			exe, "c04-writer", "-out", dir)
	} else {
		cmd = exec.Command(exe, "c04-writer", "-out", dir)
	}
	cmd.Stdout, cmd.Stderr = io.Discard, io.Discard
	if err := cmd.Start(); err != nil {
		c.Err = err.Error()
		return c
	}
	done := make(chan error, 1)
	go func() { done <- cmd.Wait() }()
	timeout := 60 * time.Second
	if when == 0 && killMs > 0 {
		timeout = time.Duration(killMs) * time.Millisecond
	}
	select {
	case <-done:
	case <-time.After(timeout):
		_ = cmd.Process.Kill()
		<-done
	}
	_, statErr := os.Stat(filepath.Join(dir, "done"))
	c.Killed = statErr != nil
	var wmeta c04Meta
	haveMeta := false
	if b, err := os.ReadFile(filepath.Join(dir, "meta.json")); err == nil && json.Unmarshal(b, &wmeta) == nil {
		haveMeta = true
	}
	if b, err := os.ReadFile(filepath.Join(dir, "init.json")); err == nil {
		var ini struct {
			Root string  `json:"root"`
			Init []sView `json:"init"`
		}
		if json.Unmarshal(b, &ini) == nil {
			c.HasInit, c.Root, c.Init = true, ini.Root, ini.Init
		}
	}
	if b, err := os.ReadFile(filepath.Join(dir, "acks.log")); err == nil {
		c.Acked = bytes.Count(b, []byte("\n"))
	}
	verify := func() (*c04Verify, error) {
		out, err := exec.Command(exe, "c04-verify", "-out", dir).Output()
		if err != nil {
			return nil, err
		}
		var v c04Verify
		if err := json.Unmarshal(bytes.TrimSpace(out), &v); err != nil {
			return nil, err
		}
		return &v, nil
	}
	v1, err := verify()
	if err != nil || !v1.OK {
		if err != nil {
			c.Err = "verify: " + err.Error()
		} else {
			c.Err = v1.Err
		}
		return c
	}
	c.ReopenOK = true
	c.RootAft, c.After = v1.Root, v1.Views
	c.OneMeta = v1.Meta.Rows == 1
	c.OneRoot = v1.Meta.RootIsTop && (c.HasInit || v1.Meta.RootEdges == 1)
	// the signing key never changes once set (the root id may: a new top-level node moves it, which the model follows)
	// after a complete open a signing key is on disk, and it is the one the writer saw (if it got that far)
	c.KeySame = v1.Meta.Key != "" && (!haveMeta || wmeta.Key == "" || wmeta.Key == v1.Meta.Key)
	v2, err := verify()
	if err == nil && v2.OK {
		b1, _ := json.Marshal([]any{v1.Root, v1.Views, v1.Meta})
		b2, _ := json.Marshal([]any{v2.Root, v2.Views, v2.Meta})
		c.Reopen2 = bytes.Equal(b1, b2)
	}
	if c.HasInit && s.Kind != "uuid-root" {
		_ = os.WriteFile(filepath.Join(dir, "resume-from"), []byte(fmt.Sprint(c.Acked)), 0o644)
		if out, err := exec.Command(exe, "c04-resume", "-out", dir).Output(); err == nil {
			var v c04Verify
			if json.Unmarshal(bytes.TrimSpace(out), &v) == nil && v.OK {
				c.Resumed, c.RootFinal, c.Final = true, v.Root, v.Views
			} else if c.Err == "" {
				c.Err = "resume: " + v.Err
			}
		}
	}
	return c
}

func runC04(cfg *config) error {
	cs := newCaseSet("c04")
	if _, err := exec.LookPath("strace"); err != nil {
		return fmt.Errorf("strace not found: %w", err)
	}
	exe, err := os.Executable()
	if err != nil {
		return err
	}
	r := rand.New(rand.NewSource(cfg.seed))
	nScripts := 2
	stride := 1
	if cfg.tier == "thorough" || cfg.search {
		nScripts = 10
	}
	type job struct {
		s      *sScript
		when   int
		killMs int
	}
	var jobs []job
	for k := 0; k < nScripts; k++ {
		s := c04Script(r, k)
		// find the last injection point: sweep until the writer survives
		off := r.Intn(stride)
		for w := 1 + off; w <= 600; w += stride {
			jobs = append(jobs, job{s, w, 0})
		}
		for t := 0; t < 6; t++ {
			jobs = append(jobs, job{s, 0, 60 + r.Intn(400)})
		}
		jobs = append(jobs, job{s, 0, 0}) // an undisturbed run
	}
	// first-time initialisation of an instance that invents its own root id
	us := &sScript{ID: 1000, Kind: "uuid-root"}
	for w := 1; w <= 200; w++ {
		jobs = append(jobs, job{us, w, 0})
	}
	if cfg.replay != "" {
		jobs = nil
		b, err := os.ReadFile(cfg.replay)
		if err != nil {
			return err
		}
		var rp struct {
			Cases []*c04Case `json:"cases"`
		}
		if err := json.Unmarshal(b, &rp); err != nil {
			return err
		}
		for _, c := range rp.Cases {
			kind := "c04"
			if c.UUIDRoot {
				kind = "uuid-root"
			}
			jobs = append(jobs, job{&sScript{ID: c.Script, Kind: kind, Ops: c.Ops, Nodes: c.Nodes}, c.When, c.KillMs})
		}
	}
	results := make([]*c04Case, len(jobs))
	var mu sync.Mutex
	next := 0
	survived := map[int]int{} // script -> consecutive unkilled strace runs
	var wg sync.WaitGroup
	for k := 0; k < 8; k++ {
		wg.Add(1)
		go func() {
			defer wg.Done()
			for {
				mu.Lock()
				i := next
				next++
				skip := i < len(jobs) && jobs[i].when > 0 && survived[jobs[i].s.ID] >= 3
				mu.Unlock()
				if i >= len(jobs) {
					return
				}
				if skip {
					continue
				}
				c := c04RunOne(exe, jobs[i].s, jobs[i].when, jobs[i].killMs)
				mu.Lock()
				if jobs[i].when > 0 {
					if c.Killed {
						survived[jobs[i].s.ID] = 0
					} else {
						survived[jobs[i].s.ID]++
					}
				}
				mu.Unlock()
				results[i] = c
			}
		}()
	}
	wg.Wait()
	n := 0
	for _, c := range results {
		if c == nil {
			continue
		}
		c.ID = n
		n++
		cs.add(c.val(), c)
		switch {
		case !c.Killed:
			cs.count("not-killed")
		case !c.HasInit:
			cs.count("killed-during-initialisation")
		default:
			cs.count(fmt.Sprintf("killed-after-acks:%d", c.Acked))
		}
		if c.When > 0 {
			cs.count("injected-at-db-syscall")
		} else if c.KillMs > 0 {
			cs.count("time-sampled-kill")
		}
		if c.Killed {
			cs.markNontrivial(fmt.Sprintf("%d-%d-%d-%d", c.Script, c.When, c.KillMs, c.Acked))
		}
		if len(cs.samples) < 2 && c.Killed && c.HasInit {
			cs.samples = append(cs.samples, map[string]any{"when": c.When, "acked": c.Acked, "ops": len(c.Ops), "reopen_ok": c.ReopenOK, "edges_after": len(c.After)})
		}
	}
	return cs.write(cfg.out)
}
