package main

// C08: a client is told of every foreign change to its subtree, never its own.
// Uses the runner of c07.go (real client.NewManager, instrumented client type).
// Generated batches with origins from {"", client id, other, child id, sibling id}
// are written to {client node, child, grandchild, sibling, unrelated}; the callback
// log of every running client is compared with the model and the specification,
// and the configuration obtained by folding what the client was told (plus what it
// authored itself) into its start configuration is compared with the store's.

import (
	"fmt"
	"math"
	"math/rand"
)

func init() { areas["c08"] = c08Run }

type c08Gen struct {
	*c07Gen
	clients []string
	targets []string
	own     int
	foreign int
}

var c08Texts = []string{"", "x", "héllo", "a b", "日本"}

func (g *c08Gen) origin() string {
	os := []string{"", "other", "u2"}
	os = append(os, g.clients...)
	os = append(os, g.nodesOf(c07TypeKid)...)
	// skew towards the interesting ones: empty, a client id
	switch g.r.Intn(6) {
	case 0:
		return ""
	case 1:
		return g.pick(g.clients)
	}
	return g.pick(os)
}

func (g *c08Gen) dataPoint(origin string) sPoint {
	p := sPoint{Time: g.tick(), Origin: origin}
	switch g.r.Intn(6) {
	case 0, 1:
		p.Type, p.Text = "description", g.pick(c08Texts)
		p.Key = g.pick([]string{"", "0"})
	case 2:
		p.Type, p.VBits = "value", math.Float64bits(float64(g.r.Intn(200))/4-10)
	case 3:
		p.Type, p.Key, p.Text = "ab", g.pick([]string{"", "1", "k"}), g.pick(c08Texts)
	case 4:
		p.Type, p.Text, p.Tomb = "description", "gone", 1 // a deleted point: the field reads as the zero value
	default:
		p.Type, p.VBits = "value", math.Float64bits(float64(g.r.Intn(5)))
	}
	return p
}

func (g *c08Gen) batch() sOp {
	target := g.pick(g.targets)
	o := g.origin()
	n := 1 + g.r.Intn(3)
	seen := map[string]bool{}
	var pts []sPoint
	for i := 0; i < n; i++ {
		p := g.dataPoint(o)
		if seen[p.Type] {
			continue
		}
		seen[p.Type] = true
		if g.r.Intn(12) == 0 {
			p.Origin = g.origin() // a batch of mixed authorship: the filter looks at every point
			g.kinds["mixed-origin-batch"]++
		}
		pts = append(pts, p)
	}
	isOwn := false
	for _, c := range g.clients {
		if c07Own(sOp{Kind: "np", Node: target, Points: pts}, c) {
			isOwn = true
		}
	}
	if isOwn {
		g.own++
	} else {
		g.foreign++
	}
	g.kinds["batch-to:"+g.typ[target]]++
	g.kinds["batch-origin:"+g.originClass(o, target)]++
	return sOp{Kind: "np", Node: target, Points: pts}
}

func (g *c08Gen) originClass(o, target string) string {
	switch {
	case o == "":
		return "empty"
	case o == target:
		return "target-id"
	case g.typ[o] == c07TypeNode:
		return "client-id"
	case g.typ[o] == c07TypeKid:
		return "child-id"
	}
	return "other"
}

func (g *c08Gen) edgeData() (sOp, bool) {
	es := g.liveEdgesInto(c07TypeNode, c07TypeKid)
	if len(es) == 0 {
		return sOp{}, false
	}
	p, n := c07Split(g.pick(es))
	pt := sPoint{Type: "role", Time: g.tick(), Text: g.pick([]string{"user", "admin", ""}), Origin: g.origin()}
	if g.r.Intn(3) == 0 {
		pt = sPoint{Type: "sortOrder", Time: g.tick(), VBits: math.Float64bits(float64(g.r.Intn(9))), Origin: g.origin()}
	}
	g.kinds["edge-data"]++
	return sOp{Kind: "ep", Node: n, Parent: p, Points: []sPoint{pt}}, true
}

func c08Generate(r *rand.Rand, id int) *c07Case {
	g := &c08Gen{c07Gen: c07NewGen(r)}
	if r.Intn(4) != 0 {
		g.ptypes = nil
	}
	var pre []sOp
	holder := storeRootID
	if r.Intn(2) == 0 {
		pre = append(pre, g.createOps("g1", "group", storeRootID)...)
		holder = "g1"
	}
	pre = append(pre, g.createOps("c1", c07TypeNode, holder)...)
	pre = append(pre, g.createOps("k1", c07TypeKid, "c1")...)
	if r.Intn(2) == 0 {
		pre = append(pre, g.createOps("k2", c07TypeKid, "c1")...)
	}
	pre = append(pre, g.createOps("q1", "variable", "k1")...) // grandchild
	pre = append(pre, g.createOps("s1", c07TypeNode, storeRootID)...)
	pre = append(pre, g.createOps("u1", "variable", storeRootID)...)
	g.clients = []string{"c1", "s1"}
	t := g.tick()
	mk := func(n, p, typ string) sOp {
		g.edges = append(g.edges, p+">"+n)
		g.live[p+">"+n] = true
		return sOp{Kind: "ep", Node: n, Parent: p, Points: []sPoint{{Type: "tombstone", Time: t, Origin: "u1"}, {Type: "nodeType", Time: t, Text: typ, Origin: "u1"}}}
	}
	kind := "tree"
	switch r.Intn(4) {
	case 0: // the child is shared with the sibling client
		pre = append(pre, mk("k1", "s1", c07TypeKid))
		kind = "shared-child"
	case 1: // two paths from the grandchild to the client
		if g.typ["k2"] != "" {
			pre = append(pre, mk("q1", "k2", "variable"))
			kind = "diamond-below-client"
		}
	}
	g.steps = append(g.steps, c07Step{Kind: 3, Ops: pre})
	g.targets = []string{"c1", "c1", "k1", "k1", "q1", "s1", "u1"}
	if g.typ["k2"] != "" {
		g.targets = append(g.targets, "k2")
	}
	for round, n := 0, 2+r.Intn(3); round < n; round++ {
		var ops []sOp
		for i, m := 0, 4+r.Intn(8); i < m; i++ {
			if r.Intn(6) == 0 {
				if op, ok := g.edgeData(); ok {
					ops = append(ops, op)
					continue
				}
			}
			ops = append(ops, g.batch())
		}
		g.steps = append(g.steps, c07Step{Kind: 1, Ops: ops})
		// between the batches a structure change that restarts a client
		switch r.Intn(5) {
		case 0:
			if es := g.edgesInto(c07TypeKid); len(es) > 0 {
				e := g.pick(es)
				if g.live[e] {
					g.seq("remove-child", g.tomb(e, 1))
				} else {
					g.seq("restore-child", g.tomb(e, 0))
				}
			}
		case 1:
			kid := g.fresh("k")
			g.seq("add-child", g.createOps(kid, c07TypeKid, g.pick(g.clients))...)
			g.targets = append(g.targets, kid)
		case 2:
			if es := g.liveEdgesInto(c07TypeKid); len(es) > 0 {
				p, n := c07Split(g.pick(es))
				g.seq("retype-child", sOp{Kind: "ep", Node: n, Parent: p, Points: []sPoint{{Type: "nodeType", Time: g.tick(), Text: c07TypeKid, Origin: "u1"}}})
			}
		case 3:
			e := holder + ">c1"
			g.seq("delete", g.tomb(e, 1))
			g.seq("undelete", g.tomb(e, 0))
		}
	}
	if id%3 == 1 {
		// the last thing that happens (no restart follows): one foreign batch that mixes a value the client's field type
		// cannot take (a level of -3 or 300 for a uint8) with values for the fields declared after it
		lvl := []float64{-3, 300}[r.Intn(2)]
		pts := []sPoint{{Type: "level", Time: g.tick(), VBits: math.Float64bits(lvl), Origin: "u1"},
			{Type: "description", Time: g.tick(), Text: "after the level", Origin: "u1"},
			{Type: "value", Time: g.tick(), VBits: math.Float64bits(12.5), Origin: "u1"}}
		g.steps = append(g.steps, c07Step{Kind: 1, Ops: []sOp{{Kind: "np", Node: "c1", Points: pts}}})
		g.foreign++
		g.kinds["batch-with-a-value-the-field-refuses"]++
	}
	c := g.finish(id, kind, "c08")
	c.OpKinds["own-authored-batches"] = g.own
	c.OpKinds["foreign-batches"] = g.foreign
	return c
}

func c08Run(cfg *config) error {
	var cases []*c07Case
	if cfg.replay != "" {
		var err error
		if cases, err = c07Load(cfg.replay); err != nil {
			return err
		}
	} else {
		r := rand.New(rand.NewSource(cfg.seed))
		if cfg.search {
			cfg.scale = (cfg.scale / 5) * 2
		}
		for i := 0; i < 60*cfg.scale; i++ {
			cases = append(cases, c08Generate(r, i))
		}
	}
	for _, c := range cases {
		c.Prop = "c08"
	}
	results := c07RunAll(cases, c07Workers())
	for _, c := range results {
		if c.Kind == "" {
			c.Kind = fmt.Sprintf("replay%d", c.ID)
		}
	}
	return c07Emit(cfg, "c08", results)
}
