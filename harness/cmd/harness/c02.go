package main

import (
	"bytes"
	"encoding/json"
	"fmt"
	"io"
	"log"
	"math"
	"math/rand"
	"net/url"
	"os"
	"os/exec"
	"strconv"
	"sync"
	"time"

	"github.com/nats-io/nats.go"
	"github.com/simpleiot/simpleiot/client"
	"github.com/simpleiot/simpleiot/data"
)

// C02: a downstream and an upstream instance linked by the real SyncClient; writes on both
// sides with the link up and down; after catch-up both views of the device tree must agree.

func init() {
	areas["c02"] = runC02
	areas["c02-worker"] = runC02Worker
}

const (
	c02Down = "instD"
	c02Up   = "instU"
)

type c02Op struct {
	Side string `json:"side"` // "D" or "U"
	Op   sOp    `json:"op"`
}

type c02Phase struct {
	Name string  `json:"name"` // "up" (link up) or "down" (sync disabled)
	Ops  []c02Op `json:"ops"`
	// a "down" phase that is not a disabled link but a restart of the upstream instance (same address, same store):
	// the operations are carried out right after the restart, before the downstream has reconnected
	Restart bool `json:"restart,omitempty"`
	// observations at the end of the phase (after quiescence when the link is up)
	D         []sView `json:"d"`
	U         []sView `json:"u"`
	Converged bool    `json:"converged"`
	WaitMs    int     `json:"wait_ms"`
}

type c02Case struct {
	ID     int        `json:"id"`
	Kind   string     `json:"kind"`
	Nodes  []string   `json:"nodes"`
	Phases []c02Phase `json:"phases"`
	Err    string     `json:"err,omitempty"`
	Key    string     `json:"key"`
}

func (c *c02Case) val() string {
	phases := make([]string, len(c.Phases))
	for i, ph := range c.Phases {
		ops := make([]string, len(ph.Ops))
		for j, o := range ph.Ops {
			side := "0"
			if o.Side == "U" {
				side = "1"
			}
			ops[j] = vL(side, c20OpVal(o.Op))
		}
		up := "0"
		if ph.Name == "up" {
			up = "1"
		}
		phases[i] = vL(up, vL(ops...), c20ViewsVal(ph.D), c20ViewsVal(ph.U), vBool(ph.Converged))
	}
	errFlag := "0"
	if c.Err != "" {
		errFlag = "1"
	}
	return vL(vS(c02Down), vS(c02Up), vL(phases...), errFlag)
}

// device-tree dump of one side: every edge into every known node
func c02Dump(nc *nats.Conn, nodes []string) ([]sView, error) {
	// the whole device tree: the listed nodes and everything found below the device (e.g. the default admin
	// user created with the downstream root), so that every stored hash can be recomputed from the dump
	ids := append([]string{c02Down}, nodes...)
	seen := map[string]bool{}
	for _, id := range ids {
		seen[id] = true
	}
	for i := 0; i < len(ids) && len(ids) < 200; i++ {
		kids, err := client.GetNodes(nc, ids[i], "all", "", true)
		if err != nil {
			continue // a listed node that does not exist on this side yet
		}
		for _, k := range kids {
			if !seen[k.ID] {
				seen[k.ID] = true
				ids = append(ids, k.ID)
			}
		}
	}
	views, _, err := storeDump(nc, ids)
	return views, err
}

// the parts that must agree: node points of every node, edge points of every edge below the device root
func c02Canon(views []sView) string {
	type cv struct {
		Up, Down, Type string
		EPts, NPts     []string
	}
	var out []cv
	for _, v := range views {
		c := cv{Up: v.Up, Down: v.Down, Type: v.Type}
		if v.Down == c02Down {
			c.Up = "ROOT"
		} else {
			for _, p := range v.EPts {
				c.EPts = append(c.EPts, fmt.Sprintf("%s|%s|%d|%d|%s", p.Type, p.Key, p.Time, p.VBits, p.Text))
			}
		}
		for _, p := range v.NPts {
			c.NPts = append(c.NPts, fmt.Sprintf("%s|%s|%d|%d|%s", p.Type, p.Key, p.Time, p.VBits, p.Text))
		}
		sortStrings(c.EPts)
		sortStrings(c.NPts)
		out = append(out, c)
	}
	b, _ := json.Marshal(out)
	return string(b)
}

func sortStrings(s []string) {
	for i := 1; i < len(s); i++ {
		for j := i; j > 0 && s[j] < s[j-1]; j-- {
			s[j], s[j-1] = s[j-1], s[j]
		}
	}
}

func runC02Worker(cfg *config) error {
	log.SetOutput(io.Discard)
	var c c02Case
	b, err := os.ReadFile(cfg.replay)
	if err != nil {
		return err
	}
	if err := json.Unmarshal(b, &c); err != nil {
		return err
	}
	if err := c02Run(&c); err != nil {
		c.Err = err.Error()
	}
	ob, _ := json.Marshal(&c)
	_, werr := os.Stdout.Write(append(ob, '\n'))
	return werr
}

func c02Run(c *c02Case) error {
	dirD, err := os.MkdirTemp("", "verif-c02d-")
	if err != nil {
		return err
	}
	defer os.RemoveAll(dirD)
	dirU, err := os.MkdirTemp("", "verif-c02u-")
	if err != nil {
		return err
	}
	defer os.RemoveAll(dirU)
	inD, err := startInstance(dirD, c02Down)
	if err != nil {
		return err
	}
	defer inD.stop()
	inU, err := startInstance(dirU, c02Up)
	if err != nil {
		return err
	}
	defer func() { inU.stop() }()
	ncD, err := nats.Connect(inD.url, nats.Timeout(10*time.Second))
	if err != nil {
		return err
	}
	defer ncD.Close()
	ncU, err := nats.Connect(inU.url, nats.Timeout(10*time.Second))
	if err != nil {
		return err
	}
	defer func() { ncU.Close() }()
	// the sync client, driven directly (no manager): config changes are delivered through Points()
	ncS, err := nats.Connect(inD.url, nats.Timeout(10*time.Second))
	if err != nil {
		return err
	}
	defer ncS.Close()
	sc := client.NewSyncClient(ncS, client.Sync{ID: "sync1", Parent: c02Down, Description: "verif", URI: inU.url, Period: 1})
	runDone := make(chan error, 1)
	go func() { runDone <- sc.Run() }()
	defer func() {
		sc.Stop(nil)
		select {
		case <-runDone:
		case <-time.After(10 * time.Second):
		}
	}()
	var clock int64 = time.Now().UnixNano() - int64(3600)*1e9
	_ = clock
	quiesce := func(ph *c02Phase) error {
		start := time.Now()
		last := ""
		stable := 0
		for {
			d, err := c02Dump(ncD, c.Nodes)
			if err != nil {
				return err
			}
			u, err := c02Dump(ncU, c.Nodes)
			if err != nil {
				return err
			}
			cd, cu := c02Canon(d), c02Canon(u)
			cur := cd + "#" + cu
			if cur == last {
				stable++
			} else {
				stable = 0
			}
			last = cur
			el := time.Since(start)
			ph.D, ph.U, ph.Converged, ph.WaitMs = d, u, cd == cu, int(el.Milliseconds())
			// done when nothing has changed for ~2.4 s (two sync periods) and at least 3 periods passed
			if stable >= 8 && el > 3500*time.Millisecond {
				return nil
			}
			if el > 45*time.Second {
				return nil
			}
			time.Sleep(300 * time.Millisecond)
		}
	}
	disabled, restarted := -1.0, false
	for i := range c.Phases {
		ph := &c.Phases[i]
		dis := 0.0
		if ph.Name == "down" && !ph.Restart {
			dis = 1
		}
		if ph.Restart {
			u, err := url.Parse(inU.url)
			if err != nil {
				return err
			}
			port, _ := strconv.Atoi(u.Port())
			ncU.Close()
			inU.stop()
			time.Sleep(100 * time.Millisecond)
			if inU, err = startInstancePort(dirU, c02Up, port); err != nil {
				return fmt.Errorf("restart of the upstream instance: %v", err)
			}
			if ncU, err = nats.Connect(inU.url, nats.Timeout(10*time.Second)); err != nil {
				return err
			}
			restarted = true
		} else if dis != disabled {
			// (a write of the disabled point makes the sync client drop and redo its connection: only when it changes)
			disabled = dis
			sc.Points("sync1", []data.Point{{Type: data.PointTypeDisabled, Time: time.Now(), Value: dis}})
			if ph.Name == "down" {
				time.Sleep(150 * time.Millisecond) // let the disconnect take effect
			} else {
				time.Sleep(300 * time.Millisecond) // connect + first catch-up
			}
		}
		if ph.Name == "up" && restarted {
			// the downstream reconnects on its own schedule (seconds): the phase starts when it has
			restarted = false
			for t0 := time.Now(); inU.ns.NumClients() < 3 && time.Since(t0) < 40*time.Second; {
				time.Sleep(100 * time.Millisecond)
			}
		}
		for _, o := range ph.Ops {
			nc := ncD
			if o.Side == "U" {
				nc = ncU
			}
			rc, err := c20Request(nc, o.Op)
			if rc != 0 {
				return fmt.Errorf("write %v %v refused rc=%d %v", o.Side, o.Op.Node, rc, err)
			}
			time.Sleep(5 * time.Millisecond)
		}
		if ph.Name == "up" {
			if err := quiesce(ph); err != nil {
				return err
			}
		} else {
			time.Sleep(100 * time.Millisecond)
			d, err := c02Dump(ncD, c.Nodes)
			if err != nil {
				return err
			}
			u, err := c02Dump(ncU, c.Nodes)
			if err != nil {
				return err
			}
			ph.D, ph.U, ph.Converged = d, u, c02Canon(d) == c02Canon(u)
		}
	}
	return nil
}

// ---------- generator ----------
type c02Gen struct {
	r      *rand.Rand
	clock  int64
	nodes  []string          // device-tree nodes (besides the device root)
	par    map[string]string // node -> parent
	only   map[string]string // node -> the one side it exists on so far (created during an outage)
	outage bool
	n      int
}

// nodes usable from a side: those that exist there
func (g *c02Gen) usable(side string) []string {
	var out []string
	for _, n := range g.nodes {
		if o, ok := g.only[n]; !ok || o == side {
			out = append(out, n)
		}
	}
	return out
}

func (g *c02Gen) tick() int64 { g.clock += int64(1+g.r.Intn(3)) * 1e6; return g.clock }

func (g *c02Gen) pick(side string) string {
	us := g.usable(side)
	if len(us) == 0 || g.r.Intn(4) == 0 {
		return c02Down
	}
	return us[g.r.Intn(len(us))]
}

func (g *c02Gen) points(side string) c02Op {
	n := g.pick(side)
	var ps []sPoint
	for k := 0; k < 1+g.r.Intn(2); k++ {
		// (an untyped point is a point like any other: its identity is ("", key))
		ps = append(ps, sPoint{Type: []string{"value", "description", "units", "value", "description", ""}[g.r.Intn(6)], Key: []string{"", "1", "2", "3"}[g.r.Intn(4)],
			Time: g.tick(), VBits: math.Float64bits(float64(g.r.Intn(100))), Text: []string{"", "x", "söme"}[g.r.Intn(3)]})
		if g.r.Intn(8) == 0 {
			// dated ahead of the wall clock (a device whose clock runs fast, a schedule entry): a point like any other
			ps[len(ps)-1].Time += int64(38*3600) * 1e9
		}
		if g.r.Intn(4) == 0 {
			// a point-level deletion (the tombstone counter of the point itself) or a binary payload: fields that the
			// point checksum does not cover travel with the point all the same
			ps[len(ps)-1].Tomb = 1 + g.r.Intn(2)
		} else if g.r.Intn(6) == 0 {
			ps[len(ps)-1].Data = []byte{byte(g.r.Intn(256)), 0, 7}
		}
	}
	return c02Op{side, sOp{Kind: "np", Node: n, Points: ps}}
}

func (g *c02Gen) create(side string) []c02Op {
	g.n++
	id := fmt.Sprintf("%s%d", map[string]string{"D": "d", "U": "u"}[side], g.n)
	parent := g.pick(side)
	g.nodes = append(g.nodes, id)
	g.par[id] = parent
	if g.outage {
		g.only[id] = side
	}
	t := g.tick()
	ops := []c02Op{
		{side, sOp{Kind: "ep", Node: id, Parent: parent, Points: []sPoint{{Type: "tombstone", Time: t}, {Type: "nodeType", Time: t, Text: "variable"}}}},
		{side, sOp{Kind: "np", Node: id, Points: []sPoint{{Type: "description", Time: g.tick(), Text: "node " + id}, {Type: "value", Time: g.tick(), VBits: math.Float64bits(float64(g.n))}}}},
	}
	if g.r.Intn(4) == 0 {
		return ops[:1] // a node that has no node points (yet): only its edge with tombstone and node type
	}
	return ops
}

func (g *c02Gen) edgePoint(side string) (c02Op, bool) {
	us := g.usable(side)
	if len(us) == 0 {
		return c02Op{}, false
	}
	n := us[g.r.Intn(len(us))]
	return c02Op{side, sOp{Kind: "ep", Node: n, Parent: g.par[n], Points: []sPoint{{Type: "sortOrder", Time: g.tick(), VBits: math.Float64bits(float64(g.r.Intn(9)))}}}}, true
}

func (g *c02Gen) tomb(side string, v float64) (c02Op, bool) {
	us := g.usable(side)
	if len(us) == 0 {
		return c02Op{}, false
	}
	n := us[g.r.Intn(len(us))]
	return c02Op{side, sOp{Kind: "ep", Node: n, Parent: g.par[n], Points: []sPoint{{Type: "tombstone", Time: g.tick(), VBits: math.Float64bits(v)}}}}, true
}

func c02Side(r *rand.Rand) string {
	if r.Intn(2) == 0 {
		return "D"
	}
	return "U"
}

func c02GenCase(r *rand.Rand, id int, allowDelete bool) *c02Case {
	g := &c02Gen{r: r, clock: time.Now().UnixNano() - int64(7200)*1e9, par: map[string]string{}, only: map[string]string{}}
	c := &c02Case{ID: id}
	// phase 1, link up: build a small tree from the downstream side, a few writes on both sides
	ph := c02Phase{Name: "up"}
	for i := 0; i < 1+r.Intn(3); i++ {
		ph.Ops = append(ph.Ops, g.create("D")...)
	}
	for i := 0; i < r.Intn(4); i++ {
		ph.Ops = append(ph.Ops, g.points(c02Side(r)))
	}
	c.Phases = append(c.Phases, ph)
	kind := []string{"outage-points", "outage-create", "outage-edge-points", "up-only", "outage-mixed"}[r.Intn(5)]
	if allowDelete && r.Intn(3) == 0 {
		kind = []string{"outage-delete-down", "outage-delete-up", "outage-delete-both"}[r.Intn(3)]
	}
	if allowDelete && r.Intn(12) == 0 {
		// the same point (same instant) written to two different nodes on opposite sides: the XOR of point
		// CRCs, which do not cover the node id, gives both sides the same hashes (finding equal-hash-different-content)
		kind = "outage-twin-points"
	}
	if id%8 == 3 {
		// with the link up: a node created upstream that has no node points (only its edge), then ordinary writes on
		// both sides - the new node must appear downstream and the later writes must still cross
		c.Kind = "up-create-upstream-bare"
		g.n++
		bare := fmt.Sprintf("u%d", g.n)
		parent := g.pick("U")
		g.nodes = append(g.nodes, bare)
		g.par[bare] = parent
		t := g.tick()
		ph2 := c02Phase{Name: "up", Ops: []c02Op{
			{"U", sOp{Kind: "ep", Node: bare, Parent: parent, Points: []sPoint{{Type: "tombstone", Time: t}, {Type: "nodeType", Time: t, Text: "variable"}}}}}}
		c.Phases = append(c.Phases, ph2)
		ph3 := c02Phase{Name: "up"}
		for i := 0; i < 2+r.Intn(3); i++ {
			ph3.Ops = append(ph3.Ops, g.points(c02Side(r)))
		}
		c.Phases = append(c.Phases, ph3)
		c.Nodes = g.nodes
		return c
	}
	if id%8 == 7 {
		// the upstream instance is restarted (the link drops at the NATS level and comes back by itself) and, before the
		// downstream has reconnected, gains a node with a child: downstream they arrive one level per catch-up pass
		c.Kind = "restart-create-upstream"
		g.outage = true
		ops := g.create("U")
		a := g.nodes[len(g.nodes)-1]
		g.n++
		b := fmt.Sprintf("u%d", g.n)
		g.nodes = append(g.nodes, b)
		g.par[b] = a
		g.only[b] = "U"
		t := g.tick()
		ops = append(ops,
			c02Op{"U", sOp{Kind: "ep", Node: b, Parent: a, Points: []sPoint{{Type: "tombstone", Time: t}, {Type: "nodeType", Time: t, Text: "variable"}}}},
			c02Op{"U", sOp{Kind: "np", Node: b, Points: []sPoint{{Type: "description", Time: g.tick(), Text: "below " + a}}}})
		g.outage = false
		c.Phases = append(c.Phases, c02Phase{Name: "down", Restart: true, Ops: ops}, c02Phase{Name: "up"})
		c.Nodes = g.nodes
		return c
	}
	if id%8 == 5 {
		// an entry deleted on one side (point-level tombstone) and written again, later, on the other
		kind = "outage-point-delete"
		n := g.pick("D")
		c.Phases[0].Ops = append(c.Phases[0].Ops, c02Op{"D", sOp{Kind: "np", Node: n, Points: []sPoint{{Type: "ip", Key: "9", Time: g.tick(), Text: "10.0.0.1"}}}})
		a, b := "D", "U"
		if r.Intn(2) == 0 {
			a, b = b, a
		}
		c.Kind = kind
		down := c02Phase{Name: "down", Ops: []c02Op{
			{a, sOp{Kind: "np", Node: n, Points: []sPoint{{Type: "ip", Key: "9", Time: g.tick(), Text: "10.0.0.1", Tomb: 1}}}},
			{b, sOp{Kind: "np", Node: n, Points: []sPoint{{Type: "ip", Key: "9", Time: g.tick(), Text: "10.0.0.3"}}}}}}
		if r.Intn(2) == 0 {
			down.Ops = append(down.Ops, g.points(c02Side(r)))
		}
		c.Phases = append(c.Phases, down, c02Phase{Name: "up"})
		c.Nodes = g.nodes
		return c
	}
	c.Kind = kind
	if kind == "up-only" {
		ph2 := c02Phase{Name: "up"}
		// (a node created on one side during this phase is used from that side only until the phase is over: when it
		// reaches the other side is the sync client's business, not something the writers of the other side can rely on)
		g.outage = true
		for i := 0; i < 2+r.Intn(4); i++ {
			switch r.Intn(4) {
			case 0:
				// with the link up a node may be created on either side (upstream: the new-node notification path)
				ph2.Ops = append(ph2.Ops, g.create(c02Side(r))...)
			case 1:
				if o, ok := g.edgePoint(c02Side(r)); ok {
					ph2.Ops = append(ph2.Ops, o)
				}
			default:
				ph2.Ops = append(ph2.Ops, g.points(c02Side(r)))
			}
		}
		g.outage = false
		c.Phases = append(c.Phases, ph2)
	} else {
		down := c02Phase{Name: "down"}
		g.outage = true
		n := 2 + r.Intn(4)
		for i := 0; i < n; i++ {
			side := c02Side(r)
			switch kind {
			case "outage-twin-points":
				if i == 0 {
					all := append([]string{c02Down}, g.nodes...)
					a := r.Intn(len(all))
					b := (a + 1 + r.Intn(len(all)-1)) % len(all)
					p := sPoint{Type: "value", Key: []string{"", "7"}[r.Intn(2)], Time: g.tick(), VBits: math.Float64bits(float64(r.Intn(100)))}
					down.Ops = append(down.Ops, c02Op{"D", sOp{Kind: "np", Node: all[a], Points: []sPoint{p}}},
						c02Op{"U", sOp{Kind: "np", Node: all[b], Points: []sPoint{p}}})
				} else if r.Intn(2) == 0 {
					// further changes elsewhere are still synchronised when they are visible through the hashes
					down.Ops = append(down.Ops, g.points(side))
				}
			case "outage-points":
				down.Ops = append(down.Ops, g.points(side))
			case "outage-create":
				if i == 0 || r.Intn(2) == 0 {
					down.Ops = append(down.Ops, g.create(side)...)
				} else {
					down.Ops = append(down.Ops, g.points(side))
				}
			case "outage-edge-points":
				if o, ok := g.edgePoint(side); ok {
					down.Ops = append(down.Ops, o)
				}
			case "outage-delete-both":
				// the same node deleted independently on both sides, with an unsynchronised write on it first
				if i == 0 {
					us := g.usable("D")
					if len(us) > 0 {
						n := us[r.Intn(len(us))]
						w := c02Op{[]string{"D", "U"}[r.Intn(2)], sOp{Kind: "np", Node: n, Points: []sPoint{{Type: "value", Time: g.tick(), VBits: math.Float64bits(float64(50 + r.Intn(50)))}}}}
						down.Ops = append(down.Ops, w,
							c02Op{"D", sOp{Kind: "ep", Node: n, Parent: g.par[n], Points: []sPoint{{Type: "tombstone", Time: g.tick(), VBits: math.Float64bits(1)}}}},
							c02Op{"U", sOp{Kind: "ep", Node: n, Parent: g.par[n], Points: []sPoint{{Type: "tombstone", Time: g.tick(), VBits: math.Float64bits(1)}}}})
					}
				} else if r.Intn(2) == 0 {
					down.Ops = append(down.Ops, g.points(side))
				}
			case "outage-delete-down":
				if i == 0 {
					if o, ok := g.tomb("D", 1); ok {
						down.Ops = append(down.Ops, o)
					}
				} else {
					down.Ops = append(down.Ops, g.points("D"))
				}
			case "outage-delete-up":
				if i == 0 {
					if o, ok := g.tomb("U", 1); ok {
						down.Ops = append(down.Ops, o)
					}
				} else {
					down.Ops = append(down.Ops, g.points("U"))
				}
			default:
				switch r.Intn(3) {
				case 0:
					down.Ops = append(down.Ops, g.create(side)...)
				case 1:
					if o, ok := g.edgePoint(side); ok {
						down.Ops = append(down.Ops, o)
					}
				default:
					down.Ops = append(down.Ops, g.points(side))
				}
			}
		}
		c.Phases = append(c.Phases, down, c02Phase{Name: "up"})
	}
	c.Nodes = g.nodes
	return c
}

func runC02(cfg *config) error {
	cs := newCaseSet("c02")
	exe, err := os.Executable()
	if err != nil {
		return err
	}
	var cases []*c02Case
	if cfg.replay != "" {
		b, err := os.ReadFile(cfg.replay)
		if err != nil {
			return err
		}
		var rp struct {
			Cases []*c02Case `json:"cases"`
		}
		if err := json.Unmarshal(b, &rp); err != nil {
			return err
		}
		cases = rp.Cases
	} else {
		r := rand.New(rand.NewSource(cfg.seed))
		n := 24 * cfg.scale
		for i := 0; i < n; i++ {
			cases = append(cases, c02GenCase(r, i, true))
		}
	}
	results := make([]*c02Case, len(cases))
	var wg sync.WaitGroup
	sem := make(chan struct{}, 8)
	for i, c := range cases {
		wg.Add(1)
		go func(i int, c *c02Case) {
			defer wg.Done()
			sem <- struct{}{}
			defer func() { <-sem }()
			for attempt := 0; attempt < 2; attempt++ {
				f, err := os.CreateTemp("", "verif-c02-case-")
				if err != nil {
					break
				}
				in := *c
				for k := range in.Phases {
					in.Phases[k].D, in.Phases[k].U = nil, nil
				}
				b, _ := json.Marshal(&in)
				f.Write(b)
				f.Close()
				cmd := exec.Command(exe, "c02-worker", "-replay", f.Name())
				var out bytes.Buffer
				cmd.Stdout = &out
				cmd.Stderr = io.Discard
				done := make(chan error, 1)
				_ = cmd.Start()
				go func() { done <- cmd.Wait() }()
				var res c02Case
				ok := false
				select {
				case <-done:
					ok = json.Unmarshal(bytes.TrimSpace(out.Bytes()), &res) == nil
				case <-time.After(3 * time.Minute):
					_ = cmd.Process.Kill()
				}
				os.Remove(f.Name())
				if !ok {
					res = in
					res.Err = "worker failed or timed out"
				}
				results[i] = &res
				// re-run once from fresh instances when the final phase did not converge or an error occurred:
				// only a reproducible disagreement is reported
				last := res.Phases[len(res.Phases)-1]
				if res.Err == "" && last.Converged {
					break
				}
			}
		}(i, c)
	}
	wg.Wait()
	for i, c := range results {
		c.ID = i
		cs.add(c.val(), c)
		cs.count("kind:" + c.Kind)
		last := c.Phases[len(c.Phases)-1]
		cs.count(fmt.Sprintf("converged:%v", last.Converged))
		if c.Err == "" && !last.Converged {
			// whether the remaining difference is one that no hash comparison can see is decided by the model
			// (blind_only); only then can this key match a recorded finding
			c.Key = "equal-hash-different-content"
		}
		nops := 0
		for _, ph := range c.Phases {
			nops += len(ph.Ops)
		}
		cs.count(fmt.Sprintf("ops:%d", (nops/5)*5))
		if len(c.Phases) > 1 {
			cs.markNontrivial(fmt.Sprintf("%s-%d-%d", c.Kind, nops, len(c.Nodes)))
		}
		if i < 2 {
			cs.samples = append(cs.samples, map[string]any{"kind": c.Kind, "nodes": c.Nodes, "phases": func() []any {
				var o []any
				for _, ph := range c.Phases {
					o = append(o, map[string]any{"name": ph.Name, "ops": ph.Ops, "converged": ph.Converged, "wait_ms": ph.WaitMs})
				}
				return o
			}()})
		}
	}
	return cs.write(cfg.out)
}
