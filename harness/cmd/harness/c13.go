package main

// C13: a rule is active exactly when all of its conditions hold.
// Generator of rule configurations and point histories; every batch is run
// through the real RuleClient (hook client.VerifRuleRun: the run closure of
// RuleClient.Run, or client.VerifRuleProcess: ruleProcessPoints alone) which
// publishes on an in-process NATS server; the points it sends are captured by
// a subscriber on "p.>".
// Cases of kind "config" (c13cfg.go) also drive the configuration-change path
// of Run (hook client.VerifRuleRunConfig).

import (
	"crypto/sha1"
	"encoding/hex"
	"encoding/json"
	"fmt"
	"io"
	"log"
	"math"
	"math/rand"
	"os"
	"strconv"
	"strings"
	"time"

	natsserver "github.com/nats-io/nats-server/v2/server"
	"github.com/nats-io/nats.go"
	"github.com/simpleiot/simpleiot/client"
	"github.com/simpleiot/simpleiot/data"
)

func init() { areas["c13"] = c13Run }

type c13Cond struct {
	ID       string   `json:"id"`
	CType    string   `json:"ctype"`
	Node     string   `json:"node"`
	PType    string   `json:"ptype"`
	PKey     string   `json:"pkey"`
	VType    string   `json:"vtype"`
	Op       string   `json:"op"`
	Bits     string   `json:"bits"` // float64 bit pattern, hex (authoritative)
	V        string   `json:"v"`    // the same value printed, informational
	VText    string   `json:"vtext"`
	Active   bool     `json:"active"`
	Error    string   `json:"error"`
	Start    string   `json:"start,omitempty"`
	End      string   `json:"end,omitempty"`
	Weekdays []bool   `json:"weekdays,omitempty"`
	Dates    []string `json:"dates,omitempty"`
	// kind "config" only: when set, Start / End are recomputed when the case is run as
	// "the current UTC time plus this many minutes" (the trigger time of a configuration
	// change is time.Now(), so a window that is to contain / miss it must be placed
	// relative to the clock; a replay file stays meaningful at any time of day)
	StartOff *int `json:"start_off,omitempty"`
	EndOff   *int `json:"end_off,omitempty"`
}

type c13Act struct {
	ID     string `json:"id"`
	Action string `json:"action"`
	Node   string `json:"node"`
	PType  string `json:"ptype"`
	Bits   string `json:"bits"`
	V      string `json:"v"`
	VText  string `json:"vtext"`
	Active bool   `json:"active"`
	Error  string `json:"error"`
}

type c13Rule struct {
	ID     string    `json:"id"`
	Active bool      `json:"active"`
	Error  string    `json:"error"`
	Conds  []c13Cond `json:"conds"`
	Acts   []c13Act  `json:"acts"`
	IActs  []c13Act  `json:"iacts"`
}

type c13Pt struct {
	Type string `json:"type"`
	Key  string `json:"key"`
	Time int64  `json:"time"` // Unix nanoseconds, supplied by the generator
	Bits string `json:"bits"`
	V    string `json:"v"`
	Text string `json:"text"`
	// who wrote the point; the rule does not look at it (a set-value action's output carries the rule's own id
	// and may well be watched by one of the rule's conditions), so the model has no such field
	Origin string `json:"origin,omitempty"`
	// kind "config", points of type start / end only: Text is recomputed when the case
	// is run as the current UTC time plus this many minutes
	Off *int `json:"off,omitempty"`
}

type c13Out struct {
	Node   string `json:"node"`
	Type   string `json:"type"`
	Key    string `json:"key"`
	Bits   string `json:"bits"`
	Text   string `json:"text"`
	Origin string `json:"origin"`
}

type c13Step struct {
	// Cfg (kind "config" only): Node / Pts are points for the rule node or one of its
	// children handed to the client through newPoints (a configuration change), not a
	// batch of points seen on the "up" subscription
	Cfg  bool    `json:"cfg,omitempty"`
	Node string  `json:"node"`
	Pts  []c13Pt `json:"pts"`
	// observed
	Rule    *c13Rule `json:"obs_rule,omitempty"`
	Sent    []c13Out `json:"obs_sent"`
	Active  bool     `json:"obs_active"`
	Changed bool     `json:"obs_changed"`
	Err     string   `json:"obs_err,omitempty"`
	// kind "config": the schedule handles of the conditions of Rule; for a configuration
	// change the handle given to the edited schedule (if start / end were edited) and an
	// instant of the interval in which the client read time.Now() (Unix ns)
	Handles  []int `json:"obs_handles,omitempty"`
	Sched    *int  `json:"obs_sched,omitempty"`
	TrigTime int64 `json:"obs_time,omitempty"`
}

type c13Win struct {
	Handle int    `json:"handle"` // schedule handle: the condition's index, or the handle assigned at a schedule edit
	Cond   int    `json:"cond"`
	Time   int64  `json:"time"`
	Res    int    `json:"res"` // 0 outside, 1 inside, 2 error
	Err    string `json:"err,omitempty"`
}

type c13Fcmp struct {
	A  string `json:"a"`
	B  string `json:"b"`
	Lt bool   `json:"lt"`
	Gt bool   `json:"gt"`
	Eq bool   `json:"eq"`
	Ne bool   `json:"ne"`
}

type c13Case struct {
	ID      int       `json:"id"`
	Kind    string    `json:"kind"` // history | fcmp | config
	Mode    int       `json:"mode"` // 0 = run closure of RuleClient.Run, 1 = ruleProcessPoints alone
	Rule    c13Rule   `json:"rule"`
	Steps   []c13Step `json:"steps"`
	Windows []c13Win  `json:"windows"`
	Fcmp    *c13Fcmp  `json:"fcmp,omitempty"`
	Key     string    `json:"key"`
	// mode 1 only: the client of the case is one client for all its steps (client.VerifRuleSession). When Prelude is set,
	// that client has first been configured with PreludeRule and handed the prelude's batches; then the rule was edited
	// (condition EditCond compares against EditBits from now on) and Rule is what the edit left in the client: the steps
	// of the case follow on the same client. What the client remembers from the prelude besides its configuration
	// must not matter.
	PreludeRule *c13Rule  `json:"prelude_rule,omitempty"`
	Prelude     []c13Step `json:"prelude,omitempty"`
	EditCond    int       `json:"edit_cond,omitempty"`
	EditBits    string    `json:"edit_bits,omitempty"`
}

// ---------- float helpers ----------

func c13Bits(f float64) string { return fmt.Sprintf("%016x", math.Float64bits(f)) }
func c13Float(bits string) float64 {
	u, err := strconv.ParseUint(bits, 16, 64)
	if err != nil {
		panic("c13: bad bits " + bits)
	}
	return math.Float64frombits(u)
}
func c13Show(f float64) string { return strconv.FormatFloat(f, 'g', -1, 64) }
func c13BitsVal(bits string) string {
	u, err := strconv.ParseUint(bits, 16, 64)
	if err != nil {
		panic("c13: bad bits " + bits)
	}
	return vN(u)
}

// ---------- environment: in-process NATS server, one connection, one catch-all subscriber ----------

type c13Env struct {
	srv *natsserver.Server
	nc  *nats.Conn
	sub *nats.Subscription
}

func c13NewEnv() (*c13Env, error) {
	log.SetOutput(io.Discard) // the rule client logs every condition error
	srv, err := natsserver.NewServer(&natsserver.Options{DontListen: true, NoLog: true, NoSigs: true})
	if err != nil {
		return nil, err
	}
	go srv.Start()
	if !srv.ReadyForConnections(10 * time.Second) {
		return nil, fmt.Errorf("c13: NATS server not ready")
	}
	nc, err := nats.Connect("", nats.InProcessServer(srv))
	if err != nil {
		return nil, err
	}
	sub, err := nc.SubscribeSync("p.>")
	if err != nil {
		return nil, err
	}
	_ = sub.SetPendingLimits(-1, -1)
	if err := nc.Flush(); err != nil {
		return nil, err
	}
	return &c13Env{srv: srv, nc: nc, sub: sub}, nil
}

func (e *c13Env) c13Close() {
	e.nc.Close()
	e.srv.Shutdown()
}

// everything published on p.> so far, in order
func (e *c13Env) c13Drain() ([]c13Out, error) {
	if err := e.nc.Flush(); err != nil {
		return nil, err
	}
	n, _, err := e.sub.Pending()
	if err != nil {
		return nil, err
	}
	out := []c13Out{}
	for i := 0; i < n; i++ {
		m, err := e.sub.NextMsg(2 * time.Second)
		if err != nil {
			return nil, err
		}
		node := strings.TrimPrefix(m.Subject, "p.")
		pts, err := data.PbDecodePoints(m.Data)
		if err != nil {
			return nil, err
		}
		for _, p := range pts {
			out = append(out, c13Out{Node: node, Type: p.Type, Key: p.Key, Bits: c13Bits(p.Value), Text: p.Text, Origin: p.Origin})
		}
	}
	return out, nil
}

// ---------- conversion to and from the implementation's types ----------

func c13ToCond(c c13Cond, parent string) client.Condition {
	return client.Condition{ID: c.ID, Parent: parent, ConditionType: c.CType, Active: c.Active, Error: c.Error,
		NodeID: c.Node, PointType: c.PType, PointKey: c.PKey, ValueType: c.VType, Operator: c.Op,
		Value: c13Float(c.Bits), ValueText: c.VText, Start: c.Start, End: c.End,
		Weekdays: append([]bool(nil), c.Weekdays...), Dates: append([]string(nil), c.Dates...)}
}

func c13ToAct(a c13Act, parent string) client.Action {
	return client.Action{ID: a.ID, Parent: parent, Active: a.Active, Error: a.Error, Action: a.Action, NodeID: a.Node,
		PointType: a.PType, Value: c13Float(a.Bits), ValueText: a.VText}
}

func c13ToRule(r *c13Rule) client.Rule {
	ret := client.Rule{ID: r.ID, Parent: "parent", Description: "generated", Active: r.Active, Error: r.Error}
	for _, c := range r.Conds {
		ret.Conditions = append(ret.Conditions, c13ToCond(c, r.ID))
	}
	for _, a := range r.Acts {
		ret.Actions = append(ret.Actions, c13ToAct(a, r.ID))
	}
	for _, a := range r.IActs {
		ret.ActionsInactive = append(ret.ActionsInactive, c13ToAct(a, r.ID))
	}
	return ret
}

func c13FromAct(a client.Action) c13Act {
	return c13Act{ID: a.ID, Action: a.Action, Node: a.NodeID, PType: a.PointType, Bits: c13Bits(a.Value), V: c13Show(a.Value),
		VText: a.ValueText, Active: a.Active, Error: a.Error}
}

func c13FromRule(r client.Rule) *c13Rule {
	ret := &c13Rule{ID: r.ID, Active: r.Active, Error: r.Error, Conds: []c13Cond{}, Acts: []c13Act{}, IActs: []c13Act{}}
	for _, c := range r.Conditions {
		ret.Conds = append(ret.Conds, c13Cond{ID: c.ID, CType: c.ConditionType, Node: c.NodeID, PType: c.PointType, PKey: c.PointKey,
			VType: c.ValueType, Op: c.Operator, Bits: c13Bits(c.Value), V: c13Show(c.Value), VText: c.ValueText, Active: c.Active,
			Error: c.Error, Start: c.Start, End: c.End, Weekdays: c.Weekdays, Dates: c.Dates})
	}
	for _, a := range r.Actions {
		ret.Acts = append(ret.Acts, c13FromAct(a))
	}
	for _, a := range r.ActionsInactive {
		ret.IActs = append(ret.IActs, c13FromAct(a))
	}
	return ret
}

func c13ToPoints(pts []c13Pt, loc *time.Location) data.Points {
	ret := data.Points{}
	for _, p := range pts {
		ret = append(ret, data.Point{Type: p.Type, Key: p.Key, Time: time.Unix(0, p.Time).In(loc), Value: c13Float(p.Bits), Text: p.Text, Origin: p.Origin})
	}
	return ret
}

var c13Locs = []*time.Location{time.UTC, time.FixedZone("east", 5*3600+1800), time.FixedZone("west", -8*3600)}

// ---------- running a case on the implementation ----------

func c13RunCase(env *c13Env, c *c13Case) error {
	if c.Kind == "fcmp" {
		a, b := c13Float(c.Fcmp.A), c13Float(c.Fcmp.B)
		c.Fcmp.Lt, c.Fcmp.Gt, c.Fcmp.Eq, c.Fcmp.Ne = a < b, a > b, a == b, a != b
		return nil
	}
	if c.Kind == "config" {
		return c13RunConfigCase(env, c)
	}
	// schedule windows: the real activeForTime for every schedule condition at every trigger time
	c.Windows = []c13Win{}
	seen := map[string]bool{}
	for _, st := range c.Steps {
		for _, p := range st.Pts {
			if p.Type != data.PointTypeTrigger {
				continue
			}
			for i, cd := range c.Rule.Conds {
				if cd.CType != data.PointValueSchedule {
					continue
				}
				k := fmt.Sprintf("%d/%d", i, p.Time)
				if seen[k] {
					continue
				}
				seen[k] = true
				w := c13Win{Handle: i, Cond: i, Time: p.Time}
				in, err := client.VerifRuleScheduleActive(c13ToCond(cd, c.Rule.ID), time.Unix(0, p.Time).UTC())
				switch {
				case err != nil:
					w.Res, w.Err = 2, err.Error()
				case in:
					w.Res = 1
				}
				c.Windows = append(c.Windows, w)
			}
		}
	}
	if _, err := env.c13Drain(); err != nil {
		return err
	}
	var sess *client.VerifRuleSession
	if c.Mode == 1 {
		if c.PreludeRule != nil {
			// the prelude on the same client, then the edit
			sess = client.NewVerifRuleSession(env.nc, c13ToRule(c.PreludeRule))
			last := c13ToRule(c.PreludeRule)
			for i := range c.Prelude {
				st := &c.Prelude[i]
				func() {
					defer func() { _ = recover() }()
					if after, _, _, err := sess.Process(st.Node, c13ToPoints(st.Pts, c13Locs[(c.ID+i)%len(c13Locs)])); err == nil {
						last = after
					}
				}()
			}
			if _, err := env.c13Drain(); err != nil {
				return err
			}
			edited := c13FromRule(last)
			// the schedule configuration is the generator's (the client does not touch it)
			for i := range edited.Conds {
				if i < len(c.PreludeRule.Conds) {
					pc := c.PreludeRule.Conds[i]
					edited.Conds[i].Start, edited.Conds[i].End, edited.Conds[i].Weekdays, edited.Conds[i].Dates = pc.Start, pc.End, pc.Weekdays, pc.Dates
				}
			}
			if c.EditCond < len(edited.Conds) {
				edited.Conds[c.EditCond].Bits = c.EditBits
				edited.Conds[c.EditCond].V = c13Show(c13Float(c.EditBits))
			}
			c.Rule = *edited
			sess.SetConfig(c13ToRule(&c.Rule))
		} else {
			sess = client.NewVerifRuleSession(env.nc, c13ToRule(&c.Rule))
		}
	}
	cur := &c.Rule
	for i := range c.Steps {
		st := &c.Steps[i]
		cfg := c13ToRule(cur)
		pts := c13ToPoints(st.Pts, c13Locs[(c.ID+i)%len(c13Locs)])
		var after client.Rule
		var err error
		st.Err = ""
		func() {
			defer func() {
				if r := recover(); r != nil {
					err = fmt.Errorf("panic: %v", r)
				}
			}()
			if c.Mode == 1 {
				after, st.Active, st.Changed, err = sess.Process(st.Node, pts)
			} else {
				after, err = client.VerifRuleRun(env.nc, cfg, st.Node, pts)
				st.Active, st.Changed = after.Active, after.Active != cfg.Active
			}
		}()
		sent, derr := env.c13Drain()
		if derr != nil {
			return derr
		}
		st.Sent = sent
		if err != nil {
			st.Err = err.Error()
			st.Rule = cur
			continue
		}
		st.Rule = c13FromRule(after)
		// the schedule configuration is not touched by the rule client; keep the generator's copy authoritative
		cur = st.Rule
	}
	return nil
}

// ---------- val text ----------

func c13CondVal(i int, c c13Cond) string {
	return vL(vS(c.ID), vS(c.CType), vS(c.Node), vS(c.PType), vS(c.PKey), vS(c.VType), vS(c.Op), c13BitsVal(c.Bits), vS(c.VText),
		vI(i), vBool(c.Active), vS(c.Error))
}
func c13ActVal(a c13Act) string {
	return vL(vS(a.ID), vS(a.Action), vS(a.Node), vS(a.PType), c13BitsVal(a.Bits), vS(a.VText), vBool(a.Active), vS(a.Error))
}
func c13RuleVal(r *c13Rule) string { return c13RuleValH(r, nil) }

// handles: the schedule handle of every condition (nil: the condition's index)
func c13RuleValH(r *c13Rule, handles []int) string {
	cs := make([]string, len(r.Conds))
	for i, c := range r.Conds {
		h := i
		if i < len(handles) {
			h = handles[i]
		}
		cs[i] = c13CondVal(h, c)
	}
	as := make([]string, len(r.Acts))
	for i, a := range r.Acts {
		as[i] = c13ActVal(a)
	}
	is := make([]string, len(r.IActs))
	for i, a := range r.IActs {
		is[i] = c13ActVal(a)
	}
	return vL(vS(r.ID), vBool(r.Active), vS(r.Error), vL(cs...), vL(as...), vL(is...))
}

func c13PtsVal(pts []c13Pt) string {
	ps := make([]string, len(pts))
	for j, p := range pts {
		ps[j] = vL(vS(p.Type), vS(p.Key), vZ(p.Time), c13BitsVal(p.Bits), vS(p.Text))
	}
	return vL(ps...)
}

func c13SentVal(sent []c13Out) string {
	os := make([]string, len(sent))
	for j, o := range sent {
		os[j] = vL(vS(o.Node), vS(o.Type), vS(o.Key), c13BitsVal(o.Bits), vS(o.Text), vS(o.Origin))
	}
	return vL(os...)
}

func c13Val(c *c13Case) string {
	if c.Kind == "fcmp" {
		f := c.Fcmp
		return vL("1", c13BitsVal(f.A), c13BitsVal(f.B), vBool(f.Lt), vBool(f.Gt), vBool(f.Eq), vBool(f.Ne))
	}
	ws := make([]string, len(c.Windows))
	for i, w := range c.Windows {
		ws[i] = vL(vI(w.Handle), vZ(w.Time), vI(w.Res), vS(w.Err))
	}
	if c.Kind == "config" {
		return c13ConfigVal(c, ws)
	}
	ss := make([]string, len(c.Steps))
	for i, st := range c.Steps {
		ss[i] = vL(vS(st.Node), c13PtsVal(st.Pts), c13RuleVal(st.Rule), c13SentVal(st.Sent), vBool(st.Active), vBool(st.Changed), vBool(st.Err != ""))
	}
	return vL("0", vI(c.Mode), c13RuleVal(&c.Rule), vL(ws...), vL(ss...))
}

// ---------- generator ----------

var (
	c13NegZero  = math.Copysign(0, -1)
	c13Vals     = []float64{0, c13NegZero, 1, 1, -1, 1.5, 20, 20.5, -3.25, 0.1, 1e-310, -5e-324, math.MaxFloat64, math.Inf(1), math.Inf(-1), math.NaN()}
	c13Texts    = []string{"", "a", "ab", "abc", "b", "on", "xaby", "héllo", "é"}
	c13Nodes    = []string{"n1", "n2", "n3"}
	c13PTypes   = []string{"value", "temp", "text"}
	c13PKeys    = []string{"0", "a"}
	c13NumOps   = []string{">", "<", "=", "!="}
	c13TextOps  = []string{"=", "!=", "contains"}
	c13AllOps   = []string{">", "<", "=", "!=", "contains", "on", "off", "", ">="}
	c13Targets  = []string{"t1", "t2", "t3"}
	c13ATypes   = []string{"value", "set", "description", "active"}
	c13Starts   = []string{"0:00", "8:30", "23:59", "12:00", "22:15", "6:05"}
	c13BaseTime = time.Date(2023, 7, 20, 0, 0, 0, 0, time.UTC).UnixNano()
)

func c13Pick(r *rand.Rand, l []string) string { return l[r.Intn(len(l))] }

func c13Near(r *rand.Rand, v float64) float64 {
	switch r.Intn(10) {
	case 0, 1, 2:
		return v
	case 3:
		return math.Nextafter(v, math.Inf(1))
	case 4:
		return math.Nextafter(v, math.Inf(-1))
	case 5:
		return v + 1
	case 6:
		return v - 1
	case 7:
		return -v
	case 8:
		return c13Vals[r.Intn(len(c13Vals))]
	default:
		if r.Intn(3) == 0 {
			return math.NaN()
		}
		return 0
	}
}

func c13GenCond(r *rand.Rand, i int) c13Cond {
	c := c13Cond{ID: fmt.Sprintf("c%d", i), Bits: c13Bits(0), V: "0"}
	if r.Intn(10) < 3 {
		c.Active = true
	}
	if r.Intn(10) == 0 {
		c.Error = []string{"old error", "unknown value type: ", "x"}[r.Intn(3)]
	}
	k := r.Intn(100)
	switch {
	case k < 70:
		c.CType = data.PointValuePointValue
		if r.Intn(100) >= 35 {
			c.Node = c13Pick(r, c13Nodes)
		}
		if r.Intn(100) >= 25 {
			c.PType = c13Pick(r, c13PTypes)
		}
		if r.Intn(100) >= 55 {
			c.PKey = c13Pick(r, c13PKeys)
		}
		v := c13Vals[r.Intn(len(c13Vals))]
		c.Bits, c.V = c13Bits(v), c13Show(v)
		c.VText = c13Pick(r, c13Texts)
		t := r.Intn(100)
		switch {
		case t < 42:
			c.VType = data.PointValueNumber
			c.Op = c13Pick(r, c13NumOps)
		case t < 62:
			c.VType = data.PointValueOnOff
			c.Op = c13Pick(r, []string{"on", "off", "="})
		case t < 94:
			c.VType = data.PointValueText
			c.Op = c13Pick(r, c13TextOps)
		default:
			c.VType = c13Pick(r, []string{"", "bogus", "Number"})
			c.Op = c13Pick(r, c13AllOps)
		}
		if r.Intn(20) == 0 {
			c.Op = c13Pick(r, c13AllOps)
		}
	case k < 96:
		c.CType = data.PointValueSchedule
		c.Start = c13Pick(r, c13Starts)
		c.End = c13Pick(r, c13Starts)
		if r.Intn(12) == 0 {
			c.Start = c13Pick(r, []string{"", "bad", "7"})
		}
		if r.Intn(3) == 0 {
			c.Weekdays = make([]bool, 7)
			for d := range c.Weekdays {
				c.Weekdays[d] = r.Intn(2) == 0
			}
		}
		if r.Intn(5) == 0 {
			c.Dates = []string{c13Pick(r, []string{"2023-07-20", "2023-07-21", "2023-07-19", "nodate"})}
			if r.Intn(2) == 0 {
				c.Dates = append(c.Dates, "2023-07-22")
			}
		}
	default:
		c.CType = c13Pick(r, []string{"", "bogus"})
	}
	return c
}

func c13GenAct(r *rand.Rand, id string, ruleID string) c13Act {
	v := c13Vals[r.Intn(len(c13Vals))]
	if r.Intn(2) == 0 {
		v = float64(r.Intn(3))
	}
	a := c13Act{ID: id, Action: data.PointValueSetValue, Node: c13Pick(r, c13Targets), PType: c13Pick(r, c13ATypes),
		Bits: c13Bits(v), V: c13Show(v), VText: c13Pick(r, c13Texts), Active: r.Intn(2) == 0}
	if r.Intn(10) == 0 {
		a.Node = ruleID // a rule that writes to itself keeps the action as origin
		a.PType = c13Pick(r, []string{"value", "description"})
	}
	switch r.Intn(25) {
	case 0:
		a.Node = ""
	case 1:
		a.PType = ""
	case 2:
		a.Action = c13Pick(r, []string{"", "bogus"})
	}
	if r.Intn(10) == 0 {
		a.Error = c13Pick(r, []string{"old action error", "Error, node action nodeID must be set"})
	}
	return a
}

func c13GenPoint(r *rand.Rand, rule *c13Rule) c13Pt {
	p := c13Pt{Type: c13Pick(r, c13PTypes), Time: c13BaseTime + int64(r.Intn(3*86400))*int64(time.Second)}
	if r.Intn(8) == 0 {
		p.Type = c13Pick(r, []string{"", "other", "active"})
	}
	if r.Intn(10) < 4 {
		p.Key = c13Pick(r, c13PKeys)
	}
	v := c13Vals[r.Intn(len(c13Vals))]
	p.Text = c13Pick(r, c13Texts)
	switch r.Intn(6) {
	case 0:
		p.Origin = rule.ID // written by the rule itself (the output of one of its own actions, fed back)
	case 1:
		p.Origin = c13Pick(r, []string{"user-x", "parent", "c0"})
	}
	if len(rule.Conds) > 0 && r.Intn(10) < 8 {
		// aim at one of the conditions: value next to its threshold, text related to its text
		c := rule.Conds[r.Intn(len(rule.Conds))]
		v = c13Near(r, c13Float(c.Bits))
		switch r.Intn(5) {
		case 0:
			p.Text = c.VText
		case 1:
			p.Text = "x" + c.VText + "y"
		case 2:
			if rs := []rune(c.VText); len(rs) > 0 {
				p.Text = string(rs[:len(rs)-1])
			}
		}
		if c.PType != "" && r.Intn(10) < 8 {
			p.Type = c.PType
		}
		if c.PKey != "" && r.Intn(10) < 8 {
			p.Key = c.PKey
		}
	}
	p.Bits, p.V = c13Bits(v), c13Show(v)
	return p
}

func c13GenTrigger(r *rand.Rand, rule *c13Rule) c13Pt {
	// near a boundary of one of the schedules, or anywhere in three days
	t := c13BaseTime + int64(r.Intn(3*86400))*int64(time.Second)
	var scheds []c13Cond
	for _, c := range rule.Conds {
		if c.CType == data.PointValueSchedule {
			scheds = append(scheds, c)
		}
	}
	if len(scheds) > 0 && r.Intn(10) < 7 {
		c := scheds[r.Intn(len(scheds))]
		hm := c.Start
		if r.Intn(2) == 0 {
			hm = c.End
		}
		var h, m int
		if _, err := fmt.Sscanf(hm, "%d:%d", &h, &m); err == nil {
			day := int64(r.Intn(3))
			t = c13BaseTime + (day*86400+int64(h)*3600+int64(m)*60)*int64(time.Second)
			t += int64(r.Intn(3)-1) * int64(time.Second)
			if r.Intn(4) == 0 {
				t += int64(r.Intn(3)-1) * 1 // one nanosecond either side
			}
		}
	}
	return c13Pt{Type: data.PointTypeTrigger, Time: t, Bits: c13Bits(0), V: "0"}
}

func c13Gen(r *rand.Rand, id int) *c13Case {
	c := &c13Case{ID: id, Kind: "history"}
	if r.Intn(5) == 0 {
		c.Mode = 1
	}
	rule := &c.Rule
	rule.ID = "rule1"
	rule.Active = r.Intn(3) == 0
	nc := 1 + r.Intn(4)
	for i := 0; i < nc; i++ {
		rule.Conds = append(rule.Conds, c13GenCond(r, i))
	}
	if r.Intn(8) == 0 {
		// two schedule conditions over one window with different weekday filters: each is judged by its own days
		ws, we := c13Pick(r, c13Starts), c13Pick(r, c13Starts)
		for j := 0; j < 2; j++ {
			cd := c13GenCond(r, len(rule.Conds))
			cd.CType, cd.Start, cd.End, cd.Dates = data.PointValueSchedule, ws, we, nil
			cd.Weekdays = make([]bool, 7)
			for d := range cd.Weekdays {
				cd.Weekdays[d] = (d%2 == j) != (r.Intn(6) == 0)
			}
			rule.Conds = append(rule.Conds, cd)
		}
	}
	if r.Intn(6) == 0 {
		// all conditions already hold: the history starts from an active rule
		rule.Active = true
		for i := range rule.Conds {
			rule.Conds[i].Active = true
		}
	}
	na, ni := r.Intn(4), r.Intn(4)
	rule.Acts, rule.IActs = []c13Act{}, []c13Act{}
	for i := 0; i < na; i++ {
		rule.Acts = append(rule.Acts, c13GenAct(r, fmt.Sprintf("a%d", i), rule.ID))
	}
	for i := 0; i < ni; i++ {
		rule.IActs = append(rule.IActs, c13GenAct(r, fmt.Sprintf("i%d", i), rule.ID))
	}
	switch r.Intn(12) {
	case 0:
		rule.Error = "old rule error"
	case 1:
		if rule.Conds[0].Error != "" {
			rule.Error = rule.Conds[0].Error
		}
	}
	hasSched := false
	for _, cd := range rule.Conds {
		if cd.CType == data.PointValueSchedule {
			hasSched = true
		}
	}
	ns := 1 + r.Intn(10)
	for s := 0; s < ns; s++ {
		c.Steps = append(c.Steps, c13GenBatch(r, rule, hasSched))
	}
	return c
}

// a history on one client, an edit of a threshold, and the same batches again on that client
func c13GenEdit(r *rand.Rand, id int) *c13Case {
	var a *c13Case
	idx := -1
	for try := 0; try < 50 && idx < 0; try++ {
		a = c13Gen(r, id)
		for i, cd := range a.Rule.Conds {
			if cd.CType == data.PointValuePointValue && cd.VType == data.PointValueNumber {
				idx = i
				break
			}
		}
	}
	b := &c13Case{ID: id, Kind: "history", Mode: 1, Windows: []c13Win{}}
	pr := a.Rule
	b.PreludeRule = &pr
	for _, st := range a.Steps {
		b.Prelude = append(b.Prelude, c13Step{Node: st.Node, Pts: append([]c13Pt(nil), st.Pts...), Sent: []c13Out{}})
		b.Steps = append(b.Steps, c13Step{Node: st.Node, Pts: append([]c13Pt(nil), st.Pts...), Sent: []c13Out{}})
	}
	if idx < 0 {
		idx = 0
	}
	b.EditCond = idx
	// the new threshold: far above, far below, or exactly one of the readings of the history
	choices := []string{c13Bits(1e300), c13Bits(-1e300)}
	for _, st := range a.Steps {
		for _, p := range st.Pts {
			choices = append(choices, p.Bits, p.Bits)
		}
	}
	b.EditBits = choices[r.Intn(len(choices))]
	b.Rule = a.Rule // replaced when the case is run (what the prelude and the edit leave)
	return b
}

// one batch of points: the schedule ticker's trigger point, or 1-5 points from a node
func c13GenBatch(r *rand.Rand, rule *c13Rule, hasSched bool) c13Step {
	st := c13Step{Sent: []c13Out{}}
	if hasSched && r.Intn(3) == 0 {
		// the schedule ticker: one trigger point attributed to the rule itself
		st.Node = rule.ID
		st.Pts = []c13Pt{c13GenTrigger(r, rule)}
		if r.Intn(8) == 0 {
			st.Node = c13Pick(r, c13Nodes)
		}
	} else {
		st.Node = c13Pick(r, c13Nodes)
		if r.Intn(10) < 6 {
			// prefer a node some condition listens to
			cd := rule.Conds[r.Intn(len(rule.Conds))]
			if cd.Node != "" {
				st.Node = cd.Node
			}
		}
		if r.Intn(25) == 0 {
			st.Node = c13Pick(r, []string{"stranger", rule.ID})
		}
		np := 1
		if r.Intn(3) == 0 {
			np = 2 + r.Intn(4)
		}
		for k := 0; k < np; k++ {
			if hasSched && r.Intn(12) == 0 {
				st.Pts = append(st.Pts, c13GenTrigger(r, rule))
			} else {
				st.Pts = append(st.Pts, c13GenPoint(r, rule))
			}
		}
	}
	return st
}

func c13GenFcmp(r *rand.Rand, id int) *c13Case {
	a := c13Vals[r.Intn(len(c13Vals))]
	b := c13Near(r, a)
	switch r.Intn(6) {
	case 0:
		a, b = math.Float64frombits(r.Uint64()), math.Float64frombits(r.Uint64())
	case 1:
		a = math.Float64frombits(r.Uint64())
		b = c13Near(r, a)
	case 2:
		// NaNs with payloads and both signs
		a = math.Float64frombits(0x7ff0000000000000 | uint64(r.Int63n(1<<52)) | uint64(r.Intn(2))<<63)
	}
	if r.Intn(2) == 0 {
		a, b = b, a
	}
	return &c13Case{ID: id, Kind: "fcmp", Fcmp: &c13Fcmp{A: c13Bits(a), B: c13Bits(b)}}
}

// thorough tier: the finite grid of one condition x one point: value type x
// operator x (node, type, key filter each empty / matching / not matching) x
// relation of the point's value and text to the condition's, from both states
func c13Grid(startID int) []*c13Case {
	var out []*c13Case
	vtypes := []string{data.PointValueNumber, data.PointValueText, data.PointValueOnOff}
	cvs := []float64{20, 0}
	texts := []string{"ab", ""}
	id := startID
	for _, vt := range vtypes {
		for _, op := range c13AllOps {
			for f := 0; f < 27; f++ {
				for rel := 0; rel < 6; rel++ {
					for init := 0; init < 2; init++ {
						cv, ct := cvs[(f+rel)%2], texts[(f/3+rel)%2]
						cd := c13Cond{ID: "c0", CType: data.PointValuePointValue, VType: vt, Op: op, Bits: c13Bits(cv), V: c13Show(cv),
							VText: ct, Active: init == 1}
						pt := c13Pt{Type: "value", Key: "k", Time: c13BaseTime}
						node := "n1"
						switch f % 3 {
						case 1:
							cd.Node = "n1"
						case 2:
							cd.Node = "n2"
						}
						switch (f / 3) % 3 {
						case 1:
							cd.PType = "value"
						case 2:
							cd.PType = "temp"
						}
						switch (f / 9) % 3 {
						case 1:
							cd.PKey = "k"
						case 2:
							cd.PKey = "0"
						}
						var pv float64
						switch rel {
						case 0:
							pv, pt.Text = cv-1, ct+"x"
						case 1:
							pv, pt.Text = math.Nextafter(cv, math.Inf(-1)), "x"+ct+"y"
						case 2:
							pv, pt.Text = cv, ct
						case 3:
							pv, pt.Text = math.Nextafter(cv, math.Inf(1)), "zz"
						case 4:
							pv, pt.Text = math.NaN(), ""
						default:
							pv, pt.Text = -cv, "a"
						}
						pt.Bits, pt.V = c13Bits(pv), c13Show(pv)
						c := &c13Case{ID: id, Kind: "history", Mode: rel % 2,
							Rule: c13Rule{ID: "rule1", Active: init == 1, Conds: []c13Cond{cd},
								Acts:  []c13Act{{ID: "a0", Action: data.PointValueSetValue, Node: "t1", PType: "value", Bits: c13Bits(1), V: "1", Active: init == 1}},
								IActs: []c13Act{{ID: "i0", Action: data.PointValueSetValue, Node: "t1", PType: "value", Bits: c13Bits(0), V: "0", Active: init == 0}}},
							Steps: []c13Step{{Node: node, Pts: []c13Pt{pt}, Sent: []c13Out{}}}}
						out = append(out, c)
						id++
					}
				}
			}
		}
	}
	// every ordered pair of the special float values and their neighbours
	var fs []float64
	for _, v := range c13Vals {
		fs = append(fs, v, math.Nextafter(v, math.Inf(1)), math.Nextafter(v, math.Inf(-1)))
	}
	fs = append(fs, math.Float64frombits(0xfff8000000000001), math.Float64frombits(0x7ff0000000000001))
	for _, a := range fs {
		for _, b := range fs {
			out = append(out, &c13Case{ID: id, Kind: "fcmp", Fcmp: &c13Fcmp{A: c13Bits(a), B: c13Bits(b)}})
			id++
		}
	}
	return out
}

func c13Digest(c *c13Case) string {
	h := sha1.New()
	type stepIn struct {
		Cfg  bool
		Node string
		Pts  []c13Pt
	}
	var steps []stepIn
	for _, s := range c.Steps {
		steps = append(steps, stepIn{s.Cfg, s.Node, s.Pts})
	}
	b, _ := json.Marshal([]any{c.Kind, c.Mode, c.Rule, steps})
	h.Write(b)
	return hex.EncodeToString(h.Sum(nil))[:16]
}

func c13Run(cfg *config) error {
	env, err := c13NewEnv()
	if err != nil {
		return err
	}
	defer env.c13Close()
	cs := newCaseSet("c13")
	var cases []*c13Case
	if cfg.replay != "" {
		b, err := os.ReadFile(cfg.replay)
		if err != nil {
			return err
		}
		var rp struct {
			Cases []*c13Case `json:"cases"`
		}
		if err := json.Unmarshal(b, &rp); err != nil {
			return err
		}
		cases = rp.Cases
	} else {
		r := rand.New(rand.NewSource(cfg.seed))
		n := 3000 * cfg.scale
		for i := 0; i < n; i++ {
			cases = append(cases, c13Gen(r, i))
		}
		for i := 0; i < 300*cfg.scale; i++ {
			cases = append(cases, c13GenFcmp(r, n+i))
		}
		// histories on a client that has seen the same batches before an edit of a threshold
		for i := 0; i < 250*cfg.scale; i++ {
			cases = append(cases, c13GenEdit(r, len(cases)))
		}
		// histories with configuration changes (kind "config", c13cfg.go)
		for i := 0; i < 550*cfg.scale; i++ {
			cases = append(cases, c13GenConfig(r, len(cases)))
		}
		if cfg.tier == "thorough" || cfg.search {
			cases = append(cases, c13Grid(len(cases))...)
		}
	}
	nsamples, ncfgsamples := 0, 0
	for i, c := range cases {
		c.ID = i
		if err := c13RunCase(env, c); err != nil {
			return fmt.Errorf("case %d: %v", i, err)
		}
		cs.add(c13Val(c), c)
		cs.count("kind:" + c.Kind)
		if c.Kind == "fcmp" {
			continue
		}
		if c.Kind == "config" {
			hasSched := false
			for _, cd := range c.Rule.Conds {
				hasSched = hasSched || cd.CType == data.PointValueSchedule
			}
			if hasSched {
				cs.count("config:rule-with-schedule")
			} else {
				cs.count("config:rule-without-schedule")
			}
		} else {
			cs.count(fmt.Sprintf("mode:%d", c.Mode))
		}
		cs.count(fmt.Sprintf("conditions:%d", len(c.Rule.Conds)))
		cs.count(fmt.Sprintf("actions:%d", len(c.Rule.Acts)))
		cs.count(fmt.Sprintf("actionsInactive:%d", len(c.Rule.IActs)))
		for _, cd := range c.Rule.Conds {
			switch cd.CType {
			case data.PointValuePointValue:
				cs.count("cond:" + cd.VType + cd.Op)
				f := ""
				if cd.Node != "" {
					f += "N"
				}
				if cd.PType != "" {
					f += "T"
				}
				if cd.PKey != "" {
					f += "K"
				}
				cs.count("filters:" + f)
			case data.PointValueSchedule:
				cs.count("cond:schedule")
			default:
				cs.count("cond:unknown-type")
			}
		}
		nontrivial := false
		prev := &c.Rule
		cfgFlip := false
		for si := range c.Steps {
			st := &c.Steps[si]
			cs.count("steps")
			if st.Cfg {
				cs.count("step:config-change")
				cs.count("config-edit:" + c13ConfigStepClass(prev, st))
			} else if c.Kind == "config" {
				cs.count("step:batch-in-config-history")
			}
			if st.Err != "" {
				cs.count("step:hook-error")
				continue
			}
			if st.Cfg && st.Rule.Active != prev.Active {
				// the rule's state flips on the configuration-change path
				cfgFlip = true
				opp := prev.Acts
				if st.Rule.Active {
					cs.count("config:rule-activated")
					opp = prev.IActs
				} else {
					cs.count("config:rule-deactivated")
				}
				for _, a := range opp {
					if a.Active {
						cs.count("config:flip-with-opposite-list-active")
						break
					}
				}
			} else if st.Cfg {
				cs.count("config:state-unchanged")
			}
			if st.Rule.Active != prev.Active {
				nontrivial = true
				if st.Rule.Active {
					cs.count("step:rule-activated")
				} else {
					cs.count("step:rule-deactivated")
				}
			}
			for k := range st.Rule.Conds {
				if k < len(prev.Conds) && st.Rule.Conds[k].Active != prev.Conds[k].Active {
					nontrivial = true
					cs.count("step:condition-changed")
					break
				}
			}
			for _, o := range st.Sent {
				if o.Type == data.PointTypeError {
					cs.count("sent:error-point")
				}
			}
			cs.stats["sent:points"] += len(st.Sent)
			prev = st.Rule
		}
		for _, w := range c.Windows {
			cs.count(fmt.Sprintf("window:%d", w.Res))
		}
		// non-trivial: some condition or the rule changes state somewhere in the history
		if nontrivial {
			cs.markNontrivial(c13Digest(c))
			if c.Kind != "config" && nsamples < 2 && len(c.Steps) <= 3 && len(c.Rule.Conds) <= 2 {
				cs.samples = append(cs.samples, c)
				nsamples++
			}
			if cfgFlip && ncfgsamples < 1 && len(c.Steps) <= 2 && len(c.Rule.Conds) <= 2 {
				cs.samples = append(cs.samples, c)
				ncfgsamples++
			}
		}
	}
	return cs.write(cfg.out)
}
