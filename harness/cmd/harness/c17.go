package main

// C17: serial packets round-trip and corruption is always detected.
// Real code exercised: client.SerialEncode, client.SerialDecode,
// data.PbDecodeSerialPoints, crc16.ChecksumCCITT.

import (
	"bytes"
	"crypto/sha1"
	"encoding/hex"
	"encoding/json"
	"fmt"
	"math"
	"math/rand"
	"os"
	"strings"
	"time"

	"github.com/kjx98/crc16"
	"github.com/simpleiot/simpleiot/client"
	"github.com/simpleiot/simpleiot/data"
	"google.golang.org/protobuf/encoding/protowire"
)

func init() { areas["c17"] = c17Main }

// ---------- case representation ----------

// a point as input: every field needed to rebuild the data.Point exactly
type c17Point struct {
	Type      string `json:"type"`
	Key       string `json:"key"`
	Text      string `json:"text"`
	Origin    string `json:"origin"`
	ValueBits uint64 `json:"value_bits"` // IEEE-754 bits of the float64 value
	TimeNs    int64  `json:"time_ns"`
	ZeroTime  bool   `json:"zero_time,omitempty"` // time.Time{} (not representable in int64 ns)
	Tombstone int    `json:"tombstone"`
	Data      []byte `json:"data,omitempty"`
}

// a point as observed: value as bits of float64, time as UnixNano
type c17Obs struct {
	Type      string `json:"type"`
	Key       string `json:"key"`
	Text      string `json:"text"`
	Origin    string `json:"origin"`
	ValueBits uint64 `json:"value_bits"`
	TimeNs    int64  `json:"time_ns"`
	Tombstone int64  `json:"tombstone"`
	Data      []byte `json:"data,omitempty"`
}

// result of one SerialDecode call
type c17Res struct {
	Class   int    `json:"class"` // 0 ok, 1 error, 2 panic
	Err     int    `json:"err,omitempty"`
	Seq     int    `json:"seq"`
	Subject []byte `json:"subject,omitempty"`
	Payload []byte `json:"payload,omitempty"`
}

type c17Flip struct {
	Off int `json:"off"`
	Xor int `json:"xor"`
}

type c17Exc struct {
	Mask []byte `json:"mask"`
	Res  c17Res `json:"res"`
}

type c17Case struct {
	ID   int    `json:"id"`
	Kind string `json:"kind"` // crc | round | corrupt | raw | exh
	Sub  string `json:"sub,omitempty"`
	Key  string `json:"key"`
	// inputs
	Seq      int         `json:"seq"`
	Subject  []byte      `json:"subject"`
	SubjectQ string      `json:"subject_text,omitempty"`
	Points   []c17Point  `json:"points,omitempty"`
	Data     []byte      `json:"data,omitempty"`     // crc, raw
	Patterns [][]c17Flip `json:"patterns,omitempty"` // corrupt
	PatKinds []string    `json:"pattern_kinds,omitempty"`
	Cls      int         `json:"cls,omitempty"` // exh
	A        int         `json:"a,omitempty"`
	B        int         `json:"b,omitempty"`
	// observed
	Crc     int      `json:"crc,omitempty"`
	Payload []byte   `json:"expected_payload,omitempty"`
	EncOK   bool     `json:"enc_ok"`
	Packet  []byte   `json:"packet,omitempty"`
	Dec     *c17Res  `json:"dec,omitempty"`
	PbOK    bool     `json:"pb_ok,omitempty"`
	Exp     []c17Obs `json:"exp,omitempty"`
	Got     []c17Obs `json:"got,omitempty"`
	Results []c17Res `json:"results,omitempty"`
	Count   int      `json:"count,omitempty"`
	Exc     []c17Exc `json:"exceptions,omitempty"`
}

// ---------- running the implementation ----------

func c17Decode(d []byte) (res c17Res) {
	defer func() {
		if r := recover(); r != nil {
			res = c17Res{Class: 2}
		}
	}()
	in := append([]byte{}, d...)
	seq, subj, payload, err := client.SerialDecode(in)
	if err != nil {
		code := 8
		switch {
		case strings.Contains(err.Error(), "Not enough data"):
			code = 1
		case strings.Contains(err.Error(), "CRC check failed"):
			code = 2
		}
		return c17Res{Class: 1, Err: code, Seq: int(seq)}
	}
	return c17Res{Class: 0, Seq: int(seq), Subject: []byte(subj), Payload: append([]byte{}, payload...)}
}

func c17Points(ps []c17Point) data.Points {
	out := make(data.Points, len(ps))
	for i, p := range ps {
		t := time.Unix(0, p.TimeNs)
		if p.ZeroTime {
			t = time.Time{}
		}
		out[i] = data.Point{Type: p.Type, Key: p.Key, Text: p.Text, Origin: p.Origin,
			Value: math.Float64frombits(p.ValueBits), Time: t, Tombstone: p.Tombstone}
		if len(p.Data) > 0 {
			out[i].Data = append([]byte{}, p.Data...)
		}
	}
	if len(ps) == 0 {
		return nil
	}
	return out
}

func c17Encode(seq int, subject []byte, pts data.Points) (b []byte, ok bool) {
	defer func() {
		if r := recover(); r != nil {
			b, ok = nil, false
		}
	}()
	out, err := client.SerialEncode(byte(seq), string(subject), pts)
	if err != nil {
		return nil, false
	}
	// a packet is a value: it is held while the next one (same length, next sequence number) is built, as a
	// sender with a queue does, and must still be what was built
	_, _ = client.SerialEncode(byte(seq+1), string(subject), pts)
	return append([]byte{}, out...), true
}

// The payload the packet is expected to carry: protobuf SerialPoints written
// field by field (docs/ref/serial.md, internal/pb/point.proto), independent of
// proto.Marshal.  Fields in field-number order, zero values omitted (proto3).
func c17Payload(pts data.Points) []byte {
	var out []byte
	for _, p := range pts {
		var m []byte
		if p.Type != "" {
			m = protowire.AppendTag(m, 2, protowire.BytesType)
			m = protowire.AppendString(m, p.Type)
		}
		f := float32(p.Value)
		if !(f == 0 && !math.Signbit(float64(f))) {
			m = protowire.AppendTag(m, 4, protowire.Fixed32Type)
			m = protowire.AppendFixed32(m, math.Float32bits(f))
		}
		if p.Text != "" {
			m = protowire.AppendTag(m, 8, protowire.BytesType)
			m = protowire.AppendString(m, p.Text)
		}
		if p.Key != "" {
			m = protowire.AppendTag(m, 11, protowire.BytesType)
			m = protowire.AppendString(m, p.Key)
		}
		if tb := int32(p.Tombstone); tb != 0 {
			m = protowire.AppendTag(m, 12, protowire.VarintType)
			m = protowire.AppendVarint(m, uint64(int64(tb)))
		}
		if len(p.Data) > 0 {
			m = protowire.AppendTag(m, 14, protowire.BytesType)
			m = protowire.AppendBytes(m, p.Data)
		}
		if p.Origin != "" {
			m = protowire.AppendTag(m, 15, protowire.BytesType)
			m = protowire.AppendString(m, p.Origin)
		}
		if ns := p.Time.UnixNano(); ns != 0 {
			m = protowire.AppendTag(m, 16, protowire.VarintType)
			m = protowire.AppendVarint(m, uint64(ns))
		}
		out = protowire.AppendTag(out, 1, protowire.BytesType)
		out = protowire.AppendBytes(out, m)
	}
	return out
}

func c17Expected(pts data.Points) []c17Obs {
	out := make([]c17Obs, len(pts))
	for i, p := range pts {
		out[i] = c17Obs{Type: p.Type, Key: p.Key, Text: p.Text, Origin: p.Origin,
			ValueBits: math.Float64bits(float64(float32(p.Value))), // to float32 precision
			TimeNs:    p.Time.UnixNano(),                           // to the nanosecond
			Tombstone: int64(p.Tombstone), Data: p.Data}
	}
	return out
}

func c17Observed(pts data.Points) []c17Obs {
	out := make([]c17Obs, len(pts))
	for i, p := range pts {
		out[i] = c17Obs{Type: p.Type, Key: p.Key, Text: p.Text, Origin: p.Origin,
			ValueBits: math.Float64bits(p.Value), TimeNs: p.Time.UnixNano(), Tombstone: int64(p.Tombstone), Data: p.Data}
	}
	return out
}

func c17Apply(pkt []byte, pat []c17Flip) []byte {
	d := append([]byte{}, pkt...)
	for _, f := range pat {
		if f.Off >= 0 && f.Off < len(d) {
			d[f.Off] ^= byte(f.Xor)
		}
	}
	return d
}

func c17SubjectOf(d []byte) string {
	if len(d) < 17 {
		return ""
	}
	return string(bytes.Trim(d[1:17], "\x00"))
}

// run (or re-run) the implementation on the inputs of a case
func c17RunCase(c *c17Case) {
	c.SubjectQ = fmt.Sprintf("%q", string(c.Subject))
	switch c.Kind {
	case "crc":
		c.Crc = int(crc16.ChecksumCCITT(c.Data))
	case "raw":
		r := c17Decode(c.Data)
		c.Dec = &r
	case "round":
		pts := c17Points(c.Points)
		c.Payload = c17Payload(pts)
		c.Packet, c.EncOK = c17Encode(c.Seq, c.Subject, pts)
		r := c17Decode(c.Packet)
		c.Dec = &r
		c.Exp = c17Expected(pts)
		c.Got, c.PbOK = nil, false
		if r.Class == 0 {
			dp, err := data.PbDecodeSerialPoints(r.Payload)
			if err == nil {
				c.PbOK = true
				c.Got = c17Observed(dp)
			}
		}
	case "corrupt":
		pts := c17Points(c.Points)
		c.Payload = c17Payload(pts)
		c.Packet, c.EncOK = c17Encode(c.Seq, c.Subject, pts)
		c.Results = make([]c17Res, len(c.Patterns))
		c.Key = ""
		for i, pat := range c.Patterns {
			d := c17Apply(c.Packet, pat)
			c.Results[i] = c17Decode(d)
			if c17SubjectOf(c.Packet) != "log" && c17SubjectOf(d) == "log" {
				c.Key = "log-adjacent"
			}
		}
	case "exh":
		pts := c17Points(c.Points)
		c.Payload = c17Payload(pts)
		c.Packet, c.EncOK = c17Encode(c.Seq, c.Subject, pts)
		c17Exhaust(c)
	}
}

// every pattern of one class against the real decoder, in the order the model
// enumerates them; only results other than "CRC check failed" are recorded
func c17Exhaust(c *c17Case) {
	pkt := c.Packet
	n := 8 * len(pkt)
	c.Count, c.Exc, c.Key = 0, nil, ""
	d := make([]byte, len(pkt))
	mask := make([]byte, len(pkt))
	try := func(bitsSet []int) {
		for i := range mask {
			mask[i] = 0
		}
		for _, b := range bitsSet {
			mask[b/8] ^= 1 << uint(b%8)
		}
		for i := range d {
			d[i] = pkt[i] ^ mask[i]
		}
		c.Count++
		r := c17Decode(d)
		if r.Class == 1 && r.Err == 2 && r.Seq == int(d[0]) {
			return
		}
		c.Exc = append(c.Exc, c17Exc{Mask: append([]byte{}, mask...), Res: r})
		if c17SubjectOf(pkt) != "log" && c17SubjectOf(d) == "log" {
			if c.Key == "" {
				c.Key = "log-adjacent"
			}
		} else {
			c.Key = "exhaustive-escape"
		}
	}
	for i := c.A; i < c.B && i < n; i++ {
		switch c.Cls {
		case 1:
			try([]int{i})
		case 2:
			for j := i + 1; j < n; j++ {
				try([]int{i, j})
			}
		default:
			k := n - 1 - i
			if k > 15 {
				k = 15
			}
			set := make([]int, 0, 16)
			for t := 0; t < 1<<uint(k); t++ {
				set = append(set[:0], i)
				for m := 0; m < k; m++ {
					if t&(1<<uint(m)) != 0 {
						set = append(set, i+1+m)
					}
				}
				try(set)
			}
		}
	}
}

// ---------- val text ----------

func c17ResVal(r c17Res) string {
	switch r.Class {
	case 0:
		return vL("0", vI(r.Seq), vB(r.Subject), vB(r.Payload))
	case 1:
		return vL("1", vI(r.Err), vI(r.Seq))
	}
	return vL("2")
}

func c17ObsVal(os []c17Obs) string {
	items := make([]string, len(os))
	for i, o := range os {
		items[i] = vL(vS(o.Type), vS(o.Key), vS(o.Text), vN(o.ValueBits), vZ(o.TimeNs), vZ(o.Tombstone), vS(o.Origin), vB(o.Data))
	}
	return vL(items...)
}

func c17Val(c *c17Case) string {
	switch c.Kind {
	case "crc":
		return vL("0", vB(c.Data), vI(c.Crc))
	case "raw":
		return vL("3", vB(c.Data), c17ResVal(*c.Dec))
	case "round":
		return vL("1", vI(c.Seq), vB(c.Subject), vB(c.Payload), vBool(c.EncOK), vB(c.Packet),
			c17ResVal(*c.Dec), vBool(c.PbOK), c17ObsVal(c.Exp), c17ObsVal(c.Got))
	case "corrupt":
		errs := make([]string, len(c.Patterns))
		for i, pat := range c.Patterns {
			fl := make([]string, len(pat))
			for j, f := range pat {
				fl[j] = vL(vI(f.Off), vI(f.Xor))
			}
			errs[i] = vL(vL(fl...), c17ResVal(c.Results[i]))
		}
		return vL("2", vI(c.Seq), vB(c.Subject), vB(c.Payload), vB(c.Packet), vL(errs...))
	case "exh":
		exc := make([]string, len(c.Exc))
		for i, e := range c.Exc {
			exc[i] = vL(vB(e.Mask), c17ResVal(e.Res))
		}
		return vL("4", vI(c.Seq), vB(c.Subject), vB(c.Payload), vB(c.Packet), vI(c.Cls), vI(c.A), vI(c.B),
			vI(c.Count), vL(exc...))
	}
	panic("c17Val: kind " + c.Kind)
}

// ---------- generators ----------

var c17IDs = []string{"a", "a1", "n7", "abc", "4f2a", "x-1", "node1", "7b0c9", "e3f1a2"}

func c17RandASCII(r *rand.Rand, n int) string {
	const al = "abcdefghijklmnopqrstuvwxyzABCDEFGHIJKLMNOPQRSTUVWXYZ0123456789-_./"
	b := make([]byte, n)
	for i := range b {
		b[i] = al[r.Intn(len(al))]
	}
	return string(b)
}

// subjects: the documented ones, 16-byte ones, ones next to "log", malformed ones
func c17Subject(r *rand.Rand) (string, string) {
	switch r.Intn(16) {
	case 0, 1:
		return "", "blank"
	case 2:
		return "ack", "ack"
	case 3:
		return "phr", "phr"
	case 4:
		return "log", "log"
	case 5, 6:
		return "p." + c17IDs[r.Intn(len(c17IDs))], "p.id"
	case 7, 8:
		id := c17IDs[r.Intn(len(c17IDs))]
		par := c17IDs[r.Intn(len(c17IDs))]
		s := "p." + id + "." + par
		if len(s) > 16 {
			s = s[:16]
		}
		return s, "p.id.parent"
	case 9:
		return "p." + c17RandASCII(r, 14), "len16"
	case 10:
		return c17RandASCII(r, 16), "len16"
	case 11:
		return []string{"p.g", "lo", "lof", "mog", "logs", "lo\x00g", "p.gx", "Log", "hog"}[r.Intn(9)], "near-log"
	case 12:
		return c17RandASCII(r, 1+r.Intn(15)), "ascii"
	case 13: // arbitrary bytes without NUL at either end
		n := 1 + r.Intn(16)
		b := make([]byte, n)
		for i := range b {
			b[i] = byte(r.Intn(256))
		}
		if b[0] == 0 {
			b[0] = 0x80
		}
		if b[n-1] == 0 {
			b[n-1] = 0xff
		}
		return string(b), "bytes"
	case 14: // NUL at an end: trimmed by the decoder (outside the round-trip domain)
		return []string{"\x00ab", "ab\x00", "\x00", "\x00log", "log\x00", "\x00\x00ack\x00"}[r.Intn(6)], "nul-ends"
	default: // too long
		return c17RandASCII(r, 17+r.Intn(8)), "too-long"
	}
}

var c17Types = []string{"value", "description", "nodeType", "currentTime", "tombstone", "temp", "errorCount", "", "größe", "温度"}
var c17Texts = []string{"", "", "node description", "device", "ünïcode ✓", "line1\nline2", "a\x00b", "0"}

func c17Value(r *rand.Rand) (float64, string) {
	switch r.Intn(14) {
	case 0:
		return 0, "zero"
	case 1:
		return math.Copysign(0, -1), "negzero"
	case 2:
		return 1, "one"
	case 3:
		return 23.53, "decimal"
	case 4:
		return 1e-50, "underflow"
	case 5:
		return 1e39, "overflow"
	case 6:
		return math.MaxFloat32, "maxf32"
	case 7:
		return float64(math.SmallestNonzeroFloat32) * float64(1+r.Intn(100)), "denormal"
	case 8:
		return math.NaN(), "nan"
	case 9:
		return math.Inf(1 - 2*r.Intn(2)), "inf"
	case 10: // exactly half-way between two float32 values
		f := math.Float32frombits(0x3f800000 + uint32(r.Intn(1<<20)))
		g := math.Float32frombits(math.Float32bits(f) + 1)
		return (float64(f) + float64(g)) / 2, "halfway"
	case 11:
		return float64(math.Float32frombits(r.Uint32())), "f32bits"
	case 12:
		return math.Float64frombits(r.Uint64()), "f64bits"
	default:
		return float64(r.Intn(2000000)-1000000) / 100, "fixed2"
	}
}

func c17Time(r *rand.Rand) (int64, bool, string) {
	switch r.Intn(10) {
	case 0:
		return 0, true, "zero-time"
	case 1:
		return 0, false, "epoch"
	case 2:
		return math.MaxInt64, false, "max"
	case 3:
		return math.MinInt64, false, "min"
	case 4:
		return -1 - r.Int63n(1e18), false, "pre-epoch"
	case 5:
		return r.Int63(), false, "any"
	default: // around 2023 with nanoseconds
		return 1_690_000_000_000_000_000 + r.Int63n(1e17), false, "recent"
	}
}

func c17GenPoint(r *rand.Rand, cs *caseSet) c17Point {
	p := c17Point{Type: c17Types[r.Intn(len(c17Types))]}
	if r.Intn(8) == 0 {
		p.Type = c17RandASCII(r, 1+r.Intn(20))
	}
	switch r.Intn(4) {
	case 0:
		p.Key = []string{"0", "1", "a", "key-1", "Ω"}[r.Intn(5)]
	}
	p.Text = c17Texts[r.Intn(len(c17Texts))]
	if r.Intn(20) == 0 {
		p.Text = c17RandASCII(r, 100+r.Intn(200))
	}
	if r.Intn(6) == 0 {
		p.Origin = []string{"mcu", "4f2a", "ü"}[r.Intn(3)]
	}
	v, vk := c17Value(r)
	p.ValueBits = math.Float64bits(v)
	cs.count("value:" + vk)
	var tk string
	p.TimeNs, p.ZeroTime, tk = c17Time(r)
	cs.count("time:" + tk)
	if r.Intn(8) == 0 { // binary data field
		p.Data = make([]byte, []int{1, 2, 8, 50}[r.Intn(4)])
		r.Read(p.Data)
		if r.Intn(3) == 0 {
			p.Data[0] = 0
		}
		cs.count("point:with-data")
	}
	switch r.Intn(6) {
	case 0:
		p.Tombstone = 1
	case 1:
		p.Tombstone = []int{2, -1, math.MaxInt32, math.MinInt32, 7}[r.Intn(5)]
	}
	return p
}

func c17GenPoints(r *rand.Rand, cs *caseSet, maxN int) []c17Point {
	n := []int{0, 0, 1, 1, 1, 2, 2, 3, 5, 8}[r.Intn(10)]
	if r.Intn(25) == 0 {
		n = 20 + r.Intn(60) // large packets (several kB)
	}
	if n > maxN {
		n = r.Intn(maxN + 1)
	}
	ps := make([]c17Point, n)
	for i := range ps {
		ps[i] = c17GenPoint(r, cs)
	}
	return ps
}

// merge bit positions into byte flips
func c17Flips(bitsSet []int) []c17Flip {
	m := map[int]int{}
	var order []int
	for _, b := range bitsSet {
		if _, ok := m[b/8]; !ok {
			order = append(order, b/8)
		}
		m[b/8] ^= 1 << uint(b%8)
	}
	var out []c17Flip
	for _, o := range order {
		if m[o] != 0 {
			out = append(out, c17Flip{Off: o, Xor: m[o]})
		}
	}
	return out
}

// one error pattern on a packet of n bits
func c17Pattern(r *rand.Rand, pkt []byte) ([]c17Flip, string) {
	n := 8 * len(pkt)
	pos := func() int { // skewed to the ends: seq, subject, CRC
		switch r.Intn(6) {
		case 0:
			return r.Intn(8 * 17)
		case 1:
			return n - 1 - r.Intn(24)
		}
		return r.Intn(n)
	}
	switch r.Intn(12) {
	case 0, 1, 2:
		return c17Flips([]int{pos()}), "w1"
	case 3, 4, 5:
		i, j := pos(), pos()
		if r.Intn(3) == 0 {
			j = i + 1 + r.Intn(40)
		}
		if j >= n || j == i {
			j = (i + 1 + r.Intn(n-1)) % n
		}
		return c17Flips([]int{i, j}), "w2"
	case 6, 7, 8: // burst of span 2..16: both ends set, interior random
		span := 2 + r.Intn(15)
		i := pos()
		if i+span > n {
			i = n - span
		}
		set := []int{i, i + span - 1}
		for k := 1; k < span-1; k++ {
			if r.Intn(2) == 0 {
				set = append(set, i+k)
			}
		}
		return c17Flips(set), "burst<=16"
	case 9: // outside the classes: burst of span 17..48 with >= 3 bits
		span := 17 + r.Intn(32)
		i := pos()
		if i+span > n {
			i = n - span
		}
		set := []int{i, i + span - 1, i + 1 + r.Intn(span-2)}
		for k := 1; k < span-1; k++ {
			if r.Intn(2) == 0 {
				set = append(set, i+k)
			}
		}
		return c17Flips(set), "burst>16"
	case 10: // outside the classes: three or more scattered bits
		k := 3 + r.Intn(6)
		set := make([]int, k)
		for i := range set {
			set[i] = pos()
		}
		fl := c17Flips(set)
		return fl, "scatter"
	default: // outside the classes: the difference to another valid packet (undetectable by any CRC)
		if len(pkt) > 19 {
			d := append([]byte{}, pkt[:len(pkt)-2]...)
			o := 17 + r.Intn(len(d)-17)
			d[o] ^= byte(1 + r.Intn(255))
			crc := crc16.ChecksumCCITT(d)
			d = append(d, byte(crc), byte(crc>>8))
			var fl []c17Flip
			for i := range d {
				if d[i] != pkt[i] {
					fl = append(fl, c17Flip{Off: i, Xor: int(d[i] ^ pkt[i])})
				}
			}
			return fl, "codeword"
		}
		return c17Flips([]int{pos(), pos(), pos()}), "scatter"
	}
}

func c17Digest(c *c17Case) string {
	h := sha1.New()
	b, _ := json.Marshal([]any{c.Kind, c.Seq, c.Subject, c.Points, c.Data, c.Patterns, c.Cls, c.A, c.B})
	h.Write(b)
	return hex.EncodeToString(h.Sum(nil))[:16]
}

func c17Seq(r *rand.Rand) int {
	if r.Intn(4) == 0 {
		return []int{0, 1, 127, 128, 255}[r.Intn(5)]
	}
	return r.Intn(256)
}

func c17Generate(r *rand.Rand, cs *caseSet, cfg *config) []*c17Case {
	var cases []*c17Case
	scale := cfg.scale

	// (0) the CRC itself against the library
	for i := 0; i < 150*scale; i++ {
		n := []int{0, 1, 2, 3, 10, 17, 19, 64, 300}[r.Intn(9)]
		if r.Intn(3) == 0 {
			n = r.Intn(600)
		}
		d := make([]byte, n)
		r.Read(d)
		if i == 0 {
			d = []byte("123456789") // check value 0x2189 of CRC-16/KERMIT
		}
		cases = append(cases, &c17Case{Kind: "crc", Data: d})
	}

	// (1) round trips
	for i := 0; i < 1500*scale; i++ {
		s, sk := c17Subject(r)
		c := &c17Case{Kind: "round", Sub: sk, Seq: c17Seq(r), Subject: []byte(s), Points: c17GenPoints(r, cs, 100)}
		cases = append(cases, c)
	}

	// (2) corrupted packets: the one deliberate log-adjacent case (K4) first
	cases = append(cases, &c17Case{Kind: "corrupt", Sub: "p.id", Seq: 7, Subject: []byte("p.g"),
		Points:   []c17Point{{Type: "value", ValueBits: math.Float64bits(1), TimeNs: 1_690_000_000_000_000_000}},
		Patterns: [][]c17Flip{{{Off: 1, Xor: 0x1c}, {Off: 2, Xor: 0x41}}}, PatKinds: []string{"burst<=16"}})
	for i := 0; i < 300*scale; i++ {
		var s, sk string
		for {
			s, sk = c17Subject(r)
			if len(s) <= 16 {
				break
			}
		}
		c := &c17Case{Kind: "corrupt", Sub: sk, Seq: c17Seq(r), Subject: []byte(s), Points: c17GenPoints(r, cs, 6)}
		pts := c17Points(c.Points)
		pkt, ok := c17Encode(c.Seq, c.Subject, pts)
		if !ok {
			continue
		}
		np := 250
		if len(pkt) > 400 {
			np = 40
		}
		for k := 0; k < np; k++ {
			pat, pk := c17Pattern(r, pkt)
			if len(pat) == 0 {
				continue
			}
			// a pattern that turns another subject into "log" goes into a case of its own (K4)
			if c17SubjectOf(pkt) != "log" && c17SubjectOf(c17Apply(pkt, pat)) == "log" {
				cases = append(cases, &c17Case{Kind: "corrupt", Sub: sk, Seq: c.Seq, Subject: c.Subject, Points: c.Points,
					Patterns: [][]c17Flip{pat}, PatKinds: []string{pk}})
				continue
			}
			c.Patterns = append(c.Patterns, pat)
			c.PatKinds = append(c.PatKinds, pk)
		}
		cases = append(cases, c)
	}

	// (3) raw byte strings into the decoder: lengths around the checks, damaged lengths
	for i := 0; i < 300*scale; i++ {
		var d []byte
		sk := ""
		switch r.Intn(5) {
		case 0:
			n := []int{0, 1, 2, 15, 16, 17, 18, 19, 20, 21}[r.Intn(10)]
			d = make([]byte, n)
			r.Read(d)
			sk = "short-random"
		case 1: // "log" packets of any length: no checksum
			n := r.Intn(40)
			d = append([]byte{byte(r.Intn(256))}, []byte("log\x00\x00\x00\x00\x00\x00\x00\x00\x00\x00\x00\x00\x00")...)
			if r.Intn(4) == 0 {
				copy(d[1:], "\x00\x00log")
			}
			t := make([]byte, n)
			r.Read(t)
			d = append(d, t...)
			sk = "log"
		case 2: // short zero-filled / subject-only packets
			n := []int{16, 17, 18, 19, 20}[r.Intn(5)]
			d = make([]byte, n)
			if r.Intn(2) == 0 && n > 4 {
				copy(d[1:], "ack")
			}
			sk = "short-zero"
		default: // a valid packet truncated or extended
			s, _ := c17Subject(r)
			if len(s) > 16 {
				s = s[:16]
			}
			pkt, ok := c17Encode(c17Seq(r), []byte(s), c17Points(c17GenPoints(r, cs, 3)))
			if !ok {
				continue
			}
			if r.Intn(2) == 0 {
				k := 1 + r.Intn(3)
				if r.Intn(3) == 0 {
					k = r.Intn(len(pkt) + 1)
				}
				if k > len(pkt) {
					k = len(pkt)
				}
				d = pkt[:len(pkt)-k]
				sk = "truncated"
			} else {
				t := make([]byte, 1+r.Intn(3))
				r.Read(t)
				d = append(pkt, t...)
				sk = "extended"
			}
		}
		cases = append(cases, &c17Case{Kind: "raw", Sub: sk, Data: d})
	}

	// (4) exhaustive classes on short packets (thorough tier, search)
	if cfg.tier == "thorough" || cfg.search {
		type pk struct {
			subj string
			pts  []c17Point
			full bool
		}
		one := []c17Point{{Type: "value", ValueBits: math.Float64bits(23.53), TimeNs: 1_690_000_000_123_456_789}}
		thorough := cfg.tier == "thorough"
		pks := []pk{{"ack", nil, thorough}, {"", one, false}, {"p.a1", one, false}, {"phr", nil, false}}
		if !thorough {
			pks = pks[:2]
		}
		for pi, p := range pks {
			seq := []int{1, 200, 0, 255}[pi]
			pkt, ok := c17Encode(seq, []byte(p.subj), c17Points(p.pts))
			if !ok {
				continue
			}
			n := 8 * len(pkt)
			mk := func(cls, a, b int) {
				cases = append(cases, &c17Case{Kind: "exh", Sub: fmt.Sprintf("class%d", cls), Seq: seq,
					Subject: []byte(p.subj), Points: p.pts, Cls: cls, A: a, B: b})
			}
			mk(1, 0, n)
			for a := 0; a < n; a += 64 {
				b := a + 64
				if b > n {
					b = n
				}
				mk(2, a, b)
			}
			for a := 0; a < n; a++ {
				// every burst position on the full packet; every 24th and the last 40 (CRC end) otherwise
				if p.full || a%24 == 0 || a >= n-40 {
					mk(3, a, a+1)
				}
			}
		}
	}
	return cases
}

func c17Main(cfg *config) error {
	cs := newCaseSet("c17")
	var cases []*c17Case
	if cfg.replay != "" {
		b, err := os.ReadFile(cfg.replay)
		if err != nil {
			return err
		}
		var rp struct {
			Cases []*c17Case `json:"cases"`
		}
		if err := json.Unmarshal(b, &rp); err != nil {
			return err
		}
		cases = rp.Cases
	} else {
		r := rand.New(rand.NewSource(cfg.seed))
		cases = c17Generate(r, cs, cfg)
	}
	patterns := 0
	for i, c := range cases {
		c.ID = i
		c17RunCase(c)
		cs.add(c17Val(c), c)
		cs.count("kind:" + c.Kind)
		if c.Sub != "" {
			cs.count(c.Kind + ":" + c.Sub)
		}
		switch c.Kind {
		case "round":
			switch n := len(c.Points); {
			case n == 0:
				cs.count("points:0")
			case n <= 3:
				cs.count("points:1-3")
			case n <= 8:
				cs.count("points:4-8")
			default:
				cs.count("points:>8")
			}
			if c.EncOK {
				switch l := len(c.Packet); {
				case l <= 19:
					cs.count("packet:<=19B")
				case l <= 100:
					cs.count("packet:20-100B")
				case l <= 1000:
					cs.count("packet:101-1000B")
				default:
					cs.count("packet:>1000B")
				}
			} else {
				cs.count("packet:encode-error")
			}
			if len(c.Points) > 0 {
				cs.markNontrivial(c17Digest(c))
			}
		case "corrupt":
			for k, r := range c.Results {
				patterns++
				pk := "?"
				if k < len(c.PatKinds) {
					pk = c.PatKinds[k]
				}
				cs.count("pattern:" + pk)
				switch r.Class {
				case 0:
					cs.count("corrupt-result:accepted(" + pk + ")")
				case 1:
					cs.count(fmt.Sprintf("corrupt-result:err%d", r.Err))
				default:
					cs.count("corrupt-result:panic")
				}
			}
			if c.Key != "" {
				cs.count("key:" + c.Key)
			}
			if len(c.Patterns) > 0 {
				cs.markNontrivial(c17Digest(c))
			}
		case "exh":
			patterns += c.Count
			cs.stats["exhaustive-patterns"] += c.Count
			cs.stats["exhaustive-exceptions"] += len(c.Exc)
			cs.markNontrivial(c17Digest(c))
		case "raw":
			cs.count(fmt.Sprintf("raw-result:class%d-err%d", c.Dec.Class, c.Dec.Err))
		}
		if len(cs.samples) < 3 && (c.Kind == "round" && len(c.Points) > 0 && len(c.Points) < 3 && i%7 == 0) {
			cs.samples = append(cs.samples, c)
		}
	}
	if cs.samples == nil {
		cs.samples = []any{}
		if len(cases) > 0 {
			cs.samples = append(cs.samples, cases[0])
		}
	}
	cs.extra["extra"] = map[string]any{"error_patterns_decoded": patterns}
	return cs.write(cfg.out)
}
