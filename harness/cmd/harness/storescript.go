package main

import (
	"bufio"
	"crypto/sha1"
	"encoding/hex"
	"encoding/json"
	"fmt"
	"io"
	"log"
	"math"
	"math/big"
	"os"
	"os/exec"
	"sort"
	"strings"
	"sync"
	"sync/atomic"
	"time"

	"github.com/nats-io/nats.go"
	"github.com/simpleiot/simpleiot/client"
	"github.com/simpleiot/simpleiot/data"
)

// ---- script types (JSON in cases.json / replay files; val text in cases.txt) ----

type sPoint struct {
	Type   string `json:"type"`
	Key    string `json:"key"`
	Time   int64  `json:"time"`          // ns since epoch
	Far    int64  `json:"far,omitempty"` // seconds added to Time: instants that do not fit 64-bit nanoseconds
	VBits  uint64 `json:"vbits"`         // float64 bit pattern
	Text   string `json:"text"`
	Data   []byte `json:"data"`
	Tomb   int    `json:"tomb"`
	Origin string `json:"origin"`
}

func (p sPoint) toData() data.Point {
	return data.Point{Type: p.Type, Key: p.Key, Time: time.Unix(p.Far, p.Time), Value: math.Float64frombits(p.VBits),
		Text: p.Text, Data: p.Data, Tombstone: p.Tomb, Origin: p.Origin}
}

func sPointFrom(p data.Point) sPoint {
	q := sPoint{Type: p.Type, Key: p.Key, Time: p.Time.UnixNano(), VBits: math.Float64bits(p.Value),
		Text: p.Text, Data: p.Data, Tomb: p.Tombstone, Origin: p.Origin}
	if p.Time.Before(time.Unix(0, math.MinInt64)) || p.Time.After(time.Unix(0, math.MaxInt64)) {
		// UnixNano is not defined there
		q.Far, q.Time = p.Time.Unix(), int64(p.Time.Nanosecond())
	}
	return q
}

// timeVal is the instant in nanoseconds since the epoch, of any size
func (p sPoint) timeVal() string {
	if p.Far == 0 {
		return vZ(p.Time)
	}
	t := new(big.Int).Mul(big.NewInt(p.Far), big.NewInt(1000000000))
	t.Add(t, big.NewInt(p.Time))
	return "z" + t.String()
}

func (p sPoint) val() string {
	// values are float64 values: negative zero is the value zero (the store keeps it as 0), so the model is handed
	// the one pattern for both, in requests as in what is read back or rebroadcast
	vb := p.VBits
	if vb == 0x8000000000000000 {
		vb = 0
	}
	return vL(vS(p.Type), vS(p.Key), p.timeVal(), vN(vb), vS(p.Text), vB(p.Data), vZ(int64(p.Tomb)), vS(p.Origin))
}

func sPointsVal(ps []sPoint) string {
	items := make([]string, len(ps))
	for i, p := range ps {
		items[i] = p.val()
	}
	return vL(items...)
}

type sOp struct {
	Kind   string   `json:"kind"` // "np" node points, "ep" edge points
	Node   string   `json:"node"`
	Parent string   `json:"parent,omitempty"`
	Points []sPoint `json:"points"`
	// after the reply, before the dump: a store maintenance run (admin.storeMaint: verification with repair).  On a
	// store whose hashes are right it changes nothing, so the model does not hear of it
	MaintAfter bool `json:"maint_after,omitempty"`
	// API "move": the request is made through client.MoveNode(Node, OldParent, Parent) instead of being sent as it
	// stands; only used where the new edge must be refused (a move below the node itself), so that what the helper sends
	// first is this request and nothing may follow it. The model sees the request as written here.
	API       string `json:"api,omitempty"`
	OldParent string `json:"old_parent,omitempty"`
}

type sView struct {
	Up   string   `json:"up"`
	Down string   `json:"down"`
	Type string   `json:"type"`
	Hash uint32   `json:"hash"`
	EPts []sPoint `json:"epts"`
	NPts []sPoint `json:"npts"`
}

func (v sView) val() string {
	return vL(vS(v.Up), vS(v.Down), vS(v.Type), vN(uint64(v.Hash)), sPointsVal(v.EPts), sPointsVal(v.NPts))
}

type sPub struct {
	Subject string   `json:"subject"`
	Points  []sPoint `json:"points"`
}

type sStep struct {
	Op    sOp     `json:"op"`
	Reply int     `json:"reply"` // 0 ok, 1 error, 2 no reply / died
	Err   string  `json:"err,omitempty"`
	Pubs  []sPub  `json:"pubs"`
	Root  string  `json:"root"`
	Dump  []sView `json:"dump"`
}

type sScript struct {
	ID    int            `json:"id"`
	Kind  string         `json:"kind"`
	Nodes []string       `json:"nodes"` // ids to dump besides the root
	Ops   []sOp          `json:"ops"`
	Kinds map[string]int `json:"kinds,omitempty"` // what the generator meant each request to be (input distribution only)
	// observations
	Root0   string  `json:"root0"`
	Init    []sView `json:"init"`
	Steps   []sStep `json:"steps"`
	Crashed bool    `json:"crashed,omitempty"`
	Verify  int     `json:"verify_mismatches"`
	Key     string  `json:"key"`
	// request timeout in milliseconds (0 = 4 s); raised when a script is run again after an unanswered request
	ReqTimeoutMs int `json:"req_timeout_ms,omitempty"`
}

func (s *sScript) val() string {
	init := make([]string, len(s.Init))
	for i, v := range s.Init {
		init[i] = v.val()
	}
	steps := make([]string, len(s.Steps))
	for i, t := range s.Steps {
		var op string
		if t.Op.Kind == "np" {
			op = vL("0", vS(t.Op.Node), sPointsVal(t.Op.Points))
		} else {
			op = vL("1", vS(t.Op.Node), vS(t.Op.Parent), sPointsVal(t.Op.Points))
		}
		pubs := make([]string, len(t.Pubs))
		for j, p := range t.Pubs {
			pubs[j] = vL(vS(p.Subject), sPointsVal(p.Points))
		}
		dump := make([]string, len(t.Dump))
		for j, v := range t.Dump {
			dump[j] = v.val()
		}
		steps[i] = vL(op, vI(t.Reply), vL(pubs...), vS(t.Root), vL(dump...))
	}
	return vL(vS(s.Root0), vL(init...), vL(steps...), vI(s.Verify))
}

func (s *sScript) digest() string {
	b, _ := json.Marshal(s.Ops)
	h := sha1.Sum(b)
	return hex.EncodeToString(h[:8])
}

// ---- running a script against a fresh instance ----

const storeRootID = "inst1"

func storeDump(nc *nats.Conn, ids []string) ([]sView, string, error) {
	var views []sView
	seen := map[string]bool{}
	for _, id := range ids {
		if seen[id] {
			continue
		}
		seen[id] = true
		nodes, err := client.GetNodes(nc, "all", id, "", true)
		if err != nil {
			return nil, "", fmt.Errorf("dump %v: %w", id, err)
		}
		for _, n := range nodes {
			v := sView{Up: n.Parent, Down: n.ID, Type: n.Type, Hash: n.Hash}
			for _, p := range n.EdgePoints {
				v.EPts = append(v.EPts, sPointFrom(p))
			}
			for _, p := range n.Points {
				v.NPts = append(v.NPts, sPointFrom(p))
			}
			views = append(views, v)
		}
	}
	sort.SliceStable(views, func(i, j int) bool {
		if views[i].Down != views[j].Down {
			return views[i].Down < views[j].Down
		}
		return views[i].Up < views[j].Up
	})
	root := ""
	roots, err := client.GetNodes(nc, "root", "all", "", true)
	if err != nil {
		return nil, "", fmt.Errorf("dump root: %w", err)
	}
	if len(roots) > 0 {
		root = roots[0].ID
	}
	return views, root, nil
}

func storeRunScript(s *sScript) error {
	dir, err := os.MkdirTemp("", "verif-store-")
	if err != nil {
		return err
	}
	defer os.RemoveAll(dir)
	in, err := startInstance(dir, storeRootID)
	if err != nil {
		return err
	}
	defer in.stop()
	nc, err := nats.Connect(in.url, nats.Timeout(10*time.Second))
	if err != nil {
		return err
	}
	defer nc.Close()
	sub, err := nc.SubscribeSync("up.>")
	if err != nil {
		return err
	}
	_ = sub.SetPendingLimits(-1, -1)
	if err := nc.Flush(); err != nil {
		return err
	}
	ids := append([]string{storeRootID}, s.Nodes...)
	// the admin user created at initialisation hangs off the root; find it so that it is dumped too
	kids, err := client.GetNodes(nc, storeRootID, "all", "", true)
	if err != nil {
		return err
	}
	for _, k := range kids {
		ids = append(ids, k.ID)
	}
	s.Init, s.Root0, err = storeDump(nc, ids)
	if err != nil {
		return err
	}
	s.Steps = nil
	for _, op := range s.Ops {
		step := sStep{Op: op}
		pts := make(data.Points, len(op.Points))
		for i, p := range op.Points {
			pts[i] = p.toData()
		}
		payload, err := pts.ToPb()
		if err != nil {
			return fmt.Errorf("encoding points: %w", err)
		}
		subject := "p." + op.Node
		if op.Kind == "ep" {
			subject += "." + op.Parent
		}
		reqTimeout := 4 * time.Second
		if s.ReqTimeoutMs > 0 {
			reqTimeout = time.Duration(s.ReqTimeoutMs) * time.Millisecond
		}
		if op.API == "move" {
			if err := client.MoveNode(nc, op.Node, op.OldParent, op.Parent, "mover"); err != nil {
				step.Reply = 1
				step.Err = err.Error()
				if strings.Contains(step.Err, "timeout") || strings.Contains(step.Err, "no responders") {
					step.Reply = 2
				}
			}
		} else {
			msg, err := nc.Request(subject, payload, reqTimeout)
			switch {
			case err != nil:
				step.Reply = 2
				step.Err = err.Error()
			case len(msg.Data) > 0:
				step.Reply = 1
				step.Err = string(msg.Data)
			}
		}
		if step.Reply == 2 {
			// the instance does not answer any more; stop here
			step.Root = ""
			s.Steps = append(s.Steps, step)
			break
		}
		// everything the store published before replying is already queued on this connection
		for {
			m, err := sub.NextMsg(20 * time.Millisecond)
			if err != nil {
				break
			}
			dp, err := data.PbDecodePoints(m.Data)
			if err != nil {
				return fmt.Errorf("decoding published points: %w", err)
			}
			pub := sPub{Subject: m.Subject}
			for _, p := range dp {
				pub.Points = append(pub.Points, sPointFrom(p))
			}
			step.Pubs = append(step.Pubs, pub)
		}
		sort.SliceStable(step.Pubs, func(i, j int) bool { return step.Pubs[i].Subject < step.Pubs[j].Subject })
		if op.MaintAfter {
			if m, err := nc.Request("admin.storeMaint", nil, 20*time.Second); err != nil || len(m.Data) > 0 {
				step.Reply = 2
				step.Err = "admin.storeMaint not answered or refused"
				s.Steps = append(s.Steps, step)
				break
			}
		}
		step.Dump, step.Root, err = storeDump(nc, ids)
		if err != nil {
			step.Reply = 2
			step.Err = err.Error()
			s.Steps = append(s.Steps, step)
			break
		}
		s.Steps = append(s.Steps, step)
	}
	// a store verification at the end must find nothing to repair (it only logs what it finds)
	storeLog.reset()
	for _, n := range s.Nodes {
		if n == "none" {
			// admin.storeVerify lists children with getNodes(parent, ...), which reads the parent token "none" as
			// "no parent given" and refuses it: a store holding a node of that name cannot be verified by the tool
			// (outside the statement of C03; every stored hash is still recomputed from the dumps)
			return nil
		}
	}
	if msg, err := nc.Request("admin.storeVerify", nil, 20*time.Second); err != nil || len(msg.Data) > 0 {
		s.Verify = 1000
	} else {
		s.Verify = storeLog.count("Hash failed")
	}
	return nil
}

// logCounter captures the log output of the in-process store
type logCounter struct {
	mu  sync.Mutex
	buf []byte
}

func (l *logCounter) Write(p []byte) (int, error) {
	l.mu.Lock()
	if len(l.buf) < 1<<20 {
		l.buf = append(l.buf, p...)
	}
	l.mu.Unlock()
	return len(p), nil
}
func (l *logCounter) reset() { l.mu.Lock(); l.buf = nil; l.mu.Unlock() }
func (l *logCounter) count(s string) int {
	l.mu.Lock()
	defer l.mu.Unlock()
	return strings.Count(string(l.buf), s)
}

var storeLog = &logCounter{}

// ---- worker processes: a script that kills or wedges the instance must not take the harness down ----

func init() { areas["store-worker"] = runStoreWorker }

func runStoreWorker(_ *config) error {
	log.SetOutput(storeLog)
	in := bufio.NewReaderSize(os.Stdin, 1<<20)
	out := bufio.NewWriter(os.Stdout)
	dec := json.NewDecoder(in)
	enc := json.NewEncoder(out)
	for {
		var s sScript
		if err := dec.Decode(&s); err != nil {
			return nil
		}
		if err := storeRunScript(&s); err != nil {
			s.Crashed = true
			s.Key = "harness-error: " + err.Error()
		}
		if err := enc.Encode(&s); err != nil {
			return err
		}
		out.Flush()
	}
}

type storeWorker struct {
	cmd *exec.Cmd
	in  io.WriteCloser
	out *bufio.Reader
}

func newStoreWorker() (*storeWorker, error) {
	exe, err := os.Executable()
	if err != nil {
		return nil, err
	}
	cmd := exec.Command(exe, "store-worker")
	cmd.Stderr = io.Discard
	in, err := cmd.StdinPipe()
	if err != nil {
		return nil, err
	}
	outp, err := cmd.StdoutPipe()
	if err != nil {
		return nil, err
	}
	if err := cmd.Start(); err != nil {
		return nil, err
	}
	return &storeWorker{cmd: cmd, in: in, out: bufio.NewReaderSize(outp, 1<<20)}, nil
}

func (w *storeWorker) kill() {
	_ = w.in.Close()
	_ = w.cmd.Process.Kill()
	_ = w.cmd.Wait()
}

// run one script in the worker; ok=false when the worker died or timed out
func (w *storeWorker) run(s *sScript, timeout time.Duration) (*sScript, bool) {
	b, _ := json.Marshal(s)
	if _, err := w.in.Write(append(b, '\n')); err != nil {
		return nil, false
	}
	type res struct {
		s  *sScript
		ok bool
	}
	ch := make(chan res, 1)
	go func() {
		line, err := w.out.ReadBytes('\n')
		if err != nil {
			ch <- res{nil, false}
			return
		}
		var r sScript
		if err := json.Unmarshal(line, &r); err != nil {
			ch <- res{nil, false}
			return
		}
		ch <- res{&r, true}
	}()
	select {
	case r := <-ch:
		return r.s, r.ok
	case <-time.After(timeout):
		return nil, false
	}
}

func storeUnanswered(s *sScript) bool {
	if s == nil || s.Crashed {
		return false
	}
	for _, t := range s.Steps {
		if t.Reply == 2 {
			return true
		}
	}
	return s.Verify == 1000
}

// storeRunAll executes the scripts on a pool of worker processes, preserving order
func storeRunAll(scripts []*sScript, workers int) []*sScript {
	out := make([]*sScript, len(scripts))
	var wedged int32
	var mu sync.Mutex
	next := 0
	var wg sync.WaitGroup
	for k := 0; k < workers; k++ {
		wg.Add(1)
		go func() {
			defer wg.Done()
			var w *storeWorker
			defer func() {
				if w != nil {
					w.kill()
				}
			}()
			for {
				mu.Lock()
				i := next
				next++
				mu.Unlock()
				if i >= len(scripts) {
					return
				}
				var r *sScript
				ok := false
				for attempt := 0; attempt < 2 && !ok; attempt++ {
					if w == nil {
						var err error
						w, err = newStoreWorker()
						if err != nil {
							break
						}
					}
					r, ok = w.run(scripts[i], 60*time.Second)
					if !ok {
						w.kill()
						w = nil
					}
				}
				// "always answered" carries no deadline: a request left unanswered within the 4 s limit on a loaded
				// machine is tried again on a fresh instance with a longer limit (twice); a request that wedges the
				// store stays unanswered every time
				for again := 0; ok && again < 2 && storeUnanswered(r) && atomic.LoadInt32(&wedged) < 3; again++ {
					c := *scripts[i]
					c.ReqTimeoutMs = 12000
					if w == nil {
						var err error
						if w, err = newStoreWorker(); err != nil {
							break
						}
					}
					r2, ok2 := w.run(&c, 240*time.Second)
					if !ok2 {
						w.kill()
						w = nil
						break
					}
					r2.ReqTimeoutMs = 0
					r = r2
					if again == 1 && storeUnanswered(r) {
						// unanswered three times over: this is not the machine; after three such scripts the rest is not retried
						atomic.AddInt32(&wedged, 1)
					}
				}
				if !ok {
					// reproducibly kills or wedges the instance
					c := *scripts[i]
					c.Crashed = true
					c.Steps = []sStep{{Op: sOp{Kind: "np", Node: "x"}, Reply: 2, Err: "instance died or hung"}}
					r = &c
				}
				out[i] = r
			}
		}()
	}
	wg.Wait()
	return out
}
