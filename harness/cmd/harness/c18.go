package main

// C18: PDU.ProcessRequest against register files built through the public
// Regs API (AddReg / AddCoil / WriteReg / AddRegValueValidator).  Every case
// records the outcome class (response, error, panic), regsChanged, the
// response PDU and the register values afterwards.

import (
	"crypto/sha1"
	"encoding/hex"
	"encoding/json"
	"fmt"
	"math/rand"
	"os"
	"os/exec"
	"runtime/debug"
	"time"

	"github.com/simpleiot/simpleiot/modbus"
)

func init() { areas["c18"] = c18Main }

// validator family shared with coq/theories/Modbus/Regs.v
const (
	c18VNone   = 0
	c18VLt     = 1
	c18VEven   = 2
	c18VReject = 3
)

type c18Reg struct {
	Addr int `json:"addr"`
	Val  int `json:"val"`
	Kind int `json:"kind"`
	K    int `json:"k"`
}

type c18Case struct {
	ID      int      `json:"id"`
	Kind    string   `json:"kind"`
	Regs    []c18Reg `json:"regs"`
	FC      int      `json:"fc"`
	Data    []byte   `json:"data"`
	Class   int      `json:"class"` // 0 response, 1 error returned, 2 panic
	Changed bool     `json:"changed"`
	RFC     int      `json:"rfc"`
	RData   []byte   `json:"rdata"`
	After   []int    `json:"after"`
	Panic   string   `json:"panic,omitempty"`
	Key     string   `json:"key"`
}

func c18Validator(kind, k int) func(uint16) bool {
	switch kind {
	case c18VLt:
		return func(v uint16) bool { return int(v) < k }
	case c18VEven:
		return func(v uint16) bool { return v%2 == 0 }
	case c18VReject:
		return func(uint16) bool { return false }
	}
	return nil
}

// declOrder is the order in which a register list is declared: the order of declaration is not the order of the
// addresses (ascending, descending, odd positions first, or the middle backwards between the two ends)
func declOrder(n, a0 int) []int {
	order := make([]int, 0, n)
	switch {
	case n > 0 && (a0+n)%4 == 0:
		for i := n - 1; i >= 0; i-- {
			order = append(order, i)
		}
	case n > 0 && (a0+n)%4 == 1:
		for i := 1; i < n; i += 2 {
			order = append(order, i)
		}
		for i := 0; i < n; i += 2 {
			order = append(order, i)
		}
	case n > 3 && (a0+n)%4 == 2:
		// the ends in place, what lies between them backwards
		order = append(order, 0)
		for i := n - 2; i >= 1; i-- {
			order = append(order, i)
		}
		order = append(order, n-1)
	default:
		for i := 0; i < n; i++ {
			order = append(order, i)
		}
	}
	return order
}

// c18Build creates the register file through the public API only
func c18Build(rs []c18Reg) *modbus.Regs {
	regs := &modbus.Regs{}
	// the registers are added in the order of the list; where the next one is the next address the first is added
	// on its own and then once more as part of a range of two (as an application with a 16-bit and a 32-bit value at
	// one address does): the map is the same list either way
	order := declOrder(len(rs), func() int {
		if len(rs) == 0 {
			return 0
		}
		return rs[0].Addr
	}())
	for _, i := range order {
		regs.AddReg(rs[i].Addr, 1)
		if i+1 < len(rs) && rs[i+1].Addr == rs[i].Addr+1 && (rs[i].Addr+len(rs))%2 == 0 {
			regs.AddReg(rs[i].Addr, 2)
		}
	}
	for _, r := range rs {
		_ = regs.WriteReg(r.Addr, uint16(r.Val))
	}
	for _, r := range rs {
		if v := c18Validator(r.Kind, r.K); v != nil {
			_ = regs.AddRegValueValidator(r.Addr, v)
		} else if r.Addr%3 == 1 {
			// a validator that was installed and lifted again (set to nil): the register takes any value
			_ = regs.AddRegValueValidator(r.Addr, func(uint16) bool { return false })
			_ = regs.AddRegValueValidator(r.Addr, nil)
		}
	}
	return regs
}

func c18Run(c *c18Case) {
	c.Class, c.Changed, c.RFC, c.RData, c.Panic = 0, false, 0, nil, ""
	var regs *modbus.Regs
	func() {
		// a register file that cannot even be set up through the public API counts as a crash of the case
		defer func() {
			if r := recover(); r != nil {
				c.Class = 2
				c.Panic = "building the register file: " + fmt.Sprint(r)
			}
		}()
		regs = c18Build(c.Regs)
	}()
	if c.Class == 2 {
		c.After, c.RData = []int{}, []byte{}
		return
	}
	func() {
		defer func() {
			if r := recover(); r != nil {
				c.Class = 2
				c.Panic = fmt.Sprint(r)
			}
		}()
		p := modbus.PDU{FunctionCode: modbus.FunctionCode(c.FC), Data: append([]byte{}, c.Data...)}
		changed, resp, err := p.ProcessRequest(regs)
		if err != nil {
			c.Class = 1
			return
		}
		c.Changed = changed
		c.RFC = int(resp.FunctionCode)
		c.RData = append([]byte{}, resp.Data...)
	}()
	c.After = make([]int, len(c.Regs))
	func() {
		defer func() {
			if r := recover(); r != nil {
				c.Class = 2
				c.Panic = "reading the register file back: " + fmt.Sprint(r)
			}
		}()
		for i, r := range c.Regs {
			v, err := regs.ReadReg(r.Addr)
			c.After[i] = int(v)
			if err != nil {
				c.After[i] = 0xfffff // cannot happen: the register was added
			}
		}
	}()
	if c.RData == nil {
		c.RData = []byte{}
	}
}

func c18Val(c *c18Case) string {
	rs := make([]string, len(c.Regs))
	for i, r := range c.Regs {
		rs[i] = vL(vI(r.Addr), vI(r.Val), vI(r.Kind), vI(r.K))
	}
	after := make([]string, len(c.After))
	for i, v := range c.After {
		after[i] = vI(v)
	}
	return vL(vL(rs...), vI(c.FC), vB(c.Data), vI(c.Class), vBool(c.Changed), vI(c.RFC), vB(c.RData), vL(after...))
}

// ---- generators ----

func c18Value(r *rand.Rand) int {
	switch r.Intn(6) {
	case 0:
		return 0
	case 1:
		return 0xffff
	case 2:
		return []int{1, 0x8000, 0x7fff, 0xff00, 0x00ff, 0x5555, 0xaaaa}[r.Intn(7)]
	}
	return r.Intn(65536)
}

func c18Validate(r *rand.Rand, reg *c18Reg) {
	switch r.Intn(3) {
	case 0:
		reg.Kind, reg.K = c18VLt, []int{0, 1, 2, 100, 256, 0x8000, 0xffff}[r.Intn(7)]
	case 1:
		reg.Kind = c18VEven
	case 2:
		reg.Kind = c18VReject
	}
}

var c18Starts = []int{0, 0, 1, 7, 8, 100, 3970, 4000, 4095, 4096, 65400, 65535}

// c18Map returns a register file: sparse (a few registers anywhere, in any order) or dense (one or two blocks)
func c18Map(r *rand.Rand) ([]c18Reg, string, [][2]int) {
	var rs []c18Reg
	var blks [][2]int
	seen := map[int]bool{}
	vp := []int{0, 0, 30, 3}[r.Intn(4)] // one register in vp carries a validator
	add := func(a int) {
		a &= 0xffff
		if seen[a] {
			return
		}
		seen[a] = true
		reg := c18Reg{Addr: a, Val: c18Value(r)}
		if vp > 0 && r.Intn(vp) == 0 {
			c18Validate(r, &reg)
		}
		rs = append(rs, reg)
	}
	switch r.Intn(10) {
	case 0:
		return rs, "empty", nil
	case 1, 2, 3:
		n := 1 + r.Intn(6)
		for i := 0; i < n; i++ {
			switch r.Intn(4) {
			case 0:
				add(c18Starts[r.Intn(len(c18Starts))])
			case 1:
				add(r.Intn(16))
			case 2:
				add(4090 + r.Intn(10))
			default:
				add(r.Intn(65536))
			}
		}
		return rs, "sparse", nil
	}
	blocks := 1 + r.Intn(2)
	for b := 0; b < blocks; b++ {
		start := c18Starts[r.Intn(len(c18Starts))]
		if r.Intn(4) == 0 {
			start = r.Intn(65536)
		}
		n := []int{1, 2, 3, 8, 16, 17, 123, 124, 125, 126, 127, 128, 140}[r.Intn(13)]
		if r.Intn(3) == 0 {
			n = 1 + r.Intn(20)
		}
		if start+n > 65536 {
			if r.Intn(2) == 0 {
				start = 65536 - n
			} // else: let AddReg wrap the addresses around to 0
		}
		switch r.Intn(12) {
		case 0:
			start = 65536 - n // the block ends with register 65535
		case 1:
			if n <= 4096 {
				start = 4096 - n // the block ends with coil 65535
			}
		}
		for i := 0; i < n; i++ {
			add(start + i)
		}
		if start+n <= 65536 {
			blks = append(blks, [2]int{start, n})
		}
	}
	if r.Intn(6) == 0 { // holes
		k := r.Intn(len(rs))
		rs = append(rs[:k], rs[k+1:]...)
	}
	return rs, "dense", blks
}

// c18Fit picks an address and a count that lie on a block of the map: unit 1 = register space, 16 = coil space.
// The count comes from the limit table, clipped to what the block holds half of the time (so the request can
// succeed) and one past its end now and then.
func c18Fit(r *rand.Rand, blks [][2]int, unit int, table []int) (int, int) {
	b := blks[r.Intn(len(blks))]
	lo, size := b[0]*unit, b[1]*unit
	off := 0
	switch r.Intn(4) {
	case 0:
		off = r.Intn(unit + 1)
	case 1:
		off = r.Intn(size)
	}
	rest := size - off
	q := table[r.Intn(len(table))]
	switch r.Intn(6) {
	case 0, 1, 2:
		if q > rest {
			q = rest
		}
	case 3:
		q = rest + 1
	case 4:
		q = rest
	}
	if lo+off > 65535 {
		return 65535, q
	}
	return lo + off, q
}

var c18CoilCounts = []int{0, 1, 2, 7, 8, 9, 12, 15, 16, 17, 31, 32, 33, 1967, 1968, 1969, 1999, 2000, 2001, 2008,
	2032, 2033, 2040, 2041, 2047, 2048, 4096, 32768, 65535}
var c18RegCounts = []int{0, 1, 2, 3, 10, 122, 123, 124, 125, 126, 127, 128, 129, 255, 256, 2000, 32767, 32768, 32769, 65535}

var c18WCoilCounts = []int{0, 1, 2, 7, 8, 9, 15, 16, 17, 33, 1960, 1961, 1967, 1968, 1969, 1976, 2000, 2040, 2041}
var c18WRegCounts = []int{0, 1, 2, 3, 121, 122, 123, 124, 125, 126, 127, 128, 255}

func c18Count(r *rand.Rand, table []int, small int) int {
	if r.Intn(3) == 0 {
		return 1 + r.Intn(small)
	}
	return table[r.Intn(len(table))]
}

// an address near the registers of the map (register address space)
func c18RegAddr(r *rand.Rand, rs []c18Reg) int {
	if len(rs) == 0 || r.Intn(6) == 0 {
		return []int{0, 1, 4095, 4096, 65534, 65535, r.Intn(65536)}[r.Intn(7)]
	}
	a := rs[r.Intn(len(rs))].Addr + r.Intn(5) - 2
	if r.Intn(4) == 0 {
		a = rs[0].Addr + r.Intn(3) - 1
	}
	if a < 0 {
		a = 0
	}
	return a & 0xffff
}

// a coil number near the coils aliased on the registers of the map
func c18CoilAddr(r *rand.Rand, rs []c18Reg) int {
	if len(rs) == 0 || r.Intn(6) == 0 {
		return []int{0, 15, 16, 65519, 65520, 65534, 65535, r.Intn(65536)}[r.Intn(8)]
	}
	reg := rs[r.Intn(len(rs))].Addr
	if r.Intn(3) == 0 {
		reg = rs[0].Addr
	}
	n := reg*16 + r.Intn(20) - 2
	if n < 0 {
		n = 0
	}
	if n > 65535 {
		n = 65535 - r.Intn(40)
	}
	return n
}

// c18Top moves a request so that it ends at, one before or one past the top of the address space
func c18Top(r *rand.Rand, a, q int) int {
	if r.Intn(12) != 0 || q < 1 || q > 2100 {
		return a
	}
	a = 65536 - q + r.Intn(3) - 1
	if a > 65535 {
		a = 65535
	}
	return a
}

func c18U16(v int) []byte { return []byte{byte(v >> 8), byte(v)} }

func c18Request(r *rand.Rand, rs []c18Reg, blks [][2]int) (fc int, data []byte, kind string) {
	fit := len(blks) > 0 && r.Intn(3) != 0
	pick := r.Intn(100)
	switch {
	case pick < 6: // unsupported or invalid function code, any data
		fc = []int{0, 7, 8, 11, 17, 20, 21, 22, 23, 24, 43, 0x80, 0x81, 0x83, 0x90, 0xff, r.Intn(256)}[r.Intn(17)]
		data = make([]byte, []int{0, 1, 2, 3, 4, 5, 6, 7, 10, 11, 12, 20}[r.Intn(12)])
		r.Read(data)
		return fc, data, "fc-other"
	case pick < 12: // random bytes
		fc = r.Intn(256)
		if r.Intn(2) == 0 {
			fc = []int{1, 2, 3, 4, 5, 6, 15, 16}[r.Intn(8)]
		}
		data = make([]byte, r.Intn(40))
		r.Read(data)
		return fc, data, "random"
	}
	fc = []int{1, 2, 3, 4, 5, 6, 15, 16, 1, 3, 15, 16}[r.Intn(12)]
	kind = fmt.Sprintf("fc%d", fc)
	switch fc {
	case 1, 2:
		a, q := c18CoilAddr(r, rs), c18Count(r, c18CoilCounts, 40)
		if fit {
			a, q = c18Fit(r, blks, 16, c18CoilCounts)
		}
		a = c18Top(r, a, q)
		data = append(c18U16(a), c18U16(q)...)
	case 3, 4:
		a, q := c18RegAddr(r, rs), c18Count(r, c18RegCounts, 12)
		if fit {
			a, q = c18Fit(r, blks, 1, c18RegCounts)
		}
		a = c18Top(r, a, q)
		data = append(c18U16(a), c18U16(q)...)
	case 5:
		v := []int{0, 0xff00, 0, 0xff00, 0, 0xff00, 1, 0xff, 0xff01, 0xffff, r.Intn(65536)}[r.Intn(11)]
		data = append(c18U16(c18CoilAddr(r, rs)), c18U16(v)...)
	case 6:
		data = append(c18U16(c18RegAddr(r, rs)), c18U16(c18Value(r))...)
	case 15:
		a, q := c18CoilAddr(r, rs), c18Count(r, c18WCoilCounts, 40)
		if fit {
			a, q = c18Fit(r, blks, 16, c18WCoilCounts)
		}
		a = c18Top(r, a, q)
		if r.Intn(60) == 0 {
			q = []int{32768, 65535, 8192}[r.Intn(3)]
		}
		n := (q + 7) / 8
		bc := n
		switch r.Intn(12) {
		case 0:
			bc = n + 1
		case 1:
			bc = r.Intn(256)
		}
		switch r.Intn(14) {
		case 0:
			n++
		case 1:
			if n > 0 {
				n--
			}
		}
		payload := make([]byte, n)
		r.Read(payload)
		if r.Intn(4) == 0 {
			for i := range payload {
				payload[i] = []byte{0, 0xff}[r.Intn(2)]
			}
		}
		data = append(append(c18U16(a), c18U16(q)...), byte(bc))
		data = append(data, payload...)
	case 16:
		a, q := c18RegAddr(r, rs), c18Count(r, c18WRegCounts, 10)
		if fit {
			a, q = c18Fit(r, blks, 1, c18WRegCounts)
		}
		a = c18Top(r, a, q)
		if r.Intn(60) == 0 {
			q = []int{256, 32768, 4000}[r.Intn(3)]
		}
		n := 2 * q
		bc := n
		switch r.Intn(12) {
		case 0:
			bc = n + 1
		case 1:
			bc = r.Intn(256)
		}
		switch r.Intn(14) {
		case 0:
			n++
		case 1:
			if n > 0 {
				n--
			}
		case 2:
			n += 2
		}
		payload := make([]byte, n)
		for i := 0; i+1 < n; i += 2 {
			copy(payload[i:], c18U16(c18Value(r)))
		}
		data = append(append(c18U16(a), c18U16(q)...), byte(bc))
		data = append(data, payload...)
	}
	switch r.Intn(25) {
	case 0: // truncated
		data = data[:r.Intn(len(data)+1)]
		kind += "-short"
	case 1: // trailing bytes
		extra := make([]byte, 1+r.Intn(3))
		r.Read(extra)
		data = append(data, extra...)
		kind += "-long"
	}
	return fc, data, kind
}

func c18Digest(c *c18Case) string {
	h := sha1.New()
	b, _ := json.Marshal([]any{c.Regs, c.FC, c.Data})
	h.Write(b)
	return hex.EncodeToString(h.Sum(nil))[:16]
}

func c18Supported(fc int) bool {
	switch fc {
	case 1, 2, 3, 4, 5, 6, 15, 16:
		return true
	}
	return false
}

// every request with a 1-register or 2-register map, function codes 1-6, addresses and counts 0..3 around the map
func c18Exhaustive() []*c18Case {
	var out []*c18Case
	maps := [][]c18Reg{
		{{Addr: 0, Val: 0x8001}},
		{{Addr: 0, Val: 0x8001}, {Addr: 1, Val: 0x0002, Kind: c18VEven}},
		{{Addr: 65535, Val: 0xffff}, {Addr: 0, Val: 1, Kind: c18VLt, K: 2}},
	}
	for _, m := range maps {
		for _, fc := range []int{1, 2, 3, 4, 5, 6} {
			for _, a := range []int{0, 1, 2, 15, 16, 31, 32, 65534, 65535} {
				for _, q := range []int{0, 1, 2, 3, 16, 17, 0xff00} {
					out = append(out, &c18Case{Kind: "exhaustive", Regs: m, FC: fc, Data: append(c18U16(a), c18U16(q)...)})
				}
			}
		}
	}
	return out
}

// c18Guard re-executes the harness as a child with an address-space cap and a
// timeout: a hostile count must not be able to take the machine down.
func c18Guard(envName string, timeout time.Duration) (bool, error) {
	if os.Getenv(envName) != "" {
		debug.SetMemoryLimit(2 << 30)
		return false, nil
	}
	args := append([]string{"-c", `ulimit -v 8388608; exec "$0" "$@"`, os.Args[0]}, os.Args[1:]...)
	cmd := exec.Command("sh", args...)
	cmd.Env = append(os.Environ(), envName+"=1")
	cmd.Stdout, cmd.Stderr = os.Stdout, os.Stderr
	if err := cmd.Start(); err != nil {
		return true, err
	}
	done := make(chan error, 1)
	go func() { done <- cmd.Wait() }()
	select {
	case err := <-done:
		if err != nil {
			return true, fmt.Errorf("child run failed (memory cap 8 GiB, timeout %v): %v", timeout, err)
		}
		return true, nil
	case <-time.After(timeout):
		_ = cmd.Process.Kill()
		return true, fmt.Errorf("child run timed out after %v", timeout)
	}
}

func c18Main(cfg *config) error {
	if parent, err := c18Guard("C18_CHILD", time.Duration(10*cfg.scale)*time.Minute); parent {
		return err
	}
	cs := newCaseSet("c18")
	var cases []*c18Case
	if cfg.replay != "" {
		b, err := os.ReadFile(cfg.replay)
		if err != nil {
			return err
		}
		var rp struct {
			Cases []*c18Case `json:"cases"`
		}
		if err := json.Unmarshal(b, &rp); err != nil {
			return err
		}
		cases = rp.Cases
	} else {
		r := rand.New(rand.NewSource(cfg.seed))
		n := 6000 * cfg.scale
		for i := 0; i < n; i++ {
			rs, mk, blks := c18Map(r)
			fc, data, kind := c18Request(r, rs, blks)
			cases = append(cases, &c18Case{Kind: kind, Regs: rs, FC: fc, Data: data})
			cs.count("map:" + mk)
		}
		cases = append(cases, c18Exhaustive()...)
	}
	for i, c := range cases {
		c.ID = i
		if c.Regs == nil {
			c.Regs = []c18Reg{}
		}
		if c.Data == nil {
			c.Data = []byte{}
		}
		c18Run(c)
		cs.add(c18Val(c), c)
		cs.count("kind:" + c.Kind)
		switch {
		case c.Class == 2:
			cs.count("outcome:panic")
		case c.Class == 1:
			cs.count("outcome:rejected")
		case c.RFC&0x80 != 0 && len(c.RData) == 1:
			cs.count(fmt.Sprintf("outcome:exception%d", c.RData[0]))
		default:
			cs.count("outcome:normal")
		}
		// non-trivial: a supported function code whose request is long enough to be parsed
		if c18Supported(c.FC) && c.Class != 1 {
			cs.markNontrivial(c18Digest(c))
		}
		if len(cs.samples) < 3 && c.Class == 0 && c.RFC&0x80 == 0 && len(c.Regs) <= 4 {
			cs.samples = append(cs.samples, c)
		}
	}
	if len(cs.samples) == 0 && len(cases) > 0 {
		cs.samples = append(cs.samples, cases[0])
	}
	return cs.write(cfg.out)
}
