package main

import (
	"context"
	"fmt"
	"path/filepath"
	"time"

	natsserver "github.com/nats-io/nats-server/v2/server"
	"github.com/nats-io/nats.go"
	"github.com/simpleiot/simpleiot/store"
)

// instance is one in-process simpleiot store behind an embedded NATS server
// on a random free port, with its own SQLite file in dir.
type instance struct {
	ns      *natsserver.Server
	nc      *nats.Conn
	st      *store.Store
	url     string
	stopped chan struct{}
}

func startNats(token string) (*natsserver.Server, string, error) {
	return startNatsPort(token, natsserver.RANDOM_PORT)
}

func startNatsPort(token string, port int) (*natsserver.Server, string, error) {
	opts := &natsserver.Options{Host: "127.0.0.1", Port: port, NoSigs: true, NoLog: true,
		Authorization: token, MaxPayload: 8 * 1024 * 1024}
	ns, err := natsserver.NewServer(opts)
	if err != nil {
		return nil, "", err
	}
	go ns.Start()
	if !ns.ReadyForConnections(10 * time.Second) {
		return nil, "", fmt.Errorf("nats server did not start")
	}
	return ns, ns.ClientURL(), nil
}

func startInstance(dir, rootID string) (*instance, error) {
	return startInstancePort(dir, rootID, natsserver.RANDOM_PORT)
}

// startInstancePort: the same on a given port (an instance that is restarted keeps its address)
func startInstancePort(dir, rootID string, port int) (*instance, error) {
	ns, url, err := startNatsPort("", port)
	if err != nil {
		return nil, err
	}
	nc, err := nats.Connect(url, nats.Timeout(10*time.Second))
	if err != nil {
		ns.Shutdown()
		return nil, err
	}
	st, err := store.NewStore(store.Params{File: filepath.Join(dir, "db.sqlite"), Server: url, Nc: nc, ID: rootID})
	if err != nil {
		nc.Close()
		ns.Shutdown()
		return nil, err
	}
	in := &instance{ns: ns, nc: nc, st: st, url: url, stopped: make(chan struct{})}
	go func() {
		_ = st.Run()
		close(in.stopped)
	}()
	ctx, cancel := context.WithTimeout(context.Background(), 10*time.Second)
	defer cancel()
	if err := st.WaitStart(ctx); err != nil {
		return nil, err
	}
	// make sure the server has registered the store's subscriptions before anybody sends a request
	if err := nc.Flush(); err != nil {
		return nil, err
	}
	return in, nil
}

func (in *instance) stop() {
	in.st.Stop(nil)
	select {
	case <-in.stopped:
	case <-time.After(10 * time.Second):
	}
	in.nc.Close()
	in.ns.Shutdown()
}
