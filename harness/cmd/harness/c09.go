package main

// C09 — no node access without valid credentials; valid users can log in.
//
// Two kinds of instance, both with an auth token and on random free ports:
//   light: embedded NATS server (token set) + store.NewStore + the real api.NewAppHandler behind
//          httptest (nothing else on the bus, so every message seen is caused by the request);
//   full:  the real server.NewServer(...).Run() (NATS server configured by server/nats-server.go,
//          store, node manager, api.NewServer on a TCP port).
// Three kinds of case: "http" (one request through the gate), "bus" (one nats.Connect),
// "login" (a history of user placements, then one auth.user / POST /v1/auth / GET /v1/nodes).

import (
	"bytes"
	"context"
	"crypto/sha1"
	"database/sql"
	"encoding/base64"
	"encoding/hex"
	"encoding/json"
	"fmt"
	"io"
	"log"
	"math/rand"
	"net"
	"net/http"
	"net/http/httptest"
	"net/url"
	"os"
	"path/filepath"
	"sort"
	"strings"
	"sync"
	"time"

	"github.com/golang-jwt/jwt/v4"
	natsserver "github.com/nats-io/nats-server/v2/server"
	"github.com/nats-io/nats.go"
	"github.com/simpleiot/simpleiot/api"
	"github.com/simpleiot/simpleiot/client"
	"github.com/simpleiot/simpleiot/data"
	"github.com/simpleiot/simpleiot/server"
	"github.com/simpleiot/simpleiot/store"
)

func init() { areas["c09"] = c09Run }

const c09Root = "inst1"

// ---------------------------------------------------------------- cases

type c09Op struct {
	Op     string `json:"op"` // group user move mirror delete readd setpass setemail dup
	ID     string `json:"id"` // "@admin" = the admin user created at initialisation
	Parent string `json:"parent,omitempty"`
	To     string `json:"to,omitempty"`
	Email  string `json:"email,omitempty"`
	Pass   string `json:"pass,omitempty"`
}

type c09Case struct {
	ID    int    `json:"id"`
	Kind  string `json:"kind"` // http bus login
	Inst  string `json:"inst"` // light full
	Token string `json:"token"`
	// http: inputs
	Method   string `json:"method,omitempty"`
	Path     string `json:"path,omitempty"`
	Intent   string `json:"intent,omitempty"` // which body the generator meant to send: list node points parents not other
	HdrKind  string `json:"hdr_kind,omitempty"`
	HdrArg   int    `json:"hdr_arg,omitempty"`
	JWTUser  string `json:"jwt_user,omitempty"` // jti of minted tokens; "@admin" = the admin user
	BodyKind string `json:"body_kind,omitempty"`
	Dup      bool   `json:"dup,omitempty"`
	// http: derived from the instance / observed
	Hdr      string      `json:"hdr"`
	HdrSent  []string    `json:"hdr_sent,omitempty"`
	Valid    [][2]string `json:"valid,omitempty"`
	BodyOK   bool        `json:"body_ok,omitempty"`
	Status   int         `json:"status,omitempty"`
	Subjects []string    `json:"subjects,omitempty"`
	// bus
	Presented *string `json:"presented,omitempty"`
	Connected bool    `json:"connected,omitempty"`
	// login: inputs
	Ops   []c09Op `json:"ops,omitempty"`
	Email string  `json:"email,omitempty"`
	Pass  string  `json:"pass,omitempty"`
	// login: observed
	Root       string      `json:"root,omitempty"`
	Dump       []sView     `json:"dump,omitempty"`
	Result     [][2]string `json:"result,omitempty"`
	HasToken   bool        `json:"has_token,omitempty"`
	TokenUID   string      `json:"token_uid,omitempty"`
	HTTP       int         `json:"http,omitempty"`
	ListStatus int         `json:"list_status,omitempty"`
	Listing    [][2]string `json:"listing,omitempty"`
	Err        string      `json:"err,omitempty"`
	Key        string      `json:"key"`
}

func c09Pairs(ps [][2]string) string {
	items := make([]string, len(ps))
	for i, p := range ps {
		items[i] = vL(vS(p[0]), vS(p[1]))
	}
	return vL(items...)
}

func (c *c09Case) val() string {
	switch c.Kind {
	case "http":
		return vL("0", vS(c.Token), vS(c.Method), vS(c.Path), vS(c.Hdr), c09Pairs(c.Valid), vBool(c.BodyOK), vBool(c.Dup),
			vI(c.Status), vSL(c.Subjects))
	case "bus":
		pres := vNone()
		if c.Presented != nil {
			pres = vSome(vS(*c.Presented))
		}
		return vL("1", vS(c.Token), pres, vBool(c.Connected))
	default:
		dump := make([]string, len(c.Dump))
		for i, v := range c.Dump {
			dump[i] = v.val()
		}
		return vL("2", vS(c.Root), vL(dump...), vS(c.Email), vS(c.Pass), c09Pairs(c.Result), vBool(c.HasToken), vS(c.TokenUID),
			vI(c.HTTP), vI(c.ListStatus), c09Pairs(c.Listing))
	}
}

func (c *c09Case) digest() string {
	var b []byte
	switch c.Kind {
	case "http":
		b, _ = json.Marshal([]any{c.Kind, c.Token == "", c.Method, c.Path, c.HdrKind, c.HdrArg, c.BodyKind, c.Dup})
	case "bus":
		b, _ = json.Marshal([]any{c.Kind, c.Token == "", c.Presented})
	default:
		b, _ = json.Marshal([]any{c.Kind, c.Ops, c.Email, c.Pass})
	}
	h := sha1.Sum(b)
	return hex.EncodeToString(h[:8])
}

// ---------------------------------------------------------------- instances

type c09Inst struct {
	full    bool
	token   string
	natsURL string
	httpURL string
	dir     string
	nc      *nats.Conn // harness connection (presents the token)
	wit     *nats.Conn // witness connection
	witCh   chan *nats.Msg
	key     []byte // the instance's JWT key, read from the database file
	adminID string
	realJWT string // obtained from a real POST /v1/auth as the admin user
	hc      *http.Client
	stopFn  func()
}

func c09FreePort() (int, error) {
	l, err := net.Listen("tcp", "127.0.0.1:0")
	if err != nil {
		return 0, err
	}
	defer l.Close()
	return l.Addr().(*net.TCPAddr).Port, nil
}

func c09Connect(url, token string) (*nats.Conn, error) {
	opts := []nats.Option{nats.Timeout(5 * time.Second), nats.MaxReconnects(0)}
	if token != "" {
		opts = append(opts, nats.Token(token))
	}
	return nats.Connect(url, opts...)
}

func c09StartLight(token string) (*c09Inst, error) {
	dir, err := os.MkdirTemp("", "verif-c09-")
	if err != nil {
		return nil, err
	}
	in := &c09Inst{token: token, dir: dir}
	opts := &natsserver.Options{Host: "127.0.0.1", Port: natsserver.RANDOM_PORT, NoSigs: true, NoLog: true,
		Authorization: token}
	ns, err := natsserver.NewServer(opts)
	if err != nil {
		os.RemoveAll(dir)
		return nil, err
	}
	go ns.Start()
	if !ns.ReadyForConnections(10 * time.Second) {
		os.RemoveAll(dir)
		return nil, fmt.Errorf("nats server did not start")
	}
	in.natsURL = ns.ClientURL()
	snc, err := c09Connect(in.natsURL, token)
	if err != nil {
		ns.Shutdown()
		os.RemoveAll(dir)
		return nil, err
	}
	st, err := store.NewStore(store.Params{File: filepath.Join(dir, "db.sqlite"), AuthToken: token, Server: in.natsURL,
		Nc: snc, ID: c09Root})
	if err != nil {
		snc.Close()
		ns.Shutdown()
		os.RemoveAll(dir)
		return nil, err
	}
	stopped := make(chan struct{})
	go func() {
		_ = st.Run()
		close(stopped)
	}()
	ctx, cancel := context.WithTimeout(context.Background(), 10*time.Second)
	defer cancel()
	if err := st.WaitStart(ctx); err != nil {
		return nil, err
	}
	pub := filepath.Join(dir, "public")
	_ = os.MkdirAll(pub, 0o755)
	// the handler server/server.go serves through api.NewServer
	hs := httptest.NewServer(api.NewAppHandler(api.ServerArgs{Filesystem: http.Dir(pub), JwtAuth: st.GetAuthorizer(),
		AuthToken: token, Nc: snc}))
	in.httpURL = hs.URL
	in.stopFn = func() {
		hs.Close()
		st.Stop(nil)
		select {
		case <-stopped:
		case <-time.After(10 * time.Second):
		}
		snc.Close()
		ns.Shutdown()
	}
	if err := in.attach(); err != nil {
		in.stop()
		return nil, err
	}
	return in, nil
}

func c09StartFull(token string) (*c09Inst, error) {
	var lastErr error
	for attempt := 0; attempt < 5; attempt++ {
		in, err := c09StartFullOnce(token)
		if err == nil {
			return in, nil
		}
		if os.Getenv("C09_DEBUG") != "" {
			fmt.Fprintln(os.Stderr, "c09: full instance start failed:", err)
		}
		lastErr = err
	}
	return nil, lastErr
}

func c09StartFullOnce(token string) (*c09Inst, error) {
	dir, err := os.MkdirTemp("", "verif-c09f-")
	if err != nil {
		return nil, err
	}
	np, err := c09FreePort()
	if err != nil {
		return nil, err
	}
	hp, err := c09FreePort()
	if err != nil {
		return nil, err
	}
	in := &c09Inst{full: true, token: token, dir: dir}
	in.natsURL = fmt.Sprintf("nats://127.0.0.1:%d", np)
	in.httpURL = fmt.Sprintf("http://127.0.0.1:%d", hp)
	pub := filepath.Join(dir, "public")
	_ = os.MkdirAll(pub, 0o755)
	opts := server.Options{StoreFile: filepath.Join(dir, "db.sqlite"), NatsPort: np, HTTPPort: fmt.Sprint(hp),
		NatsServer: in.natsURL, AuthToken: token, ID: c09Root, CustomUIDir: pub}
	s, snc, err := server.NewServer(opts)
	if err != nil {
		os.RemoveAll(dir)
		return nil, err
	}
	stopped := make(chan struct{})
	go func() {
		_ = s.Run()
		close(stopped)
	}()
	in.stopFn = func() {
		s.Stop(nil)
		select {
		case <-stopped:
		case <-time.After(15 * time.Second):
		}
		snc.Close()
	}
	ctx, cancel := context.WithTimeout(context.Background(), 10*time.Second)
	err = s.WaitStart(ctx)
	cancel()
	if err == nil {
		// the bus and the HTTP port come up asynchronously
		deadline := time.Now().Add(6 * time.Second)
		for {
			err = in.attach()
			if os.Getenv("C09_DEBUG") != "" {
				fmt.Fprintln(os.Stderr, "c09: attach:", err)
			}
			if err == nil || time.Now().After(deadline) {
				break
			}
			time.Sleep(25 * time.Millisecond)
		}
	}
	if err == nil {
		// make sure this is our instance (ports are picked and released before the server binds them)
		_, tok, e := client.GetNatsURI(in.nc)
		if e != nil || tok != token {
			err = fmt.Errorf("instance identity check failed: %v", e)
		}
	}
	if err != nil {
		in.stop()
		return nil, err
	}
	// let the node manager finish its start-up traffic
	in.quiesce(150 * time.Millisecond)
	return in, nil
}

var c09Subjects = []string{"p.>", "nodes.>", "node.>", "up.>", "auth.>"}

// traffic the full server produces on its own (node manager start-up and rescans, metrics on the root node)
var c09Background = map[string]bool{"nodes.root.all": true, "nodes." + c09Root + ".all": true, "p." + c09Root: true,
	"up." + c09Root + "." + c09Root: true, "up.root." + c09Root: true}

// attach connects harness and witness, reads the JWT key, finds the admin user and logs in once
func (in *c09Inst) attach() error {
	if in.nc != nil {
		in.nc.Close()
		in.nc = nil
	}
	if in.wit != nil {
		in.wit.Close()
		in.wit = nil
	}
	nc, err := c09Connect(in.natsURL, in.token)
	if err != nil {
		return err
	}
	in.nc = nc
	// the store subscribes asynchronously once its own connection is up
	ready := false
	for i := 0; i < 40 && !ready; i++ {
		if _, err := nc.Request("nodes.root.all", nil, 250*time.Millisecond); err == nil {
			ready = true
		} else {
			time.Sleep(10 * time.Millisecond)
		}
	}
	if !ready {
		return fmt.Errorf("store does not answer")
	}
	wit, err := c09Connect(in.natsURL, in.token)
	if err != nil {
		return err
	}
	in.wit = wit
	in.witCh = make(chan *nats.Msg, 65536)
	for _, s := range c09Subjects {
		if _, err := wit.ChanSubscribe(s, in.witCh); err != nil {
			return err
		}
	}
	if err := wit.Flush(); err != nil {
		return err
	}
	in.hc = &http.Client{Timeout: 20 * time.Second,
		CheckRedirect: func(*http.Request, []*http.Request) error { return http.ErrUseLastResponse }}
	kids, err := client.GetNodes(in.nc, c09Root, "all", "", true)
	if err != nil {
		return err
	}
	in.adminID = ""
	for _, k := range kids {
		if k.Type == data.NodeTypeUser {
			in.adminID = k.ID
		}
	}
	if in.adminID == "" {
		return fmt.Errorf("admin user not found")
	}
	db, err := sql.Open("sqlite", "file:"+filepath.Join(in.dir, "db.sqlite")+"?mode=ro&_pragma=busy_timeout(8000)")
	if err != nil {
		return err
	}
	defer db.Close()
	if err := db.QueryRow("SELECT jwt_key FROM meta").Scan(&in.key); err != nil {
		return fmt.Errorf("reading jwt key: %w", err)
	}
	if len(in.key) == 0 {
		return fmt.Errorf("empty jwt key")
	}
	st, tok, err := in.postAuth("admin@admin.com", "admin")
	if err != nil {
		return err
	}
	if st != 200 || tok == "" {
		return fmt.Errorf("initial admin login failed: status %d", st)
	}
	in.realJWT = tok
	in.drain()
	return nil
}

func (in *c09Inst) stop() {
	if in.nc != nil {
		in.nc.Close()
	}
	if in.wit != nil {
		in.wit.Close()
	}
	if in.stopFn != nil {
		in.stopFn()
	}
	os.RemoveAll(in.dir)
}

// drain returns the subjects seen by the witness so far (in order of arrival at the server)
func (in *c09Inst) drain() []string {
	_ = in.wit.Flush()
	var out []string
	for {
		select {
		case m := <-in.witCh:
			if in.full && c09Background[m.Subject] {
				continue
			}
			out = append(out, m.Subject)
		default:
			return out
		}
	}
}

// quiesce waits until nothing has been seen for d
func (in *c09Inst) quiesce(d time.Duration) {
	for {
		time.Sleep(d)
		if len(in.drain()) == 0 {
			return
		}
	}
}

func (in *c09Inst) postAuth(email, pass string) (int, string, error) {
	form := url.Values{"email": {email}, "password": {pass}}
	resp, err := in.hc.PostForm(in.httpURL+"/v1/auth", form)
	if err != nil {
		return 0, "", err
	}
	defer resp.Body.Close()
	b, _ := io.ReadAll(resp.Body)
	if resp.StatusCode != 200 {
		return resp.StatusCode, "", nil
	}
	var a data.Auth
	if err := json.Unmarshal(b, &a); err != nil {
		return resp.StatusCode, "", nil
	}
	return resp.StatusCode, a.Token, nil
}

// request sends one HTTP request and returns status, body and the bus subjects it caused
func (in *c09Inst) request(method, path string, hdrs []string, body string, waitNot bool) (int, []byte, []string, error) {
	in.drain()
	req, err := http.NewRequest(method, in.httpURL, strings.NewReader(body))
	if err != nil {
		return 0, nil, nil, err
	}
	req.URL.Path = path
	req.URL.RawPath = ""
	if hdrs != nil {
		req.Header["Authorization"] = hdrs
	}
	resp, err := in.hc.Do(req)
	if err != nil {
		return 0, nil, nil, err
	}
	rb, _ := io.ReadAll(resp.Body)
	resp.Body.Close()
	subs := in.drain()
	if waitNot && resp.StatusCode == 200 && len(subs) == 0 {
		// Publish is fire-and-forget: the message may still be in the API connection's buffer
		deadline := time.Now().Add(2 * time.Second)
		for len(subs) == 0 && time.Now().Before(deadline) {
			time.Sleep(5 * time.Millisecond)
			subs = in.drain()
		}
	}
	return resp.StatusCode, rb, subs, nil
}

// ---------------------------------------------------------------- tokens

func (in *c09Inst) mint(method jwt.SigningMethod, key any, claims jwt.MapClaims) string {
	s, err := jwt.NewWithClaims(method, claims).SignedString(key)
	if err != nil {
		panic("c09 mint: " + err.Error())
	}
	return s
}

func (in *c09Inst) user(u string) string {
	if u == "@admin" || u == "" {
		return in.adminID
	}
	return u
}

// header builds the Authorization values of a case; valid = the bearer tokens in it that are valid by construction
func (in *c09Inst) header(c *c09Case) (hdrs []string, valid [][2]string) {
	uid := in.user(c.JWTUser)
	now := time.Now()
	good := func() string {
		t := in.mint(jwt.SigningMethodHS256, in.key, jwt.MapClaims{"exp": now.Add(time.Hour).Unix(), "iss": "simpleiot", "jti": uid})
		valid = append(valid, [2]string{t, uid})
		return t
	}
	valid = append(valid, [2]string{in.realJWT, in.adminID})
	one := func(s string) []string { return []string{s} }
	parts := func(t string) []string { return strings.Split(t, ".") }
	b64 := func(s string) string { return base64.RawURLEncoding.EncodeToString([]byte(s)) }
	tok := in.token
	switch c.HdrKind {
	case "absent":
		return nil, valid
	case "empty":
		return one(""), valid
	case "token":
		return one(tok), valid
	case "token-suffix":
		return one(tok + strings.Repeat("x", 1+c.HdrArg%3)), valid
	case "token-prefix":
		if len(tok) < 2 {
			return one("z"), valid
		}
		return one(tok[:len(tok)-1-c.HdrArg%(len(tok)-1)]), valid
	case "token-case":
		return one(strings.ToUpper(tok)), valid
	case "token-space":
		return one(tok + " "), valid
	case "token-twice":
		return one(tok + " " + tok), valid
	case "bearer-token":
		return one("Bearer " + tok), valid
	case "basic":
		return one("Basic " + base64.StdEncoding.EncodeToString([]byte("admin@admin.com:admin"))), valid
	case "bearer-real":
		return one("Bearer " + in.realJWT), valid
	case "bearer-mint":
		return one("Bearer " + good()), valid
	case "bearer-2sp":
		return one("Bearer  " + good()), valid
	case "bearer-tab":
		return one("Bearer\t" + good()), valid
	case "bearer-extra":
		return one("Bearer " + good() + " extra"), valid
	case "lower-bearer":
		return one("bearer " + good()), valid
	case "no-scheme":
		return one(good()), valid
	case "token-bearer":
		return one(tok + " Bearer " + good()), valid
	case "bearer-expired":
		d := []time.Duration{2 * time.Second, time.Hour, 365 * 24 * time.Hour}[c.HdrArg%3]
		return one("Bearer " + in.mint(jwt.SigningMethodHS256, in.key,
			jwt.MapClaims{"exp": now.Add(-d).Unix(), "iss": "simpleiot", "jti": uid})), valid
	case "bearer-expiring":
		// a genuine token that is used once while it is valid and presented again after it has expired:
		// what was accepted a moment ago must be refused now
		exp := now.Add(2 * time.Second)
		t := in.mint(jwt.SigningMethodHS256, in.key, jwt.MapClaims{"exp": exp.Unix(), "iss": "simpleiot", "jti": uid})
		for _, m := range []string{"GET", "POST"}[:1+c.HdrArg%2] {
			_, _, _, _ = in.request(m, "/v1/nodes", []string{"Bearer " + t}, "", false)
		}
		time.Sleep(time.Until(time.Unix(exp.Unix()+1, 200e6)))
		return one("Bearer " + t), valid
	case "bearer-otherkey":
		k := make([]byte, len(in.key))
		for i := range k {
			k[i] = in.key[i] ^ byte(1+c.HdrArg%255)
		}
		return one("Bearer " + in.mint(jwt.SigningMethodHS256, k,
			jwt.MapClaims{"exp": now.Add(time.Hour).Unix(), "iss": "simpleiot", "jti": uid})), valid
	case "bearer-emptykey":
		return one("Bearer " + in.mint(jwt.SigningMethodHS256, []byte{},
			jwt.MapClaims{"exp": now.Add(time.Hour).Unix(), "iss": "simpleiot", "jti": uid})), valid
	case "bearer-none":
		return one("Bearer " + in.mint(jwt.SigningMethodNone, jwt.UnsafeAllowNoneSignatureType,
			jwt.MapClaims{"exp": now.Add(time.Hour).Unix(), "iss": "simpleiot", "jti": uid})), valid
	case "bearer-forged-claims":
		// forged or stale tokens dressed with the other registered claims (issued-at in the future or the past,
		// not-before, audience, subject): none of them makes a bad signature or an expired token acceptable
		var k any = []byte{}
		switch c.HdrArg % 4 {
		case 0:
			kk := make([]byte, len(in.key))
			for i := range kk {
				kk[i] = in.key[i] ^ 0x5a
			}
			k = kk
		case 1:
			k = []byte{}
		case 2:
			k = []byte("simpleiot")
		case 3:
			k = in.key // genuine key, but expired (below)
		}
		exp := now.Add(time.Hour)
		if c.HdrArg%4 == 3 {
			exp = now.Add(-time.Hour)
		}
		claims := jwt.MapClaims{"exp": exp.Unix(), "iss": "simpleiot", "jti": uid}
		switch (c.HdrArg / 4) % 5 {
		case 0:
			claims["iat"] = now.Add(time.Hour).Unix()
		case 1:
			claims["iat"] = now.Add(-time.Hour).Unix()
		case 2:
			claims["nbf"] = now.Add(-time.Hour).Unix()
		case 3:
			claims["iat"] = now.Add(24 * time.Hour).Unix()
			claims["nbf"] = now.Add(-time.Minute).Unix()
			claims["aud"] = "simpleiot"
		case 4:
			claims["iat"] = now.Add(time.Minute).Unix()
			claims["sub"] = uid
			delete(claims, "exp")
			if c.HdrArg%4 == 3 {
				claims["exp"] = now.Add(-time.Second).Unix()
			}
		}
		return one("Bearer " + in.mint(jwt.SigningMethodHS256, k, claims)), valid
	case "bearer-hs512":
		return one("Bearer " + in.mint(jwt.SigningMethodHS512, in.key,
			jwt.MapClaims{"exp": now.Add(time.Hour).Unix(), "iss": "simpleiot", "jti": uid})), valid
	case "bearer-hs384":
		return one("Bearer " + in.mint(jwt.SigningMethodHS384, in.key,
			jwt.MapClaims{"exp": now.Add(time.Hour).Unix(), "iss": "simpleiot", "jti": uid})), valid
	case "bearer-trunc":
		t := in.realJWT
		return one("Bearer " + t[:len(t)-1-c.HdrArg%20]), valid
	case "bearer-sigflip":
		p := parts(in.realJWT)
		sig := []byte(p[2])
		i := c.HdrArg % (len(sig) - 1) // never the last character (its low bits are not significant)
		if sig[i] == 'A' {
			sig[i] = 'B'
		} else {
			sig[i] = 'A'
		}
		return one("Bearer " + p[0] + "." + p[1] + "." + string(sig)), valid
	case "bearer-payload":
		p := parts(in.realJWT)
		pl := fmt.Sprintf(`{"exp":%d,"jti":"%s","iss":"simpleiot"}`, now.Add(1000*time.Hour).Unix(), uid+"x")
		return one("Bearer " + p[0] + "." + b64(pl) + "." + p[2]), valid
	case "bearer-algswap":
		p := parts(in.realJWT)
		return one("Bearer " + b64(`{"alg":"none","typ":"JWT"}`) + "." + p[1] + "." + p[2]), valid
	case "bearer-nosig":
		p := parts(in.realJWT)
		return one("Bearer " + p[0] + "." + p[1] + "."), valid
	case "bearer-twoparts":
		p := parts(in.realJWT)
		return one("Bearer " + p[0] + "." + p[1]), valid
	case "bearer-garbage":
		return one("Bearer abc.def.ghi"), valid
	case "bearer-only":
		return one("Bearer"), valid
	case "dup-garbage-token":
		return []string{"garbage", tok}, valid
	case "dup-token-garbage":
		return []string{tok, "garbage"}, valid
	}
	panic("c09: unknown header kind " + c.HdrKind)
}

var c09HdrKinds = []string{"absent", "empty", "token", "token-suffix", "token-prefix", "token-case", "token-space", "token-twice",
	"bearer-token", "basic", "bearer-real", "bearer-mint", "bearer-2sp", "bearer-tab", "bearer-extra", "lower-bearer", "no-scheme",
	"token-bearer", "bearer-expired", "bearer-otherkey", "bearer-emptykey", "bearer-none", "bearer-hs512", "bearer-hs384", "bearer-forged-claims",
	"bearer-trunc", "bearer-sigflip", "bearer-payload", "bearer-algswap", "bearer-nosig", "bearer-twoparts", "bearer-garbage",
	"bearer-only", "dup-garbage-token", "dup-token-garbage"}

var c09Methods = []string{"GET", "POST", "PUT", "DELETE", "PATCH", "HEAD", "OPTIONS", "get", "FOO"}

type c09PathT struct {
	tmpl   string // %s = node id
	intent string
}

var c09Paths = []c09PathT{
	{"/v1/nodes", "list"}, {"/v1/nodes/", "list"}, {"/v1/nodes/%s", "node"}, {"/v1/nodes/%s/", "node"},
	{"/v1/nodes/%s/points", "points"}, {"/v1/nodes/%s/samples", "points"}, {"/v1/nodes/%s/parents", "parents"},
	{"/v1/nodes/%s/not", "not"}, {"/v1/nodes/%s/other", "other"}, {"/v1/nodes/%s/points/extra", "points"},
	{"/v1/nodes//%s", "node"}, {"/v1/nodes/./%s/points", "points"}, {"/v1//nodes/%s", "node"},
	{"/v1/nodes/x/../%s/parents", "parents"}, {"/v1/nodes/..", "other"}, {"/v1/nodes/../nodes/%s", "node"},
	{"/v1/../v1/nodes/%s", "node"}, {"/../v1/nodes/%s/points", "points"}, {"/v1/nodes/%s/../..", "other"},
	{"/v1/auth", "other"}, {"/v1/auth/x", "other"}, {"/v1/nodes/../auth", "other"}, {"/v1/other", "other"}, {"/v1", "other"},
	{"/v1/", "other"}, {"/", "other"}, {"/sign-in", "other"}, {"/index.html", "other"}, {"/v2/nodes/%s", "node"},
	{"/V1/nodes/%s", "node"}, {"/v1/Nodes/%s", "node"}, {"/v1/nodesx/%s", "node"}, {"/x/v1/nodes/%s", "node"},
}

var c09BodyKinds = []string{"good", "good", "bad", "empty", "wrongtype"}

// body the generator sends for (method, intent); ok = it decodes into what that route expects
func c09Body(c *c09Case, id string) (string, bool) {
	if c.Method == "GET" && c.Intent == "node" {
		// the body of GET /v1/nodes/<id> is used verbatim as a subject token (the parent id): keep it one
		if c.BodyKind == "empty" {
			return "", true
		}
		return "c09limbo", true
	}
	switch c.BodyKind {
	case "bad":
		return `{"parent": "inst1"`, false
	case "empty":
		return "", false
	case "wrongtype":
		if c.Intent == "points" {
			return `{"type":"value"}`, false
		}
		return `[1,2]`, false
	}
	switch c.Intent {
	case "list":
		return fmt.Sprintf(`{"id":"%s","type":"group","parent":"c09limbo","points":[{"type":"description","text":"made by c09"}]}`, id), true
	case "node":
		if c.Method == "GET" {
			return "c09limbo", true
		}
		return `{"parent":"c09limbo"}`, true
	case "points":
		return `[{"type":"value","value":1}]`, true
	case "parents":
		if c.Method == "PUT" {
			return fmt.Sprintf(`{"id":"%s","newParent":"c09limbo2","duplicate":%v}`, id, c.Dup), true
		}
		return fmt.Sprintf(`{"id":"%s","oldParent":"c09limbo","newParent":"c09limbo2"}`, id), true
	case "not":
		return `{"subject":"s","message":"m"}`, true
	}
	return `{"parent":"c09limbo"}`, true
}

func (in *c09Inst) runHTTP(c *c09Case) error {
	c.Token = in.token
	c.Inst = "light"
	if in.full {
		c.Inst = "full"
	}
	hdrs, valid := in.header(c)
	c.HdrSent = hdrs
	c.Hdr = ""
	if len(hdrs) > 0 {
		c.Hdr = strings.Trim(hdrs[0], " \t") // optional whitespace around a field value is not part of it
	}
	c.Valid = valid
	id := ""
	if i := strings.Index(c.Path, "c09n"); i >= 0 {
		id = c.Path[i:]
		if j := strings.IndexByte(id, '/'); j >= 0 {
			id = id[:j]
		}
	}
	if id == "" {
		id = fmt.Sprintf("c09n%dx", c.ID)
	}
	body, ok := c09Body(c, id)
	c.BodyOK = ok
	st, _, subs, err := in.request(c.Method, c.Path, hdrs, body, c.Intent == "not" && c.Method == "POST" && ok)
	if err != nil {
		return err
	}
	c.Status = st
	c.Subjects = subs
	return nil
}

// ---------------------------------------------------------------- bus cases

func (in *c09Inst) runBus(c *c09Case) {
	c.Token = in.token
	c.Inst = "full"
	opts := []nats.Option{nats.Timeout(5 * time.Second), nats.MaxReconnects(0)}
	if c.Presented != nil {
		opts = append(opts, nats.Token(*c.Presented))
	}
	nc, err := nats.Connect(in.natsURL, opts...)
	if err != nil {
		c.Connected = false
		c.Err = err.Error()
		return
	}
	// a connection counts only if it can actually use the bus
	_, err = nc.Request("nodes.root.all", nil, 2*time.Second)
	c.Connected = err == nil
	nc.Close()
}

func c09BusCases(token string, r *rand.Rand) []*c09Case {
	sp := func(s string) *string { return &s }
	pres := []*string{nil, sp(token), sp(token + "x"), sp(strings.ToUpper(token)), sp("Bearer " + token), sp("admin"),
		sp(fmt.Sprintf("t%08x", r.Uint32()))}
	if len(token) > 1 {
		pres = append(pres, sp(token[:len(token)-1]), sp(token[1:]))
	}
	var out []*c09Case
	for _, p := range pres {
		out = append(out, &c09Case{Kind: "bus", Presented: p})
	}
	return out
}

// ---------------------------------------------------------------- login cases

func (in *c09Inst) applyOp(op c09Op) error {
	id := in.user(op.ID)
	if op.ID != "@admin" {
		id = op.ID
	}
	switch op.Op {
	case "group":
		return client.SendNode(in.nc, data.NodeEdge{ID: id, Parent: op.Parent, Type: data.NodeTypeGroup,
			Points: data.Points{{Type: data.PointTypeDescription, Text: id}}}, "")
	case "user":
		return client.SendNode(in.nc, data.NodeEdge{ID: id, Parent: op.Parent, Type: data.NodeTypeUser,
			Points: data.Points{{Type: data.PointTypeFirstName, Text: id}, {Type: data.PointTypeEmail, Text: op.Email},
				{Type: data.PointTypePass, Text: op.Pass}}}, "")
	case "bareuser": // a user node that has no e-mail / password points yet
		return client.SendNode(in.nc, data.NodeEdge{ID: id, Parent: op.Parent, Type: data.NodeTypeUser,
			Points: data.Points{{Type: data.PointTypeFirstName, Text: id}}}, "")
	case "move":
		return client.MoveNode(in.nc, id, op.Parent, op.To, "")
	case "mirror":
		return client.MirrorNode(in.nc, id, op.To, "")
	case "delete":
		return client.DeleteNode(in.nc, id, op.Parent, "")
	case "readd":
		return client.SendEdgePoint(in.nc, id, op.Parent, data.Point{Type: data.PointTypeTombstone, Value: 0}, true)
	case "setpass":
		return client.SendNodePoint(in.nc, id, data.Point{Type: data.PointTypePass, Text: op.Pass}, true)
	case "setemail":
		return client.SendNodePoint(in.nc, id, data.Point{Type: data.PointTypeEmail, Text: op.Email}, true)
	case "altpass": // a further point of the same type under another key (a second address, an old password): not a credential
		return client.SendNodePoint(in.nc, id, data.Point{Type: data.PointTypePass, Key: "1", Text: op.Pass}, true)
	case "altemail":
		return client.SendNodePoint(in.nc, id, data.Point{Type: data.PointTypeEmail, Key: "1", Text: op.Email}, true)
	case "dup":
		return client.DuplicateNode(in.nc, id, op.To, "")
	}
	return fmt.Errorf("unknown op %q", op.Op)
}

// barrier returns once the store has worked off everything queued on its two write subscriptions
// (each is served in order of arrival): an acknowledged write on each of them
func (in *c09Inst) barrier() {
	for i := 0; i < 30; i++ {
		if client.SendNodePoint(in.nc, "c09barrier", data.Point{Type: data.PointTypeDescription, Text: "x"}, true) == nil {
			break
		}
	}
	for i := 0; i < 30; i++ {
		if client.SendEdgePoints(in.nc, "c09barrier", "c09limbo", data.Points{{Type: data.PointTypeTombstone, Value: 0},
			{Type: data.PointTypeNodeType, Text: data.NodeTypeGroup}}, true) == nil {
			break
		}
	}
}

// every node id below the root, deleted ones included
func (in *c09Inst) allIDs() ([]string, error) {
	seen := map[string]bool{c09Root: true}
	todo := []string{c09Root}
	ids := []string{c09Root}
	for len(todo) > 0 {
		x := todo[0]
		todo = todo[1:]
		kids, err := client.GetNodes(in.nc, x, "all", "", true)
		if err != nil {
			return nil, err
		}
		for _, k := range kids {
			if !seen[k.ID] {
				seen[k.ID] = true
				ids = append(ids, k.ID)
				todo = append(todo, k.ID)
			}
		}
	}
	return ids, nil
}

func c09SortPairs(ps [][2]string) {
	sort.Slice(ps, func(i, j int) bool {
		if ps[i][0] != ps[j][0] {
			return ps[i][0] < ps[j][0]
		}
		return ps[i][1] < ps[j][1]
	})
}

func c09JTI(tok string) string {
	p := strings.Split(tok, ".")
	if len(p) != 3 {
		return ""
	}
	b, err := base64.RawURLEncoding.DecodeString(p[1])
	if err != nil {
		return ""
	}
	var m map[string]any
	if json.Unmarshal(b, &m) != nil {
		return ""
	}
	s, _ := m["jti"].(string)
	return s
}

// attempt performs one log-in against the current state (dump taken by the caller)
func (in *c09Inst) attempt(c *c09Case) error {
	c.Token = in.token
	c.Inst = "light"
	if in.full {
		c.Inst = "full"
	}
	nodes, err := client.UserCheck(in.nc, c.Email, c.Pass)
	if err != nil {
		return fmt.Errorf("UserCheck: %w", err)
	}
	c.Result = nil
	c.HasToken = false
	c.TokenUID = ""
	tok := ""
	for _, n := range nodes {
		if n.Type == data.NodeTypeJWT {
			if p, ok := n.Points.Find(data.PointTypeToken, ""); ok && p.Text != "" {
				tok = p.Text
				c.HasToken = true
			}
			continue
		}
		c.Result = append(c.Result, [2]string{n.ID, n.Parent})
	}
	c09SortPairs(c.Result)
	c.TokenUID = c09JTI(tok)
	st, htok, err := in.postAuth(c.Email, c.Pass)
	if err != nil {
		return fmt.Errorf("POST /v1/auth: %w", err)
	}
	c.HTTP = st
	c.ListStatus = 0
	c.Listing = nil
	if c.HasToken {
		use := tok
		if htok != "" && c09JTI(htok) == c.TokenUID {
			use = htok // the token handed out over HTTP must work as well
		}
		st, body, _, err := in.request("GET", "/v1/nodes", []string{"Bearer " + use}, "", false)
		if err != nil {
			return fmt.Errorf("GET /v1/nodes: %w", err)
		}
		c.ListStatus = st
		if st == 200 {
			var l []data.NodeEdge
			if err := json.Unmarshal(body, &l); err != nil {
				return fmt.Errorf("listing: %w", err)
			}
			for _, n := range l {
				c.Listing = append(c.Listing, [2]string{n.ID, n.Parent})
			}
			c09SortPairs(c.Listing)
		}
	}
	return nil
}

func (in *c09Inst) snapshot(c *c09Case) error {
	ids, err := in.allIDs()
	if err != nil {
		return err
	}
	c.Dump, c.Root, err = storeDump(in.nc, ids)
	return err
}

type c09Scenario struct {
	ops      []c09Op
	attempts [][][2]string // after op i: credentials to try
}

var c09Emails = []string{"a@x.io", "b@x.io", "A@x.io", "admin@admin.com"}
var c09Passes = []string{"pw1", "pw2", "pw1 ", "Pw1", ""}

func c09GenScenario(r *rand.Rand, idx int) *c09Scenario {
	sc := &c09Scenario{}
	type place struct{ id, parent string }
	groups := []string{c09Root}
	live := map[place]bool{}    // live edges
	ever := map[place]bool{}    // edges that exist (live or deleted)
	users := []string{"@admin"} // user ids
	creds := map[string][2]string{"@admin": {"admin@admin.com", "admin"}}
	live[place{"@admin", c09Root}] = true
	ever[place{"@admin", c09Root}] = true
	isAnc := func(a, x string) bool { // a is x or above x through any edge
		seen := map[string]bool{}
		var up func(y string) bool
		up = func(y string) bool {
			if y == a {
				return true
			}
			if seen[y] {
				return false
			}
			seen[y] = true
			for p := range ever {
				if p.id == y && up(p.parent) {
					return true
				}
			}
			return false
		}
		return up(x)
	}
	add := func(op c09Op) {
		sc.ops = append(sc.ops, op)
		// credentials tried after this op
		var at [][2]string
		seen := map[[2]string]bool{}
		put := func(e, p string) {
			k := [2]string{e, p}
			if !seen[k] {
				seen[k] = true
				at = append(at, k)
			}
		}
		for _, u := range users {
			put(creds[u][0], creds[u][1])
		}
		u := users[r.Intn(len(users))]
		put(creds[u][0], c09Passes[r.Intn(len(c09Passes))])
		put(c09Emails[r.Intn(len(c09Emails))], creds[u][1])
		if r.Intn(3) == 0 {
			put("", "")
		}
		if r.Intn(4) == 0 {
			put(creds[u][0], creds[u][1]+"x")
		}
		sc.attempts = append(sc.attempts, at)
	}
	ng := 1 + r.Intn(3)
	for i := 0; i < ng; i++ {
		g := fmt.Sprintf("g%d", i+1)
		par := groups[r.Intn(len(groups))]
		add(c09Op{Op: "group", ID: g, Parent: par})
		groups = append(groups, g)
		live[place{g, par}] = true
		ever[place{g, par}] = true
	}
	nu := 1 + r.Intn(3)
	for i := 0; i < nu; i++ {
		u := fmt.Sprintf("u%d", i+1)
		par := groups[r.Intn(len(groups))]
		e, p := c09Emails[r.Intn(3)], c09Passes[r.Intn(2)]
		if i > 0 && r.Intn(3) == 0 { // same e-mail as another user, same or different password
			o := creds[users[len(users)-1]]
			e = o[0]
			if r.Intn(2) == 0 {
				p = o[1]
			}
		}
		if r.Intn(12) == 0 {
			add(c09Op{Op: "bareuser", ID: u, Parent: par})
			e, p = "", ""
		} else {
			add(c09Op{Op: "user", ID: u, Parent: par, Email: e, Pass: p})
		}
		users = append(users, u)
		creds[u] = [2]string{e, p}
		live[place{u, par}] = true
		ever[place{u, par}] = true
	}
	liveOf := func(id string) []string {
		var out []string
		for p := range live {
			if p.id == id && live[p] {
				out = append(out, p.parent)
			}
		}
		sort.Strings(out)
		return out
	}
	deadOf := func(id string) []string {
		var out []string
		for p := range ever {
			if p.id == id && !live[p] {
				out = append(out, p.parent)
			}
		}
		sort.Strings(out)
		return out
	}
	nops := 2 + r.Intn(7)
	for k := 0; k < nops; k++ {
		// pick a subject: mostly users, sometimes groups
		subj := users[r.Intn(len(users))]
		if r.Intn(4) == 0 && len(groups) > 1 {
			subj = groups[1+r.Intn(len(groups)-1)]
		}
		lv, dd := liveOf(subj), deadOf(subj)
		target := groups[r.Intn(len(groups))]
		okTarget := target != subj && !isAnc(subj, target)
		switch r.Intn(8) {
		case 0, 1: // move
			if len(lv) > 0 && okTarget {
				from := lv[r.Intn(len(lv))]
				if from != target {
					add(c09Op{Op: "move", ID: subj, Parent: from, To: target})
					live[place{subj, from}] = false
					live[place{subj, target}] = true
					ever[place{subj, target}] = true
				}
			}
		case 2: // mirror
			if okTarget {
				add(c09Op{Op: "mirror", ID: subj, To: target})
				live[place{subj, target}] = true
				ever[place{subj, target}] = true
			}
		case 3, 4: // delete
			if len(lv) > 0 {
				from := lv[r.Intn(len(lv))]
				add(c09Op{Op: "delete", ID: subj, Parent: from})
				live[place{subj, from}] = false
			}
		case 5: // re-add
			if len(dd) > 0 {
				to := dd[r.Intn(len(dd))]
				add(c09Op{Op: "readd", ID: subj, Parent: to})
				live[place{subj, to}] = true
			}
		case 6: // change credentials
			if subj != "@admin" && strings.HasPrefix(subj, "u") {
				if r.Intn(2) == 0 {
					p := c09Passes[r.Intn(len(c09Passes))]
					add(c09Op{Op: "setpass", ID: subj, Pass: p})
					creds[subj] = [2]string{creds[subj][0], p}
				} else {
					e := c09Emails[r.Intn(len(c09Emails))]
					add(c09Op{Op: "setemail", ID: subj, Email: e})
					creds[subj] = [2]string{e, creds[subj][1]}
				}
				if r.Intn(2) == 0 {
					// ... and points of the same types under another key, written later: they are not the credentials
					add(c09Op{Op: "altemail", ID: subj, Email: c09Emails[r.Intn(len(c09Emails))]})
					add(c09Op{Op: "altpass", ID: subj, Pass: c09Passes[r.Intn(len(c09Passes))]})
				}
			}
		case 7: // duplicate a user (the copy has the same credentials)
			if strings.HasPrefix(subj, "u") && len(lv) > 0 && okTarget && r.Intn(2) == 0 {
				add(c09Op{Op: "dup", ID: subj, To: target})
			}
		}
	}
	_ = idx
	return sc
}

// fixed scenarios: the shapes named in the property
func c09FixedScenarios() []*c09Scenario {
	adm := [][2]string{{"admin@admin.com", "admin"}, {"admin@admin.com", "Admin"}, {"admin@admin.co", "admin"}, {"", ""}}
	usr := [][2]string{{"a@x.io", "pw1"}, {"a@x.io", "pw2"}, {"admin@admin.com", "admin"}}
	mk := func(at [][2]string, ops ...c09Op) *c09Scenario {
		sc := &c09Scenario{ops: ops}
		for range ops {
			sc.attempts = append(sc.attempts, at)
		}
		return sc
	}
	return []*c09Scenario{
		// moved
		mk(adm, c09Op{Op: "group", ID: "g1", Parent: c09Root}, c09Op{Op: "move", ID: "@admin", Parent: c09Root, To: "g1"}),
		// moved and moved back
		mk(adm, c09Op{Op: "group", ID: "g1", Parent: c09Root}, c09Op{Op: "move", ID: "@admin", Parent: c09Root, To: "g1"},
			c09Op{Op: "move", ID: "@admin", Parent: "g1", To: c09Root}),
		// mirrored, then the first placement deleted
		mk(adm, c09Op{Op: "group", ID: "g1", Parent: c09Root}, c09Op{Op: "mirror", ID: "@admin", To: "g1"},
			c09Op{Op: "delete", ID: "@admin", Parent: c09Root}, c09Op{Op: "delete", ID: "@admin", Parent: "g1"},
			c09Op{Op: "readd", ID: "@admin", Parent: "g1"}),
		// under a deleted group, mirrored under a live one
		mk(usr, c09Op{Op: "group", ID: "g1", Parent: c09Root}, c09Op{Op: "group", ID: "g2", Parent: c09Root},
			c09Op{Op: "user", ID: "u1", Parent: "g1", Email: "a@x.io", Pass: "pw1"}, c09Op{Op: "delete", ID: "g1", Parent: c09Root},
			c09Op{Op: "mirror", ID: "u1", To: "g2"}, c09Op{Op: "delete", ID: "u1", Parent: "g2"}, c09Op{Op: "readd", ID: "g1", Parent: c09Root}),
		// nested groups, the upper one moved
		mk(usr, c09Op{Op: "group", ID: "g1", Parent: c09Root}, c09Op{Op: "group", ID: "g2", Parent: "g1"},
			c09Op{Op: "group", ID: "g3", Parent: c09Root},
			c09Op{Op: "user", ID: "u1", Parent: "g2", Email: "a@x.io", Pass: "pw1"}, c09Op{Op: "move", ID: "g1", Parent: c09Root, To: "g3"},
			c09Op{Op: "delete", ID: "g3", Parent: c09Root}),
		// two users with the same e-mail
		mk(usr, c09Op{Op: "group", ID: "g1", Parent: c09Root}, c09Op{Op: "user", ID: "u1", Parent: "g1", Email: "a@x.io", Pass: "pw1"},
			c09Op{Op: "user", ID: "u2", Parent: c09Root, Email: "a@x.io", Pass: "pw2"}, c09Op{Op: "delete", ID: "u1", Parent: "g1"},
			c09Op{Op: "setpass", ID: "u2", Pass: "pw1"}, c09Op{Op: "dup", ID: "u2", To: "g1"}),
	}
}

// runScenario executes a scenario on a fresh instance; a case per (op prefix, credentials)
func c09RunScenario(sc *c09Scenario, token string, full bool) ([]*c09Case, error) {
	var in *c09Inst
	var err error
	if full {
		in, err = c09StartFull(token)
	} else {
		in, err = c09StartLight(token)
	}
	if err != nil {
		return nil, fmt.Errorf("starting scenario instance (full=%v): %w", full, err)
	}
	defer in.stop()
	var out []*c09Case
	for i, op := range sc.ops {
		if err := in.applyOp(op); err != nil {
			// an operation the store refuses is part of the history all the same; one whose acknowledgement
			// timed out (client calls wait 1 s) may still be queued in the store: wait until it is through
			in.barrier()
		}
		var snap c09Case
		if err := in.snapshot(&snap); err != nil {
			return nil, fmt.Errorf("snapshot after %+v: %w", op, err)
		}
		for _, cr := range sc.attempts[i] {
			c := &c09Case{Kind: "login", Ops: append([]c09Op{}, sc.ops[:i+1]...), Email: cr[0], Pass: cr[1],
				Dump: snap.Dump, Root: snap.Root}
			if err := in.attempt(c); err != nil {
				return nil, fmt.Errorf("attempt after %+v: %w", sc.ops[:i+1], err)
			}
			out = append(out, c)
		}
	}
	return out, nil
}

// replay of one login case: its whole history on a fresh instance
func c09ReplayLogin(c *c09Case) error {
	var in *c09Inst
	var err error
	if c.Inst == "full" {
		in, err = c09StartFull(c.Token)
	} else {
		in, err = c09StartLight(c.Token)
	}
	if err != nil {
		return err
	}
	defer in.stop()
	for _, op := range c.Ops {
		if err := in.applyOp(op); err != nil {
			in.barrier()
		}
	}
	if err := in.snapshot(c); err != nil {
		return err
	}
	return in.attempt(c)
}

// ---------------------------------------------------------------- generation of HTTP cases

func c09GenHTTP(r *rand.Rand, n int, sweep bool) []*c09Case {
	var out []*c09Case
	seq := 0
	mk := func(method string, pt c09PathT, hk string, arg int, bk string, dup bool, ju string) {
		seq++
		out = append(out, &c09Case{Kind: "http", Method: method, Path: strings.ReplaceAll(pt.tmpl, "%s", fmt.Sprintf("c09n%d", seq)),
			Intent: pt.intent, HdrKind: hk, HdrArg: arg, BodyKind: bk, Dup: dup, JWTUser: ju})
	}
	if sweep {
		// every header kind on the routes that read, create, write, move, delete and notify
		routes := []struct {
			m string
			p int
		}{{"GET", 0}, {"POST", 0}, {"GET", 2}, {"DELETE", 2}, {"POST", 4}, {"POST", 6}, {"PUT", 6}, {"POST", 7}, {"GET", 10}, {"POST", 13}}
		for _, hk := range c09HdrKinds {
			for _, rt := range routes {
				mk(rt.m, c09Paths[rt.p], hk, r.Intn(1000), "good", r.Intn(2) == 0, "@admin")
			}
		}
		// every method on every path shape without credentials, with the token and with a bearer token
		for _, m := range c09Methods {
			for _, pt := range c09Paths {
				for _, hk := range []string{"absent", "token", "bearer-real"} {
					mk(m, pt, hk, 0, c09BodyKinds[r.Intn(len(c09BodyKinds))], false, "@admin")
				}
			}
		}
	}
	jus := []string{"@admin", "@admin", "nobody", "u1", c09Root}
	for i := 0; i < n; i++ {
		m := c09Methods[r.Intn(len(c09Methods))]
		if r.Intn(3) > 0 {
			m = c09Methods[r.Intn(4)]
		}
		mk(m, c09Paths[r.Intn(len(c09Paths))], c09HdrKinds[r.Intn(len(c09HdrKinds))], r.Intn(100000),
			c09BodyKinds[r.Intn(len(c09BodyKinds))], r.Intn(2) == 0, jus[r.Intn(len(jus))])
	}
	return out
}

func c09Token(r *rand.Rand) string {
	const al = "abcdefghijklmnopqrstuvwxyzABCDEFGHIJKLMNOPQRSTUVWXYZ0123456789-_"
	n := 6 + r.Intn(20)
	b := make([]byte, n)
	for i := range b {
		b[i] = al[r.Intn(len(al))]
	}
	return string(b)
}

// run a batch of HTTP (and bus) cases on one instance, in order
func c09RunBatch(cases []*c09Case, token string, full bool) error {
	var in *c09Inst
	var err error
	if full {
		in, err = c09StartFull(token)
	} else {
		in, err = c09StartLight(token)
	}
	if err != nil {
		return fmt.Errorf("starting instance (full=%v): %w", full, err)
	}
	defer in.stop()
	for _, c := range cases {
		switch c.Kind {
		case "http":
			if err := in.runHTTP(c); err != nil {
				return fmt.Errorf("http case %s %s: %w", c.Method, c.Path, err)
			}
		case "bus":
			in.runBus(c)
			c.Inst = "light"
			if in.full {
				c.Inst = "full"
			}
		}
	}
	return nil
}

// ---------------------------------------------------------------- the area

func c09Run(cfg *config) error {
	log.SetOutput(io.Discard)
	cs := newCaseSet("c09")
	var cases []*c09Case
	if cfg.replay != "" {
		b, err := os.ReadFile(cfg.replay)
		if err != nil {
			return err
		}
		var rp struct {
			Cases []*c09Case `json:"cases"`
		}
		if err := json.Unmarshal(b, &rp); err != nil {
			return err
		}
		for _, c := range rp.Cases {
			switch c.Kind {
			case "login":
				if err := c09ReplayLogin(c); err != nil {
					return err
				}
			default:
				if err := c09RunBatch([]*c09Case{c}, c.Token, c.Inst == "full"); err != nil {
					return err
				}
			}
			cases = append(cases, c)
		}
	} else {
		r := rand.New(rand.NewSource(cfg.seed))
		type job struct {
			cases []*c09Case
			run   func() ([]*c09Case, error)
		}
		var jobs []*job
		batch := func(cl []*c09Case, token string, full bool) {
			j := &job{}
			j.run = func() ([]*c09Case, error) { return cl, c09RunBatch(cl, token, full) }
			jobs = append(jobs, j)
		}
		// HTTP cases on light instances, each with its own token
		httpCases := c09GenHTTP(r, 400*cfg.scale, true)
		const per = 250
		for i := 0; i < len(httpCases); i += per {
			j := i + per
			if j > len(httpCases) {
				j = len(httpCases)
			}
			batch(httpCases[i:j], c09Token(r), false)
		}
		// the real server: bus connections and a sample of the HTTP cases
		ftok := c09Token(r)
		fcases := c09BusCases(ftok, r)
		fcases = append(fcases, c09GenHTTP(r, 120*cfg.scale, false)...)
		fcases = append(fcases, c09BusCases(ftok, r)[:3]...)
		for k, rt := range []struct {
			m string
			p int
		}{{"GET", 0}, {"POST", 4}, {"GET", 2}} {
			fcases = append(fcases, &c09Case{Kind: "http", Method: rt.m,
				Path:   strings.ReplaceAll(c09Paths[rt.p].tmpl, "%s", fmt.Sprintf("c09n%de", k)),
				Intent: c09Paths[rt.p].intent, HdrKind: "bearer-expiring", HdrArg: k, BodyKind: "good", JWTUser: "@admin"})
		}
		batch(fcases, ftok, true)
		// no token configured: the property does not apply, the model still has to agree
		var ncases []*c09Case
		for _, hk := range []string{"absent", "empty", "token", "bearer-real", "bearer-garbage", "bearer-expired"} {
			for _, rt := range []struct {
				m string
				p int
			}{{"GET", 0}, {"POST", 0}, {"GET", 2}, {"POST", 4}, {"DELETE", 2}} {
				ncases = append(ncases, &c09Case{Kind: "http", Method: rt.m,
					Path:   strings.ReplaceAll(c09Paths[rt.p].tmpl, "%s", fmt.Sprintf("c09n%d", len(ncases))),
					Intent: c09Paths[rt.p].intent, HdrKind: hk, BodyKind: "good", JWTUser: "@admin"})
			}
		}
		batch(ncases, "", false)
		batch(c09BusCases("", r)[:3], "", true)
		// user placements
		scen := c09FixedScenarios()
		for i := 0; i < 40*cfg.scale; i++ {
			scen = append(scen, c09GenScenario(r, i))
		}
		for i, sc := range scen {
			sc := sc
			tok := c09Token(r)
			full := i == 0 || i == 3 // two of the fixed scenarios run on the real server
			jobs = append(jobs, &job{run: func() ([]*c09Case, error) { return c09RunScenario(sc, tok, full) }})
		}
		// run the jobs on a few goroutines; the order of the cases is the order of the jobs
		var wg sync.WaitGroup
		var mu sync.Mutex
		next := 0
		var firstErr error
		for w := 0; w < 6; w++ {
			wg.Add(1)
			go func() {
				defer wg.Done()
				for {
					mu.Lock()
					i := next
					next++
					mu.Unlock()
					if i >= len(jobs) {
						return
					}
					cl, err := jobs[i].run()
					mu.Lock()
					if err != nil && firstErr == nil {
						firstErr = err
					}
					jobs[i].cases = cl
					mu.Unlock()
				}
			}()
		}
		wg.Wait()
		if firstErr != nil {
			return firstErr
		}
		for _, j := range jobs {
			cases = append(cases, j.cases...)
		}
	}
	for i, c := range cases {
		c.ID = i
		cs.add(c.val(), c)
		cs.count("kind:" + c.Kind)
		cs.count("instance:" + c.Inst)
		switch c.Kind {
		case "http":
			cs.count("http-header:" + c.HdrKind)
			cs.count("http-method:" + c.Method)
			cs.count(fmt.Sprintf("http-status:%d", c.Status))
			cs.count("http-body:" + c.BodyKind)
			if len(c.Subjects) > 0 {
				cs.count("http-with-bus-traffic")
			}
			if c.Token == "" {
				cs.count("http-no-token-configured")
			}
			if c.HdrKind != "absent" && c.HdrKind != "token" && c.Token != "" {
				cs.markNontrivial(c.digest())
			}
		case "bus":
			cs.count(fmt.Sprintf("bus-connected:%v", c.Connected))
			cs.markNontrivial(c.digest())
		case "login":
			cs.count(fmt.Sprintf("login-token:%v", c.HasToken))
			cs.count(fmt.Sprintf("login-ops:%d", len(c.Ops)))
			cs.count("login-last-op:" + c.Ops[len(c.Ops)-1].Op)
			cs.count(fmt.Sprintf("login-edges:%d", len(c.Dump)))
			if len(c.Ops) > 2 {
				cs.markNontrivial(c.digest())
			}
		}
	}
	samples := []any{}
	seen := map[string]bool{}
	for _, c := range cases {
		if !seen[c.Kind] && (c.Kind != "login" || len(c.Ops) > 3) && (c.Kind != "http" || c.HdrKind == "bearer-expired") {
			seen[c.Kind] = true
			var buf bytes.Buffer
			_ = json.NewEncoder(&buf).Encode(c)
			var m any
			_ = json.Unmarshal(buf.Bytes(), &m)
			samples = append(samples, m)
		}
	}
	cs.samples = samples
	return cs.write(cfg.out)
}
