package main

import (
	"encoding/hex"
	"encoding/json"
	"os"
	"path/filepath"
	"strconv"
	"strings"
)

// Text format of the universal value type read by extract/driver.ml:
//   123 = VN ; z-12 = VZ ; x0a0b = VB (hex) ; ( ... ) = VL

func vB(b []byte) string { return "x" + hex.EncodeToString(b) }
func vS(s string) string { return vB([]byte(s)) }
func vN(n uint64) string { return strconv.FormatUint(n, 10) }
func vI(n int) string {
	if n < 0 {
		panic("vI: negative")
	}
	return strconv.Itoa(n)
}
func vZ(n int64) string { return "z" + strconv.FormatInt(n, 10) }
func vBool(b bool) string {
	if b {
		return "1"
	}
	return "0"
}
func vL(items ...string) string { return "(" + strings.Join(items, " ") + ")" }
func vBL(bs [][]byte) string {
	items := make([]string, len(bs))
	for i, b := range bs {
		items[i] = vB(b)
	}
	return vL(items...)
}
func vSL(ss []string) string {
	items := make([]string, len(ss))
	for i, s := range ss {
		items[i] = vS(s)
	}
	return vL(items...)
}
func vNone() string         { return "()" }
func vSome(x string) string { return "(" + x + ")" }

// caseSet collects the cases of one run: cases.txt for the extracted model,
// cases.json for replays and evidence, stats.json for the input distribution.
type caseSet struct {
	area    string
	lines   []string
	js      []any
	stats   map[string]int
	nontriv map[string]bool
	samples []any
	extra   map[string]any
}

func newCaseSet(area string) *caseSet {
	return &caseSet{area: area, stats: map[string]int{}, nontriv: map[string]bool{}, extra: map[string]any{}}
}

func (cs *caseSet) add(val string, js any) {
	cs.lines = append(cs.lines, val)
	cs.js = append(cs.js, js)
}

func (cs *caseSet) count(key string) { cs.stats[key]++ }

// markNontrivial records a canonical digest of a non-trivial case
func (cs *caseSet) markNontrivial(digest string) { cs.nontriv[digest] = true }

func (cs *caseSet) write(dir string) error {
	if err := os.WriteFile(filepath.Join(dir, "cases.txt"), []byte(strings.Join(cs.lines, "\n")+"\n"), 0o644); err != nil {
		return err
	}
	jb, err := json.Marshal(cs.js)
	if err != nil {
		return err
	}
	if err := os.WriteFile(filepath.Join(dir, "cases.json"), jb, 0o644); err != nil {
		return err
	}
	st := map[string]any{
		"area": cs.area, "cases": len(cs.lines),
		"distribution": cs.stats, "distinct_nontrivial": len(cs.nontriv), "samples": cs.samples,
	}
	for k, v := range cs.extra {
		st[k] = v
	}
	sb, _ := json.MarshalIndent(st, "", " ")
	return os.WriteFile(filepath.Join(dir, "stats.json"), sb, 0o644)
}
