package main

// C10 / C11 — child lists: configuration structs with `child:"type"` slices,
// decoded from a tree of nodes (data.NodeEdgeChildren).

import (
	"math/rand"
	"reflect"
	"strconv"

	"github.com/simpleiot/simpleiot/data"
)

type c10Leaf struct {
	ID     string   `node:"id"`
	Parent string   `node:"parent"`
	V      int      `point:"v"`
	Tags   []string `point:"tag"`
	R      uint8    `edgepoint:"r"`
}

type c10Leaf2 struct {
	ID     string          `node:"id"`
	Parent string          `node:"parent"`
	On     *bool           `point:"on"`
	W      map[string]int8 `point:"w"`
}

type c10Mid struct {
	ID     string             `node:"id"`
	Parent string             `node:"parent"`
	Name   string             `point:"name"`
	M      map[string]float64 `point:"m"`
	Leaves []c10Leaf          `child:"c10Leaf"`
	Role   string             `edgepoint:"role"`
}

type c10Root struct {
	ID     string     `node:"id"`
	Parent string     `node:"parent"`
	Desc   string     `point:"description"`
	Opt    *int       `point:"opt"`
	Mids   []c10Mid   `child:"c10Mid"`
	Days   [2]bool    `point:"day"`
	Leaves []c10Leaf  `child:"c10Leaf"`
	Others []c10Leaf2 `child:"other"` // tag differs from the Go type name
}

var c10RootType = c10Describe(c10Root{})

// universe values of trees
type c10TCfg struct {
	C    *c10Cfg      `json:"c"`
	Kids [][]*c10TCfg `json:"kids"`
}

type c10TNode struct {
	Type []byte      `json:"type"`
	N    *c10Node    `json:"n"`
	Kids []*c10TNode `json:"kids"`
}

type c10TOut struct {
	Class int      `json:"class"`
	Cfg   *c10TCfg `json:"cfg,omitempty"`
}

func (v *c10TCfg) val() string {
	ks := make([]string, len(v.Kids))
	for i, k := range v.Kids {
		items := make([]string, len(k))
		for j, ch := range k {
			items[j] = ch.val()
		}
		ks[i] = vL(items...)
	}
	return vL(v.C.val(), vL(ks...))
}

func (n *c10TNode) val() string {
	items := make([]string, len(n.Kids))
	for i, k := range n.Kids {
		items[i] = k.val()
	}
	return vL(vB(n.Type), n.N.val(), vL(items...))
}

func (o *c10TOut) val() string {
	if o.Class == 2 {
		return vL("2")
	}
	return vL(vI(o.Class), o.Cfg.val())
}

func (n *c10TNode) count() int {
	c := 1
	for _, k := range n.Kids {
		c += k.count()
	}
	return c
}

// fill a struct value (fields and child slices) from a universe tree value
func c10FillTree(T *c10Type, v *c10TCfg, s reflect.Value) {
	c10Fill(T, v.C, s)
	for i, k := range T.kids {
		if i >= len(v.Kids) || len(v.Kids[i]) == 0 {
			continue
		}
		dst := s.Field(k.idx)
		sl := reflect.MakeSlice(dst.Type(), len(v.Kids[i]), len(v.Kids[i]))
		for j, ch := range v.Kids[i] {
			c10FillTree(k.T, ch, sl.Index(j))
		}
		dst.Set(sl)
	}
}

func c10BuildTree(T *c10Type, v *c10TCfg) reflect.Value {
	out := reflect.New(T.rt)
	c10FillTree(T, v, out.Elem())
	return out
}

func c10ReadTree(T *c10Type, s reflect.Value) *c10TCfg {
	v := &c10TCfg{C: c10ReadStruct(T, s), Kids: make([][]*c10TCfg, len(T.kids))}
	for i, k := range T.kids {
		src := s.Field(k.idx)
		v.Kids[i] = []*c10TCfg{}
		for j := 0; j < src.Len(); j++ {
			v.Kids[i] = append(v.Kids[i], c10ReadTree(k.T, src.Index(j)))
		}
	}
	return v
}

func c10ZeroTree(T *c10Type) *c10TCfg { return c10ReadTree(T, reflect.New(T.rt).Elem()) }

// Encode every struct of the tree on its own (Encode does not look at child
// fields) and assemble the nodes; the node type of a child is the tag of the
// field that holds it, as in the store. class 1: some Encode failed.
func c10EncodeTree(T *c10Type, v *c10TCfg, nodeType string, r *rand.Rand) (int, *c10TNode) {
	cls, _, din := c10EncodeRun(T, v.C, r.Int63())
	if cls != 0 {
		return cls, nil
	}
	tn := &c10TNode{Type: []byte(nodeType), N: din, Kids: []*c10TNode{}}
	for i, k := range T.kids {
		if i >= len(v.Kids) {
			break
		}
		for _, ch := range v.Kids[i] {
			c, sub := c10EncodeTree(k.T, ch, k.tag, r)
			if c != 0 {
				return c, nil
			}
			tn.Kids = append(tn.Kids, sub)
		}
	}
	return 0, tn
}

// interleave the children at random, keeping the order within one node type
func c10Interleave(tn *c10TNode, r *rand.Rand) {
	for _, k := range tn.Kids {
		c10Interleave(k, r)
	}
	var order []string
	queues := map[string][]*c10TNode{}
	for _, k := range tn.Kids {
		t := string(k.Type)
		if _, ok := queues[t]; !ok {
			order = append(order, t)
		}
		queues[t] = append(queues[t], k)
	}
	out := make([]*c10TNode, 0, len(tn.Kids))
	for len(out) < len(tn.Kids) {
		t := order[r.Intn(len(order))]
		if len(queues[t]) == 0 {
			continue
		}
		out = append(out, queues[t][0])
		queues[t] = queues[t][1:]
	}
	tn.Kids = out
}

func c10ToNEC(tn *c10TNode) data.NodeEdgeChildren {
	ne := data.NodeEdge{ID: string(tn.N.ID), Parent: string(tn.N.Parent), Type: string(tn.Type),
		Points: c10ToPoints(tn.N.P), EdgePoints: c10ToPoints(tn.N.E)}
	nec := data.NodeEdgeChildren{NodeEdge: ne}
	for _, k := range tn.Kids {
		nec.Children = append(nec.Children, c10ToNEC(k))
	}
	return nec
}

func c10DecodeTreeRun(T *c10Type, tn *c10TNode, into reflect.Value) *c10TOut {
	nec := c10ToNEC(tn)
	class := c10Protect(func() error { return data.Decode(nec, into.Interface()) })
	if class == 2 {
		return &c10TOut{Class: 2}
	}
	return &c10TOut{Class: class, Cfg: c10ReadTree(T, into.Elem())}
}

// a tree value: node ids unique in the tree, parents as in the store
func (g *c10Gen) tcfg(T *c10Type, next *int, parent []byte) *c10TCfg {
	c := g.cfg(T)
	*next++
	c.ID = []byte("n" + strconv.Itoa(*next))
	if g.boundary && g.r.Intn(10) == 0 {
		c.ID = []byte{}
	}
	c.Parent = parent
	v := &c10TCfg{C: c, Kids: make([][]*c10TCfg, len(T.kids))}
	for i, k := range T.kids {
		n := []int{0, 0, 1, 1, 2, 3}[g.r.Intn(6)]
		if g.r.Intn(25) == 0 {
			n = 4 + g.r.Intn(8)
		}
		v.Kids[i] = []*c10TCfg{}
		for j := 0; j < n; j++ {
			v.Kids[i] = append(v.Kids[i], g.tcfg(k.T, next, c.ID))
		}
	}
	return v
}

// ---------------------------------------------------------------------------
// C10 tree cases: Decode(assembled Encode of every struct) == the tree value
// ---------------------------------------------------------------------------

func c10GenTreeCase(r *rand.Rand) *c10Case {
	for {
		g := &c10Gen{r: r, noBig: r.Intn(30) > 0}
		c := &c10Case{Kind: "tree", Type: "c10Root", Shuf: r.Int63(), Gen: "wf"}
		if r.Intn(15) == 0 {
			g.boundary, c.Gen = true, "boundary"
		}
		next := 0
		c.TV = g.tcfg(c10RootType, &next, []byte{})
		if cls, _ := c10EncodeTree(c10RootType, c.TV, "c10Root", rand.New(rand.NewSource(c.Shuf))); cls == 0 {
			return c
		}
	}
}

func c10RunTree(c *c10Case) {
	T := c10RootType
	r := rand.New(rand.NewSource(c.Shuf))
	_, tn := c10EncodeTree(T, c.TV, "c10Root", r)
	if tn == nil {
		tn = &c10TNode{Type: []byte("c10Root"), N: &c10Node{}, Kids: []*c10TNode{}}
	}
	if r.Intn(3) == 0 {
		c10Interleave(tn, r)
	}
	c.TN = tn
	c.TDout = c10DecodeTreeRun(T, tn, reflect.New(T.rt))
	c.Key = ""
	if c.Gen != "boundary" && (c.TDout.Class != 0 || c.TDout.Cfg.val() != c.TV.val()) {
		c.Key = "c10:tree:c10Root"
	}
}
