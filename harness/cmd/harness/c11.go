package main

// C11 — decoding arbitrary points never crashes.
//
// Malformed stream: mostly-valid point batches (taken from Encode of a random
// value, from DiffPoints against the prior, or written directly for the
// declared types) with 1-3 corruptions, decoded or merged into zero or
// non-empty prior values of the configuration types of c10.go. Panics are
// recovered into the outcome class "panic".

import (
	"encoding/json"
	"fmt"
	"io"
	"log"
	"math"
	"math/rand"
	"os"
	"reflect"
	"strconv"
	"strings"

	"github.com/simpleiot/simpleiot/data"
)

func init() { areas["c11"] = c11Run }

type c11Case struct {
	ID    int      `json:"id"`
	Type  string   `json:"type"`
	Op    int      `json:"op"` // 0 Decode, 1 MergePoints, 2 MergeEdgePoints
	Prior *c10Cfg  `json:"prior"`
	Node  *c10Node `json:"node"`
	Corr  []string `json:"corruptions"`
	Key   string   `json:"key"`
	// observed
	Out  *c10Out `json:"out,omitempty"`
	Out2 *c10Out `json:"out2,omitempty"` // same call without the points of undeclared types
	Desc string  `json:"desc,omitempty"`
	// tree cases (Type c10Root): prior and input are trees
	TPrior *c10TCfg  `json:"tprior,omitempty"`
	TNode  *c10TNode `json:"tnode,omitempty"`
	TOut   *c10TOut  `json:"tout,omitempty"`
	TOut2  *c10TOut  `json:"tout2,omitempty"`
}

func c11Strip(T *c10Type, n *c10Node) *c10Node {
	out := &c10Node{ID: n.ID, Parent: n.Parent}
	for _, p := range n.P {
		if T.declares(false, string(p.Type)) {
			out.P = append(out.P, p)
		}
	}
	for _, p := range n.E {
		if T.declares(true, string(p.Type)) {
			out.E = append(out.E, p)
		}
	}
	return out
}

func c11Exec(T *c10Type, op int, prior *c10Cfg, n *c10Node) *c10Out {
	dst := c10Build(T, prior)
	var class int
	switch op {
	case 0:
		ne := data.NodeEdge{ID: string(n.ID), Parent: string(n.Parent), Points: c10ToPoints(n.P), EdgePoints: c10ToPoints(n.E)}
		class = c10Protect(func() error { return data.Decode(data.NodeEdgeChildren{NodeEdge: ne}, dst.Interface()) })
	case 1:
		pts := c10ToPoints(n.P)
		class = c10Protect(func() error { return data.MergePoints(string(n.ID), pts, dst.Interface()) })
	default:
		pts := c10ToPoints(n.E)
		class = c10Protect(func() error { return data.MergeEdgePoints(string(n.ID), string(n.Parent), pts, dst.Interface()) })
	}
	return c10OutOf(T, class, dst)
}

func c11RunImpl(c *c11Case) {
	if c.TPrior != nil {
		c11RunTree(c)
		return
	}
	T := c10TypeByName(c.Type)
	c.Out = c11Exec(T, c.Op, c.Prior, c.Node)
	c.Out2 = c11Exec(T, c.Op, c.Prior, c11Strip(T, c.Node))
	c.Key = ""
	switch {
	case c.Out.Class == 2 || c.Out2.Class == 2:
		c.Key = "c11:panic:" + []string{"decode", "merge", "mergeedge"}[c.Op]
	case c.Out.val() != c.Out2.val():
		c.Key = "c11:undeclared-not-ignored"
	}
	c.Desc = c11Describe(c)
}

func c11Describe(c *c11Case) string {
	var sb strings.Builder
	w := func(tag string, ps []c10Pt) {
		for i, p := range ps {
			if i >= 12 {
				fmt.Fprintf(&sb, "%s ... (%d more) ", tag, len(ps)-i)
				break
			}
			fmt.Fprintf(&sb, "%s{T:%q K:%q V:%v X:%q Tomb:%d} ", tag, p.Type, p.Key, math.Float64frombits(p.Bits), p.Text, p.Tomb)
		}
	}
	fmt.Fprintf(&sb, "%s op=%d id=%q parent=%q ", c.Type, c.Op, c.Node.ID, c.Node.Parent)
	w("P", c.Node.P)
	w("E", c.Node.E)
	return sb.String()
}

func (c *c11Case) val() string {
	if c.TPrior != nil {
		return vL("9", c10RootType.tdesc, c.TPrior.val(), vI(c.Op), c.TNode.val(), c.TOut.val(), c.TOut2.val())
	}
	T := c10TypeByName(c.Type)
	return vL(T.desc, c.Prior.val(), vI(c.Op), c.Node.val(), c.Out.val(), c.Out2.val())
}

// ---------------------------------------------------------------------------
// generator
// ---------------------------------------------------------------------------

var c11WeirdKeys = []string{
	"", "-1", "-0", "+5", "007", "0", "1", "2", "3", "5", "999", "1000", "1001", "2147483648", "4294967296",
	"9223372036854775807", "9223372036854775808", "-9223372036854775808", "99999999999999999999999", "abc", "1.5", " 1",
	"1 ", "1_0", "１", "0x1", "-", "+", "1e3", "٣", "\x00", "00000000000000000000000000000002",
	// numerals that other parsers read differently (octal, binary, hexadecimal, digit separators)
	"010", "011", "0017", "0o17", "0b11", "0x10", "1_000", "08", "09",
}

var c11WeirdVals = []uint64{
	0x7ff8000000000000, 0xfff8000000000001, 0x7ff0000000000001, 0x7ff0000000000000, 0xfff0000000000000,
	0x7e37e43c8800759c, 0xfe37e43c8800759c, 0x43e0000000000000, 0xc3e0000000000000, 0xc3e0000000000001, 0x43f0000000000000,
	0x43efffffffffffff, 0x8000000000000000, 0xbfe0000000000000, 0x3ff8000000000000, 0x41e0000000000000,
	0xc1e0000000000000, 0xc1e0000000200000, 0x41f0000000000000, 0x406ffccccccccccd, 0x4070000000000000, 0xc060200000000000,
	0x0000000000000800, 0x4340000000000000, 0x433fffffffffffff, 0x3ff0000000000001, 0x3ff0000000000000,
	0x47efffffe0000000, 0x47effffff0000000, 0x36a0000000000000, 0x3690000000000000, 0x40dfffc000000000, 0x40e0000000000000,
	0x40efffe000000000, 0x40f0000000000000, 0x405fc00000000000, 0x4060000000000000,
}

var c11WeirdTombs = []int64{-1, -2, -3, 1, 2, 3, 4, math.MinInt64, math.MaxInt64, math.MinInt64 + 1, -1001, 255, 256}

type c11Gen struct {
	r *rand.Rand
	T *c10Type
}

func (g *c11Gen) pick(edge bool) *c10Field {
	var fs []*c10Field
	for i := range g.T.fields {
		if g.T.fields[i].edge == edge {
			fs = append(fs, &g.T.fields[i])
		}
	}
	if len(fs) == 0 {
		return nil
	}
	return fs[g.r.Intn(len(fs))]
}

// a plausible key for a point of field f
func (g *c11Gen) keyFor(f *c10Field, prior *c10FV) []byte {
	switch f.kind {
	case 2, 3:
		n := len(prior.L)
		if f.kind == 3 {
			n = f.n
		}
		switch g.r.Intn(6) {
		case 0:
			return []byte(strconv.Itoa(n))
		case 1:
			return []byte(strconv.Itoa(n + 1 + g.r.Intn(3)))
		case 2:
			if n > 0 {
				return []byte(strconv.Itoa(n - 1))
			}
		}
		return []byte(strconv.Itoa(g.r.Intn(n + 2)))
	case 4:
		if len(prior.Keys) > 0 && g.r.Intn(2) == 0 {
			return prior.Keys[g.r.Intn(len(prior.Keys))]
		}
		return (&c10Gen{r: g.r}).key()
	case 5, 6:
		if g.r.Intn(8) == 0 {
			return []byte([]string{"nosuchmember", "b", "c", "rank"}[g.r.Intn(4)]) // a member of some other struct type, perhaps
		}
		return []byte(f.fs[g.r.Intn(len(f.fs))].key)
	}
	if g.r.Intn(2) == 0 {
		return []byte{}
	}
	return []byte("0")
}

// a blank key is the most interesting weird key ("treated like 0")
func (g *c11Gen) weirdKey() []byte {
	if g.r.Intn(6) == 0 {
		return []byte{}
	}
	return []byte(c11WeirdKeys[g.r.Intn(len(c11WeirdKeys))])
}

func (g *c11Gen) valueBits() uint64 {
	switch g.r.Intn(5) {
	case 0:
		return c11WeirdVals[g.r.Intn(len(c11WeirdVals))]
	case 1:
		return g.r.Uint64()
	case 2:
		return math.Float64bits(float64(g.r.Intn(70000) - 35000))
	case 3:
		return math.Float64bits(float64(g.r.Intn(600)-300) / 2)
	}
	return math.Float64bits(float64(g.r.Intn(3)))
}

func (g *c11Gen) directPoint(edge bool, prior *c10Cfg) (c10Pt, bool) {
	f := g.pick(edge)
	if f == nil {
		return c10Pt{}, false
	}
	var pf *c10FV
	for i := range g.T.fields {
		if &g.T.fields[i] == f {
			pf = &prior.Vals[i]
		}
	}
	p := c10Pt{Type: []byte(f.typ), Key: g.keyFor(f, pf), Bits: g.valueBits(), Text: (&c10Gen{r: g.r}).str()}
	if g.r.Intn(4) == 0 {
		p.Tomb = int64(1 + 2*g.r.Intn(2))
	} else if g.r.Intn(6) == 0 {
		p.Tomb = 2
	}
	return p, true
}

func (g *c11Gen) undeclaredType() []byte {
	pool := []string{"nosuch", "", "B", "description ", "si\x00", "value", "tombstone2"}
	return []byte(pool[g.r.Intn(len(pool))])
}

func (g *c11Gen) gen() *c11Case {
	r := g.r
	T := c10PickType(r)
	g.T = T
	vg := &c10Gen{r: r, noBig: r.Intn(12) > 0}
	c := &c11Case{Type: T.name}
	// prior: zero value, or a well-formed value
	if r.Intn(2) == 0 {
		c.Prior = c10ZeroCfg(T)
		if r.Intn(2) == 0 {
			c.Prior.ID = vg.id()
		}
	} else {
		c.Prior = vg.cfg(T)
	}
	// one case in 25: a slice that an earlier call has already grown to 500..1000 elements, and a live point
	// at, just below or just above the limit of 1000 (the growth of a slice that is large already)
	var grow *c10Field
	if r.Intn(25) == 0 {
		var sl []int
		for i := range T.fields {
			if T.fields[i].kind == 2 {
				sl = append(sl, i)
			}
		}
		if len(sl) > 0 {
			i := sl[r.Intn(len(sl))]
			vg.noBig = true
			c.Prior = vg.cfg(T)
			L := []int{500, 501, 600, 998, 999, 1000}[r.Intn(6)]
			fv := c10FV{Kind: 2}
			for k := 0; k < L; k++ {
				fv.L = append(fv.L, vg.prim(T.fields[i].prim))
			}
			c.Prior.Vals[i] = fv
			grow = &T.fields[i]
		}
	}
	c.Op = []int{0, 0, 0, 1, 1, 2}[r.Intn(6)]
	if grow != nil {
		c.Op = map[bool]int{false: 1, true: 2}[grow.edge] // MergePoints / MergeEdgePoints into the prior
	}
	n := &c10Node{ID: c.Prior.ID, Parent: c.Prior.Parent}
	if grow != nil {
		p := c10Pt{Type: []byte(grow.typ), Key: []byte([]string{"998", "999", "1000", "1000", "1001"}[r.Intn(5)]), Bits: math.Float64bits(float64(r.Intn(50))), Text: []byte("g")}
		if grow.edge {
			n.E = append(n.E, p)
		} else {
			n.P = append(n.P, p)
		}
		c.Corr = append(c.Corr, "grow-at-limit")
		c.Node = n
		return c
	}
	switch r.Intn(10) {
	case 0:
		n.ID = []byte("other")
	case 1:
		n.ID = []byte{}
	case 2:
		n.Parent = []byte("otherparent")
	case 3:
		n.Parent = []byte{}
	}
	// base batch
	switch r.Intn(4) {
	case 0: // the points of a whole value
		vg.noBig = r.Intn(12) > 0
		src := vg.cfg(T)
		if cls, enc, _ := c10EncodeRun(T, src, r.Int63()); cls == 0 {
			n.P, n.E = enc.P, enc.E
		}
	case 1: // a difference against the prior
		after := vg.mutate(T, c.Prior)
		a, b := c10Build(T, c.Prior), c10Build(T, after)
		var pts data.Points
		if c10Protect(func() error {
			var err error
			pts, err = data.DiffPoints[any](a.Interface(), b.Interface())
			return err
		}) == 0 {
			n.P = c10FromPoints(pts)
			c10Canon(T, false, n.P)
		}
	default: // points written directly for declared types
		k := 1 + r.Intn(6)
		for i := 0; i < k; i++ {
			edge := r.Intn(3) == 0
			if p, ok := g.directPoint(edge, c.Prior); ok {
				if edge {
					n.E = append(n.E, p)
				} else {
					n.P = append(n.P, p)
				}
			}
		}
	}
	if c.Op == 2 && len(n.E) == 0 && len(n.P) > 0 && r.Intn(2) == 0 {
		// give MergeEdgePoints something to do
		for i := 0; i < 3; i++ {
			if p, ok := g.directPoint(true, c.Prior); ok {
				n.E = append(n.E, p)
			}
		}
	}
	// corruptions
	nc := 1 + r.Intn(3)
	for i := 0; i < nc; i++ {
		list := &n.P
		edge := false
		if (c.Op == 2 || r.Intn(4) == 0) && len(n.E) > 0 || len(n.P) == 0 {
			list, edge = &n.E, true
		}
		at := 0
		if len(*list) > 0 {
			at = r.Intn(len(*list))
		}
		switch x := r.Intn(11); {
		case x == 0 && len(*list) > 0:
			(*list)[at].Key = g.weirdKey()
			c.Corr = append(c.Corr, "key")
		case x == 1 && len(*list) > 0:
			(*list)[at].Bits = c11WeirdVals[r.Intn(len(c11WeirdVals))]
			c.Corr = append(c.Corr, "value")
		case x == 2 && len(*list) > 0:
			(*list)[at].Tomb = c11WeirdTombs[r.Intn(len(c11WeirdTombs))]
			c.Corr = append(c.Corr, "tombstone")
		case x == 3 && len(*list) > 0:
			(*list)[at].Type = g.undeclaredType()
			c.Corr = append(c.Corr, "undeclared-type")
		case x == 4:
			p := c10Pt{Type: g.undeclaredType(), Key: g.weirdKey(), Bits: g.valueBits(), Tomb: int64(r.Intn(3))}
			*list = append(*list, p)
			c.Corr = append(c.Corr, "undeclared-extra")
		case x == 5 && len(*list) > 0: // the same point again, live/tombstoned flipped
			p := (*list)[at]
			if p.Tomb%2 == 0 {
				p.Tomb = c11WeirdTombs[r.Intn(len(c11WeirdTombs))]
			} else {
				p.Tomb = 0
			}
			pos := r.Intn(len(*list) + 1)
			*list = append((*list)[:pos:pos], append([]c10Pt{p}, (*list)[pos:]...)...)
			c.Corr = append(c.Corr, "mixed-live-tombstoned")
		case x == 6: // a tombstoned point far past the end, or with a weird key
			if p, ok := g.directPoint(edge, c.Prior); ok {
				p.Tomb = []int64{1, -1, 3, -3}[r.Intn(4)]
				if r.Intn(2) == 0 {
					p.Key = g.weirdKey()
				} else {
					p.Key = []byte(strconv.Itoa(r.Intn(3000)))
				}
				pos := r.Intn(len(*list) + 1)
				*list = append((*list)[:pos:pos], append([]c10Pt{p}, (*list)[pos:]...)...)
				c.Corr = append(c.Corr, "tombstone-past-end")
			}
		case x == 7: // a live point with a weird key
			if p, ok := g.directPoint(edge, c.Prior); ok {
				p.Tomb = []int64{0, 0, 2, -2}[r.Intn(4)]
				p.Key = g.weirdKey()
				pos := r.Intn(len(*list) + 1)
				*list = append((*list)[:pos:pos], append([]c10Pt{p}, (*list)[pos:]...)...)
				c.Corr = append(c.Corr, "live-weird-key")
			}
		case x == 8 && len(*list) > 1:
			r.Shuffle(len(*list), func(a, b int) { (*list)[a], (*list)[b] = (*list)[b], (*list)[a] })
			c.Corr = append(c.Corr, "shuffle")
		case x == 9 && len(*list) > 0: // wrong namespace
			p := (*list)[at]
			if edge {
				n.P = append(n.P, p)
			} else {
				n.E = append(n.E, p)
			}
			c.Corr = append(c.Corr, "wrong-namespace")
		default:
			if p, ok := g.directPoint(edge, c.Prior); ok {
				*list = append(*list, p)
				c.Corr = append(c.Corr, "extra-direct")
			}
		}
	}
	c.Node = n
	return c
}

func c10ZeroCfg(T *c10Type) *c10Cfg {
	return c10Read(T, reflect.New(T.rt))
}

// pure noise: random types from a small pool, random everything else
func (g *c11Gen) noise() *c11Case {
	r := g.r
	T := c10PickType(r)
	g.T = T
	c := &c11Case{Type: T.name, Prior: c10ZeroCfg(T), Op: r.Intn(3), Corr: []string{"noise"}}
	if r.Intn(2) == 0 {
		c.Prior = (&c10Gen{r: r, noBig: true}).cfg(T)
	}
	n := &c10Node{ID: c.Prior.ID, Parent: c.Prior.Parent}
	k := r.Intn(10)
	for i := 0; i < k; i++ {
		var typ []byte
		if f := g.pick(r.Intn(3) == 0); f != nil && r.Intn(5) > 0 {
			typ = []byte(f.typ)
		} else {
			typ = g.undeclaredType()
		}
		p := c10Pt{Type: typ, Key: g.weirdKey(), Bits: g.valueBits(),
			Text: (&c10Gen{r: r}).str(), Tomb: 0}
		if r.Intn(3) == 0 {
			p.Tomb = c11WeirdTombs[r.Intn(len(c11WeirdTombs))]
		}
		if r.Intn(3) == 0 {
			n.E = append(n.E, p)
		} else {
			n.P = append(n.P, p)
		}
	}
	c.Node = n
	return c
}

func c11Run(cfg *config) error {
	log.SetOutput(io.Discard)
	cs := newCaseSet("c11")
	var cases []*c11Case
	if cfg.replay != "" {
		b, err := os.ReadFile(cfg.replay)
		if err != nil {
			return err
		}
		var rp struct {
			Cases []*c11Case `json:"cases"`
		}
		if err := json.Unmarshal(b, &rp); err != nil {
			return err
		}
		cases = rp.Cases
	} else {
		r := rand.New(rand.NewSource(cfg.seed))
		g := &c11Gen{r: r}
		for i := 0; i < 5000*cfg.scale; i++ {
			if r.Intn(10) == 0 {
				cases = append(cases, g.tree())
			} else if r.Intn(8) == 0 {
				cases = append(cases, g.noise())
			} else {
				cases = append(cases, g.gen())
			}
		}
	}
	for i, c := range cases {
		c.ID = i
		T := c10TypeByName(c.Type)
		if T == nil {
			return fmt.Errorf("case %d: unknown type %q", i, c.Type)
		}
		if c.TPrior != nil {
			if c.TNode == nil {
				return fmt.Errorf("case %d: incomplete", i)
			}
			c11RunImpl(c)
			line := c.val()
			cs.add(line, c11Slim(c))
			cs.count("type:Root(tree)")
			cs.count("op:tree-" + []string{"decode", "merge", "mergeedge"}[c.Op])
			cs.count(fmt.Sprintf("outcome:class%d", c.TOut.Class))
			for _, k := range c.Corr {
				cs.count("corruption:" + k)
			}
			if c.Key != "" {
				cs.count("harness-flagged")
			}
			cs.markNontrivial(c10Digest(line))
			continue
		}
		if c.Node == nil || c.Prior == nil {
			return fmt.Errorf("case %d: incomplete", i)
		}
		c11RunImpl(c)
		line := c.val()
		cs.add(line, c11Slim(c))
		cs.count("type:" + strings.TrimPrefix(c.Type, "c10"))
		cs.count("op:" + []string{"decode", "merge", "mergeedge"}[c.Op])
		cs.count(fmt.Sprintf("outcome:class%d", c.Out.Class))
		for _, k := range c.Corr {
			cs.count("corruption:" + k)
		}
		declared := 0
		for _, p := range c.Node.P {
			if T.declares(false, string(p.Type)) {
				declared++
			}
		}
		for _, p := range c.Node.E {
			if T.declares(true, string(p.Type)) {
				declared++
			}
		}
		if declared < len(c.Node.P)+len(c.Node.E) {
			cs.count("has-undeclared")
		}
		if c10Points(c.Prior) > 0 && c.Prior.val() != c10ZeroCfg(T).val() {
			cs.count("prior:non-zero")
		} else {
			cs.count("prior:zero")
		}
		if c.Key != "" {
			cs.count("harness-flagged")
		}
		if declared >= 1 {
			cs.markNontrivial(c10Digest(line))
		}
		if len(cs.samples) < 3 && len(line) < 1500 {
			cs.samples = append(cs.samples, c)
		}
	}
	return cs.write(cfg.out)
}

func c11Slim(c *c11Case) *c11Case {
	if c.TPrior != nil {
		s := *c
		s.TOut, s.TOut2 = nil, nil
		return &s
	}
	if c10Points(c.Prior) < 60 && len(c.Node.P)+len(c.Node.E) < 60 {
		return c
	}
	s := *c
	s.Out, s.Out2 = nil, nil
	return &s
}

// ---------------------------------------------------------------------------
// trees
// ---------------------------------------------------------------------------

func c11KidType(T *c10Type, typ string) *c10Type {
	for _, k := range T.kids {
		if k.tag == typ {
			return k.T
		}
	}
	return nil
}

func c11StripTree(T *c10Type, tn *c10TNode) *c10TNode {
	out := &c10TNode{Type: tn.Type, N: c11Strip(T, tn.N), Kids: []*c10TNode{}}
	for _, k := range tn.Kids {
		if kt := c11KidType(T, string(k.Type)); kt != nil {
			out.Kids = append(out.Kids, c11StripTree(kt, k))
		}
	}
	return out
}

func c11ExecTree(op int, prior *c10TCfg, tn *c10TNode) *c10TOut {
	T := c10RootType
	dst := c10BuildTree(T, prior)
	var class int
	switch op {
	case 0:
		nec := c10ToNEC(tn)
		class = c10Protect(func() error { return data.Decode(nec, dst.Interface()) })
	case 1:
		pts := c10ToPoints(tn.N.P)
		class = c10Protect(func() error { return data.MergePoints(string(tn.N.ID), pts, dst.Interface()) })
	default:
		pts := c10ToPoints(tn.N.E)
		class = c10Protect(func() error {
			return data.MergeEdgePoints(string(tn.N.ID), string(tn.N.Parent), pts, dst.Interface())
		})
	}
	if class == 2 {
		return &c10TOut{Class: 2}
	}
	return &c10TOut{Class: class, Cfg: c10ReadTree(T, dst.Elem())}
}

func c11RunTree(c *c11Case) {
	c.TOut = c11ExecTree(c.Op, c.TPrior, c.TNode)
	tn2 := c.TNode
	if c.Op == 0 {
		tn2 = c11StripTree(c10RootType, c.TNode)
	}
	c.TOut2 = c11ExecTree(c.Op, c.TPrior, tn2)
	c.Key = ""
	switch {
	case c.TOut.Class == 2 || c.TOut2.Class == 2:
		c.Key = "c11:panic:tree-" + []string{"decode", "merge", "mergeedge"}[c.Op]
	case c.TOut.val() != c.TOut2.val():
		c.Key = "c11:undeclared-not-ignored"
	}
	c.Desc = fmt.Sprintf("tree op=%d id=%q parent=%q nodes=%d", c.Op, c.TNode.N.ID, c.TNode.N.Parent, c.TNode.count())
}

type c11Loc struct {
	T *c10Type
	v *c10TCfg
}

func c11Walk(T *c10Type, v *c10TCfg, out *[]c11Loc) {
	*out = append(*out, c11Loc{T, v})
	for i, k := range T.kids {
		if i < len(v.Kids) {
			for _, ch := range v.Kids[i] {
				c11Walk(k.T, ch, out)
			}
		}
	}
}

func c11Nodes(tn *c10TNode, out *[]*c10TNode) {
	*out = append(*out, tn)
	for _, k := range tn.Kids {
		c11Nodes(k, out)
	}
}

func (g *c11Gen) tree() *c11Case {
	r := g.r
	T := c10RootType
	vg := &c10Gen{r: r, noBig: true}
	c := &c11Case{Type: "c10Root"}
	next := 100
	if r.Intn(2) == 0 {
		c.TPrior = c10ZeroTree(T)
		c.TPrior.C.ID = []byte("n100")
	} else {
		c.TPrior = vg.tcfg(T, &next, []byte{})
	}
	c.Op = []int{0, 0, 0, 0, 1, 1, 2}[r.Intn(7)]
	if c.Op == 0 {
		next = 0
		src := vg.tcfg(T, &next, []byte{})
		cls, tn := c10EncodeTree(T, src, "c10Root", r)
		if cls != 0 {
			tn = &c10TNode{Type: []byte("c10Root"), N: &c10Node{ID: []byte("n1")}, Kids: []*c10TNode{}}
		}
		nc := 1 + r.Intn(3)
		for i := 0; i < nc; i++ {
			var nodes []*c10TNode
			c11Nodes(tn, &nodes)
			nd := nodes[r.Intn(len(nodes))]
			switch r.Intn(8) {
			case 0, 1: // corrupt a point somewhere in the tree
				list := &nd.N.P
				if r.Intn(3) == 0 {
					list = &nd.N.E
				}
				if len(*list) > 0 {
					at := r.Intn(len(*list))
					switch r.Intn(4) {
					case 0:
						(*list)[at].Key = g.weirdKey()
					case 1:
						(*list)[at].Bits = c11WeirdVals[r.Intn(len(c11WeirdVals))]
					case 2:
						(*list)[at].Tomb = c11WeirdTombs[r.Intn(len(c11WeirdTombs))]
					default:
						(*list)[at].Type = g.undeclaredType()
					}
					c.Corr = append(c.Corr, "tree-point")
				}
			case 2: // a node of another (declared or undeclared) type
				nd.Type = []byte([]string{"nosuch", "", "c10Leaf", "c10Mid", "other", "c10Root", "C10Leaf"}[r.Intn(7)])
				c.Corr = append(c.Corr, "tree-node-type")
			case 3: // the same child twice
				if len(nd.Kids) > 0 {
					k := nd.Kids[r.Intn(len(nd.Kids))]
					pos := r.Intn(len(nd.Kids) + 1)
					nd.Kids = append(nd.Kids[:pos:pos], append([]*c10TNode{k}, nd.Kids[pos:]...)...)
					c.Corr = append(c.Corr, "tree-duplicate-child")
				}
			case 4: // children where the type has no child field, or deeper than the type
				extra := &c10TNode{Type: []byte([]string{"c10Leaf", "c10Mid", "x"}[r.Intn(3)]),
					N: &c10Node{ID: []byte("extra"), P: []c10Pt{{Type: []byte("v"), Key: g.weirdKey(), Bits: g.valueBits()}}}, Kids: []*c10TNode{}}
				nd.Kids = append(nd.Kids, extra)
				c.Corr = append(c.Corr, "tree-extra-child")
			case 5:
				r.Shuffle(len(nd.Kids), func(a, b int) { nd.Kids[a], nd.Kids[b] = nd.Kids[b], nd.Kids[a] })
				c.Corr = append(c.Corr, "tree-shuffle")
			case 6:
				nd.N.ID = []byte{}
				c.Corr = append(c.Corr, "tree-blank-id")
			default: // an extra, directly written point for the root type
				g.T = T
				if p, ok := g.directPoint(false, c.TPrior.C); ok {
					tn.N.P = append(tn.N.P, p)
					c.Corr = append(c.Corr, "tree-extra-direct")
				}
			}
		}
		c.TNode = tn
		return c
	}
	// merge into a struct somewhere in the prior tree
	var locs []c11Loc
	c11Walk(T, c.TPrior, &locs)
	loc := locs[r.Intn(len(locs))]
	n := &c10Node{ID: loc.v.C.ID, Parent: []byte{}}
	switch r.Intn(8) {
	case 0:
		n.ID = []byte("nosuch")
	case 1:
		n.ID = []byte{}
	case 2:
		n.Parent = loc.v.C.Parent
	case 3:
		n.Parent = []byte("otherparent")
	}
	g.T = loc.T
	k := 1 + r.Intn(5)
	for i := 0; i < k; i++ {
		edge := c.Op == 2
		if p, ok := g.directPoint(edge, loc.v.C); ok {
			switch r.Intn(6) {
			case 0:
				p.Key = g.weirdKey()
			case 1:
				p.Tomb = c11WeirdTombs[r.Intn(len(c11WeirdTombs))]
			case 2:
				p.Type = g.undeclaredType()
			}
			if edge {
				n.E = append(n.E, p)
			} else {
				n.P = append(n.P, p)
			}
		}
	}
	c.Corr = append(c.Corr, "tree-merge")
	c.TNode = &c10TNode{Type: []byte{}, N: n, Kids: []*c10TNode{}}
	return c
}
