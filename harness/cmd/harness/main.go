// Command harness runs the implementation under /repo on generated cases and
// writes, per property, the cases together with the implementation's observed
// outputs as Coq terms (cases_*.v, evaluated by the model inside Coq) and as
// JSON (cases.json, used for replay files and evidence).
package main

import (
	"flag"
	"fmt"
	"os"
)

type areaFn func(cfg *config) error

var areas = map[string]areaFn{}

type config struct {
	seed   int64
	tier   string
	out    string
	replay string
	search bool
	scale  int
}

func main() {
	if len(os.Args) < 2 {
		fmt.Fprintln(os.Stderr, "usage: harness <area> [-seed N] [-tier quick|thorough] [-out DIR] [-replay FILE] [-search]")
		os.Exit(2)
	}
	area := os.Args[1]
	fs := flag.NewFlagSet(area, flag.ExitOnError)
	cfg := &config{}
	fs.Int64Var(&cfg.seed, "seed", 1, "PRNG seed")
	fs.StringVar(&cfg.tier, "tier", "quick", "quick or thorough")
	fs.StringVar(&cfg.out, "out", ".", "output directory")
	fs.StringVar(&cfg.replay, "replay", "", "replay file with cases to re-run")
	fs.BoolVar(&cfg.search, "search", false, "search mode (larger budget)")
	_ = fs.Parse(os.Args[2:])
	cfg.scale = 1
	if cfg.tier == "thorough" {
		cfg.scale = 10
	}
	if cfg.search {
		cfg.scale *= 5
	}
	fn, ok := areas[area]
	if !ok {
		fmt.Fprintln(os.Stderr, "unknown area", area)
		os.Exit(2)
	}
	if err := os.MkdirAll(cfg.out, 0o755); err != nil {
		fmt.Fprintln(os.Stderr, err)
		os.Exit(2)
	}
	if err := fn(cfg); err != nil {
		fmt.Fprintln(os.Stderr, "harness error:", err)
		os.Exit(3)
	}
}
