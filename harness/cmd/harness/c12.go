package main

// C12: wire encodings are lossless and malformed bytes are rejected cleanly.
//
// Value cases: generated points / nodes are encoded with the repo's own encoders
// (Points.ToPb, NodeEdge.ToPb, Nodes.ToPb, client.SerialEncode; pb.NodeRequest and
// pb.NodesRequest, which the data package only decodes, are built through protobuf
// reflection on the registered generated types) and decoded back with PbDecode*.
// Byte cases: structured, mostly-valid raw wire messages with injected oddities and
// a separate malformed stream go through every decoder, panics recovered.
// Float values are carried as bit patterns only, times as ns since the Unix epoch
// (arbitrary size).

import (
	"crypto/sha1"
	"encoding/hex"
	"encoding/json"
	"fmt"
	"io"
	"log"
	"math"
	"math/big"
	"math/rand"
	"os"
	"strings"
	"time"

	"github.com/nats-io/nats.go"
	"github.com/simpleiot/simpleiot/client"
	"github.com/simpleiot/simpleiot/data"
	"google.golang.org/protobuf/proto"
	"google.golang.org/protobuf/reflect/protoreflect"
	"google.golang.org/protobuf/reflect/protoregistry"
)

func init() { areas["c12"] = runC12 }

// ---------------------------------------------------------------- case types

type c12Point struct {
	Type   []byte `json:"type"`
	Key    []byte `json:"key"`
	Sec    int64  `json:"sec"`
	Nsec   int64  `json:"nsec"`
	Value  uint64 `json:"valueBits"`
	Text   []byte `json:"text"`
	Data   []byte `json:"data"`
	Tomb   int64  `json:"tombstone"`
	Origin []byte `json:"origin"`
}

type c12Node struct {
	ID     []byte     `json:"id"`
	Type   []byte     `json:"type"`
	Hash   uint32     `json:"hash"`
	Parent []byte     `json:"parent"`
	Points []c12Point `json:"points"`
	Edge   []c12Point `json:"edgePoints"`
}

// one observed call of the implementation
type c12Obs struct {
	Fn    string `json:"fn"`
	Class string `json:"class"` // ok, err, panic
	Msg   string `json:"msg,omitempty"`
	Val   string `json:"val,omitempty"` // value in the val text format (bytes for encoders)
}

type c12Case struct {
	ID      int        `json:"id"`
	Kind    string     `json:"kind"` // points node nodes nodereq nodesreq serial bytes subject
	Gen     string     `json:"gen"`
	Points  []c12Point `json:"points,omitempty"`
	Node    *c12Node   `json:"node,omitempty"`
	Nodes   []c12Node  `json:"nodes,omitempty"`
	ErrStr  []byte     `json:"errStr,omitempty"`
	Bytes   []byte     `json:"bytes,omitempty"`
	Subject []byte     `json:"subject,omitempty"`
	Now     string     `json:"now,omitempty"`
	Obs     []c12Obs   `json:"observed"`
	Key     string     `json:"key"`
}

// ---------------------------------------------------------------- conversions

func (p c12Point) c12ToData() data.Point {
	return data.Point{
		Type: string(p.Type), Key: string(p.Key), Time: time.Unix(p.Sec, p.Nsec),
		Value: math.Float64frombits(p.Value), Text: string(p.Text), Data: p.Data,
		Tombstone: int(p.Tomb), Origin: string(p.Origin),
	}
}

func c12ToDataPoints(ps []c12Point) data.Points {
	out := make(data.Points, len(ps))
	for i, p := range ps {
		out[i] = p.c12ToData()
	}
	return out
}

func (n c12Node) c12ToData() data.NodeEdge {
	ne := data.NodeEdge{ID: string(n.ID), Type: string(n.Type), Hash: n.Hash, Parent: string(n.Parent)}
	if n.Points != nil {
		ne.Points = c12ToDataPoints(n.Points)
	}
	if n.Edge != nil {
		ne.EdgePoints = c12ToDataPoints(n.Edge)
	}
	return ne
}

var c12Billion = big.NewInt(1000000000)

// time as ns since the Unix epoch, any size
func c12TimeNs(t time.Time) string {
	v := new(big.Int).Mul(big.NewInt(t.Unix()), c12Billion)
	v.Add(v, big.NewInt(int64(t.Nanosecond())))
	return "z" + v.String()
}

func c12ValPoint(p data.Point) string {
	return vL(vS(p.Type), vS(p.Key), c12TimeNs(p.Time), vN(math.Float64bits(p.Value)), vS(p.Text),
		vB(p.Data), vZ(int64(p.Tombstone)), vS(p.Origin))
}

func c12ValPoints(ps []data.Point) string {
	items := make([]string, len(ps))
	for i, p := range ps {
		items[i] = c12ValPoint(p)
	}
	return vL(items...)
}

func c12ValNode(n data.NodeEdge) string {
	return vL(vS(n.ID), vS(n.Type), vN(uint64(n.Hash)), vS(n.Parent), c12ValPoints(n.Points), c12ValPoints(n.EdgePoints))
}

func c12ValNodes(ns []data.NodeEdge) string {
	items := make([]string, len(ns))
	for i, n := range ns {
		items[i] = c12ValNode(n)
	}
	return vL(items...)
}

// inputs are written from the generated description, not from the data structs
func c12ValInPoint(p c12Point) string { return c12ValPoint(p.c12ToData()) }
func c12ValInPoints(ps []c12Point) string {
	items := make([]string, len(ps))
	for i, p := range ps {
		items[i] = c12ValInPoint(p)
	}
	return vL(items...)
}
func c12ValInNode(n c12Node) string { return c12ValNode(n.c12ToData()) }
func c12ValInNodes(ns []c12Node) string {
	items := make([]string, len(ns))
	for i, n := range ns {
		items[i] = c12ValInNode(n)
	}
	return vL(items...)
}

func (o c12Obs) c12Val() string {
	switch o.Class {
	case "ok":
		return vL("0", o.Val)
	case "err":
		return vL("1")
	}
	return vL("2")
}

// run f with panics recovered into the outcome class
func c12Try(fn string, f func() (string, error)) (o c12Obs) {
	o.Fn = fn
	defer func() {
		if r := recover(); r != nil {
			o.Class, o.Msg, o.Val = "panic", fmt.Sprint(r), ""
		}
	}()
	v, err := f()
	if err != nil {
		o.Class, o.Msg = "err", err.Error()
		if len(o.Msg) > 120 {
			o.Msg = o.Msg[:120]
		}
		return o
	}
	o.Class, o.Val = "ok", v
	return o
}

// ---------------------------------------------------------------- running the implementation

func c12MarshalRequest(name string, nodes []data.NodeEdge, single bool, errStr string) ([]byte, error) {
	mt, err := protoregistry.GlobalTypes.FindMessageByName(protoreflect.FullName(name))
	if err != nil {
		return nil, err
	}
	m := mt.New()
	fds := m.Descriptor().Fields()
	for i := range nodes {
		pbn, err := nodes[i].ToPbNode()
		if err != nil {
			return nil, err
		}
		if single {
			m.Set(fds.ByName("node"), protoreflect.ValueOfMessage(pbn.ProtoReflect()))
		} else {
			m.Mutable(fds.ByName("nodes")).List().Append(protoreflect.ValueOfMessage(pbn.ProtoReflect()))
		}
	}
	if errStr != "" {
		m.Set(fds.ByName("error"), protoreflect.ValueOfString(errStr))
	}
	return proto.Marshal(m.Interface())
}

func c12DecPoints(b []byte) c12Obs {
	return c12Try("PbDecodePoints", func() (string, error) {
		ps, err := data.PbDecodePoints(b)
		if err != nil {
			return "", err
		}
		c12LastPoints = ps
		return c12ValPoints(ps), nil
	})
}
func c12DecNode(b []byte) c12Obs {
	return c12Try("PbDecodeNode", func() (string, error) {
		n, err := data.PbDecodeNode(b)
		if err != nil {
			return "", err
		}
		c12LastNodes = []data.NodeEdge{n}
		return c12ValNode(n), nil
	})
}
func c12DecNodeReq(b []byte) c12Obs {
	return c12Try("PbDecodeNodeRequest", func() (string, error) {
		n, err := data.PbDecodeNodeRequest(b)
		if err != nil {
			return "", err
		}
		c12LastNodes = []data.NodeEdge{n}
		return c12ValNode(n), nil
	})
}
func c12DecNodes(b []byte) c12Obs {
	return c12Try("PbDecodeNodes", func() (string, error) {
		ns, err := data.PbDecodeNodes(b)
		if err != nil {
			return "", err
		}
		c12LastNodes = ns
		return c12ValNodes(ns), nil
	})
}
func c12DecNodesReq(b []byte) c12Obs {
	return c12Try("PbDecodeNodesRequest", func() (string, error) {
		ns, err := data.PbDecodeNodesRequest(b)
		if err != nil {
			return "", err
		}
		c12LastNodes = ns
		return c12ValNodes(ns), nil
	})
}
func c12DecSerial(b []byte) c12Obs {
	return c12Try("PbDecodeSerialPoints", func() (string, error) {
		ps, err := data.PbDecodeSerialPoints(b)
		if err != nil {
			return "", err
		}
		c12LastPoints = ps
		return c12ValPoints(ps), nil
	})
}

// returns the observation and the value standing for time.Now() (the time of the
// first sample when the payload carries start time 0)
func c12DecHr(b []byte) (c12Obs, string) {
	now := "z0"
	o := c12Try("DecodeSerialHrPayload", func() (string, error) {
		var ps []data.Point
		err := data.DecodeSerialHrPayload(b, func(p data.Point) { ps = append(ps, p) })
		if err != nil {
			return "", err
		}
		if len(b) >= 40 && len(ps) > 0 {
			zero := true
			for _, x := range b[32:40] {
				if x != 0 {
					zero = false
				}
			}
			if zero {
				now = c12TimeNs(ps[0].Time)
			}
		}
		return c12ValPoints(ps), nil
	})
	return o, now
}

const c12HrMax = 160

func c12EncObs(fn string, f func() ([]byte, error)) (c12Obs, []byte) {
	var out []byte
	o := c12Try(fn, func() (string, error) {
		b, err := f()
		if err != nil {
			return "", err
		}
		// an encoded message is a value: other messages are built while this one is held (a sender with a queue)
		c12Decoy()
		out = append([]byte{}, b...)
		return vB(out), nil
	})
	return o, out
}

func c12Decoy() {
	defer func() { _ = recover() }()
	ps := data.Points{{Type: "decoy", Key: "k", Value: 1, Text: "held", Origin: "o"}, {Type: "decoy2", Value: -2}}
	_, _ = ps.ToPb()
	n := data.NodeEdge{ID: "decoy", Type: "t", Parent: "p", Points: ps, EdgePoints: ps[:1]}
	_, _ = n.ToPb()
	ns := data.Nodes{n, n}
	_, _ = ns.ToPb()
}

// run the implementation on the case's inputs, fill in the observations, return the val line
func c12Run(c *c12Case) string {
	c.Obs = nil
	c.Key = ""
	var line string
	encDec := func(enc c12Obs, encBytes []byte, dec func([]byte) c12Obs) c12Obs {
		c.Obs = append(c.Obs, enc)
		var d c12Obs
		if enc.Class == "ok" {
			d = dec(encBytes)
		} else {
			d = c12Obs{Fn: "(not run)", Class: "err", Msg: "encoder failed"}
		}
		c.Obs = append(c.Obs, d)
		return d
	}
	switch c.Kind {
	case "points":
		ps := c12ToDataPoints(c.Points)
		enc, b := c12EncObs("Points.ToPb", func() ([]byte, error) { return ps.ToPb() })
		d := encDec(enc, b, c12DecPoints)
		line = vL("1", c12ValInPoints(c.Points), enc.c12Val(), d.c12Val())
	case "node":
		n := c.Node.c12ToData()
		enc, b := c12EncObs("NodeEdge.ToPb", func() ([]byte, error) { return n.ToPb() })
		d := encDec(enc, b, c12DecNode)
		line = vL("2", c12ValInNode(*c.Node), enc.c12Val(), d.c12Val())
	case "nodes":
		ns := make(data.Nodes, len(c.Nodes))
		for i, n := range c.Nodes {
			ns[i] = n.c12ToData()
		}
		enc, b := c12EncObs("Nodes.ToPb", func() ([]byte, error) { return ns.ToPb() })
		d := encDec(enc, b, c12DecNodes)
		line = vL("3", c12ValInNodes(c.Nodes), enc.c12Val(), d.c12Val())
	case "nodereq":
		var ns []data.NodeEdge
		on := vNone()
		if c.Node != nil {
			ns = []data.NodeEdge{c.Node.c12ToData()}
			on = vSome(c12ValInNode(*c.Node))
		}
		enc, b := c12EncObs("Marshal(pb.NodeRequest)", func() ([]byte, error) {
			return c12MarshalRequest("pb.NodeRequest", ns, true, string(c.ErrStr))
		})
		d := encDec(enc, b, c12DecNodeReq)
		line = vL("4", on, vB(c.ErrStr), enc.c12Val(), d.c12Val())
	case "nodesreq":
		ns := make([]data.NodeEdge, len(c.Nodes))
		for i, n := range c.Nodes {
			ns[i] = n.c12ToData()
		}
		enc, b := c12EncObs("Marshal(pb.NodesRequest)", func() ([]byte, error) {
			return c12MarshalRequest("pb.NodesRequest", ns, false, string(c.ErrStr))
		})
		d := encDec(enc, b, c12DecNodesReq)
		line = vL("5", c12ValInNodes(c.Nodes), vB(c.ErrStr), enc.c12Val(), d.c12Val())
	case "serial":
		ps := c12ToDataPoints(c.Points)
		enc, b := c12EncObs("SerialEncode", func() ([]byte, error) {
			d, err := client.SerialEncode(1, "", ps)
			if err != nil {
				return nil, err
			}
			return d[17 : len(d)-2], nil // strip sequence, subject and CRC
		})
		d := encDec(enc, b, c12DecSerial)
		line = vL("6", c12ValInPoints(c.Points), enc.c12Val(), d.c12Val())
	case "bytes":
		c.Obs = []c12Obs{c12DecPoints(c.Bytes), c12DecNode(c.Bytes), c12DecNodeReq(c.Bytes), c12DecNodes(c.Bytes),
			c12DecNodesReq(c.Bytes), c12DecSerial(c.Bytes)}
		outs := make([]string, len(c.Obs))
		for i, o := range c.Obs {
			outs[i] = o.c12Val()
		}
		// the high-rate payload decoder returns one point per 4 input bytes: it sees every input of up to
		// c12HrMax bytes (the dedicated payload generator stays below that), longer inputs are not handed to it
		now := "z0"
		if len(c.Bytes) <= c12HrMax {
			var hr c12Obs
			hr, now = c12DecHr(c.Bytes)
			c.Obs = append(c.Obs, hr)
			outs = append(outs, vSome(hr.c12Val()))
		} else {
			outs = append(outs, vNone())
		}
		c.Now = now
		line = vL("7", vB(c.Bytes), now, vL(outs...))
	case "subject":
		msg := &nats.Msg{Subject: string(c.Subject), Data: c.Bytes}
		o1 := c12Try("DecodeNodePointsMsg", func() (string, error) {
			a, ps, err := client.DecodeNodePointsMsg(msg)
			if err != nil {
				return "", err
			}
			return vL(vS(a), c12ValPoints(ps)), nil
		})
		o2 := c12Try("DecodeEdgePointsMsg", func() (string, error) {
			a, b, ps, err := client.DecodeEdgePointsMsg(msg)
			if err != nil {
				return "", err
			}
			return vL(vS(a), vS(b), c12ValPoints(ps)), nil
		})
		o3 := c12Try("DecodeUpNodePointsMsg", func() (string, error) {
			a, b, ps, err := client.DecodeUpNodePointsMsg(msg)
			if err != nil {
				return "", err
			}
			return vL(vS(a), vS(b), c12ValPoints(ps)), nil
		})
		o4 := c12Try("DecodeUpEdgePointsMsg", func() (string, error) {
			a, b, cc, ps, err := client.DecodeUpEdgePointsMsg(msg)
			if err != nil {
				return "", err
			}
			return vL(vS(a), vS(b), vS(cc), c12ValPoints(ps)), nil
		})
		c.Obs = []c12Obs{o1, o2, o3, o4}
		line = vL("8", vB(c.Subject), vB(c.Bytes), vL(o1.c12Val(), o2.c12Val(), o3.c12Val(), o4.c12Val()))
	default:
		panic("c12: unknown kind " + c.Kind)
	}
	// canonical key of what fails, for known_findings.txt
	for _, o := range c.Obs {
		if o.Class == "panic" {
			c.Key = "panic:" + o.Fn
			break
		}
	}
	if c.Key == "" {
		c.Key = c12LossKey(c)
	}
	return line
}

// the values last decoded by c12DecPoints / c12DecNode* (for naming a lost field)
var c12LastPoints []data.Point
var c12LastNodes []data.NodeEdge

func c12PointDiff(a, b data.Point) string {
	switch {
	case a.Type != b.Type:
		return "type"
	case a.Key != b.Key:
		return "key"
	case c12TimeNs(a.Time) != c12TimeNs(b.Time):
		return "time"
	case math.Float64bits(a.Value) != math.Float64bits(b.Value):
		return "value"
	case a.Text != b.Text:
		return "text"
	case string(a.Data) != string(b.Data):
		return "data"
	case a.Tombstone != b.Tombstone:
		return "tombstone"
	case a.Origin != b.Origin:
		return "origin"
	}
	return ""
}

func c12PointsDiff(a, b []data.Point) string {
	if len(a) != len(b) {
		return "shape"
	}
	for i := range a {
		if d := c12PointDiff(a[i], b[i]); d != "" {
			return d
		}
	}
	return ""
}

// names the first field that did not survive an encode/decode round trip of a value case
func c12LossKey(c *c12Case) string {
	if len(c.Obs) != 2 || c.Obs[1].Class != "ok" {
		return ""
	}
	var in []data.NodeEdge
	switch c.Kind {
	case "points":
		if d := c12PointsDiff(c12ToDataPoints(c.Points), c12LastPoints); d != "" {
			return "lost:" + d
		}
		return ""
	case "serial":
		// value (float32) and time (int64 ns) are narrowed by design: compare the other fields
		in := c12ToDataPoints(c.Points)
		if len(in) != len(c12LastPoints) {
			return "lost:shape"
		}
		for i := range in {
			a, b := in[i], c12LastPoints[i]
			a.Time, a.Value = b.Time, b.Value
			if d := c12PointDiff(a, b); d != "" {
				return "lost:serial." + d
			}
		}
		return ""
	case "node", "nodereq":
		if c.Node == nil {
			return ""
		}
		in = []data.NodeEdge{c.Node.c12ToData()}
	case "nodes", "nodesreq":
		for _, n := range c.Nodes {
			in = append(in, n.c12ToData())
		}
	default:
		return ""
	}
	if len(in) != len(c12LastNodes) {
		return "lost:shape"
	}
	for i, a := range in {
		b := c12LastNodes[i]
		switch {
		case a.ID != b.ID:
			return "lost:node.id"
		case a.Type != b.Type:
			return "lost:node.type"
		case a.Hash != b.Hash:
			return "lost:node.hash"
		case a.Parent != b.Parent:
			return "lost:node.parent"
		}
		if d := c12PointsDiff(a.Points, b.Points); d != "" {
			return "lost:points." + d
		}
		if d := c12PointsDiff(a.EdgePoints, b.EdgePoints); d != "" {
			return "lost:edgePoints." + d
		}
	}
	return ""
}

// ---------------------------------------------------------------- value generators

var c12Words = []string{"", "", "value", "description", "temp", "0", "1", "a", "é", "日本", "x.y", "\x00", "€uro", "😀",
	"tombstone", "nodeType", "a-very-long-identifier-0123456789-0123456789-0123456789-0123456789-0123456789-0123456789-0123456789-0123456789-0123456789"}

func c12Str(r *rand.Rand, allowInvalid bool) []byte {
	switch r.Intn(10) {
	case 0, 1, 2, 3, 4:
		return []byte(c12Words[r.Intn(len(c12Words))])
	case 5:
		n := r.Intn(12)
		b := make([]byte, n)
		for i := range b {
			b[i] = byte(32 + r.Intn(95))
		}
		return b
	case 6: // random valid UTF-8 runes incl. boundaries
		rs := []rune{0, 0x7f, 0x80, 0x7ff, 0x800, 0xd7ff, 0xe000, 0xfffd, 0xffff, 0x10000, 0x10ffff}
		var sb strings.Builder
		for i, n := 0, 1+r.Intn(4); i < n; i++ {
			sb.WriteRune(rs[r.Intn(len(rs))])
		}
		return []byte(sb.String())
	case 7: // 127/128 byte strings (length varint boundary)
		return []byte(strings.Repeat("k", 126+r.Intn(4)))
	case 8:
		if allowInvalid {
			bad := [][]byte{{0xff}, {0xc0, 0x80}, {0xed, 0xa0, 0x80}, {0xf4, 0x90, 0x80, 0x80}, {0xe2, 0x82}, {0x80},
				{0xf0, 0x8f, 0xbf, 0xbf}, {0xc1, 0xbf}, {0xe0, 0x9f, 0xbf}, {0xf5, 0x80, 0x80, 0x80}, {'a', 0xf0, 0x9f, 0x98}}
			return bad[r.Intn(len(bad))]
		}
		return []byte("ok")
	}
	return []byte{}
}

var c12ValueBits = []uint64{0, 0, 0x8000000000000000, 0x3ff0000000000000, 0xbff0000000000000, 0x7ff0000000000000,
	0xfff0000000000000, 0x7ff8000000000000, 0x7ff0000000000001, 0xfff8000000000123, 1, 0x000fffffffffffff,
	0x0010000000000000, 0x7fefffffffffffff, 0x36a0000000000000, 0x369fffffffffffff, 0x47efffffe0000000, 0x47effffff0000000,
	0x3810000000000000, 0x380fffffffffffff, 0x3690000000000000, 0x3690000000000001, 0x3ff0000010000000, 0x3ff0000030000000,
	0x3ff0000010000001, 0x4059000000000000}

func c12Value(r *rand.Rand) uint64 {
	switch r.Intn(4) {
	case 0:
		return c12ValueBits[r.Intn(len(c12ValueBits))]
	case 1:
		return math.Float64bits(float64(r.Intn(2000)-1000) / 8)
	case 2: // float32-representable
		return math.Float64bits(float64(math.Float32frombits(r.Uint32())))
	}
	return r.Uint64()
}

const c12MinSec, c12MaxSec = -62135596800, 253402300800

func c12Time(r *rand.Rand, allowInvalid bool) (int64, int64) {
	nsecs := []int64{0, 0, 1, 999999999, 500000000, 123456789}
	nsec := nsecs[r.Intn(len(nsecs))]
	if r.Intn(3) == 0 {
		nsec = r.Int63n(1000000000)
	}
	switch r.Intn(12) {
	case 0:
		return c12MinSec, nsec // the zero time.Time when nsec is 0
	case 1:
		return c12MaxSec - 1, nsec
	case 2:
		return 0, nsec
	case 3:
		return -1, nsec
	case 4: // edges of the int64 ns range
		return []int64{9223372036, 9223372037, -9223372037, -9223372036, -9223372038}[r.Intn(5)], nsec
	case 5:
		if allowInvalid {
			return []int64{c12MinSec - 1, c12MaxSec, c12MaxSec + 86400*365, c12MinSec - 86400*400}[r.Intn(4)], nsec
		}
	case 6:
		return c12MinSec + r.Int63n(c12MaxSec-c12MinSec), nsec
	}
	return 1600000000 + r.Int63n(200000000), nsec
}

func c12Tomb(r *rand.Rand, allowWide bool) int64 {
	switch r.Intn(12) {
	case 0:
		return 1
	case 1:
		return 2
	case 2:
		return -1
	case 3:
		return math.MaxInt32
	case 4:
		return math.MinInt32
	case 5:
		return int64(r.Int31())
	case 6:
		if allowWide {
			return []int64{1 << 31, 1 << 32, -(1 << 31) - 1, 1<<32 + 5, math.MaxInt64, math.MinInt64}[r.Intn(6)]
		}
	}
	return 0
}

func c12Data(r *rand.Rand) []byte {
	switch r.Intn(6) {
	case 0:
		return nil
	case 1:
		return []byte{}
	case 2:
		return []byte{0}
	case 3:
		b := make([]byte, 126+r.Intn(5))
		r.Read(b)
		return b
	}
	b := make([]byte, 1+r.Intn(16))
	r.Read(b)
	return b
}

// quality: 0 = every field representable, 1 = may carry one unrepresentable aspect
func c12GenPoint(r *rand.Rand, odd bool) c12Point {
	p := c12Point{}
	p.Type = c12Str(r, odd && r.Intn(8) == 0)
	p.Key = c12Str(r, odd && r.Intn(8) == 0)
	p.Text = c12Str(r, odd && r.Intn(8) == 0)
	p.Origin = c12Str(r, odd && r.Intn(8) == 0)
	p.Sec, p.Nsec = c12Time(r, odd)
	p.Value = c12Value(r)
	p.Data = c12Data(r)
	p.Tomb = c12Tomb(r, odd)
	if r.Intn(10) == 0 { // the zero point
		p = c12Point{Sec: p.Sec, Nsec: p.Nsec}
	}
	return p
}

func c12GenPoints(r *rand.Rand, odd bool) []c12Point {
	n := []int{0, 1, 1, 2, 3, 5, 12}[r.Intn(7)]
	ps := make([]c12Point, n)
	for i := range ps {
		ps[i] = c12GenPoint(r, odd && r.Intn(3) == 0)
	}
	return ps
}

func c12GenNode(r *rand.Rand, odd bool) c12Node {
	n := c12Node{ID: c12Str(r, odd && r.Intn(10) == 0), Type: c12Str(r, odd && r.Intn(10) == 0),
		Parent: c12Str(r, odd && r.Intn(10) == 0)}
	switch r.Intn(5) {
	case 0:
		n.Hash = 0
	case 1:
		n.Hash = []uint32{1, 0x7fffffff, 0x80000000, 0xffffffff, 0x80000001}[r.Intn(5)]
	default:
		n.Hash = r.Uint32()
	}
	if r.Intn(6) != 0 {
		n.Points = c12GenPoints(r, odd)
	}
	if r.Intn(3) != 0 {
		n.Edge = c12GenPoints(r, odd)
	}
	return n
}

func c12GenValueCase(r *rand.Rand) *c12Case {
	odd := r.Intn(5) == 0 // one case in five may hold values that cannot be represented on the wire
	c := &c12Case{Gen: "representable"}
	if odd {
		c.Gen = "maybe-unrepresentable"
	}
	switch r.Intn(10) {
	case 0, 1, 2:
		c.Kind = "points"
		c.Points = c12GenPoints(r, odd)
	case 3, 4:
		c.Kind = "node"
		n := c12GenNode(r, odd)
		c.Node = &n
	case 5:
		c.Kind = "nodes"
		for i, k := 0, r.Intn(4); i < k; i++ {
			c.Nodes = append(c.Nodes, c12GenNode(r, odd))
		}
	case 6:
		c.Kind = "nodereq"
		if r.Intn(5) != 0 {
			n := c12GenNode(r, odd)
			c.Node = &n
		}
		if r.Intn(4) == 0 {
			c.ErrStr = [][]byte{[]byte("document not found"), []byte("boom"), {0xff, 0xfe}}[r.Intn(3)]
			if !odd && len(c.ErrStr) == 2 {
				c.ErrStr = []byte("x")
			}
		}
	case 7:
		c.Kind = "nodesreq"
		for i, k := 0, r.Intn(4); i < k; i++ {
			c.Nodes = append(c.Nodes, c12GenNode(r, odd))
		}
		if r.Intn(4) == 0 {
			c.ErrStr = []byte("document not found")
		}
	default:
		c.Kind = "serial"
		c.Points = c12GenPoints(r, odd)
	}
	return c
}

// ---------------------------------------------------------------- raw wire generators

func c12Varint(v uint64) []byte {
	var b []byte
	for v >= 0x80 {
		b = append(b, byte(v)|0x80)
		v >>= 7
	}
	return append(b, byte(v))
}

// a varint, sometimes padded to a longer (still valid) encoding
func c12VarintR(r *rand.Rand, v uint64) []byte {
	b := c12Varint(v)
	if r.Intn(12) == 0 && len(b) < 10 {
		pad := 1 + r.Intn(10-len(b))
		b[len(b)-1] |= 0x80
		for i := 0; i < pad-1; i++ {
			b = append(b, 0x80)
		}
		b = append(b, 0)
	}
	return b
}

func c12Tag(r *rand.Rand, num uint64, wt int) []byte { return c12VarintR(r, num<<3|uint64(wt)) }

func c12LD(r *rand.Rand, num uint64, payload []byte) []byte {
	b := c12Tag(r, num, 2)
	b = append(b, c12VarintR(r, uint64(len(payload)))...)
	return append(b, payload...)
}

// kinds of known fields
const (
	c12KStr = iota
	c12KBytes
	c12KDouble
	c12KFloat
	c12KInt32
	c12KInt64
	c12KMsg
	c12KRep
)

type c12FieldDef struct {
	num  uint64
	kind int
	sub  string
}

var c12Schema = map[string][]c12FieldDef{
	"timestamp":    {{1, c12KInt64, ""}, {2, c12KInt32, ""}},
	"point":        {{2, c12KStr, ""}, {4, c12KDouble, ""}, {5, c12KMsg, "timestamp"}, {8, c12KStr, ""}, {11, c12KStr, ""}, {12, c12KInt32, ""}, {14, c12KBytes, ""}, {15, c12KStr, ""}},
	"points":       {{1, c12KRep, "point"}},
	"serialpoint":  {{2, c12KStr, ""}, {4, c12KFloat, ""}, {8, c12KStr, ""}, {11, c12KStr, ""}, {12, c12KInt32, ""}, {14, c12KBytes, ""}, {15, c12KStr, ""}, {16, c12KInt64, ""}},
	"serialpoints": {{1, c12KRep, "serialpoint"}},
	"node":         {{1, c12KStr, ""}, {2, c12KStr, ""}, {3, c12KRep, "point"}, {4, c12KInt32, ""}, {6, c12KStr, ""}, {7, c12KRep, "point"}},
	"nodes":        {{1, c12KRep, "node"}},
	"noderequest":  {{1, c12KMsg, "node"}, {2, c12KStr, ""}},
	"nodesrequest": {{1, c12KRep, "node"}, {2, c12KStr, ""}},
}

var c12TopTypes = []string{"points", "points", "node", "nodes", "noderequest", "nodesrequest", "serialpoints"}

type c12RawGen struct {
	r     *rand.Rand
	pMal  float64 // probability that a field is malformed
	pOdd  float64 // probability that a field is odd but well-formed (unknown, wrong wire type, group ...)
	noted map[string]bool
}

func (g *c12RawGen) note(s string) { g.noted[s] = true }

func (g *c12RawGen) varintVal() uint64 {
	r := g.r
	switch r.Intn(8) {
	case 0:
		return 0
	case 1:
		return 1
	case 2:
		return []uint64{127, 128, 1<<31 - 1, 1 << 31, 1<<32 - 1, 1 << 32, 1<<63 - 1, 1 << 63, 1<<64 - 1, 999999999, 1000000000}[r.Intn(11)]
	case 3:
		return uint64(int64(-1 - r.Intn(1000)))
	case 4:
		return uint64(r.Int63n(300000000000)) - 70000000000
	}
	return uint64(r.Intn(1 << 20))
}

// payload for an arbitrary wire type (used for unknown fields and wrong wire types)
func (g *c12RawGen) anyValue(num uint64, wt int, depth int) []byte {
	r := g.r
	switch wt {
	case 0:
		return c12VarintR(r, g.varintVal())
	case 1:
		b := make([]byte, 8)
		r.Read(b)
		return b
	case 2:
		b := make([]byte, r.Intn(6))
		r.Read(b)
		return append(c12VarintR(r, uint64(len(b))), b...)
	case 5:
		b := make([]byte, 4)
		r.Read(b)
		return b
	case 3: // a terminated group with a few fields inside, possibly nested
		var b []byte
		for i, n := 0, r.Intn(3); i < n; i++ {
			inum := uint64(1 + r.Intn(40))
			if r.Intn(10) == 0 {
				inum = []uint64{1<<29 - 1, 1 << 29, 1<<31 - 1}[r.Intn(3)] // legal inside a skipped group
			}
			iwt := []int{0, 1, 2, 5, 3}[r.Intn(5)]
			if iwt == 3 && depth > 3 {
				iwt = 0
			}
			b = append(b, c12Tag(r, inum, iwt)...)
			b = append(b, g.anyValue(inum, iwt, depth+1)...)
		}
		return append(b, c12Tag(r, num, 4)...)
	}
	return nil
}

func (g *c12RawGen) goodValue(f c12FieldDef, depth int) (int, []byte) {
	r := g.r
	switch f.kind {
	case c12KStr:
		s := c12Str(r, false)
		return 2, append(c12VarintR(r, uint64(len(s))), s...)
	case c12KBytes:
		s := c12Data(r)
		return 2, append(c12VarintR(r, uint64(len(s))), s...)
	case c12KDouble:
		b := make([]byte, 8)
		v := c12Value(r)
		for i := range b {
			b[i] = byte(v >> (8 * i))
		}
		return 1, b
	case c12KFloat:
		b := make([]byte, 4)
		v := []uint32{0, 0x80000000, 0x3f800000, 0x7f800000, 0xff800000, 0x7fc00000, 0x7f800001, 0xffc01234, 1, 0x007fffff, 0x00800000, 0x00000400}[r.Intn(12)]
		if r.Intn(2) == 0 {
			v = r.Uint32()
		}
		for i := range b {
			b[i] = byte(v >> (8 * i))
		}
		return 5, b
	case c12KInt32, c12KInt64:
		return 0, c12VarintR(r, g.varintVal())
	case c12KMsg, c12KRep:
		m := g.message(f.sub, depth+1)
		return 2, append(c12VarintR(r, uint64(len(m))), m...)
	}
	return 0, nil
}

var c12BadUTF8 = [][]byte{{0xff}, {0xc0, 0x80}, {0xed, 0xa0, 0x80}, {0xf4, 0x90, 0x80, 0x80}, {'a', 0xe2, 0x82}, {0x80, 'b'}}

// one malformed field (the whole message should be rejected, unless it sits in a place that is skipped)
func (g *c12RawGen) malformed(typ string, depth int) []byte {
	r := g.r
	defs := c12Schema[typ]
	f := defs[r.Intn(len(defs))]
	switch r.Intn(12) {
	case 0:
		g.note("mal:field-number-0")
		return append(c12Tag(r, 0, []int{0, 2}[r.Intn(2)]), 0)
	case 1:
		g.note("mal:field-number-too-large")
		return append(c12Tag(r, []uint64{1 << 29, 1<<29 + 7, 1 << 40, 1<<61 - 1}[r.Intn(4)], 0), 1)
	case 2:
		g.note("mal:wire-type-6-7")
		return append(c12Tag(r, f.num, 6+r.Intn(2)), 1, 2, 3)
	case 3:
		g.note("mal:end-group-alone")
		return c12Tag(r, f.num, 4)
	case 4:
		g.note("mal:unterminated-group")
		return append(c12Tag(r, uint64(1+r.Intn(20)), 3), c12Tag(r, 9, 0)[0], 1)
	case 5:
		g.note("mal:mismatched-end-group")
		return append(c12Tag(r, 9, 3), c12Tag(r, 10, 4)...)
	case 6:
		g.note("mal:length-past-end")
		return append(c12Tag(r, f.num, 2), c12Varint(uint64(200+r.Intn(1<<20)))...)
	case 7:
		g.note("mal:varint-11-bytes")
		return append(c12Tag(r, 12, 0), 0x80, 0x80, 0x80, 0x80, 0x80, 0x80, 0x80, 0x80, 0x80, 0x80, 0x01)
	case 8:
		g.note("mal:varint-tenth-byte-2")
		return append(c12Tag(r, 12, 0), 0xff, 0xff, 0xff, 0xff, 0xff, 0xff, 0xff, 0xff, 0xff, 0x02)
	case 9:
		g.note("mal:invalid-utf8")
		for _, d := range defs {
			if d.kind == c12KStr {
				f = d
				if r.Intn(2) == 0 {
					break
				}
			}
		}
		if f.kind != c12KStr {
			return append(c12Tag(r, 15, 2), 1, 0xff)
		}
		return c12LD(r, f.num, c12BadUTF8[r.Intn(len(c12BadUTF8))])
	case 10:
		g.note("mal:truncated-fixed")
		return append(c12Tag(r, f.num, []int{1, 5}[r.Intn(2)]), 1, 2, 3)
	default:
		g.note("mal:tag-truncated")
		return []byte{0x80 | byte(r.Intn(128))}
	}
}

func (g *c12RawGen) message(typ string, depth int) []byte {
	r := g.r
	defs := c12Schema[typ]
	var out []byte
	n := r.Intn(7)
	if len(defs) == 1 || typ == "nodesrequest" || typ == "noderequest" {
		n = r.Intn(4)
	}
	if typ == "point" && r.Intn(3) != 0 {
		// most points carry a valid time, otherwise every batch fails on "nil Timestamp"
		ts := append(c12Tag(r, 1, 0), c12VarintR(r, uint64(1600000000+r.Intn(1000)))...)
		if r.Intn(2) == 0 {
			ts = append(ts, c12Tag(r, 2, 0)...)
			ts = append(ts, c12VarintR(r, uint64(r.Intn(1000000000)))...)
		}
		out = append(out, c12LD(r, 5, ts)...)
	}
	for i := 0; i < n; i++ {
		x := r.Float64()
		switch {
		case x < g.pMal:
			out = append(out, g.malformed(typ, depth)...)
		case x < g.pMal+g.pOdd:
			switch r.Intn(4) {
			case 0: // unknown field number
				num := []uint64{9, 10, 13, 17, 100, 19000, 1<<29 - 1}[r.Intn(7)]
				wt := []int{0, 1, 2, 5, 3}[r.Intn(5)]
				g.note(fmt.Sprintf("odd:unknown-field-wt%d", wt))
				out = append(out, c12Tag(r, num, wt)...)
				out = append(out, g.anyValue(num, wt, depth)...)
			case 1, 2: // known field, wrong wire type
				f := defs[r.Intn(len(defs))]
				wt := []int{0, 1, 2, 5, 3}[r.Intn(5)]
				g.note(fmt.Sprintf("odd:known-field-wt%d", wt))
				out = append(out, c12Tag(r, f.num, wt)...)
				out = append(out, g.anyValue(f.num, wt, depth)...)
			default: // timestamp oddities inside a point
				if typ == "point" {
					g.note("odd:timestamp-range")
					minS, neg1 := int64(c12MinSec), int64(-1)
					sec := []uint64{uint64(c12MaxSec), uint64(c12MaxSec - 1), uint64(minS), uint64(minS - 1), 0, 1 << 63}[r.Intn(6)]
					nanos := []uint64{0, 999999999, 1000000000, uint64(neg1), 1 << 32, 1<<32 + 5}[r.Intn(6)]
					ts := append(c12Tag(r, 1, 0), c12Varint(sec)...)
					ts = append(ts, c12Tag(r, 2, 0)...)
					ts = append(ts, c12Varint(nanos)...)
					out = append(out, c12LD(r, 5, ts)...)
				}
			}
		default:
			f := defs[r.Intn(len(defs))]
			wt, v := g.goodValue(f, depth)
			out = append(out, c12Tag(r, f.num, wt)...)
			out = append(out, v...)
		}
	}
	return out
}

func c12GenRaw(r *rand.Rand) *c12Case {
	g := &c12RawGen{r: r, noted: map[string]bool{}}
	switch r.Intn(4) {
	case 0:
		g.pMal, g.pOdd = 0, 0
	case 1:
		g.pMal, g.pOdd = 0, 0.25
	case 2:
		g.pMal, g.pOdd = 0.03, 0.15
	default:
		g.pMal, g.pOdd = 0.15, 0.15
	}
	typ := c12TopTypes[r.Intn(len(c12TopTypes))]
	b := g.message(typ, 0)
	gen := "raw:" + typ
	var notes []string
	for k := range g.noted {
		notes = append(notes, k)
	}
	c := &c12Case{Kind: "bytes", Gen: gen, Bytes: b}
	c.Subject = nil
	c12NoteBuf[c] = notes
	return c
}

// notes (odd / malformed ingredients) per generated case, for the input distribution only
var c12NoteBuf = map[*c12Case][]string{}

// mutate a valid encoding
func c12GenMutated(r *rand.Rand) *c12Case {
	var b []byte
	switch r.Intn(4) {
	case 0:
		ps := c12ToDataPoints(c12GenPoints(r, false))
		b, _ = ps.ToPb()
	case 1:
		n := c12GenNode(r, false).c12ToData()
		b, _ = n.ToPb()
	case 2:
		ns := data.Nodes{c12GenNode(r, false).c12ToData(), c12GenNode(r, false).c12ToData()}
		b, _ = ns.ToPb()
	default:
		g := &c12RawGen{r: r, noted: map[string]bool{}, pOdd: 0.1}
		b = g.message(c12TopTypes[r.Intn(len(c12TopTypes))], 0)
	}
	b = append([]byte{}, b...)
	gen := ""
	switch r.Intn(8) {
	case 0:
		gen = "mut:bitflip"
		for i, n := 0, 1+r.Intn(3); i < n && len(b) > 0; i++ {
			b[r.Intn(len(b))] ^= 1 << uint(r.Intn(8))
		}
	case 1:
		gen = "mut:truncate"
		if len(b) > 0 {
			b = b[:r.Intn(len(b))]
		}
	case 2:
		gen = "mut:delete-range"
		if len(b) > 1 {
			i := r.Intn(len(b))
			j := i + 1 + r.Intn(c12MinInt(8, len(b)-i))
			b = append(b[:i], b[j:]...)
		}
	case 3:
		gen = "mut:insert-random"
		i := 0
		if len(b) > 0 {
			i = r.Intn(len(b) + 1)
		}
		ins := make([]byte, 1+r.Intn(6))
		r.Read(ins)
		b = append(b[:i], append(ins, b[i:]...)...)
	case 4:
		gen = "mut:duplicate-range"
		if len(b) > 1 {
			i := r.Intn(len(b))
			j := i + 1 + r.Intn(c12MinInt(24, len(b)-i))
			b = append(b[:j], append(append([]byte{}, b[i:j]...), b[j:]...)...)
		}
	case 5:
		gen = "mut:byte-set"
		if len(b) > 0 {
			b[r.Intn(len(b))] = []byte{0, 0x7f, 0x80, 0xff, 0x0b, 0x0c, 0x2a}[r.Intn(7)]
		}
	case 6:
		gen = "mut:splice-two"
		g := &c12RawGen{r: r, noted: map[string]bool{}, pOdd: 0.2, pMal: 0.02}
		other := g.message(c12TopTypes[r.Intn(len(c12TopTypes))], 0)
		i := 0
		if len(b) > 0 {
			i = r.Intn(len(b) + 1)
		}
		b = append(b[:i], append(other, b[i:]...)...)
	default:
		gen = "mut:none"
	}
	return &c12Case{Kind: "bytes", Gen: gen, Bytes: b}
}

func c12MinInt(a, b int) int {
	if a < b {
		return a
	}
	return b
}

func c12GenRandomBytes(r *rand.Rand) *c12Case {
	n := []int{0, 0, 1, 2, 3, 5, 8, 16, 47, 48, 49, 52, 64, 200}[r.Intn(14)]
	b := make([]byte, n)
	switch r.Intn(3) {
	case 0:
		r.Read(b)
	case 1: // low bytes: many short varints / small tags
		for i := range b {
			b[i] = byte(r.Intn(20))
		}
	default:
		for i := range b {
			b[i] = []byte{0x0a, 0x00, 0x2a, 0x80, 0xff, 0x12, 0x01, 0x0b, 0x0c}[r.Intn(9)]
		}
	}
	return &c12Case{Kind: "bytes", Gen: "random", Bytes: b}
}

// high-rate payloads: 16 type, 16 key, 8 start ns, 4 period ns, float32 samples
func c12GenHr(r *rand.Rand) *c12Case {
	n := []int{40, 43, 44, 47, 48, 49, 51, 52, 56, 60, 84, 85}[r.Intn(12)]
	b := make([]byte, n)
	name := func(off int) {
		s := [][]byte{[]byte("temp"), {}, []byte("\x00lead"), []byte("in\x00side"), []byte("0123456789abcdef"), {0xff, 0xfe}}[r.Intn(6)]
		copy(b[off:off+16], s)
	}
	name(0)
	name(16)
	if n >= 44 {
		start := []uint64{0, 1, 1600000000000000000, 1<<63 - 1, 1 << 63, 1<<64 - 1}[r.Intn(6)]
		for i := 0; i < 8; i++ {
			b[32+i] = byte(start >> (8 * i))
		}
		per := []uint32{0, 1, 1000000, 1<<32 - 1}[r.Intn(4)]
		for i := 0; i < 4; i++ {
			b[40+i] = byte(per >> (8 * i))
		}
		r.Read(b[44:])
		if n >= 48 && r.Intn(2) == 0 {
			v := []uint32{0, 0x80000000, 0x3f800000, 0x7f800000, 0x7fc00000, 0x7f800001, 1, 0x007fffff, 0x00800000}[r.Intn(9)]
			for i := 0; i < 4; i++ {
				b[44+i] = byte(v >> (8 * i))
			}
		}
	}
	return &c12Case{Kind: "bytes", Gen: "hr-payload", Bytes: b}
}

func c12GenSubject(r *rand.Rand) *c12Case {
	subs := []string{"", ".", "..", "...", "p", "p.", "p.id1", "p.id1.", "p.id1.par", "up.a.b", "up.a.b.c", "up.a.b.c.d",
		"a..b", ".x", "p.\xff.q", "p.日本.é", "nodes.root.points", "up.none.8a6e…", "x.y.z.w.v.u"}
	s := []byte(subs[r.Intn(len(subs))])
	if r.Intn(5) == 0 {
		s = make([]byte, r.Intn(12))
		for i := range s {
			s[i] = []byte{'.', '.', 'a', 'b', 0, 0xff}[r.Intn(6)]
		}
	}
	var b []byte
	switch r.Intn(4) {
	case 0:
		b = nil
	case 1:
		b = c12GenMutated(r).Bytes
	default:
		ps := c12ToDataPoints(c12GenPoints(r, false))
		b, _ = ps.ToPb()
	}
	return &c12Case{Kind: "subject", Gen: "subject", Subject: s, Bytes: b}
}

// fixed cases that every run contains
func c12Fixed() []*c12Case {
	one := c12Point{Type: []byte("value"), Key: []byte("0"), Sec: 1700000000, Nsec: 5, Value: 0x4045000000000000,
		Text: []byte("t"), Data: []byte{1, 2, 3}, Tomb: 1, Origin: []byte("o")}
	nd := c12Node{ID: []byte("id"), Type: []byte("device"), Hash: 0x80000001, Parent: []byte("root"),
		Points: []c12Point{one}, Edge: []c12Point{one}}
	return []*c12Case{
		{Kind: "bytes", Gen: "fixed:empty", Bytes: []byte{}},
		{Kind: "points", Gen: "fixed", Points: []c12Point{one}},
		{Kind: "points", Gen: "fixed", Points: []c12Point{}},
		{Kind: "node", Gen: "fixed", Node: &nd},
		{Kind: "nodes", Gen: "fixed", Nodes: []c12Node{nd, nd}},
		{Kind: "nodereq", Gen: "fixed", Node: &nd},
		{Kind: "nodereq", Gen: "fixed:no-node"},
		{Kind: "nodereq", Gen: "fixed:error", ErrStr: []byte("document not found")},
		{Kind: "nodesreq", Gen: "fixed", Nodes: []c12Node{nd}},
		{Kind: "serial", Gen: "fixed", Points: []c12Point{one}},
		{Kind: "bytes", Gen: "fixed:noderequest-error-only", Bytes: []byte{0x12, 0x01, 'e'}},
		{Kind: "bytes", Gen: "fixed:noderequest-unknown-only", Bytes: []byte{0x18, 0x01}},
		{Kind: "subject", Gen: "fixed", Subject: []byte("p.node1"), Bytes: []byte{}},
	}
}

func c12Digest(c *c12Case) string {
	h := sha1.New()
	b, _ := json.Marshal([]any{c.Kind, c.Points, c.Node, c.Nodes, c.ErrStr, c.Bytes, c.Subject})
	h.Write(b)
	return hex.EncodeToString(h.Sum(nil))[:16]
}

func c12CountPoints(c *c12Case) int {
	n := len(c.Points)
	if c.Node != nil {
		n += len(c.Node.Points) + len(c.Node.Edge)
	}
	for _, nd := range c.Nodes {
		n += len(nd.Points) + len(nd.Edge)
	}
	return n
}

func runC12(cfg *config) error {
	log.SetOutput(io.Discard) // client/msg.go logs every decode error
	cs := newCaseSet("c12")
	cs.samples = []any{}
	var cases []*c12Case
	if cfg.replay != "" {
		b, err := os.ReadFile(cfg.replay)
		if err != nil {
			return err
		}
		var rp struct {
			Cases []*c12Case `json:"cases"`
		}
		if err := json.Unmarshal(b, &rp); err != nil {
			return err
		}
		cases = rp.Cases
	} else {
		r := rand.New(rand.NewSource(cfg.seed))
		cases = append(cases, c12Fixed()...)
		nv, nb := 4000*cfg.scale, 16000*cfg.scale
		for i := 0; i < nv; i++ {
			cases = append(cases, c12GenValueCase(r))
		}
		for i := 0; i < nb; i++ {
			switch x := r.Intn(20); {
			case x < 9:
				cases = append(cases, c12GenRaw(r))
			case x < 15:
				cases = append(cases, c12GenMutated(r))
			case x < 17:
				cases = append(cases, c12GenRandomBytes(r))
			case x < 18:
				cases = append(cases, c12GenHr(r))
			default:
				cases = append(cases, c12GenSubject(r))
			}
		}
		// a decoder keeps nothing from one call to the next: values encoded and decoded right after byte strings
		// that a decoder gave up on half-way
		for i := 0; i < nv/5; i++ {
			if r.Intn(2) == 0 {
				cases = append(cases, c12GenMutated(r))
			} else {
				cases = append(cases, c12GenRaw(r))
			}
			cases = append(cases, c12GenValueCase(r))
		}
		if cfg.tier == "thorough" || cfg.search {
			cases = append(cases, c12Exhaustive()...)
		}
	}
	for i, c := range cases {
		c.ID = i
		line := c12Run(c)
		cs.add(line, c)
		cs.count("kind:" + c.Kind)
		cs.count("gen:" + c.Gen)
		for _, n := range c12NoteBuf[c] {
			cs.count(n)
		}
		delete(c12NoteBuf, c)
		for _, o := range c.Obs {
			if o.Fn != "(not run)" {
				cs.count("result:" + o.Fn + ":" + o.Class)
			}
		}
		nontrivial := false
		switch c.Kind {
		case "bytes", "subject":
			// non-trivial: at least 2 input bytes, or some decoder returned a value
			nontrivial = len(c.Bytes) >= 2
		default:
			nontrivial = c12CountPoints(c) > 0
		}
		if nontrivial {
			cs.markNontrivial(c12Digest(c))
		}
		if len(cs.samples) < 3 && (cfg.replay != "" || i == 1 || i == 3 || c.Gen == "raw:points" && len(cs.samples) == 2) {
			cs.samples = append(cs.samples, c)
		}
	}
	return cs.write(cfg.out)
}

// every byte string of length <= 2, and every string of length 3 and 4 over a small alphabet of tag,
// length and continuation bytes
func c12Exhaustive() []*c12Case {
	var out []*c12Case
	add := func(b []byte) {
		out = append(out, &c12Case{Kind: "bytes", Gen: "exhaustive", Bytes: append([]byte{}, b...)})
	}
	add(nil)
	for a := 0; a < 256; a++ {
		add([]byte{byte(a)})
		for b := 0; b < 256; b++ {
			add([]byte{byte(a), byte(b)})
		}
	}
	alpha := []byte{0x00, 0x01, 0x02, 0x0a, 0x0b, 0x0c, 0x12, 0x2a, 0x80, 0xff}
	var rec func(cur []byte, n int)
	rec = func(cur []byte, n int) {
		if n == 0 {
			add(cur)
			return
		}
		for _, x := range alpha {
			rec(append(cur, x), n-1)
		}
	}
	rec(nil, 3)
	rec(nil, 4)
	return out
}
