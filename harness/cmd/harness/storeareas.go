package main

import (
	"encoding/json"
	"fmt"
	"math/rand"
	"os"
)

func init() {
	areas["c01"] = func(cfg *config) error { return runStoreArea(cfg, "c01", 150) }
	areas["c03"] = func(cfg *config) error { return runStoreArea(cfg, "c03", 150) }
	areas["c05"] = func(cfg *config) error { return runStoreArea(cfg, "c05", 150) }
	areas["c06"] = func(cfg *config) error { return runStoreArea(cfg, "c06", 150) }
}

func runStoreArea(cfg *config, flavour string, n int) error {
	cs := newCaseSet(flavour)
	var scripts []*sScript
	if cfg.replay != "" {
		b, err := os.ReadFile(cfg.replay)
		if err != nil {
			return err
		}
		var rp struct {
			Cases []*sScript `json:"cases"`
		}
		if err := json.Unmarshal(b, &rp); err != nil {
			return err
		}
		scripts = rp.Cases
	} else {
		r := rand.New(rand.NewSource(cfg.seed))
		for i := 0; i < n*cfg.scale; i++ {
			scripts = append(scripts, storeGen(r, i, flavour))
		}
	}
	results := storeRunAll(scripts, 8)
	for i, s := range results {
		s.ID = i
		cs.add(s.val(), s)
		cs.count(fmt.Sprintf("ops:%d", (len(s.Ops)/5)*5))
		cs.count(fmt.Sprintf("edges-at-end:%d", func() int {
			if len(s.Steps) == 0 {
				return 0
			}
			return len(s.Steps[len(s.Steps)-1].Dump)
		}()))
		for _, t := range s.Steps {
			cs.count(fmt.Sprintf("reply:%d", t.Reply))
			cs.count("op:" + t.Op.Kind)
			if len(t.Pubs) > 0 {
				cs.count("steps-with-rebroadcast")
			}
		}
		if s.Crashed {
			cs.count("crashed")
		}
		if len(s.Ops) > 3 {
			cs.markNontrivial(s.digest())
		}
		if i < 2 {
			cs.samples = append(cs.samples, map[string]any{"ops": s.Ops})
		}
	}
	return cs.write(cfg.out)
}
