package main

import (
	"encoding/json"
	"fmt"
	"math/rand"
	"os"
)

func init() {
	areas["c01"] = func(cfg *config) error { return runStoreArea(cfg, "c01", 150) }
	areas["c03"] = func(cfg *config) error { return runStoreArea(cfg, "c03", 150) }
	areas["c05"] = func(cfg *config) error { return runStoreArea(cfg, "c05", 150) }
	areas["c06"] = func(cfg *config) error { return runStoreArea(cfg, "c06", 150) }
}

func runStoreArea(cfg *config, flavour string, n int) error {
	cs := newCaseSet(flavour)
	var scripts []*sScript
	if cfg.replay != "" {
		b, err := os.ReadFile(cfg.replay)
		if err != nil {
			return err
		}
		var rp struct {
			Cases []*sScript `json:"cases"`
		}
		if err := json.Unmarshal(b, &rp); err != nil {
			return err
		}
		scripts = rp.Cases
	} else {
		r := rand.New(rand.NewSource(cfg.seed))
		for i := 0; i < n*cfg.scale; i++ {
			scripts = append(scripts, storeGen(r, i, flavour))
		}
	}
	results := storeRunAll(scripts, 8)
	for i, s := range results {
		s.ID = i
		if flavour == "c03" && !s.Crashed {
			s.Key = c03Key(s)
			if s.Key != "" {
				cs.count("key:" + s.Key)
			}
		}
		cs.add(s.val(), s)
		cs.count(fmt.Sprintf("ops:%d", (len(s.Ops)/5)*5))
		for k, n := range scripts[i].Kinds {
			cs.stats["request-kind:"+k] += n
		}
		cs.count(fmt.Sprintf("edges-at-end:%d", func() int {
			if len(s.Steps) == 0 {
				return 0
			}
			return len(s.Steps[len(s.Steps)-1].Dump)
		}()))
		for _, t := range s.Steps {
			cs.count(fmt.Sprintf("reply:%d", t.Reply))
			cs.count("op:" + t.Op.Kind)
			if len(t.Pubs) > 0 {
				cs.count("steps-with-rebroadcast")
			}
		}
		if s.Crashed {
			cs.count("crashed")
		}
		if len(s.Ops) > 3 {
			cs.markNontrivial(s.digest())
		}
		if i < 2 {
			cs.samples = append(cs.samples, map[string]any{"ops": s.Ops})
		}
	}
	return cs.write(cfg.out)
}

// c03Key: "xor-cancel-even-paths" when every ancestor edge whose hash did not change after a
// content-changing accepted write is reached from the written node by an even number of upward
// walks (the XOR Merkle definition itself cancels there); "" otherwise.
func c03Key(s *sScript) string {
	found := false
	before := s.Init
	for _, t := range s.Steps {
		after := t.Dump
		if t.Reply == 0 {
			ok, any := c03StepEven(before, after, t.Op)
			if !ok {
				return ""
			}
			if any {
				found = true
			}
		}
		before = after
	}
	if found {
		return "xor-cancel-even-paths"
	}
	return ""
}

func c03PointsKey(ps []sPoint) string {
	var items []string
	for _, p := range ps {
		items = append(items, fmt.Sprintf("%s|%s|%d|%d|%s", p.Type, p.Key, p.Time, p.VBits, p.Text))
	}
	sortStrings(items)
	return fmt.Sprint(items)
}

// returns (all unchanged ancestors have even path counts, some unchanged ancestor exists)
func c03StepEven(before, after []sView, op sOp) (bool, bool) {
	find := func(vs []sView, up, down string) *sView {
		for i := range vs {
			if vs[i].Up == up && vs[i].Down == down {
				return &vs[i]
			}
		}
		return nil
	}
	// number of upward walks from x to y in the graph after the write
	memo := map[string]int{}
	var paths func(x, y string, depth int) int
	paths = func(x, y string, depth int) int {
		if x == y {
			return 1
		}
		if depth > 40 {
			return 0
		}
		k := x + ">" + y
		if v, ok := memo[k]; ok {
			return v
		}
		n := 0
		for _, v := range after {
			if v.Down == x {
				n += paths(v.Up, y, depth+1)
			}
		}
		memo[k] = n
		return n
	}
	start := op.Node
	changed := false
	if op.Kind == "np" {
		for _, v := range after {
			if v.Down == op.Node {
				if b := find(before, v.Up, v.Down); b != nil && c03PointsKey(b.NPts) != c03PointsKey(v.NPts) {
					changed = true
				}
			}
		}
	} else {
		b, a := find(before, op.Parent, op.Node), find(after, op.Parent, op.Node)
		if b != nil && a != nil && c03PointsKey(b.EPts) != c03PointsKey(a.EPts) {
			changed = true
			start = op.Parent
			if b.Hash == a.Hash {
				return false, true // the written edge itself must change
			}
		}
	}
	if !changed {
		return true, false
	}
	allEven, any := true, false
	for _, v := range after {
		if paths(start, v.Down, 0) == 0 {
			continue
		}
		b := find(before, v.Up, v.Down)
		if b == nil || b.Hash != v.Hash {
			continue
		}
		any = true
		if paths(start, v.Down, 0)%2 != 0 {
			allEven = false
		}
	}
	return allEven, any
}
