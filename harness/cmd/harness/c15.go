package main

// C15 — export followed by import reproduces the tree.
//
// One case = one tree built on a fresh instance A (embedded NATS + store on a
// temp SQLite file) next to a second fresh instance B, and a list of
// experiments run one after the other: client.ExportNodes on A, then
// client.ImportNodes (ids preserved or replaced) onto A or B under some
// parent.  Recorded per experiment: a client.GetNodes walk of the exported
// subtree (deleted children included), the YAML decoded again by the library
// (when it decodes), the identifiers uuid.New() handed out during the import
// (the random source of the uuid package is replaced by a recorded stream for
// the duration of the call), a dump of every edge of the target instance
// before and after, and a client.GetNodes walk of the imported subtree.

import (
	"bufio"
	"crypto/sha1"
	"encoding/hex"
	"encoding/json"
	"fmt"
	"io"
	"log"
	"math"
	"math/rand"
	"os"
	"os/exec"
	"sort"
	"strings"
	"sync"
	"time"

	"github.com/goccy/go-yaml"
	"github.com/google/uuid"
	"github.com/nats-io/nats.go"
	"github.com/simpleiot/simpleiot/client"
	"github.com/simpleiot/simpleiot/data"
)

func init() {
	areas["c15"] = c15Run
	areas["c15-worker"] = c15RunWorker
	areas["c15-list"] = c15List
}

// c15List prints, for every corpus scalar (also with the import marker appended, as a re-export sees it),
// every listed value and every odd id, what the YAML library does with it on its own — the source of
// the C15 lines of known_findings.txt.
func c15List(_ *config) error {
	fmt.Fprintf(os.Stderr, "corpus=%d values=%d odd-ids=%d\n", len(c15Corpus), len(c15RiskyValues), len(c15OddIDs))
	seen := map[string]bool{}
	var rec func(s string, depth int)
	rec = func(s string, depth int) {
		if seen[s] {
			return
		}
		seen[s] = true
		if ok, why := c15ScalarOK(s); !ok {
			fmt.Printf("finding: property=C15 key=yaml-scalar:%s goccy/go-yaml v1.11.2 does not reproduce the scalar %q (%s): an export containing it as id, key, text or description is not imported as it was\n",
				hex.EncodeToString([]byte(s)), s, why)
			return
		}
		if depth < 2 {
			rec(s+" (import)", depth+1)
		}
	}
	for _, s := range c15Corpus {
		rec(s, 0)
	}
	for _, s := range c15OddIDs {
		rec(s, 2)
	}
	for _, v := range c15RiskyValues {
		if ok, why := c15FloatOK(v); !ok {
			fmt.Printf("finding: property=C15 key=yaml-float:%016x goccy/go-yaml v1.11.2 does not reproduce the point value %v (%s): an export containing it is refused by ImportNodes or imported with another value\n",
				math.Float64bits(v), v, why)
		}
	}
	return nil
}

// ---------------------------------------------------------------- case types

type c15NodeSpec struct {
	ID     string   `json:"id"`
	Type   string   `json:"type"`
	Parent string   `json:"parent"`
	Pts    []sPoint `json:"pts"`
	EPts   []sPoint `json:"epts"`           // extra edge points (not tombstone / nodeType)
	Tomb   int      `json:"tomb"`           // 0 live (no explicit write), 1 deleted, 2 deleted and restored, 3 explicit 0
	Inst   string   `json:"inst,omitempty"` // "A" (default) or "B"
}

type c15Mirror struct {
	ID     string `json:"id"`
	Parent string `json:"parent"`
}

type c15ExpSpec struct {
	Preserve bool   `json:"preserve"`
	Target   string `json:"target"` // "A" same instance, "B" the other one
	Parent   string `json:"parent"`
	Origin   string `json:"origin"`
}

// tree as seen through client.GetNodes
type c15Tree struct {
	ID     string     `json:"id"`
	Type   string     `json:"type"`
	Parent string     `json:"parent"`
	Pts    []sPoint   `json:"pts"`
	EPts   []sPoint   `json:"epts"`
	Kids   []*c15Tree `json:"kids"`
}

type c15Verdict struct {
	Kind   string `json:"kind"` // "scalar" or "float"
	Hex    string `json:"hex"`
	Reason string `json:"reason"`
}

type c15ExpObs struct {
	Spec      c15ExpSpec   `json:"spec"`
	SrcParent string       `json:"srcParent"`
	Src       *c15Tree     `json:"src"`
	XErr      int          `json:"xerr"` // export: 0 ok, 1 error, 2 panic
	XErrText  string       `json:"xerrText,omitempty"`
	Yaml      string       `json:"yaml"`
	Exp       *c15Tree     `json:"exp"` // YAML decoded by the library, nil when it does not decode
	Fresh     []string     `json:"fresh"`
	PreRoot   string       `json:"preRoot"`
	Pre       []sView      `json:"pre"`
	IErr      int          `json:"ierr"` // import: 0 ok, 1 error, 2 panic
	IErrText  string       `json:"ierrText,omitempty"`
	PostRoot  string       `json:"postRoot"`
	Post      []sView      `json:"post"`
	Imp       *c15Tree     `json:"imp"`
	Verdicts  []c15Verdict `json:"verdicts"`
}

type c15Case struct {
	ID      int           `json:"id"`
	Kind    string        `json:"kind"`
	Seed    int64         `json:"seed"`
	Top     string        `json:"top"`
	Nodes   []c15NodeSpec `json:"nodes"`
	Mirrors []c15Mirror   `json:"mirrors"`
	MoveTop string        `json:"moveTop,omitempty"` // the top node is moved there after the build: its first, older edge is then a deleted one
	Exps    []c15ExpSpec  `json:"exps"`
	Risky   string        `json:"risky,omitempty"` // hex of the YAML-significant scalar placed in this tree ("" when none)
	RiskyF  string        `json:"riskyF,omitempty"`
	Obs     []c15ExpObs   `json:"obs"`
	Crashed bool          `json:"crashed,omitempty"`
	Key     string        `json:"key"`
}

// ---------------------------------------------------------------- val encoding

func (t *c15Tree) val() string {
	kids := make([]string, len(t.Kids))
	for i, k := range t.Kids {
		kids[i] = k.val()
	}
	return vL(vS(t.ID), vS(t.Type), vS(t.Parent), sPointsVal(t.Pts), sPointsVal(t.EPts), vL(kids...))
}

func c15OptTree(t *c15Tree) string {
	if t == nil {
		return vNone()
	}
	return vSome(t.val())
}

func c15ViewsVal(vs []sView) string {
	items := make([]string, len(vs))
	for i, v := range vs {
		items[i] = v.val()
	}
	return vL(items...)
}

func (o *c15ExpObs) val() string {
	src := vNone()
	if o.Src != nil {
		src = vSome(o.Src.val())
	}
	tgt := 0
	if o.Spec.Target == "B" {
		tgt = 1
	}
	return vL(vBool(o.Spec.Preserve), vI(tgt), vS(o.Spec.Parent), vS(o.Spec.Origin),
		src, vI(o.XErr), c15OptTree(o.Exp), vSL(o.Fresh),
		vS(o.PreRoot), c15ViewsVal(o.Pre), vI(o.IErr), vS(o.PostRoot), c15ViewsVal(o.Post), c15OptTree(o.Imp))
}

func (c *c15Case) val() string {
	items := make([]string, len(c.Obs))
	for i := range c.Obs {
		items[i] = c.Obs[i].val()
	}
	return vL(items...)
}

func (c *c15Case) digest() string {
	b, _ := json.Marshal([]any{c.Nodes, c.Mirrors, c.Exps})
	h := sha1.Sum(b)
	return hex.EncodeToString(h[:8])
}

// ---------------------------------------------------------------- YAML verdicts

type c15OneS struct {
	S string `json:"s"`
}
type c15OneF struct {
	V float64 `json:"value,omitempty"`
}

// does the YAML library reproduce this scalar on its own (one-field struct)?
func c15ScalarOK(s string) (ok bool, why string) {
	defer func() {
		if r := recover(); r != nil {
			ok, why = false, "the library panics"
		}
	}()
	b, err := yaml.Marshal(c15OneS{S: s})
	if err != nil {
		return false, "marshal error"
	}
	var o c15OneS
	if err := yaml.Unmarshal(b, &o); err != nil {
		return false, "unmarshal error"
	}
	if o.S != s {
		return false, fmt.Sprintf("read back as %q", o.S)
	}
	return true, ""
}

func c15FloatOK(v float64) (ok bool, why string) {
	defer func() {
		if r := recover(); r != nil {
			ok, why = false, "the library panics"
		}
	}()
	b, err := yaml.Marshal(c15OneF{V: v})
	if err != nil {
		return false, "marshal error"
	}
	var o c15OneF
	if err := yaml.Unmarshal(b, &o); err != nil {
		return false, fmt.Sprintf("written as %q, unmarshal error", strings.TrimSpace(string(b)))
	}
	if math.Float64bits(o.V) != math.Float64bits(v) {
		return false, fmt.Sprintf("written as %q, read back as %v", strings.TrimSpace(string(b)), o.V)
	}
	return true, ""
}

func c15Deleted(t *c15Tree) bool {
	for _, p := range t.EPts {
		if p.Type == "tombstone" && (p.Key == "0" || p.Key == "") {
			return math.Float64frombits(p.VBits) == 1
		}
	}
	return false
}

// every string and every value that ExportNodes writes for this subtree, tested directly against the library
func c15Verdicts(t *c15Tree) []c15Verdict {
	seenS := map[string]bool{}
	seenF := map[uint64]bool{}
	var out []c15Verdict
	str := func(s string) {
		if seenS[s] {
			return
		}
		seenS[s] = true
		if ok, why := c15ScalarOK(s); !ok {
			out = append(out, c15Verdict{Kind: "scalar", Hex: hex.EncodeToString([]byte(s)), Reason: why})
		}
	}
	flt := func(b uint64) {
		if seenF[b] {
			return
		}
		seenF[b] = true
		if ok, why := c15FloatOK(math.Float64frombits(b)); !ok {
			out = append(out, c15Verdict{Kind: "float", Hex: fmt.Sprintf("%016x", b), Reason: why})
		}
	}
	var rec func(n *c15Tree, top bool)
	rec = func(n *c15Tree, top bool) {
		if !top && c15Deleted(n) {
			return
		}
		str(n.ID)
		str(n.Type)
		str(n.Parent)
		for _, ps := range [][]sPoint{n.Pts, n.EPts} {
			for _, p := range ps {
				str(p.Type)
				if p.Key != "0" {
					str(p.Key)
				}
				str(p.Text)
				str(p.Origin)
				flt(p.VBits)
			}
		}
		for _, k := range n.Kids {
			rec(k, false)
		}
	}
	if t != nil {
		rec(t, true)
	}
	sort.Slice(out, func(i, j int) bool { return out[i].Kind+out[i].Hex < out[j].Kind+out[j].Hex })
	return out
}

func c15KeyOf(vs []c15Verdict) string {
	if len(vs) == 0 {
		return ""
	}
	var ks []string
	for _, v := range vs {
		ks = append(ks, "yaml-"+v.Kind+":"+v.Hex)
	}
	return strings.Join(ks, "+")
}

// ---------------------------------------------------------------- recorded uuid source

type c15Rand struct {
	mu  sync.Mutex
	r   *rand.Rand
	rec []byte
}

func (c *c15Rand) Read(p []byte) (int, error) {
	c.mu.Lock()
	defer c.mu.Unlock()
	for i := range p {
		p[i] = byte(c.r.Intn(256))
	}
	if len(c.rec) < 16*4096 {
		c.rec = append(c.rec, p...)
	}
	return len(p), nil
}

// the first n identifiers uuid.New() produced from the recorded stream
func (c *c15Rand) ids(n int) []string {
	c.mu.Lock()
	defer c.mu.Unlock()
	var out []string
	for i := 0; i < n && 16*(i+1) <= len(c.rec); i++ {
		var u uuid.UUID
		copy(u[:], c.rec[16*i:16*i+16])
		u[6] = (u[6] & 0x0f) | 0x40
		u[8] = (u[8] & 0x3f) | 0x80
		out = append(out, u.String())
	}
	return out
}

// ---------------------------------------------------------------- observing an instance

func c15PointFrom(p data.Point) sPoint {
	q := sPointFrom(p)
	if p.Time.IsZero() {
		q.Time, q.Far = 0, 0
	}
	return q
}

func c15NodeFrom(n data.NodeEdge) *c15Tree {
	t := &c15Tree{ID: n.ID, Type: n.Type, Parent: n.Parent, Pts: []sPoint{}, EPts: []sPoint{}, Kids: []*c15Tree{}}
	for _, p := range n.Points {
		t.Pts = append(t.Pts, c15PointFrom(p))
	}
	for _, p := range n.EdgePoints {
		t.EPts = append(t.EPts, c15PointFrom(p))
	}
	return t
}

func c15WalkKids(nc *nats.Conn, t *c15Tree, depth int) error {
	if depth > 12 {
		return fmt.Errorf("walk too deep at %v", t.ID)
	}
	kids, err := client.GetNodes(nc, t.ID, "all", "", true)
	if err != nil {
		return err
	}
	for _, k := range kids {
		kt := c15NodeFrom(k)
		if err := c15WalkKids(nc, kt, depth+1); err != nil {
			return err
		}
		t.Kids = append(t.Kids, kt)
	}
	return nil
}

// the subtree hanging on the edge parent -> id, deleted children included; nil when there is no such edge
func c15Walk(nc *nats.Conn, parent, id string) (*c15Tree, error) {
	nodes, err := client.GetNodes(nc, "all", id, "", true)
	if err != nil {
		return nil, err
	}
	for _, n := range nodes {
		if n.Parent == parent {
			t := c15NodeFrom(n)
			if err := c15WalkKids(nc, t, 0); err != nil {
				return nil, err
			}
			return t, nil
		}
	}
	return nil, nil
}

type c15Inst struct {
	in  *instance
	nc  *nats.Conn
	ids map[string]bool
}

// every id reachable downward from the known ids (deleted edges included)
func (ci *c15Inst) discover() error {
	roots, err := client.GetNodes(ci.nc, "root", "all", "", true)
	if err != nil {
		return err
	}
	for _, n := range roots {
		ci.ids[n.ID] = true
	}
	todo := make([]string, 0, len(ci.ids))
	for id := range ci.ids {
		todo = append(todo, id)
	}
	sort.Strings(todo)
	done := map[string]bool{}
	for len(todo) > 0 {
		id := todo[0]
		todo = todo[1:]
		if done[id] {
			continue
		}
		done[id] = true
		kids, err := client.GetNodes(ci.nc, id, "all", "", true)
		if err != nil {
			return err
		}
		for _, k := range kids {
			if !ci.ids[k.ID] {
				ci.ids[k.ID] = true
			}
			if !done[k.ID] {
				todo = append(todo, k.ID)
			}
		}
	}
	return nil
}

func (ci *c15Inst) dump() ([]sView, string, error) {
	if err := ci.discover(); err != nil {
		return nil, "", err
	}
	ids := make([]string, 0, len(ci.ids))
	for id := range ci.ids {
		ids = append(ids, id)
	}
	sort.Strings(ids)
	vs, root, err := storeDump(ci.nc, ids)
	for i := range vs {
		if vs[i].EPts == nil {
			vs[i].EPts = []sPoint{}
		}
		if vs[i].NPts == nil {
			vs[i].NPts = []sPoint{}
		}
	}
	return vs, root, err
}

func c15Start(rootID string) (*c15Inst, func(), error) {
	dir, err := os.MkdirTemp("", "verif-c15-")
	if err != nil {
		return nil, nil, err
	}
	in, err := startInstance(dir, rootID)
	if err != nil {
		os.RemoveAll(dir)
		return nil, nil, err
	}
	nc, err := nats.Connect(in.url, nats.Timeout(10*time.Second))
	if err != nil {
		in.stop()
		os.RemoveAll(dir)
		return nil, nil, err
	}
	ci := &c15Inst{in: in, nc: nc, ids: map[string]bool{rootID: true}}
	return ci, func() {
		nc.Close()
		in.stop()
		os.RemoveAll(dir)
	}, nil
}

// ---------------------------------------------------------------- running one case

func c15Build(a, b *c15Inst, c *c15Case) error {
	for _, n := range c.Nodes {
		ci := a
		if n.Inst == "B" {
			ci = b
		}
		ne := data.NodeEdge{ID: n.ID, Type: n.Type, Parent: n.Parent}
		for _, p := range n.Pts {
			q := p.toData()
			q.Time = time.Time{}
			ne.Points = append(ne.Points, q)
		}
		for _, p := range n.EPts {
			q := p.toData()
			q.Time = time.Time{}
			ne.EdgePoints = append(ne.EdgePoints, q)
		}
		if n.Tomb == 3 || len(ne.EdgePoints) > 0 {
			ne.EdgePoints = append(ne.EdgePoints, data.Point{Type: data.PointTypeTombstone})
		}
		if err := client.SendNode(ci.nc, ne, ""); err != nil {
			return fmt.Errorf("building %v: %w", n.ID, err)
		}
		ci.ids[n.ID] = true
	}
	for _, m := range c.Mirrors {
		if err := client.MirrorNode(a.nc, m.ID, m.Parent, ""); err != nil {
			return fmt.Errorf("mirroring %v: %w", m.ID, err)
		}
	}
	if c.MoveTop != "" {
		for _, n := range c.Nodes {
			if n.ID == c.Top {
				if err := client.MirrorNode(a.nc, c.Top, c.MoveTop, ""); err != nil {
					return fmt.Errorf("moving %v: %w", c.Top, err)
				}
				if err := client.DeleteNode(a.nc, c.Top, n.Parent, ""); err != nil {
					return fmt.Errorf("moving %v: %w", c.Top, err)
				}
				break
			}
		}
	}
	for _, n := range c.Nodes {
		ci := a
		if n.Inst == "B" {
			ci = b
		}
		if n.Tomb == 1 || n.Tomb == 2 {
			if err := client.DeleteNode(ci.nc, n.ID, n.Parent, ""); err != nil {
				return fmt.Errorf("deleting %v: %w", n.ID, err)
			}
		}
		if n.Tomb == 2 {
			if err := client.SendEdgePoint(ci.nc, n.ID, n.Parent, data.Point{Type: data.PointTypeTombstone, Value: 2}, true); err != nil {
				return fmt.Errorf("restoring %v: %w", n.ID, err)
			}
		}
	}
	return nil
}

func c15FromNEC(n data.NodeEdgeChildren) *c15Tree {
	t := c15NodeFrom(n.NodeEdge)
	for _, k := range n.Children {
		t.Kids = append(t.Kids, c15FromNEC(k))
	}
	return t
}

func c15Decode(y []byte) (t *c15Tree) {
	defer func() {
		if r := recover(); r != nil {
			t = nil
		}
	}()
	var imp client.SiotExport
	if err := yaml.Unmarshal(y, &imp); err != nil {
		return nil
	}
	if len(imp.Nodes) != 1 {
		return nil
	}
	return c15FromNEC(imp.Nodes[0])
}

// depth below the top, number of deleted children, nodeID references, tombstoned points
func c15Shape(t *c15Tree, d int) (depth, del, refs, tomb int) {
	depth = d
	for _, p := range t.Pts {
		if p.Type == "nodeID" && p.Text != "" {
			refs++
		}
		if p.Tomb != 0 {
			tomb++
		}
	}
	for _, k := range t.Kids {
		if c15Deleted(k) {
			del++
		}
		kd, kdel, kr, kt := c15Shape(k, d+1)
		if kd > depth {
			depth = kd
		}
		del += kdel
		refs += kr
		tomb += kt
	}
	return
}

func c15Count(t *c15Tree) int {
	if t == nil {
		return 0
	}
	n := 1 + len(t.Pts)
	for _, k := range t.Kids {
		n += c15Count(k)
	}
	return n
}

func c15Export(nc *nats.Conn, id string) (y []byte, code int, text string) {
	defer func() {
		if r := recover(); r != nil {
			code, text = 2, fmt.Sprint(r)
		}
	}()
	y, err := client.ExportNodes(nc, id)
	if err != nil {
		return nil, 1, err.Error()
	}
	return y, 0, ""
}

func c15Import(nc *nats.Conn, parent string, y []byte, origin string, preserve bool) (code int, text string) {
	defer func() {
		if r := recover(); r != nil {
			code, text = 2, fmt.Sprint(r)
		}
	}()
	if err := client.ImportNodes(nc, parent, y, origin, preserve); err != nil {
		return 1, err.Error()
	}
	return 0, ""
}

func c15KidIDs(nc *nats.Conn, parent string) (map[string]bool, error) {
	out := map[string]bool{}
	var kids []data.NodeEdge
	var err error
	if parent == "root" {
		kids, err = client.GetNodes(nc, "root", "all", "", true)
	} else {
		kids, err = client.GetNodes(nc, parent, "all", "", true)
	}
	if err != nil {
		return nil, err
	}
	for _, k := range kids {
		out[k.ID] = true
	}
	return out, nil
}

func c15RunCase(c *c15Case) error {
	a, stopA, err := c15Start("rootA")
	if err != nil {
		return err
	}
	defer stopA()
	b, stopB, err := c15Start("rootB")
	if err != nil {
		return err
	}
	defer stopB()
	if err := c15Build(a, b, c); err != nil {
		return err
	}
	c.Obs = nil
	for i, es := range c.Exps {
		o := c15ExpObs{Spec: es, Fresh: []string{}, Pre: []sView{}, Post: []sView{}, Verdicts: []c15Verdict{}}
		tgt := a
		if es.Target == "B" {
			tgt = b
		}
		// the edge ExportNodes starts from: the first live instance of the node
		tops, err := client.GetNodes(a.nc, "all", c.Top, "", false)
		if err != nil {
			return err
		}
		if len(tops) > 0 {
			o.SrcParent = tops[0].Parent
			if o.Src, err = c15Walk(a.nc, o.SrcParent, c.Top); err != nil {
				return err
			}
		}
		o.Verdicts = c15Verdicts(o.Src)
		var y []byte
		y, o.XErr, o.XErrText = c15Export(a.nc, c.Top)
		o.Yaml = string(y)
		if o.XErr == 0 {
			o.Exp = c15Decode(y)
		}
		if o.Pre, o.PreRoot, err = tgt.dump(); err != nil {
			return err
		}
		before, err := c15KidIDs(tgt.nc, es.Parent)
		if err != nil {
			return err
		}
		if o.XErr == 0 {
			rs := &c15Rand{r: rand.New(rand.NewSource(c.Seed*1000003 + int64(i)*7919 + 17))}
			uuid.SetRand(rs)
			o.IErr, o.IErrText = c15Import(tgt.nc, es.Parent, y, es.Origin, es.Preserve)
			uuid.SetRand(nil)
			o.Fresh = rs.ids(c15Count(o.Src) + 4)
			if o.Fresh == nil {
				o.Fresh = []string{}
			}
		} else {
			o.IErr = 1
			o.IErrText = "not imported: export failed"
		}
		if o.Post, o.PostRoot, err = tgt.dump(); err != nil {
			return err
		}
		// the imported top node: the preserved id, or the one new child of the parent
		after, err := c15KidIDs(tgt.nc, es.Parent)
		if err != nil {
			return err
		}
		topID := ""
		if es.Preserve {
			if after[c.Top] {
				topID = c.Top
			}
		} else {
			var fresh []string
			for id := range after {
				if !before[id] {
					fresh = append(fresh, id)
				}
			}
			if len(fresh) == 1 {
				topID = fresh[0]
			}
		}
		if topID != "" {
			if o.Imp, err = c15Walk(tgt.nc, es.Parent, topID); err != nil {
				return err
			}
		}
		c.Obs = append(c.Obs, o)
		if len(o.Verdicts) > 0 {
			// the export carries something the YAML library does not reproduce: whatever is imported from it
			// (possibly onto the source itself) no longer is the tree that was built, so the case ends here
			break
		}
	}
	return nil
}

// ---------------------------------------------------------------- worker processes (uuid.SetRand is process-wide)

func c15RunWorker(_ *config) error {
	log.SetOutput(io.Discard)
	in := bufio.NewReaderSize(os.Stdin, 1<<20)
	out := bufio.NewWriter(os.Stdout)
	dec := json.NewDecoder(in)
	enc := json.NewEncoder(out)
	for {
		var c c15Case
		if err := dec.Decode(&c); err != nil {
			return nil
		}
		if err := c15RunCase(&c); err != nil {
			c.Crashed = true
			c.Key = "harness-error: " + err.Error()
		}
		if err := enc.Encode(&c); err != nil {
			return err
		}
		out.Flush()
	}
}

type c15Worker struct {
	cmd *exec.Cmd
	in  io.WriteCloser
	out *bufio.Reader
}

func c15NewWorker() (*c15Worker, error) {
	exe, err := os.Executable()
	if err != nil {
		return nil, err
	}
	cmd := exec.Command(exe, "c15-worker")
	cmd.Stderr = io.Discard
	in, err := cmd.StdinPipe()
	if err != nil {
		return nil, err
	}
	outp, err := cmd.StdoutPipe()
	if err != nil {
		return nil, err
	}
	if err := cmd.Start(); err != nil {
		return nil, err
	}
	return &c15Worker{cmd: cmd, in: in, out: bufio.NewReaderSize(outp, 1<<20)}, nil
}

func (w *c15Worker) kill() {
	_ = w.in.Close()
	_ = w.cmd.Process.Kill()
	_ = w.cmd.Wait()
}

func (w *c15Worker) run(c *c15Case, timeout time.Duration) (*c15Case, bool) {
	b, _ := json.Marshal(c)
	if _, err := w.in.Write(append(b, '\n')); err != nil {
		return nil, false
	}
	type res struct {
		c  *c15Case
		ok bool
	}
	ch := make(chan res, 1)
	go func() {
		line, err := w.out.ReadBytes('\n')
		if err != nil {
			ch <- res{nil, false}
			return
		}
		var r c15Case
		if err := json.Unmarshal(line, &r); err != nil {
			ch <- res{nil, false}
			return
		}
		ch <- res{&r, true}
	}()
	select {
	case r := <-ch:
		return r.c, r.ok
	case <-time.After(timeout):
		return nil, false
	}
}

func c15Flaky(c *c15Case) bool {
	if c == nil {
		return false
	}
	if c.Crashed && strings.Contains(c.Key, "timeout") {
		return true
	}
	for _, o := range c.Obs {
		if strings.Contains(o.IErrText, "nats: timeout") || strings.Contains(o.XErrText, "nats: timeout") {
			return true
		}
	}
	return false
}

func c15RunAll(cases []*c15Case, workers int) []*c15Case {
	out := make([]*c15Case, len(cases))
	var mu sync.Mutex
	next := 0
	var wg sync.WaitGroup
	for k := 0; k < workers; k++ {
		wg.Add(1)
		go func() {
			defer wg.Done()
			var w *c15Worker
			defer func() {
				if w != nil {
					w.kill()
				}
			}()
			for {
				mu.Lock()
				i := next
				next++
				mu.Unlock()
				if i >= len(cases) {
					return
				}
				var r *c15Case
				ok := false
				for attempt := 0; attempt < 2 && !ok; attempt++ {
					if w == nil {
						var err error
						if w, err = c15NewWorker(); err != nil {
							break
						}
					}
					r, ok = w.run(cases[i], 90*time.Second)
					if !ok {
						w.kill()
						w = nil
					}
				}
				// the client calls under test use 1 s NATS request timeouts; on a loaded machine a request can
				// time out although nothing is wrong: such a run says nothing about the code and is repeated
				for again := 0; ok && again < 3 && c15Flaky(r); again++ {
					time.Sleep(200 * time.Millisecond)
					if r2, ok2 := w.run(cases[i], 90*time.Second); ok2 {
						r = r2
					} else {
						w.kill()
						w = nil
						break
					}
				}
				if !ok {
					cc := *cases[i]
					cc.Crashed = true
					cc.Obs = nil
					cc.Key = "instance-died-or-hung"
					r = &cc
				}
				out[i] = r
			}
		}()
	}
	wg.Wait()
	return out
}

// ---------------------------------------------------------------- generator

// strings that the YAML library reproduces on its own (checked at start-up) — used everywhere by default
var c15SafeWords = []string{"a", "b7", "pump", "Tank_2", "x-y", "kitchen", "n42", "Zone", "relay", "t"}

// YAML-significant corpus; every entry is used as point text, point key and node description
var c15Corpus = []string{
	"- x", "-", "? q", ": c", "#c", "a: b", "a #b", "'", "\"", "a'b", "a\"b", "'a'", "\"a\"",
	"a\r\nb", "a\nb", "a\n", "\na", "a\tb", "a\tb: c", "\ta", "a\t", "\t", "a\r", "\r",
	".inf", ".Inf", ".INF", "-.inf", ".nan", ".NaN", ".NAN", "0x10", "0o7", "1e3", "1_000", "007", "+1", "1.", ".5",
	"true", "false", "yes", "no", "on", "off", "y", "n", "~", "null", "Null", "NULL", "2001-01-01", "<<", "=",
	" a", "a ", "  a  ", " ", "a  b",
	"\u0085", "a\u0085b", "\ufeff", "\ufeffa", "a\ufeff", "\u00a0", "\u2028", "\u2029",
	"日本語", "温度 25度", "\U0001F600", "a\U0001F600b", "éè", "\u0000x", "a\u0001b", "\u001b[0m", "a\u007fb",
	"", "{a}", "[a]", "{", "}", "[", "]", "a, b", ",", "!!str a", "!t", "&a b", "&a", "*a", "| a", "|", "> a", ">", "%a", "@a", "`a",
	"\\", "a\\nb", "a\\", "\\t", "--- a", "---", "...", "a:", "a:b", "?", "? ", "- ", "x: \"y\"", "key: [1, 2]",
	"\t|", "\t>", "\t-", "? (import)", "?  (import)", "-  (import)",
	// further families found by enumerating short strings over YAML-significant tokens (one representative each)
	"a\x00: ", "a\x7f: ", "a  \n", "\n a", "\n -", "\"\n\n: ", "\u0085: 0x", "\u00a0: - ", "\ufeff: : ", "\u2028:  #",
	// multi-line text as a file node holds it: indented first line, nested indentation, blank lines, trailing newlines
	"  server:\n    port: 8080\n", " a\nb", "  x\n  y", " a\n", "a\n b\n", "a\n\nb", "a\n\n", "\n\na", " \n", "a\n  b\n c\n", "\ta\nb", "a:\n  - b\n  - c\n",
}

// values: the library writes them through %g-like formatting
var c15SafeValues = []float64{0, 1, 2, 5, 10, 21.5, -3, 0.25, 100, 1234.5, 99999, -0.5, 3.141592653589793, 123456.789, 1.5e6, 12345678.9}
var c15RiskyValues = []float64{1e6, 2e6, 1e7, 1e15, 1e21, -1e21, 1e300, 1e-5, 5e-324, math.Inf(1), math.Inf(-1),
	float64(int64(1) << 53), 1.7976931348623157e308, 2.5e-7, 0.0001, 4294967296, 1e5, 123456789012}

var c15NodeTypes = []string{"group", "variable", "device", "rule", "condition", "action", "modbusIo", "user"}
var c15PointTypes = []string{"value", "units", "ab", "name", "min", "phone"}
var c15Keys = []string{"", "0", "1", "2", "10", "k", "name", "a.b"}
var c15Origins = []string{"", "", "", "o1", "user-x"}

// node ids: NATS subject tokens without quotes; some look like YAML non-strings
var c15OddIDs = []string{"true", "0x10", "007", "1e3", "-", "~", "null", "yes", "n", "#id", "a:b", "&a", "!t", "{", "[x]", "1_000", "+1", "|", "%a", "@a", "`a", "-x", "?"}

type c15Gen struct {
	r     *rand.Rand
	c     *c15Case
	n     int
	risky *string
	riskF *float64
	oddID *string
	used  bool
	twin  string          // an id waiting for its twin: the same letters in the other case
	twins bool            // this tree has had its pair of such ids
	dead  map[string]bool // deleted, or below a deleted node
	kids  map[string][]string
	par   map[string][]string
}

func (g *c15Gen) word() string {
	w := c15SafeWords[g.r.Intn(len(c15SafeWords))]
	if g.r.Intn(3) == 0 {
		w += " " + c15SafeWords[g.r.Intn(len(c15SafeWords))]
	}
	return w
}

func (g *c15Gen) value() float64 {
	if g.riskF != nil && (g.r.Intn(6) == 0 || !g.used) {
		g.used = true
		return *g.riskF
	}
	return c15SafeValues[g.r.Intn(len(c15SafeValues))]
}

// text for a position that may carry the risky scalar
func (g *c15Gen) text(p int) string {
	if g.risky != nil && g.r.Intn(p) == 0 {
		g.used = true
		return *g.risky
	}
	if g.r.Intn(5) == 0 {
		return ""
	}
	return g.word()
}

func (g *c15Gen) point(typ, key string) sPoint {
	p := sPoint{Type: typ, Key: key, VBits: math.Float64bits(g.value())}
	if g.r.Intn(2) == 0 {
		p.Text = g.text(6)
	}
	if g.r.Intn(8) == 0 {
		p.Tomb = 1 + g.r.Intn(2)
	}
	if g.r.Intn(10) == 0 {
		p.Data = []byte{byte(g.r.Intn(256)), 0, byte(g.r.Intn(256))}
	}
	p.Origin = c15Origins[g.r.Intn(len(c15Origins))]
	return p
}

func (g *c15Gen) node(parent string, depth, maxDepth int, deletedAbove bool) string {
	g.n++
	id := fmt.Sprintf("n%d-%d", g.c.ID, g.n)
	if g.oddID != nil && !g.used && (depth == maxDepth || g.c.Kind == "probe" || g.r.Intn(3) == 0) {
		id = *g.oddID
		g.used = true
	} else if g.twin != "" {
		// the second of two ids that differ only in the case of a letter: two nodes all the same
		id, g.twin = g.twin, ""
	} else if g.c.Kind != "probe" && !g.twins && g.r.Intn(5) == 0 {
		g.twin, g.twins = id, true
		id = strings.ToUpper(id[:1]) + id[1:]
	}
	ns := c15NodeSpec{ID: id, Type: c15NodeTypes[g.r.Intn(len(c15NodeTypes))], Parent: parent, Pts: []sPoint{}, EPts: []sPoint{}}
	// a tag unique in the tree, so that children can be told apart whatever their order
	ns.Pts = append(ns.Pts, sPoint{Type: "tag", Key: "", Text: fmt.Sprintf("tag%d", g.n)})
	if g.r.Intn(4) != 0 {
		d := sPoint{Type: "description", Key: "", Text: g.text(5)}
		if g.r.Intn(2) == 0 {
			d.Key = "0"
		}
		ns.Pts = append(ns.Pts, d)
	}
	if g.r.Intn(6) == 0 {
		ns.Pts = append(ns.Pts, sPoint{Type: "description", Key: []string{"1", "k"}[g.r.Intn(2)], Text: g.word()})
	}
	seen := map[string]bool{}
	for k := g.r.Intn(5); k > 0; k-- {
		typ := c15PointTypes[g.r.Intn(len(c15PointTypes))]
		key := c15Keys[g.r.Intn(len(c15Keys))]
		if g.risky != nil && g.r.Intn(8) == 0 {
			key = *g.risky
			g.used = true
		}
		nk := key
		if nk == "" {
			nk = "0"
		}
		if seen[typ+"\x00"+nk] {
			continue
		}
		seen[typ+"\x00"+nk] = true
		ns.Pts = append(ns.Pts, g.point(typ, key))
	}
	if g.r.Intn(5) == 0 {
		// an array: keys 0..n, some entries tombstoned
		for i := 0; i < 2+g.r.Intn(3); i++ {
			key := fmt.Sprint(i)
			if seen["arr\x00"+key] {
				continue
			}
			seen["arr\x00"+key] = true
			p := g.point("arr", key)
			ns.Pts = append(ns.Pts, p)
		}
	}
	if g.r.Intn(6) == 0 {
		ns.EPts = append(ns.EPts, sPoint{Type: "role", Key: "", Text: g.word(), VBits: math.Float64bits(g.value())})
	}
	if g.r.Intn(10) == 0 {
		ns.EPts = append(ns.EPts, sPoint{Type: "sort", Key: []string{"", "0", "1", "k"}[g.r.Intn(4)], VBits: math.Float64bits(float64(g.r.Intn(9)))})
	}
	if depth > 0 {
		switch g.r.Intn(9) {
		case 0, 1:
			ns.Tomb = 1
		case 2:
			ns.Tomb = 2
		case 3:
			ns.Tomb = 3
		}
	}
	if deletedAbove || ns.Tomb == 1 {
		g.dead[id] = true
	}
	g.c.Nodes = append(g.c.Nodes, ns)
	g.kids[parent] = append(g.kids[parent], id)
	g.par[id] = append(g.par[id], parent)
	if depth < maxDepth {
		fan := g.r.Intn(5)
		if depth == 0 && fan == 0 {
			fan = 1 + g.r.Intn(3)
		}
		if depth >= 2 && fan > 2 {
			fan = g.r.Intn(3)
		}
		if depth == 0 && g.c.Kind != "probe" && g.r.Intn(8) == 0 {
			fan = 9 + g.r.Intn(5) // a node with a dozen children, which have children of their own
		}
		// a probe carries its scalar on the top node only, so that it is certainly exported
		keepS, keepF, keepI := g.risky, g.riskF, g.oddID
		if g.c.Kind == "probe" {
			g.risky, g.riskF, g.oddID = nil, nil, nil
		}
		for i := 0; i < fan; i++ {
			g.node(id, depth+1, maxDepth, deletedAbove || ns.Tomb == 1)
		}
		g.risky, g.riskF, g.oddID = keepS, keepF, keepI
	}
	return id
}

func (g *c15Gen) inSubtree(root, x string, depth int) bool {
	if root == x {
		return true
	}
	if depth > 20 {
		return false
	}
	for _, k := range g.kids[root] {
		if g.inSubtree(k, x, depth+1) {
			return true
		}
	}
	return false
}

func c15GenCase(r *rand.Rand, id int, kind string, risky *string, riskF *float64, oddID *string) *c15Case {
	c := &c15Case{ID: id, Kind: kind, Seed: r.Int63n(1 << 40), Nodes: []c15NodeSpec{}, Mirrors: []c15Mirror{}, Exps: []c15ExpSpec{}}
	g := &c15Gen{r: r, c: c, risky: risky, riskF: riskF, oddID: oddID, kids: map[string][]string{}, par: map[string][]string{}, dead: map[string]bool{}}
	if oddID != nil {
		c.Risky = hex.EncodeToString([]byte(*oddID))
	}
	if risky != nil {
		c.Risky = hex.EncodeToString([]byte(*risky))
	}
	if riskF != nil {
		c.RiskyF = fmt.Sprintf("%016x", math.Float64bits(*riskF))
	}
	// scaffolding: groups to attach to and to import under
	for _, s := range []c15NodeSpec{
		{ID: "gA1", Type: "group", Parent: "rootA"}, {ID: "gA2", Type: "group", Parent: "rootA"}, {ID: "gA3", Type: "group", Parent: "gA2"},
		{ID: "gB1", Type: "group", Parent: "rootB", Inst: "B"}, {ID: "gB2", Type: "group", Parent: "gB1", Inst: "B"}} {
		s.Pts = []sPoint{{Type: "description", Text: "scaffold " + s.ID}}
		s.EPts = []sPoint{}
		c.Nodes = append(c.Nodes, s)
	}
	home := []string{"gA1", "rootA", "gA3"}[r.Intn(3)]
	maxDepth := 3
	if kind == "probe" {
		maxDepth = 1
	} else {
		switch r.Intn(6) {
		case 0:
			maxDepth = 0
		case 1:
			maxDepth = 1
		case 2:
			maxDepth = 2
		}
	}
	c.Top = g.node(home, 0, maxDepth, false)
	// make sure the risky item is really in the live part: put it on the top node
	for i := range c.Nodes {
		if c.Nodes[i].ID != c.Top {
			continue
		}
		if risky != nil && !g.used {
			switch r.Intn(3) {
			case 0:
				c.Nodes[i].Pts = append(c.Nodes[i].Pts, sPoint{Type: "note", Key: "", Text: *risky})
			case 1:
				c.Nodes[i].Pts = append(c.Nodes[i].Pts, sPoint{Type: "note", Key: *risky, Text: "v"})
			default:
				found := false
				for j := range c.Nodes[i].Pts {
					if c.Nodes[i].Pts[j].Type == "description" {
						c.Nodes[i].Pts[j].Text = *risky
						found = true
					}
				}
				if !found {
					c.Nodes[i].Pts = append(c.Nodes[i].Pts, sPoint{Type: "description", Key: "", Text: *risky})
				}
			}
			g.used = true
		}
		if riskF != nil && !g.used {
			c.Nodes[i].Pts = append(c.Nodes[i].Pts, sPoint{Type: "scale", Key: "", VBits: math.Float64bits(*riskF)})
			g.used = true
		}
	}
	// nodes of the tree (not scaffolding)
	var tree []string
	for _, n := range c.Nodes {
		if g.inSubtree(c.Top, n.ID, 0) {
			tree = append(tree, n.ID)
		}
	}
	// cross-references through nodeID points: into the tree, to scaffolding, dangling
	if kind != "probe" {
		for i := range c.Nodes {
			if !g.inSubtree(c.Top, c.Nodes[i].ID, 0) || r.Intn(3) != 0 {
				continue
			}
			var ref string
			switch r.Intn(6) {
			case 0:
				ref = "gA2"
			case 1:
				ref = "no-such-node"
			case 2:
				ref = ""
			default:
				ref = tree[r.Intn(len(tree))]
			}
			key := []string{"", "0", "1", "src"}[r.Intn(4)]
			dup := false
			for _, p := range c.Nodes[i].Pts {
				if p.Type == "nodeID" && storeNormKey(p.Key) == storeNormKey(key) {
					dup = true
				}
			}
			if !dup {
				c.Nodes[i].Pts = append(c.Nodes[i].Pts, sPoint{Type: "nodeID", Key: key, Text: ref})
			}
		}
		// ordinary points whose text happens to be the id of a node of the tree (ids are free text: "pump1"); only
		// nodeID points are references, every other text is kept as it is
		for i := range c.Nodes {
			if !g.inSubtree(c.Top, c.Nodes[i].ID, 0) || r.Intn(5) != 0 {
				continue
			}
			typ, key := []string{"units", "tag", "phone"}[r.Intn(3)], []string{"", "id", "k"}[r.Intn(3)]
			dup := false
			for _, p := range c.Nodes[i].Pts {
				if p.Type == typ && storeNormKey(p.Key) == storeNormKey(key) {
					dup = true
				}
			}
			if !dup {
				c.Nodes[i].Pts = append(c.Nodes[i].Pts, sPoint{Type: typ, Key: key, Text: tree[r.Intn(len(tree))]})
			}
		}
		// mirrors inside the tree, and of the top node outside it
		for k := r.Intn(3); k > 0 && len(tree) > 2; k-- {
			x := tree[1+r.Intn(len(tree)-1)]
			p := tree[r.Intn(len(tree))]
			if x == p || g.inSubtree(x, p, 0) {
				continue
			}
			dup := false
			for _, q := range g.par[x] {
				if q == p {
					dup = true
				}
			}
			if dup {
				continue
			}
			c.Mirrors = append(c.Mirrors, c15Mirror{ID: x, Parent: p})
			g.par[x] = append(g.par[x], p)
			g.kids[p] = append(g.kids[p], x)
		}
		if r.Intn(8) == 0 && home != "gA2" {
			c.Mirrors = append(c.Mirrors, c15Mirror{ID: c.Top, Parent: "gA2"})
		} else if r.Intn(6) == 0 && home != "gA2" {
			c.MoveTop = "gA2" // a node that was moved: the export starts from its live edge, not from the older deleted one
		}
	}
	// experiments
	origin := func() string { return []string{"", "", "imp", "user-x"}[r.Intn(4)] }
	add := func(p bool, tgt, parent string) {
		c.Exps = append(c.Exps, c15ExpSpec{Preserve: p, Target: tgt, Parent: parent, Origin: origin()})
	}
	if kind == "probe" {
		add(r.Intn(2) == 0, "B", "gB1")
		return c
	}
	first := r.Intn(2) == 0
	add(first, "B", []string{"gB1", "gB2", "rootB"}[r.Intn(3)])
	add(!first, "B", []string{"gB1", "gB2", "rootB"}[r.Intn(3)])
	if r.Intn(2) == 0 {
		add(false, "A", []string{"gA2", "gA3", "rootA", home}[r.Intn(4)])
	} else {
		var live []string
		for _, x := range tree {
			if !g.dead[x] {
				live = append(live, x)
			}
		}
		add(false, "A", live[r.Intn(len(live))]) // a copy inside the exported subtree itself
	}
	// where the top node lives now; importing with the same ids under a parent that still holds an older, deleted
	// edge of the node would merge with that edge's own points, which is not what the property is about
	place := home
	if c.MoveTop != "" {
		place = c.MoveTop
	}
	switch r.Intn(3) {
	case 0:
		add(true, "A", place) // onto itself
	case 1:
		if place != "gA2" {
			add(true, "A", "gA2") // same ids under another parent: a mirror
		}
	}
	if r.Intn(4) == 0 {
		add(r.Intn(2) == 0, "B", "root") // replaces the root node of B
	}
	return c
}

// ---------------------------------------------------------------- area entry point

func c15Run(cfg *config) error {
	cs := newCaseSet("c15")
	for _, w := range c15SafeWords {
		if ok, why := c15ScalarOK(w); !ok {
			return fmt.Errorf("safe word %q is not safe: %s", w, why)
		}
	}
	for _, v := range c15SafeValues {
		if ok, why := c15FloatOK(v); !ok {
			return fmt.Errorf("safe value %v is not safe: %s", v, why)
		}
	}
	var cases []*c15Case
	if cfg.replay != "" {
		b, err := os.ReadFile(cfg.replay)
		if err != nil {
			return err
		}
		var rp struct {
			Cases []*c15Case `json:"cases"`
		}
		if err := json.Unmarshal(b, &rp); err != nil {
			return err
		}
		cases = rp.Cases
	} else {
		r := rand.New(rand.NewSource(cfg.seed))
		id := 0
		// (1) every corpus scalar and every listed value once, in a small tree
		for i := range c15Corpus {
			s := c15Corpus[i]
			cases = append(cases, c15GenCase(r, id, "probe", &s, nil, nil))
			id++
		}
		for i := range c15RiskyValues {
			v := c15RiskyValues[i]
			cases = append(cases, c15GenCase(r, id, "probe", nil, &v, nil))
			id++
		}
		for i := range c15OddIDs {
			s := c15OddIDs[i]
			cases = append(cases, c15GenCase(r, id, "probe", nil, nil, &s))
			id++
		}
		// (2) random trees: half of them from the safe alphabet only
		for i := 0; i < 110*cfg.scale; i++ {
			switch r.Intn(10) {
			case 0, 1, 2:
				s := c15Corpus[r.Intn(len(c15Corpus))]
				cases = append(cases, c15GenCase(r, id, "tree-corpus", &s, nil, nil))
			case 3:
				v := c15RiskyValues[r.Intn(len(c15RiskyValues))]
				cases = append(cases, c15GenCase(r, id, "tree-value", nil, &v, nil))
			case 4:
				s := c15OddIDs[r.Intn(len(c15OddIDs))]
				cases = append(cases, c15GenCase(r, id, "tree-id", nil, nil, &s))
			default:
				cases = append(cases, c15GenCase(r, id, "tree-safe", nil, nil, nil))
			}
			id++
		}
		// (3) one very long text
		long := strings.Repeat("long word ", 60)
		cases = append(cases, c15GenCase(r, id, "probe", &long, nil, nil))
		id++
		// (4) one very wide node: 1000 children, each with points of its own (a listing of that many nodes in one answer;
		// more ids than one SQL statement took host parameters in older SQLite builds)
		// two of them: with exactly 1000 child edges below the top node, and with exactly 1000 living children
		for variant := 0; variant < 2; variant++ {
			wide := c15GenCase(r, id, "probe", nil, nil, nil)
			wide.Kind = "tree-wide"
			have := 0
			for _, ns := range wide.Nodes {
				if ns.Parent == wide.Top && (variant == 0 || ns.Tomb != 1) {
					have++
				}
			}
			for _, m := range wide.Mirrors {
				if m.Parent == wide.Top {
					have++
				}
			}
			nw := 1000 - have
			for k := 0; k < nw; k++ {
				wide.Nodes = append(wide.Nodes, c15NodeSpec{ID: fmt.Sprintf("w%d-%d", id, k), Type: "variable", Parent: wide.Top,
					Pts: []sPoint{{Type: "description", Text: fmt.Sprintf("child %d", k)}, {Type: "value", VBits: math.Float64bits(float64(k))}}, EPts: []sPoint{}})
			}
			// ... and some of the children, early and late ones in the listing, have children of their own
			for _, k := range []int{0, 1, 2, 3, 5, 7, 8, 9, 100, nw - 1} {
				for j := 0; j < 2; j++ {
					wide.Nodes = append(wide.Nodes, c15NodeSpec{ID: fmt.Sprintf("w%d-%d-%d", id, k, j), Type: "variable", Parent: fmt.Sprintf("w%d-%d", id, k),
						Pts: []sPoint{{Type: "description", Text: fmt.Sprintf("grandchild %d.%d", k, j)}}, EPts: []sPoint{}})
				}
			}
			cases = append(cases, wide)
			id++
		}
	}
	results := c15RunAll(cases, 6)
	for i, c := range results {
		c.ID = i
		if !c.Crashed {
			// the key names what the YAML library does not reproduce in this tree (tested directly, scalar by scalar)
			keys := map[string]bool{}
			for _, o := range c.Obs {
				if k := c15KeyOf(o.Verdicts); k != "" {
					keys[k] = true
				}
			}
			var ks []string
			for k := range keys {
				ks = append(ks, k)
			}
			sort.Strings(ks)
			c.Key = strings.Join(ks, "+")
		}
		cs.add(c.val(), c)
		cs.count("kind:" + c.Kind)
		if c.Crashed {
			cs.count("crashed")
		}
		if c.Key != "" {
			cs.count("library-does-not-reproduce-a-scalar")
		}
		nodes := 0
		for _, o := range c.Obs {
			mode := "new-ids"
			if o.Spec.Preserve {
				mode = "preserve"
			}
			where := "other-instance"
			if o.Spec.Target == "A" {
				where = "same-instance"
			}
			cs.count("experiment:" + mode + ":" + where)
			if o.Spec.Parent == "root" {
				cs.count("experiment:replaces-root")
			}
			cs.count(fmt.Sprintf("import-result:%d", o.IErr))
			if n := c15Count(o.Src); n > nodes {
				nodes = n
			}
		}
		if len(c.Obs) > 0 && c.Obs[0].Src != nil {
			depth, del, refs, tombPts := c15Shape(c.Obs[0].Src, 0)
			cs.count(fmt.Sprintf("depth:%d", depth))
			cs.count(fmt.Sprintf("fan-out-of-top:%d", len(c.Obs[0].Src.Kids)))
			if del > 0 {
				cs.count("with-deleted-children")
			}
			if refs > 0 {
				cs.count("with-nodeID-references")
			}
			if tombPts > 0 {
				cs.count("with-tombstoned-points")
			}
		}
		cs.count(fmt.Sprintf("mirrors:%d", len(c.Mirrors)))
		if c.MoveTop != "" {
			cs.count("top-moved")
		}
		cs.count(fmt.Sprintf("tree-size(nodes+points):%d", (nodes/10)*10))
		if len(c.Obs) > 0 && c.Obs[0].Src != nil && len(c.Obs[0].Src.Kids) > 0 {
			cs.markNontrivial(c.digest())
		}
		if len(cs.samples) < 2 && c.Kind != "probe" {
			cs.samples = append(cs.samples, map[string]any{"top": c.Top, "nodes": c.Nodes, "mirrors": c.Mirrors, "experiments": c.Exps})
		}
	}
	return cs.write(cfg.out)
}
