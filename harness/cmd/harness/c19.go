package main

// C19: a real modbus.Client talking to a real modbus.Server.Listen over an
// in-memory duplex that delivers whole packets (RTU framing over a pipe-like
// io.ReadWriteCloser, TCP framing over net.Pipe), with the frames observed and
// optionally damaged on the wire; plus the conversions of data.go, the exported
// RespReadBits, and Transport.Encode/Decode on arbitrary inputs.

import (
	"crypto/sha1"
	"encoding/hex"
	"encoding/json"
	"errors"
	"fmt"
	"io"
	"log"
	"math"
	"math/rand"
	"net"
	"os"
	"sync"
	"sync/atomic"
	"time"

	"github.com/simpleiot/simpleiot/modbus"
)

func init() { areas["c19"] = c19Main }

// ---------------------------------------------------------------- cases

type c19Reg struct {
	Addr int `json:"addr"`
	Val  int `json:"val"`
	Kind int `json:"kind"`
	K    int `json:"k"`
}

// damage done to one packet on the wire
type c19Mangle struct {
	Dir  int `json:"dir"`  // 0 none, 1 request, 2 response
	Kind int `json:"kind"` // 1 drop, 2 xor burst, 3 truncate, 4 transaction id, 5 TCP payload byte
	Off  int `json:"off"`
	Mask int `json:"mask"`
	Len  int `json:"len"`
}

type c19Op struct {
	// 0 ReadCoils 1 ReadDiscreteInputs 2 ReadHoldingRegs 3 ReadInputRegs 4 WriteSingleCoil 5 WriteSingleReg
	// 6 a raw frame handed to the server by the harness (Raw), bypassing the client
	// 7 the application adds register Addr to the server's map while it is serving (Regs.AddReg)
	Op   int       `json:"op"`
	ID   int       `json:"unit"`
	Addr int       `json:"addr"`
	Arg  int       `json:"arg"`
	Raw  []byte    `json:"raw,omitempty"`
	M    c19Mangle `json:"mangle"`
	// observed
	ReqSent       []byte `json:"req_sent"`
	ReqDeliv      []byte `json:"req_deliv"`
	ReqDelivered  bool   `json:"req_delivered"`
	RespSent      []byte `json:"resp_sent"`
	RespWritten   bool   `json:"resp_written"`
	RespDeliv     []byte `json:"resp_deliv"`
	RespDelivered bool   `json:"resp_delivered"`
	Class         int    `json:"class"` // 0 values, 1 error, 2 panic
	Values        []int  `json:"values"`
	Err           string `json:"err,omitempty"`
}

type c19Case struct {
	ID   int    `json:"id"`
	Kind string `json:"kind"` // session, conv, bits, codec
	Key  string `json:"key"`
	// session
	TCP         bool     `json:"tcp,omitempty"`
	SID         int      `json:"sid,omitempty"`
	Regs        []c19Reg `json:"regs,omitempty"`
	Warm        int      `json:"warm,omitempty"`
	Ops         []*c19Op `json:"ops,omitempty"`
	After       []int    `json:"after,omitempty"`
	ServerPanic string   `json:"server_panic,omitempty"`
	// conv
	Fam      int     `json:"fam,omitempty"`
	Swap     bool    `json:"swap,omitempty"`
	Vals     []int64 `json:"vals,omitempty"`
	Regs1    []int   `json:"regs1,omitempty"`
	Back     []int64 `json:"back,omitempty"`
	Regs2    []int   `json:"regs2,omitempty"`
	Vals2    []int64 `json:"vals2,omitempty"`
	RegsBack []int   `json:"regs_back,omitempty"`
	// bits / codec
	FC     int    `json:"fc,omitempty"`
	Data   []byte `json:"data,omitempty"`
	Class  int    `json:"class,omitempty"`
	Values []int  `json:"values,omitempty"`
	Role   int    `json:"role,omitempty"` // 0 client, 1 server
	Tx     int    `json:"tx,omitempty"`
	Enc    bool   `json:"enc,omitempty"`
	Unit   int    `json:"unit,omitempty"`
	Packet []byte `json:"packet,omitempty"`
}

// ---------------------------------------------------------------- the wire

var c19ErrTimeout = errors.New("c19: no response")

type c19Pkt struct {
	seq  int
	data []byte
}

type c19Link struct {
	seq       int64 // sequence number of the current client call
	inflight  bool
	toServer  chan c19Pkt
	toClient  chan c19Pkt
	idle      chan int // the server is back in Read after handling packet seq
	dead      chan struct{}
	deadOnce  sync.Once
	closed    chan struct{}
	closeOnce sync.Once
	busy      int // server side: seq being handled
	respLen   int64
	reqLen    int64
	mangle    c19Mangle
	op        *c19Op
	panicMsg  string
}

func c19NewLink() *c19Link {
	return &c19Link{
		toServer: make(chan c19Pkt, 4), toClient: make(chan c19Pkt, 4), idle: make(chan int, 64),
		dead: make(chan struct{}), closed: make(chan struct{}),
	}
}

func (m c19Mangle) c19Apply(dir int, p []byte) ([]byte, bool) {
	q := append([]byte{}, p...)
	if m.Dir != dir || len(q) == 0 {
		return q, true
	}
	switch m.Kind {
	case 1:
		return nil, false
	case 2:
		i := m.Off % len(q)
		q[i] ^= byte(m.Mask >> 8)
		if i+1 < len(q) {
			q[i+1] ^= byte(m.Mask)
		} else if byte(m.Mask>>8) == 0 {
			q[i] ^= byte(m.Mask)
		}
	case 3:
		n := m.Len
		if n > len(q) {
			n = len(q)
		}
		q = q[:n]
	case 4:
		if len(q) >= 2 {
			q[0] ^= byte(m.Mask >> 8)
			q[1] ^= byte(m.Mask)
		}
	case 5:
		if len(q) > 8 {
			q[8+m.Off%(len(q)-8)] ^= byte(m.Mask | 1)
		}
	}
	return q, true
}

func (l *c19Link) c19ClientWrite(p []byte, deliver func(c19Pkt)) {
	// signals left over from earlier calls are stale by now
	for drained := false; !drained; {
		select {
		case <-l.idle:
		default:
			drained = true
		}
	}
	seq := atomic.AddInt64(&l.seq, 1)
	l.op.ReqSent = append([]byte{}, p...)
	select {
	case <-l.dead:
		l.inflight = false
		return
	default:
	}
	q, ok := l.mangle.c19Apply(1, p)
	if !ok {
		l.inflight = false
		return
	}
	l.op.ReqDeliv, l.op.ReqDelivered = q, true
	l.inflight = true
	atomic.StoreInt64(&l.reqLen, int64(len(q)))
	deliver(c19Pkt{int(seq), q})
}

func (l *c19Link) c19ServerBeforeRead() {
	if l.busy != 0 {
		s := l.busy
		l.busy = 0
		l.idle <- s
	}
}

func (l *c19Link) c19ServerWrite(p []byte, deliver func(c19Pkt)) {
	l.op.RespSent, l.op.RespWritten = append([]byte{}, p...), true
	q, ok := l.mangle.c19Apply(2, p)
	if !ok {
		return
	}
	l.op.RespDeliv, l.op.RespDelivered = q, true
	atomic.StoreInt64(&l.respLen, int64(len(q)))
	deliver(c19Pkt{l.busy, q})
}

func (l *c19Link) c19Die(msg string) {
	l.deadOnce.Do(func() { l.panicMsg = msg; close(l.dead) })
}

// RTU: a pipe-like io.ReadWriteCloser per side; every Read returns one whole packet
type c19RtuEnd struct {
	l      *c19Link
	server bool
}

func (e *c19RtuEnd) Write(p []byte) (int, error) {
	l := e.l
	if e.server {
		l.c19ServerWrite(p, func(k c19Pkt) { l.toClient <- k })
	} else {
		l.c19ClientWrite(p, func(k c19Pkt) { l.toServer <- k })
	}
	return len(p), nil
}

func (e *c19RtuEnd) Read(b []byte) (int, error) {
	l := e.l
	if e.server {
		l.c19ServerBeforeRead()
		select {
		case k := <-l.toServer:
			l.busy = k.seq
			return copy(b, k.data), nil
		case <-l.closed:
			return 0, io.EOF
		}
	}
	if !l.inflight {
		return 0, c19ErrTimeout
	}
	cur := int(atomic.LoadInt64(&l.seq))
	guard := time.After(10 * time.Second)
	for {
		select {
		case k := <-l.toClient:
			if k.seq != cur {
				continue
			}
			return copy(b, k.data), nil
		case s := <-l.idle:
			if s != cur {
				continue
			}
			select {
			case k := <-l.toClient:
				if k.seq == cur {
					return copy(b, k.data), nil
				}
			default:
			}
			return 0, c19ErrTimeout
		case <-l.dead:
			return 0, c19ErrTimeout
		case <-guard:
			return 0, errors.New("c19: harness stuck")
		}
	}
}

func (e *c19RtuEnd) Close() error {
	e.l.closeOnce.Do(func() { close(e.l.closed) })
	return nil
}

// TCP: net.Conn wrappers around the two ends of a net.Pipe
type c19Conn struct {
	l      *c19Link
	server bool
	inner  net.Conn
}

func (c *c19Conn) Write(p []byte) (int, error) {
	l := c.l
	send := func(k c19Pkt) {
		_ = c.inner.SetWriteDeadline(time.Now().Add(5 * time.Second))
		_, _ = c.inner.Write(k.data)
	}
	if c.server {
		l.c19ServerWrite(p, send)
	} else {
		l.c19ClientWrite(p, send)
	}
	return len(p), nil
}

func (c *c19Conn) Read(b []byte) (int, error) {
	l := c.l
	if c.server {
		l.c19ServerBeforeRead()
		n, err := c.inner.Read(b)
		if err == nil {
			l.busy = int(atomic.LoadInt64(&l.seq))
			c.c19Drain(n, int(atomic.LoadInt64(&l.reqLen)))
		}
		return n, err
	}
	if !l.inflight {
		return 0, c19ErrTimeout
	}
	cur := int(atomic.LoadInt64(&l.seq))
	_ = c.inner.SetReadDeadline(time.Now().Add(10 * time.Second))
	done := make(chan struct{})
	exited := make(chan struct{})
	go func() {
		defer close(exited)
		for {
			select {
			case s := <-l.idle:
				if s == cur {
					_ = c.inner.SetReadDeadline(time.Unix(1, 0))
					return
				}
			case <-l.dead:
				_ = c.inner.SetReadDeadline(time.Unix(1, 0))
				return
			case <-done:
				return
			}
		}
	}()
	n, err := c.inner.Read(b)
	close(done)
	<-exited
	if err != nil {
		return 0, c19ErrTimeout
	}
	c.c19Drain(n, int(atomic.LoadInt64(&l.respLen)))
	return n, nil
}

// whole-packet delivery: what does not fit the caller's buffer is dropped
func (c *c19Conn) c19Drain(got, total int) {
	if got >= total {
		return
	}
	scratch := make([]byte, 512)
	for got < total {
		_ = c.inner.SetReadDeadline(time.Now().Add(2 * time.Second))
		m, e := c.inner.Read(scratch)
		if e != nil {
			break
		}
		got += m
	}
	_ = c.inner.SetReadDeadline(time.Time{})
}

func (c *c19Conn) Close() error                     { return c.inner.Close() }
func (c *c19Conn) LocalAddr() net.Addr              { return c.inner.LocalAddr() }
func (c *c19Conn) RemoteAddr() net.Addr             { return c.inner.RemoteAddr() }
func (c *c19Conn) SetDeadline(time.Time) error      { return nil }
func (c *c19Conn) SetReadDeadline(time.Time) error  { return nil }
func (c *c19Conn) SetWriteDeadline(time.Time) error { return nil }

// ---------------------------------------------------------------- running a session

func c19Validator(kind, k int) func(uint16) bool {
	switch kind {
	case 1:
		return func(v uint16) bool { return int(v) < k }
	case 2:
		return func(v uint16) bool { return v%2 == 0 }
	case 3:
		return func(uint16) bool { return false }
	}
	return nil
}

func c19Build(rs []c19Reg) *modbus.Regs {
	regs := &modbus.Regs{}
	// the registers are added in the order of the list; where the next one is the next address the first is added
	// on its own and then once more as part of a range of two (as an application with a 16-bit and a 32-bit value at
	// one address does): the map is the same list either way
	a0 := 0
	if len(rs) > 0 {
		a0 = rs[0].Addr
	}
	for _, i := range declOrder(len(rs), a0) {
		regs.AddReg(rs[i].Addr, 1)
		if i+1 < len(rs) && rs[i+1].Addr == rs[i].Addr+1 && (rs[i].Addr+len(rs))%2 == 0 {
			regs.AddReg(rs[i].Addr, 2)
		}
	}
	for _, r := range rs {
		_ = regs.WriteReg(r.Addr, uint16(r.Val))
	}
	for _, r := range rs {
		if v := c19Validator(r.Kind, r.K); v != nil {
			_ = regs.AddRegValueValidator(r.Addr, v)
		} else if r.Addr%3 == 1 {
			// a validator that was installed and lifted again (set to nil): the register takes any value
			_ = regs.AddRegValueValidator(r.Addr, func(uint16) bool { return false })
			_ = regs.AddRegValueValidator(r.Addr, nil)
		}
	}
	return regs
}

func c19Call(cl *modbus.Client, o *c19Op) {
	o.Class, o.Values, o.Err = 0, []int{}, ""
	defer func() {
		if r := recover(); r != nil {
			o.Class, o.Err = 2, fmt.Sprint(r)
		}
	}()
	var err error
	switch o.Op {
	case 0, 1:
		var bits []bool
		if o.Op == 0 {
			bits, err = cl.ReadCoils(byte(o.ID), uint16(o.Addr), uint16(o.Arg))
		} else {
			bits, err = cl.ReadDiscreteInputs(byte(o.ID), uint16(o.Addr), uint16(o.Arg))
		}
		for _, b := range bits {
			if b {
				o.Values = append(o.Values, 1)
			} else {
				o.Values = append(o.Values, 0)
			}
		}
	case 2, 3:
		var vs []uint16
		if o.Op == 2 {
			vs, err = cl.ReadHoldingRegs(byte(o.ID), uint16(o.Addr), uint16(o.Arg))
		} else {
			vs, err = cl.ReadInputRegs(byte(o.ID), uint16(o.Addr), uint16(o.Arg))
		}
		for _, v := range vs {
			o.Values = append(o.Values, int(v))
		}
	case 4:
		err = cl.WriteSingleCoil(byte(o.ID), uint16(o.Addr), o.Arg != 0)
	default:
		err = cl.WriteSingleReg(byte(o.ID), uint16(o.Addr), uint16(o.Arg))
	}
	if err != nil {
		o.Class, o.Values, o.Err = 1, []int{}, err.Error()
	}
}

// c19RawCall writes a frame of the harness's own making to the server and waits for the answer
func c19RawCall(ct modbus.Transport, o *c19Op) {
	o.Class, o.Values, o.Err = 0, []int{}, ""
	_, _ = ct.Write(append([]byte{}, o.Raw...))
	buf := make([]byte, 600)
	if _, err := ct.Read(buf); err != nil {
		o.Class, o.Err = 1, err.Error()
	}
}

func c19RunSession(c *c19Case) {
	regs := c19Build(c.Regs)
	l := c19NewLink()
	var ct, st modbus.Transport
	if c.TCP {
		a, b := net.Pipe()
		ct = modbus.NewTCP(&c19Conn{l, false, a}, time.Hour, modbus.TransportClient)
		st = modbus.NewTCP(&c19Conn{l, true, b}, time.Hour, modbus.TransportServer)
	} else {
		c.Warm = 0
		ct = modbus.NewRTU(&c19RtuEnd{l, false})
		st = modbus.NewRTU(&c19RtuEnd{l, true})
	}
	srv := modbus.NewServer(byte(c.SID), st, regs, 0)
	go func() {
		defer func() {
			if r := recover(); r != nil {
				l.c19Die(fmt.Sprint(r))
			}
		}()
		srv.Listen(func(error) {}, func() {}, func() {})
	}()
	cl := modbus.NewClient(ct, 0)
	// warm-up exchanges advance the TCP transaction id
	warm := &c19Op{Op: 2, ID: c.SID, Addr: 0, Arg: 1}
	for i := 0; i < c.Warm; i++ {
		l.mangle, l.op = c19Mangle{}, warm
		c19Call(cl, warm)
	}
	addrs := make([]int, 0, len(c.Regs)) // the registers of the map, in the order they were added
	for _, r := range c.Regs {
		addrs = append(addrs, r.Addr)
	}
	for _, o := range c.Ops {
		o.ReqSent, o.ReqDeliv, o.RespSent, o.RespDeliv = nil, nil, nil, nil
		o.ReqDelivered, o.RespWritten, o.RespDelivered = false, false, false
		l.mangle, l.op = o.M, o
		if o.Op == 6 {
			l.mangle = c19Mangle{}
			c19RawCall(ct, o)
			continue
		}
		if o.Op == 7 {
			o.Class, o.Values, o.Err = 0, []int{}, ""
			regs.AddReg(o.Addr, 1)
			known := false
			for _, a := range addrs {
				known = known || a == o.Addr
			}
			if !known {
				addrs = append(addrs, o.Addr)
			}
			continue
		}
		c19Call(cl, o)
	}
	select {
	case <-l.dead:
		c.ServerPanic = l.panicMsg
	default:
	}
	c.After = make([]int, len(addrs))
	for i, a := range addrs {
		v, err := regs.ReadReg(a)
		c.After[i] = int(v)
		if err != nil {
			c.After[i] = 0xfffff
		}
	}
	go func() {
		_ = cl.Close()
		_ = srv.Close()
	}()
}

// ---------------------------------------------------------------- val encoding

func c19OptB(set bool, b []byte) string {
	if !set {
		return vNone()
	}
	return vSome(vB(b))
}

func c19Ints(xs []int) string {
	items := make([]string, len(xs))
	for i, x := range xs {
		items[i] = vI(x)
	}
	return vL(items...)
}

func c19Int64s(xs []int64, signed bool) string {
	items := make([]string, len(xs))
	for i, x := range xs {
		if signed {
			items[i] = vZ(x)
		} else {
			items[i] = vN(uint64(x))
		}
	}
	return vL(items...)
}

func c19Val(c *c19Case) string {
	switch c.Kind {
	case "session":
		rs := make([]string, len(c.Regs))
		for i, r := range c.Regs {
			rs[i] = vL(vI(r.Addr), vI(r.Val), vI(r.Kind), vI(r.K))
		}
		ops := make([]string, len(c.Ops))
		for i, o := range c.Ops {
			ops[i] = vL(vI(o.Op), vI(o.ID), vI(o.Addr), vI(o.Arg), vB(o.ReqSent),
				c19OptB(o.ReqDelivered, o.ReqDeliv), c19OptB(o.RespWritten, o.RespSent),
				c19OptB(o.RespDelivered, o.RespDeliv), vI(o.Class), c19Ints(o.Values))
		}
		t := 0
		if c.TCP {
			t = 1
		}
		return vL("0", vI(t), vI(c.SID), vL(rs...), vI(c.Warm), vL(ops...), c19Ints(c.After))
	case "conv":
		signed := c.Fam == 1 || c.Fam == 4
		return vL("1", vI(c.Fam), vBool(c.Swap), c19Int64s(c.Vals, signed), c19Ints(c.Regs1), c19Int64s(c.Back, signed),
			c19Ints(c.Regs2), c19Int64s(c.Vals2, signed), c19Ints(c.RegsBack))
	case "bits":
		return vL("2", vI(c.FC), vB(c.Data), vI(c.Class), c19Ints(c.Values))
	default: // codec
		t := 0
		if c.TCP {
			t = 1
		}
		return vL("3", vI(t), vI(c.Role), vI(c.Tx), vBool(c.Enc), vI(c.Unit), vI(c.FC), vB(c.Data), vB(c.Packet), vI(c.Class))
	}
}

// ---------------------------------------------------------------- conversions

func c19U16s(xs []int) []uint16 {
	out := make([]uint16, len(xs))
	for i, x := range xs {
		out[i] = uint16(x)
	}
	return out
}

func c19FromU16s(xs []uint16) []int {
	out := make([]int, len(xs))
	for i, x := range xs {
		out[i] = int(x)
	}
	return out
}

func c19RunConv(c *c19Case) {
	regs2 := c19U16s(c.Regs2)
	switch c.Fam {
	case 0:
		vals := make([]uint32, len(c.Vals))
		for i, v := range c.Vals {
			vals[i] = uint32(v)
		}
		to, from := modbus.Uint32ToRegs, modbus.RegsToUint32
		if c.Swap {
			to, from = modbus.Uint32ToRegsSwapRegs, modbus.RegsToUint32SwapWords
		}
		r1 := to(vals)
		c.Regs1 = c19FromU16s(r1)
		c.Back = nil
		_ = from(r1) // the registers are read twice: a conversion leaves its input alone
		for _, v := range from(r1) {
			c.Back = append(c.Back, int64(v))
		}
		_ = from(regs2)
		v2 := from(regs2)
		c.Vals2 = nil
		for _, v := range v2 {
			c.Vals2 = append(c.Vals2, int64(v))
		}
		c.RegsBack = c19FromU16s(to(v2))
	case 1:
		vals := make([]int32, len(c.Vals))
		for i, v := range c.Vals {
			vals[i] = int32(v)
		}
		to, from := modbus.Int32ToRegs, modbus.RegsToInt32
		if c.Swap {
			to, from = modbus.Int32ToRegsSwapWords, modbus.RegsToInt32SwapWords
		}
		r1 := to(vals)
		c.Regs1 = c19FromU16s(r1)
		c.Back = nil
		_ = from(r1) // the registers are read twice: a conversion leaves its input alone
		for _, v := range from(r1) {
			c.Back = append(c.Back, int64(v))
		}
		_ = from(regs2)
		v2 := from(regs2)
		c.Vals2 = nil
		for _, v := range v2 {
			c.Vals2 = append(c.Vals2, int64(v))
		}
		c.RegsBack = c19FromU16s(to(v2))
	case 2: // float32, carried as bit patterns
		vals := make([]float32, len(c.Vals))
		for i, v := range c.Vals {
			vals[i] = math.Float32frombits(uint32(v))
		}
		to, from := modbus.Float32ToRegs, modbus.RegsToFloat32
		if c.Swap {
			to, from = modbus.Float32ToRegsSwapWords, modbus.RegsToFloat32SwapWords
		}
		r1 := to(vals)
		c.Regs1 = c19FromU16s(r1)
		c.Back = nil
		_ = from(r1) // the registers are read twice: a conversion leaves its input alone
		for _, v := range from(r1) {
			c.Back = append(c.Back, int64(math.Float32bits(v)))
		}
		_ = from(regs2)
		v2 := from(regs2)
		c.Vals2 = nil
		for _, v := range v2 {
			c.Vals2 = append(c.Vals2, int64(math.Float32bits(v)))
		}
		c.RegsBack = c19FromU16s(to(v2))
	case 3: // PutUint16Array / Uint16Array: "regs" are bytes here
		vals := make([]uint16, len(c.Vals))
		for i, v := range c.Vals {
			vals[i] = uint16(v)
		}
		b1 := modbus.PutUint16Array(vals...)
		c.Regs1 = nil
		for _, b := range b1 {
			c.Regs1 = append(c.Regs1, int(b))
		}
		c.Back = nil
		for _, v := range modbus.Uint16Array(b1) {
			c.Back = append(c.Back, int64(v))
		}
		b2 := make([]byte, len(c.Regs2))
		for i, v := range c.Regs2 {
			b2[i] = byte(v)
		}
		v2 := modbus.Uint16Array(b2)
		c.Vals2 = nil
		for _, v := range v2 {
			c.Vals2 = append(c.Vals2, int64(v))
		}
		c.RegsBack = nil
		for _, b := range modbus.PutUint16Array(v2...) {
			c.RegsBack = append(c.RegsBack, int(b))
		}
	default: // RegsToInt16
		c.Vals, c.Regs1, c.Back, c.RegsBack = nil, nil, nil, nil
		c.Vals2 = nil
		for _, v := range modbus.RegsToInt16(regs2) {
			c.Vals2 = append(c.Vals2, int64(v))
		}
	}
	if c.Regs1 == nil {
		c.Regs1 = []int{}
	}
	if c.RegsBack == nil {
		c.RegsBack = []int{}
	}
}

// ---------------------------------------------------------------- exported RespReadBits, Encode / Decode

func c19RunBits(c *c19Case) {
	c.Class, c.Values = 0, []int{}
	defer func() {
		if r := recover(); r != nil {
			c.Class, c.Values = 2, []int{}
		}
	}()
	p := modbus.PDU{FunctionCode: modbus.FunctionCode(c.FC), Data: append([]byte{}, c.Data...)}
	bits, err := p.RespReadBits()
	if err != nil {
		c.Class = 1
		return
	}
	for _, b := range bits {
		if b {
			c.Values = append(c.Values, 1)
		} else {
			c.Values = append(c.Values, 0)
		}
	}
}

// c19Transport returns a transport whose TCP transaction id is c.Tx: a client gets
// there by encoding, a server by decoding a frame that carries it
func c19Transport(c *c19Case) modbus.Transport {
	if !c.TCP {
		return modbus.NewRTU(nil)
	}
	if c.Role == 0 {
		t := modbus.NewTCP(nil, 0, modbus.TransportClient)
		for i := 0; i < c.Tx; i++ {
			_, _ = t.Encode(0, modbus.PDU{})
		}
		return t
	}
	t := modbus.NewTCP(nil, 0, modbus.TransportServer)
	_, _, _ = t.Decode([]byte{byte(c.Tx >> 8), byte(c.Tx), 0, 0, 0, 3, 1, 1, 0})
	return t
}

func c19RunCodec(c *c19Case) {
	t := c19Transport(c)
	c.Class = 0
	defer func() {
		if r := recover(); r != nil {
			c.Class = 2
		}
	}()
	if c.Enc {
		pkt, err := t.Encode(byte(c.Unit), modbus.PDU{FunctionCode: modbus.FunctionCode(c.FC), Data: append([]byte{}, c.Data...)})
		if err != nil {
			c.Class = 1
			return
		}
		c.Packet = pkt
		return
	}
	id, pdu, err := t.Decode(append([]byte{}, c.Packet...))
	if err != nil {
		c.Class, c.Unit, c.FC, c.Data = 1, 0, 0, []byte{}
		return
	}
	c.Unit, c.FC, c.Data = int(id), int(pdu.FunctionCode), append([]byte{}, pdu.Data...)
}

// reference CRC-16/MODBUS for building well-formed RTU frames in the generator
func c19Crc(b []byte) uint16 {
	crc := uint16(0xffff)
	for _, x := range b {
		for k := 0; k < 8; k++ {
			bit := uint16(x>>k) & 1
			fb := (crc & 1) ^ bit
			crc >>= 1
			if fb != 0 {
				crc ^= 0xa001
			}
		}
	}
	return crc
}

func c19Run(c *c19Case) {
	switch c.Kind {
	case "session":
		c19RunSession(c)
	case "conv":
		c19RunConv(c)
	case "bits":
		c19RunBits(c)
	default:
		c19RunCodec(c)
	}
}

// ---------------------------------------------------------------- generators

func c19Value(r *rand.Rand) int {
	switch r.Intn(6) {
	case 0:
		return 0
	case 1:
		return 0xffff
	case 2:
		return []int{1, 0x8000, 0x7fff, 0xff00, 0x00ff, 0x5555, 0xaaaa}[r.Intn(7)]
	}
	return r.Intn(65536)
}

// register file: one or two blocks (large enough for maximal reads now and then), or a few scattered registers
func c19Map(r *rand.Rand) ([]c19Reg, [][2]int) {
	var rs []c19Reg
	var blks [][2]int
	seen := map[int]bool{}
	vp := []int{0, 0, 0, 40, 4}[r.Intn(5)]
	add := func(a int) {
		a &= 0xffff
		if seen[a] {
			return
		}
		seen[a] = true
		reg := c19Reg{Addr: a, Val: c19Value(r)}
		if vp > 0 && r.Intn(vp) == 0 {
			reg.Kind = 1 + r.Intn(3)
			reg.K = []int{0, 1, 2, 100, 256, 0x8000, 0xffff}[r.Intn(7)]
		}
		rs = append(rs, reg)
	}
	if r.Intn(8) == 0 {
		n := r.Intn(5)
		for i := 0; i < n; i++ {
			add([]int{0, 1, 4095, 4096, 65535, r.Intn(65536)}[r.Intn(6)])
		}
		return rs, nil
	}
	blocks := 1 + r.Intn(2)
	for b := 0; b < blocks; b++ {
		start := []int{0, 0, 1, 8, 100, 3970, 4000, 4095, 65400, 65535}[r.Intn(10)]
		if r.Intn(4) == 0 {
			start = r.Intn(65536)
		}
		n := []int{1, 2, 3, 8, 17, 64, 125, 126, 127, 130}[r.Intn(10)]
		if start+n > 65536 {
			start = 65536 - n
		}
		for i := 0; i < n; i++ {
			add(start + i)
		}
		blks = append(blks, [2]int{start, n})
	}
	return rs, blks
}

var c19CoilCounts = []int{1, 2, 7, 8, 9, 12, 15, 16, 17, 24, 31, 32, 33, 63, 64, 65, 1000, 1991, 1992, 1993, 1999, 2000}
var c19RegCounts = []int{1, 2, 3, 10, 62, 63, 97, 98, 99, 100, 123, 124, 125}
var c19BadCoilCounts = []int{0, 2001, 2008, 2033, 2041, 4096, 32768, 65535}
var c19BadRegCounts = []int{0, 126, 127, 128, 255, 256, 32768, 65535}

func c19Ops(r *rand.Rand, c *c19Case, blks [][2]int) {
	n := 1 + r.Intn(5)
	for i := 0; i < n; i++ {
		o := &c19Op{Op: []int{0, 0, 1, 2, 2, 3, 4, 5}[r.Intn(8)], ID: c.SID}
		if r.Intn(20) == 0 {
			o.ID = []int{0, 1, 255, (c.SID + 1) & 0xff, r.Intn(256)}[r.Intn(5)]
		}
		unit := 1
		if o.Op == 0 || o.Op == 1 || o.Op == 4 {
			unit = 16
		}
		lo, size := 0, 0
		if len(blks) > 0 {
			b := blks[r.Intn(len(blks))]
			lo, size = b[0]*unit, b[1]*unit
		}
		switch o.Op {
		case 0, 1, 2, 3:
			table, bad, limit := c19CoilCounts, c19BadCoilCounts, 2000
			if unit == 1 {
				table, bad, limit = c19RegCounts, c19BadRegCounts, 125
			}
			q := table[r.Intn(len(table))]
			switch r.Intn(4) {
			case 0:
				q = 1 + r.Intn(limit)
			case 1:
				q = 1 + r.Intn(40)
			}
			off := 0
			if size > 0 {
				switch r.Intn(3) {
				case 0:
					off = r.Intn(size)
				case 1:
					off = r.Intn(17)
				}
				if r.Intn(5) != 0 && off+q > size { // mostly stay on the block
					if off >= size {
						off = 0
					}
					if q > size-off {
						q = size - off
					}
				}
			}
			if r.Intn(15) == 0 {
				q = bad[r.Intn(len(bad))]
			}
			o.Addr, o.Arg = lo+off, q
			if size == 0 || r.Intn(25) == 0 {
				o.Addr = []int{0, 15, 16, 65535, 65534, r.Intn(65536)}[r.Intn(6)]
			}
		case 4:
			o.Addr, o.Arg = lo, r.Intn(2)
			if size > 0 {
				o.Addr = lo + r.Intn(size)
			}
			if r.Intn(12) == 0 {
				o.Addr = r.Intn(65536)
			}
		default:
			o.Addr, o.Arg = lo, c19Value(r)
			if size > 0 {
				o.Addr = lo + r.Intn(size)
			}
			if r.Intn(12) == 0 {
				o.Addr = r.Intn(65536)
			}
		}
		if o.Addr > 65535 {
			o.Addr = 65535
		}
		// a write followed by a read of what was written
		if i > 0 && r.Intn(3) == 0 {
			p := c.Ops[i-1]
			if p.Op == 4 {
				o.Op, o.Addr, o.Arg = r.Intn(2), p.Addr-r.Intn(3), 1+r.Intn(9)
			} else if p.Op == 5 {
				o.Op, o.Addr, o.Arg = 2+r.Intn(2), p.Addr-r.Intn(2), 1+r.Intn(3)
			}
			if o.Addr < 0 {
				o.Addr = 0
			}
		}
		if r.Intn(7) == 0 {
			o.M = c19GenMangle(r, c.TCP)
		}
		if c.TCP && o.Op >= 4 && r.Intn(5) == 0 { // a damaged acknowledgement that no checksum protects
			o.M = c19Mangle{Dir: 2, Kind: 5, Off: r.Intn(300), Mask: r.Intn(256)}
		}
		if r.Intn(9) == 0 {
			o = c19RawOp(r, c, blks)
		}
		c.Ops = append(c.Ops, o)
	}
}

// c19Frame wraps a PDU into a frame for the given transport (txid only for TCP)
func c19Frame(tcp bool, txid, unit, fc int, data []byte) []byte {
	body := append([]byte{byte(unit), byte(fc)}, data...)
	if tcp {
		n := len(data) + 2
		return append([]byte{byte(txid >> 8), byte(txid), 0, 0, byte(n >> 8), byte(n)}, body...)
	}
	crc := c19Crc(body)
	return append(body, byte(crc), byte(crc>>8))
}

// c19RawOp: a request frame for the server, up to the largest frame the protocol allows
func c19RawOp(r *rand.Rand, c *c19Case, blks [][2]int) *c19Op {
	o := &c19Op{Op: 6, ID: c.SID}
	if r.Intn(12) == 0 {
		o.ID = (c.SID + 1 + r.Intn(3)) & 0xff
	}
	lo, size := 0, 0
	if len(blks) > 0 {
		b := blks[r.Intn(len(blks))]
		lo, size = b[0], b[1]
	}
	u16 := func(v int) []byte { return []byte{byte(v >> 8), byte(v)} }
	var fc int
	var data []byte
	switch r.Intn(6) {
	case 0, 1: // Write Multiple Registers, up to 123
		q := []int{1, 2, 3, 100, 121, 122, 123, 123, 124}[r.Intn(9)]
		if size > 0 && q > size && r.Intn(3) != 0 {
			q = size
			if q > 123 {
				q = 123
			}
		}
		fc = 16
		data = append(append(u16(lo), u16(q)...), byte(2*q))
		for i := 0; i < q; i++ {
			data = append(data, u16(c19Value(r))...)
		}
	case 2, 3: // Write Multiple Coils, up to 1968
		q := []int{1, 7, 8, 9, 16, 17, 1960, 1961, 1967, 1968, 1968, 1969}[r.Intn(12)]
		if size > 0 && q > size*16 && r.Intn(3) != 0 {
			q = size * 16
			if q > 1968 {
				q = 1968
			}
		}
		fc = 15
		off := r.Intn(17)
		if size*16 < q+off {
			off = 0
		}
		data = append(append(u16(lo*16+off), u16(q)...), byte((q+7)/8))
		payload := make([]byte, (q+7)/8)
		r.Read(payload)
		data = append(data, payload...)
	case 4: // maximal reads
		fc = []int{1, 2, 3, 4}[r.Intn(4)]
		q := 125
		a := lo
		if fc <= 2 {
			q, a = 2000, lo*16
		}
		data = append(u16(a), u16(q)...)
	default:
		fc = []int{0, 5, 6, 7, 22, 23, 24, 43, 0x83, r.Intn(256)}[r.Intn(10)]
		data = make([]byte, r.Intn(12))
		r.Read(data)
	}
	if len(data) > 252 {
		data = data[:252]
	}
	o.Raw = c19Frame(c.TCP, r.Intn(65536), o.ID, fc, data)
	if !c.TCP && r.Intn(15) == 0 {
		o.Raw[r.Intn(len(o.Raw))] ^= byte(1 << uint(r.Intn(8))) // bad CRC: no answer
	}
	return o
}

// sessions whose frames have the largest size the protocol allows, for every read call and both transports
func c19GenMaxFrames(r *rand.Rand, tcp bool) *c19Case {
	c := &c19Case{Kind: "session", TCP: tcp, SID: 1 + r.Intn(247)}
	start := []int{0, 1, 100, 3970}[r.Intn(4)]
	for i := 0; i < 127; i++ {
		c.Regs = append(c.Regs, c19Reg{Addr: start + i, Val: c19Value(r)})
	}
	blks := [][2]int{{start, 127}}
	for op := 0; op < 4; op++ {
		q, a := 2000-r.Intn(3)*8+r.Intn(2)*0, start*16+r.Intn(17)
		if op >= 2 {
			q, a = 125-r.Intn(2), start+r.Intn(2)
		}
		c.Ops = append(c.Ops, &c19Op{Op: op, ID: c.SID, Addr: a, Arg: q})
	}
	c.Ops = append(c.Ops, c19RawOp(r, c, blks), c19RawOp(r, c, blks))
	c.Ops = append(c.Ops, &c19Op{Op: 2, ID: c.SID, Addr: start, Arg: 125})
	return c
}

func c19GenMangle(r *rand.Rand, tcp bool) c19Mangle {
	m := c19Mangle{Dir: 1 + r.Intn(2)}
	if tcp {
		switch r.Intn(5) {
		case 0:
			m.Kind = 1
		case 1:
			m.Kind, m.Len = 3, r.Intn(9)
		case 2, 3:
			m.Kind, m.Mask = 4, 1+r.Intn(65535)
		default:
			m.Kind, m.Off, m.Mask = 5, r.Intn(300), r.Intn(256)
			if m.Dir == 1 {
				m.Kind, m.Mask = 4, 1+r.Intn(65535) // damaged request payloads are not predictable by the specification
			}
		}
		return m
	}
	switch r.Intn(4) {
	case 0:
		m.Kind = 1
	case 1:
		m.Kind, m.Len = 3, r.Intn(4)
	default:
		m.Kind, m.Off = 2, r.Intn(300)
		switch r.Intn(3) {
		case 0:
			m.Mask = (1 << uint(r.Intn(8))) << 8 // one bit
		case 1:
			m.Mask = (1 + r.Intn(255)) << 8 // one byte
		default:
			m.Mask = 1 + r.Intn(65535) // burst of up to 16 bits
		}
	}
	return m
}

func c19GenSession(r *rand.Rand) *c19Case {
	c := &c19Case{Kind: "session", TCP: r.Intn(2) == 0}
	c.SID = []int{1, 1, 2, 17, 247, 255, 0, 1 + r.Intn(247)}[r.Intn(8)]
	var blks [][2]int
	c.Regs, blks = c19Map(r)
	if c.TCP {
		c.Warm = []int{0, 0, 1, 2, 254, 255, 256}[r.Intn(7)]
	}
	c19Ops(r, c, blks)
	return c
}

// a register map that grows while the server is in use: a register is read, the application adds registers
// (enough for the map's storage to move), the client writes the first register, touches another one and reads
// the first one back
func c19GenGrow(r *rand.Rand) *c19Case {
	c := &c19Case{Kind: "session", TCP: r.Intn(2) == 0, SID: 1}
	n := 1 + r.Intn(4)
	for i := 0; i < n; i++ {
		c.Regs = append(c.Regs, c19Reg{Addr: i, Val: r.Intn(65536)})
	}
	first := r.Intn(n)
	c.Ops = append(c.Ops, &c19Op{Op: 2 + r.Intn(2), ID: 1, Addr: first, Arg: 1})
	for k := 0; k < 2+r.Intn(8); k++ {
		c.Ops = append(c.Ops, &c19Op{Op: 7, Addr: 100 + k})
	}
	if r.Intn(2) == 0 {
		c.Ops = append(c.Ops, &c19Op{Op: 5, ID: 1, Addr: first, Arg: r.Intn(65536)})
	} else {
		c.Ops = append(c.Ops, &c19Op{Op: 4, ID: 1, Addr: first*16 + r.Intn(16), Arg: r.Intn(2)})
	}
	c.Ops = append(c.Ops, &c19Op{Op: 2, ID: 1, Addr: 100 + r.Intn(2), Arg: 1}, &c19Op{Op: 2, ID: 1, Addr: first, Arg: 1},
		&c19Op{Op: 0, ID: 1, Addr: first * 16, Arg: 16})
	return c
}

// transaction id wrap: 65534.. exchanges before the calls of the case
func c19GenWrap(r *rand.Rand, warm int) *c19Case {
	c := &c19Case{Kind: "session", TCP: true, SID: 1, Warm: warm}
	c.Regs = []c19Reg{{Addr: 0, Val: 0x1234}, {Addr: 1, Val: 0xabcd}}
	c.Ops = []*c19Op{{Op: 2, ID: 1, Addr: 0, Arg: 2}, {Op: 5, ID: 1, Addr: 1, Arg: r.Intn(65536)}, {Op: 0, ID: 1, Addr: 3, Arg: 20},
		{Op: 3, ID: 1, Addr: 1, Arg: 1, M: c19Mangle{Dir: 2, Kind: 4, Mask: 1}}, {Op: 2, ID: 1, Addr: 1, Arg: 1}}
	return c
}

func c19GenConv(r *rand.Rand) *c19Case {
	c := &c19Case{Kind: "conv", Fam: r.Intn(5), Swap: r.Intn(2) == 0}
	n := []int{0, 1, 1, 2, 3, 5, 8}[r.Intn(7)]
	for i := 0; i < n; i++ {
		var v int64
		switch c.Fam {
		case 0, 2:
			v = int64(r.Uint32())
			if r.Intn(3) == 0 {
				v = []int64{0, 1, 0xffff, 0x10000, 0xffff0000, 0xffffffff, 0x7fffffff, 0x80000000, 0x7fc00000, 0x7f800001, 0xff800000, 0x00000001, 0x12345678}[r.Intn(13)]
			}
		case 1:
			v = int64(int32(r.Uint32()))
			if r.Intn(3) == 0 {
				v = []int64{0, 1, -1, 65535, 65536, -65536, math.MaxInt32, math.MinInt32, 0x12345678}[r.Intn(9)]
			}
		case 3:
			v = int64(c19Value(r))
		}
		c.Vals = append(c.Vals, v)
	}
	m := []int{0, 1, 2, 3, 4, 5, 6, 9}[r.Intn(8)]
	for i := 0; i < m; i++ {
		x := c19Value(r)
		if c.Fam == 3 {
			x &= 0xff
		}
		c.Regs2 = append(c.Regs2, x)
	}
	if c.Regs2 == nil {
		c.Regs2 = []int{}
	}
	return c
}

func c19GenBits(r *rand.Rand) *c19Case {
	c := &c19Case{Kind: "bits", FC: []int{1, 2, 1, 2, 3, 0x81, r.Intn(256)}[r.Intn(7)]}
	n := []int{0, 1, 2, 3, 4, 9, 33}[r.Intn(7)]
	c.Data = make([]byte, n)
	r.Read(c.Data)
	if n > 0 {
		switch r.Intn(3) {
		case 0:
			c.Data[0] = byte(n - 1) // consistent byte count
		case 1:
			c.Data[0] = byte((n - 1) * 8)
		}
	}
	return c
}

func c19GenCodec(r *rand.Rand) *c19Case {
	c := &c19Case{Kind: "codec", TCP: r.Intn(2) == 0, Role: r.Intn(2), Enc: r.Intn(3) == 0}
	c.Tx = []int{0, 1, 2, 255, 256, 300}[r.Intn(6)]
	if c.Role == 1 {
		c.Tx = r.Intn(65536)
	}
	if !c.TCP {
		c.Tx = 0
	}
	c.Unit, c.FC = r.Intn(256), r.Intn(256)
	n := []int{0, 1, 2, 4, 5, 9, 100, 251, 252, 253}[r.Intn(10)]
	c.Data = make([]byte, n)
	r.Read(c.Data)
	if c.Enc {
		return c
	}
	// a packet to decode: well-formed, then possibly damaged
	body := append([]byte{byte(c.Unit), byte(c.FC)}, c.Data...)
	if c.TCP {
		tx := c.Tx
		if r.Intn(4) == 0 {
			tx = r.Intn(65536)
		}
		c.Packet = append([]byte{byte(tx >> 8), byte(tx), 0, 0, byte((n + 2) >> 8), byte(n + 2)}, body...)
	} else {
		crc := c19Crc(body)
		c.Packet = append(body, byte(crc), byte(crc>>8))
	}
	switch r.Intn(6) {
	case 0: // flip a bit
		i := r.Intn(len(c.Packet))
		c.Packet[i] ^= 1 << uint(r.Intn(8))
	case 1: // truncate
		c.Packet = c.Packet[:r.Intn(len(c.Packet)+1)]
	case 2: // random bytes
		c.Packet = make([]byte, r.Intn(12))
		r.Read(c.Packet)
	case 3: // burst
		i := r.Intn(len(c.Packet))
		c.Packet[i] ^= byte(1 + r.Intn(255))
		if i+1 < len(c.Packet) {
			c.Packet[i+1] ^= byte(r.Intn(256))
		}
	}
	return c
}

func c19Digest(c *c19Case) string {
	h := sha1.New()
	var in any
	switch c.Kind {
	case "session":
		type opIn struct {
			A, B, C, D int
			R          []byte
			M          c19Mangle
		}
		ops := []opIn{}
		for _, o := range c.Ops {
			ops = append(ops, opIn{o.Op, o.ID, o.Addr, o.Arg, o.Raw, o.M})
		}
		in = []any{c.TCP, c.SID, c.Regs, c.Warm, ops}
	case "conv":
		in = []any{c.Fam, c.Swap, c.Vals, c.Regs2}
	case "bits":
		in = []any{c.FC, c.Data}
	default:
		in = []any{c.TCP, c.Role, c.Tx, c.Enc, c.Unit, c.FC, c.Data, c.Packet}
	}
	b, _ := json.Marshal([]any{c.Kind, in})
	h.Write(b)
	return hex.EncodeToString(h.Sum(nil))[:16]
}

func c19Main(cfg *config) error {
	log.SetOutput(io.Discard) // the server logs every exit of Listen
	cs := newCaseSet("c19")
	var cases []*c19Case
	if cfg.replay != "" {
		b, err := os.ReadFile(cfg.replay)
		if err != nil {
			return err
		}
		var rp struct {
			Cases []*c19Case `json:"cases"`
		}
		if err := json.Unmarshal(b, &rp); err != nil {
			return err
		}
		cases = rp.Cases
	} else {
		r := rand.New(rand.NewSource(cfg.seed))
		for i := 0; i < 500*cfg.scale; i++ {
			cases = append(cases, c19GenSession(r))
		}
		for _, w := range []int{65534, 65535} {
			cases = append(cases, c19GenWrap(r, w))
		}
		for i := 0; i < 30*cfg.scale; i++ {
			cases = append(cases, c19GenGrow(r))
		}
		for i := 0; i < 12*cfg.scale; i++ {
			cases = append(cases, c19GenMaxFrames(r, i%2 == 0))
		}
		for i := 0; i < 1200*cfg.scale; i++ {
			cases = append(cases, c19GenConv(r))
		}
		for i := 0; i < 300*cfg.scale; i++ {
			cases = append(cases, c19GenBits(r))
		}
		for i := 0; i < 1500*cfg.scale; i++ {
			cases = append(cases, c19GenCodec(r))
		}
	}
	exchanges := 0
	for i, c := range cases {
		c.ID = i
		c19Run(c)
		cs.add(c19Val(c), c)
		cs.count("kind:" + c.Kind)
		nontrivial := false
		switch c.Kind {
		case "session":
			if c.TCP {
				cs.count("transport:tcp")
			} else {
				cs.count("transport:rtu")
			}
			if c.ServerPanic != "" {
				cs.count("server:panic")
			}
			for _, o := range c.Ops {
				exchanges++
				cs.count(fmt.Sprintf("call:%d", o.Op))
				cs.count(fmt.Sprintf("result:%d", o.Class))
				if o.M.Dir != 0 {
					cs.count(fmt.Sprintf("damage:dir%d-kind%d", o.M.Dir, o.M.Kind))
				}
				if o.Op < 4 {
					switch {
					case o.Arg <= 16:
						cs.count("count:1-16")
					case o.Arg <= 125:
						cs.count("count:17-125")
					case o.Arg <= 2000:
						cs.count("count:126-2000")
					default:
						cs.count("count:>2000")
					}
				}
				if o.Class == 0 && len(o.Values) > 1 {
					nontrivial = true
				}
			}
			// non-trivial: at least one call returned more than one value, or a write was followed by another call
			if len(c.Ops) > 1 {
				for _, o := range c.Ops[:len(c.Ops)-1] {
					if o.Op >= 4 && o.Class == 0 {
						nontrivial = true
					}
				}
			}
		case "conv":
			cs.count(fmt.Sprintf("conv:fam%d-swap%v", c.Fam, c.Swap))
			nontrivial = len(c.Vals)+len(c.Regs2) > 0
		case "bits":
			nontrivial = len(c.Data) > 1
		default:
			nontrivial = c.Enc || len(c.Packet) > 0
			cs.count(fmt.Sprintf("codec:class%d", c.Class))
		}
		if nontrivial {
			cs.markNontrivial(c19Digest(c))
		}
		if len(cs.samples) < 3 && c.Kind == "session" && len(c.Regs) <= 3 && len(c.Ops) <= 2 {
			cs.samples = append(cs.samples, c)
		}
	}
	if len(cs.samples) == 0 && len(cases) > 0 {
		cs.samples = append(cs.samples, cases[0])
	}
	cs.extra["extra"] = map[string]any{"client_server_exchanges": exchanges}
	return cs.write(cfg.out)
}
