package main

// C13, cases of kind "config": histories that mix batches of points with
// configuration changes.  A configuration change is what the client manager
// does when a point for the rule node or one of its children arrives: it calls
// RuleClient.Points, Run takes the points from the channel newPoints, merges
// them into its configuration (data.MergePoints) and calls run("", nil), which
// sends a trigger point with time.Now() through ruleProcessPoints at the
// rule's own id and then runs the action list of the resulting state and
// marks the opposite list inactive, whatever ruleProcessPoints reported.
// Every step goes through the real Run loop (hooks client.VerifRuleRunConfig
// and client.VerifRuleRun).
//
// The trigger time is read from the clock inside Run.  The harness records
// the clock before and after the call and repeats the step if the two readings
// are not in the same UTC minute: activeForTime works in UTC and every window
// and day boundary is a whole minute, so within one minute the verdict of every
// schedule is constant, and the recorded instant stands for the one Run read.

import (
	"fmt"
	"math/rand"
	"time"

	"github.com/simpleiot/simpleiot/client"
	"github.com/simpleiot/simpleiot/data"
)

func c13HHMM(now time.Time, offMin int) string {
	t := now.UTC().Add(time.Duration(offMin) * time.Minute)
	return fmt.Sprintf("%d:%02d", t.Hour(), t.Minute())
}

func c13IsSchedEdit(p c13Pt) bool { return p.Type == "start" || p.Type == "end" }

// windows of every schedule condition of rule (handles given) at instant t
func c13AddWindows(c *c13Case, seen map[string]bool, rule *c13Rule, handles []int, t int64) {
	for i, cd := range rule.Conds {
		if cd.CType != data.PointValueSchedule {
			continue
		}
		k := fmt.Sprintf("%d/%d", handles[i], t)
		if seen[k] {
			continue
		}
		seen[k] = true
		w := c13Win{Handle: handles[i], Cond: i, Time: t}
		in, err := client.VerifRuleScheduleActive(c13ToCond(cd, rule.ID), time.Unix(0, t).UTC())
		switch {
		case err != nil:
			w.Res, w.Err = 2, err.Error()
		case in:
			w.Res = 1
		}
		c.Windows = append(c.Windows, w)
	}
}

func c13RunConfigCase(env *c13Env, c *c13Case) error {
	c.Windows = []c13Win{}
	seen := map[string]bool{}
	// windows placed relative to the clock
	start := time.Now()
	for i := range c.Rule.Conds {
		cd := &c.Rule.Conds[i]
		if cd.StartOff != nil {
			cd.Start = c13HHMM(start, *cd.StartOff)
		}
		if cd.EndOff != nil {
			cd.End = c13HHMM(start, *cd.EndOff)
		}
	}
	handles := make([]int, len(c.Rule.Conds))
	for i := range handles {
		handles[i] = i
	}
	if _, err := env.c13Drain(); err != nil {
		return err
	}
	cur := &c.Rule
	for i := range c.Steps {
		st := &c.Steps[i]
		st.Err, st.Sched, st.TrigTime = "", nil, 0
		cfg := c13ToRule(cur)
		var after client.Rule
		var err error
		if !st.Cfg {
			// a batch, as in kind "history" mode 0
			for _, p := range st.Pts {
				if p.Type == data.PointTypeTrigger {
					c13AddWindows(c, seen, cur, handles, p.Time)
				}
			}
			pts := c13ToPoints(st.Pts, c13Locs[(c.ID+i)%len(c13Locs)])
			func() {
				defer func() {
					if r := recover(); r != nil {
						err = fmt.Errorf("panic: %v", r)
					}
				}()
				after, err = client.VerifRuleRun(env.nc, cfg, st.Node, pts)
			}()
		} else {
			for k := range st.Pts {
				if st.Pts[k].Off != nil {
					st.Pts[k].Text = c13HHMM(time.Now(), *st.Pts[k].Off)
				}
			}
			pts := c13ToPoints(st.Pts, time.UTC)
			for attempt := 0; ; attempt++ {
				if _, derr := env.c13Drain(); derr != nil {
					return derr
				}
				before := time.Now()
				err = nil
				func() {
					defer func() {
						if r := recover(); r != nil {
							err = fmt.Errorf("panic: %v", r)
						}
					}()
					after, err = client.VerifRuleRunConfig(env.nc, cfg, st.Node, pts)
				}()
				end := time.Now()
				if before.UTC().Truncate(time.Minute).Equal(end.UTC().Truncate(time.Minute)) && !end.Before(before) {
					st.TrigTime = before.UnixNano()
					break
				}
				if attempt >= 5 {
					return fmt.Errorf("c13: configuration change kept straddling a minute boundary")
				}
			}
		}
		sent, derr := env.c13Drain()
		if derr != nil {
			return derr
		}
		st.Sent = sent
		if err != nil {
			st.Err = err.Error()
			st.Rule = cur
			st.Handles = append([]int(nil), handles...)
			continue
		}
		st.Active, st.Changed = after.Active, after.Active != cfg.Active
		st.Rule = c13FromRule(after)
		if st.Cfg {
			// an edit of start / end gives the condition's schedule a new handle
			edits := false
			for _, p := range st.Pts {
				edits = edits || c13IsSchedEdit(p)
			}
			for k, cd := range cur.Conds {
				if edits && cd.ID == st.Node && st.Node != cur.ID && k < len(handles) {
					h := 1000*(i+1) + k
					st.Sched = &h
					handles[k] = h
					break
				}
			}
			if len(st.Rule.Conds) == len(handles) {
				c13AddWindows(c, seen, st.Rule, handles, st.TrigTime)
			}
		}
		st.Handles = append([]int(nil), handles...)
		cur = st.Rule
	}
	return nil
}

func c13ConfigVal(c *c13Case, ws []string) string {
	ss := make([]string, len(c.Steps))
	for i, st := range c.Steps {
		if !st.Cfg {
			ss[i] = vL("0", vL(vS(st.Node), c13PtsVal(st.Pts), c13RuleValH(st.Rule, st.Handles), c13SentVal(st.Sent),
				vBool(st.Active), vBool(st.Changed), vBool(st.Err != "")))
			continue
		}
		sch := vNone()
		if st.Sched != nil {
			sch = vSome(vI(*st.Sched))
		}
		ss[i] = vL("1", vL(vS(st.Node), c13PtsVal(st.Pts), sch, vZ(st.TrigTime), c13RuleValH(st.Rule, st.Handles), c13SentVal(st.Sent),
			vBool(st.Err != "")))
	}
	return vL("2", c13RuleVal(&c.Rule), vL(ws...), vL(ss...))
}

// ---------- generator ----------

func c13IntP(v int) *int { return &v }

// a schedule whose window contains (in) or misses the clock by hours
func c13RelWindow(r *rand.Rand, cd *c13Cond, in bool) {
	if in {
		cd.StartOff, cd.EndOff = c13IntP(-(120 + r.Intn(120))), c13IntP(120+r.Intn(120))
	} else {
		s := 300 + r.Intn(120)
		cd.StartOff, cd.EndOff = c13IntP(s), c13IntP(s+60+r.Intn(120))
	}
	cd.Start, cd.End = "", "" // filled in when the case is run
}

// does the trigger point of run("", nil) reach the point condition's comparison
func c13ListensToTrigger(cd c13Cond, ruleID string) bool {
	return (cd.Node == "" || cd.Node == ruleID) && (cd.PType == "" || cd.PType == data.PointTypeTrigger) && cd.PKey == ""
}

// a condition for a configuration-change case and what the generator expects the
// trigger evaluation to make of it (known = false: left to the implementation)
func c13GenConfigCond(r *rand.Rand, i int, ruleID string, withSched bool) (cd c13Cond, expect bool, known bool) {
	if withSched && (i == 0 || r.Intn(3) == 0) {
		cd = c13Cond{ID: fmt.Sprintf("c%d", i), CType: data.PointValueSchedule, Bits: c13Bits(0), V: "0", Active: r.Intn(2) == 0}
		switch k := r.Intn(10); {
		case k < 4:
			c13RelWindow(r, &cd, true)
			return cd, true, true
		case k < 8:
			c13RelWindow(r, &cd, false)
			return cd, false, true
		case k < 9:
			// a fixed window: whatever the clock says
			cd.Start, cd.End = c13Pick(r, c13Starts), c13Pick(r, c13Starts)
			return cd, false, false
		default:
			// a past date: never active; or an unparsable start: the condition keeps its state
			c13RelWindow(r, &cd, true)
			if r.Intn(2) == 0 {
				cd.Dates = []string{"2023-07-20"}
				return cd, false, true
			}
			cd.StartOff, cd.Start = nil, c13Pick(r, []string{"", "bad"})
			return cd, cd.Active, true
		}
	}
	cd = c13GenCond(r, i)
	for cd.CType == data.PointValueSchedule {
		cd = c13GenCond(r, i)
	}
	if cd.CType == data.PointValuePointValue && r.Intn(10) < 3 {
		// let the trigger point (type "trigger", key "", value 0, text "") reach the comparison
		cd.Node, cd.PType, cd.PKey = c13Pick(r, []string{"", ruleID}), c13Pick(r, []string{"", data.PointTypeTrigger}), ""
	}
	if cd.CType == data.PointValuePointValue && !c13ListensToTrigger(cd, ruleID) {
		return cd, cd.Active, true
	}
	return cd, false, false
}

func c13GenConfigStep(r *rand.Rand, rule *c13Rule) (c13Step, string) {
	st := c13Step{Cfg: true, Sent: []c13Out{}}
	pt := func(typ string, v float64, text string) c13Pt {
		return c13Pt{Type: typ, Key: c13Pick(r, []string{"", "", "0"}), Time: c13BaseTime, Bits: c13Bits(v), V: c13Show(v), Text: text}
	}
	var scheds, pconds []int
	for i, cd := range rule.Conds {
		if cd.CType == data.PointValueSchedule {
			scheds = append(scheds, i)
		} else {
			pconds = append(pconds, i)
		}
	}
	allActs := append(append([]c13Act{}, rule.Acts...), rule.IActs...)
	k := r.Intn(100)
	switch {
	case k < 25 && len(scheds) > 0:
		// somebody edits a schedule: the window now contains / misses the clock
		cd := rule.Conds[scheds[r.Intn(len(scheds))]]
		st.Node = cd.ID
		var tmp c13Cond
		c13RelWindow(r, &tmp, r.Intn(2) == 0)
		ps, pe := pt("start", 0, ""), pt("end", 0, "")
		ps.Off, pe.Off = tmp.StartOff, tmp.EndOff
		switch r.Intn(6) {
		case 0:
			st.Pts = []c13Pt{ps}
		case 1:
			st.Pts = []c13Pt{pe}
		case 2:
			st.Pts = []c13Pt{pe, ps}
		default:
			st.Pts = []c13Pt{ps, pe}
		}
		return st, "schedule-start-end"
	case k < 40 && len(pconds) > 0:
		// threshold, text or operator of a point condition
		cd := rule.Conds[pconds[r.Intn(len(pconds))]]
		st.Node = cd.ID
		n := 1 + r.Intn(2)
		for j := 0; j < n; j++ {
			switch r.Intn(3) {
			case 0:
				st.Pts = append(st.Pts, pt("value", c13Near(r, c13Float(cd.Bits)), ""))
			case 1:
				st.Pts = append(st.Pts, pt("valueText", 0, c13Pick(r, c13Texts)))
			default:
				st.Pts = append(st.Pts, pt("operator", 0, c13Pick(r, c13AllOps)))
			}
		}
		return st, "condition-value-text-operator"
	case k < 52 && len(allActs) > 0:
		// the value an action writes
		a := allActs[r.Intn(len(allActs))]
		st.Node = a.ID
		if r.Intn(2) == 0 {
			st.Pts = append(st.Pts, pt("value", c13Vals[r.Intn(len(c13Vals))], ""))
		}
		if len(st.Pts) == 0 || r.Intn(2) == 0 {
			st.Pts = append(st.Pts, pt("valueText", 0, c13Pick(r, c13Texts)))
		}
		return st, "action-value-text"
	case k < 57:
		// a point for a node that is not part of the rule: MergePoints fails, run("", nil) still runs
		st.Node = c13Pick(r, []string{"stranger", "c9", ""})
		st.Pts = []c13Pt{pt(c13Pick(r, []string{"description", "value", "active"}), 1, "x")}
		return st, "unknown-node"
	case k < 65:
		// description of a condition or an action
		st.Node = rule.Conds[r.Intn(len(rule.Conds))].ID
		if len(allActs) > 0 && r.Intn(2) == 0 {
			st.Node = allActs[r.Intn(len(allActs))].ID
		}
		st.Pts = []c13Pt{pt("description", 0, c13Pick(r, []string{"", "renamed", "héllo"}))}
		return st, "child-description"
	default:
		// description of the rule: nothing the rule evaluates changes
		st.Node = rule.ID
		st.Pts = []c13Pt{pt("description", 0, c13Pick(r, []string{"", "renamed", "night mode", "héllo"}))}
		if r.Intn(5) == 0 {
			st.Pts = append(st.Pts, pt("description", 1, "again"))
		}
		return st, "rule-description"
	}
}

func c13GenConfig(r *rand.Rand, id int) *c13Case {
	c := &c13Case{ID: id, Kind: "config"}
	rule := &c.Rule
	rule.ID = "rule1"
	withSched := r.Intn(10) < 6
	nc := 1 + r.Intn(3)
	expectAll, knownAll := true, true
	for i := 0; i < nc; i++ {
		cd, expect, known := c13GenConfigCond(r, i, rule.ID, withSched)
		rule.Conds = append(rule.Conds, cd)
		expectAll = expectAll && expect
		knownAll = knownAll && known
	}
	if r.Intn(3) == 0 {
		// what is stale is the rule's own flag: every condition already holds
		expectAll = true
		for i := range rule.Conds {
			cd := &rule.Conds[i]
			switch {
			case cd.CType == data.PointValueSchedule && cd.StartOff != nil && len(cd.Dates) == 0:
				c13RelWindow(r, cd, true)
				cd.Active = true
			case cd.CType == data.PointValueSchedule:
				cd.Active = true
				knownAll = false
			case cd.CType == data.PointValuePointValue && !c13ListensToTrigger(*cd, rule.ID):
				cd.Active = true
			default:
				knownAll = false
			}
		}
	}
	// mostly: the stored state of the rule is the opposite of what the trigger evaluation will find
	rule.Active = r.Intn(2) == 0
	if knownAll && r.Intn(10) < 8 {
		rule.Active = !expectAll
	}
	na, ni := 1+r.Intn(3), r.Intn(4)
	rule.Acts, rule.IActs = []c13Act{}, []c13Act{}
	for i := 0; i < na; i++ {
		rule.Acts = append(rule.Acts, c13GenAct(r, fmt.Sprintf("a%d", i), rule.ID))
	}
	for i := 0; i < ni; i++ {
		rule.IActs = append(rule.IActs, c13GenAct(r, fmt.Sprintf("i%d", i), rule.ID))
	}
	if r.Intn(10) < 8 {
		// the action flags agree with the stored state: the list of that state has run,
		// the opposite list is marked inactive
		for i := range rule.Acts {
			rule.Acts[i].Active = rule.Active
		}
		for i := range rule.IActs {
			rule.IActs[i].Active = !rule.Active
		}
	}
	if r.Intn(12) == 0 {
		rule.Error = "old rule error"
	}
	hasSched := false
	for _, cd := range rule.Conds {
		if cd.CType == data.PointValueSchedule {
			hasSched = true
		}
	}
	ns := 1 + r.Intn(4)
	for s := 0; s < ns; s++ {
		if s == 0 || r.Intn(100) < 65 {
			st, _ := c13GenConfigStep(r, rule)
			c.Steps = append(c.Steps, st)
		} else {
			c.Steps = append(c.Steps, c13GenBatch(r, rule, hasSched))
		}
	}
	return c
}

// what a configuration-change step edits, for the input distribution
func c13ConfigStepClass(rule *c13Rule, st *c13Step) string {
	types := map[string]bool{}
	for _, p := range st.Pts {
		types[p.Type] = true
	}
	switch {
	case st.Node == rule.ID:
		return "rule-description"
	case types["start"] || types["end"]:
		return "schedule-start-end"
	case types["description"]:
		return "child-description"
	}
	for _, cd := range rule.Conds {
		if cd.ID == st.Node {
			return "condition-value-text-operator"
		}
	}
	for _, a := range append(append([]c13Act{}, rule.Acts...), rule.IActs...) {
		if a.ID == st.Node {
			return "action-value-text"
		}
	}
	return "unknown-node"
}
