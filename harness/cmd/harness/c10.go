package main

// C10 — typed configuration survives Encode/Decode and Diff/Merge.
//
// Go struct types covering every field kind of the model's universe
// (coq/theories/Codec/Model.v), a generic walker Go value <-> universe value,
// a generator of well-formed values and before/after pairs, and the runner of
// data.Encode / data.Decode / data.DiffPoints / data.MergePoints.
// c11.go re-uses the types and the walker.

import (
	"bytes"
	"crypto/sha1"
	"encoding/hex"
	"encoding/json"
	"fmt"
	"io"
	"log"
	"math"
	"math/rand"
	"os"
	"reflect"
	"sort"
	"strconv"
	"strings"

	"github.com/simpleiot/simpleiot/data"
)

func init() { areas["c10"] = c10Run }

// ---------------------------------------------------------------------------
// configuration types
// ---------------------------------------------------------------------------

type c10Scalars struct {
	ID     string  `node:"id"`
	Parent string  `node:"parent"`
	B      bool    `point:"b"`
	I      int     `point:"i"`
	I8     int8    `point:"i8"`
	I16    int16   `point:"i16"`
	I32    int32   `point:"i32"`
	I64    int64   `point:"i64"`
	U      uint    `point:"u"`
	U8     uint8   `point:"u8"`
	U16    uint16  `point:"u16"`
	U32    uint32  `point:"u32"`
	U64    uint64  `point:"u64"`
	F32    float32 `point:"f32"`
	F64    float64 `point:"f64"`
	S      string  `point:"s"`
	EB     bool    `edgepoint:"eb"`
	EI32   int32   `edgepoint:"ei32"`
	EF     float64 `edgepoint:"ef"`
	ES     string  `edgepoint:"es"`
	EU8    uint8   `edgepoint:"b"` // same type name as the point field B, other namespace
}

type c10Ptrs struct {
	ID     string   `node:"id"`
	Parent string   `node:"parent"`
	PB     *bool    `point:"pb"`
	PI     *int     `point:"pi"`
	PI32   *int32   `point:"pi32"`
	PU8    *uint8   `point:"pu8"`
	PU64   *uint64  `point:"pu64"`
	PF32   *float32 `point:"pf32"`
	PF64   *float64 `point:"pf64"`
	PS     *string  `point:"ps"`
	EPI    *int     `edgepoint:"epi"`
	EPS    *string  `edgepoint:"eps"`
}

type c10Slices struct {
	ID     string    `node:"id"`
	Parent string    `node:"parent"`
	SB     []bool    `point:"sb"`
	SI     []int     `point:"si"`
	SI32   []int32   `point:"si32"`
	SU8    []uint8   `point:"su8"`
	SF64   []float64 `point:"sf64"`
	SF32   []float32 `point:"sf32"`
	SS     []string  `point:"ss"`
	ESI16  []int16   `edgepoint:"esi16"`
	ESU32  []uint32  `edgepoint:"esu32"`
}

type c10Arrays struct {
	ID     string     `node:"id"`
	Parent string     `node:"parent"`
	A0     [0]bool    `point:"a0"`
	A1     [1]int     `point:"a1"`
	A7     [7]bool    `point:"a7"`
	A3S    [3]string  `point:"a3s"`
	A4F    [4]float32 `point:"a4f"`
	A5U    [5]uint16  `point:"a5u"`
	A2D    [2]float64 `point:"a2d"`
	EA2    [2]int64   `edgepoint:"ea2"`
}

type c10BigArray struct {
	ID     string      `node:"id"`
	Parent string      `node:"parent"`
	A1000  [1000]uint8 `point:"a1000"`
	A999   [999]int32  `edgepoint:"a999"`
}

type c10Maps struct {
	ID     string             `node:"id"`
	Parent string             `node:"parent"`
	MB     map[string]bool    `point:"mb"`
	MI     map[string]int     `point:"mi"`
	MI32   map[string]int32   `point:"mi32"`
	MU8    map[string]uint8   `point:"mu8"`
	MF64   map[string]float64 `point:"mf64"`
	MF32   map[string]float32 `point:"mf32"`
	MS     map[string]string  `point:"ms"`
	EMI    map[string]int16   `edgepoint:"emi"`
}

type c10Inner struct {
	ID       string  `node:"id"` // key "id" (from the field name)
	X        int     `point:"x"`
	Y        float64 `point:"y"`
	Name     string  `point:"name"`
	On       bool    // key "on"
	Count    uint16  // key "count"
	HTTPPort int32   // key "httpPort"
}

type c10Inner2 struct {
	Role string  `point:"role"`
	Rank int8    `point:"rank"`
	W    float32 `point:"w"`
}

type c10Structs struct {
	ID     string     `node:"id"`
	Parent string     `node:"parent"`
	N      c10Inner   `point:"n"`
	P      *c10Inner  `point:"p"`
	Q      *c10Inner2 `point:"q"`
	EN     c10Inner2  `edgepoint:"en"`
	EP     *c10Inner2 `edgepoint:"ep"`
}

type c10Mixed struct {
	ID          string            `node:"id"`
	Parent      string            `node:"parent"`
	Description string            `point:"description"`
	IPs         []string          `point:"ipAddress"`
	Loc         map[string]string `point:"location"`
	Sensors     map[string]int    `point:"sensor"`
	Days        [7]bool           `point:"scheduledDays"`
	Count       *int              `point:"count"`
	Nested      c10Inner2         `point:"nested"`
	Opt         *c10Inner2        `point:"opt"`
	Vals        []int32           `edgepoint:"testValue"`
	Tomb        bool              `edgepoint:"tombstone"`
	Role        *string           `edgepoint:"role"`
}

// ---------------------------------------------------------------------------
// universe values (mirror of Codec/Model.v), JSON-serialisable for replays
// ---------------------------------------------------------------------------

// primitive value: K 0 bool, 1 int (sign+magnitude), 2 float32 bits, 3 float64 bits, 4 string
type c10PV struct {
	K    int    `json:"k"`
	B    bool   `json:"b,omitempty"`
	Neg  bool   `json:"neg,omitempty"`
	Mag  uint64 `json:"mag,omitempty"`
	Bits uint64 `json:"bits,omitempty"`
	S    []byte `json:"s,omitempty"`
}

// field value: Kind 0 scalar (L[0]), 1 pointer (Nil or L[0]), 2 slice/array (L),
// 3 map (Keys, L; sorted by key), 4 struct (L), 5 pointer to struct (Nil or L)
type c10FV struct {
	Kind int      `json:"kind"`
	Nil  bool     `json:"nil,omitempty"`
	L    []c10PV  `json:"l,omitempty"`
	Keys [][]byte `json:"keys,omitempty"`
}

type c10Cfg struct {
	ID     []byte  `json:"id"`
	Parent []byte  `json:"parent"`
	Vals   []c10FV `json:"vals"`
}

type c10Pt struct {
	Type []byte `json:"type"`
	Key  []byte `json:"key"`
	Bits uint64 `json:"bits"`
	Text []byte `json:"text"`
	Tomb int64  `json:"tomb"`
}

type c10Node struct {
	ID     []byte  `json:"id"`
	Parent []byte  `json:"parent"`
	P      []c10Pt `json:"p"`
	E      []c10Pt `json:"e"`
}

// outcome: Class 0 ok, 1 error, 2 panic
type c10Out struct {
	Class int     `json:"class"`
	Cfg   *c10Cfg `json:"cfg,omitempty"`
}

// ---------------------------------------------------------------------------
// type descriptors
// ---------------------------------------------------------------------------

type c10Prim struct{ tag, w int } // 0 bool, 1 int w, 2 uint w, 3 f32, 4 f64, 5 string

type c10KP struct {
	key  string
	prim c10Prim
	idx  int
}

type c10Field struct {
	idx  int
	edge bool
	typ  string
	kind int // 0 scalar 1 ptr 2 slice 3 array 4 map 5 struct 6 ptrstruct
	prim c10Prim
	n    int
	fs   []c10KP
}

type c10Kid struct {
	idx int
	tag string
	T   *c10Type
}

type c10Type struct {
	kids      []c10Kid
	tdesc     string
	name      string
	rt        reflect.Type
	fields    []c10Field
	idIdx     int
	parentIdx int
	desc      string
}

func c10PrimOf(t reflect.Type) (c10Prim, bool) {
	switch t.Kind() {
	case reflect.Bool:
		return c10Prim{0, 0}, true
	case reflect.Int, reflect.Int64:
		return c10Prim{1, 64}, true
	case reflect.Int8:
		return c10Prim{1, 8}, true
	case reflect.Int16:
		return c10Prim{1, 16}, true
	case reflect.Int32:
		return c10Prim{1, 32}, true
	case reflect.Uint, reflect.Uint64:
		return c10Prim{2, 64}, true
	case reflect.Uint8:
		return c10Prim{2, 8}, true
	case reflect.Uint16:
		return c10Prim{2, 16}, true
	case reflect.Uint32:
		return c10Prim{2, 32}, true
	case reflect.Float32:
		return c10Prim{3, 0}, true
	case reflect.Float64:
		return c10Prim{4, 0}, true
	case reflect.String:
		return c10Prim{5, 0}, true
	}
	return c10Prim{}, false
}

func (p c10Prim) val() string {
	switch p.tag {
	case 1, 2:
		return vL(vI(p.tag), vI(p.w))
	}
	return vL(vI(p.tag))
}

func c10StructKeys(t reflect.Type) []c10KP {
	var out []c10KP
	for i := 0; i < t.NumField(); i++ {
		sf := t.Field(i)
		key := sf.Tag.Get("point")
		if key == "" {
			key = sf.Tag.Get("edgepoint")
		}
		if key == "" {
			key = data.ToCamelCase(sf.Name)
		}
		p, ok := c10PrimOf(sf.Type)
		if !ok {
			panic("c10: unsupported inner field " + sf.Name)
		}
		out = append(out, c10KP{key, p, i})
	}
	return out
}

func c10Describe(x any) *c10Type {
	rt := reflect.TypeOf(x)
	T := &c10Type{name: rt.Name(), rt: rt, idIdx: -1, parentIdx: -1}
	var items []string
	for i := 0; i < rt.NumField(); i++ {
		sf := rt.Field(i)
		f := c10Field{idx: i}
		if pt := sf.Tag.Get("point"); pt != "" {
			f.typ = pt
		} else if et := sf.Tag.Get("edgepoint"); et != "" {
			f.typ, f.edge = et, true
		} else {
			switch sf.Tag.Get("node") {
			case "id":
				T.idIdx = i
			case "parent":
				T.parentIdx = i
			}
			if ct := sf.Tag.Get("child"); ct != "" && sf.Tag.Get("node") == "" {
				T.kids = append(T.kids, c10Kid{i, ct, c10Describe(reflect.New(sf.Type.Elem()).Elem().Interface())})
			}
			continue
		}
		ft := sf.Type
		var kv string
		switch ft.Kind() {
		case reflect.Pointer:
			if ft.Elem().Kind() == reflect.Struct {
				f.kind, f.fs = 6, c10StructKeys(ft.Elem())
			} else {
				f.kind = 1
				f.prim, _ = c10PrimOf(ft.Elem())
			}
		case reflect.Slice:
			f.kind = 2
			f.prim, _ = c10PrimOf(ft.Elem())
		case reflect.Array:
			f.kind, f.n = 3, ft.Len()
			f.prim, _ = c10PrimOf(ft.Elem())
		case reflect.Map:
			f.kind = 4
			f.prim, _ = c10PrimOf(ft.Elem())
		case reflect.Struct:
			f.kind, f.fs = 5, c10StructKeys(ft)
		default:
			f.kind = 0
			f.prim, _ = c10PrimOf(ft)
		}
		switch f.kind {
		case 3:
			kv = vL(vI(3), vI(f.n), f.prim.val())
		case 5, 6:
			var ks []string
			for _, kp := range f.fs {
				ks = append(ks, vL(vS(kp.key), kp.prim.val()))
			}
			kv = vL(vI(f.kind), vL(ks...))
		default:
			kv = vL(vI(f.kind), f.prim.val())
		}
		items = append(items, vL(vBool(f.edge), vS(f.typ), kv))
		T.fields = append(T.fields, f)
	}
	if T.idIdx < 0 || T.parentIdx < 0 {
		panic("c10: type without id/parent " + T.name)
	}
	T.desc = vL(items...)
	var ks []string
	for _, k := range T.kids {
		ks = append(ks, vL(vS(k.tag), k.T.tdesc))
	}
	T.tdesc = vL(T.desc, vL(ks...))
	return T
}

// two configuration types whose nested struct types are different types with the same name (declared inside
// functions, as table-driven code does): whatever is remembered about one must not be used for the other
func c10LocalTypeA() any {
	type c10Twin struct {
		A int     `point:"a"`
		B float64 `point:"b"`
		C string  `point:"c"`
	}
	type c10LocalA struct {
		ID     string   `node:"id"`
		Parent string   `node:"parent"`
		N      c10Twin  `point:"n"`
		P      *c10Twin `point:"p"`
	}
	return c10LocalA{}
}

func c10LocalTypeB() any {
	type c10Twin struct {
		A int `point:"a"`
	}
	type c10LocalB struct {
		ID     string   `node:"id"`
		Parent string   `node:"parent"`
		N      c10Twin  `point:"n"`
		P      *c10Twin `point:"p"`
	}
	return c10LocalB{}
}

// defined (named) element types: what is stored must have the field's own type, not the kind's default
type c10Str string
type c10I32 int32
type c10F64 float64

type c10Named struct {
	ID     string            `node:"id"`
	Parent string            `node:"parent"`
	V      c10Str            `point:"v"`
	N      c10I32            `point:"n"`
	F      c10F64            `point:"f"`
	P      *c10Str           `point:"p"`
	S      []c10Str          `point:"s"`
	M      map[string]c10Str `point:"m"`
	MI     map[string]c10I32 `edgepoint:"mi"`
}

var c10Types = []*c10Type{
	c10Describe(c10Named{}),
	c10Describe(c10Scalars{}), c10Describe(c10Ptrs{}), c10Describe(c10Slices{}), c10Describe(c10Arrays{}),
	c10Describe(c10Maps{}), c10Describe(c10Structs{}), c10Describe(c10Mixed{}), c10Describe(c10LocalTypeA()),
	c10Describe(c10LocalTypeB()), c10Describe(c10BigArray{}),
}

func c10TypeByName(n string) *c10Type {
	if n == "c10Root" {
		return c10RootType
	}
	for _, T := range c10Types {
		if T.name == n {
			return T
		}
	}
	return nil
}

// is [typ] the point type of a map field (in the point or edge namespace)?
func (T *c10Type) isMapType(edge bool, typ string) bool {
	for _, f := range T.fields {
		if f.edge == edge && f.typ == typ && f.kind == 4 {
			return true
		}
	}
	return false
}

func (T *c10Type) declares(edge bool, typ string) bool {
	for _, f := range T.fields {
		if f.edge == edge && f.typ == typ {
			return true
		}
	}
	return false
}

// ---------------------------------------------------------------------------
// val text of universe values
// ---------------------------------------------------------------------------

func (v c10PV) val() string {
	switch v.K {
	case 0:
		return vL("0", vBool(v.B))
	case 1:
		s := "z"
		if v.Neg && v.Mag != 0 {
			s += "-"
		}
		return vL("1", s+strconv.FormatUint(v.Mag, 10))
	case 2:
		return vL("2", vN(v.Bits))
	case 3:
		return vL("3", c10Bits(v.Bits))
	}
	return vL("4", vB(v.S))
}

// float64 bit patterns travel as 8 big-endian bytes (cheaper to parse than 20 decimal digits)
func c10Bits(b uint64) string { return fmt.Sprintf("x%016x", b) }

func c10PVList(l []c10PV) string {
	items := make([]string, len(l))
	for i, x := range l {
		items[i] = x.val()
	}
	return vL(items...)
}

func (f c10FV) val() string {
	switch f.Kind {
	case 0:
		return vL("0", f.L[0].val())
	case 1:
		if f.Nil {
			return vL("1", vNone())
		}
		return vL("1", vSome(f.L[0].val()))
	case 2:
		return vL("2", c10PVList(f.L))
	case 3:
		items := make([]string, len(f.L))
		for i := range f.L {
			items[i] = vL(vB(f.Keys[i]), f.L[i].val())
		}
		return vL("3", vL(items...))
	case 4:
		return vL("4", c10PVList(f.L))
	}
	if f.Nil {
		return vL("5", vNone())
	}
	return vL("5", vSome(c10PVList(f.L)))
}

func (c *c10Cfg) val() string {
	items := make([]string, len(c.Vals))
	for i, f := range c.Vals {
		items[i] = f.val()
	}
	return vL(vB(c.ID), vB(c.Parent), vL(items...))
}

func (p c10Pt) val() string {
	return vL(vB(p.Type), vB(p.Key), c10Bits(p.Bits), vB(p.Text), vZ(p.Tomb))
}

func c10PtsVal(ps []c10Pt) string {
	items := make([]string, len(ps))
	for i, p := range ps {
		items[i] = p.val()
	}
	return vL(items...)
}

func (n *c10Node) val() string {
	return vL(vB(n.ID), vB(n.Parent), c10PtsVal(n.P), c10PtsVal(n.E))
}

func (o *c10Out) val() string {
	if o.Class == 2 {
		return vL("2")
	}
	return vL(vI(o.Class), o.Cfg.val())
}

func c10OptOut(o *c10Out) string {
	if o == nil {
		return vNone()
	}
	return vSome(o.val())
}

// ---------------------------------------------------------------------------
// walker: universe value <-> Go value
// ---------------------------------------------------------------------------

func c10SetPrim(dst reflect.Value, v c10PV) {
	switch dst.Kind() {
	case reflect.Bool:
		dst.SetBool(v.B)
	case reflect.Int, reflect.Int8, reflect.Int16, reflect.Int32, reflect.Int64:
		if v.Neg {
			dst.SetInt(-int64(v.Mag)) // 2^63 wraps to math.MinInt64
		} else {
			dst.SetInt(int64(v.Mag))
		}
	case reflect.Uint, reflect.Uint8, reflect.Uint16, reflect.Uint32, reflect.Uint64:
		dst.SetUint(v.Mag)
	case reflect.Float32:
		dst.Set(reflect.ValueOf(math.Float32frombits(uint32(v.Bits))))
	case reflect.Float64:
		dst.SetFloat(math.Float64frombits(v.Bits))
	case reflect.String:
		dst.SetString(string(v.S))
	}
}

func c10GetPrim(src reflect.Value) c10PV {
	switch src.Kind() {
	case reflect.Bool:
		return c10PV{K: 0, B: src.Bool()}
	case reflect.Int, reflect.Int8, reflect.Int16, reflect.Int32, reflect.Int64:
		x := src.Int()
		if x < 0 {
			return c10PV{K: 1, Neg: true, Mag: uint64(-x)} // MinInt64: uint64(-x) == 2^63
		}
		return c10PV{K: 1, Mag: uint64(x)}
	case reflect.Uint, reflect.Uint8, reflect.Uint16, reflect.Uint32, reflect.Uint64:
		return c10PV{K: 1, Mag: src.Uint()}
	case reflect.Float32:
		if f, ok := src.Interface().(float32); ok {
			return c10PV{K: 2, Bits: uint64(math.Float32bits(f))}
		}
		return c10PV{K: 2, Bits: uint64(math.Float32bits(float32(src.Float())))}
	case reflect.Float64:
		return c10PV{K: 3, Bits: math.Float64bits(src.Float())}
	}
	return c10PV{K: 4, S: []byte(src.String())}
}

// c10Build makes a fresh Go value (pointer to struct) from a universe value;
// slices get cap == len, empty slices and maps stay nil.
func c10Build(T *c10Type, c *c10Cfg) reflect.Value {
	out := reflect.New(T.rt)
	c10Fill(T, c, out.Elem())
	return out
}

func c10Fill(T *c10Type, c *c10Cfg, s reflect.Value) {
	s.Field(T.idIdx).SetString(string(c.ID))
	s.Field(T.parentIdx).SetString(string(c.Parent))
	for i, f := range T.fields {
		fv := c.Vals[i]
		dst := s.Field(f.idx)
		switch f.kind {
		case 0:
			c10SetPrim(dst, fv.L[0])
		case 1:
			if !fv.Nil {
				p := reflect.New(dst.Type().Elem())
				c10SetPrim(p.Elem(), fv.L[0])
				dst.Set(p)
			}
		case 2:
			if len(fv.L) > 0 {
				sl := reflect.MakeSlice(dst.Type(), len(fv.L), len(fv.L))
				for j, x := range fv.L {
					c10SetPrim(sl.Index(j), x)
				}
				dst.Set(sl)
			}
		case 3:
			for j, x := range fv.L {
				c10SetPrim(dst.Index(j), x)
			}
		case 4:
			if len(fv.L) > 0 {
				m := reflect.MakeMapWithSize(dst.Type(), len(fv.L))
				for j, x := range fv.L {
					e := reflect.New(dst.Type().Elem()).Elem()
					c10SetPrim(e, x)
					m.SetMapIndex(reflect.ValueOf(string(fv.Keys[j])), e)
				}
				dst.Set(m)
			}
		case 5:
			for j, kp := range f.fs {
				c10SetPrim(dst.Field(kp.idx), fv.L[j])
			}
		case 6:
			if !fv.Nil {
				p := reflect.New(dst.Type().Elem())
				for j, kp := range f.fs {
					c10SetPrim(p.Elem().Field(kp.idx), fv.L[j])
				}
				dst.Set(p)
			}
		}
	}
}

// c10Read canonicalises a Go value: nil == empty, maps sorted by key bytes.
func c10Read(T *c10Type, ptr reflect.Value) *c10Cfg { return c10ReadStruct(T, ptr.Elem()) }

func c10ReadStruct(T *c10Type, s reflect.Value) *c10Cfg {
	c := &c10Cfg{ID: []byte(s.Field(T.idIdx).String()), Parent: []byte(s.Field(T.parentIdx).String())}
	for _, f := range T.fields {
		src := s.Field(f.idx)
		fv := c10FV{}
		switch f.kind {
		case 0:
			fv.Kind, fv.L = 0, []c10PV{c10GetPrim(src)}
		case 1:
			fv.Kind = 1
			if src.IsNil() {
				fv.Nil = true
			} else {
				fv.L = []c10PV{c10GetPrim(src.Elem())}
			}
		case 2, 3:
			fv.Kind = 2
			for j := 0; j < src.Len(); j++ {
				fv.L = append(fv.L, c10GetPrim(src.Index(j)))
			}
		case 4:
			fv.Kind = 3
			var keys []string
			for _, k := range src.MapKeys() {
				keys = append(keys, k.String())
			}
			sort.Strings(keys)
			for _, k := range keys {
				fv.Keys = append(fv.Keys, []byte(k))
				fv.L = append(fv.L, c10GetPrim(src.MapIndex(reflect.ValueOf(k))))
			}
		case 5:
			fv.Kind = 4
			for _, kp := range f.fs {
				fv.L = append(fv.L, c10GetPrim(src.Field(kp.idx)))
			}
		case 6:
			fv.Kind = 5
			if src.IsNil() {
				fv.Nil = true
			} else {
				for _, kp := range f.fs {
					fv.L = append(fv.L, c10GetPrim(src.Elem().Field(kp.idx)))
				}
			}
		}
		c.Vals = append(c.Vals, fv)
	}
	return c
}

func c10FromPoints(ps data.Points) []c10Pt {
	out := make([]c10Pt, len(ps))
	for i, p := range ps {
		out[i] = c10Pt{[]byte(p.Type), []byte(p.Key), math.Float64bits(p.Value), []byte(p.Text), int64(p.Tombstone)}
	}
	return out
}

func c10ToPoints(ps []c10Pt) data.Points {
	out := make(data.Points, len(ps))
	for i, p := range ps {
		out[i] = data.Point{Type: string(p.Type), Key: string(p.Key), Value: math.Float64frombits(p.Bits),
			Text: string(p.Text), Tombstone: int(p.Tomb)}
	}
	return out
}

// canonical order inside runs of points of one map-typed field: live points by
// key, then tombstones by key (Go's map iteration order is arbitrary)
func c10Canon(T *c10Type, edge bool, ps []c10Pt) {
	for i := 0; i < len(ps); {
		j := i + 1
		for j < len(ps) && bytes.Equal(ps[j].Type, ps[i].Type) {
			j++
		}
		if T.isMapType(edge, string(ps[i].Type)) {
			run := ps[i:j]
			sort.SliceStable(run, func(a, b int) bool {
				ta, tb := run[a].Tomb != 0, run[b].Tomb != 0
				if ta != tb {
					return !ta
				}
				return bytes.Compare(run[a].Key, run[b].Key) < 0
			})
		}
		i = j
	}
}

// shuffle the runs of map-typed points (what Go's map order may produce)
func c10ShuffleRuns(T *c10Type, edge bool, ps []c10Pt, r *rand.Rand) {
	for i := 0; i < len(ps); {
		j := i + 1
		for j < len(ps) && bytes.Equal(ps[j].Type, ps[i].Type) {
			j++
		}
		if T.isMapType(edge, string(ps[i].Type)) {
			run := ps[i:j]
			r.Shuffle(len(run), func(a, b int) { run[a], run[b] = run[b], run[a] })
		}
		i = j
	}
}

// run f, turning a panic into class 2
func c10Protect(f func() error) (class int) {
	defer func() {
		if r := recover(); r != nil {
			class = 2
		}
	}()
	if err := f(); err != nil {
		return 1
	}
	return 0
}

func c10OutOf(T *c10Type, class int, ptr reflect.Value) *c10Out {
	if class == 2 {
		return &c10Out{Class: 2}
	}
	return &c10Out{Class: class, Cfg: c10Read(T, ptr)}
}

// ---------------------------------------------------------------------------
// cases
// ---------------------------------------------------------------------------

type c10Case struct {
	ID   int     `json:"id"`
	Kind string  `json:"kind"` // roundtrip | diffmerge
	Gen  string  `json:"gen"`  // generator stream
	Type string  `json:"type"`
	Shuf int64   `json:"shuf"` // seed of the map-run shuffle
	V    *c10Cfg `json:"v"`
	B    *c10Cfg `json:"b,omitempty"`
	// diffmerge only: when set, the value the difference is merged into is not freshly decoded from V: it was decoded
	// from Pre and has already taken the difference Pre -> V (a struct that lives on through several updates: its slices
	// keep the capacity, and whatever lies beyond the length, of what they held before)
	Pre  *c10Cfg `json:"pre,omitempty"`
	Key  string  `json:"key"`
	// observed (recomputed on replay)
	EncClass  int      `json:"enc_class"`
	Enc       *c10Node `json:"enc,omitempty"`
	Din       *c10Node `json:"din,omitempty"`
	Dout      *c10Out  `json:"dout,omitempty"`
	DiffClass int      `json:"diff_class"`
	Diff      []c10Pt  `json:"diff,omitempty"`
	Min       []c10Pt  `json:"min,omitempty"`
	Mout      *c10Out  `json:"mout,omitempty"`
	Note      string   `json:"note,omitempty"`
	// tree cases
	TV    *c10TCfg  `json:"tv,omitempty"`
	TN    *c10TNode `json:"tn,omitempty"`
	TDout *c10TOut  `json:"tdout,omitempty"`
}

func c10EncodeRun(T *c10Type, c *c10Cfg, shuf int64) (class int, enc, din *c10Node) {
	v := c10Build(T, c)
	var ne data.NodeEdge
	class = c10Protect(func() error {
		var err error
		ne, err = data.Encode(v.Interface())
		return err
	})
	if class != 0 {
		return class, &c10Node{}, &c10Node{}
	}
	enc = &c10Node{ID: []byte(ne.ID), Parent: []byte(ne.Parent), P: c10FromPoints(ne.Points), E: c10FromPoints(ne.EdgePoints)}
	c10Canon(T, false, enc.P)
	c10Canon(T, true, enc.E)
	din = &c10Node{ID: enc.ID, Parent: enc.Parent, P: append([]c10Pt{}, enc.P...), E: append([]c10Pt{}, enc.E...)}
	r := rand.New(rand.NewSource(shuf))
	c10ShuffleRuns(T, false, din.P, r)
	c10ShuffleRuns(T, true, din.E, r)
	return 0, enc, din
}

func c10DecodeRun(T *c10Type, n *c10Node, into reflect.Value) *c10Out {
	ne := data.NodeEdge{ID: string(n.ID), Parent: string(n.Parent), Points: c10ToPoints(n.P), EdgePoints: c10ToPoints(n.E)}
	class := c10Protect(func() error {
		return data.Decode(data.NodeEdgeChildren{NodeEdge: ne}, into.Interface())
	})
	return c10OutOf(T, class, into)
}

func c10RunImpl(c *c10Case) {
	T := c10TypeByName(c.Type)
	c.Key, c.Note = "", ""
	switch c.Kind {
	case "tree":
		c10RunTree(c)
	case "roundtrip":
		c.EncClass, c.Enc, c.Din = c10EncodeRun(T, c.V, c.Shuf)
		c.Dout = nil
		if c.EncClass == 0 {
			c.Dout = c10DecodeRun(T, c.Din, reflect.New(T.rt))
			if c.Gen != "boundary" && (c.Dout.Class != 0 || c.Dout.Cfg.val() != c.V.val()) {
				c.Key = "c10:roundtrip:" + c.Type
			}
		} else if c.Gen != "boundary" {
			c.Key = "c10:roundtrip:" + c.Type
		}
	case "diffmerge":
		// a' = Decode(Encode(a))
		cls, _, din := c10EncodeRun(T, c.V, c.Shuf)
		c.EncClass = cls
		c.Dout, c.Mout, c.Diff, c.Min = nil, nil, nil, nil
		var prior reflect.Value
		if cls == 0 {
			prior = reflect.New(T.rt)
			c.Dout = c10DecodeRun(T, din, prior)
		}
		if c.Pre != nil && cls == 0 && c.Dout != nil && c.Dout.Class == 0 {
			// the same content, reached another way: decoded from Pre, then updated to V by a difference
			cls0, _, din0 := c10EncodeRun(T, c.Pre, c.Shuf+2)
			p2 := reflect.New(T.rt)
			ok := cls0 == 0
			if ok {
				d0 := c10DecodeRun(T, din0, p2)
				ok = d0 != nil && d0.Class == 0
			}
			if ok {
				var d data.Points
				ok = c10Protect(func() error {
					var err error
					d, err = data.DiffPoints[any](c10Build(T, c.Pre).Interface(), c10Build(T, c.V).Interface())
					return err
				}) == 0
				if ok {
					ok = c10Protect(func() error { return data.MergePoints(string(c.V.ID), d, p2.Interface()) }) == 0
				}
			}
			// only when that update gave V's content exactly is the longer-lived value used in place of the fresh one
			if ok {
				if o2 := c10OutOf(T, 0, p2); o2.Cfg != nil && c.Dout.Cfg != nil && o2.Cfg.val() == c.Dout.Cfg.val() {
					prior = p2
				}
			}
		}
		a, b := c10Build(T, c.V), c10Build(T, c.B)
		// where a slice of the second value is a proper prefix of the first value's, the second value holds it the way
		// `after := before; after.X = after.X[:n]` does: same storage, shorter length
		for i, f := range T.fields {
			if f.kind != 2 {
				continue
			}
			va, vb := c.V.Vals[i].L, c.B.Vals[i].L
			if len(vb) == 0 || len(vb) >= len(va) || fmt.Sprint(va[:len(vb)]) != fmt.Sprint(vb) {
				continue
			}
			fa, fb := a.Elem().Field(f.idx), b.Elem().Field(f.idx)
			if fa.Kind() == reflect.Slice && fa.Len() >= len(vb) {
				fb.Set(fa.Slice(0, len(vb)))
			}
		}
		var pts data.Points
		c.DiffClass = c10Protect(func() error {
			var err error
			pts, err = data.DiffPoints[any](a.Interface(), b.Interface())
			return err
		})
		if c.DiffClass == 0 {
			c.Diff = c10FromPoints(pts)
			c10Canon(T, false, c.Diff)
			c.Min = append([]c10Pt{}, c.Diff...)
			c10ShuffleRuns(T, false, c.Min, rand.New(rand.NewSource(c.Shuf+1)))
		}
		if c.Dout != nil && c.Dout.Class == 0 && c.DiffClass == 0 {
			mp := c10ToPoints(c.Min)
			class := c10Protect(func() error { return data.MergePoints(string(c.V.ID), mp, prior.Interface()) })
			c.Mout = c10OutOf(T, class, prior)
		}
		if c.Gen != "boundary" {
			exp := c10Expected(T, c.V, c.B)
			if c.Mout == nil || c.Mout.Class != 0 || c.Mout.Cfg.val() != exp.val() {
				c.Key = "c10:diffmerge:" + c.Type
				if c.Mout != nil && c.Mout.Class == 1 && c10MapRunOver(T, c.Diff) {
					c.Key = "c10:diffmerge:map-diff-over-1000-points"
				}
			}
		}
	}
}

// does the difference hold more than 1000 points for one map field?
func c10MapRunOver(T *c10Type, ps []c10Pt) bool {
	n := map[string]int{}
	for _, p := range ps {
		if T.isMapType(false, string(p.Type)) {
			n[string(p.Type)]++
		}
	}
	for _, k := range n {
		if k > 1000 {
			return true
		}
	}
	return false
}

// point fields of b, everything else of a
func c10Expected(T *c10Type, a, b *c10Cfg) *c10Cfg {
	out := &c10Cfg{ID: a.ID, Parent: a.Parent}
	for i, f := range T.fields {
		if f.edge {
			out.Vals = append(out.Vals, a.Vals[i])
		} else {
			out.Vals = append(out.Vals, b.Vals[i])
		}
	}
	return out
}

func (c *c10Case) val() string {
	T := c10TypeByName(c.Type)
	if c.Kind == "tree" {
		return vL("2", vBool(c.Gen == "wf"), T.tdesc, c.TV.val(), c.TN.val(), c.TDout.val())
	}
	if c.Kind == "roundtrip" {
		enc := vL("1", (&c10Node{}).val())
		if c.EncClass == 0 {
			enc = vL("0", c.Enc.val())
		} else if c.EncClass == 2 {
			enc = vL("2")
		}
		return vL("0", vBool(c.Gen == "wf"), T.desc, c.V.val(), enc, c.Din.val(), c10OptOut(c.Dout))
	}
	d := vL("1", vL())
	if c.DiffClass == 0 {
		d = vL("0", c10PtsVal(c.Diff))
	} else if c.DiffClass == 2 {
		d = vL("2")
	}
	return vL("1", vBool(c.Gen == "wf"), T.desc, c.V.val(), c.B.val(), c10OptOut(c.Dout), d, c10PtsVal(c.Min), c10OptOut(c.Mout))
}

// ---------------------------------------------------------------------------
// generator
// ---------------------------------------------------------------------------

const c10MaxSafe = 1<<53 - 1

type c10Gen struct {
	r *rand.Rand
	// boundary: may leave the well-formed domain (NaN, > 2^53, > 1000 elements, key "")
	boundary bool
	// noNegZero: no -0.0 (pairs: Go's == cannot see a change of sign of zero)
	noNegZero bool
	bigUsed   bool
	noBig     bool
	noBlank   bool // no map key "" (pairs: Points.Add folds "" and "0")
}

var c10F64Pool = []uint64{
	0, 0x8000000000000000, 0x3ff0000000000000, 0xbff0000000000000, 0x3fb999999999999a, 0x402edc28f5c28f5c,
	0x7fefffffffffffff, 0x0000000000000001, 0x7ff0000000000000, 0xfff0000000000000, 0x4340000000000000,
	0x433fffffffffffff, 0x41dfffffffc00000, 0xc1e0000000000000, 0x3fe0000000000000, 0x36a0000000000000,
	0x47efffffe0000000, 0x47effffff0000000, 0x380fffffffffffff,
}
var c10F32Pool = []uint32{
	0, 0x80000000, 0x3f800000, 0xbf800000, 0x3dcccccd, 0x7f7fffff, 0x00000001, 0x007fffff, 0x00800000,
	0x7f800000, 0xff800000, 0x4b800000, 0x41200000,
}

func (g *c10Gen) f64() uint64 {
	for {
		var b uint64
		switch g.r.Intn(4) {
		case 0:
			b = g.r.Uint64()
		case 1:
			b = math.Float64bits(float64(g.r.Intn(2001)-1000) / 8)
		default:
			b = c10F64Pool[g.r.Intn(len(c10F64Pool))]
		}
		if g.boundary && g.r.Intn(6) == 0 {
			return []uint64{0x7ff8000000000000, 0x7ff0000000000001, 0xfff8000000000001, 0x7ff8000020000000}[g.r.Intn(4)]
		}
		if math.IsNaN(math.Float64frombits(b)) {
			continue
		}
		if g.noNegZero && b == 0x8000000000000000 {
			continue
		}
		return b
	}
}

func (g *c10Gen) f32() uint64 {
	for {
		var b uint32
		switch g.r.Intn(4) {
		case 0:
			b = g.r.Uint32()
		case 1:
			b = math.Float32bits(float32(g.r.Intn(2001)-1000) / 8)
		default:
			b = c10F32Pool[g.r.Intn(len(c10F32Pool))]
		}
		if g.boundary && g.r.Intn(6) == 0 {
			return uint64([]uint32{0x7fc00000, 0x7f800001, 0xffc00001, 0x7fa00000}[g.r.Intn(4)])
		}
		if e, m := (b>>23)&0xff, b&0x7fffff; e == 255 && m != 0 {
			continue
		}
		if g.noNegZero && b == 0x80000000 {
			continue
		}
		return uint64(b)
	}
}

func (g *c10Gen) str() []byte {
	pool := []string{"", "a", "test type", "192.168.1.1", "0", "héllo", "日本", "\x00", "\xff\xfe", "hi there", "x y\tz\n", "1", "-"}
	if g.r.Intn(3) == 0 {
		n := g.r.Intn(12)
		b := make([]byte, n)
		for i := range b {
			b[i] = byte(g.r.Intn(256))
		}
		return b
	}
	return []byte(pool[g.r.Intn(len(pool))])
}

func (g *c10Gen) prim(p c10Prim) c10PV {
	switch p.tag {
	case 0:
		return c10PV{K: 0, B: g.r.Intn(2) == 0}
	case 1:
		var lim uint64 = 1<<(p.w-1) - 1 // max positive
		var mag uint64
		neg := g.r.Intn(2) == 0
		top := lim
		if neg {
			top = lim + 1
		}
		safeTop := top
		if safeTop > c10MaxSafe {
			safeTop = c10MaxSafe
		}
		switch g.r.Intn(6) {
		case 0:
			mag = 0
		case 1:
			mag = 1
		case 2:
			mag = safeTop
		case 3:
			mag = safeTop - uint64(g.r.Intn(3))
		default:
			mag = g.r.Uint64() % (safeTop + 1)
			if g.r.Intn(2) == 0 {
				mag %= 1000
			}
		}
		if g.boundary && p.w == 64 && g.r.Intn(4) == 0 {
			mag = []uint64{c10MaxSafe + 1, c10MaxSafe + 2, top, top - 1, 1 << 60}[g.r.Intn(5)]
		}
		if mag == 0 {
			neg = false
		}
		return c10PV{K: 1, Neg: neg, Mag: mag}
	case 2:
		var top uint64 = math.MaxUint64
		if p.w < 64 {
			top = 1<<p.w - 1
		}
		safeTop := top
		if safeTop > c10MaxSafe {
			safeTop = c10MaxSafe
		}
		var mag uint64
		switch g.r.Intn(6) {
		case 0:
			mag = 0
		case 1:
			mag = 1
		case 2:
			mag = safeTop
		case 3:
			mag = safeTop - uint64(g.r.Intn(3))
		default:
			mag = g.r.Uint64() % (safeTop + 1)
			if g.r.Intn(2) == 0 {
				mag %= 1000
			}
		}
		if g.boundary && p.w == 64 && g.r.Intn(4) == 0 {
			mag = []uint64{c10MaxSafe + 1, top, 1 << 63, 1 << 60}[g.r.Intn(4)]
		}
		return c10PV{K: 1, Mag: mag}
	case 3:
		return c10PV{K: 2, Bits: g.f32()}
	case 4:
		return c10PV{K: 3, Bits: g.f64()}
	}
	return c10PV{K: 4, S: g.str()}
}

// sizes skewed to 0, 1, 2, 999, 1000; at most one big aggregate per value
func (g *c10Gen) size() int {
	x := g.r.Intn(100)
	switch {
	case x < 18:
		return 0
	case x < 36:
		return 1
	case x < 52:
		return 2
	case x < 80:
		return 3 + g.r.Intn(8)
	case x < 97:
		if g.bigUsed {
			return 3
		}
		g.bigUsed = true
		if g.boundary && g.r.Intn(3) == 0 {
			return 1001
		}
		return 999 + g.r.Intn(2)
	}
	return 12 + g.r.Intn(40)
}

func (g *c10Gen) key() []byte {
	pool := []string{"a", "b", "temp1", "temp2", "/", "/home", "0", "1", "2", "007", "+5", "-1", "hello", "goodbye", "K", "ключ", " ", "0.5", "00", "x\x00y", "\xff"}
	if g.r.Intn(3) == 0 {
		n := 1 + g.r.Intn(6)
		b := make([]byte, n)
		for i := range b {
			b[i] = byte(32 + g.r.Intn(95))
		}
		return b
	}
	return []byte(pool[g.r.Intn(len(pool))])
}

func (g *c10Gen) mapOf(p c10Prim, n int) c10FV {
	fv := c10FV{Kind: 3}
	seen := map[string]bool{}
	if g.boundary && !g.noBlank && n > 0 && g.r.Intn(3) == 0 {
		seen[""] = true // map key "" comes back as "0"
	}
	for len(seen) < n {
		k := g.key()
		if n > 30 {
			k = []byte(fmt.Sprintf("k%04d", g.r.Intn(5000)))
		}
		// never both "" and "0": Points.Add would fold them together
		if string(k) == "0" && seen[""] {
			continue
		}
		seen[string(k)] = true
	}
	keys := make([]string, 0, n)
	for k := range seen {
		keys = append(keys, k)
	}
	sort.Strings(keys)
	for _, k := range keys {
		fv.Keys = append(fv.Keys, []byte(k))
		fv.L = append(fv.L, g.prim(p))
	}
	return fv
}

func (g *c10Gen) field(f c10Field) c10FV {
	switch f.kind {
	case 0:
		return c10FV{Kind: 0, L: []c10PV{g.prim(f.prim)}}
	case 1:
		if g.r.Intn(3) == 0 {
			return c10FV{Kind: 1, Nil: true}
		}
		return c10FV{Kind: 1, L: []c10PV{g.prim(f.prim)}}
	case 2:
		n := g.size()
		fv := c10FV{Kind: 2}
		for i := 0; i < n; i++ {
			fv.L = append(fv.L, g.prim(f.prim))
		}
		return fv
	case 3:
		fv := c10FV{Kind: 2}
		for i := 0; i < f.n; i++ {
			fv.L = append(fv.L, g.prim(f.prim))
		}
		return fv
	case 4:
		n := g.size()
		if n == 1001 && !g.boundary {
			n = 1000
		}
		return g.mapOf(f.prim, n)
	case 5:
		fv := c10FV{Kind: 4}
		for _, kp := range f.fs {
			fv.L = append(fv.L, g.prim(kp.prim))
		}
		return fv
	}
	if g.r.Intn(3) == 0 {
		return c10FV{Kind: 5, Nil: true}
	}
	fv := c10FV{Kind: 5}
	for _, kp := range f.fs {
		fv.L = append(fv.L, g.prim(kp.prim))
	}
	return fv
}

func (g *c10Gen) id() []byte {
	pool := []string{"id1", "123", "inst1", "9b0f7c1e-6a3c-4b0a-8f5e-2d1c0b9a8f7e", "root", "0"}
	return []byte(pool[g.r.Intn(len(pool))])
}

func (g *c10Gen) cfg(T *c10Type) *c10Cfg {
	g.bigUsed = g.noBig
	c := &c10Cfg{ID: g.id(), Parent: []byte{}}
	if g.r.Intn(2) == 0 {
		c.Parent = g.id()
	}
	if g.boundary && g.r.Intn(8) == 0 {
		c.ID = []byte{}
	}
	for _, f := range T.fields {
		c.Vals = append(c.Vals, g.field(f))
	}
	return c
}

func c10CopyFV(f c10FV) c10FV {
	out := c10FV{Kind: f.Kind, Nil: f.Nil}
	out.L = append([]c10PV{}, f.L...)
	out.Keys = append([][]byte{}, f.Keys...)
	if len(out.L) == 0 {
		out.L = nil
	}
	if len(out.Keys) == 0 {
		out.Keys = nil
	}
	return out
}

// mutate produces the "after" value of a pair: some fields unchanged, slices
// shrunk / grown / edited, map entries removed / added / changed, pointers
// flipped between nil and set, struct members edited.
func (g *c10Gen) mutate(T *c10Type, a *c10Cfg) *c10Cfg {
	b := &c10Cfg{ID: a.ID, Parent: a.Parent}
	for i, f := range T.fields {
		old := c10CopyFV(a.Vals[i])
		x := g.r.Intn(10)
		if x < 3 || (f.edge && x < 8) {
			b.Vals = append(b.Vals, old)
			continue
		}
		if x == 3 {
			nv := g.field(f)
			if f.kind == 4 || f.kind == 2 {
				// keep big ones rare
				if len(nv.L) > 100 && len(old.L) > 100 {
					nv = old
				}
			}
			b.Vals = append(b.Vals, nv)
			continue
		}
		switch f.kind {
		case 0:
			old.L[0] = g.prim(f.prim)
		case 1:
			if old.Nil || g.r.Intn(3) > 0 {
				old.Nil, old.L = false, []c10PV{g.prim(f.prim)}
			} else {
				old.Nil, old.L = true, nil
			}
		case 2:
			switch g.r.Intn(5) {
			case 0: // shrink
				if len(old.L) > 0 {
					k := g.r.Intn(len(old.L) + 1)
					if g.r.Intn(2) == 0 {
						k = len(old.L) - 1 - g.r.Intn(c10Min(len(old.L), 3))
						if k < 0 {
							k = 0
						}
					}
					old.L = old.L[:k]
				}
			case 1: // grow
				n := 1 + g.r.Intn(3)
				if len(old.L)+n > 1000 {
					n = 1000 - len(old.L)
				}
				for j := 0; j < n; j++ {
					old.L = append(old.L, g.prim(f.prim))
				}
			case 2: // shrink and edit
				if len(old.L) > 1 {
					old.L = old.L[:len(old.L)-1]
					old.L[g.r.Intn(len(old.L))] = g.prim(f.prim)
				}
			default: // edit
				for j := 0; j < 1+g.r.Intn(3) && len(old.L) > 0; j++ {
					old.L[g.r.Intn(len(old.L))] = g.prim(f.prim)
				}
			}
			if len(old.L) == 0 {
				old.L = nil
			}
		case 3:
			for j := 0; j < 1+g.r.Intn(3) && len(old.L) > 0; j++ {
				old.L[g.r.Intn(len(old.L))] = g.prim(f.prim)
			}
		case 4:
			m := map[string]c10PV{}
			for j := range old.L {
				m[string(old.Keys[j])] = old.L[j]
			}
			ops := 1 + g.r.Intn(3)
			for j := 0; j < ops; j++ {
				switch g.r.Intn(3) {
				case 0: // remove
					for k := range old.Keys {
						if g.r.Intn(2) == 0 {
							delete(m, string(old.Keys[k]))
							break
						}
					}
				case 1: // add
					if len(m) < 1000 {
						k := string(g.key())
						if _, has := m[""]; has && k == "0" {
							break
						}
						m[k] = g.prim(f.prim)
					}
				default: // change
					if len(old.Keys) > 0 {
						k := string(old.Keys[g.r.Intn(len(old.Keys))])
						if _, ok := m[k]; ok {
							m[k] = g.prim(f.prim)
						}
					}
				}
			}
			keys := make([]string, 0, len(m))
			for k := range m {
				keys = append(keys, k)
			}
			sort.Strings(keys)
			old.Keys, old.L = nil, nil
			for _, k := range keys {
				old.Keys = append(old.Keys, []byte(k))
				old.L = append(old.L, m[k])
			}
		case 5:
			for j := 0; j < 1+g.r.Intn(2); j++ {
				k := g.r.Intn(len(f.fs))
				old.L[k] = g.prim(f.fs[k].prim)
			}
		case 6:
			if old.Nil {
				old.Nil = false
				old.L = nil
				for _, kp := range f.fs {
					old.L = append(old.L, g.prim(kp.prim))
				}
			} else if g.r.Intn(3) == 0 {
				old.Nil, old.L = true, nil
			} else {
				k := g.r.Intn(len(f.fs))
				old.L[k] = g.prim(f.fs[k].prim)
			}
		}
		b.Vals = append(b.Vals, old)
	}
	return b
}

func c10Min(a, b int) int {
	if a < b {
		return a
	}
	return b
}

func c10PickType(r *rand.Rand) *c10Type {
	// the big-array type is costly (1999 points per value): keep it rare
	if r.Intn(90) == 0 {
		return c10TypeByName("c10BigArray")
	}
	return c10Types[r.Intn(len(c10Types)-1)]
}

func c10GenCase(r *rand.Rand, kind string) *c10Case {
	T := c10PickType(r)
	g := &c10Gen{r: r, noBig: r.Intn(12) > 0}
	c := &c10Case{Kind: kind, Type: T.name, Shuf: r.Int63(), Gen: "wf"}
	if r.Intn(12) == 0 {
		g.boundary, c.Gen = true, "boundary"
	}
	if kind == "diffmerge" {
		g.noNegZero = !g.boundary
		g.noBlank = true
		c.V = g.cfg(T)
		c.B = g.mutate(T, c.V)
		if !g.boundary && r.Intn(3) == 0 {
			// a value with a history: Pre -> V shrinks its slices, V -> B lets them grow again inside what they held,
			// with zero entries that are not the last
			c.Pre = c.V
			c.V = g.mutate(T, c.Pre)
			for i, f := range T.fields {
				if f.kind == 2 && !f.edge && len(c.Pre.Vals[i].L) >= 3 {
					c.V.Vals[i] = c10CopyFV(c.Pre.Vals[i])
					c.V.Vals[i].L = c.V.Vals[i].L[:1+r.Intn(len(c.Pre.Vals[i].L)-2)]
				}
			}
			c.B = g.mutate(T, c.V)
			for i, f := range T.fields {
				if f.kind == 2 && !f.edge && len(c.Pre.Vals[i].L) >= 3 && r.Intn(4) != 0 {
					nv := c10CopyFV(c.V.Vals[i])
					zero := c10PV{K: nv.L[0].K}
					for len(nv.L) < len(c.Pre.Vals[i].L)-1 {
						nv.L = append(nv.L, zero)
					}
					nv.L = append(nv.L, g.prim(f.prim))
					c.B.Vals[i] = nv
				}
			}
		}
	} else {
		c.V = g.cfg(T)
	}
	return c
}

// the listed finding of this property, every run: two maps of 600 entries each with no key in common; their difference
// holds 1200 points (600 removed, 600 added), which MergePoints refuses although neither map is over the limit
func c10BigMapDiffCase(r *rand.Rand) *c10Case {
	for _, T := range c10Types {
		for i, f := range T.fields {
			if f.kind != 4 || f.edge {
				continue
			}
			g := &c10Gen{r: r, noBig: true, noNegZero: true, noBlank: true}
			c := &c10Case{Kind: "diffmerge", Type: T.name, Shuf: 7, Gen: "wf"}
			c.V = g.cfg(T)
			c.B = &c10Cfg{ID: c.V.ID, Parent: c.V.Parent}
			for j := range c.V.Vals {
				c.B.Vals = append(c.B.Vals, c10CopyFV(c.V.Vals[j]))
			}
			mk := func(prefix string) c10FV {
				fv := c10FV{Kind: c.V.Vals[i].Kind}
				for k := 0; k < 600; k++ {
					fv.Keys = append(fv.Keys, []byte(fmt.Sprintf("%s%03d", prefix, k)))
					fv.L = append(fv.L, g.prim(f.prim))
				}
				return fv
			}
			c.V.Vals[i], c.B.Vals[i] = mk("a"), mk("b")
			return c
		}
	}
	return nil
}

func c10Digest(s string) string {
	h := sha1.Sum([]byte(s))
	return hex.EncodeToString(h[:])[:16]
}

func c10Points(c *c10Cfg) int {
	n := 0
	for _, f := range c.Vals {
		if f.Nil {
			n++
		} else {
			n += len(f.L)
		}
	}
	return n
}

func c10SizeClass(n int) string {
	switch {
	case n == 0:
		return "0"
	case n == 1:
		return "1"
	case n == 2:
		return "2"
	case n < 100:
		return "3-99"
	case n < 999:
		return "100-998"
	case n <= 1000:
		return "999-1000"
	}
	return ">1000"
}

func c10Run(cfg *config) error {
	log.SetOutput(io.Discard)
	cs := newCaseSet("c10")
	var cases []*c10Case
	if cfg.replay != "" {
		b, err := os.ReadFile(cfg.replay)
		if err != nil {
			return err
		}
		var rp struct {
			Cases []*c10Case `json:"cases"`
		}
		if err := json.Unmarshal(b, &rp); err != nil {
			return err
		}
		cases = rp.Cases
	} else {
		r := rand.New(rand.NewSource(cfg.seed))
		for i := 0; i < 2400*cfg.scale; i++ {
			cases = append(cases, c10GenCase(r, "roundtrip"))
		}
		for i := 0; i < 1200*cfg.scale; i++ {
			cases = append(cases, c10GenCase(r, "diffmerge"))
		}
		// the case of the listed finding (its own random stream: the other cases stay what they were)
		if bm := c10BigMapDiffCase(rand.New(rand.NewSource(cfg.seed + 77))); bm != nil {
			cases = append(cases, bm)
		}
		for i := 0; i < 400*cfg.scale; i++ {
			cases = append(cases, c10GenTreeCase(r))
		}
	}
	for i, c := range cases {
		c.ID = i
		T := c10TypeByName(c.Type)
		if T == nil {
			return fmt.Errorf("case %d: unknown type %q", i, c.Type)
		}
		c10RunImpl(c)
		line := c.val()
		cs.add(line, c10Slim(c))
		cs.count("kind:" + c.Kind)
		cs.count("gen:" + c.Gen)
		cs.count("type:" + strings.TrimPrefix(c.Type, "c10"))
		maxLen := 0
		if c.Kind == "tree" {
			cs.count(fmt.Sprintf("tree-nodes:%s", c10SizeClass(c.TN.count())))
			cs.count(fmt.Sprintf("tree-decode:class%d", c.TDout.Class))
			if c.TN.count() >= 2 {
				cs.markNontrivial(c10Digest(c.TV.val()))
			}
			if c.Key != "" {
				cs.count("harness-flagged")
			}
			if len(cs.samples) < 3 && len(line) < 1500 {
				cs.samples = append(cs.samples, c)
			}
			continue
		}
		for j, f := range c.V.Vals {
			if k := T.fields[j].kind; k == 2 || k == 4 {
				cs.count(fmt.Sprintf("size:%s", c10SizeClass(len(f.L))))
				if len(f.L) > maxLen {
					maxLen = len(f.L)
				}
			}
		}
		if c.Kind == "roundtrip" {
			cs.count(fmt.Sprintf("encode:class%d", c.EncClass))
			if c10Points(c.V) >= 3 {
				cs.markNontrivial(c10Digest(c.Type + c.V.val()))
			}
		} else {
			cs.count(fmt.Sprintf("diff:class%d", c.DiffClass))
			cs.count("diffpoints:" + c10SizeClass(len(c.Diff)))
			nt := 0
			for _, p := range c.Diff {
				if p.Tomb != 0 {
					nt++
				}
			}
			if nt > 0 {
				cs.count("diff:with-tombstones")
			}
			if len(c.Diff) >= 1 {
				cs.markNontrivial(c10Digest(c.Type + c.V.val() + c.B.val()))
			}
		}
		if c.Key != "" {
			cs.count("harness-flagged")
		}
		if len(cs.samples) < 3 && len(line) < 1500 {
			cs.samples = append(cs.samples, c)
		}
	}
	return cs.write(cfg.out)
}

// the JSON of a case keeps every input; bulky observed outputs are dropped
// when large (they are recomputed on replay)
func c10Slim(c *c10Case) *c10Case {
	if c.Kind == "tree" {
		if c.TN.count() < 8 {
			return c
		}
		s := *c
		s.TN, s.TDout = nil, nil
		s.Note = "outputs omitted (large case); re-run with -replay"
		return &s
	}
	if c10Points(c.V) < 40 && (c.B == nil || c10Points(c.B) < 40) {
		return c
	}
	s := *c
	s.Enc, s.Din, s.Dout, s.Diff, s.Min, s.Mout = nil, nil, nil, nil, nil, nil
	s.Note = "outputs omitted (large case); re-run with -replay"
	return &s
}
