package main

import (
	"fmt"
	"math"
	"math/rand"
	"sort"
	"strings"
)

// generator of store scripts (shared by C01, C03, C05, C06 with different emphasis)

type storeGenState struct {
	r       *rand.Rand
	clock   int64                     // strictly increasing control clock (ns)
	used    map[string]map[int64]bool // target|type|normkey -> times used
	nodes   []string                  // node ids that exist (have an edge) or were written to
	edges   map[string]bool           // "parent>node" present
	parents map[string][]string       // node -> parents (any edge)
	ops     []sOp
	kinds   map[string]int
	extra   []string // further ids to dump
	ties    bool     // may write an identity again at an instant already used for it (not for the newest-wins scripts)
	tied    bool     // the last freshTime was such an instant
	last    map[string]sPoint
}

const storeBase = int64(1700000000) * 1e9

var storeTypes = []string{"value", "description", "ab", "a", "tA"}
var storeKeys = []string{"", "0", "1", "b", "k", "10", "-1", " "}

// keys that sort after "" and before "0" (a sort of the batch by key puts them between the two spellings of key zero)
var storeKeysBelowZero = []string{"-1", " ", "/", "#x", "+5", "!"}
var storeTexts = []string{"", "x", "héllo", "日本語", "a b", "line1\nline2"}
var storeNodeTypes = []string{"group", "variable", "device", "user"}

func (g *storeGenState) tick() int64 {
	g.clock += int64(1+g.r.Intn(5)) * 1e9
	return g.clock
}

func storeNormKey(k string) string {
	if k == "" {
		return "0"
	}
	return k
}

// a time not yet used for this identity on this target
func (g *storeGenState) freshTime(target, typ, key string) int64 {
	id := target + "|" + typ + "|" + storeNormKey(key)
	if g.used[id] == nil {
		g.used[id] = map[int64]bool{}
	}
	if g.ties && len(g.used[id]) > 0 && g.r.Intn(7) == 0 {
		// the very instant of an earlier write to this identity, with other content: which of the two is read is the
		// store's business (the newest-wins statement does not say), but hashes, rebroadcast and refusals must be right
		ts := make([]int64, 0, len(g.used[id]))
		for t := range g.used[id] {
			ts = append(ts, t)
		}
		sort.Slice(ts, func(i, j int) bool { return ts[i] < ts[j] })
		g.kinds["same-instant-other-content"]++
		g.tied = true
		return ts[g.r.Intn(len(ts))]
	}
	for {
		t := storeBase + int64(g.r.Intn(2000))*1e9 + int64(g.r.Intn(3))*int64(g.r.Intn(1000000000))
		if g.r.Intn(8) == 0 {
			t = g.tick()
		}
		if g.r.Intn(10) == 0 {
			// instants at and before the Unix epoch are timestamps like any other
			t = int64(g.r.Intn(7)-5) * int64(1+g.r.Intn(2000)) * 1e6
		}
		if !g.used[id][t] {
			g.used[id][t] = true
			return t
		}
	}
}

// an instant near either end of the representable range, not yet used for the identity ("edge-of-time", "far") on this target
func (g *storeGenState) freshFar(target string) int64 {
	id := target + "|edge-of-time|far"
	if g.used[id] == nil {
		g.used[id] = map[int64]bool{}
	}
	for {
		t := int64(math.MinInt64) + int64(g.r.Intn(1000000))
		if g.r.Intn(2) == 0 {
			t = int64(math.MaxInt64) - int64(g.r.Intn(1000000))
		}
		if g.r.Intn(4) == 0 {
			t = storeBase + int64(g.r.Intn(1000))*1e9 // ... or an everyday one in between
		}
		if !g.used[id][t] {
			g.used[id][t] = true
			return t
		}
	}
}

func (g *storeGenState) value() uint64 {
	switch g.r.Intn(15) {
	case 14:
		return 0x8000000000000000 // negative zero: the value zero
	case 0:
		return math.Float64bits(0)
	case 1:
		return math.Float64bits(math.Inf(1))
	case 2:
		return math.Float64bits(math.Inf(-1))
	case 3:
		return math.Float64bits(1e300)
	case 4:
		return math.Float64bits(5e-324)
	case 5:
		return math.Float64bits(-1.5)
	case 6:
		return math.Float64bits(float64(int64(1) << 53))
	case 7:
		return g.r.Uint64() & 0x7FEFFFFFFFFFFFFF // arbitrary finite pattern
	default:
		return math.Float64bits(float64(g.r.Intn(100)))
	}
}

// identities that collide when type and key are concatenated (with or without the "" -> "0"
// normalisation): splits of one string at different positions
var storeCollide = []string{"value10", "ab0", "abc0", "tA1"}

func (g *storeGenState) collidingIdent() (string, string) {
	s := storeCollide[g.r.Intn(len(storeCollide))]
	i := 1 + g.r.Intn(len(s)-1)
	typ, key := s[:i], s[i:]
	if key == "0" && g.r.Intn(2) == 0 {
		key = ""
	}
	return typ, key
}

func (g *storeGenState) dataPoint(target string) sPoint {
	typ := storeTypes[g.r.Intn(len(storeTypes))]
	key := storeKeys[g.r.Intn(len(storeKeys))]
	if g.r.Intn(4) == 0 {
		typ, key = g.collidingIdent()
	}
	if g.r.Intn(12) == 0 {
		typ = "" // an untyped point is a point like any other
	}
	p := sPoint{Type: typ, Key: key, VBits: g.value(), Text: storeTexts[g.r.Intn(len(storeTexts))]}
	if g.r.Intn(20) == 0 {
		// a long text (a description, a certificate): contents that differ only far into it
		p.Text = strings.Repeat("long text ", 30) + []string{"ending one", "ending two", "ending 2"}[g.r.Intn(3)]
		g.kinds["long-text"]++
	}
	g.tied = false
	p.Time = g.freshTime(target, typ, key)
	if g.r.Intn(4) == 0 {
		p.Data = []byte{byte(g.r.Intn(256)), 0, byte(g.r.Intn(256))}
	}
	if g.r.Intn(4) == 0 {
		p.Tomb = g.r.Intn(3)
	}
	if g.r.Intn(3) == 0 {
		p.Origin = []string{"o1", "n1", "user-x"}[g.r.Intn(3)]
	}
	id := target + "|" + typ + "|" + storeNormKey(key)
	if g.last == nil {
		g.last = map[string]sPoint{}
	}
	idt := fmt.Sprintf("%s@%d", id, p.Time)
	if q, ok := g.last[idt]; ok && g.tied && g.r.Intn(3) != 0 {
		// ... or the same instant, value and text as before and only the fields the checksum does not cover changed
		// (a deletion that reuses the time of what it deletes, a new payload, another author)
		p.VBits, p.Text = q.VBits, q.Text
		p.Tomb, p.Data, p.Origin = q.Tomb+1, []byte{byte(len(g.ops)), 1}, "rewriter"
		g.kinds["same-instant-same-checksum"]++
	}
	g.last[idt] = p
	return p
}

func (g *storeGenState) batch(target string, max int) []sPoint {
	n := 1 + g.r.Intn(max)
	var ps []sPoint
	for i := 0; i < n; i++ {
		p := g.dataPoint(target)
		ps = append(ps, p)
		if g.r.Intn(6) == 0 {
			// a second point of the same identity in the batch, written with the other spelling of the key
			q := g.dataPoint(target)
			q.Type = p.Type
			switch p.Key {
			case "":
				q.Key = "0"
			case "0":
				q.Key = ""
			default:
				q.Key = p.Key
			}
			q.Time = g.freshTime(target, q.Type, q.Key)
			ps = append(ps, q)
			if (p.Key == "" || p.Key == "0") && g.r.Intn(2) == 0 {
				// ... and a third point of that type whose key lies between "" and "0" in byte order
				z := g.dataPoint(target)
				z.Type, z.Key = p.Type, storeKeysBelowZero[g.r.Intn(len(storeKeysBelowZero))]
				z.Time = g.freshTime(target, z.Type, z.Key)
				ps = append(ps, z)
				g.kinds["key-between-blank-and-zero"]++
			}
		}
	}
	if g.r.Intn(8) == 0 {
		// an untyped and a typed point with the same key in one batch: two identities, two rows
		p := g.dataPoint(target)
		q := g.dataPoint(target)
		q.Type, q.Key = "", p.Key
		q.Time = g.freshTime(target, q.Type, q.Key)
		ps = append(ps, p, q)
	}
	if !g.ties && g.r.Intn(8) == 0 {
		// (newest-wins scripts only: the propagation clause of the hash statement is about changes whose checksum
		// delta is not zero)
		// two identities whose type and key concatenate to the same string, with the same instant, text and value:
		// their checksums are equal and cancel in every hash; both are points all the same
		s := storeCollide[g.r.Intn(len(storeCollide))]
		i := 1 + g.r.Intn(len(s)-2)
		j := i + 1 + g.r.Intn(len(s)-1-i)
		if s[i:] != "0" && s[j:] != "0" {
			p := g.dataPoint(target)
			p.Type, p.Key, p.Time = s[:i], s[i:], g.tick()
			q := p
			q.Type, q.Key = s[:j], s[j:]
			if g.r.Intn(2) == 0 {
				return []sPoint{p, q} // a batch of nothing else: the sum of its checksums is zero
			}
			ps = append(ps, p, q)
		}
	}
	if g.r.Intn(10) == 0 {
		// the first and the last instant the time column can hold are ordinary times
		p := g.dataPoint(target)
		p.Type, p.Key = "edge-of-time", fmt.Sprintf("%d", len(g.ops))
		p.Time = []int64{math.MaxInt64, math.MinInt64, math.MaxInt64 - 1, math.MinInt64 + 1}[g.r.Intn(4)]
		if g.r.Intn(2) == 0 {
			// one identity written at instants centuries apart (their distance does not fit 64-bit nanoseconds)
			p.Key = "far"
			p.Time = g.freshFar(target)
		}
		ps = append(ps, p)
	}
	g.r.Shuffle(len(ps), func(i, j int) { ps[i], ps[j] = ps[j], ps[i] })
	return ps
}

func (g *storeGenState) add(kind string, op sOp) {
	if g.r.Intn(15) == 0 {
		op.MaintAfter = true
		g.kinds["maintenance-run-after"]++
	}
	g.ops = append(g.ops, op)
	g.kinds[kind]++
}

func storeHasNaN(ps []sPoint) bool {
	for _, p := range ps {
		if math.IsNaN(math.Float64frombits(p.VBits)) {
			return true
		}
	}
	return false
}

func (g *storeGenState) pickNode() string {
	return g.nodes[g.r.Intn(len(g.nodes))]
}

func (g *storeGenState) isAncestorOrSelf(a, x string, depth int) bool {
	if a == x {
		return true
	}
	if depth > 20 {
		return false
	}
	for _, p := range g.parents[x] {
		if g.isAncestorOrSelf(a, p, depth+1) {
			return true
		}
	}
	return false
}

func (g *storeGenState) tombPoint(v float64) sPoint {
	return sPoint{Type: "tombstone", Key: "", Time: g.tick(), VBits: math.Float64bits(v)}
}

func (g *storeGenState) typePoint(t string) sPoint {
	return sPoint{Type: "nodeType", Key: "", Time: g.tick(), Text: t}
}

// create a new node under an existing one (edge first or points first)
func (g *storeGenState) createNode() {
	id := fmt.Sprintf("n%d", len(g.nodes))
	parent := g.pickNode()
	if g.r.Intn(3) == 0 {
		g.add("points-first", sOp{Kind: "np", Node: id, Points: g.batch(id, 3)})
	}
	pts := []sPoint{g.tombPoint(0), g.typePoint(storeNodeTypes[g.r.Intn(len(storeNodeTypes))])}
	if g.r.Intn(3) == 0 {
		pts = append(pts, sPoint{Type: "role", Key: "", Time: g.tick(), Text: "admin"})
	}
	g.add("create", sOp{Kind: "ep", Node: id, Parent: parent, Points: pts})
	g.nodes = append(g.nodes, id)
	g.edges[parent+">"+id] = true
	g.parents[id] = append(g.parents[id], parent)
}

// mirror an existing node under another parent (keeps the graph acyclic)
func (g *storeGenState) mirror() bool {
	for try := 0; try < 10; try++ {
		n := g.pickNode()
		p := g.pickNode()
		if n == storeRootID || g.edges[p+">"+n] || g.isAncestorOrSelf(n, p, 0) {
			continue
		}
		g.add("mirror", sOp{Kind: "ep", Node: n, Parent: p, Points: []sPoint{g.tombPoint(0), g.typePoint("group")}})
		g.edges[p+">"+n] = true
		g.parents[n] = append(g.parents[n], p)
		return true
	}
	return false
}

func (g *storeGenState) anyEdge() (string, string, bool) {
	var ks []string
	for _, n := range g.nodes {
		for _, p := range g.parents[n] {
			ks = append(ks, p+">"+n)
		}
	}
	if len(ks) == 0 {
		return "", "", false
	}
	k := ks[g.r.Intn(len(ks))]
	for i := range k {
		if k[i] == '>' {
			return k[:i], k[i+1:], true
		}
	}
	return "", "", false
}

// instants that do not fit the store's 64-bit nanosecond column: one nanosecond past either end, years 1, 1500,
// 2500 and 9999 (all of them legal on the wire)
var storeFarTimes = [][2]int64{{9223372036, 854775808}, {-9223372037, 145224191}, {-62135593200, 0}, {-14831769600, 5},
	{16725225600, 0}, {253402300799, 999999999}}

func (g *storeGenState) refused() {
	switch g.r.Intn(9) {
	case 7: // a time outside the representable range somewhere in a node point batch
		n := g.pickNode()
		ps := g.batch(n, 3)
		f := storeFarTimes[g.r.Intn(len(storeFarTimes))]
		i := g.r.Intn(len(ps))
		ps[i].Far, ps[i].Time = f[0], f[1]
		g.add("refused-time-node", sOp{Kind: "np", Node: n, Points: ps})
	case 8: // ... or in an edge point batch
		if p, n, ok := g.anyEdge(); ok {
			f := storeFarTimes[g.r.Intn(len(storeFarTimes))]
			ps := []sPoint{{Type: "sortOrder", Time: f[1], Far: f[0], VBits: g.value()}, g.tombPoint(0)}
			g.add("refused-time-edge", sOp{Kind: "ep", Node: n, Parent: p, Points: ps})
		}
	case 6: // the root gets a second parent y (accepted), then y is placed below the root: a cycle through the root
		y := fmt.Sprintf("y%d", len(g.ops))
		g.add("root-second-parent", sOp{Kind: "ep", Node: storeRootID, Parent: y, Points: []sPoint{g.tombPoint(0), g.typePoint("device")}})
		g.parents[storeRootID] = append(g.parents[storeRootID], y)
		g.edges[y+">"+storeRootID] = true
		g.extra = append(g.extra, y)
		p := g.pickNode()
		g.add("refused-cycle-through-root", sOp{Kind: "ep", Node: y, Parent: p, Points: []sPoint{g.tombPoint(0), g.typePoint("group")}})
	case 0: // self edge
		n := g.pickNode()
		g.add("refused-self", sOp{Kind: "ep", Node: n, Parent: n, Points: []sPoint{g.tombPoint(0), g.typePoint("group")}})
	case 1: // edge that would close a cycle (through live or deleted edges)
		for try := 0; try < 10; try++ {
			n := g.pickNode()
			p := g.pickNode()
			if n != p && !g.edges[p+">"+n] && g.isAncestorOrSelf(n, p, 0) && n != storeRootID {
				// (also when the new edge would be created already deleted: a deleted edge is walked like any other)
				if ps := g.parents[n]; len(ps) > 0 && ps[0] != "root" && ps[0] != p && g.r.Intn(2) == 0 {
					// the same refusal reached through the move helper of the client package: nothing of the move may happen
					g.add("refused-move-api", sOp{Kind: "ep", Node: n, Parent: p, API: "move", OldParent: ps[0],
						Points: []sPoint{g.tombPoint(0), g.typePoint("group")}})
					return
				}
				g.add("refused-cycle", sOp{Kind: "ep", Node: n, Parent: p, Points: []sPoint{g.tombPoint(float64(g.r.Intn(2))), g.typePoint("group")}})
				return
			}
		}
	case 2: // tombstone aimed at the root
		g.add("refused-root-tombstone", sOp{Kind: "ep", Node: storeRootID, Parent: "root", Points: []sPoint{g.tombPoint([]float64{1, 1, 2, 3, 0.5, 1e300, 5e-324}[g.r.Intn(7)])}}) // any value above zero deletes
	case 3: // first edge without a node type
		n := g.pickNode()
		id := fmt.Sprintf("x%d", len(g.ops))
		pts := []sPoint{g.tombPoint(0)}
		if g.r.Intn(2) == 0 {
			pts = append(pts, sPoint{Type: "nodeType", Time: g.tick(), Text: ""})
		}
		if g.r.Intn(3) == 0 {
			// ... placed directly below the sentinel "root" (the request that would make it the instance's root);
			// afterwards the real root must still be the root: it is listed as such and its tombstone is still refused
			g.add("refused-no-type-below-root", sOp{Kind: "ep", Node: id, Parent: "root", Points: pts})
			if g.r.Intn(2) == 0 {
				g.add("refused-root-tombstone", sOp{Kind: "ep", Node: storeRootID, Parent: "root", Points: []sPoint{g.tombPoint([]float64{1, 1, 2, 3, 0.5, 1e300, 5e-324}[g.r.Intn(7)])}}) // any value above zero deletes
			}
			return
		}
		g.add("refused-no-type", sOp{Kind: "ep", Node: id, Parent: n, Points: pts})
	case 4: // NaN somewhere in a node point batch
		n := g.pickNode()
		ps := g.batch(n, 3)
		ps[g.r.Intn(len(ps))].VBits = []uint64{0x7FF8000000000000, 0x7FF0000000000001, 0xFFF8000000000123}[g.r.Intn(3)]
		g.add("refused-nan-node", sOp{Kind: "np", Node: n, Points: ps})
	default: // NaN in an edge point batch
		if p, n, ok := g.anyEdge(); ok {
			ps := []sPoint{{Type: "sortOrder", Time: g.tick(), VBits: 0x7FF8000000000000}, g.tombPoint(0)}
			g.add("refused-nan-edge", sOp{Kind: "ep", Node: n, Parent: p, Points: ps})
		}
	}
}

func storeGen(r *rand.Rand, id int, flavour string) *sScript {
	g := &storeGenState{r: r, clock: storeBase + 3000*1e9, used: map[string]map[int64]bool{}, nodes: []string{storeRootID},
		edges: map[string]bool{"root>" + storeRootID: true}, parents: map[string][]string{storeRootID: {"root"}}, kinds: map[string]int{}}
	g.ties = flavour != "c01"
	nNodes := 2 + r.Intn(5)
	for i := 0; i < nNodes; i++ {
		g.createNode()
		if r.Intn(3) == 0 {
			g.mirror()
		}
	}
	if id%20 == 11 {
		// one script in twenty: a chain of 36 nodes below the root, then writes at its bottom (every hash up to the
		// root edge moves, however deep the node is)
		parent := storeRootID
		for k := 0; k < 36; k++ {
			n := fmt.Sprintf("deep%d", k)
			g.add("deep-chain", sOp{Kind: "ep", Node: n, Parent: parent, Points: []sPoint{g.tombPoint(0), g.typePoint("group")}})
			g.nodes = append(g.nodes, n)
			g.edges[parent+">"+n] = true
			g.parents[n] = append(g.parents[n], parent)
			parent = n
		}
		g.add("deep-chain-write", sOp{Kind: "np", Node: parent, Points: g.batch(parent, 2)})
		g.add("deep-chain-write", sOp{Kind: "ep", Node: parent, Parent: "deep34", Points: []sPoint{{Type: "sortOrder", Time: g.tick(), VBits: math.Float64bits(3)}}})
	}
	nOps := 4 + r.Intn(10)
	for i := 0; i < nOps; i++ {
		x := r.Intn(100)
		w := map[string][4]int{ // cumulative thresholds: data write, edge write, structure, refused
			"c01": {70, 85, 95, 100},
			"c03": {40, 65, 95, 100},
			"c05": {25, 40, 55, 100},
			"c06": {45, 75, 95, 100},
		}[flavour]
		switch {
		case x < w[0]:
			n := g.pickNode()
			if r.Intn(10) == 0 {
				n = fmt.Sprintf("orphan%d", r.Intn(2)) // points for a node that has no edge (yet)
			}
			if len(g.ops) > 0 && r.Intn(7) == 0 {
				// re-deliver an earlier request unchanged
				old := g.ops[r.Intn(len(g.ops))]
				if r.Intn(3) == 0 && len(old.Points) > 0 {
					// the same content reported again at a later instant (a sensor that still reads 5): the later point
					// is the newest one, with its own time
					again := sOp{Kind: old.Kind, Node: old.Node, Parent: old.Parent}
					for _, p := range old.Points {
						if p.Far == 0 && p.Type != "tombstone" && p.Type != "nodeType" {
							p.Time = g.tick()
							again.Points = append(again.Points, p)
						}
					}
					if len(again.Points) > 0 {
						g.add("same-content-later", again)
						continue
					}
				}
				g.add("redelivery", old)
			} else {
				if id%12 == 7 && g.kinds["node-points-large"]+g.kinds["edge-points-large"] == 0 {
					// one script in twelve: a batch of 130 points of distinct identity (still one batch: one reply, one
					// rebroadcast, all or nothing), for a node or for an edge
					big := make([]sPoint, 130)
					for i := range big {
						big[i] = sPoint{Type: "big", Key: fmt.Sprint(i), Time: g.tick(), VBits: math.Float64bits(float64(i)), Text: "x"}
					}
					if id%24 == 7 {
						// every second one of these: 45 identities, each written two or three times in the one batch (same
						// spelling of the key, distinct instants), in no particular order
						for i := range big {
							big[i].Key = fmt.Sprint(i % 45)
						}
						r.Shuffle(len(big), func(i, j int) { big[i], big[j] = big[j], big[i] })
					}
					if ep, en, ok := g.anyEdge(); ok && r.Intn(2) == 0 {
						g.add("edge-points-large", sOp{Kind: "ep", Node: en, Parent: ep, Points: big})
					} else {
						g.add("node-points-large", sOp{Kind: "np", Node: n, Points: big})
					}
					continue
				}
				g.add("node-points", sOp{Kind: "np", Node: n, Points: g.batch(n, 4)})
			}
		case x < w[1]:
			if p, n, ok := g.anyEdge(); ok {
				var pts []sPoint
				switch r.Intn(4) {
				case 0:
					pts = []sPoint{g.tombPoint(1)} // delete
					g.kinds["delete"]++
				case 1:
					pts = []sPoint{g.tombPoint(float64(2 * r.Intn(2)))} // undelete (0 or 2)
					g.kinds["undelete"]++
				default:
					pts = []sPoint{{Type: "sortOrder", Key: storeKeys[r.Intn(2)], Time: g.freshTime(p+">"+n, "sortOrder", ""), VBits: g.value(), Text: storeTexts[r.Intn(3)]}}
					if r.Intn(3) == 0 {
						pts = append(pts, sPoint{Type: "role", Time: g.freshTime(p+">"+n, "role", ""), Text: "user"})
					}
				}
				if n == storeRootID {
					pts = []sPoint{{Type: "sortOrder", Time: g.freshTime(p+">"+n, "sortOrder", ""), VBits: g.value()}}
				}
				g.add("edge-points", sOp{Kind: "ep", Node: n, Parent: p, Points: pts})
			}
		case x < w[2]:
			if r.Intn(2) == 0 {
				g.createNode()
			} else {
				g.mirror()
			}
		default:
			g.refused()
			// after a refusal, re-send a node-point request that was accepted before: it must be accepted again
			if r.Intn(2) == 0 {
				var prev []sOp
				for _, o := range g.ops {
					if o.Kind == "np" && !storeHasNaN(o.Points) {
						prev = append(prev, o)
					}
				}
				if len(prev) > 0 {
					g.add("resend-after-refusal", prev[r.Intn(len(prev))])
				}
			}
		}
	}
	// a final ordinary write: the instance must still answer
	g.add("final-write", sOp{Kind: "np", Node: storeRootID, Points: []sPoint{{Type: "value", Key: "final", Time: g.tick(), VBits: math.Float64bits(42)}}})
	// ... and must still accept what it accepted before (first accepted node-point request, re-sent)
	for _, o := range g.ops {
		if o.Kind == "np" && !storeHasNaN(o.Points) {
			g.add("final-resend", o)
			break
		}
	}
	if flavour == "c05" && id%4 == 1 {
		// at the very end of one refusal script in four: a refused root tombstone, then a new top-level node (a first
		// edge below the sentinel "root" with a node type is accepted: the instance root moves to it) and a write to it
		g.add("refused-root-tombstone", sOp{Kind: "ep", Node: storeRootID, Parent: "root", Points: []sPoint{g.tombPoint(1)}})
		top := fmt.Sprintf("top%d", id)
		g.add("new-top-node", sOp{Kind: "ep", Node: top, Parent: "root", Points: []sPoint{g.tombPoint(0), g.typePoint("device")}})
		g.add("node-points", sOp{Kind: "np", Node: top, Points: g.batch(top, 2)})
		g.extra = append(g.extra, top)
	}
	s := &sScript{ID: id, Kind: flavour, Ops: g.ops, Kinds: g.kinds}
	for _, n := range g.nodes[1:] {
		s.Nodes = append(s.Nodes, n)
	}
	s.Nodes = append(s.Nodes, "orphan0", "orphan1")
	s.Nodes = append(s.Nodes, g.extra...)
	for _, op := range g.ops {
		if op.Kind == "ep" && len(op.Node) > 0 && op.Node[0] == 'x' {
			s.Nodes = append(s.Nodes, op.Node)
		}
	}
	return s
}
