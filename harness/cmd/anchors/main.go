// anchors: translator from /repo's Go sources to Coq (coq/theories/Anchors/Generated.v).
//
// It prints, on every run, from the sources as they are now:
//   - the integer and string constants of selected packages (go/types evaluates them),
//   - selected package-level maps with constant keys and values,
//   - selected functions as MiniGo syntax trees (coq/theories/MiniGo/Syntax.v), constructor by
//     constructor, with the static type go/types gives every operation,
//   - data.Point.CRC as the list of steps that feed its hash (coq/theories/MiniGo/Recipe.v).
// It decides nothing: the theorems of coq/theories/Anchors/Tie*.v relate what it prints to the
// hand-written models, and are re-checked whenever the printed text changes.
package main

import (
	"flag"
	"fmt"
	"go/ast"
	"go/constant"
	"go/parser"
	"go/token"
	"go/types"
	"os"
	"path/filepath"
	"sort"
	"strings"
)

type noImports struct{}

func (noImports) Import(path string) (*types.Package, error) {
	return nil, fmt.Errorf("imports are not followed")
}

type pkgInfo struct {
	name  string
	fset  *token.FileSet
	files []*ast.File
	info  *types.Info
	pkg   *types.Package
}

func load(repo, dir string) (*pkgInfo, error) {
	fset := token.NewFileSet()
	pkgs, err := parser.ParseDir(fset, filepath.Join(repo, dir), func(fi os.FileInfo) bool {
		return !strings.HasSuffix(fi.Name(), "_test.go") && !strings.HasPrefix(fi.Name(), "verif_")
	}, 0)
	if err != nil {
		return nil, err
	}
	var names []string
	for n := range pkgs {
		names = append(names, n)
	}
	sort.Strings(names)
	for _, n := range names {
		if strings.HasSuffix(n, "_test") || n == "main" {
			continue
		}
		p := pkgs[n]
		var fnames []string
		for fn := range p.Files {
			fnames = append(fnames, fn)
		}
		sort.Strings(fnames)
		pi := &pkgInfo{name: n, fset: fset}
		for _, fn := range fnames {
			pi.files = append(pi.files, p.Files[fn])
		}
		pi.info = &types.Info{Types: map[ast.Expr]types.TypeAndValue{}, Defs: map[*ast.Ident]types.Object{}, Uses: map[*ast.Ident]types.Object{}}
		// no package is imported: what is printed (constants, maps of constants, integer functions) does not depend on
		// other packages, and the errors about everything that does are tolerated
		conf := types.Config{Importer: noImports{}, Error: func(error) {}, FakeImportC: true}
		pi.pkg, _ = conf.Check(dir, fset, pi.files, pi.info)
		if pi.pkg == nil {
			return nil, fmt.Errorf("%s: no package", dir)
		}
		return pi, nil
	}
	return nil, fmt.Errorf("%s: no package found", dir)
}

func coqBytes(s string) string {
	parts := make([]string, len(s))
	for i := 0; i < len(s); i++ {
		parts[i] = fmt.Sprint(s[i])
	}
	return "[" + strings.Join(parts, "; ") + "]%N"
}

func coqZ(v constant.Value) (string, bool) {
	if v == nil || v.Kind() != constant.Int {
		return "", false
	}
	s := v.ExactString()
	if strings.HasPrefix(s, "-") {
		return "(" + s + ")%Z", true
	}
	return s + "%Z", true
}

// ---------- constants ----------
func emitConsts(out *strings.Builder, pi *pkgInfo, only func(string) bool) {
	sc := pi.pkg.Scope()
	for _, n := range sc.Names() {
		c, ok := sc.Lookup(n).(*types.Const)
		if !ok || (only != nil && !only(n)) {
			continue
		}
		v := c.Val()
		switch v.Kind() {
		case constant.Int:
			z, _ := coqZ(v)
			fmt.Fprintf(out, "Definition go_%s_%s : Z := %s.\n", pi.name, n, z)
		case constant.String:
			fmt.Fprintf(out, "Definition go_%s_%s : list N := %s.\n", pi.name, n, coqBytes(constant.StringVal(v)))
		}
	}
}

// ---------- maps with constant keys and values ----------
func emitMap(out *strings.Builder, pi *pkgInfo, name string) {
	for _, f := range pi.files {
		for _, d := range f.Decls {
			gd, ok := d.(*ast.GenDecl)
			if !ok || gd.Tok != token.VAR {
				continue
			}
			for _, sp := range gd.Specs {
				vs := sp.(*ast.ValueSpec)
				for i, id := range vs.Names {
					if id.Name != name || i >= len(vs.Values) {
						continue
					}
					cl, ok := vs.Values[i].(*ast.CompositeLit)
					if !ok {
						continue
					}
					type kv struct{ k, v string }
					var kvs []kv
					okAll := true
					for _, el := range cl.Elts {
						e, ok := el.(*ast.KeyValueExpr)
						if !ok {
							okAll = false
							break
						}
						k, ok1 := coqZ(pi.info.Types[e.Key].Value)
						v, ok2 := coqZ(pi.info.Types[e.Value].Value)
						if !ok1 || !ok2 {
							okAll = false
							break
						}
						kvs = append(kvs, kv{k, v})
					}
					if !okAll {
						fmt.Fprintf(out, "(* %s.%s: not a map of integer constants *)\n", pi.name, name)
						return
					}
					sort.Slice(kvs, func(i, j int) bool {
						if len(kvs[i].k) != len(kvs[j].k) {
							return len(kvs[i].k) < len(kvs[j].k)
						}
						return kvs[i].k < kvs[j].k
					})
					parts := make([]string, len(kvs))
					for i, p := range kvs {
						parts[i] = "(" + p.k + ", " + p.v + ")"
					}
					fmt.Fprintf(out, "Definition go_%s_%s : list (Z * Z) := [%s].\n", pi.name, name, strings.Join(parts, "; "))
					return
				}
			}
		}
	}
	fmt.Fprintf(out, "(* %s.%s: not found *)\n", pi.name, name)
}

// ---------- functions as MiniGo ----------
type unsupported struct{ msg string }

func fail(pi *pkgInfo, n ast.Node, format string, a ...any) {
	panic(unsupported{fmt.Sprintf("%s: ", pi.fset.Position(n.Pos())) + fmt.Sprintf(format, a...)})
}

func coqTy(pi *pkgInfo, n ast.Node, t types.Type) string {
	b, ok := t.Underlying().(*types.Basic)
	if !ok {
		fail(pi, n, "type %s", t)
	}
	switch b.Kind() {
	case types.Uint8:
		return "(TU 8)"
	case types.Uint16:
		return "(TU 16)"
	case types.Uint32:
		return "(TU 32)"
	case types.Uint64, types.Uint:
		return "(TU 64)"
	case types.Int8:
		return "(TS 8)"
	case types.Int16:
		return "(TS 16)"
	case types.Int32:
		return "(TS 32)"
	case types.Int64, types.Int:
		return "(TS 64)"
	case types.Bool, types.UntypedBool:
		return "TBool"
	case types.UntypedInt, types.UntypedRune:
		return "TUntyped"
	}
	fail(pi, n, "type %s", t)
	return ""
}

var binops = map[token.Token]string{token.ADD: "OAdd", token.SUB: "OSub", token.MUL: "OMul", token.AND: "OAnd", token.OR: "OOr",
	token.XOR: "OXor", token.SHL: "OShl", token.SHR: "OShr", token.EQL: "OEq", token.NEQ: "ONe", token.LSS: "OLt", token.LEQ: "OLe",
	token.GTR: "OGt", token.GEQ: "OGe"}

var assignOps = map[token.Token]token.Token{token.ADD_ASSIGN: token.ADD, token.SUB_ASSIGN: token.SUB, token.MUL_ASSIGN: token.MUL,
	token.AND_ASSIGN: token.AND, token.OR_ASSIGN: token.OR, token.XOR_ASSIGN: token.XOR, token.SHL_ASSIGN: token.SHL, token.SHR_ASSIGN: token.SHR}

func isByteSlice(t types.Type) bool {
	s, ok := t.Underlying().(*types.Slice)
	if !ok {
		return false
	}
	b, ok := s.Elem().Underlying().(*types.Basic)
	return ok && b.Kind() == types.Uint8
}

func trExpr(pi *pkgInfo, e ast.Expr) string {
	tv := pi.info.Types[e]
	if tv.Value != nil {
		if z, ok := coqZ(tv.Value); ok {
			if b, okb := tv.Type.Underlying().(*types.Basic); okb && b.Info()&types.IsUntyped == 0 {
				// a typed constant expression: the compiler has already wrapped it
				return "(EConst " + z + ")"
			}
			return "(EConst " + z + ")"
		}
	}
	switch x := e.(type) {
	case *ast.ParenExpr:
		return trExpr(pi, x.X)
	case *ast.Ident:
		if _, ok := pi.info.Uses[x].(*types.Var); ok {
			return fmt.Sprintf("(EVar %q)", x.Name)
		}
		fail(pi, e, "identifier %s", x.Name)
	case *ast.BinaryExpr:
		op, ok := binops[x.Op]
		if !ok {
			fail(pi, e, "operator %s", x.Op)
		}
		return fmt.Sprintf("(EBin %s %s %s %s)", op, coqTy(pi, e, tv.Type), trExpr(pi, x.X), trExpr(pi, x.Y))
	case *ast.CallExpr:
		if len(x.Args) == 1 {
			if ftv, ok := pi.info.Types[x.Fun]; ok && ftv.IsType() {
				return fmt.Sprintf("(EConv %s %s)", coqTy(pi, e, ftv.Type), trExpr(pi, x.Args[0]))
			}
			if id, ok := x.Fun.(*ast.Ident); ok && id.Name == "len" {
				if a, ok := x.Args[0].(*ast.Ident); ok && isByteSlice(pi.info.Types[a].Type) {
					return fmt.Sprintf("(ELen %q)", a.Name)
				}
			}
		}
		fail(pi, e, "call")
	case *ast.IndexExpr:
		if a, ok := x.X.(*ast.Ident); ok && isByteSlice(pi.info.Types[a].Type) {
			return fmt.Sprintf("(EIndex %q %s)", a.Name, trExpr(pi, x.Index))
		}
		fail(pi, e, "index expression")
	}
	fail(pi, e, "expression %T", e)
	return ""
}

func mentions(n ast.Node, name string) bool {
	found := false
	ast.Inspect(n, func(m ast.Node) bool {
		if id, ok := m.(*ast.Ident); ok && id.Name == name {
			found = true
		}
		return !found
	})
	return found
}

func trBlock(pi *pkgInfo, b *ast.BlockStmt) string {
	parts := []string{}
	for _, s := range b.List {
		parts = append(parts, trStmt(pi, s))
	}
	return "[" + strings.Join(parts, ";\n ") + "]"
}

func trStmt(pi *pkgInfo, s ast.Stmt) string {
	switch x := s.(type) {
	case *ast.AssignStmt:
		if len(x.Lhs) != 1 || len(x.Rhs) != 1 {
			fail(pi, s, "multiple assignment")
		}
		id, ok := x.Lhs[0].(*ast.Ident)
		if !ok {
			fail(pi, s, "assignment to a non-variable")
		}
		switch {
		case x.Tok == token.DEFINE:
			v, ok := pi.info.Defs[id].(*types.Var)
			if !ok {
				fail(pi, s, "redeclaration")
			}
			return fmt.Sprintf("SDecl %q %s %s", id.Name, coqTy(pi, s, v.Type()), trExpr(pi, x.Rhs[0]))
		case x.Tok == token.ASSIGN:
			return fmt.Sprintf("SAssign %q %s", id.Name, trExpr(pi, x.Rhs[0]))
		default:
			op, ok := assignOps[x.Tok]
			if !ok {
				fail(pi, s, "assignment operator %s", x.Tok)
			}
			v, ok := pi.info.Uses[id].(*types.Var)
			if !ok {
				fail(pi, s, "assignment to %s", id.Name)
			}
			return fmt.Sprintf("SAssign %q (EBin %s %s (EVar %q) %s)", id.Name, binops[op], coqTy(pi, s, v.Type()), id.Name, trExpr(pi, x.Rhs[0]))
		}
	case *ast.IfStmt:
		if x.Init != nil {
			fail(pi, s, "if with an init statement")
		}
		els := "[]"
		switch e := x.Else.(type) {
		case nil:
		case *ast.BlockStmt:
			els = trBlock(pi, e)
		default:
			els = "[" + trStmt(pi, e) + "]"
		}
		return fmt.Sprintf("SIf %s\n %s\n %s", trExpr(pi, x.Cond), trBlock(pi, x.Body), els)
	case *ast.RangeStmt:
		if k, ok := x.Key.(*ast.Ident); x.Key != nil && (!ok || k.Name != "_") {
			fail(pi, s, "range with an index variable")
		}
		v, ok := x.Value.(*ast.Ident)
		sl, ok2 := x.X.(*ast.Ident)
		if !ok || !ok2 || x.Tok != token.DEFINE || !isByteSlice(pi.info.Types[sl].Type) {
			fail(pi, s, "range form")
		}
		vv := pi.info.Defs[v].(*types.Var)
		return fmt.Sprintf("SRange %q %s %q\n %s", v.Name, coqTy(pi, s, vv.Type()), sl.Name, trBlock(pi, x.Body))
	case *ast.ForStmt:
		// for i := N; i != 0; i-- { body without i }
		init, ok := x.Init.(*ast.AssignStmt)
		if !ok || init.Tok != token.DEFINE || len(init.Lhs) != 1 {
			fail(pi, s, "loop form")
		}
		iv, ok := init.Lhs[0].(*ast.Ident)
		n := pi.info.Types[init.Rhs[0]].Value
		cond, ok2 := x.Cond.(*ast.BinaryExpr)
		post, ok3 := x.Post.(*ast.IncDecStmt)
		if !ok || n == nil || !ok2 || !ok3 {
			fail(pi, s, "loop form")
		}
		ci, ok := cond.X.(*ast.Ident)
		zero := pi.info.Types[cond.Y].Value
		pi2, okp := post.X.(*ast.Ident)
		if !ok || ci.Name != iv.Name || zero == nil || constant.Sign(zero) != 0 || !(cond.Op == token.NEQ || cond.Op == token.GTR) ||
			!okp || pi2.Name != iv.Name || post.Tok != token.DEC || mentions(x.Body, iv.Name) || constant.Sign(n) < 0 {
			fail(pi, s, "loop form")
		}
		z, _ := coqZ(n)
		return fmt.Sprintf("SLoop %s\n %s", z, trBlock(pi, x.Body))
	case *ast.ReturnStmt:
		if len(x.Results) != 1 {
			fail(pi, s, "return with %d results", len(x.Results))
		}
		return "SReturn " + trExpr(pi, x.Results[0])
	case *ast.BlockStmt:
		fail(pi, s, "nested block")
	}
	fail(pi, s, "statement %T", s)
	return ""
}

// functions printed in the first fragment (MiniGo/Syntax.v), by "pkg.Name": they may be called from the second
var printedFuncs = map[string]bool{}

func emitFunc(out *strings.Builder, pi *pkgInfo, name string) {
	for _, f := range pi.files {
		for _, d := range f.Decls {
			fd, ok := d.(*ast.FuncDecl)
			if !ok || fd.Recv != nil || fd.Name.Name != name || fd.Body == nil {
				continue
			}
			func() {
				defer func() {
					if r := recover(); r != nil {
						u, ok := r.(unsupported)
						if !ok {
							panic(r)
						}
						fmt.Fprintf(out, "(* %s.%s is outside the MiniGo fragment: %s *)\n", pi.name, name, u.msg)
					}
				}()
				var slices, ints []string
				for _, p := range fd.Type.Params.List {
					for _, id := range p.Names {
						t := pi.info.Defs[id].Type()
						if isByteSlice(t) {
							slices = append(slices, fmt.Sprintf("%q", id.Name))
						} else {
							ints = append(ints, fmt.Sprintf("(%q, %s)", id.Name, coqTy(pi, p, t)))
						}
					}
				}
				body := trBlock(pi, fd.Body)
				fmt.Fprintf(out, "Definition go_%s_%s : func := {| f_name := %q; f_slices := [%s]; f_ints := [%s]; f_body :=\n %s |}.\n",
					pi.name, name, pi.name+"."+name, strings.Join(slices, "; "), strings.Join(ints, "; "), body)
				if len(slices) == 1 && len(ints) == 0 {
					printedFuncs[pi.name+"."+name] = true
				}
			}()
			return
		}
	}
	fmt.Fprintf(out, "(* %s.%s: not found *)\n", pi.name, name)
}

// ---------- functions over slices that are written (MiniGo/Slice.v) ----------
// Recognised: slice parameters and one slice result of fixed-width integers or float32 (carried as bit patterns),
// `x := e`, `s := make([]T, e)`, `s[i] = e`, `binary.BigEndian.PutUint16/32(s or s[lo:], e)`, `for i := range s`,
// `for i, v := range s`, `return s`; in expressions also `/`, `len(s)`, `s[i]`, `binary.BigEndian.Uint16/32(s, s[lo:]
// or s[lo:hi])`, `math.Float32bits(e)`, `math.Float32frombits(e)`. Every identifier may be declared once.
func elemTy(pi *pkgInfo, n ast.Node, t types.Type) string {
	if b, ok := t.Underlying().(*types.Basic); ok && b.Kind() == types.Float32 {
		return "(TU 32)" // a float32 is carried as its bit pattern
	}
	return coqTy(pi, n, t)
}

func isFloat(t types.Type) bool {
	if t == nil {
		return false
	}
	b, ok := t.Underlying().(*types.Basic)
	return ok && b.Info()&types.IsFloat != 0
}

func sliceIdent(pi *pkgInfo, e ast.Expr) (string, bool) {
	id, ok := e.(*ast.Ident)
	if !ok {
		return "", false
	}
	v, ok := pi.info.Uses[id].(*types.Var)
	if !ok {
		return "", false
	}
	if _, ok := v.Type().Underlying().(*types.Slice); !ok {
		return "", false
	}
	return id.Name, true
}

// s, s[lo:] or s[lo:hi] as the argument of a big-endian accessor
func beArg(pi *pkgInfo, e ast.Expr) (name, lo, hi string) {
	if n, ok := sliceIdent(pi, e); ok {
		return n, "(XConst 0%Z)", "None"
	}
	se, ok := e.(*ast.SliceExpr)
	if !ok || se.Slice3 {
		fail(pi, e, "argument of a big-endian accessor")
	}
	n, ok := sliceIdent(pi, se.X)
	if !ok {
		fail(pi, e, "argument of a big-endian accessor")
	}
	lo = "(XConst 0%Z)"
	if se.Low != nil {
		lo = trSExpr(pi, se.Low)
	}
	hi = "None"
	if se.High != nil {
		hi = "(Some " + trSExpr(pi, se.High) + ")"
	}
	return n, lo, hi
}

func trSExpr(pi *pkgInfo, e ast.Expr) string {
	tv := pi.info.Types[e]
	if tv.Value != nil {
		if z, ok := coqZ(tv.Value); ok {
			return "(XConst " + z + ")"
		}
		if tv.Value.Kind() == constant.Bool {
			if constant.BoolVal(tv.Value) {
				return "(XConst 1%Z)"
			}
			return "(XConst 0%Z)"
		}
	}
	switch x := e.(type) {
	case *ast.ParenExpr:
		return trSExpr(pi, x.X)
	case *ast.UnaryExpr:
		if x.Op == token.NOT {
			return "(XNot " + trSExpr(pi, x.X) + ")"
		}
		fail(pi, e, "unary operator %s", x.Op)
	case *ast.Ident:
		if v, ok := pi.info.Uses[x].(*types.Var); ok {
			if _, isSl := v.Type().Underlying().(*types.Slice); isSl {
				fail(pi, e, "slice %s used as a value", x.Name)
			}
			return fmt.Sprintf("(XVar %q)", x.Name)
		}
		fail(pi, e, "identifier %s", x.Name)
	case *ast.BinaryExpr:
		if isFloat(pi.info.Types[x.X].Type) || isFloat(pi.info.Types[x.Y].Type) {
			fail(pi, e, "floating-point arithmetic")
		}
		if id, ok := x.Y.(*ast.Ident); ok && id.Name == "nil" && x.Op == token.EQL {
			if n, ok := sliceIdent(pi, x.X); ok {
				return fmt.Sprintf("(XIsNil %q)", n)
			}
			fail(pi, e, "comparison with nil")
		}
		if x.Op == token.QUO {
			return fmt.Sprintf("(XDiv %s %s %s)", coqTy(pi, e, tv.Type), trSExpr(pi, x.X), trSExpr(pi, x.Y))
		}
		if x.Op == token.LOR {
			return fmt.Sprintf("(XOrElse %s %s)", trSExpr(pi, x.X), trSExpr(pi, x.Y))
		}
		if x.Op == token.LAND {
			return fmt.Sprintf("(XAndAlso %s %s)", trSExpr(pi, x.X), trSExpr(pi, x.Y))
		}
		op, ok := binops[x.Op]
		if !ok {
			fail(pi, e, "operator %s", x.Op)
		}
		switch x.Op {
		case token.EQL, token.NEQ, token.LSS, token.LEQ, token.GTR, token.GEQ:
			// a comparison is a boolean whatever go/types could make of its operands
			return fmt.Sprintf("(XBin %s TBool %s %s)", op, trSExpr(pi, x.X), trSExpr(pi, x.Y))
		}
		return fmt.Sprintf("(XBin %s %s %s %s)", op, coqTy(pi, e, tv.Type), trSExpr(pi, x.X), trSExpr(pi, x.Y))
	case *ast.CallExpr:
		fn := types.ExprString(x.Fun)
		switch {
		case printedFuncs[pi.name+"."+fn] && len(x.Args) == 1:
			// a function of this package that has been printed in the first fragment, applied to s, s[lo:] or s[lo:hi]
			n, lo, hi := beArg(pi, x.Args[0])
			return fmt.Sprintf("(XCall go_%s_%s %q %s %s)", pi.name, fn, n, lo, hi)
		case (fn == "binary.BigEndian.Uint16" || fn == "binary.BigEndian.Uint32") && len(x.Args) == 1:
			n, lo, hi := beArg(pi, x.Args[0])
			return fmt.Sprintf("(XGetBE %s%%Z %q %s %s)", fn[len(fn)-2:], n, lo, hi)
		case fn == "math.Float32bits" && len(x.Args) == 1:
			if !isFloat(pi.info.Types[x.Args[0]].Type) {
				fail(pi, e, "Float32bits of a non-float")
			}
			return "(XBits " + trSFloat(pi, x.Args[0]) + ")"
		case fn == "math.Float32frombits" && len(x.Args) == 1:
			fail(pi, e, "Float32frombits outside a store into a float32 slice")
		case len(x.Args) == 1:
			if ftv, ok := pi.info.Types[x.Fun]; ok && ftv.IsType() {
				if isFloat(ftv.Type) || isFloat(pi.info.Types[x.Args[0]].Type) {
					fail(pi, e, "conversion to or from a floating-point type")
				}
				return fmt.Sprintf("(XConv %s %s)", coqTy(pi, e, ftv.Type), trSExpr(pi, x.Args[0]))
			}
			if id, ok := x.Fun.(*ast.Ident); ok && id.Name == "len" {
				if n, ok := sliceIdent(pi, x.Args[0]); ok {
					return fmt.Sprintf("(XLen %q)", n)
				}
			}
		}
		fail(pi, e, "call of %s", fn)
	case *ast.IndexExpr:
		if n, ok := sliceIdent(pi, x.X); ok {
			if isFloat(tv.Type) {
				fail(pi, e, "float32 element used as a number")
			}
			return fmt.Sprintf("(XIndex %q %s)", n, trSExpr(pi, x.Index))
		}
		fail(pi, e, "index expression")
	}
	fail(pi, e, "expression %T", e)
	return ""
}

// a float32 operand of math.Float32bits: a variable or a slice element, carried as its pattern
func trSFloat(pi *pkgInfo, e ast.Expr) string {
	switch x := e.(type) {
	case *ast.ParenExpr:
		return trSFloat(pi, x.X)
	case *ast.Ident:
		if _, ok := pi.info.Uses[x].(*types.Var); ok {
			return fmt.Sprintf("(XVar %q)", x.Name)
		}
	case *ast.IndexExpr:
		if n, ok := sliceIdent(pi, x.X); ok {
			return fmt.Sprintf("(XIndex %q %s)", n, trSExpr(pi, x.Index))
		}
	}
	fail(pi, e, "float32 operand %T", e)
	return ""
}

func writesTo(b *ast.BlockStmt, name string) bool {
	found := false
	ast.Inspect(b, func(n ast.Node) bool {
		switch x := n.(type) {
		case *ast.AssignStmt:
			for _, l := range x.Lhs {
				if mentions(l, name) {
					found = true
				}
			}
		case *ast.CallExpr:
			if strings.HasPrefix(types.ExprString(x.Fun), "binary.BigEndian.Put") && len(x.Args) > 0 && mentions(x.Args[0], name) {
				found = true
			}
		}
		return !found
	})
	return found
}

func endsInContinue(b *ast.BlockStmt) bool {
	if len(b.List) == 0 {
		return false
	}
	br, ok := b.List[len(b.List)-1].(*ast.BranchStmt)
	return ok && br.Tok == token.CONTINUE && br.Label == nil
}

// a statement list; `if c { A; continue }; R` is printed as `if c { A } else { R }` (the same control flow without the
// jump), a `continue` that ends the list is dropped; any other `continue` is refused
func trSList(pi *pkgInfo, list []ast.Stmt) string {
	parts := []string{}
	for i, s := range list {
		if br, ok := s.(*ast.BranchStmt); ok {
			if br.Tok == token.CONTINUE && br.Label == nil && i == len(list)-1 {
				break
			}
			fail(pi, s, "branch statement")
		}
		if is, ok := s.(*ast.IfStmt); ok && is.Init == nil && is.Else == nil && endsInContinue(is.Body) {
			parts = append(parts, fmt.Sprintf("TIf %s\n %s\n %s", trSExpr(pi, is.Cond), trSList(pi, is.Body.List), trSList(pi, list[i+1:])))
			break
		}
		parts = append(parts, trSStmt(pi, s))
	}
	return "[" + strings.Join(parts, ";\n ") + "]"
}

func trSBlock(pi *pkgInfo, b *ast.BlockStmt) string {
	return trSList(pi, b.List)
}

func assignsTo(b *ast.BlockStmt, name string) bool {
	found := false
	ast.Inspect(b, func(n ast.Node) bool {
		switch x := n.(type) {
		case *ast.AssignStmt:
			for _, l := range x.Lhs {
				if id, ok := l.(*ast.Ident); ok && id.Name == name {
					found = true
				}
			}
		case *ast.IncDecStmt:
			if id, ok := x.X.(*ast.Ident); ok && id.Name == name {
				found = true
			}
		}
		return !found
	})
	return found
}

func trSStmt(pi *pkgInfo, s ast.Stmt) string {
	switch x := s.(type) {
	case *ast.AssignStmt:
		if len(x.Lhs) != 1 || len(x.Rhs) != 1 {
			fail(pi, s, "multiple assignment")
		}
		switch l := x.Lhs[0].(type) {
		case *ast.Ident:
			if x.Tok == token.ASSIGN {
				uv, ok := pi.info.Uses[l].(*types.Var)
				if !ok {
					fail(pi, s, "assignment to %s", l.Name)
				}
				if _, isSl := uv.Type().Underlying().(*types.Slice); isSl {
					// s = append(s, e)
					call, ok := x.Rhs[0].(*ast.CallExpr)
					if !ok || types.ExprString(call.Fun) != "append" || len(call.Args) != 2 || call.Ellipsis.IsValid() || types.ExprString(call.Args[0]) != l.Name {
						fail(pi, s, "slice assigned something else than append of itself and one element")
					}
					return fmt.Sprintf("TAppend %q %s", l.Name, trSExpr(pi, call.Args[1]))
				}
				return fmt.Sprintf("TAssign %q %s", l.Name, trSExpr(pi, x.Rhs[0]))
			}
			if x.Tok != token.DEFINE {
				fail(pi, s, "assignment operator %s", x.Tok)
			}
			v, ok := pi.info.Defs[l].(*types.Var)
			if !ok {
				fail(pi, s, "redeclaration")
			}
			if sl, ok := v.Type().Underlying().(*types.Slice); ok {
				call, ok := x.Rhs[0].(*ast.CallExpr)
				// make([]T, n) or make([]T, n, capacity): the capacity is not modelled (see MiniGo/Slice.v, TAppend)
				if !ok || types.ExprString(call.Fun) != "make" || (len(call.Args) != 2 && len(call.Args) != 3) {
					fail(pi, s, "slice declared by something else than make([]T, n)")
				}
				return fmt.Sprintf("TMake %q %s %s", l.Name, elemTy(pi, s, sl.Elem()), trSExpr(pi, call.Args[1]))
			}
			// the accessors of encoding/binary are not type-checked (no import is followed): what they return is known
			if call, ok := x.Rhs[0].(*ast.CallExpr); ok {
				switch types.ExprString(call.Fun) {
				case "binary.BigEndian.Uint16":
					return fmt.Sprintf("TDecl %q (TU 16) %s", l.Name, trSExpr(pi, x.Rhs[0]))
				case "binary.BigEndian.Uint32":
					return fmt.Sprintf("TDecl %q (TU 32) %s", l.Name, trSExpr(pi, x.Rhs[0]))
				}
			}
			return fmt.Sprintf("TDecl %q %s %s", l.Name, coqTy(pi, s, v.Type()), trSExpr(pi, x.Rhs[0]))
		case *ast.IndexExpr:
			n, ok := sliceIdent(pi, l.X)
			if !ok || x.Tok != token.ASSIGN {
				fail(pi, s, "store form")
			}
			rhs := x.Rhs[0]
			if isFloat(pi.info.Types[l].Type) {
				// a float32 element takes math.Float32frombits(e) only
				call, ok := rhs.(*ast.CallExpr)
				if !ok || types.ExprString(call.Fun) != "math.Float32frombits" || len(call.Args) != 1 {
					fail(pi, s, "store into a float32 slice of something else than math.Float32frombits(e)")
				}
				return fmt.Sprintf("TStore %q %s (XBits %s)", n, trSExpr(pi, l.Index), trSExpr(pi, call.Args[0]))
			}
			return fmt.Sprintf("TStore %q %s %s", n, trSExpr(pi, l.Index), trSExpr(pi, rhs))
		}
		fail(pi, s, "assignment form")
	case *ast.DeclStmt:
		gd, ok := x.Decl.(*ast.GenDecl)
		if !ok || gd.Tok != token.VAR {
			fail(pi, s, "declaration")
		}
		var ds []string
		for _, sp := range gd.Specs {
			vs := sp.(*ast.ValueSpec)
			if len(vs.Values) != 0 {
				fail(pi, s, "var with a value")
			}
			for _, id := range vs.Names {
				v := pi.info.Defs[id].(*types.Var)
				ds = append(ds, fmt.Sprintf("TDecl %q %s (XConst 0%%Z)", id.Name, coqTy(pi, s, v.Type())))
			}
		}
		return strings.Join(ds, ";\n ")
	case *ast.ForStmt:
		// for i = 0; i < len(s); i++ { body }, i a variable declared before, not assigned in the body, s not assigned in it
		init, ok1 := x.Init.(*ast.AssignStmt)
		cond, ok2 := x.Cond.(*ast.BinaryExpr)
		post, ok3 := x.Post.(*ast.IncDecStmt)
		if !ok1 || !ok2 || !ok3 || init.Tok != token.ASSIGN || len(init.Lhs) != 1 || cond.Op != token.LSS || post.Tok != token.INC {
			fail(pi, s, "loop form")
		}
		iv, okA := init.Lhs[0].(*ast.Ident)
		zero := pi.info.Types[init.Rhs[0]].Value
		ci, okB := cond.X.(*ast.Ident)
		pv, okC := post.X.(*ast.Ident)
		lc, okD := cond.Y.(*ast.CallExpr)
		if !okA || !okB || !okC || !okD || zero == nil || zero.Kind() != constant.Int || constant.Sign(zero) != 0 || ci.Name != iv.Name || pv.Name != iv.Name ||
			types.ExprString(lc.Fun) != "len" || len(lc.Args) != 1 {
			fail(pi, s, "loop form")
		}
		sn, okE := sliceIdent(pi, lc.Args[0])
		if !okE || assignsTo(x.Body, iv.Name) || assignsTo(x.Body, sn) {
			fail(pi, s, "loop form")
		}
		return fmt.Sprintf("TForLen %q %q\n %s", iv.Name, sn, trSBlock(pi, x.Body))
	case *ast.IncDecStmt:
		op := "OAdd"
		if x.Tok == token.DEC {
			op = "OSub"
		}
		switch l := x.X.(type) {
		case *ast.Ident:
			uv, ok := pi.info.Uses[l].(*types.Var)
			if !ok {
				fail(pi, s, "increment of %s", l.Name)
			}
			return fmt.Sprintf("TAssign %q (XBin %s %s (XVar %q) (XConst 1%%Z))", l.Name, op, coqTy(pi, s, uv.Type()), l.Name)
		case *ast.IndexExpr:
			n, ok := sliceIdent(pi, l.X)
			if !ok || isFloat(pi.info.Types[l].Type) {
				fail(pi, s, "increment form")
			}
			idx := trSExpr(pi, l.Index)
			return fmt.Sprintf("TStore %q %s (XBin %s %s (XIndex %q %s) (XConst 1%%Z))", n, idx, op, coqTy(pi, s, pi.info.Types[l].Type), n, idx)
		}
		fail(pi, s, "increment form")
	case *ast.IfStmt:
		if x.Init != nil {
			fail(pi, s, "if with an init statement")
		}
		els := "[]"
		switch e := x.Else.(type) {
		case nil:
		case *ast.BlockStmt:
			els = trSBlock(pi, e)
		default:
			els = "[" + trSStmt(pi, e) + "]"
		}
		return fmt.Sprintf("TIf %s\n %s\n %s", trSExpr(pi, x.Cond), trSBlock(pi, x.Body), els)
	case *ast.ExprStmt:
		call, ok := x.X.(*ast.CallExpr)
		if !ok {
			fail(pi, s, "expression statement")
		}
		fn := types.ExprString(call.Fun)
		if (fn == "binary.BigEndian.PutUint16" || fn == "binary.BigEndian.PutUint32") && len(call.Args) == 2 {
			n, lo, hi := beArg(pi, call.Args[0])
			if hi != "None" {
				fail(pi, s, "PutUint on s[lo:hi]")
			}
			return fmt.Sprintf("TPutBE %s%%Z %q %s %s", fn[len(fn)-2:], n, lo, trSExpr(pi, call.Args[1]))
		}
		fail(pi, s, "call of %s", fn)
	case *ast.RangeStmt:
		k, ok := x.Key.(*ast.Ident)
		n, ok2 := sliceIdent(pi, x.X)
		if !ok || !ok2 || (k.Name == "_" && x.Value == nil) || x.Tok != token.DEFINE {
			fail(pi, s, "range form")
		}
		if writesTo(x.Body, n) && x.Value != nil {
			fail(pi, s, "the ranged slice is written in the loop")
		}
		if x.Value == nil {
			return fmt.Sprintf("TRangeI %q %q\n %s", k.Name, n, trSBlock(pi, x.Body))
		}
		v, ok := x.Value.(*ast.Ident)
		if !ok || v.Name == "_" {
			fail(pi, s, "range form")
		}
		vv := pi.info.Defs[v].(*types.Var)
		return fmt.Sprintf("TRangeIV %q %q %s %q\n %s", k.Name, v.Name, elemTy(pi, s, vv.Type()), n, trSBlock(pi, x.Body))
	case *ast.ReturnStmt:
		if len(x.Results) == 2 {
			errText := types.ExprString(x.Results[1])
			if errText == "nil" {
				errText = ""
			}
			// a Coq string literal: a quote is written twice
			return fmt.Sprintf("TReturnIntErr %s \"%s\"", trSExpr(pi, x.Results[0]), strings.ReplaceAll(errText, "\"", "\"\""))
		}
		if len(x.Results) == 1 && curResultIsError {
			// a function whose only result is an error: printed as (0, <error>)
			errText := types.ExprString(x.Results[0])
			if errText == "nil" {
				errText = ""
			}
			return fmt.Sprintf("TReturnIntErr (XConst 0%%Z) \"%s\"", strings.ReplaceAll(errText, "\"", "\"\""))
		}
		if len(x.Results) == 1 {
			if n, ok := sliceIdent(pi, x.Results[0]); ok {
				return fmt.Sprintf("TReturn %q", n)
			}
			if call, ok := x.Results[0].(*ast.CallExpr); ok && types.ExprString(call.Fun) == "append" && len(call.Args) == 2 && !call.Ellipsis.IsValid() {
				if n, ok := sliceIdent(pi, call.Args[0]); ok {
					return fmt.Sprintf("TReturnApp %q %s", n, trSExpr(pi, call.Args[1]))
				}
			}
		}
		fail(pi, s, "return form")
	}
	fail(pi, s, "statement %T", s)
	return ""
}

// the function being printed returns a single error
var curResultIsError bool

func emitSliceFunc(out *strings.Builder, pi *pkgInfo, name string) {
	for _, f := range pi.files {
		for _, d := range f.Decls {
			fd, ok := d.(*ast.FuncDecl)
			if !ok || fd.Recv != nil || fd.Name.Name != name || fd.Body == nil {
				continue
			}
			func() {
				defer func() {
					if r := recover(); r != nil {
						u, ok := r.(unsupported)
						if !ok {
							panic(r)
						}
						fmt.Fprintf(out, "(* %s.%s is outside the MiniGo slice fragment: %s *)\n", pi.name, name, u.msg)
					}
				}()
				// binary and math must be the standard packages, imported under their own names
				imp := map[string]string{}
				for _, is := range f.Imports {
					path := strings.Trim(is.Path.Value, "\"")
					nm := path[strings.LastIndex(path, "/")+1:]
					if is.Name != nil {
						nm = is.Name.Name
					}
					imp[nm] = path
				}
				uses := func(pkg string) bool { return mentions(fd.Body, pkg) }
				if (uses("binary") && imp["binary"] != "encoding/binary") || (uses("math") && imp["math"] != "math") {
					fail(pi, fd, "binary / math are not encoding/binary and math")
				}
				// every identifier declared at most once (no shadowing: block scoping is then a matter of dropping)
				seen := map[string]bool{}
				declare := func(id *ast.Ident) {
					if id == nil || id.Name == "_" {
						return
					}
					if seen[id.Name] || id.Name == "binary" || id.Name == "math" || id.Name == "len" || id.Name == "make" || id.Name == "append" {
						fail(pi, id, "identifier %s declared twice or shadowing", id.Name)
					}
					seen[id.Name] = true
				}
				var params []string
				for _, p := range fd.Type.Params.List {
					for _, id := range p.Names {
						declare(id)
						sl, ok := pi.info.Defs[id].Type().Underlying().(*types.Slice)
						if !ok {
							fail(pi, p, "parameter %s is not a slice", id.Name)
						}
						params = append(params, fmt.Sprintf("(%q, %s)", id.Name, elemTy(pi, p, sl.Elem())))
					}
				}
				if fd.Type.Results == nil || len(fd.Type.Results.List) < 1 || len(fd.Type.Results.List) > 2 || len(fd.Type.Results.List[0].Names) != 0 {
					fail(pi, fd, "result list")
				}
				curResultIsError = len(fd.Type.Results.List) == 1 && types.ExprString(fd.Type.Results.List[0].Type) == "error"
				if len(fd.Type.Results.List) == 2 && (types.ExprString(fd.Type.Results.List[0].Type) != "int" || types.ExprString(fd.Type.Results.List[1].Type) != "error") {
					fail(pi, fd, "two results that are not (int, error)")
				}
				ast.Inspect(fd.Body, func(n ast.Node) bool {
					switch x := n.(type) {
					case *ast.AssignStmt:
						if x.Tok == token.DEFINE {
							for _, l := range x.Lhs {
								if id, ok := l.(*ast.Ident); ok {
									declare(id)
								}
							}
						}
					case *ast.RangeStmt:
						if x.Tok == token.DEFINE {
							if id, ok := x.Key.(*ast.Ident); ok {
								declare(id)
							}
							if id, ok := x.Value.(*ast.Ident); ok {
								declare(id)
							}
						}
					case *ast.DeclStmt:
						if gd, ok := x.Decl.(*ast.GenDecl); ok && gd.Tok == token.VAR {
							for _, sp := range gd.Specs {
								for _, id := range sp.(*ast.ValueSpec).Names {
									declare(id)
								}
							}
						} else {
							fail(pi, n, "declaration")
						}
					case *ast.FuncLit, *ast.GoStmt, *ast.DeferStmt:
						fail(pi, n, "statement %T", n)
					}
					return true
				})
				body := trSBlock(pi, fd.Body)
				fmt.Fprintf(out, "Definition go_%s_%s : sfunc := {| sf_name := %q; sf_params := [%s]; sf_body :=\n %s |}.\n",
					pi.name, name, pi.name+"."+name, strings.Join(params, "; "), body)
			}()
			return
		}
	}
	fmt.Fprintf(out, "(* %s.%s: not found *)\n", pi.name, name)
}

// ---------- a constant string assigned to a local variable of a function (e.g. the SQLite pragmas) ----------
func emitLocalString(out *strings.Builder, pi *pkgInfo, coqName, fn, variable string) {
	var found []string
	for _, f := range pi.files {
		for _, d := range f.Decls {
			fd, ok := d.(*ast.FuncDecl)
			if !ok || fd.Name.Name != fn || fd.Body == nil {
				continue
			}
			ast.Inspect(fd.Body, func(n ast.Node) bool {
				a, ok := n.(*ast.AssignStmt)
				if !ok || len(a.Lhs) != 1 || len(a.Rhs) != 1 {
					return true
				}
				if id, ok := a.Lhs[0].(*ast.Ident); ok && id.Name == variable {
					if v := pi.info.Types[a.Rhs[0]].Value; v != nil && v.Kind() == constant.String {
						found = append(found, constant.StringVal(v))
					} else {
						found = append(found, "", "") // assigned something that is not a constant
					}
				}
				return true
			})
		}
	}
	if len(found) != 1 {
		fmt.Fprintf(out, "(* %s: variable %s of %s is not assigned one constant string *)\n", coqName, variable, fn)
		return
	}
	fmt.Fprintf(out, "Definition %s : list N := %s.   (* %q *)\n", coqName, coqBytes(found[0]), found[0])
}


// ---------- a method that feeds a hash step by step (data.Point.CRC): printed as the list of its steps ----------
// Recognised, in order and nothing else: a guard `if p.F == CONST { return 0 }`, `h := crc32.NewIEEE()`,
// `d := make([]byte, 8)`, `binary.LittleEndian.PutUint64(d, uint64(p.Time.UnixNano()))`,
// `binary.LittleEndian.PutUint64(d, math.Float64bits(p.Value))`, `h.Write(d)`, `h.Write([]byte(p.F))`,
// `return h.Sum32()`. The meaning of each step is stated in coq/theories/MiniGo/Recipe.v.
func emitHashRecipe(out *strings.Builder, pi *pkgInfo, recvType, name string) {
	coq := fmt.Sprintf("go_%s_%s_%s", pi.name, recvType, name)
	for _, f := range pi.files {
		for _, d := range f.Decls {
			fd, ok := d.(*ast.FuncDecl)
			if !ok || fd.Recv == nil || fd.Name.Name != name || fd.Body == nil || len(fd.Recv.List) != 1 || len(fd.Recv.List[0].Names) != 1 {
				continue
			}
			if types.ExprString(fd.Recv.List[0].Type) != recvType {
				continue
			}
			recv := fd.Recv.List[0].Names[0].Name
			var steps []string
			bad := ""
			field := func(e ast.Expr) (string, bool) {
				s, ok := e.(*ast.SelectorExpr)
				if !ok {
					return "", false
				}
				if id, ok := s.X.(*ast.Ident); !ok || id.Name != recv {
					return "", false
				}
				return s.Sel.Name, true
			}
			hvar, bvar := "", ""
			for _, s := range fd.Body.List {
				if bad != "" {
					break
				}
				switch s := s.(type) {
				case *ast.IfStmt:
					c, ok := s.Cond.(*ast.BinaryExpr)
					okBody := s.Init == nil && s.Else == nil && len(s.Body.List) == 1
					if okBody {
						r, ok2 := s.Body.List[0].(*ast.ReturnStmt)
						okBody = ok2 && len(r.Results) == 1 && types.ExprString(r.Results[0]) == "0"
					}
					if !ok || !okBody || c.Op != token.EQL {
						bad = "an if statement that is not `if p.F == CONST { return 0 }`"
						break
					}
					fl, ok1 := field(c.X)
					v := pi.info.Types[c.Y].Value
					if !ok1 || v == nil || v.Kind() != constant.String {
						bad = "a guard that does not compare a field with a string constant"
						break
					}
					steps = append(steps, fmt.Sprintf("HGuardZero %q (%s)", fl, coqBytes(constant.StringVal(v))))
				case *ast.AssignStmt:
					if s.Tok != token.DEFINE || len(s.Lhs) != 1 || len(s.Rhs) != 1 {
						bad = "an assignment that is not a short declaration"
						break
					}
					id, _ := s.Lhs[0].(*ast.Ident)
					switch rhs := types.ExprString(s.Rhs[0]); {
					case id != nil && rhs == "crc32.NewIEEE()" && hvar == "":
						hvar = id.Name
						steps = append(steps, "HNewIEEE")
					case id != nil && rhs == "make([]byte, 8)" && bvar == "":
						bvar = id.Name
						steps = append(steps, "HBuf8")
					default:
						bad = "declaration of " + rhs
					}
				case *ast.ExprStmt:
					call, ok := s.X.(*ast.CallExpr)
					if !ok {
						bad = "an expression statement that is not a call"
						break
					}
					fn := types.ExprString(call.Fun)
					switch {
					case fn == "binary.LittleEndian.PutUint64" && len(call.Args) == 2 && bvar != "" && types.ExprString(call.Args[0]) == bvar:
						switch types.ExprString(call.Args[1]) {
						case "uint64(" + recv + ".Time.UnixNano())":
							steps = append(steps, "HPutTimeNanoLE")
						case "math.Float64bits(" + recv + ".Value)":
							steps = append(steps, "HPutValueBitsLE")
						default:
							bad = "PutUint64 of " + types.ExprString(call.Args[1])
						}
					case hvar != "" && fn == hvar+".Write" && len(call.Args) == 1:
						a := types.ExprString(call.Args[0])
						if bvar != "" && a == bvar {
							steps = append(steps, "HWriteBuf")
						} else if conv, ok := call.Args[0].(*ast.CallExpr); ok && types.ExprString(conv.Fun) == "[]byte" && len(conv.Args) == 1 {
							if fl, ok := field(conv.Args[0]); ok {
								steps = append(steps, fmt.Sprintf("HWriteStr %q", fl))
							} else {
								bad = "Write of " + a
							}
						} else {
							bad = "Write of " + a
						}
					default:
						bad = "call of " + fn
					}
				case *ast.ReturnStmt:
					if len(s.Results) == 1 && hvar != "" && types.ExprString(s.Results[0]) == hvar+".Sum32()" {
						steps = append(steps, "HSum32")
					} else {
						bad = "a return that is not `return h.Sum32()`"
					}
				default:
					bad = fmt.Sprintf("a statement of kind %T", s)
				}
			}
			if bad != "" {
				fmt.Fprintf(out, "(* %s is outside the hash-recipe fragment: %s *)\n", coq, bad)
				return
			}
			fmt.Fprintf(out, "Definition %s : list hstep :=\n [%s].\n", coq, strings.Join(steps, ";\n  "))
			return
		}
	}
	fmt.Fprintf(out, "(* %s: not found *)\n", coq)
}

func main() {
	repo := flag.String("repo", "/repo", "the repository to translate from")
	outp := flag.String("out", "", "output file (Generated.v)")
	flag.Parse()
	var out strings.Builder
	out.WriteString("(* GENERATED on every run by harness/cmd/anchors from the Go sources of the repository under test.\n   Do not edit: the theorems of Anchors/Tie*.v are re-checked against this text. *)\n")
	out.WriteString("From Coq Require Import ZArith NArith List String.\nFrom Verif Require Import MiniGo.Syntax MiniGo.Slice MiniGo.Recipe.\nImport ListNotations.\nOpen Scope string_scope.\n\n")
	sections := []struct {
		dir string
		f   func(pi *pkgInfo)
	}{
		{"modbus", func(pi *pkgInfo) {
			emitConsts(&out, pi, nil)
			emitMap(&out, pi, "minRequestLen")
			emitFunc(&out, pi, "RtuCrc")
			for _, fn := range []string{"PutUint16Array", "Uint16Array", "RegsToInt16", "RegsToUint32", "RegsToUint32SwapWords",
				"Uint32ToRegs", "Uint32ToRegsSwapRegs", "RegsToInt32", "RegsToInt32SwapWords", "Int32ToRegs", "Int32ToRegsSwapWords",
				"RegsToFloat32", "RegsToFloat32SwapWords", "Float32ToRegs", "Float32ToRegsSwapWords"} {
				emitSliceFunc(&out, pi, fn)
			}
			emitSliceFunc(&out, pi, "CheckRtuCrc")
		}},
		{"data", func(pi *pkgInfo) {
			emitConsts(&out, pi, func(n string) bool {
				return strings.HasPrefix(n, "PointType") || strings.HasPrefix(n, "NodeType") || strings.HasPrefix(n, "PointValue") || n == "maxStructureSize" || n == "maxSafeInteger"
			})
			emitHashRecipe(&out, pi, "Point", "CRC")
		}},
		{"client", func(pi *pkgInfo) {
			emitSliceFunc(&out, pi, "cobsEncode")
			emitSliceFunc(&out, pi, "cobsDecodeInplace")
		}},
		{"store", func(pi *pkgInfo) {
			emitLocalString(&out, pi, "go_store_NewSqliteDb_pragmas", "NewSqliteDb", "pragmas")
		}},
	}
	for _, s := range sections {
		fmt.Fprintf(&out, "(* ---------- %s ---------- *)\n", s.dir)
		pi, err := load(*repo, s.dir)
		if err != nil {
			fmt.Fprintf(&out, "(* %s: %v *)\n", s.dir, err)
			continue
		}
		s.f(pi)
		out.WriteString("\n")
	}
	text := out.String()
	if *outp == "" {
		fmt.Print(text)
		return
	}
	if old, err := os.ReadFile(*outp); err == nil && string(old) == text {
		return // unchanged: leave the file (and its compiled form) alone
	}
	if err := os.MkdirAll(filepath.Dir(*outp), 0o755); err != nil {
		fmt.Fprintln(os.Stderr, err)
		os.Exit(1)
	}
	if err := os.WriteFile(*outp, []byte(text), 0o644); err != nil {
		fmt.Fprintln(os.Stderr, err)
		os.Exit(1)
	}
}
