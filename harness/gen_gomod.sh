#!/bin/sh
# Regenerate the harness go.mod from /repo's go.mod so that dependency versions follow /repo.
set -e
cd "$(dirname "$0")"
{
  echo "module verifharness"
  echo
  sed -n '/^go /p' /repo/go.mod
  echo
  echo "require github.com/simpleiot/simpleiot v0.0.0"
  echo
  echo "replace github.com/simpleiot/simpleiot => /repo"
  echo
  awk '/^require \(/{p=1} p{print} /^\)/{if(p){p=0;print ""}} /^require [^(]/{print}' /repo/go.mod
  awk '/^replace /{print}' /repo/go.mod | grep -v simpleiot/simpleiot || true
} > go.mod
cp /repo/go.sum go.sum
