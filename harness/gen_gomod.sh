#!/bin/sh
# Regenerate the harness go.mod from /repo's go.mod so that dependency versions follow /repo.
set -e
cd "$(dirname "$0")"
REPO=${REPO:-/repo}
{
  echo "module verifharness"
  echo
  sed -n '/^go /p' $REPO/go.mod
  echo
  echo "require github.com/simpleiot/simpleiot v0.0.0"
  echo
  echo "replace github.com/simpleiot/simpleiot => $REPO"
  echo
  awk '/^require \(/{p=1} p{print} /^\)/{if(p){p=0;print ""}} /^require [^(]/{print}' $REPO/go.mod
  awk '/^replace /{print}' $REPO/go.mod | grep -v simpleiot/simpleiot || true
} > go.mod
cp $REPO/go.sum go.sum
