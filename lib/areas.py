"""Per-property configuration of the check driver."""

AREAS = {
    "C16": {
        "area": "c16", "id": 16, "coq": ["Base", "Cobs", "Properties/C16.v", "MiniGo", "Anchors/Generated.v", "Anchors/TieCobs.v", "Anchors/TieCobsDec.v"],
        "rule": "seeded generator: 1-5 frames (lengths skewed to 1,2,3,253..256,507..510; bytes skewed to 00/01/ff; a zero "
                "right after a full 254-byte block), random segmentation into device reads (1 byte, whole, 1-3, 1-40, at "
                "delimiters, random; occasional empty reads), one optional damage event (corrupt / lose / insert), buffer "
                "limits at or just above the largest encoded frame; a case is non-trivial when it has more than one device "
                "read or more than one frame; distinct by SHA-1 of (limits, frames, chunks)",
        "trusted": ["model of CobsWrapper.Read/Write and cobsDecodeInplace: coq/theories/Cobs/Model.v (hand-written, tied by this run's correspondence)",
                    "translator harness/cmd/anchors (go/parser + go/types, no imports followed): prints client.cobsEncode and client.cobsDecodeInplace from client/cobs-wrapper.go as syntax trees of MiniGo/Slice.v into coq/theories/Anchors/Generated.v before every build (a `continue` that ends an if-body is printed as if / else, the loop `for i = 0; i < len(s); i++` as TForLen); C16_encoder_from_source, C16_decoder_from_source and C16_printed_codec_roundtrip are re-checked against that text; MiniGo/Slice.v is the stated semantics of the fragment (byte arithmetic modulo 256, append without capacities, panics as None, a nil slice not told from an empty one: the decoder statement is for non-empty buffers)"],
        "level_text": "proof: C16_cobs_roundtrip, C16_chunking_invariant (every frame list, every segmentation, no size bound) and "
                      "C16_resync_partial are Coq theorems about the executable model of CobsWrapper, and C16_encoder_from_source / C16_decoder_from_source show that cobsEncode and cobsDecodeInplace as printed from the Go source on this run compute the model's encoder for every frame and the model's decoder for every non-empty buffer (C16_printed_codec_roundtrip: the printed decoder undoes the printed encoder); the model is run against the "
                      "real CobsWrapper on >1000 generated streams per run (clean, damaged, oversize) and must agree on every result",
        "level_note": "trusted: Coq kernel, extraction, OCaml driver, the Go harness and its scripted device; modelled not verified: "
                      "bytes.Buffer, the io.ReadWriteCloser contract; resync is proved for damage whose zero-free runs fit the buffer limits",
        "assumptions": ["the device returns at most len(b) bytes per Read and reports errors only at end of script",
                        "frames are non-empty (an empty frame encodes to 2 bytes, which cobsDecodeInplace rejects by design)"],
    },
}

STORE_RULE = "seeded generator of scripts against one fresh instance (embedded NATS server + store.NewStore on a temp SQLite file): 2-6 nodes created edge-first or points-first, mirrors and diamonds, then 4-13 requests: node-point batches over an alphabet built to collide (types value/description/ab/a/tA, keys \"\"/0/1/b/k/10, both spellings of one identity in one batch, re-deliveries, stale and future times, values 0, +-Inf, 1e300, 5e-324, 2^53, random finite bit patterns, text incl. Unicode and newlines, data blobs, tombstone counts, origins), edge-point writes (delete / undelete / other types), structure changes, and refused requests (self edge, cycle through live or deleted edges, root tombstone, first edge without node type below a node or below the sentinel root, NaN or a time outside the 64-bit nanosecond range in node or edge batches), points at the first and last representable instant, the value negative zero (handed to the model as zero: the store keeps it as 0), one batch of 130 points in one script of twelve, in the scripts other than the newest-wins ones one write in ten at an instant already used for its identity, in the newest-wins scripts batches whose checksums cancel (two identities whose type+key concatenate alike, same instant, text and value), root tombstones of any positive value, and a store maintenance run (admin.storeMaint) after one request in 15 before the dump; after every request the reply, everything received on up.> and a dump of every edge into every known node (nodes.all.<id>, deleted included) are recorded; a script is non-trivial when it has more than 3 requests; distinct by SHA-1 of its requests"
STORE_TRUSTED = ["model of nodePoints/edgePoints/updateHash/up and the two write handlers: coq/theories/Store/Model.v (hand-written, tied by this run's correspondence: every reply, rebroadcast subject and payload, and every dump incl. every hash must agree)", 'bit-level CRC-32/IEEE and float64 predicates (NaN, >0, even) written in Coq and diffed against hash/crc32 and Go float semantics through the stored hashes and replies']
STORE_ASSUME = ['SQLite, database/sql and NATS request/reply behave as documented (a write is visible to reads issued after its reply)', 'node ids are NATS subject tokens without quotes; strings are valid UTF-8 without NUL; times are non-zero (the store stamps a zero time with its own clock); times outside the 64-bit nanosecond range are generated and must be refused; edge tombstone points carry 0, 1 or 2']

AREAS["C01"] = {
    "area": "c01", "id": 1, "coq": ["Base", "Store", "Properties/C01.v"], "rule": STORE_RULE, "trusted": STORE_TRUSTED, "assumptions": STORE_ASSUME,
    "level_text": "proof: C01 theorems (newest point per identity wins for every history, one row per identity, order/batching/duplication independence) "
                  "about the executable model of nodePoints/edgePoints; the model is replayed against a real instance on generated histories and must reproduce every dump; "
                  "the specification (newest delivered point per identity, all fields) is evaluated on the real dumps",
    "level_note": "trusted: Coq kernel, extraction, OCaml driver, Go harness; modelled not verified: SQLite, NATS, protobuf transport; theorems assume distinct times per identity and no NaN (refused, C05)",
}
TRANSLATOR_TRUST = 'translator harness/cmd/anchors (go/parser + go/types, no imports followed): prints constants, tables, modbus.RtuCrc (as a MiniGo syntax tree) and data.Point.CRC (as the list of steps feeding its hash, meaning stated in MiniGo/Recipe.v + Anchors/TiePointCrc.v) from the sources into coq/theories/Anchors/Generated.v before every build; the *_from_source theorems are re-checked against that text; MiniGo/Syntax.v is the stated semantics of the fragment'
AREAS["C03"] = {
    "known_soft_only": True,
    "area": "c03", "id": 3, "coq": ["Base", "Store", "Properties/C03.v", "MiniGo/Recipe.v", "Anchors/Generated.v", "Anchors/TiePointCrc.v"], "rule": STORE_RULE, "trusted": STORE_TRUSTED + [TRANSLATOR_TRUST], "assumptions": STORE_ASSUME,
    "level_text": "proof: the incremental XOR-Merkle update of the model preserves the from-scratch hash equation on every edge for every history and every acyclic graph shape "
                  "(path-parity argument, fuel adequacy); the model's hashes must equal the instance's after every request, and every dumped hash is recomputed independently from the dump",
    "level_note": "trusted as C01; CRC-32 collisions are outside the claim (delta != 0 is a hypothesis of the propagation clause); a change below an even number of paths cancels by the XOR definition itself (known finding K2)",
}
AREAS["C05"] = {
    "area": "c05", "id": 5, "coq": ["Base", "Store", "Properties/C05.v", "Anchors/Generated.v", "Anchors/TieStore.v"], "rule": STORE_RULE, "trusted": STORE_TRUSTED + ['translator harness/cmd/anchors (go/parser + go/types, no imports followed): prints constants, tables and modbus.RtuCrc (as a MiniGo syntax tree) from the sources into coq/theories/Anchors/Generated.v before every build; the *_from_source theorems are re-checked against that text; MiniGo/Syntax.v is the stated semantics of the fragment'], "assumptions": STORE_ASSUME,
    "level_text": "proof: in the model every request of a refused class is answered with an error, an error reply leaves state and rebroadcast stream untouched, reachable graphs stay acyclic "
                  "so the upward recursions terminate; replies, dumps and up.> traffic of a real instance are compared with the model after every request and the refusal/no-trace specification is evaluated on them",
    "level_note": "trusted as C01; a request that kills or wedges the instance is observed through worker processes with timeouts; 'keeps answering' is evaluated as: every request is answered, "
                  "and a node-point request that was accepted before is accepted again when re-sent after a refusal and at the end of every script (C05_node_points_accepted is the model fact)",
}
AREAS["C06"] = {
    "area": "c06", "id": 6, "coq": ["Base", "Store", "Properties/C06.v"], "rule": STORE_RULE, "trusted": STORE_TRUSTED, "assumptions": STORE_ASSUME,
    "level_text": "proof: the set of subjects the recursive publishers of the model publish on is exactly the reflexive-transitive upward closure (live edges for node points, all edges for edge points) "
                  "for every acyclic graph; everything a real instance publishes on up.> is compared with the model and with the closure computed from the dump",
    "level_note": "trusted as C01; NATS delivery order per connection is assumed to collect the messages published before a reply; the closure the checker computes from a dump is proved to be "
                  "the walk set of the theorems (C06_spec_is_closure)",
}

AREAS["C13"] = {'area': 'c13',
 'id': 13,
 'coq': ['Base', 'Rule', 'Properties/C13.v'],
 'rule': 'seeded generator: rule with 1-4 conditions (point-value number/onOff/text with every operator, also unknown operators and value types; '
         'node/type/key filters empty or set; schedule conditions incl. unparsable ones; unknown condition types), 0-3 set-value actions and '
         'inactive-actions (targets incl. the rule itself, missing node/type, unknown action), stale active/error fields; history of 1-10 batches of '
         '1-5 points from listening and foreign nodes, values equal to / one ulp beside / across each threshold, NaN, +-0, +-Inf, texts equal to / '
         'containing / a prefix of the condition text, trigger points within 1 s and 1 ns of schedule boundaries; plus 550 histories of 1-4 steps '
         'through the configuration-change path of Run (kind config, 14 % of the cases: the first step and 65 % of the later ones hand points for '
         "the rule node or a child to the running client as the manager does -- rule / child description, a schedule's start / end placed hours "
         "around or away from the clock, a point condition's value / valueText / operator, an action's value / valueText, unknown or empty node id "
         '-- the other steps are batches; rules with and without schedule conditions, point conditions that the trigger point does or does not '
         'reach, stored condition / rule / action flags mostly stale so that the state flips on this path with the opposite list still marked '
         'active; the clock is read before and after each such step and the step repeated unless both readings lie in one UTC minute); plus 300 '
         'float comparison pairs (thorough: also the full grid value type x operator x filter combination x value relation for one condition and one '
         'point, and all ordered pairs of special floats); a history is non-trivial when some condition or the rule changes state in it; distinct by '
         'SHA-1 of (kind, mode, rule, steps)',
 'trusted': ['model of ruleProcessPoints / processError / ruleRunActions / ruleInactiveActions / the run closure: coq/theories/Rule/Model.v '
             "(hand-written, tied by this run's correspondence)",
             'hook client/verif_rule.go (build tag verif, add-only): VerifRuleRun feeds one batch into the real Run loop, VerifRuleRunConfig feeds '
             'points into the channel newPoints of the real Run loop (configuration change), VerifRuleProcess calls ruleProcessPoints, '
             "VerifRuleScheduleActive evaluates a condition's schedule",
             "float64 comparison on bit patterns (f_lt, f_eq, f_nan in Rule/Model.v), compared with Go's operators on every run"],
 'level_text': 'proof: C13_conditions, C13_conditions_history, C13_rule_active, C13_actions_once and, for the configuration-change path of Run '
               '(merge of new points for the rule or a child, then run("", nil)), C13_config_change_conditions, C13_config_change_rule_active, '
               'C13_config_change_actions, C13_config_change_always are Coq theorems about the executable model of the rule client for every rule, '
               'window function, history and configuration-change event; the model is run against the real RuleClient (Run loop through both '
               'channels newRulePoints and newPoints, and ruleProcessPoints, in-process NATS server, all sent points captured) on >1000 generated '
               'histories per run and must agree on every configuration and every point sent',
 'level_note': 'trusted: Coq kernel, extraction, OCaml driver, the Go harness, the in-process NATS server used to capture points; the schedule '
               'window test is a parameter (the real activeForTime result is supplied per trigger point; its correctness is C14; on the '
               'configuration-change path the trigger time is the clock read inside Run, bracketed by the harness within one UTC minute, and an '
               'edited schedule is a fresh opaque handle); notify and playAudio actions, edge points (newEdgePoints) and merges other than '
               'description / value / valueText / operator / start / end points are outside the model',
 'assumptions': ['publishing a point never fails (connected NATS client, valid UTF-8 strings, node ids usable as subject tokens)',
                 'one batch is handled at a time (the Run loop is single-threaded)',
                 'actions are of the set-value kind or unknown; notify / playAudio are not modelled']}

AREAS["C14"] = {'area': 'c14',
 'id': 14,
 'coq': ['Base', 'Sched', 'Properties/C14.v'],
 'rule': 'seeded generator: start/end minutes (skewed to 0, 1, 59..61, 479/480, 719..721, 1379/1380, 1438/1439; 20% start = end, 30% wrapping past '
         'midnight) written as H:MM or HH:MM; weekday lists chosen relative to the base day (empty, that day, the day before/after, all, all but '
         'that day, random subsets, shuffled, duplicates); date lists (empty, or 1-3 of the base day, its neighbours, nearby days, such a date with '
         'one of year/month/day changed, impossible dates such as 02-30, with duplicates); base days from week, month and year ends, 28/29 Feb and 1 '
         'Mar of leap, non-leap and century years, 1969/1970, years 0..9999 and random days 1900-2200; instants within +-2 s (+-1 ns, +-1 s, +-2 s, '
         'random) of the start, end and midnight of windows starting on the base day, the day before and the day after, plus random instants; 1 in 8 '
         'cases malformed (strings outside H:MM / YYYY-MM-DD, text around a value, weekday numbers outside 0..6); each instant is handed to the code '
         'in 4 Locations (UTC, +-14 h, half-hour and 45-minute offsets, DST zones); calendar sweep: one case per selected day of 1900-2200 (every '
         'day in the thorough tier) whose schedule names exactly that day by date and weekday; thorough adds every minute of 2024-02-24..2024-03-03 '
         'for 3 window shapes x 5 weekday sets. A case is non-trivial when the schedule is well-formed and has a non-empty filter or the instant '
         'lies within 2 s of a window or day boundary; distinct by SHA-1 of (start, end, weekdays, dates, instant)',
 'trusted': ['model of schedule.activeForTime, timeRanges.filterWeekdays/filterDates/in and of the two regular expressions: '
             "coq/theories/Sched/Model.v (hand-written, tied by this run's correspondence)",
             'client/verif_schedule.go (verif-tagged wrapper around newSchedule(...).activeForTime)'],
 'level_text': 'proof: C14_exact / C14_exact_strings (for every start and end minute, weekday list, date list and instant the model of activeForTime '
               "answers true exactly when some allowed UTC day's half-open window contains the instant), C14_two_days, C14_utc_only and the calendar "
               'theorems C14_civil_epoch/_succ/_valid/_inverse are Coq theorems about the executable model; the model is run against the real '
               'activeForTime on >9000 schedules x instants per run, each in several time.Locations, and must agree on every result, as must the '
               "model's calendar and Go's time package",
 'level_note': "trusted: Coq kernel, extraction, OCaml driver, the Go harness; modelled not verified: Go's regexp (leftmost match of two fixed "
               'expressions), strconv.Atoi on 1-4 digits, time.Date normalisation and Time.Before/After as integer comparison of nanosecond '
               'instants; the theorems speak about schedules in the strict reading (H:MM or HH:MM below 24:00, YYYY-MM-DD), other strings are '
               'covered by correspondence only',
 'assumptions': ["instants and window ends stay within the range in which Go's time.Time arithmetic does not overflow (|year| < 2.9e11)",
                 "Go's time package has no leap seconds: a UTC day is 86400 s",
                 "weekday and date filters are conjunctive (both must allow the window's start day), as the code applies them; an empty filter "
                 'allows every day']}

def _build_race(root, env, wdir, tier):
    """C20 runs from a race-detector build of the harness (same sources, same /repo)."""
    import subprocess
    p = subprocess.run(["go", "build", "-race", "-tags", "verif", "-o", "bin/harness-race", "./cmd/harness"],
                       cwd=root + "/harness", env=env, stdout=subprocess.PIPE, stderr=subprocess.STDOUT, text=True, timeout=1500)
    return None if p.returncode == 0 else "race-detector build of the harness failed: " + p.stdout[-600:]

AREAS["C20"] = {
    "area": "c20", "id": 20, "bin": "harness-race", "prepare": _build_race,
    "coq": ["Base", "Store", "Properties/C20.v"],
    "rule": "one round in three also starts a whole server.Server (bus, store, clients, HTTP; plain build), lets four clients write until 40 writes are acknowledged, calls Stop while they write and requires Run to return within 25 s and the store file to open again; " "stress rounds against one instance from a -race build (GOMAXPROCS varied per round): 8 writer connections x 40 requests "
            "(thorough 16 x 80, 9 rounds): node point batches to the root and a fixed diamond of 4 nodes, edge points and delete/undelete on its edges, "
            "creation of new nodes, admin.storeVerify, read-after-ack of a written node; 3 reader connections re-reading nodes; globally "
            "distinct timestamps; then ordered shutdown (15 s limit) and reopen of the same file; a round is non-trivial when it has acknowledged "
            "writes; distinct by (seed, number of acknowledged writes) and (seed, size of the final dump)",
    "trusted": STORE_TRUSTED + ["Go race detector (reports collected through GORACE=log_path)"],
    "assumptions": STORE_ASSUME + ["a request's store step is atomic (write lock + one SQLite transaction) and reads are snapshots: this is the model; "
                                   "memory-model level races, SQLite busy handling and shutdown ordering are observed by the harness, not proved"],
    "level_text": "proof (partial): C20_monotone_reads, C20_ack_visible, C20_serializable, C20_quiescent_hashes, C20_answered are Coq theorems about every "
                  "interleaving of atomic request steps of the store model; each run stresses a real instance under the race detector and checks every request "
                  "answered, reads monotone per identity, read-after-ack, final content = model of the acknowledged writes = newest per identity with consistent "
                  "hashes, zero race reports, shutdown terminates, the file reopens with the same content",
    "level_note": "partial: data races, deadlocks between database/sql connections, SQLite busy timeouts and shutdown ordering cannot be exhibited by a model of atomic steps; "
                  "they are sampled by the stress harness (schedules are not enumerated)",
}

AREAS["C04"] = {
    "area": "c04", "id": 4, "level": "proof",
    "coq": ["Base", "Store", "Properties/C04.v", "Anchors/Generated.v", "Anchors/TieStore.v"],
    "rule": "a writer process (embedded NATS + store on a fresh SQLite file, 2 generated scripts of ~20 accepted requests each: node point batches, new edges, a mirror, "
            "edge points; thorough: 10 scripts) is killed by strace fault injection (SIGKILL at the N-th write/pwrite64/fsync/fdatasync/ftruncate on the database or its WAL, "
            "N swept from 1 until three consecutive runs survive) and at 6 sampled times; acknowledgements are logged with O_SYNC; the file is then reopened twice by fresh "
            "processes and everything is dumped; a run is non-trivial when the writer was killed; distinct by (script, injection point, acknowledged count)",
    "trusted": STORE_TRUSTED + ['translator harness/cmd/anchors (go/parser + go/types, no imports followed): prints constants, tables and modbus.RtuCrc (as a MiniGo syntax tree) from the sources into coq/theories/Anchors/Generated.v before every build; the *_from_source theorems are re-checked against that text; MiniGo/Syntax.v is the stated semantics of the fragment'] + ["strace -e inject fault injection; the per-thread counting of when=N means a given N is not one fixed crash point, the sweep still visits every database write"],
    "assumptions": STORE_ASSUME + ["SQLite in WAL mode with synchronous=NORMAL makes a committed transaction durable against process death and an uncommitted one invisible: "
                                   "this is the machine of Store/Crash.v, assumed, and probed by the injection sweep; power loss / OS crash are outside the claim"],
    "level_text": "proof (partial): C04_atomic_batches and C04_hash_consistent are Coq theorems (for every history, statement decomposition and crash instant the durable state is a prefix "
                  "of the history containing every acknowledged request, with consistent hashes) about the transaction machine; each run kills a real writer at >150 database "
                  "syscalls and checks that the reopened file equals the model after exactly the acknowledged requests or one more, has consistent hashes, one meta row, "
                  "the same root id and signing key, and that a second reopen changes nothing (also for kills during first-time initialisation)",
    "level_note": "partial: SQLite's WAL recovery, page-level I/O and fsync behaviour are assumed (the transaction machine) and only sampled by fault injection; first-time "
                  "initialisation is modelled as a sequence of transactions (Store/Init.v) and C04_init_one_meta, C04_init_keeps_root_and_key, C04_init_root_found are proved for every crash point and all ids "
                  "(a kill between root creation and admin creation leaves an instance without the default admin: noted, not a violation of the statement)",
}

AREAS["C12"] = {'area': 'c12',
 'id': 12,
 'coq': ['Base', 'Wire', 'Properties/C12.v'],
 'rule': 'seeded generator, two streams. Values: points (strings from a word list, printable ASCII, boundary runes, 126-129 byte strings, invalid '
         "UTF-8 in the 'maybe-unrepresentable' fifth; value bit patterns incl. -0, NaNs, subnormals, float32 rounding boundaries; times at the ends "
         'of the Timestamp range, of the int64 ns range, outside the range; tombstones 0, +-1, int32 min/max, beyond int32; data '
         'nil/empty/0x00/126-130 bytes) alone, in nodes, node lists, NodeRequest / NodesRequest replies (with and without node / error) and serial '
         "packets, encoded by the repo's encoders and decoded back. Bytes: raw wire messages built from the schemas of all nine message types with "
         'good fields, padded varints, unknown fields, known fields with the wrong wire type, nested groups, Timestamp edge values and (at 0/3/15 % '
         'per field) one of twelve malformations; mutations of valid encodings (bit flip, truncate, delete, insert, duplicate, byte set, splice); '
         'random bytes; high-rate payloads of 40-85 bytes; subject strings with 0-6 dots; each byte string goes through all six protobuf decoders '
         '(and the high-rate decoder when it is at most 160 bytes long). A value case is non-trivial when it holds at least one point, a byte / '
         'subject case when the input has at least 2 bytes; distinct by SHA-1 of the inputs',
 'trusted': ['model of the codec functions of data/point.go, data/node.go, client/msg.go and of the parts of protobuf-go 1.27.1 (proto3 wire format, '
             "UTF-8 check, field order, zero omission) and ptypes.Timestamp they use: coq/theories/Wire/Model.v (hand-written, tied by this run's "
             'correspondence on encoder bytes, decoder outcome class and decoded values)',
             'pb.NodeRequest / pb.NodesRequest, which the repo only decodes, are built in the harness through protobuf reflection on the registered '
             'generated types'],
 'level_text': 'proof: C12_point_roundtrip, C12_node_roundtrip, C12_nodes_roundtrip, C12_node_request_roundtrip (every field, unbounded sizes), '
               'C12_varint_roundtrip and C12_total (no decoder or subject parser reaches Panic for any byte string) are Coq theorems about the '
               'executable model; the model is run against the real encoders and decoders on >20000 generated values and byte strings per run and '
               'must produce the same bytes, the same outcome class and the same decoded values',
 'level_note': "trusted: Coq kernel, extraction, OCaml driver, the Go harness; modelled not verified: protobuf-go's parser (agreement is checked per "
               'run, not proved), float32<->float64 conversion of the serial format (modelled on bit patterns and diffed against the hardware conversion per run; C12_serial_roundtrip holds for '
               'every 64-bit pattern); Go strings / slices longer than 2^31 bytes are outside the statements',
 'assumptions': ['times are compared as the instant in ns since the Unix epoch (location and monotonic reading of time.Time are not part of the wire '
                 'format); nil and empty Data / point lists are the same value',
                 'variable-length fields are shorter than 2^31 bytes and an encoded node inside a list or reply is shorter than 2^64 bytes',
                 'DecodeSerialHrPayload substitutes time.Now() for a zero start time: the harness takes the time of the first returned sample as '
                 'that instant; inputs longer than 160 bytes are not handed to this decoder',
                 'float64 / float32 values are bit patterns; the NaN quieting of the hardware float32<->float64 conversions (amd64, arm64) is part '
                 'of the model',
                 'nested groups are matched to the depth the generator produces (5); protobuf-go skips groups recursively without a depth limit']}

AREAS["C02"] = {
    "area": "c02", "id": 2, "known_soft_only": True,
    "coq": ["Base", "Store", "Sync", "Properties/C02.v"],
    "rule": "two real instances (embedded NATS + store each) linked by the real client.SyncClient (period 1 s) driven without a manager; histories: a tree built from the downstream "
            "side with the link up, then either more two-sided writes with the link up or an outage (sync disabled) with writes on both sides (node points on shared identities, "
            "edge points, nodes created on either side, a child deleted downstream or upstream, 1 history in 12 the same point written to two different nodes on opposite sides) followed by catch-up; after every link-up phase the harness waits until both dumps of "
            "the device tree are unchanged for 2.4 s (at least 3.5 s, at most 45 s) and a history whose last phase did not converge is re-run once from fresh instances; a history is "
            "non-trivial when it has more than one phase; distinct by (kind, number of requests, number of nodes)",
    "trusted": STORE_TRUSTED + ["model of syncNode / sendNodesRemote / sendNodesLocal / SendNode over two store models: coq/theories/Sync/Model.v (hand-written; its catch-up from the two "
                                "dumps taken at the end of an outage must reproduce the two dumps observed after the link came back)"],
    "assumptions": STORE_ASSUME + ["during an outage each side writes only to nodes that exist on that side (points for a node without an edge are not visible in a dump)",
                                   "a difference that remains after catch-up is coded separately (bit 4, finding equal-hash-different-content) exactly when the model's blind_only holds on the two real dumps: all stored hashes are the "
                                   "correct Merkle hashes of the dumped content and every differing placement lies below a pair of equal compared hashes; any other remaining difference is a violation",
                                   "NATS reconnection, timer races and the goroutines of the sync client are not modelled: catch-up is modelled as a sequence of syncNode passes with no concurrent writes"],
    "level_text": "proof (partial): C02_recursion_converges (one pass of syncNode over a tree-shaped device subtree that both sides hold leaves, on every node and edge of it and on both sides, the newer point "
                  "per identity of the two they held, touches nothing outside it and keeps both stores in good standing - for every such pair of stores, every tree height, under faithful hashes), "
                  "C02_exchange_join / C02_node_exchange_store / C02_edge_exchange_store (the two comparison loops), C02_node_creation (SendNode copies a node that one side lacks), C02_no_revert_node/edge, C02_equal_hash_is_a_fixpoint and C02_convergence_refuted "
                  "(without faithful hashes the statement is false of the faithful model: equal XOR hashes over different content) are Coq theorems; the whole catch-up (incl. transfer of nodes that exist "
                  "on one side only) is an executable model validated on every run against two real linked instances, and the convergence / no-lost-write specification is evaluated on the real dumps",
    "level_note": "partial: the recursion theorem covers subtrees present on both sides (deletions are tombstone points and are covered); the transfer of a node that one side lacks is proved for one node (C02_node_creation), the recursion over its children (sendNodesRemote / sendNodesLocal) and "
                  "mirrors inside the device tree are covered by correspondence on generated histories, not by a theorem; link-level behaviour (reconnects, timers, callback goroutines) cannot be exhibited by the model",
}

AREAS["C18"] = {'area': 'c18',
 'id': 18,
 'coq': ['Base',
         'Modbus/Regs.v',
         'Modbus/Pdu.v',
         'Modbus/PduSpec.v',
         'Modbus/C18Check.v',
         'Modbus/BitsProofs.v',
         'Modbus/PduProofs.v',
         'Modbus/Legacy.v',
         'Properties/C18.v', "Anchors/Generated.v", "Anchors/TieModbus.v"],
 'rule': 'seeded generator: register files built through AddReg/WriteReg/AddRegValueValidator (empty; sparse: 1-6 registers anywhere incl. 0, '
         '4095/4096, 65535; dense: one or two blocks of 1-140 registers, optionally wrapping past 65535 or with a hole; validators from the family '
         'none / v<k / even / reject-all on none, 1 in 30 or 1 in 3 registers), one request each: function codes 1,2,3,4,5,6,15,16 with addresses on '
         'and around the mapped blocks and quantities from the limit tables (0,1,..,123-128,1967-1969,1999-2001,2032/2033,2040/2041,32768,65535; '
         'clipped to the block half of the time), write payloads with right / off-by-one length and right / wrong byte count, truncated and '
         'over-long variants, unsupported and invalid function codes (incl. 22,23,24, >=0x80), random bytes; plus a fixed small-scope sweep (3 maps '
         'x FC1-6 x 9 addresses x 7 quantities). A case is non-trivial when the function code is one of the eight served and the request is long '
         'enough to be parsed; distinct by SHA-1 of (register file, fc, data)',
 'trusted': ['translator harness/cmd/anchors (go/parser + go/types, no imports followed): prints constants, tables and modbus.RtuCrc (as a MiniGo syntax tree) from the sources into coq/theories/Anchors/Generated.v before every build; the *_from_source theorems are re-checked against that text; MiniGo/Syntax.v is the stated semantics of the fragment', "model of PDU.ProcessRequest and Regs: coq/theories/Modbus/Pdu.v, Regs.v (hand-written, tied by this run's correspondence)",
             'specification of the protocol behaviour: coq/theories/Modbus/PduSpec.v (hand-written from MODBUS Application Protocol V1.1b3)'],
 'level_text': 'proof: C18_total (no panic, no hypothesis on register file, function code or data), C18_conforms (model = protocol specification for '
               'every well-formed register file, function code and data) and C18_exception_no_change are Coq theorems about the executable model of '
               "PDU.ProcessRequest/Regs with Go's uint16/byte arithmetic and bounds checks explicit; the model and the specification are both run "
               'against the real ProcessRequest on >7000 generated requests per run (outcome class, regsChanged, response bytes, register file '
               'afterwards) and must agree on every one',
 'level_note': 'trusted: Coq kernel, extraction, OCaml driver, the Go harness; validators are Go closures, modelled by the enumerated family the '
               "harness installs; the register file is observed through ReadReg on the added addresses; server.go's Listen loop is covered by C19, "
               'not here; requests run in a child process under an 8 GiB address-space cap',
 'assumptions': ['register files are those reachable through AddReg/AddCoil (distinct 16-bit addresses, 16-bit values)',
                 'reading decisions of the specification: a request shorter than the minimum for its function code is rejected without an answer '
                 '(also for the unimplemented codes 22-24); bytes after the 4 data bytes of FC 1-6 are ignored and echoed by FC 5/6; FC 15/16 keep '
                 'the writes made before a refusal']}

AREAS["C19"] = {'area': 'c19',
 'id': 19,
 'coq': ['Base',
         'Modbus/Regs.v',
         'Modbus/Pdu.v',
         'Modbus/PduSpec.v',
         'Modbus/BitsProofs.v',
         'Modbus/PduProofs.v',
         'Modbus/RtuCrc.v',
         'Modbus/Frames.v',
         'Modbus/Client.v',
         'Modbus/Conv.v',
         'Modbus/C19Check.v',
         'Modbus/ClientProofs.v',
         'Modbus/ConvProofs.v',
         'Modbus/Legacy19.v',
         'Properties/C19.v', "MiniGo", "Anchors/Generated.v", "Anchors/TieModbus.v", "Anchors/TieRtuCrc.v", "Anchors/TieModbusData.v", "Anchors/TieCheckCrc.v"],
 'rule': 'seeded generator, four streams. sessions: a modbus.Client and a modbus.Server.Listen joined by an in-memory duplex that delivers whole '
         'packets (RTU: pipe-like io.ReadWriteCloser; TCP: net.Pipe behind net.Conn wrappers), register file of one or two blocks (1..130 registers, '
         'some with validators) or a few scattered registers, unit ids incl. 0, 247, 255 and calls to a foreign unit, 1-5 calls each (ReadCoils, '
         'ReadDiscreteInputs, ReadHoldingRegs, ReadInputRegs, WriteSingleCoil, WriteSingleReg) with counts from 1 to 2000 / 125 at every alignment '
         '(uniform, boundary table, small) plus refused counts (0, 2001, 126, 32768, 65535), reads of what was just written, TCP transaction ids '
         'after 0..256 and 65534/65535 warm-up exchanges (wrap), and in one call of seven one damaged or lost frame in either direction (RTU: bit / '
         'byte / 16-bit burst, truncation below 4 bytes; TCP: transaction id, truncation below 9 bytes, payload byte); conversions: all 13 functions '
         'of data.go, both directions, special bit patterns (NaNs, infinities, extremes); the exported RespReadBits on arbitrary PDUs; '
         'Transport.Encode / Decode on arbitrary PDUs and on well-formed, damaged, truncated and random packets in both roles. A session is '
         'non-trivial when a call returned more than one value or a successful write was followed by another call; other cases when their input is '
         'non-empty; distinct by SHA-1 of the inputs',
 'trusted': ['translator harness/cmd/anchors (go/parser + go/types, no imports followed): prints constants, tables, modbus.RtuCrc (as a MiniGo syntax tree), modbus.CheckRtuCrc (as a MiniGo/Slice.v tree that calls the printed RtuCrc) and all fifteen functions of modbus/data.go (as syntax trees of MiniGo/Slice.v: made / indexed / stored slices, index loops, the encoding/binary big-endian accessors and math.Float32bits / Float32frombits named as such) from the sources into coq/theories/Anchors/Generated.v before every build; the *_from_source theorems are re-checked against that text; MiniGo/Syntax.v and MiniGo/Slice.v are the stated semantics of the two fragments (wrap-around integers, panics as None, block scoping by dropping an iteration\'s declarations; float32 values as bit patterns; what encoding/binary and math do is stated there, not derived from their sources)', 'model of client.go, server.go (Listen iteration), rtu.go, tcp.go, crc.go, data.go and the response decoders: '
             "coq/theories/Modbus/{Client,Frames,RtuCrc,Conv}.v (hand-written, tied by this run's correspondence)",
             "specification used on the implementation's outputs: coq/theories/Modbus/C19Check.v (own bit-serial CRC-16/MODBUS, own frame layouts, "
             'register-file view and protocol specification of PduSpec.v)'],
 'level_text': 'proof: C19_read_agrees (every read, every register file, count and address, RTU and TCP with any transaction id incl. wrap: exactly '
               'the addressed values, exactly count of them, error when the server must refuse), C19_write_then_read, C19_write_reports, '
               'C19_frames_rejected (round trips; short, bad-CRC and wrong-transaction-id frames rejected; rejected requests change nothing) and '
               'C19_conv_inverse are Coq theorems about the executable model of client, server loop, framing, CRC and conversions (C19_rtu_crc_from_source, C19_check_crc_from_source and C19_conv_from_source: RtuCrc, CheckRtuCrc and the fifteen functions of modbus/data.go, as printed from the Go sources on this run, compute the model\'s functions for every input), resting on '
               'C18_conforms for the server; the model and an independent executable specification are run against the real Client/Server/transports '
               'on about 1500 client-server exchanges and 3000 codec / conversion cases per run and must agree on every frame and result',
 'level_note': 'trusted: Coq kernel, extraction, OCaml driver, the Go harness and its in-memory duplex (whole-packet delivery, a lost or unanswered '
               "request surfaces as a Read error); not modelled: timing, respreader, real serial ports and sockets, TCPServer's accept loop, "
               'ascii.go; the CRC theorems are about the modelled RtuCrc (no claim about which error patterns it detects); that it is the '
               'CRC-16/MODBUS is checked on every frame of every run against an independent bit-serial definition and anchored by the serial-line '
               "specification's example frame",
 'assumptions': ['the transport hands over whole packets: one Write is received by one Read (what NewClient/NewServer require)',
                 'register files are those reachable through AddReg/AddCoil; client and server use the same framing',
                 'float32 values are compared as bit patterns (Float32frombits/Float32bits are the identity on them on this platform)']}

AREAS["C09"] = {'area': 'c09',
 'id': 9,
 'coq': ['Base', 'Store', 'Auth', 'Properties/C09.v'],
 'rule': 'seeded generator, three kinds of case, every instance with its own random auth token and on random free ports. http: one request against '
         'an instance (light = embedded NATS server with the token + store.NewStore + the real api.NewAppHandler behind httptest; full = the real '
         'server.NewServer(...).Run()): 9 methods (GET POST PUT DELETE PATCH HEAD OPTIONS, lower case, unknown) x 33 path shapes (every node route, '
         'trailing and doubled slashes, dot and dot-dot segments into, inside and out of /v1/nodes, /v1/auth, public paths, wrong case, wrong '
         'prefix) x 34 Authorization values (absent, empty, the token, token + suffix, proper prefix, other case, token twice, Bearer + token, '
         'Basic, Bearer + token obtained from a real POST /v1/auth, Bearer + freshly minted HS256 token for several jti, two spaces / tab / trailing '
         'field, lower-case scheme, no scheme, expired by 2 s / 1 h / 1 year minted with the instance key read from the database file, signed with '
         'another key / the empty key, alg none, HS384, HS512, truncated, one signature character changed, payload replaced, header replaced by alg '
         'none, signature removed, two parts, garbage, scheme only, two Authorization headers) x bodies (well formed for the route, broken JSON, '
         'empty, wrong JSON type): a sweep of every header value over ten routes and of every method x path without credentials, with the token and '
         'with a bearer token, plus random combinations; a witness connection subscribed to p.>, nodes.>, node.>, up.>, auth.> records what each '
         'request causes on the bus. bus: nats.Connect to the real server without a token, with the token, and with 7 near misses, followed by a '
         'request. login: 6 fixed and 40 random histories of user placements on a fresh instance (groups nested up to 3 deep, 1-3 users, some with '
         'the same e-mail and the same or another password, a user without credential points; then moves, mirrors, deletions and re-additions of '
         'users and of the groups above them, credential changes, duplication), after every step a dump of every edge and one log-in per known '
         'credential pair, near miss and the empty pair through auth.user, POST /v1/auth and, with the token obtained, GET /v1/nodes. A case is '
         'non-trivial when it is an http case with a token configured and a header other than absent / the token, a bus case, or a login case with '
         'more than 2 steps; distinct by SHA-1 of the inputs',
 'trusted': ['model of App/V1/Nodes.ServeHTTP (routing, gate, route table), Key.Valid, userCheck, GetNodesForUser: coq/theories/Auth/Model.v '
             "(hand-written, tied by this run's correspondence: status class and first bus subject of every request, the node list, token owner and "
             'HTTP status of every log-in, every listing)',
             'the verdict of golang-jwt (HS256 under the instance key, exp, string jti) enters model and specification as the table of bearer tokens '
             'that are valid by construction (issued by a real log-in, or minted by the harness with the instance key and a future exp); every other '
             'token of a case is invalid by construction',
             'store model coq/theories/Store/Model.v (edges, rows, store_of_views) as for C01-C06'],
 'level_text': 'proof (partial): C09_gate, C09_gate_exact, C09_gate_absent, C09_valid_served (for every method, path, header and body a client call '
               'other than the log-in happens only behind the gate, the gate passes exactly the configured token and Bearer + a token the JWT '
               'verdict accepts, everything else on the node handler is 401 without any call), C09_login_iff / C09_login_sound (userCheck returns '
               'somebody exactly when a user node with these credentials has a path of non-deleted edges to the root, for every acyclic store), '
               'C09_listing_sound / C09_listing_edges and C09_bus are Coq theorems about the executable model; the model is run against real '
               'instances (light and the full server) on >3000 requests, connections and log-ins per run and must agree on each, and the '
               "specification (credentials presented or not; a connected matching user exists or not; listing inside the user's subtrees) is "
               'evaluated on the observed statuses, bus traffic and dumps',
 'level_note': "partial: HMAC-SHA256 / JWT parsing and expiry (golang-jwt), the NATS server's own token check and TLS are exercised by the harness "
               '(forged, expired, re-signed, truncated tokens; connections with wrong tokens), not proved - in the theorems the JWT verdict is a '
               'parameter; trusted: Coq kernel, extraction, OCaml driver, Go harness, net/http, SQLite, NATS; header values are ASCII '
               '(strings.Fields is modelled for ASCII white space); C09_current_refuted records that the pinned checkUserPathRoot (before the fix) '
               'violated C09_login_iff',
 'assumptions': ['edge tombstone points are those the clients write: key "0", value 0 or 1 (then the three deletion tests of the code - IsTombstone, '
                 'the != 0 test of checkUserPathRoot, the parity test of up() - agree; hypothesis tomb_consistent)',
                 'the store is well formed: acyclic (guaranteed by C05), distinct edge rows; no node is called root, all or none',
                 'all edges into a node carry the same node type; the e-mail / password of a user are the texts of its points email / pass with key '
                 '0, a missing point reads as the empty string (as the code does)',
                 "a bearer token is valid iff it was issued by this instance's key with HS256, a string jti and an exp in the future; tokens without "
                 'exp or with a non-string jti are not generated']}

AREAS["C15"] = {'area': 'c15',
 'id': 15,
 'coq': ['Base', 'Export', 'Store/Model.v', 'Store/Check.v', 'Store/ProofsRows.v', 'Properties/C15.v'],
 'rule': 'seeded generator: per case two fresh instances A and B (embedded NATS server + store.NewStore on a temp SQLite file each) with scaffolding '
         'groups, and on A one tree built through client.SendNode / MirrorNode / DeleteNode: depth <= 4, fan-out <= 4, eight node types, a tag point '
         'unique per node, description with key "" or "0", 0-4 points over keys ""/0/1/2/10/k/name/a.b, arrays with keys 0..n, tombstoned points '
         '(tombstone 1 and 2), data blobs, origins, extra edge points (role, sort), children deleted / deleted and restored (tombstone value 2) / '
         'with an explicit tombstone 0, 0-2 mirrors inside the tree and of the top node outside it, nodeID points referring into the tree, to '
         'scaffolding, to nothing, or empty. Text comes from a safe alphabet; at most one item per tree comes from the YAML-significant corpus (115 '
         'scalars: indicators, quotes, CR/LF/tab, NEL, BOM, NBSP, LS/PS, control characters, CJK, emoji, number / bool / null / date look-alikes, '
         'flow and block indicators, very long text; used as point text, point key or node description), from the 18 listed values (single-digit '
         'mantissa with exponent, +-Inf, 2^53, max float ...), or from 23 odd node ids (NATS tokens that look like YAML non-strings). Every corpus '
         'scalar, value and odd id is used once per run in a small probe tree; 110 x scale random trees, half of them from the safe alphabet only. '
         'Experiments per tree: ExportNodes on A then ImportNodes with new ids and with preserved ids onto B (under a group, a nested group, the '
         'root node, or as replacement of the root), with new ids onto A (other parent, same parent, or a node inside the exported subtree), with '
         'preserved ids onto A (same parent or another parent). A case is non-trivial when the exported node has children; distinct by SHA-1 of '
         '(nodes, mirrors, experiments)',
 'trusted': ['model of ExportNodes / exportNodesHelper / ImportNodes / checkIDs / ReplaceIDs / SendNode: coq/theories/Export/Model.v (hand-written, '
             "tied by this run's correspondence: the YAML decoded by the library must equal the model's export, the import's error class, the root "
             "id and the dump of every edge of the target instance afterwards (all fields but time and hash) must equal the model's store, and the "
             "GetNodes walk of the imported subtree must equal the model's walk)",
             "the write handlers without the hash column (x_node_points, x_edge_points in Export/Model.v) are copies of Store/Model.v's node_points "
             '/ edge_points, compared with the real store through the dumps',
             'the harness replaces the random source of github.com/google/uuid (uuid.SetRand) by a recorded seeded stream during ImportNodes to '
             'learn the identifiers ReplaceIDs generated, in order'],
 'level': 'proof',
 'level_text': 'proof (partial): Coq theorems about the executable model under the hypothesis unyaml (yaml t) = Some t: C15_deleted_not_exported, '
               'C15_export_faithful, C15_replace_ids_consistent (any tree, mirrors and cross references), C15_marker_top_only are complete; '
               "C15_roundtrip_preserve_partial and C15_roundtrip_rename_partial (export, import, walk back, projection equal to the source's with "
               'marker / injective renaming / new parent) are proved for subtrees without a mirror inside, imported under a parent other than root '
               'into a store that knows none of the identifiers. The model is run against two real instances on >250 trees x 1-5 experiments per run '
               'and must agree on every dump; the round-trip specification is evaluated on the observed trees, so the YAML layer is tested directly',
 'level_note': 'trusted: Coq kernel, extraction, OCaml driver, Go harness; assumed in the theorems: the YAML round trip (false of goccy/go-yaml '
               'v1.11.2 for the scalars and values listed as known findings, each keyed by its exact bytes / bit pattern and re-established on every '
               'run by asking the library directly); modelled not verified: SQLite, NATS, protobuf, time.Now (import times are taken to be later '
               'than stored times); mirrors inside the tree, imports onto existing identifiers and replacement of the root node are covered by '
               'correspondence only',
 'assumptions': ['the YAML text layer reproduces the exported structure (checked per run; known exceptions are listed per scalar)',
                 'node ids are NATS subject tokens without quotes; strings are valid UTF-8; point values are not NaN; edge tombstone points have key '
                 '""/"0" and value 0, 1 or 2; one node type per node id',
                 'ImportNodes runs alone on the target instance; its points get times later than the stored ones',
                 'nodeID references are node points of type nodeID (edge points of that type are not rewritten by ReplaceIDs and are not generated)']}

AREAS["C17"] = {'area': 'c17',
 'id': 17,
 'coq': ['Base', 'Serial', 'Properties/C17.v'],
 'rule': 'seeded generator, five case kinds: crc (random byte strings of 0-600 bytes through crc16.ChecksumCCITT, first one the KERMIT check '
         'string); round (1500 x scale packets through client.SerialEncode -> client.SerialDecode -> data.PbDecodeSerialPoints: sequence numbers '
         'skewed to 0/1/127/128/255, subjects blank/ack/phr/log/p.<id>/p.<id>.<parent>/16-byte/next-to-log/arbitrary bytes/NUL at an end/too long, '
         '0-8 (sometimes 20-80) points with values zero/-0/NaN/Inf/denormal/float32 overflow and underflow/half-way between float32 values/random '
         'bits, times epoch/min/max int64 ns/pre-epoch/recent/zero time.Time, tombstones incl. int32 limits, unicode and 100-300 byte texts, binary '
         'data fields); corrupt (300 x scale real packets x up to 250 error patterns: single bits, bit pairs at any distance, bursts of span 2-16, '
         'and outside the stated classes bursts of span 17-48, 3-8 scattered bits and the difference to another valid packet; positions skewed to '
         'header and CRC; the fixed K4 case p.g + 13-bit burst); raw (byte strings of length 0-21, log packets, truncated and extended packets into '
         'the decoder); exh (thorough tier: every single bit, every bit pair and every burst of span <= 16 on 19-47 byte packets). A case is '
         'non-trivial when it is a round trip with at least one point, a corrupt case with at least one pattern or an exhaustive case; distinct by '
         'SHA-1 of the inputs',
 'trusted': ["model of SerialEncode/SerialDecode and of the CRC: coq/theories/Serial/Model.v (hand-written, tied by this run's correspondence: "
             "packet bytes equal, every decode outcome equal, CRC equal to the library's)",
             "the harness's field-by-field protobuf writer c17Payload (expected payload handed to the model; must equal proto.Marshal's bytes)",
             "float32 rounding and time.Time.UnixNano are Go's (the expected point values are computed with them in the harness)"],
 'level_text': 'proof: C17_roundtrip (every sequence number, subject of <= 16 bytes without NUL at an end, payload of any size), C17_crc_linear, '
               'C17_codeword, C17_detects / C17_detects_far_from_log (every CRC-checked packet shorter than 4095 bytes, every non-zero error of '
               'weight 1 or 2 or burst of <= 16 bits: rejected) are Coq theorems about the executable model of the serial wrapper with a bit-exact '
               'CRC-16/KERMIT; the model is run against the real SerialEncode/SerialDecode/ChecksumCCITT on > 2000 packets and > 70000 corrupted '
               'packets per run and must agree on every byte and every outcome; point conversion is checked on the real PbDecodeSerialPoints',
 'level_note': 'trusted: Coq kernel (vm_compute for four sweeps over the 65536 register states and one over 32766 bit distances), extraction, OCaml '
               'driver, the Go harness; modelled not verified: the protobuf payload is an opaque byte string in the theorems (protobuf layer: C12); '
               'float32 rounding is Go\'s; detection holds unless the error turns the subject field into "log" (C17_log_adjacent_refuted, known '
               'finding K4)',
 'assumptions': ['packets are shorter than 4095 bytes for the two-bit guarantee (x^k != 1 mod g only for k < 32767)',
                 "an error pattern keeps the packet length (insertions and deletions are the framing layer's, C16)",
                 'point times are representable as int64 nanoseconds, tombstones as int32, strings valid UTF-8 (what fits a packet)']}

AREAS["C10"] = {'area': 'c10',
 'also_corr': ['C11'],   # Decode / MergePoints are one model: arbitrary batches (C11's inputs) tie it to the code as well
 'id': 10,
 'coq': ['Base', 'Codec', 'Properties/C10.v', "Anchors/Generated.v", "Anchors/TieCodec.v"],
 'rule': 'seeded generator over 11 flat Go struct types (two of them with function-local nested struct types of the same name, one with defined string / int32 / float64 element types) covering scalar / pointer / slice / array / string-keyed map / flat struct / '
         'pointer-to-struct fields (bool, int, int8..int64, uint..uint64, float32, float64, string; point and edgepoint tags) and a 3-level struct '
         'type with `child` slices: per scale unit 2400 round-trip values, 1200 before/after pairs and 400 trees; slice and map sizes skewed to '
         '0,1,2,3-10,999,1000 (1001 in the boundary stream), integers skewed to 0, +-1 and the width / 2^53-1 limits, floats from a pool of special '
         'values (+-0, +-Inf, subnormals, float32 rounding ties) and random bit patterns; pairs are produced by mutating the first value (shrink / '
         'grow / edit slices, remove / add / change map entries, pointers nil<->set, struct members); map runs are handed to Decode / MergePoints in '
         'shuffled order, children interleaved; about 8% of the cases come from a boundary stream that leaves the well-formed domain (NaN, > 2^53, > '
         '1000 elements, map key ""); a round-trip case is non-trivial when its value encodes to at least 3 points, a pair when its difference has '
         'at least one point, a tree when it has at least 2 nodes; distinct by SHA-1 of type and value(s)',
 'trusted': ['translator harness/cmd/anchors (go/parser + go/types, no imports followed): prints constants, tables and modbus.RtuCrc (as a MiniGo syntax tree) from the sources into coq/theories/Anchors/Generated.v before every build; the *_from_source theorems are re-checked against that text; MiniGo/Syntax.v is the stated semantics of the fragment', 'model of data.Encode / Decode / DiffPoints / MergePoints over the universe of field kinds: coq/theories/Codec/Model.v (hand-written, '
             "tied by this run's correspondence: every Encode, Decode, DiffPoints and MergePoints result is compared with the model's, bit for bit, "
             'also after an error)',
             'float64<->integer and float64<->float32 conversions are functions on IEEE bit patterns in the model (amd64 semantics), exercised '
             'against the hardware by the same correspondence; their exactness is proved (Codec/Conv.v), not assumed',
             'the Go walker between struct values and universe values (harness/cmd/harness/c10.go, c10tree.go); nil and empty slices/maps are '
             'identified, Go maps are read in sorted key order'],
 'level_text': 'proof: C10_roundtrip (decode (encode v) = v for every well-formed value of every configuration type of the universe, all seven field '
               'kinds), C10_tree_roundtrip (the same for structs with child lists, any depth) and C10_diff_merge (merging the difference of two '
               'values into the decoded first yields the second) are Coq theorems about the executable model, closed under the global context; the '
               'model is run against data.Encode/Decode/DiffPoints/MergePoints on 4000 generated values, pairs and trees per run and must agree on '
               'every output',
 'level_note': 'trusted: Coq kernel, extraction, OCaml driver, the Go harness and its walker; C10_diff_merge needs the difference of each map field '
               'to fit into 1000 points (the code refuses more: known finding, C10_diff_merge_big_map_refuted); DiffPoints on structs with child '
               'lists and merging into children are compared with the model but have no theorem',
 'assumptions': ['pointers in the before and after value of DiffPoints are distinct allocations (reflect.Value.Equal compares addresses)',
                 'slices passed to Decode have no non-zero elements hidden between len and cap',
                 "no negative zero in the values of a diff pair (Go's == cannot see a change of sign of zero)",
                 'the difference of one map field holds at most 1000 points (known finding c10:diffmerge:map-diff-over-1000-points)',
                 'struct member keys are taken from `point` tags or field names (DiffPoints ignores `edgepoint` tags of members)']}

AREAS["C11"] = {'area': 'c11',
 'id': 11,
 'coq': ['Base', 'Codec', 'Properties/C11.v'],
 'rule': 'seeded generator: a prior value (zero or well-formed random) of one of the 8 flat configuration types of C10 or of the 3-level type with '
         'child lists (1 case in 10), an operation (Decode / MergePoints / MergeEdgePoints, ids matching or not; on trees the id of any struct of '
         'the tree) and a mostly-valid point batch (Encode of a random value, DiffPoints against the prior, or points written directly for declared '
         'types) with 1-3 corruptions: weird keys (blank, negative, +5, 007, huge, non-numeric, non-ASCII digits), NaN / Inf / out-of-range / '
         'fractional values, negative and huge tombstone counts, undeclared types, the same point live and tombstoned, tombstones past the end, '
         'wrong namespace, shuffling; on trees also nodes of undeclared or other declared types, duplicated children, children below leaves, blank '
         'ids; 1 in 8 cases is pure noise; every case is run twice (with and without the points / children of undeclared types); a case is '
         'non-trivial when at least one point has a declared type; distinct by SHA-1 of the whole case',
 'trusted': ['model of data.Decode / GroupedPoints.SetValue / setVal / FindNodeInStruct / MergePoints / MergeEdgePoints: coq/theories/Codec/Model.v '
             "(hand-written, tied by this run's correspondence: outcome class and resulting struct, also after an error)",
             'panics are observed through recover() in the harness'],
 'level_text': 'proof: C11_total / C11_total_tree (decode_into, decode_tree, merge_points, merge_edge_points and their tree versions never reach '
               'Panic, for every type, prior value and input) and C11_undeclared_ignored / _tree are Coq theorems about the executable model, in '
               "which reflect's index panics are explicit; the model is run against data.Decode/MergePoints/MergeEdgePoints on 5000 malformed "
               'batches per run and must agree on outcome class and resulting value',
 'level_note': 'trusted: Coq kernel, extraction, OCaml driver, the Go harness; the model places Panic where reflect.Value.Index would panic; other '
               'reflect panics (Set on unsettable values, nil map writes) are excluded by construction of the destination (pointer to struct, maps '
               'initialised by SetValue) and are covered by the run only; node ids are unique within a tree (FindNodeInStruct walks child fields in '
               'Go map order)',
 'assumptions': ['the destination is a pointer to a struct of the universe of field kinds (docs/ref/data.md), child fields are slices of such '
                 'structs',
                 'slices passed to Decode have no non-zero elements hidden between len and cap']}

AREAS["C07"] = {'area': 'c07',
 'id': 7,
 'coq': ['Base', 'Store', 'Manager', 'Properties/C07.v'],
 'rule': 'seeded generator of histories against one fresh instance (embedded NATS server + store on a temp SQLite file) with the real '
         'client.NewManager and an instrumented client type: a store populated before the manager starts (0-2 groups / configured parent-type nodes, '
         'possibly nested, 1-3 nodes of the managed type under root, group, parent-type or a non-parent node, 0-2 children, sometimes a deleted '
         'holder), then 3-10 settled steps (create / delete / undelete of nodes of the type, delete / undelete of the group above them, add / remove '
         '/ restore / re-type a child, mirror under a second holder, point updates with origins u1/u2/empty, edge data points, unrelated nodes), '
         'each followed by a rescan trigger (throw-away node of an unrelated type) and a wait on the log; 2 in 5 histories end with a rapid burst of '
         '2-6 such requests incl. create-delete pairs fired without waiting; 1 in 20 with a stale delete; the two group-deletion histories of '
         'finding F6 run from corpus/C07. A history is non-trivial when at least one client was started and at least one stopped before the final '
         'Stop; distinct by SHA-1 of (parent types, steps)',
 'trusted': ["model of Manager.scanHelper / scan / the Run loop's events and of the per-client up.<id>.> callback: coq/theories/Manager/Model.v "
             "(hand-written, tied by this run's correspondence: every client start with its configuration, every exit, the running set after every "
             'step, every Points / EdgePoints callback)',
             'model of data.Decode for the instrumented client type (two scalar point fields, one edge point field, one child slice) in the same '
             'file',
             'the instrumented client type and the step runner of harness/cmd/harness/c07.go (logical clock, sentinel flush of the per-client '
             'subscriptions, wait conditions)'],
 'assumptions': ["a client's Run returns within the 5 s guard after Stop (the instrumented client returns at once)",
                 'NATS delivers the messages of one subscription to its callback one at a time in publish order (per-subscription FIFO)',
                 'mapKey (parent + "-" + id) is injective on the placements present (holds for ids of one fixed length such as UUIDs; the generated '
                 'ids contain no "-")',
                 "edge tombstone points carry 0, 1 or 2 (GetNodes treats exactly 1 as deleted, the store's up() every odd value); points of the "
                 'decoded scalar fields carry key "" or "0"',
                 'SQLite, database/sql and NATS request/reply behave as documented (a write is visible to reads issued after its reply); '
                 'Manager.Stop is called once'],
 'level_text': 'proof: scan_post, C07_quiescent (+ C07_drain_reaches_quiescence), C07_no_overlap, C07_child_restart, C07_stop_returns, '
               'C07_scan_finds_placements are Coq theorems about the executable event-driven model of one Manager (for every finite event history); '
               'the model is run against the real client.NewManager with an instrumented client type on generated histories and must reproduce every '
               'client start with its configuration, every exit and the running set after every settled step; the specification (running set = live '
               'placements computed independently from the store dump, configurations, no overlap in the log, Stop returns) is evaluated on the real '
               'log',
 'level_note': "PARTIAL: the theorems quantify over event histories of the model; goroutine scheduling inside Run's select, the NATS callback "
               'threads, the subscription drain loop and the 5 s shutdown guard cannot be exhibited by the model and are covered only by the '
               'generated histories (settled steps, rapid bursts where only the final running set is compared). trusted: Coq kernel, extraction, '
               'OCaml driver, Go harness; modelled not verified: NATS, SQLite, data.Decode'}

AREAS["C08"] = {'area': 'c08',
 'id': 8,
 'coq': ['Base', 'Store', 'Manager', 'Properties/C08.v'],
 'rule': 'seeded generator: tree root -> [group] -> client node c1 with 1-2 children, a grandchild, a sibling client s1, an unrelated node '
         '(variants: child shared with the sibling, two paths from the grandchild to the client); 2-4 rounds of 4-11 writes fired back to back: '
         'node-point batches of 1-3 points (description / value / other types, keys ""/0/other, deleted points) with origins from {empty, c1, s1, a '
         'child id, other, u2} written to {c1, child, grandchild, sibling, unrelated}, 1 in 12 points of mixed authorship, edge data points (role / '
         "sortOrder) on the client's and the children's edges; between rounds a structure change that restarts a client (remove / restore / add / "
         're-type a child, delete + undelete the client node); after every round each per-client subscription is flushed with a sentinel and the '
         'callback log, the folded and the stored configuration are recorded. A case is non-trivial when at least one callback was made and at least '
         'one batch was authored by a running client; distinct by SHA-1 of (parent types, steps)',
 'trusted': ["model of Manager.scanHelper / scan / the Run loop's events and of the per-client up.<id>.> callback: coq/theories/Manager/Model.v "
             "(hand-written, tied by this run's correspondence: every client start with its configuration, every exit, the running set after every "
             'step, every Points / EdgePoints callback)',
             'model of data.Decode for the instrumented client type (two scalar point fields, one edge point field, one child slice) in the same '
             'file',
             'the instrumented client type and the step runner of harness/cmd/harness/c07.go (logical clock, sentinel flush of the per-client '
             'subscriptions, wait conditions)'],
 'assumptions': ["a client's Run returns within the 5 s guard after Stop (the instrumented client returns at once)",
                 'NATS delivers the messages of one subscription to its callback one at a time in publish order (per-subscription FIFO)',
                 'mapKey (parent + "-" + id) is injective on the placements present (holds for ids of one fixed length such as UUIDs; the generated '
                 'ids contain no "-")',
                 "edge tombstone points carry 0, 1 or 2 (GetNodes treats exactly 1 as deleted, the store's up() every odd value); points of the "
                 'decoded scalar fields carry key "" or "0"',
                 'SQLite, database/sql and NATS request/reply behave as documented (a write is visible to reads issued after its reply); '
                 'Manager.Stop is called once',
                 'timestamps are non-decreasing per point identity and every batch has one author (batches of mixed authorship are compared with the '
                 'model only)'],
 'level_text': 'proof: C08_filter_exact, C08_order, C08_only_subtree (from C06_complete), C08_edge_points, C08_fold_agrees are Coq theorems about the executable '
               "model of the per-client callback composed with the store model's rebroadcast; the callback log of every running instrumented client "
               'is compared with the model and with the specification (echo filter predicate, order, subtree closure of the dump, completeness), and '
               "the configuration folded with data.MergePoints / MergeEdgePoints is compared with the store's",
 'level_note': 'trusted: Coq kernel, extraction, OCaml driver, Go harness; NATS per-subscription FIFO is a named hypothesis of C08_order; the fold '
               'clause is proved (C08_fold_agrees) for the scalar point fields of the decoder model against the store model for every history; for edge-point '
               'fields and the child slice it is checked on the real data.MergePoints / MergeEdgePoints per run'}

WIP = "not yet built in this round; the design (DESIGN.md section 6) claims it and the check is being added"
NOT_CLAIMED = {pid: WIP for pid in ["C%02d" % i for i in range(1, 21)] if pid not in AREAS}
HOOK_COMMITS = ["6f869d9", "e935e32", "bce5a7c", "1912acd"]

# input families added after the rule texts above were written (kept apart so the texts above stay readable)
_STORE_MORE = ("; further families: half of the refused cycle-closing edges are requested through client.MoveNode (the move helper must send the refused request first and nothing else); keys \"-1\" and \" \" in the alphabet and, next to both spellings of key zero in one batch, a third point of that type whose key sorts between them; one identity written at instants near both ends of the nanosecond range and in between, the same "
               "content reported again at a later instant, rewrites at the same instant that change only fields no checksum covers, "
               "cycle-closing edges created deleted as well as live, one script in twenty with a chain of 36 nodes written at its bottom, "
               "every second large batch writes 45 identities two or three times each in no particular order, one point in twenty carries a 310-byte text "
               "with one of three endings, one refusal script in four ends with a refused root tombstone followed by a new top-level node and a write to it; "
               "the request kinds sent are counted in the distribution (request-kind:*)")
_RULE_MORE = {
    "C01": _STORE_MORE, "C03": _STORE_MORE, "C05": _STORE_MORE, "C06": _STORE_MORE,
    "C02": "; further families: points with tombstone counters and payloads, points without a type, nodes without any point, a point deleted "
           "during the outage, a bare node created upstream while the link is up, creations on either side in the up-only histories, one history in eight "
           "restarts the upstream instance on its address (the link drops at the NATS level and comes back by itself) and creates a node with a child there "
           "before the downstream has reconnected, one point in eight is dated 36 hours ahead of the wall clock",
    "C04": "; further families: one 230-point batch (600 points in every second script), a rewrite at the same instant with the same checksum, an edge point on the former root's edge "
           "after the root moved, and resumed runs (c04-resume: the store carries on after recovery and its final dump is compared as well)",
    "C07": "; children are created with the client's own origin; one layout in six nests groups, one in twelve nests twenty groups with a managed node at the bottom; two scripted histories whose clients take 700 ms to return from Run, with the holder of the managed node deleted and restored again (wait-stop) while the stopped client winds down; the instrumented client keeps the slices it is handed and they are read when the log is looked at; workers give up above 3 GiB of heap",
    "C08": "; the client's configuration has a uint8 field declared before the others and one history in three ends with a foreign batch holding a value that field refuses (-3 or 300) next to a description and a value; the slices handed to the callbacks are kept and read late (a later message must not change an earlier one)",
    "C09": "; a bearer token that expires between two uses, secondary credential points (alternative e-mail / password) written during the history",
    "C11": "; slices grown to the size limit by an earlier call, member keys beyond the declared ones",
    "C12": "; a decoy value encoded between encode and decode of the observed one, value round trips right after failed decodes",
    "C13": "; incoming points that carry the rule's own origin; the ruleProcessPoints histories run on one client per history (client.VerifRuleSession), 250 of them on a client that has been handed the same batches before an edit of a threshold; one rule in eight has two schedule conditions over one window with different weekday filters",
    "C15": "; a moved top node (imported at its live placement), texts equal to node ids, indented multi-line texts, two nodes with exactly 1000 child edges / exactly 1000 living children of which ten have children of their own, one tree in eight with a node of 9-13 children, one tree in five with two ids that differ only in the case of a letter",
    "C17": "; a decoy packet encoded while the observed one is still held",
    "C18": "; register maps built from overlapping AddReg ranges and declared ascending, descending, odd positions first or with the middle backwards, validators installed and lifted again (set to nil)",
    "C19": "; the same builders as C18 (declaration orders included), read responses of short length must be rejected, registers added while the server is serving (call 7, 30 sessions), every conversion called twice",
    "C20": "; a parent that keeps growing, refused requests among the writers and two clients sending only refused requests, maintenance runs "
           "for one verification in three, requests still on their way when the instance is stopped (one round in three)",
    "C10": "; second values of diff/merge pairs that share a slice's storage with the first; one diff/merge case in three merges into a value with a history (decoded from an earlier value and already updated once by a difference that shrank its slices, which then grow again inside their old capacity with zero entries that are not the last)",
}
for _p, _t in _RULE_MORE.items():
    if _p in AREAS:
        AREAS[_p]["rule"] = AREAS[_p]["rule"] + _t
