"""Per-property configuration of the check driver."""

AREAS = {
    "C16": {
        "area": "c16", "id": 16, "coq": ["Base", "Cobs", "Properties/C16.v"],
        "rule": "seeded generator: 1-5 frames (lengths skewed to 1,2,3,253..256,507..510; bytes skewed to 00/01/ff; a zero "
                "right after a full 254-byte block), random segmentation into device reads (1 byte, whole, 1-3, 1-40, at "
                "delimiters, random; occasional empty reads), one optional damage event (corrupt / lose / insert), buffer "
                "limits at or just above the largest encoded frame; a case is non-trivial when it has more than one device "
                "read or more than one frame; distinct by SHA-1 of (limits, frames, chunks)",
        "trusted": ["model of CobsWrapper.Read/Write and cobsDecodeInplace: coq/theories/Cobs/Model.v (hand-written, tied by this run's correspondence)"],
        "level_text": "proof: C16_cobs_roundtrip, C16_chunking_invariant (every frame list, every segmentation, no size bound) and "
                      "C16_resync_partial are Coq theorems about the executable model of CobsWrapper; the model is run against the "
                      "real CobsWrapper on >1000 generated streams per run (clean, damaged, oversize) and must agree on every result",
        "level_note": "trusted: Coq kernel, extraction, OCaml driver, the Go harness and its scripted device; modelled not verified: "
                      "bytes.Buffer, the io.ReadWriteCloser contract; resync is proved for damage whose zero-free runs fit the buffer limits",
        "assumptions": ["the device returns at most len(b) bytes per Read and reports errors only at end of script",
                        "frames are non-empty (an empty frame encodes to 2 bytes, which cobsDecodeInplace rejects by design)"],
    },
}

WIP = "not yet built in this round; the design (DESIGN.md section 6) claims it and the check is being added"
NOT_CLAIMED = {pid: WIP for pid in ["C%02d" % i for i in range(1, 21)]}
HOOK_COMMITS = []
