#!/usr/bin/env python3
"""Regenerate /verif/MANIFEST.json from lib/areas.py (run after editing areas.py)."""
import json, os, sys
ROOT = os.path.dirname(os.path.dirname(os.path.abspath(__file__)))
sys.path.insert(0, os.path.join(ROOT, "lib"))
from areas import AREAS, NOT_CLAIMED, HOOK_COMMITS, WIP

props = [json.loads(l) for l in open(os.path.join(ROOT, "properties.jsonl"))]
ids = [p["id"] for p in props]
checks = []
for pid in ids:
    if pid not in AREAS or not AREAS[pid].get('ready', True):
        continue
    a = AREAS[pid]
    checks.append({
        "property_id": pid,
        "quick_cmd": "./check %s --tier quick" % pid,
        "thorough_cmd": "./check %s --tier thorough" % pid,
        "evidence_file": "evidence/%s.json" % pid,
        "replay_cmd_template": "./check %s --replay {path}" % pid,
        "engine": "coq-proof+correspondence",
        "level_claimed": {"category": a.get("level", "proof"), "text": a["level_text"], "design_ref": a.get("design_ref", "DESIGN.md section 6, " + pid)},
        "level_note": a["level_note"],
        "technique": a.get("technique", "machine-checked proof in Coq 8.16.1 of theorems about an executable Gallina model, tied to /repo by differential correspondence checking (extracted OCaml model vs Go implementation) on every run"
                            + ("; constants / tables" + (" and modbus.RtuCrc" if pid == "C19" else " and data.Point.CRC" if pid == "C03" else "") + " are regenerated from the Go sources by a translator before every build and the *_from_source theorems re-checked against them"
                               if any(str(x).startswith("Anchors/") for x in a.get("coq", [])) else "")),
    })
na = [{"property_id": pid, "reason": NOT_CLAIMED.get(pid, WIP)} for pid in ids if pid not in AREAS or not AREAS[pid].get("ready", True)]
m = {
    "version": 1,
    "setup_cmd": "./check --setup",
    "hooks": {
        "guard": "verif",
        "enable": "go build -tags verif (the harness is always built with it; files guarded by //go:build verif)",
        "baseline_off_cmd": "cd /repo && GOFLAGS=-mod=mod go test -p 1 -json -vet=off -count=1 -timeout 25m ./...",
        "source_commits": HOOK_COMMITS,
        "add_only": True,
    },
    "engines": [{
        "name": "coq-proof+correspondence", "path": "check",
        "serves_properties": [c["property_id"] for c in checks],
        "kind_free_text": "Coq 8.16.1 development under coq/ (models, proofs, Properties/Cxx.v), extracted to OCaml (extract/), "
                          "Go harness (harness/) running /repo's code on generated cases; python driver ./check decides",
    }],
    "checks": checks,
    "not_applicable": na,
    "notes": "See DESIGN.md. Every check rebuilds proofs, extraction and the Go harness against /repo's working tree under a lock, so checks may be started concurrently.",
}
json.dump(m, open(os.path.join(ROOT, "MANIFEST.json"), "w"), indent=1)
print("MANIFEST.json: %d checks, %d not claimed" % (len(checks), len(na)))
