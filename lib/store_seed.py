#!/usr/bin/env python3
"""store_seed.py <name> <PID> <pkg> <needs> <outcome>  — copy a confirmed seeded change from /tmp/mut-<name>/out to /verif/seeded/<name>/"""
import json, os, shutil, glob, sys
name, pid, pkg, needs, outcome = sys.argv[1:6]
d = os.path.join(os.path.dirname(os.path.dirname(os.path.abspath(__file__))), "seeded", name)
os.makedirs(d, exist_ok=True)
src = "/tmp/mut-%s/out" % name
shutil.copy(src + "/patch.diff", d + "/patch.diff")
demos = []
for f in glob.glob(src + "/*_test.go"):
    shutil.copy(f, d + "/" + os.path.basename(f) + ".txt")
    demos.append(os.path.basename(f))
if os.path.exists(src + "/notes.md"):
    shutil.copy(src + "/notes.md", d + "/notes.md")
json.dump({"property": pid, "breaks": "see notes.md", "needs_to_manifest": needs,
           "demonstration": {"files": [x + ".txt" for x in demos], "place_in": pkg + "/ (rename to *_test.go)",
                             "expected": "fails with patch.diff applied, passes without"},
           "confirmed": {"how": "lib/confirm_seed.sh in a scratch worktree of /repo: go build ./..., go test -p 1 of the touched package (known-flaky tests skipped for client), demonstration with and without the change",
                         "result": "build ok; package tests pass with the change; demonstration fails with it and passes without"},
           "checks_run": ["./check %s with the patch applied to /repo (lib/try_patch.sh), then reverted" % pid],
           "outcome": outcome}, open(d + "/meta.json", "w"), indent=1)
print("stored", d)
