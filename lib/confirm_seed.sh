#!/bin/sh
# usage: confirm_seed.sh <name> <out-dir> <pkg-dir> <demo-test-file> <run-regex>
# Confirms a seeded change in a scratch worktree: builds, package tests pass, demo fails with it and passes without.
name=$1; out=$2; pkg=$3; demo=$4; rx=$5
export GOFLAGS=-mod=mod GOPROXY=off GOSUMDB=off GOTOOLCHAIN=local
# the test servers of the repository bind fixed ports (8900-8913): every test run gets its own network namespace
NS="unshare -rn sh -c"
wt=/tmp/confirm-$name
git -C /repo worktree remove --force $wt 2>/dev/null; rm -rf $wt
git -C /repo worktree add --detach $wt HEAD >/dev/null 2>&1 || exit 2
cd $wt
git apply $out/patch.diff || { echo "PATCH DOES NOT APPLY"; exit 2; }
if go build ./... 2>&1 | tail -3 | grep -q .; then echo "BUILD FAILED"; else echo "build: ok"; fi
r=1; for i in 1 2 3; do if $NS "ip link set lo up; go test -p 1 -count=1 ${SKIP:+-skip '$SKIP'} ./${PKGTEST:-$pkg}/" >/tmp/confirm-$name.pkg.log 2>&1; then r=0; break; fi; done
echo "package tests with change: $( [ $r = 0 ] && echo pass || (echo FAIL; tail -5 /tmp/confirm-$name.pkg.log) )"
mkdir -p $pkg; cp $out/$demo $pkg/
if $NS "ip link set lo up; go test -p 1 -count=1 -run '$rx' ./$pkg/" >/tmp/confirm-$name.demo1.log 2>&1; then echo "demo with change: PASSES (unexpected)"; else echo "demo with change: fails (expected)"; fi
git apply -R $out/patch.diff
r=1; for i in 1 2 3; do if $NS "ip link set lo up; go test -p 1 -count=1 -run '$rx' ./$pkg/" >/tmp/confirm-$name.demo2.log 2>&1; then r=0; break; fi; done
echo "demo without change: $( [ $r = 0 ] && echo passes || (echo FAILS; tail -5 /tmp/confirm-$name.demo2.log) )"
cd /; git -C /repo worktree remove --force $wt; rm -f /tmp/confirm-$name.*.log
