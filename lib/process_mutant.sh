#!/bin/sh
# usage: process_mutant.sh <name> <PID> <pkg-dir> <demo-file> <run-regex>   (run from /verif)
# confirms a delivered seeded change in a scratch worktree and runs the property's check against it
name=$1; pid=$2; pkg=$3; demo=$4; rx=$5
export GOFLAGS=-mod=mod GOPROXY=off GOSUMDB=off GOTOOLCHAIN=local
export SKIP=${SKIP:-'TestSerial|TestSync|TestImportNodes|TestReader'}
echo "== $name"
sh /verif/lib/confirm_seed.sh $name /tmp/mut-$name/out $pkg $demo "$rx" 2>&1 | tail -4
/verif/lib/try_patch_wt.sh /tmp/mut-$name/out/patch.diff $pid 2>&1 | grep -v "^KNOWN" | tail -2 | cut -c1-170
