#!/bin/sh
# usage: process_wave.sh <PID> <wave-dir-name> <pkg_a> <rx_a> <pkg_b> <rx_b>   (run from /verif)
# A wave delivery /tmp/mut-<PID>-<wave>/out/{a,b}/ becomes /tmp/mut-<PID>-<n>/out (next free numbers) and each is
# confirmed and run against the property's check (lib/process_mutant.sh); log in /tmp/wave-<PID>.log
pid=$1; wave=$2; shift 2
last=$(ls /verif/seeded | grep "^$pid-" | sed "s/$pid-//" | sort -n | tail -1); last=${last:-0}
for x in a b; do
  pkg=$1; rx=$2; shift 2
  last=$((last+1)); name=$pid-$last
  src=/tmp/mut-$pid-$wave/out/$x
  [ -f $src/patch.diff ] || { echo "== $name: no delivery in $src"; continue; }
  rm -rf /tmp/mut-$name; mkdir -p /tmp/mut-$name; cp -r $src /tmp/mut-$name/out
  demo=$(cd $src && ls *_test.go | head -1)
  sh /verif/lib/process_mutant.sh $name $pid $pkg $demo "$rx"
done
