#!/usr/bin/env python3
"""Append a row to DESIGN.md I.5 for every seeded change that has none yet (from seeded/*/meta.json)."""
import json, glob, os, re
ROOT = os.path.dirname(os.path.dirname(os.path.abspath(__file__)))
text = open(os.path.join(ROOT, "DESIGN.md")).read()
lines = text.split("\n")
last = max(i for i, l in enumerate(lines) if re.match(r"\| C\d\d-\d+ \|", l) and i < text[:text.index("## I.6")].count("\n"))
def key(d):
    p, n = os.path.basename(d).split("-"); return (int(n), p)
new = []
for d in sorted(glob.glob(os.path.join(ROOT, "seeded", "C*-*")), key=key):
    sid = os.path.basename(d)
    if ("| %s |" % sid) in text:
        continue
    m = json.load(open(os.path.join(d, "meta.json")))
    new.append("| %s | %s | %s |" % (sid, m["needs_to_manifest"].replace("|", "/").replace("\n", " "), m.get("outcome", "").replace("|", "/").replace("\n", " ")))
lines[last + 1:last + 1] = new
open(os.path.join(ROOT, "DESIGN.md"), "w").write("\n".join(lines))
print("added", len(new), "rows")
