#!/bin/sh
# usage: try_patch.sh <patch.diff> <PID> [<PID> ...]   — apply a candidate change to /repo, run the checks, undo it
p=$1; shift
git -C /repo status --short | grep -v '^??' | grep . && { echo "/repo not clean"; exit 2; }
git -C /repo apply "$p" || { echo "patch does not apply"; exit 2; }
for pid in "$@"; do
  out=$(cd /verif && ./check $pid 2>&1)
  echo "$out" | grep -E "^VIOLATION|^KNOWN-FINDING" | cut -c1-160
  echo "$out" | grep -E "tier=" 
done
git -C /repo checkout -- . 
git -C /repo status --short | grep -v '^??'
# the printed sources are those of the restored tree again
(cd /verif && python3 anchors/gen_anchors.py >/dev/null 2>&1)
# rebuild the harness binaries from the restored tree so that nothing stale is left behind
(cd /verif/harness && GOFLAGS=-mod=mod GOPROXY=off GOSUMDB=off GOTOOLCHAIN=local go build -tags verif -o bin/harness ./cmd/harness)
