#!/bin/sh
# usage: try_patch_wt.sh <patch.diff> <PID> [<PID> ...]  (VERIF_SEED honoured)
# Like try_patch.sh but leaves /repo alone: the change is applied to a scratch worktree and the checks are
# pointed at it through REPO (harness/gen_gomod.sh); the harness is rebuilt from /repo afterwards.
p=$1; shift
wt=/tmp/tp-$$
git -C /repo worktree add --detach $wt HEAD >/dev/null 2>&1 || exit 2
git -C $wt apply "$p" || { echo "patch does not apply"; git -C /repo worktree remove --force $wt; exit 2; }
for pid in "$@"; do
  out=$(cd /verif && REPO=$wt ./check $pid 2>&1)
  echo "$out" | grep -E "^VIOLATION|^KNOWN-FINDING" | cut -c1-160
  echo "$out" | grep -E "tier="
done
git -C /repo worktree remove --force $wt
# the printed sources are those of /repo again
(cd /verif && python3 anchors/gen_anchors.py >/dev/null 2>&1)
(cd /verif/harness && sh gen_gomod.sh >/dev/null 2>&1; GOFLAGS=-mod=mod GOPROXY=off GOSUMDB=off GOTOOLCHAIN=local go build -tags verif -o bin/harness ./cmd/harness)
