#!/usr/bin/env python3
"""Integrate an area delivered by a builder:  integrate.py <deliver-dir> <PID> <AreaDir> [<PID2> ...]
Copies the area's Coq directory, Properties files, harness files and corpus, registers the dispatch
lines in extract/Extract.v and the AREAS entries (taken from the delivered lib/areas.py) in lib/areas.py."""
import importlib.util, os, pprint, re, shutil, sys, glob
ROOT = os.path.dirname(os.path.dirname(os.path.abspath(__file__)))
d, area_dir, pids = sys.argv[1], sys.argv[3], [sys.argv[2]] + sys.argv[4:]
src = os.path.join(d, "coq/theories", area_dir)
dst = os.path.join(ROOT, "coq/theories", area_dir)
if os.path.isdir(src):
    shutil.copytree(src, dst, dirs_exist_ok=True)
for pid in pids:
    f = os.path.join(d, "coq/theories/Properties", pid + ".v")
    if os.path.exists(f):
        shutil.copy(f, os.path.join(ROOT, "coq/theories/Properties", pid + ".v"))
    c = os.path.join(d, "corpus", pid)
    if os.path.isdir(c):
        shutil.copytree(c, os.path.join(ROOT, "corpus", pid), dirs_exist_ok=True)
    n = int(pid[1:])
    for g in glob.glob(os.path.join(d, "harness/cmd/harness", "c%02d*.go" % n)):
        shutil.copy(g, os.path.join(ROOT, "harness/cmd/harness", os.path.basename(g)))
# agent's areas.py
spec = importlib.util.spec_from_file_location("agent_areas", os.path.join(d, "lib/areas.py"))
m = importlib.util.module_from_spec(spec); spec.loader.exec_module(m)
ap = os.path.join(ROOT, "lib/areas.py")
s = open(ap).read()
ex = os.path.join(ROOT, "extract/Extract.v")
e = open(ex).read()
aex = open(os.path.join(d, "extract/Extract.v")).read()
for pid in pids:
    n = int(pid[1:])
    if 'AREAS["%s"]' % pid not in s:
        s = s.replace("\nWIP = ", '\nAREAS["%s"] = %s\n\nWIP = ' % (pid, pprint.pformat(m.AREAS[pid], width=150, sort_dicts=False)), 1)
    mm = re.search(r"^\s*\|\s*%d%%N\s*=>\s*(\S+)\s+v\s*$" % n, aex, re.M)
    if mm and ("| %d%%N =>" % n) not in e:
        fn = mm.group(1)
        mod = fn.rsplit(".", 1)[0]
        if ("From Verif Require %s." % mod) not in e:
            e = e.replace("(* area id -> checker *)", "From Verif Require %s.\n\n(* area id -> checker *)" % mod, 1)
        e = e.replace("  | _ => 98%N", "  | %d%%N => %s v\n  | _ => 98%%N" % (n, fn), 1)
open(ap, "w").write(s)
open(ex, "w").write(e)
print("integrated", pids)
