(* C04: atomicity of request batches under a crash at any instant, at the level
   the model can carry.  The database is a machine with a durable state and a
   volatile transaction copy; Commit publishes the copy, a crash discards it
   (this machine IS the assumption about SQLite in WAL mode under process
   death; the fault-injection harness probes it).  Every request issues its
   statements inside one Begin..Commit and is acknowledged after Commit. *)
From Verif Require Import Base.Bytes Store.GraphCount Store.GraphWalk Store.Model Store.ProofsRows Store.ProofsHash Store.ProofsTop.
From Coq Require Import Lia.

Section Crash.
(* the statements a request issues in a given state (upserts, edge insert, meta update, hash updates);
   all that matters is that together they have the request's effect *)
Variable stmts_of : store -> op -> list (store -> store).
Hypothesis stmts_sound : forall st o,
  fold_left (fun s f => f s) (stmts_of st o) st = state_of (handle st o).

Inductive ev := EBegin | EStmt (f : store -> store) | ECommit | EAck.

Record db := mkDb { durable : store; vol : option store; acks : nat }.

Definition step (d : db) (e : ev) : db :=
  match e with
  | EBegin => mkDb (durable d) (Some (durable d)) (acks d)
  | EStmt f => mkDb (durable d) (option_map f (vol d)) (acks d)
  | ECommit => mkDb (match vol d with Some s => s | None => durable d end) None (acks d)
  | EAck => mkDb (durable d) (vol d) (S (acks d))
  end.

Definition req_events (st : store) (o : op) : list ev :=
  EBegin :: map EStmt (stmts_of st o) ++ [ECommit; EAck].

(* the requests are issued one after the other, each after the previous acknowledgement *)
Fixpoint timeline (st : store) (ops : list op) : list ev :=
  match ops with
  | [] => []
  | o :: ops' => req_events st o ++ timeline (state_of (handle st o)) ops'
  end.

(* the process dies after k events; what is on disk is the durable part *)
Definition crash_at (st : store) (a : nat) (ops : list op) (k : nat) : db :=
  fold_left step (firstn k (timeline st ops)) (mkDb st None a).

Lemma stmts_prefix fs : forall m st s a,
  let d := fold_left step (firstn m (map EStmt fs)) (mkDb st (Some s) a) in
  durable d = st /\ acks d = a /\ (length fs <= m -> vol d = Some (fold_left (fun s f => f s) fs s)).
Proof.
  induction fs as [|f fs IH]; intros m st s a; cbn [map].
  - rewrite firstn_nil. cbn. auto.
  - destruct m as [|m]; cbn [firstn fold_left step durable vol acks option_map].
    + repeat split; auto. cbn. lia.
    + destruct (IH m st (f s) a) as (H1 & H2 & H3). repeat split; auto. intros Hl. apply H3. cbn in Hl. lia.
Qed.

Theorem atomic_batches ops : forall st a k,
  let d := crash_at st a ops k in
  exists j, durable d = run st (firstn j ops) /\ j <= length ops /\
            a <= acks d /\ acks d - a <= j <= S (acks d - a).
Proof.
  induction ops as [|o ops IH]; intros st a k; cbn zeta.
  - exists 0. unfold crash_at. cbn [timeline]. rewrite firstn_nil. cbn. repeat split; lia.
  - unfold crash_at. cbn [timeline]. unfold req_events.
    set (fs := stmts_of st o). set (n := length fs).
    destruct k as [|k]; [exists 0; cbn; repeat split; lia|].
    (* after Begin *)
    cbn [app firstn fold_left step durable vol acks].
    rewrite <- app_assoc. rewrite firstn_app, fold_left_app. rewrite map_length. fold n.
    destruct (stmts_prefix fs k st st a) as (H1 & H2 & H3). cbv zeta in H1, H2, H3.
    remember (fold_left step (firstn k (map EStmt fs)) (mkDb st (Some st) a)) as d1 eqn:Ed1 in *.
    destruct (Nat.le_gt_cases k n) as [Hk|Hk].
    + (* died before Commit *)
      replace (k - n) with 0 by lia. cbn [firstn fold_left]. exists 0. cbn [firstn run length]. rewrite H1, H2. repeat split; try reflexivity; lia.
    + specialize (H3 ltac:(lia)). unfold fs in H3. rewrite stmts_sound in H3.
      remember (k - n) as r eqn:Er. destruct r as [|r]; [lia|].
      cbn [app firstn fold_left step]. rewrite H3, ?H1, ?H2. cbn [durable vol acks].
      destruct r as [|r].
      * (* Commit done, acknowledgement not sent *)
        cbn [firstn fold_left]. exists 1. cbn [firstn run durable acks length]. repeat split; try reflexivity; lia.
      * cbn [firstn fold_left step durable vol acks].
        specialize (IH (state_of (handle st o)) (S a) r). cbv zeta in IH. unfold crash_at in IH.
        destruct IH as (j & Hd & Hj & Ha & Hb).
        exists (S j). cbn [firstn run length]. rewrite Hd. repeat split; try reflexivity; lia.
Qed.

Lemma Forall_firstn {A} (P : A -> Prop) (l : list A) j : Forall P l -> Forall P (firstn j l).
Proof.
  revert j. induction l as [|x l IH]; intros j H; [rewrite firstn_nil; constructor|].
  destruct j; [constructor|]. inversion H; subst. cbn. constructor; auto.
Qed.

(* hence: what is found after recovery is the state after a prefix of the history that contains
   every acknowledged request, each batch completely or not at all, and (C03) its hashes are consistent *)
Theorem crash_recovery ops st k :
  wf st -> Inv st -> Forall op_ok ops ->
  let d := crash_at st 0 ops k in
  exists j, durable d = run st (firstn j ops) /\ acks d <= j <= S (acks d) /\ j <= length ops /\
            wf (durable d) /\ Inv (durable d).
Proof.
  intros W HI Hok. cbv zeta. destruct (atomic_batches ops st 0 k) as (j & Hd & Hj & Ha & Hb). cbv zeta in *.
  exists j. rewrite Hd.
  destruct (run_inv (firstn j ops) st W HI (Forall_firstn _ _ j Hok)) as [W' HI'].
  split; [reflexivity|]. split; [lia|]. split; [lia|]. split; assumption.
Qed.
End Crash.
