(* Store core, top level: what one request and what a history of requests does
   to the model state (C01 rows, C03 invariant, C05 refusals / no trace /
   acyclicity, C06 rebroadcast closure). *)
From Verif Require Import Base.Bytes Store.GraphCount Store.GraphWalk Store.Model Store.ProofsRows Store.ProofsHash.
Local Open Scope N_scope.

(* requests as they can arrive over NATS: subject tokens are non-empty *)
Definition op_ok (o : op) : Prop :=
  match o with
  | NodePts _ _ => True
  | EdgePts id par _ => par <> []
  end.

(* ---------- one request keeps the store well formed and the hash equation valid ---------- *)
Lemma edge_points_inv st id par pts st' :
  wf st -> Inv st -> par <> [] ->
  edge_points st id par pts = Ok st' -> wf st' /\ Inv st'.
Proof.
  intros W HI Hpar. unfold edge_points.
  destruct (has_nan pts); [discriminate|]. destruct (bad_times pts); [discriminate|].
  destruct (bytes_eqb id par) eqn:Eself; [discriminate|].
  destruct (bytes_eqb id (s_root st) && existsb _ (collapse pts)); [discriminate|].
  assert (match par with [] => str_root | _ :: _ => par end = par) as -> by (destruct par; [contradiction|reflexivity]).
  destruct (find_edge (s_edges st) par id) as [e|] eqn:Ef.
  - destruct (merge_batch true (e_pts e) (collapse pts)) as [rows d] eqn:EM.
    intros E. inversion E; subst st'; clear E.
    destruct (find_edge_spec _ _ _ _ Ef) as (He & Hu & Hd).
    pose proof (merge_batch_snd true (e_pts e) (collapse pts)) as Hdelta. rewrite EM in Hdelta. cbn [fst snd] in Hdelta.
    rewrite <- Hu. apply (edge_points_existing_inv st e rows d W HI He Hdelta).
  - destruct (is_upstream (s_edges st) (fuel_of (s_edges st)) id par) eqn:Eup; [discriminate|].
    destruct (merge_batch true [] (collapse pts)) as [rows d] eqn:EM.
    destruct (last_node_type (collapse pts)) as [|c nt] eqn:Ent; [discriminate|].
    intros E. inversion E; subst st'; clear E.
    pose proof (merge_batch_snd true [] (collapse pts)) as Hdelta. rewrite EM in Hdelta. cbn [fst snd] in Hdelta.
    rewrite xor_crcs_nil, N.lxor_0_l in Hdelta. subst d.
    apply (edge_points_new_inv st id par (c :: nt) rows W HI).
    + intros ->. rewrite bytes_eqb_refl in Eself. discriminate.
    + exact Ef.
    + exact Eup.
Qed.

Definition state_of (r : store * N * list bytes) : store := fst (fst r).
Definition reply_of (r : store * N * list bytes) : N := snd (fst r).
Definition pubs_of (r : store * N * list bytes) : list bytes := snd r.

Theorem handle_inv st o : wf st -> Inv st -> op_ok o ->
  wf (state_of (handle st o)) /\ Inv (state_of (handle st o)).
Proof.
  intros W HI Hok. destruct o as [id pts|id par pts]; cbn [handle].
  - destruct (node_points st id pts) as [st'|e] eqn:E; cbn; [|auto].
    eapply node_points_inv; eassumption.
  - pose proof Hok as Hp. cbn [op_ok] in Hp. destruct (edge_points st id par pts) as [st'|e] eqn:E; cbn; [|auto].
    eapply edge_points_inv; eassumption.
Qed.

Fixpoint run (st : store) (ops : list op) : store :=
  match ops with
  | [] => st
  | o :: ops' => run (state_of (handle st o)) ops'
  end.

(* C03 / C05: every reachable state is well formed (in particular acyclic) and satisfies the hash equation *)
Theorem run_inv ops : forall st, wf st -> Inv st -> Forall op_ok ops -> wf (run st ops) /\ Inv (run st ops).
Proof.
  induction ops as [|o ops IH]; intros st W HI Hok; cbn [run]; [auto|].
  inversion Hok; subst. destruct (handle_inv st o W HI) as [W' HI']; [assumption|]. apply IH; assumption.
Qed.

(* ---------- C05: refusals, and refused requests leave no trace ---------- *)
Theorem error_no_trace st o : reply_of (handle st o) <> 0 -> state_of (handle st o) = st /\ pubs_of (handle st o) = [].
Proof.
  destruct o as [id pts|id par pts]; cbn [handle].
  - destruct (node_points st id pts); cbn; [intros H; contradiction|auto].
  - destruct (edge_points st id par pts); cbn; [intros H; contradiction|auto].
Qed.

Theorem reply_is_0_or_1 st o : reply_of (handle st o) = 0 \/ reply_of (handle st o) = 1.
Proof.
  destruct o as [id pts|id par pts]; cbn [handle].
  - destruct (node_points st id pts); cbn; auto.
  - destruct (edge_points st id par pts); cbn; auto.
Qed.

Theorem refused_nan_node st id pts : has_nan pts = true -> reply_of (handle st (NodePts id pts)) = 1.
Proof. intros H. cbn [handle]. unfold node_points. rewrite H. reflexivity. Qed.

Theorem refused_nan_edge st id par pts : has_nan pts = true -> reply_of (handle st (EdgePts id par pts)) = 1.
Proof. intros H. cbn [handle]. unfold edge_points. rewrite H. reflexivity. Qed.

Theorem refused_self_edge st id pts : reply_of (handle st (EdgePts id id pts)) = 1.
Proof.
  cbn [handle]. unfold edge_points. destruct (has_nan pts); [reflexivity|]. destruct (bad_times pts); [reflexivity|]. rewrite bytes_eqb_refl. reflexivity.
Qed.

Theorem refused_root_tombstone st par pts :
  existsb (fun p => bytes_eqb (p_type p) str_tombstone && f64_gt0 (p_val p)) (collapse pts) = true ->
  reply_of (handle st (EdgePts (s_root st) par pts)) = 1.
Proof.
  intros H. cbn [handle]. unfold edge_points. destruct (has_nan pts); [reflexivity|]. destruct (bad_times pts); [reflexivity|].
  destruct (bytes_eqb (s_root st) par); [reflexivity|]. rewrite bytes_eqb_refl, H. reflexivity.
Qed.

(* a new edge under a descendant (through live or deleted edges) of the node, or under the node itself *)
Theorem refused_cycle st id par pts l :
  wf st -> par <> [] ->
  find_edge (s_edges st) par id = None ->
  gwalk (s_edges st) par l -> gendpoint par l = id ->
  reply_of (handle st (EdgePts id par pts)) = 1.
Proof.
  intros W Hpar Hf Hw Hend. cbn [handle]. unfold edge_points.
  destruct (has_nan pts); [reflexivity|]. destruct (bad_times pts); [reflexivity|].
  destruct (bytes_eqb id par); [reflexivity|].
  destruct (bytes_eqb id (s_root st) && existsb _ (collapse pts)); [reflexivity|].
  assert (match par with [] => str_root | _ :: _ => par end = par) as -> by (destruct par; [contradiction|reflexivity]).
  rewrite Hf.
  destruct (is_upstream (s_edges st) (fuel_of (s_edges st)) id par) eqn:Eup; [reflexivity|].
  exfalso. exact (not_upstream_no_walk _ _ _ (wf_ids _ W) (wf_acyclic _ W) Eup l Hw Hend).
Qed.

Theorem refused_no_node_type st id par pts :
  par <> [] -> find_edge (s_edges st) par id = None ->
  last_node_type (collapse pts) = [] ->
  reply_of (handle st (EdgePts id par pts)) = 1.
Proof.
  intros Hpar Hf Hnt. cbn [handle]. unfold edge_points.
  destruct (has_nan pts); [reflexivity|]. destruct (bad_times pts); [reflexivity|].
  destruct (bytes_eqb id par); [reflexivity|].
  destruct (bytes_eqb id (s_root st) && existsb _ (collapse pts)); [reflexivity|].
  assert (match par with [] => str_root | _ :: _ => par end = par) as -> by (destruct par; [contradiction|reflexivity]).
  rewrite Hf. destruct (is_upstream _ _ id par); [reflexivity|].
  destruct (merge_batch true [] (collapse pts)). rewrite Hnt. reflexivity.
Qed.

(* the instance keeps answering: on reachable states more fuel changes nothing in the upward recursions *)
Theorem total_visits st x F : wf st -> (fuel_of (s_edges st) <= F)%nat ->
  visits (s_edges st) (S F) x = visits (s_edges st) F x.
Proof.
  intros W HF. rewrite !visits_generic.
  apply (GraphWalk.fuel_adequate bytes bytes_eqb bytes_eqb_eq edge e_id e_up e_down _ (wf_ids _ W)).
  - exact (wf_acyclic _ W).
  - unfold fuel_of in HF. lia.
Qed.

(* ---------- C06: the recursive publishers reach exactly the upward closure ---------- *)
Definition sel_of (include_deleted : bool) (e : edge) : bool := include_deleted || edge_live e.

Lemma pubs_reach G incl :
  forall f x, pubs G incl f x = greach G (sel_of incl) f x.
Proof.
  induction f as [|f IH]; intros x; cbn [pubs GraphWalk.reach]; [reflexivity|]. f_equal.
  assert (Hps : GraphWalk.psel bytes bytes_eqb edge e_down G (sel_of incl) x = filter (sel_of incl) (parents G x)).
  { unfold GraphWalk.psel, parents. clear. induction G as [|e G IH]; [reflexivity|]. cbn [filter].
    destruct (bytes_eqb (e_down e) x); cbn [andb filter]; [destruct (sel_of incl e)|]; rewrite IH; reflexivity. }
  rewrite Hps. unfold ups. rewrite flat_map_concat_map, map_map, <- flat_map_concat_map.
  apply flat_map_ext. intros e. apply IH.
Qed.

Theorem pubs_exact st incl x a : wf st ->
  (In a (pubs (s_edges st) incl (fuel_of (s_edges st)) x) <->
   exists l, gswalk (s_edges st) (sel_of incl) x l /\ gendpoint x l = a).
Proof.
  intros W. rewrite (pubs_reach _ incl).
  apply (GraphWalk.reach_exact_acyclic bytes bytes_eqb bytes_eqb_eq edge e_id e_up e_down _ (wf_ids _ W)).
  - exact (wf_acyclic _ W).
  - unfold fuel_of. lia.
Qed.

Theorem handle_pubs st o : wf st -> Inv st -> op_ok o ->
  reply_of (handle st o) = 0 ->
  let st' := state_of (handle st o) in
  forall a, In a (pubs_of (handle st o)) <->
    match o with
    | NodePts id _ => exists l, gswalk (s_edges st') (sel_of false) id l /\ gendpoint id l = a
    | EdgePts id _ _ => exists l, gswalk (s_edges st') (sel_of true) id l /\ gendpoint id l = a
    end.
Proof.
  intros W HI Hok Hr. cbv zeta. intros a.
  pose proof (handle_inv st o W HI Hok) as [W' _].
  destruct o as [id pts|id par pts]; cbn [handle] in *.
  - destruct (node_points st id pts) as [st'|e]; cbn in *; [|discriminate]. apply pubs_exact. exact W'.
  - destruct (edge_points st id par pts) as [st'|e]; cbn in *; [|discriminate]. apply pubs_exact. exact W'.
Qed.

(* ---------- C01: what a read returns per identity ---------- *)
Record rows_ok (st : store) : Prop := {
  ro_nodes : forall id, keys_norm (node_rows (s_nodes st) id) /\ nodup_rows (node_rows (s_nodes st) id);
  ro_edges : forall e, In e (s_edges st) -> keys_norm (e_pts e) /\ nodup_rows (e_pts e) }.

Theorem node_points_rows st id pts st' : rows_ok st -> node_points st id pts = Ok st' ->
  node_rows (s_nodes st') id = batch_rows false (node_rows (s_nodes st) id) pts /\
  (forall id', id' <> id -> node_rows (s_nodes st') id' = node_rows (s_nodes st) id') /\
  map e_pts (s_edges st') = map e_pts (s_edges st) /\
  rows_ok st'.
Proof.
  intros RO. unfold node_points. destruct (has_nan pts); [discriminate|]. destruct (bad_times pts); [discriminate|].
  destruct (merge_batch false (node_rows (s_nodes st) id) (collapse pts)) as [rows d] eqn:EM.
  intros E. inversion E; subst st'; clear E. cbn [s_nodes s_edges].
  assert (Hrows : rows = batch_rows false (node_rows (s_nodes st) id) pts) by (unfold batch_rows; rewrite EM; reflexivity).
  assert (Hpts : map e_pts (update_hash (s_edges st) id d) = map e_pts (s_edges st)).
  { unfold update_hash. rewrite map_map. apply map_ext. intros e. apply toggle_pts. }
  repeat split.
  - rewrite node_rows_set_same. exact Hrows.
  - intros id' Hne. apply node_rows_set_other. exact Hne.
  - exact Hpts.
  - cbn [s_nodes]. destruct (list_eq_dec N.eq_dec id0 id) as [->|Hne].
    + rewrite node_rows_set_same, Hrows. apply batch_rows_keys. apply (ro_nodes _ RO).
    + rewrite node_rows_set_other by exact Hne. apply (ro_nodes _ RO).
  - cbn [s_nodes]. destruct (list_eq_dec N.eq_dec id0 id) as [->|Hne].
    + rewrite node_rows_set_same, Hrows. apply batch_rows_nodup; apply (ro_nodes _ RO).
    + rewrite node_rows_set_other by exact Hne. apply (ro_nodes _ RO).
  - cbn [s_edges] in H. unfold update_hash in H. apply in_map_iff in H as (e0 & <- & He0). rewrite toggle_pts. apply (ro_edges _ RO). exact He0.
  - cbn [s_edges] in H. unfold update_hash in H. apply in_map_iff in H as (e0 & <- & He0). rewrite toggle_pts. apply (ro_edges _ RO). exact He0.
Qed.

(* node points accepted along a history, in order of delivery *)
Fixpoint accepted_node (st : store) (ops : list op) (id : bytes) : list point :=
  match ops with
  | [] => []
  | o :: ops' =>
      (match o with
       | NodePts i pts => if (reply_of (handle st o) =? 0) && bytes_eqb i id then pts else []
       | EdgePts _ _ _ => []
       end) ++ accepted_node (state_of (handle st o)) ops' id
  end.

Lemma edge_points_nodes st id par pts st' : edge_points st id par pts = Ok st' -> s_nodes st' = s_nodes st.
Proof.
  unfold edge_points. destruct (has_nan pts); [discriminate|]. destruct (bad_times pts); [discriminate|].
  destruct (bytes_eqb id par); [discriminate|].
  destruct (bytes_eqb id (s_root st) && existsb _ (collapse pts)); [discriminate|].
  destruct (find_edge _ _ id) as [e|].
  - destruct (merge_batch true (e_pts e) (collapse pts)). intros E. inversion E. reflexivity.
  - destruct (is_upstream _ _ id _); [discriminate|]. destruct (merge_batch true [] (collapse pts)).
    destruct (last_node_type (collapse pts)); [discriminate|]. intros E. inversion E. reflexivity.
Qed.

Definition nodes_ok (st : store) : Prop :=
  forall id, keys_norm (node_rows (s_nodes st) id) /\ nodup_rows (node_rows (s_nodes st) id).

Lemma node_points_nodes_ok st id pts st' : nodes_ok st -> node_points st id pts = Ok st' ->
  node_rows (s_nodes st') id = batch_rows false (node_rows (s_nodes st) id) pts /\
  (forall id', id' <> id -> node_rows (s_nodes st') id' = node_rows (s_nodes st) id') /\ nodes_ok st'.
Proof.
  intros RO. unfold node_points. destruct (has_nan pts); [discriminate|]. destruct (bad_times pts); [discriminate|].
  destruct (merge_batch false (node_rows (s_nodes st) id) (collapse pts)) as [rows d] eqn:EM.
  intros E. inversion E; subst st'; clear E. cbn [s_nodes].
  assert (Hrows : rows = batch_rows false (node_rows (s_nodes st) id) pts) by (unfold batch_rows; rewrite EM; reflexivity).
  split; [rewrite node_rows_set_same; exact Hrows|]. split; [intros id' Hne; apply node_rows_set_other; exact Hne|].
  intros id0. cbn [s_nodes]. destruct (list_eq_dec N.eq_dec id0 id) as [->|Hne].
  - rewrite node_rows_set_same, Hrows. split; [apply batch_rows_keys|apply batch_rows_nodup]; apply RO.
  - rewrite node_rows_set_other by exact Hne. apply RO.
Qed.

Lemma sel_app t k l1 l2 : sel t k (l1 ++ l2) = sel t k l1 ++ sel t k l2.
Proof. unfold sel. apply filter_app. Qed.

(* C01 for node points, over whole histories: whatever the order, batching, duplication or
   re-delivery, a read of identity (t,k) of node id returns the fold of "newer" over the accepted
   points of that identity, i.e. (newest_perm / fold_newer_max) the newest one *)
Theorem newest_wins_node ops : forall st id t k, nodes_ok st ->
  lookup (node_rows (s_nodes (run st ops)) id) t k =
  fold_left newer (sel t k (map normp (accepted_node st ops id))) (lookup (node_rows (s_nodes st) id) t k).
Proof.
  induction ops as [|o ops IH]; intros st id t k RO; cbn [run accepted_node]; [reflexivity|].
  rewrite map_app, sel_app, fold_left_app.
  destruct o as [i pts|i par pts]; cbn [handle].
  - destruct (node_points st i pts) as [st'|e] eqn:E; cbn [state_of reply_of fst snd].
    + destruct (node_points_nodes_ok st i pts st' RO E) as (Hsame & Hother & RO').
      rewrite (IH st' id t k RO'). f_equal. cbn [N.eqb andb].
      destruct (bytes_eqb i id) eqn:Ei.
      * apply bytes_eqb_eq in Ei. subst i. rewrite Hsame.
        rewrite batch_rows_lookup by apply RO. reflexivity.
      * cbn [map sel filter fold_left]. rewrite Hother; [reflexivity|].
        intros ->. rewrite bytes_eqb_refl in Ei. discriminate.
    + rewrite (IH st id t k RO). reflexivity.
  - destruct (edge_points st i par pts) as [st'|e] eqn:E; cbn [state_of reply_of fst snd app map sel filter fold_left].
    + assert (RO' : nodes_ok st') by (unfold nodes_ok; rewrite (edge_points_nodes _ _ _ _ _ E); exact RO).
      rewrite (IH st' id t k RO'). rewrite (edge_points_nodes _ _ _ _ _ E). reflexivity.
    + apply IH. exact RO.
Qed.

(* one edge point request: the rows of the written edge *)
Theorem edge_points_rows_existing st id par pts st' e :
  par <> [] -> keys_norm (e_pts e) ->
  find_edge (s_edges st) par id = Some e ->
  edge_points st id par pts = Ok st' ->
  exists e', In e' (s_edges st') /\ e_id e' = e_id e /\ e_up e' = par /\ e_down e' = id /\
             e_pts e' = batch_rows true (e_pts e) pts.
Proof.
  intros Hpar Hk Hf. unfold edge_points. destruct (has_nan pts); [discriminate|]. destruct (bad_times pts); [discriminate|].
  destruct (bytes_eqb id par); [discriminate|].
  destruct (bytes_eqb id (s_root st) && existsb _ (collapse pts)); [discriminate|].
  assert (match par with [] => str_root | _ :: _ => par end = par) as -> by (destruct par; [contradiction|reflexivity]).
  rewrite Hf. destruct (merge_batch true (e_pts e) (collapse pts)) as [rows d] eqn:EM.
  intros E. inversion E; subst st'; clear E. cbn [s_edges].
  destruct (find_edge_spec _ _ _ _ Hf) as (He & Hu & Hd).
  set (e1 := mkEdge (e_id e) (e_up e) (e_down e) (e_type e) rows (e_hash e)).
  exists (toggle (e_id e :: visits (set_edge (s_edges st) e1) (fuel_of (set_edge (s_edges st) e1)) par) d e1).
  rewrite toggle_id, toggle_up, toggle_down, toggle_pts. cbn [e_id e_up e_down e_pts e1].
  repeat split; auto.
  - unfold update_edge_hash. apply in_map. unfold set_edge. apply in_map_iff. exists e. split; [|exact He].
    cbn [e_id e1]. rewrite N.eqb_refl. reflexivity.
  - unfold batch_rows. rewrite EM. reflexivity.
Qed.

(* one row per identity, always *)
Theorem run_nodes_ok ops : forall st, nodes_ok st -> nodes_ok (run st ops).
Proof.
  induction ops as [|o ops IH]; intros st RO; cbn [run]; [exact RO|]. apply IH.
  destruct o as [i pts|i par pts]; cbn [handle].
  - destruct (node_points st i pts) as [st'|e] eqn:E; cbn [state_of fst]; [|exact RO].
    apply (node_points_nodes_ok st i pts st' RO E).
  - destruct (edge_points st i par pts) as [st'|e] eqn:E; cbn [state_of fst]; [|exact RO].
    unfold nodes_ok. rewrite (edge_points_nodes _ _ _ _ _ E). exact RO.
Qed.

(* order, batching and duplication independence: with distinct times per identity every
   permutation of the same deliveries gives the same read *)
Theorem history_independent (ps ps' : list point) t k :
  Permutation.Permutation ps ps' -> distinct_times (sel t k (map normp ps)) ->
  fold_left newer (sel t k (map normp ps)) None = fold_left newer (sel t k (map normp ps')) None.
Proof.
  intros HP HD. apply newest_perm; [|exact HD]. apply sel_perm. apply Permutation.Permutation_map. exact HP.
Qed.

(* a point older than the one held changes nothing *)
Theorem stale_ignored rows p q t k :
  keys_norm rows -> lookup rows t k = Some q -> is_id t k p = true -> (p_time p < p_time q)%Z ->
  lookup (batch_rows false rows [p]) t k = Some q.
Proof.
  intros Hk Hq Hp Hlt. rewrite batch_rows_lookup by exact Hk. cbn [eff map sel filter].
  rewrite is_id_normp, Hp. cbn [fold_left]. rewrite Hq. cbn [newer].
  assert ((p_time q <=? p_time (normp p))%Z = false) as -> by (apply Z.leb_gt; exact Hlt). reflexivity.
Qed.

(* the CRC of a point depends on exactly time, type, key, text and value *)
Theorem crc_depends_exactly p q :
  p_time p = p_time q -> p_type p = p_type q -> p_key p = p_key q -> p_text p = p_text q -> p_val p = p_val q ->
  point_crc p = point_crc q.
Proof. intros H1 H2 H3 H4 H5. unfold point_crc. rewrite H1, H2, H3, H4, H5. reflexivity. Qed.

(* ---------- a concrete reachable state (non-vacuity) ---------- *)
Definition st0 : store := mkStore [] [] [] 0.

Lemma wf_st0 : wf st0.
Proof.
  constructor; cbn.
  - constructor.
  - intros e [].
  - intros x l Hne Hw. destruct l as [|e l]; [contradiction|]. destruct Hw as ([] & _).
Qed.

Lemma inv_st0 : Inv st0.
Proof. intros e []. Qed.

Lemma nodes_ok_st0 : nodes_ok st0.
Proof. intros id. cbn. split; [constructor|exact I]. Qed.

(* ---------- C03, propagation clause ---------- *)
(* after a node point write the hash of each edge changes by exactly the content delta d when the
   upward recursion visits the edge an odd number of times (once per upward path from the node
   ending in that edge), and not at all when it visits it an even number of times *)
Theorem node_write_hash_change st id pts st' :
  node_points st id pts = Ok st' ->
  let d := N.lxor (xor_crcs (node_rows (s_nodes st) id)) (xor_crcs (node_rows (s_nodes st') id)) in
  map e_hash (s_edges st') =
  map (fun e => N.lxor (e_hash e)
                  (if Nat.odd (cnt (e_id e) (visits (s_edges st) (fuel_of (s_edges st)) id)) then d else 0))
      (s_edges st).
Proof.
  unfold node_points. destruct (has_nan pts); [discriminate|]. destruct (bad_times pts); [discriminate|].
  destruct (merge_batch false (node_rows (s_nodes st) id) (collapse pts)) as [rows d0] eqn:EM.
  intros E. inversion E; subst st'; clear E. cbn [s_nodes s_edges].
  pose proof (merge_batch_snd false (node_rows (s_nodes st) id) (collapse pts)) as Hd. rewrite EM in Hd. cbn [fst snd] in Hd.
  rewrite node_rows_set_same, <- Hd. unfold update_hash. rewrite map_map. apply map_ext. intros e.
  rewrite toggle_hash. unfold GraphCount.tog, GraphCount.par, cnt, GraphCount.cnt. reflexivity.
Qed.

(* ---------- C01 for edge points, over histories ---------- *)
Definition edge_rows (st : store) (up down : bytes) : list point :=
  match find_edge (s_edges st) up down with Some e => e_pts e | None => [] end.

Definition edges_ok (st : store) : Prop :=
  forall e, In e (s_edges st) -> keys_norm (e_pts e) /\ nodup_rows (e_pts e).

Lemma find_edge_map g G up down :
  (forall e, e_up (g e) = e_up e /\ e_down (g e) = e_down e) ->
  find_edge (map g G) up down = option_map g (find_edge G up down).
Proof.
  intros H. unfold find_edge. induction G as [|e G IH]; [reflexivity|]. cbn [map find].
  destruct (H e) as [-> ->]. destruct (bytes_eqb (e_up e) up && bytes_eqb (e_down e) down); [reflexivity|exact IH].
Qed.

Lemma find_edge_map_in g G up down :
  (forall e, In e G -> e_up (g e) = e_up e /\ e_down (g e) = e_down e) ->
  find_edge (map g G) up down = option_map g (find_edge G up down).
Proof.
  unfold find_edge. induction G as [|x G IH]; intros Hg; [reflexivity|]. cbn [map find].
  destruct (Hg x (or_introl eq_refl)) as [-> ->].
  destruct (bytes_eqb (e_up x) up && bytes_eqb (e_down x) down); [reflexivity|].
  apply IH. intros y Hy. apply Hg. right. exact Hy.
Qed.

Lemma edge_rows_toggle vs d G ns r n ns2 r2 n2 up down :
  edge_rows (mkStore ns (map (toggle vs d) G) r n) up down = edge_rows (mkStore ns2 G r2 n2) up down.
Proof.
  unfold edge_rows. cbn [s_edges]. rewrite find_edge_map by (intros e; rewrite toggle_up, toggle_down; auto).
  destruct (find_edge G up down); cbn [option_map]; [apply toggle_pts|reflexivity].
Qed.

Lemma node_points_edge_rows st id pts st' up down :
  node_points st id pts = Ok st' -> edge_rows st' up down = edge_rows st up down.
Proof.
  destruct st as [ns G r n]. unfold node_points. cbn [s_nodes s_edges s_root s_next].
  destruct (has_nan pts); [discriminate|]. destruct (bad_times pts); [discriminate|].
  destruct (merge_batch false (node_rows ns id) (collapse pts)) as [rows d].
  intros E. inversion E; subst st'. unfold update_hash. apply edge_rows_toggle.
Qed.

Lemma node_points_edges_ok st id pts st' : edges_ok st -> node_points st id pts = Ok st' -> edges_ok st'.
Proof.
  intros HO. unfold node_points. destruct (has_nan pts); [discriminate|]. destruct (bad_times pts); [discriminate|].
  destruct (merge_batch false (node_rows (s_nodes st) id) (collapse pts)) as [rows d].
  intros E. inversion E; subst st'. intros e He. cbn [s_edges] in He. unfold update_hash in He.
  apply in_map_iff in He as (e0 & <- & He0). rewrite toggle_pts. apply HO. exact He0.
Qed.

Lemma find_edge_app_none G e up down : find_edge G up down = None ->
  find_edge (G ++ [e]) up down = if bytes_eqb (e_up e) up && bytes_eqb (e_down e) down then Some e else None.
Proof.
  unfold find_edge. induction G as [|g G IH]; cbn [app find]; intros H; [reflexivity|].
  destruct (bytes_eqb (e_up g) up && bytes_eqb (e_down g) down); [discriminate|apply IH; exact H].
Qed.

Lemma find_edge_app_some G e up down x : find_edge G up down = Some x -> find_edge (G ++ [e]) up down = Some x.
Proof.
  unfold find_edge. induction G as [|g G IH]; cbn [app find]; intros H; [discriminate|].
  destruct (bytes_eqb (e_up g) up && bytes_eqb (e_down g) down); [exact H|apply IH; exact H].
Qed.

(* one edge point request: the rows of the written edge follow the batch, all other edges keep theirs *)
Theorem edge_points_edge_rows st id par pts st' :
  wf st -> edges_ok st -> par <> [] ->
  edge_points st id par pts = Ok st' ->
  edge_rows st' par id = batch_rows true (edge_rows st par id) pts /\
  (forall up down, (up, down) <> (par, id) -> edge_rows st' up down = edge_rows st up down) /\
  edges_ok st'.
Proof.
  intros W HO Hpar. unfold edge_points. destruct (has_nan pts); [discriminate|]. destruct (bad_times pts); [discriminate|].
  destruct (bytes_eqb id par); [discriminate|].
  destruct (bytes_eqb id (s_root st) && existsb _ (collapse pts)); [discriminate|].
  assert (match par with [] => str_root | _ :: _ => par end = par) as -> by (destruct par; [contradiction|reflexivity]).
  destruct st as [ns G r n]. cbn [s_nodes s_edges s_root s_next] in *.
  destruct (find_edge G par id) as [e|] eqn:Ef.
  - destruct (merge_batch true (e_pts e) (collapse pts)) as [rows d] eqn:EM.
    intros E. inversion E; subst st'; clear E.
    destruct (find_edge_spec _ _ _ _ Ef) as (He & Hu & Hd).
    assert (Hrows : rows = batch_rows true (e_pts e) pts) by (unfold batch_rows; rewrite EM; reflexivity).
    set (e1 := mkEdge (e_id e) (e_up e) (e_down e) (e_type e) rows (e_hash e)).
    unfold update_edge_hash, set_edge. rewrite map_map.
    set (vs := e_id e :: _).
    set (g := fun x => toggle vs d (if e_id x =? e_id e1 then e1 else x)).
    assert (Hg : forall x, In x G -> e_up (g x) = e_up x /\ e_down (g x) = e_down x).
    { intros x Hx. unfold g. rewrite toggle_up, toggle_down. destruct (e_id x =? e_id e1) eqn:E; [|auto].
      apply N.eqb_eq in E. assert (x = e) by (apply (eid_inj G); auto using (wf_ids _ W)). subst x. auto. }
    assert (Hfind : forall up down, find_edge (map g G) up down = option_map g (find_edge G up down)).
    { intros up down. apply find_edge_map_in. exact Hg. }
    split; [|split].
    + unfold edge_rows. cbn [s_edges]. rewrite Hfind, Ef. cbn [option_map]. unfold g.
      rewrite toggle_pts. change (e_id e1) with (e_id e). rewrite N.eqb_refl. cbn [e_pts e1]. exact Hrows.
    + intros up down Hne. unfold edge_rows. cbn [s_edges]. rewrite Hfind.
      destruct (find_edge G up down) as [x|] eqn:Ex; [|reflexivity]. cbn [option_map]. unfold g. rewrite toggle_pts.
      destruct (find_edge_spec _ _ _ _ Ex) as (Hx & Hxu & Hxd).
      destruct (e_id x =? e_id e1) eqn:E; [|reflexivity].
      apply N.eqb_eq in E. assert (x = e) by (apply (eid_inj G); auto using (wf_ids _ W)). subst x.
      exfalso. apply Hne. rewrite <- Hxu, <- Hxd, Hu, Hd. reflexivity.
    + intros x' Hx'. cbn [s_edges] in Hx'. apply in_map_iff in Hx' as (x & <- & Hx). unfold g. rewrite toggle_pts.
      destruct (e_id x =? e_id e1); [|apply HO; exact Hx].
      cbn [e_pts e1]. rewrite Hrows. split; [apply batch_rows_keys|apply batch_rows_nodup]; apply (HO e He).
  - destruct (is_upstream G (fuel_of G) id par); [discriminate|].
    destruct (merge_batch true [] (collapse pts)) as [rows d] eqn:EM.
    destruct (last_node_type (collapse pts)) as [|c nt]; [discriminate|].
    intros E. inversion E; subst st'; clear E.
    assert (Hrows : rows = batch_rows true [] pts) by (unfold batch_rows; rewrite EM; reflexivity).
    set (e1 := mkEdge n par id (c :: nt) rows 0).
    unfold update_edge_hash.
    assert (Hfind : forall vs dd up down, find_edge (map (toggle vs dd) (G ++ [e1])) up down = option_map (toggle vs dd) (find_edge (G ++ [e1]) up down)).
    { intros vs dd up down. apply find_edge_map. intros x. rewrite toggle_up, toggle_down. auto. }
    split; [|split].
    + unfold edge_rows. cbn [s_edges]. rewrite Hfind, (find_edge_app_none _ _ _ _ Ef). cbn [e_up e_down e1].
      rewrite !bytes_eqb_refl. cbn [andb option_map]. rewrite toggle_pts. cbn [e_pts e1]. rewrite Ef. exact Hrows.
    + intros up down Hne. unfold edge_rows. cbn [s_edges]. rewrite Hfind.
      destruct (find_edge G up down) as [x|] eqn:Ex.
      * rewrite (find_edge_app_some _ _ _ _ _ Ex). cbn [option_map]. apply toggle_pts.
      * rewrite (find_edge_app_none _ _ _ _ Ex). cbn [e_up e_down e1].
        destruct (bytes_eqb par up && bytes_eqb id down) eqn:E; [|reflexivity].
        apply andb_prop in E as [E1 E2]. apply bytes_eqb_eq in E1, E2. subst. exfalso. apply Hne. reflexivity.
    + intros x' Hx'. cbn [s_edges] in Hx'. apply in_map_iff in Hx' as (x & <- & Hx). rewrite toggle_pts.
      apply in_app_or in Hx as [Hx|[<-|[]]]; [apply HO; exact Hx|].
      cbn [e_pts e1]. rewrite Hrows. split; [apply batch_rows_keys|apply batch_rows_nodup]; constructor.
Qed.

(* edge points accepted along a history for the edge (par, id), in order of delivery *)
Fixpoint accepted_edge (st : store) (ops : list op) (par id : bytes) : list point :=
  match ops with
  | [] => []
  | o :: ops' =>
      (match o with
       | EdgePts i p pts => if (reply_of (handle st o) =? 0) && bytes_eqb i id && bytes_eqb p par then eff true pts else []
       | NodePts _ _ => []
       end) ++ accepted_edge (state_of (handle st o)) ops' par id
  end.

Definition parents_ok (ops : list op) : Prop := Forall op_ok ops.

Theorem newest_wins_edge ops : forall st par id t k,
  wf st -> Inv st -> edges_ok st -> Forall op_ok ops ->
  lookup (edge_rows (run st ops) par id) t k =
  fold_left newer (sel t k (map normp (accepted_edge st ops par id))) (lookup (edge_rows st par id) t k).
Proof.
  induction ops as [|o ops IH]; intros st par id t k W HI HO Hok; cbn [run accepted_edge]; [reflexivity|].
  inversion Hok as [|? ? Ho Hoks]; subst.
  destruct (handle_inv st o W HI Ho) as [W' HI'].
  rewrite map_app, sel_app, fold_left_app.
  destruct o as [i pts|i p pts]; cbn [handle] in *.
  - destruct (node_points st i pts) as [st'|e] eqn:E; cbn [state_of reply_of fst snd app map sel filter fold_left] in *.
    + rewrite (IH st' par id t k W' HI' (node_points_edges_ok _ _ _ _ HO E) Hoks).
      rewrite (node_points_edge_rows _ _ _ _ par id E). reflexivity.
    + apply IH; assumption.
  - pose proof Ho as Hp. cbn [op_ok] in Hp. destruct (edge_points st i p pts) as [st'|e] eqn:E; cbn [state_of reply_of fst snd] in *.
    + destruct (edge_points_edge_rows st i p pts st' W HO Hp E) as (Hsame & Hother & HO').
      rewrite (IH st' par id t k W' HI' HO' Hoks). f_equal. cbn [N.eqb andb].
      destruct (bytes_eqb i id && bytes_eqb p par) eqn:Eip.
      * apply andb_prop in Eip as [E1 E2]. apply bytes_eqb_eq in E1, E2. subst i p.
        rewrite Hsame. rewrite batch_rows_lookup; [reflexivity|].
        unfold edge_rows. destruct (find_edge (s_edges st) par id) as [x|] eqn:Ex; [|constructor].
        apply (HO x). apply (find_edge_spec _ _ _ _ Ex).
      * cbn [map sel filter fold_left]. rewrite Hother; [reflexivity|].
        intros Heq. inversion Heq; subst. rewrite !bytes_eqb_refl in Eip. discriminate.
    + cbn [app map sel filter fold_left]. apply IH; assumption.
Qed.
