(* Upward walks in a graph given as an edge list: acyclicity, the bound on walk
   length (pigeonhole + cycle extraction), adequacy of fuel |G| for the upward
   recursions, and the exact characterisation of what the recursive publishers
   / path-to-root searches reach (design appendix A.3, A.9), generic in the type
   of node identifiers. *)
From Coq Require Import List NArith Bool Lia Arith.
Import ListNotations.
From Verif Require Import Store.GraphCount.

Section W.
Variable node : Type.
Variable neqb : node -> node -> bool.
Hypothesis neqb_eq : forall a b, neqb a b = true <-> a = b.
Variable edge : Type.
Variable eid : edge -> N.
Variables up down : edge -> node.
Variable G : list edge.
Hypothesis G_nodup : NoDup (map eid G).

Notation parents := (parents node neqb edge down G).
Notation visits := (visits node neqb edge eid up down G).

Lemma in_parents e x : In e (parents x) <-> In e G /\ down e = x.
Proof. unfold GraphCount.parents. rewrite filter_In, neqb_eq. tauto. Qed.

(* an upward walk from x: consecutive edges of G, each starting where the previous ended,
   all satisfying sel *)
Section Sel.
Variable sel : edge -> bool.

Fixpoint swalk (x : node) (l : list edge) : Prop :=
  match l with
  | [] => True
  | e :: l' => In e G /\ sel e = true /\ down e = x /\ swalk (up e) l'
  end.
Definition endpoint (x : node) (l : list edge) : node := fold_left (fun _ e => up e) l x.

Lemma swalk_app x l1 l2 : swalk x (l1 ++ l2) <-> swalk x l1 /\ swalk (endpoint x l1) l2.
Proof.
  revert x. induction l1 as [|e l1 IH]; intros x; cbn.
  - tauto.
  - rewrite IH. tauto.
Qed.

Lemma endpoint_app x l1 l2 : endpoint x (l1 ++ l2) = endpoint (endpoint x l1) l2.
Proof. unfold endpoint. apply fold_left_app. Qed.

Lemma swalk_incl x l : swalk x l -> incl l G.
Proof.
  revert x. induction l as [|e l IH]; intros x H; [intros ? []|].
  destruct H as (He & _ & _ & Hw). intros z [<-|Hz]; [exact He|]. eapply IH; eassumption.
Qed.
End Sel.

Definition walk := swalk (fun _ => true).
Definition acyclic := forall x l, l <> [] -> walk x l -> endpoint x l <> x.

Lemma swalk_walk sel x l : swalk sel x l -> walk x l.
Proof.
  revert x. induction l as [|e l IH]; intros x H; [exact I|].
  destruct H as (He & _ & Hd & Hw). cbn. split; [exact He|]. split; [reflexivity|]. split; [exact Hd|]. apply IH. exact Hw.
Qed.

Lemma eid_inj' e1 e2 : In e1 G -> In e2 G -> eid e1 = eid e2 -> e1 = e2.
Proof. apply (eid_inj edge eid G G_nodup). Qed.

Lemma dup_split_map (l : list edge) : ~ NoDup (map eid l) ->
  exists a a' l1 l2 l3, l = l1 ++ a :: l2 ++ a' :: l3 /\ eid a = eid a'.
Proof.
  induction l as [|a l IH]; intros H.
  - exfalso. apply H. constructor.
  - cbn in H. destruct (in_dec N.eq_dec (eid a) (map eid l)) as [Hin|Hnin].
    + apply in_map_iff in Hin as (a' & Ha' & Hin). apply in_split in Hin as (l2 & l3 & ->).
      exists a, a', [], l2, l3. split; [reflexivity|congruence].
    + destruct IH as (b & b' & l1 & l2 & l3 & -> & Hb).
      { intros ND. apply H. constructor; assumption. }
      exists b, b', (a :: l1), l2, l3. split; [reflexivity|exact Hb].
Qed.

(* in an acyclic graph every upward walk is no longer than |G| *)
Lemma walk_short x l : acyclic -> walk x l -> length l <= length G.
Proof.
  intros Hac Hw. destruct (le_lt_dec (length l) (length G)) as [|Hlt]; [assumption|exfalso].
  assert (~ NoDup (map eid l)) as Hd.
  { intros ND.
    assert (incl (map eid l) (map eid G)).
    { intros z Hz. apply in_map_iff in Hz as (e & <- & He). apply in_map. eapply swalk_incl; eassumption. }
    pose proof (NoDup_incl_length ND H). rewrite !map_length in *. lia. }
  apply dup_split_map in Hd as (a & a' & l1 & l2 & l3 & -> & Haa).
  unfold walk in Hw. apply swalk_app in Hw as (_ & Hw). cbn [swalk] in Hw. destruct Hw as (Ha & _ & Hda & Hw).
  apply swalk_app in Hw as (Hw2 & Hw3). cbn [swalk] in Hw3. destruct Hw3 as (Ha' & _ & Hda' & _).
  assert (a = a') by (apply eid_inj'; assumption). subst a'.
  apply (Hac (down a) (a :: l2)); [discriminate| |].
  - cbn. auto.
  - unfold endpoint. cbn [fold_left]. fold (endpoint (up a) l2). symmetry. exact Hda'.
Qed.

Lemma flat_map_ext_in' {X Y} (f g : X -> list Y) l :
  (forall a, In a l -> f a = g a) -> flat_map f l = flat_map g l.
Proof.
  induction l as [|a l IH]; intros H; [reflexivity|]. cbn.
  rewrite (H a) by (left; reflexivity). rewrite IH; [reflexivity|]. intros b Hb. apply H. right. exact Hb.
Qed.

(* visits with more fuel than the longest walk from x is stable *)
Lemma visits_stable : forall F x,
  (forall l, walk x l -> length l <= F) -> visits (S F) x = visits F x.
Proof.
  induction F as [|F IH]; intros x Hx.
  - cbn. destruct (parents x) as [|e ps] eqn:E; [reflexivity|exfalso].
    assert (In e (parents x)) as Hin by (rewrite E; left; reflexivity).
    apply in_parents in Hin as [HeG Hd].
    specialize (Hx [e]). cbn in Hx. assert (1 <= 0) by (apply Hx; auto). lia.
  - change (visits (S (S F)) x) with (flat_map (fun e => eid e :: visits (S F) (up e)) (parents x)).
    change (visits (S F) x) with (flat_map (fun e => eid e :: visits F (up e)) (parents x)).
    apply flat_map_ext_in'. intros e Hin. f_equal.
    apply in_parents in Hin as [HeG Hd].
    apply IH. intros l Hl. specialize (Hx (e :: l)). cbn in Hx.
    assert (S (length l) <= S F) by (apply Hx; auto). lia.
Qed.

Theorem fuel_adequate F x : acyclic -> length G <= F -> visits (S F) x = visits F x.
Proof.
  intros Hac HF. apply visits_stable. intros l Hl. pose proof (walk_short _ _ Hac Hl). lia.
Qed.

(* ---------- the recursive publishers / upward searches ---------- *)
Section Pubs.
Variable sel : edge -> bool.

Definition psel (x : node) := filter (fun e => neqb (down e) x && sel e) G.

(* the ids reached: the node itself, then recursively the parent of each selected edge *)
Fixpoint reach (f : nat) (x : node) : list node :=
  x :: match f with
       | 0 => []
       | S f' => flat_map (fun e => reach f' (up e)) (psel x)
       end.

Lemma reach_sound : forall f x a, In a (reach f x) -> exists l, swalk sel x l /\ endpoint x l = a /\ length l <= f.
Proof.
  induction f as [|f IH]; intros x a H.
  - destruct H as [<-|[]]. exists []. cbn. auto.
  - destruct H as [<-|H]; [exists []; cbn; repeat split; auto; lia|].
    apply in_flat_map in H as (e & He & Ha).
    unfold psel in He. apply filter_In in He as (HeG & Hc). apply andb_prop in Hc as (Hd & Hs).
    apply neqb_eq in Hd.
    destruct (IH _ _ Ha) as (l & Hw & Hend & Hlen).
    exists (e :: l). cbn. repeat split; auto. lia.
Qed.

Lemma reach_complete : forall l f x, swalk sel x l -> length l <= f -> In (endpoint x l) (reach f x).
Proof.
  induction l as [|e l IH]; intros f x Hw Hlen.
  - cbn. destruct f; left; reflexivity.
  - destruct f as [|f]; [cbn in Hlen; lia|].
    destruct Hw as (HeG & Hs & Hd & Hw). cbn [reach]. right.
    apply in_flat_map. exists e. split.
    + unfold psel. apply filter_In. split; [exact HeG|]. rewrite Hs, andb_true_r. apply neqb_eq. exact Hd.
    + cbn [endpoint fold_left]. apply IH; [exact Hw|cbn in Hlen; lia].
Qed.

(* with fuel at least the longest selected walk: reached set = reflexive-transitive upward closure *)
Theorem reach_exact f x a :
  (forall l, swalk sel x l -> length l <= f) ->
  (In a (reach f x) <-> exists l, swalk sel x l /\ endpoint x l = a).
Proof.
  intros Hf. split.
  - intros H. destruct (reach_sound _ _ _ H) as (l & Hw & He & _). eauto.
  - intros (l & Hw & <-). apply reach_complete; auto.
Qed.

Corollary reach_exact_acyclic f x a : acyclic -> length G <= f ->
  (In a (reach f x) <-> exists l, swalk sel x l /\ endpoint x l = a).
Proof.
  intros Hac Hf. apply reach_exact. intros l Hl.
  pose proof (walk_short _ _ Hac (swalk_walk _ _ _ Hl)). lia.
Qed.
End Pubs.

End W.

(* ---------- adding an edge keeps the graph acyclic unless it closes a path ---------- *)
Section AddEdge.
Variable node : Type.
Variable edge : Type.
Variable eid : edge -> N.
Variables up down : edge -> node.
Variable G : list edge.
Variable e0 : edge.
Hypothesis fresh : ~ In (eid e0) (map eid G).

Notation walkG := (walk node edge up down G).
Notation walkG' := (walk node edge up down (G ++ [e0])).
Notation endp := (endpoint node edge up).

Definition e0_free (l : list edge) := Forall (fun e => eid e <> eid e0) l.

Lemma walk_free_old x l : walkG' x l -> e0_free l -> walkG x l.
Proof.
  revert x. induction l as [|e l IH]; intros x Hw Hf; [exact I|].
  destruct Hw as (He & _ & Hd & Hw). inversion Hf as [|? ? Hne Hf']; subst.
  cbn. split; [|split; [reflexivity|split; [first [reflexivity|assumption]|apply IH; assumption]]].
  apply in_app_or in He as [He|[<-|[]]]; [exact He|congruence].
Qed.

Lemma walk_old_new x l : walkG x l -> walkG' x l.
Proof.
  revert x. induction l as [|e l IH]; intros x Hw; [exact I|].
  destruct Hw as (He & _ & Hd & Hw). cbn.
  split; [apply in_or_app; left; exact He|]. split; [reflexivity|]. split; [exact Hd|apply IH; exact Hw].
Qed.

Lemma in_G'_id e : In e (G ++ [e0]) -> eid e = eid e0 -> e = e0.
Proof.
  intros He Hid. apply in_app_or in He as [He|[<-|[]]]; [|reflexivity].
  exfalso. apply fresh. rewrite <- Hid. apply in_map. exact He.
Qed.

(* split a list at the first element with the id of e0 *)
Lemma split_first (l : list edge) :
  e0_free l \/ exists l1 a l2, l = l1 ++ a :: l2 /\ e0_free l1 /\ eid a = eid e0.
Proof.
  induction l as [|a l IH]; [left; constructor|].
  destruct (N.eq_dec (eid a) (eid e0)) as [E|NE].
  - right. exists [], a, l. repeat split; [constructor|exact E].
  - destruct IH as [Hf|(l1 & b & l2 & -> & Hf & Hb)].
    + left. constructor; assumption.
    + right. exists (a :: l1), b, l2. repeat split; [constructor; assumption|exact Hb].
Qed.

Theorem add_edge_acyclic :
  acyclic node edge up down G ->
  down e0 <> up e0 ->
  (forall l, walkG (up e0) l -> endp (up e0) l <> down e0) ->
  acyclic node edge up down (G ++ [e0]).
Proof.
  intros Hac Hself Hno x l Hne Hw Hend.
  destruct (split_first l) as [Hf|(l1 & a & l2 & -> & Hf1 & Ha)].
  - apply (Hac x l Hne); [apply walk_free_old; assumption|exact Hend].
  - unfold walk in Hw. apply swalk_app in Hw as (Hw1 & Hw2). cbn [swalk] in Hw2.
    destruct Hw2 as (HaG & _ & Hda & Hw2).
    assert (a = e0) by (apply in_G'_id; assumption). subst a.
    destruct (split_first l2) as [Hf2|(m & b & l3 & -> & Hfm & Hb)].
    + (* single occurrence: l2 ++ l1 is an old walk from up e0 to down e0 *)
      assert (Hend' : endp (up e0) l2 = x) by (rewrite endpoint_app in Hend; exact Hend).
      apply (Hno (l2 ++ l1)).
      * unfold walk. apply swalk_app. split; [apply walk_free_old; assumption|].
        apply walk_free_old; [|exact Hf1]. rewrite Hend'. exact Hw1.
      * rewrite endpoint_app, Hend'. symmetry. exact Hda.
    + (* two occurrences: the part between them goes from up e0 to down e0 *)
      apply swalk_app in Hw2 as (Hwm & Hw3). cbn [swalk] in Hw3. destruct Hw3 as (HbG & _ & Hdb & _).
      assert (b = e0) by (apply in_G'_id; assumption). subst b.
      apply (Hno m); [apply walk_free_old; assumption|]. symmetry. exact Hdb.
Qed.
End AddEdge.
