(* C03: on an acyclic graph the hash equation has exactly one solution, the recursive
   from-scratch Merkle hash, which is a function of content only; and a store verification
   (recompute every hash from the stored child hashes, report differences) finds nothing. *)
From Verif Require Import Base.Bytes Store.GraphCount Store.GraphWalk Store.Model Store.ProofsRows Store.ProofsHash.
Local Open Scope N_scope.

(* from-scratch definition: the XOR of the checksums of the node points, of the edge points and of
   the (recursively computed) hashes of all child edges; no stored hash is consulted *)
Fixpoint merkle (f : nat) (st : store) (e : edge) : N :=
  match f with
  | O => 0
  | S f' => N.lxor (local (s_nodes st) e) (xorl (merkle f' st) (childs (s_edges st) (e_down e)))
  end.

(* downward walks = upward walks of the graph with the two ends of every edge swapped *)
Notation dwalk := (GraphWalk.walk bytes edge e_down e_up).
Notation dendpoint := (GraphWalk.endpoint bytes edge e_down).

Lemma dwalk_rev G : forall l x, dwalk G x l -> gwalk G (dendpoint x l) (rev l) /\ gendpoint (dendpoint x l) (rev l) = x.
Proof.
  induction l as [|e l IH]; intros x Hw; [split; [exact I|reflexivity]|].
  destruct Hw as (He & _ & Hu & Hw). cbn [rev]. destruct (IH _ Hw) as [Hr Hend].
  unfold GraphWalk.endpoint at 1 3. cbn [fold_left]. fold (dendpoint (e_down e) l).
  split.
  - unfold GraphWalk.walk. apply GraphWalk.swalk_app. split; [exact Hr|].
    rewrite Hend. cbn. repeat split; auto.
  - rewrite GraphWalk.endpoint_app, Hend. cbn. exact Hu.
Qed.

Lemma dacyclic G : gacyclic G -> GraphWalk.acyclic bytes edge e_down e_up G.
Proof.
  intros Hac x l Hne Hw Hend. destruct (dwalk_rev G l x Hw) as [Hr He]. rewrite Hend in Hr, He.
  apply (Hac x (rev l)); [|exact Hr|exact He].
  intros E. apply Hne. rewrite <- (rev_involutive l), E. reflexivity.
Qed.

Definition depth_ok (G : list edge) (n : nat) (e : edge) : Prop :=
  forall l, dwalk G (e_down e) l -> (length l <= n)%nat.

Lemma depth_child G n e c : depth_ok G (S n) e -> In c (childs G (e_down e)) -> depth_ok G n c.
Proof.
  intros H Hc l Hl. unfold childs in Hc. apply filter_In in Hc as [HcG Hu]. apply bytes_eqb_eq in Hu.
  specialize (H (c :: l)). cbn in H. assert (S (length l) <= S n)%nat by (apply H; repeat split; auto). lia.
Qed.

Lemma depth_zero G e : depth_ok G 0 e -> childs G (e_down e) = [].
Proof.
  intros H. destruct (childs G (e_down e)) as [|c cs] eqn:E; [reflexivity|exfalso].
  assert (Hc : In c (childs G (e_down e))) by (rewrite E; left; reflexivity).
  unfold childs in Hc. apply filter_In in Hc as [HcG Hu]. apply bytes_eqb_eq in Hu.
  specialize (H [c]). cbn in H. assert (1 <= 0)%nat by (apply H; repeat split; auto). lia.
Qed.

Lemma hash_is_merkle st : Inv st -> forall n e, In e (s_edges st) -> depth_ok (s_edges st) n e ->
  forall f, (n < f)%nat -> e_hash e = merkle f st e.
Proof.
  intros HI. induction n as [|n IH]; intros e He Hd f Hf; (destruct f as [|f]; [lia|]); cbn [merkle]; rewrite (HI e He).
  - rewrite (depth_zero _ _ Hd). reflexivity.
  - f_equal. apply xorl_ext_in. intros c Hc. apply IH; [eapply in_childs; exact Hc|eapply depth_child; eassumption|lia].
Qed.

(* uniqueness: in every well-formed state satisfying the equation, the stored hash of every edge
   IS the from-scratch Merkle hash of the current content, whatever history produced the state *)
Theorem hash_unique st : wf st -> Inv st ->
  forall e, In e (s_edges st) -> e_hash e = merkle (S (length (s_edges st))) st e.
Proof.
  intros W HI e He. apply (hash_is_merkle st HI (length (s_edges st)) e He); [|lia].
  intros l Hl.
  apply (GraphWalk.walk_short bytes edge e_id e_down e_up (s_edges st) (wf_ids _ W) (e_down e) l); [|exact Hl].
  apply dacyclic. exact (wf_acyclic _ W).
Qed.

(* ---------- store verification ---------- *)
Definition calc (st : store) (e : edge) : N :=
  N.lxor (local (s_nodes st) e) (xorl e_hash (childs (s_edges st) (e_down e))).

(* the edges a verification would report (and, with fix, rewrite) *)
Definition verify (st : store) : list edge := filter (fun e => negb (e_hash e =? calc st e)) (s_edges st).

Lemma filter_nil_iff {A} (f : A -> bool) l : filter f l = [] <-> forall x, In x l -> f x = false.
Proof.
  induction l as [|a l IH]; cbn; [split; [intros _ x []|reflexivity]|].
  destruct (f a) eqn:E.
  - split; [discriminate|]. intros H. specialize (H a (or_introl eq_refl)). congruence.
  - rewrite IH. split; [intros H x [<-|Hx]; auto|intros H x Hx; apply H; right; exact Hx].
Qed.

Theorem verify_clean st : Inv st <-> verify st = [].
Proof.
  unfold verify. rewrite filter_nil_iff. unfold Inv, calc. split; intros H e He; specialize (H e He).
  - rewrite <- H, N.eqb_refl. reflexivity.
  - apply negb_false_iff, N.eqb_eq in H. exact H.
Qed.

(* ---------- equal content gives equal hashes ---------- *)
(* two stores have the same content when their nodes hold rows with equal XOR of checksums (in
   particular: the same points in any row order) and their edge lists agree position by position
   on everything except the stored hash *)
Definition same_edge (a b : edge) : Prop :=
  e_up a = e_up b /\ e_down a = e_down b /\ e_pts a = e_pts b.

Definition same_content (s1 s2 : store) : Prop :=
  (forall id, xor_crcs (node_rows (s_nodes s1) id) = xor_crcs (node_rows (s_nodes s2) id)) /\
  Forall2 same_edge (s_edges s1) (s_edges s2).

Lemma childs_same G1 G2 v : Forall2 same_edge G1 G2 -> Forall2 same_edge (childs G1 v) (childs G2 v).
Proof.
  induction 1 as [|a b G1 G2 Hab _ IH]; [constructor|]. unfold childs in *. cbn [filter].
  pose proof Hab as (Hu & _ & _). rewrite Hu. destruct (bytes_eqb (e_up b) v); [constructor; assumption|exact IH].
Qed.

Lemma xorl_same (f g : edge -> N) l1 l2 : Forall2 (fun a b => f a = g b) l1 l2 -> xorl f l1 = xorl g l2.
Proof. induction 1 as [|a b l1 l2 Hab _ IH]; [reflexivity|]. cbn [GraphCount.xorl]. rewrite Hab, IH. reflexivity. Qed.

Lemma Forall2_weaken {A B} (R Q : A -> B -> Prop) l1 l2 :
  Forall2 R l1 l2 -> (forall a b, In a l1 -> In b l2 -> R a b -> Q a b) -> Forall2 Q l1 l2.
Proof.
  induction 1 as [|a b l1 l2 Hab _ IH]; intros H; [constructor|]. constructor.
  - apply H; [left; reflexivity|left; reflexivity|exact Hab].
  - apply IH. intros x y Hx Hy. apply H; right; assumption.
Qed.

Lemma Forall2_len {A B} (R : A -> B -> Prop) l1 l2 : Forall2 R l1 l2 -> length l1 = length l2.
Proof. induction 1; cbn; congruence. Qed.

Lemma merkle_same s1 s2 : same_content s1 s2 -> forall f a b, same_edge a b -> merkle f s1 a = merkle f s2 b.
Proof.
  intros [Hn He]. induction f as [|f IH]; intros a b Hab; [reflexivity|]. cbn [merkle].
  destruct Hab as (Hu & Hd & Hp). f_equal.
  - unfold local. rewrite Hd, Hp, Hn. reflexivity.
  - apply xorl_same. rewrite Hd. eapply Forall2_weaken; [apply childs_same; exact He|].
    intros c d _ _ Hcd. apply IH. exact Hcd.
Qed.

(* whatever two histories produced them, two reachable states with the same content report the same hash
   on corresponding edges *)
Theorem content_determines_hash s1 s2 :
  wf s1 -> Inv s1 -> wf s2 -> Inv s2 -> same_content s1 s2 ->
  Forall2 (fun a b => e_hash a = e_hash b) (s_edges s1) (s_edges s2).
Proof.
  intros W1 I1 W2 I2 HC. pose proof HC as [_ He].
  pose proof (Forall2_len _ _ _ He) as Hlen.
  eapply Forall2_weaken; [exact He|]. intros a b Ha Hb Hab.
  rewrite (hash_unique s1 W1 I1 a Ha), (hash_unique s2 W2 I2 b Hb), Hlen.
  apply merkle_same; assumption.
Qed.
