(* C03 / C05: the store model keeps the Merkle equation on every edge, stays
   acyclic, and its upward recursions never run out of fuel.  Instantiates the
   generic graph theory (GraphCount, GraphWalk) at node ids = byte strings. *)
From Verif Require Import Base.Bytes Store.GraphCount Store.GraphWalk Store.Model Store.ProofsRows.
Local Open Scope N_scope.

Notation gparents := (GraphCount.parents bytes bytes_eqb edge e_down).
Notation gchilds := (GraphCount.childs bytes bytes_eqb edge e_up).
Notation gvisits := (GraphCount.visits bytes bytes_eqb edge e_id e_up e_down).
Notation gInv := (GraphCount.Inv bytes bytes_eqb edge e_id e_up e_down).
Notation gacyclic := (GraphWalk.acyclic bytes edge e_up e_down).
Notation gwalk := (GraphWalk.walk bytes edge e_up e_down).
Notation gendpoint := (GraphWalk.endpoint bytes edge e_up).
Notation xorl := (GraphCount.xorl edge).

Lemma parents_eq G x : parents G x = gparents G x. Proof. reflexivity. Qed.
Lemma childs_eq G x : childs G x = gchilds G x. Proof. reflexivity. Qed.

(* ---------- XOR of CRCs ---------- *)
Lemma xor_fold_acc (f : point -> N) l : forall a,
  fold_left (fun a p => N.lxor a (f p)) l a = N.lxor a (fold_left (fun a p => N.lxor a (f p)) l 0).
Proof.
  induction l as [|p l IH]; intros a; cbn [fold_left].
  - rewrite N.lxor_0_r. reflexivity.
  - rewrite (IH (N.lxor a (f p))), (IH (N.lxor 0 (f p))). rewrite N.lxor_0_l, N.lxor_assoc. reflexivity.
Qed.

Lemma xor_crcs_cons p l : xor_crcs (p :: l) = N.lxor (point_crc p) (xor_crcs l).
Proof. unfold xor_crcs. cbn [fold_left]. rewrite xor_fold_acc, N.lxor_0_l. reflexivity. Qed.

Lemma xor_crcs_nil : xor_crcs [] = 0. Proof. reflexivity. Qed.

(* the delta returned by the merge loop is old XOR new *)
Lemma merge1_delta db p : snd (merge1 db p) = N.lxor (xor_crcs db) (xor_crcs (fst (merge1 db p))).
Proof.
  induction db as [|q db IH]; cbn [merge1].
  - cbn [fst snd]. rewrite xor_crcs_cons, xor_crcs_nil, N.lxor_0_l, N.lxor_0_r. reflexivity.
  - destruct (bytes_eqb (p_type q) (p_type p) && bytes_eqb (p_key q) (p_key p)).
    + destruct (p_time q <=? p_time p)%Z; cbn [fst snd].
      * rewrite !xor_crcs_cons.
        rewrite (N.lxor_comm (point_crc p) (xor_crcs db)), N.lxor_assoc, <- (N.lxor_assoc (xor_crcs db)), N.lxor_nilpotent, N.lxor_0_l.
        reflexivity.
      * rewrite N.lxor_nilpotent. reflexivity.
    + destruct (merge1 db p) as [r d]. cbn [fst snd] in *. rewrite IH, !xor_crcs_cons.
      rewrite N.lxor_assoc, <- (N.lxor_assoc (xor_crcs db)), (N.lxor_comm (xor_crcs db) (point_crc q)).
      rewrite !N.lxor_assoc, <- (N.lxor_assoc (point_crc q)), N.lxor_nilpotent, N.lxor_0_l. reflexivity.
Qed.

Lemma merge_batch_delta skip ps : forall db d0,
  let r := fold_left (fun '(db, d) p =>
               if skip && bytes_eqb (p_type p) str_nodeType then (db, d)
               else let '(db', d') := merge1 db (with_key p (norm_key (p_key p))) in (db', N.lxor d d'))
            ps (db, d0) in
  snd r = N.lxor d0 (N.lxor (xor_crcs db) (xor_crcs (fst r))).
Proof.
  induction ps as [|p ps IH]; intros db d0; cbn [fold_left].
  - cbn [fst snd]. rewrite N.lxor_nilpotent, N.lxor_0_r. reflexivity.
  - destruct (skip && bytes_eqb (p_type p) str_nodeType); [apply IH|].
    pose proof (merge1_delta db (with_key p (norm_key (p_key p)))) as M.
    destruct (merge1 db (with_key p (norm_key (p_key p)))) as [db' d']. cbn [fst snd] in M.
    cbv zeta in IH |- *. rewrite IH. subst d'.
    rewrite !N.lxor_assoc. f_equal. rewrite <- !N.lxor_assoc. f_equal.
    rewrite N.lxor_assoc, N.lxor_nilpotent, N.lxor_0_r. reflexivity.
Qed.

Lemma merge_batch_snd skip db ps :
  snd (merge_batch skip db ps) = N.lxor (xor_crcs db) (xor_crcs (fst (merge_batch skip db ps))).
Proof. unfold merge_batch. rewrite (merge_batch_delta skip ps db 0). cbv zeta. rewrite N.lxor_0_l. reflexivity. Qed.

(* ---------- the invariant ---------- *)
Definition local (ns : list (bytes * list point)) (e : edge) : N :=
  N.lxor (xor_crcs (node_rows ns (e_down e))) (xor_crcs (e_pts e)).

Definition Inv (st : store) : Prop :=
  forall e, In e (s_edges st) ->
    e_hash e = N.lxor (local (s_nodes st) e) (xorl e_hash (childs (s_edges st) (e_down e))).

Definition find_id (G : list edge) (id : N) : option edge := find (fun e => e_id e =? id) G.
Definition Hf (G : list edge) (id : N) : N := match find_id G id with Some e => e_hash e | None => 0 end.
Definition Lf (ns : list (bytes * list point)) (G : list edge) (id : N) : N :=
  match find_id G id with Some e => local ns e | None => 0 end.

Lemma find_id_in G e : NoDup (map e_id G) -> In e G -> find_id G (e_id e) = Some e.
Proof.
  unfold find_id. induction G as [|g G IH]; intros ND Hin; [destruct Hin|].
  cbn [find]. cbn [map] in ND. inversion ND as [|? ? Hn ND']; subst.
  destruct Hin as [->|Hin].
  - rewrite N.eqb_refl. reflexivity.
  - destruct (e_id g =? e_id e) eqn:E; [|apply IH; assumption].
    exfalso. apply N.eqb_eq in E. apply Hn. rewrite E. apply in_map. exact Hin.
Qed.

Lemma in_childs G v c : In c (childs G v) -> In c G.
Proof. unfold childs. rewrite filter_In. tauto. Qed.

Lemma xorl_ext_in (f g : edge -> N) l : (forall e, In e l -> f e = g e) -> xorl f l = xorl g l.
Proof. apply GraphCount.xorl_ext. Qed.

Lemma Inv_gInv st : NoDup (map e_id (s_edges st)) ->
  (Inv st <-> gInv (s_edges st) (Lf (s_nodes st) (s_edges st)) (Hf (s_edges st))).
Proof.
  intros ND. unfold Inv, GraphCount.Inv. split; intros H e He; specialize (H e He).
  - unfold Hf at 1, Lf. rewrite (find_id_in _ _ ND He). rewrite H. f_equal.
    apply xorl_ext_in. intros c Hc. unfold Hf. rewrite (find_id_in _ c ND); [reflexivity|].
    eapply in_childs. exact Hc.
  - unfold Hf at 1, Lf in H. rewrite (find_id_in _ _ ND He) in H. rewrite H. f_equal.
    apply xorl_ext_in. intros c Hc. unfold Hf. rewrite (find_id_in _ c ND); [reflexivity|].
    eapply in_childs. exact Hc.
Qed.

(* ---------- toggling ---------- *)
Lemma toggle_id vs d e : e_id (toggle vs d e) = e_id e.
Proof. unfold toggle. destruct (Nat.odd _); reflexivity. Qed.
Lemma toggle_up vs d e : e_up (toggle vs d e) = e_up e.
Proof. unfold toggle. destruct (Nat.odd _); reflexivity. Qed.
Lemma toggle_down vs d e : e_down (toggle vs d e) = e_down e.
Proof. unfold toggle. destruct (Nat.odd _); reflexivity. Qed.
Lemma toggle_pts vs d e : e_pts (toggle vs d e) = e_pts e.
Proof. unfold toggle. destruct (Nat.odd _); reflexivity. Qed.
Lemma toggle_type vs d e : e_type (toggle vs d e) = e_type e.
Proof. unfold toggle. destruct (Nat.odd _); reflexivity. Qed.
Lemma toggle_hash vs d e : e_hash (toggle vs d e) = N.lxor (e_hash e) (GraphCount.tog d (GraphCount.par vs (e_id e))).
Proof.
  unfold toggle, GraphCount.par, GraphCount.tog, cnt, GraphCount.cnt.
  destruct (Nat.odd _); cbn; [reflexivity|rewrite N.lxor_0_r; reflexivity].
Qed.

Lemma map_id_toggle vs d G : map e_id (map (toggle vs d) G) = map e_id G.
Proof. rewrite map_map. apply map_ext. intros e. apply toggle_id. Qed.

Lemma childs_toggle vs d G v : childs (map (toggle vs d) G) v = map (toggle vs d) (childs G v).
Proof.
  unfold childs. induction G as [|e G IH]; [reflexivity|]. cbn [map filter].
  rewrite toggle_up. destruct (bytes_eqb (e_up e) v); cbn [map]; rewrite IH; reflexivity.
Qed.

Lemma parents_toggle vs d G v : parents (map (toggle vs d) G) v = map (toggle vs d) (parents G v).
Proof.
  unfold parents. induction G as [|e G IH]; [reflexivity|]. cbn [map filter].
  rewrite toggle_down. destruct (bytes_eqb (e_down e) v); cbn [map]; rewrite IH; reflexivity.
Qed.

Lemma xorl_map (f : edge -> N) (g : edge -> edge) l : xorl f (map g l) = xorl (fun c => f (g c)) l.
Proof. induction l as [|a l IH]; cbn; [reflexivity|]. rewrite IH. reflexivity. Qed.

(* a generic invariant over G with H' = H xor toggles is realised by [map toggle] *)
Lemma inv_after_toggle ns' G vs d (L' : N -> N) :
  NoDup (map e_id G) ->
  gInv G L' (fun id => N.lxor (Hf G id) (GraphCount.tog d (GraphCount.par vs id))) ->
  (forall e, In e G -> local ns' e = L' (e_id e)) ->
  forall e', In e' (map (toggle vs d) G) ->
    e_hash e' = N.lxor (local ns' e') (xorl e_hash (childs (map (toggle vs d) G) (e_down e'))).
Proof.
  intros ND HI HL e' He'. apply in_map_iff in He' as (e & <- & He).
  rewrite toggle_hash, toggle_down, childs_toggle, xorl_map.
  specialize (HI e He). cbv beta in HI. unfold Hf at 1 in HI. rewrite (find_id_in _ _ ND He) in HI.
  rewrite HI. f_equal.
  - unfold local. rewrite toggle_down, toggle_pts. symmetry. apply (HL e He).
  - apply xorl_ext_in. intros c Hc. rewrite toggle_hash. unfold Hf.
    rewrite (find_id_in _ c ND); [reflexivity|]. eapply in_childs. exact Hc.
Qed.

(* ---------- well-formed stores ---------- *)
Record wf (st : store) : Prop := {
  wf_ids : NoDup (map e_id (s_edges st));
  wf_next : forall e, In e (s_edges st) -> e_id e < s_next st;
  wf_acyclic : gacyclic (s_edges st) }.

(* the model's visits is the generic one *)
Lemma visits_generic G : forall f x, visits G f x = gvisits G f x.
Proof.
  induction f as [|f IH]; intros x; [reflexivity|].
  cbn [visits GraphCount.visits]. rewrite parents_eq.
  apply flat_map_ext. intros e. f_equal. apply IH.
Qed.

Lemma fuel_ok st x : wf st ->
  gvisits (s_edges st) (S (fuel_of (s_edges st))) x = gvisits (s_edges st) (fuel_of (s_edges st)) x.
Proof.
  intros W. apply (GraphWalk.fuel_adequate bytes bytes_eqb bytes_eqb_eq edge e_id e_up e_down _ (wf_ids _ W)).
  - exact (wf_acyclic _ W).
  - unfold fuel_of. lia.
Qed.

(* ---------- structure-preserving edge transformers ---------- *)
Definition sp (G : list edge) (g : edge -> edge) : Prop :=
  forall e, In e G -> e_id (g e) = e_id e /\ e_up (g e) = e_up e /\ e_down (g e) = e_down e.

Lemma sp_toggle G vs d : sp G (toggle vs d).
Proof. intros e _. rewrite toggle_id, toggle_up, toggle_down. auto. Qed.

Lemma sp_tail e G g : sp (e :: G) g -> sp G g.
Proof. intros H x Hx. apply H. right. exact Hx. Qed.

Lemma map_id_sp g G : sp G g -> map e_id (map g G) = map e_id G.
Proof.
  induction G as [|e G IH]; intros H; [reflexivity|]. cbn [map].
  destruct (H e (or_introl eq_refl)) as (-> & _). rewrite IH by (eapply sp_tail; exact H). reflexivity.
Qed.

Lemma childs_sp g G v : sp G g -> childs (map g G) v = map g (childs G v).
Proof.
  unfold childs. induction G as [|e G IH]; intros H; [reflexivity|]. cbn [map filter].
  destruct (H e (or_introl eq_refl)) as (_ & -> & _).
  rewrite IH by (eapply sp_tail; exact H). destruct (bytes_eqb (e_up e) v); reflexivity.
Qed.

Lemma parents_sp g G v : sp G g -> parents (map g G) v = map g (parents G v).
Proof.
  unfold parents. induction G as [|e G IH]; intros H; [reflexivity|]. cbn [map filter].
  destruct (H e (or_introl eq_refl)) as (_ & _ & ->).
  rewrite IH by (eapply sp_tail; exact H). destruct (bytes_eqb (e_down e) v); reflexivity.
Qed.

Lemma in_parents_G G x e : In e (parents G x) -> In e G.
Proof. unfold parents. rewrite filter_In. tauto. Qed.

Lemma flat_map_map_in {A B C} (g : A -> B) (f : B -> list C) (h : A -> list C) l :
  (forall a, In a l -> f (g a) = h a) -> flat_map f (map g l) = flat_map h l.
Proof.
  induction l as [|a l IH]; intros H; [reflexivity|]. cbn. rewrite (H a) by (left; reflexivity).
  rewrite IH; [reflexivity|]. intros b Hb. apply H. right. exact Hb.
Qed.

Lemma visits_sp g G : sp G g -> forall f x, visits (map g G) f x = visits G f x.
Proof.
  intros H. induction f as [|f IH]; intros x; [reflexivity|]. cbn [visits].
  rewrite parents_sp by exact H. apply flat_map_map_in. intros e He.
  destruct (H e (in_parents_G _ _ _ He)) as (-> & -> & _). rewrite IH. reflexivity.
Qed.

Lemma walk_sp g G : sp G g -> forall l' x, gwalk (map g G) x l' ->
  exists l, gwalk G x l /\ gendpoint x l = gendpoint x l' /\ length l = length l'.
Proof.
  intros H. induction l' as [|e' l' IH]; intros x Hw.
  - exists []. repeat split.
  - destruct Hw as (He' & _ & Hd & Hw). apply in_map_iff in He' as (e & <- & He).
    destruct (H e He) as (_ & Hu & Hdn). rewrite Hu in Hw. destruct (IH _ Hw) as (l & Hl & Hend & Hlen).
    exists (e :: l). split; [|split].
    + cbn. rewrite <- Hdn. repeat split; auto.
    + unfold GraphWalk.endpoint in *. cbn [fold_left]. rewrite Hu. exact Hend.
    + cbn. rewrite Hlen. reflexivity.
Qed.

Lemma acyclic_sp g G : sp G g -> gacyclic G -> gacyclic (map g G).
Proof.
  intros H Hac x l' Hne Hw. destruct (walk_sp g G H l' x Hw) as (l & Hl & Hend & Hlen).
  rewrite <- Hend. apply Hac; [|exact Hl]. intros ->. destruct l'; [contradiction|discriminate].
Qed.

(* realisation lemma: if the generic invariant holds for (L', H') on G and the transformer g
   gives every edge the hash H' and the local term L', the store invariant holds on map g G *)
Lemma inv_realised ns' G (g : edge -> edge) (L' H' : N -> N) :
  sp G g ->
  gInv G L' H' ->
  (forall e, In e G -> e_hash (g e) = H' (e_id e)) ->
  (forall e, In e G -> local ns' (g e) = L' (e_id e)) ->
  forall e', In e' (map g G) ->
    e_hash e' = N.lxor (local ns' e') (xorl e_hash (childs (map g G) (e_down e'))).
Proof.
  intros Hsp HI HH HL e' He'. apply in_map_iff in He' as (e & <- & He).
  rewrite (HH e He), (HL e He). destruct (Hsp e He) as (_ & _ & ->).
  rewrite childs_sp by exact Hsp. rewrite xorl_map.
  rewrite (HI e He). f_equal.
  apply xorl_ext_in. intros c Hc. symmetry. apply HH. eapply in_childs. exact Hc.
Qed.

Lemma wf_sp st g ns' root : sp (s_edges st) g -> wf st ->
  wf (mkStore ns' (map g (s_edges st)) root (s_next st)).
Proof.
  intros H W. constructor; cbn [s_edges s_next].
  - rewrite map_id_sp by exact H. exact (wf_ids _ W).
  - intros e' He'. apply in_map_iff in He' as (e & <- & He). destruct (H e He) as (-> & _). apply (wf_next _ W). exact He.
  - apply acyclic_sp; [exact H|exact (wf_acyclic _ W)].
Qed.

(* ---------- node point writes ---------- *)
Lemma node_rows_set_same ns id rows : node_rows (set_node_rows ns id rows) id = rows.
Proof.
  induction ns as [|[i r] ns IH]; cbn.
  - rewrite bytes_eqb_refl. reflexivity.
  - destruct (bytes_eqb i id) eqn:E; cbn; rewrite E; [reflexivity|exact IH].
Qed.

Lemma node_rows_set_other ns id rows id' : id' <> id -> node_rows (set_node_rows ns id rows) id' = node_rows ns id'.
Proof.
  intros Hne. induction ns as [|[i r] ns IH]; cbn.
  - destruct (bytes_eqb id id') eqn:E; [apply bytes_eqb_eq in E; congruence|reflexivity].
  - destruct (bytes_eqb i id) eqn:E; cbn.
    + apply bytes_eqb_eq in E. subst i.
      destruct (bytes_eqb id id') eqn:E2; [apply bytes_eqb_eq in E2; congruence|reflexivity].
    + destruct (bytes_eqb i id'); [reflexivity|exact IH].
Qed.

Theorem node_points_inv st id pts st' :
  wf st -> Inv st -> node_points st id pts = Ok st' -> wf st' /\ Inv st'.
Proof.
  intros W HI. unfold node_points. destruct (has_nan pts); [discriminate|]. destruct (bad_times pts); [discriminate|].
  destruct (merge_batch false (node_rows (s_nodes st) id) (collapse pts)) as [rows d] eqn:EM.
  intros E. inversion E; subst st'; clear E.
  pose proof (merge_batch_snd false (node_rows (s_nodes st) id) (collapse pts)) as Hd. rewrite EM in Hd. cbn [fst snd] in Hd.
  unfold update_hash. set (G := s_edges st). set (V := visits G (fuel_of G) id).
  split; [apply wf_sp; [apply sp_toggle|exact W]|].
  intros e' He'. cbn [s_edges s_nodes] in *.
  set (ns' := set_node_rows (s_nodes st) id rows).
  set (L' := fun i => match find_id G i with
                      | Some e => if bytes_eqb (e_down e) id then N.lxor (local (s_nodes st) e) d else local (s_nodes st) e
                      | None => 0 end).
  apply (inv_realised ns' G (toggle V d) L' (fun i => N.lxor (Hf G i) (GraphCount.tog d (GraphCount.par V i)))).
  - apply sp_toggle.
  - unfold V. rewrite (visits_generic G).
    apply (GraphCount.node_update_preserves_inv bytes bytes_eqb bytes_eqb_eq edge e_id e_up e_down G (wf_ids _ W)
             (Lf (s_nodes st) G) L' (Hf G) (fuel_of G) id d).
    + apply (proj1 (Inv_gInv st (wf_ids _ W))). exact HI.
    + apply fuel_ok. exact W.
    + intros e He. unfold L', Lf. rewrite (find_id_in G e (wf_ids _ W) He). reflexivity.
  - intros e He. rewrite toggle_hash. unfold Hf. rewrite (find_id_in G e (wf_ids _ W) He). reflexivity.
  - intros e He. unfold L'. rewrite (find_id_in G e (wf_ids _ W) He).
    unfold local. rewrite toggle_down, toggle_pts. unfold ns'.
    destruct (bytes_eqb (e_down e) id) eqn:E.
    + apply bytes_eqb_eq in E. rewrite E, node_rows_set_same, Hd.
      xor_ac.
    + rewrite node_rows_set_other; [reflexivity|]. intros Heq. rewrite Heq, bytes_eqb_refl in E. discriminate.
  - exact He'.
Qed.

(* ---------- edge point writes ---------- *)
Lemma hsum_fold l : fold_left (fun a c => N.lxor a (e_hash c)) l 0 = xorl e_hash l.
Proof.
  assert (H : forall a, fold_left (fun a c => N.lxor a (e_hash c)) l a = N.lxor a (xorl e_hash l)).
  { induction l as [|c l IH]; intros a; cbn [fold_left GraphCount.xorl]; [rewrite N.lxor_0_r; reflexivity|].
    rewrite IH. xor_ac. }
  rewrite H, N.lxor_0_l. reflexivity.
Qed.

Lemma find_edge_spec G up down e : find_edge G up down = Some e ->
  In e G /\ e_up e = up /\ e_down e = down.
Proof.
  unfold find_edge. intros H. apply find_some in H as [Hin H]. apply andb_prop in H as [H1 H2].
  apply bytes_eqb_eq in H1, H2. auto.
Qed.

Lemma eid_inj G e1 e2 : NoDup (map e_id G) -> In e1 G -> In e2 G -> e_id e1 = e_id e2 -> e1 = e2.
Proof. intros ND. apply (GraphCount.eid_inj edge e_id G ND). Qed.

(* the list of toggled ids of updateEdgeHash, in terms of the generic visits *)
Lemma edge_vs_generic G eid parent :
  eid :: visits G (fuel_of G) parent =
  eid :: gvisits G (fuel_of G) parent.
Proof. f_equal. apply visits_generic. Qed.

Definition with_pts (e : edge) (rows : list point) : edge :=
  mkEdge (e_id e) (e_up e) (e_down e) (e_type e) rows (e_hash e).

Theorem edge_points_existing_inv st e rows d :
  wf st -> Inv st -> In e (s_edges st) ->
  d = N.lxor (xor_crcs (e_pts e)) (xor_crcs rows) ->
  let st' := mkStore (s_nodes st) (update_edge_hash (set_edge (s_edges st) (with_pts e rows)) (e_id e) (e_up e) d)
                     (s_root st) (s_next st) in
  wf st' /\ Inv st'.
Proof.
  intros W HI He Hd. cbv zeta. set (G := s_edges st) in *.
  set (e' := with_pts e rows).
  set (setter := fun x : edge => if e_id x =? e_id e' then e' else x).
  assert (Hset : set_edge G e' = map setter G) by reflexivity.
  assert (Hsp1 : sp G setter).
  { intros x Hx. unfold setter. destruct (e_id x =? e_id e') eqn:E; [|auto].
    apply N.eqb_eq in E. assert (x = e) by (apply (eid_inj G); auto using (wf_ids _ W)). subst x. cbn. auto. }
  unfold update_edge_hash. rewrite Hset.
  assert (Hfuel : fuel_of (map setter G) = fuel_of G) by (unfold fuel_of; rewrite map_length; reflexivity).
  rewrite (edge_vs_generic (map setter G) (e_id e) (e_up e)).
  rewrite <- (visits_generic (map setter G)), (visits_sp setter G Hsp1), Hfuel, (visits_generic G).
  set (V := e_id e :: gvisits G (fuel_of G) (e_up e)).
  rewrite map_map.
  set (g := fun x => toggle V d (setter x)).
  assert (Hsp : sp G g).
  { intros x Hx. unfold g. rewrite toggle_id, toggle_up, toggle_down. apply Hsp1. exact Hx. }
  split; [apply (wf_sp st g (s_nodes st) (s_root st) Hsp W)|].
  intros x' Hx'. cbn [s_edges s_nodes] in *.
  set (L' := fun i => if i =? e_id e then N.lxor (Lf (s_nodes st) G i) d else Lf (s_nodes st) G i).
  apply (inv_realised (s_nodes st) G g L' (fun i => N.lxor (Hf G i) (GraphCount.tog d (GraphCount.par V i)))).
  - exact Hsp.
  - apply (GraphCount.edge_update_preserves_inv bytes bytes_eqb bytes_eqb_eq edge e_id e_up e_down G (wf_ids _ W)
             (Lf (s_nodes st) G) L' (Hf G) (fuel_of G) e d).
    + apply (proj1 (Inv_gInv st (wf_ids _ W))). exact HI.
    + exact He.
    + apply fuel_ok. exact W.
    + intros x Hx. reflexivity.
  - intros x Hx. unfold g. rewrite toggle_hash. destruct (Hsp1 x Hx) as (-> & _).
    unfold Hf. rewrite (find_id_in G x (wf_ids _ W) Hx). f_equal.
    unfold setter. destruct (e_id x =? e_id e') eqn:E; [|reflexivity].
    apply N.eqb_eq in E. assert (x = e) by (apply (eid_inj G); auto using (wf_ids _ W)). subst x. reflexivity.
  - intros x Hx. unfold g, L', Lf. rewrite (find_id_in G x (wf_ids _ W) Hx).
    unfold local. rewrite toggle_down, toggle_pts. unfold setter.
    change (e_id e') with (e_id e).
    destruct (e_id x =? e_id e) eqn:E.
    + apply N.eqb_eq in E. assert (x = e) by (apply (eid_inj G); auto using (wf_ids _ W)). subst x.
      cbn [e_down e_pts e' with_pts]. rewrite Hd. xor_ac.
    + reflexivity.
  - exact Hx'.
Qed.

(* ---------- isUpstream is the upward reachability test ---------- *)
Notation greach := (GraphWalk.reach bytes bytes_eqb edge e_up e_down).
Notation gswalk := (GraphWalk.swalk bytes edge e_up e_down).

Lemma psel_true G x : GraphWalk.psel bytes bytes_eqb edge e_down G (fun _ => true) x = parents G x.
Proof. unfold GraphWalk.psel, parents. apply filter_ext. intros e. apply andb_true_r. Qed.

Lemma is_upstream_reach G : forall f t id,
  is_upstream G f t id = true <-> In t (greach G (fun _ => true) f id).
Proof.
  induction f as [|f IH]; intros t id; cbn [is_upstream GraphWalk.reach].
  - rewrite orb_false_r, bytes_eqb_eq. split; [intros ->; left; reflexivity|intros [H|[]]; exact H].
  - rewrite orb_true_iff, bytes_eqb_eq, existsb_exists, psel_true. split.
    + intros [->|(e & He & H)]; [left; reflexivity|]. right. apply in_flat_map. exists e. split; [exact He|].
      apply IH. exact H.
    + intros [H|H]; [left; exact H|]. right. apply in_flat_map in H as (e & He & H). exists e. split; [exact He|].
      apply IH. exact H.
Qed.

Lemma not_upstream_no_walk G node parent :
  NoDup (map e_id G) -> gacyclic G ->
  is_upstream G (fuel_of G) node parent = false ->
  forall l, gwalk G parent l -> gendpoint parent l <> node.
Proof.
  intros ND Hac Hno l Hw Hend.
  assert (is_upstream G (fuel_of G) node parent = true); [|congruence].
  apply is_upstream_reach.
  apply (GraphWalk.reach_exact_acyclic bytes bytes_eqb bytes_eqb_eq edge e_id e_up e_down G ND (fun _ => true)).
  - exact Hac.
  - unfold fuel_of. lia.
  - exists l. split; [exact Hw|exact Hend].
Qed.

(* ---------- appending a fresh edge with hash 0 ---------- *)
Lemma childs_app G e v : childs (G ++ [e]) v = childs G v ++ (if bytes_eqb (e_up e) v then [e] else []).
Proof. unfold childs. rewrite filter_app. cbn [filter]. destruct (bytes_eqb (e_up e) v); reflexivity. Qed.

Lemma xorl_app (f : edge -> N) l1 l2 : xorl f (l1 ++ l2) = N.lxor (xorl f l1) (xorl f l2).
Proof.
  induction l1 as [|a l1 IH]; cbn [app GraphCount.xorl]; [rewrite N.lxor_0_l; reflexivity|].
  rewrite IH, N.lxor_assoc. reflexivity.
Qed.

Lemma find_id_app_old G e id : id <> e_id e -> find_id (G ++ [e]) id = find_id G id.
Proof.
  intros Hne. unfold find_id. induction G as [|g G IH]; cbn [app find].
  - destruct (e_id e =? id) eqn:E; [apply N.eqb_eq in E; congruence|reflexivity].
  - destruct (e_id g =? id); [reflexivity|exact IH].
Qed.

Lemma find_id_app_new G e : ~ In (e_id e) (map e_id G) -> find_id (G ++ [e]) (e_id e) = Some e.
Proof.
  intros Hn. unfold find_id. induction G as [|g G IH]; cbn [app find].
  - rewrite N.eqb_refl. reflexivity.
  - destruct (e_id g =? e_id e) eqn:E.
    + exfalso. apply N.eqb_eq in E. apply Hn. left. exact E.
    + apply IH. intros H. apply Hn. right. exact H.
Qed.

Theorem edge_points_new_inv st node parent nt rows :
  wf st -> Inv st ->
  node <> parent ->
  find_edge (s_edges st) parent node = None ->
  is_upstream (s_edges st) (fuel_of (s_edges st)) node parent = false ->
  let G := s_edges st in
  let d := N.lxor (N.lxor (xor_crcs rows) (xor_crcs (node_rows (s_nodes st) node)))
                  (fold_left (fun a c => N.lxor a (e_hash c)) (childs G node) 0) in
  let e := mkEdge (s_next st) parent node nt rows 0 in
  forall root',
  let st' := mkStore (s_nodes st) (update_edge_hash (G ++ [e]) (e_id e) parent d) root' (s_next st + 1) in
  wf st' /\ Inv st'.
Proof.
  intros W HI Hself Hfind Hup. cbv zeta. intros root'.
  set (G := s_edges st). set (e := mkEdge (s_next st) parent node nt rows 0).
  set (d := N.lxor (N.lxor (xor_crcs rows) (xor_crcs (node_rows (s_nodes st) node)))
                   (fold_left (fun a c => N.lxor a (e_hash c)) (childs G node) 0)).
  set (G1 := G ++ [e]).
  assert (Hfresh : ~ In (e_id e) (map e_id G)).
  { intros Hin. apply in_map_iff in Hin as (x & Hx & Hin). pose proof (wf_next _ W x Hin). cbn in Hx. lia. }
  assert (ND1 : NoDup (map e_id G1)).
  { unfold G1. rewrite map_app. cbn [map]. apply NoDup_app_intro || idtac.
    rewrite <- (rev_involutive (map e_id G ++ [e_id e])). apply NoDup_rev. rewrite rev_app_distr. cbn.
    constructor; [rewrite <- in_rev; exact Hfresh|apply NoDup_rev; exact (wf_ids _ W)]. }
  assert (Hac1 : gacyclic G1).
  { apply (GraphWalk.add_edge_acyclic bytes edge e_id e_up e_down G e Hfresh (wf_acyclic _ W)).
    - cbn. exact Hself.
    - cbn [e_up e_down e]. apply not_upstream_no_walk; [exact (wf_ids _ W)|exact (wf_acyclic _ W)|exact Hup]. }
  assert (W1 : wf (mkStore (s_nodes st) G1 root' (s_next st + 1))).
  { constructor; cbn [s_edges s_next]; auto.
    intros x Hx. apply in_app_or in Hx as [Hx|[<-|[]]]; [pose proof (wf_next _ W x Hx); lia|cbn; lia]. }
  (* the generic invariant on G1 with the new edge's local term chosen so that its hash 0 is right *)
  set (L1 := fun i => if i =? e_id e then xorl e_hash (childs G node) else Lf (s_nodes st) G i).
  assert (HI1 : gInv G1 L1 (Hf G1)).
  { intros x Hx. unfold Hf at 1. rewrite (find_id_in G1 x ND1 Hx).
    change (gchilds G1 (e_down x)) with (childs G1 (e_down x)).
    assert (Hch : forall c, In c (childs G1 (e_down x)) -> Hf G1 (e_id c) = e_hash c).
    { intros c Hc. unfold Hf. rewrite (find_id_in G1 c ND1); [reflexivity|]. eapply in_childs. exact Hc. }
    rewrite (xorl_ext_in (fun c => Hf G1 (e_id c)) e_hash _ Hch).
    unfold G1 at 1. rewrite childs_app, xorl_app.
    apply in_app_or in Hx as [Hx|[<-|[]]].
    - unfold L1. assert (e_id x =? e_id e = false) as ->.
      { apply N.eqb_neq. intros E. apply Hfresh. rewrite <- E. apply in_map. exact Hx. }
      unfold Lf. rewrite (find_id_in G x (wf_ids _ W) Hx). rewrite (HI x Hx). fold G.
      destruct (bytes_eqb (e_up e) (e_down x)); cbn [GraphCount.xorl]; [change (e_hash e) with 0|]; xor_ac.
    - unfold L1. rewrite N.eqb_refl. cbn [e_down e e_up e_hash].
      assert (bytes_eqb parent node = false) as ->.
      { destruct (bytes_eqb parent node) eqn:E; [|reflexivity]. apply bytes_eqb_eq in E. congruence. }
      cbn [GraphCount.xorl]. xor_ac. }
  unfold update_edge_hash. fold G1.
  rewrite (edge_vs_generic G1 (e_id e) parent).
  set (V := e_id e :: gvisits G1 (fuel_of G1) parent).
  split; [apply (wf_sp (mkStore (s_nodes st) G1 root' (s_next st + 1)) (toggle V d) (s_nodes st) root' (sp_toggle _ _ _) W1)|].
  intros x' Hx'. cbn [s_edges s_nodes] in *.
  set (L' := fun i => if i =? e_id e then N.lxor (L1 i) d else L1 i).
  apply (inv_realised (s_nodes st) G1 (toggle V d) L' (fun i => N.lxor (Hf G1 i) (GraphCount.tog d (GraphCount.par V i)))).
  - apply sp_toggle.
  - apply (GraphCount.edge_update_preserves_inv bytes bytes_eqb bytes_eqb_eq edge e_id e_up e_down G1 ND1
             L1 L' (Hf G1) (fuel_of G1) e d).
    + exact HI1.
    + apply in_or_app. right. left. reflexivity.
    + apply (fuel_ok _ parent W1).
    + intros x Hx. reflexivity.
  - intros x Hx. rewrite toggle_hash. unfold Hf. rewrite (find_id_in G1 x ND1 Hx). reflexivity.
  - intros x Hx. unfold local. rewrite toggle_down, toggle_pts. unfold L', L1.
    apply in_app_or in Hx as [Hx|[<-|[]]].
    + assert (e_id x =? e_id e = false) as ->.
      { apply N.eqb_neq. intros E. apply Hfresh. rewrite <- E. apply in_map. exact Hx. }
      unfold Lf. rewrite (find_id_in G x (wf_ids _ W) Hx). reflexivity.
    + rewrite N.eqb_refl. cbn [e_down e_pts e]. unfold d. rewrite hsum_fold. xor_ac.
  - exact Hx'.
Qed.
