(* C03 / C05: the store model keeps the Merkle equation on every edge, stays
   acyclic, and its upward recursions never run out of fuel.  Instantiates the
   generic graph theory (GraphCount, GraphWalk) at node ids = byte strings. *)
From Verif Require Import Base.Bytes Store.GraphCount Store.GraphWalk Store.Model Store.ProofsRows.
Local Open Scope N_scope.

Notation gparents := (GraphCount.parents bytes bytes_eqb edge e_down).
Notation gchilds := (GraphCount.childs bytes bytes_eqb edge e_up).
Notation gvisits := (GraphCount.visits bytes bytes_eqb edge e_id e_up e_down).
Notation gInv := (GraphCount.Inv bytes bytes_eqb edge e_id e_up e_down).
Notation gacyclic := (GraphWalk.acyclic bytes edge e_up e_down).
Notation gwalk := (GraphWalk.walk bytes edge e_up e_down).
Notation gendpoint := (GraphWalk.endpoint bytes edge e_up).
Notation xorl := (GraphCount.xorl edge).

Lemma parents_eq G x : parents G x = gparents G x. Proof. reflexivity. Qed.
Lemma childs_eq G x : childs G x = gchilds G x. Proof. reflexivity. Qed.

(* ---------- XOR of CRCs ---------- *)
Lemma xor_fold_acc (f : point -> N) l : forall a,
  fold_left (fun a p => N.lxor a (f p)) l a = N.lxor a (fold_left (fun a p => N.lxor a (f p)) l 0).
Proof.
  induction l as [|p l IH]; intros a; cbn [fold_left].
  - rewrite N.lxor_0_r. reflexivity.
  - rewrite (IH (N.lxor a (f p))), (IH (N.lxor 0 (f p))). rewrite N.lxor_0_l, N.lxor_assoc. reflexivity.
Qed.

Lemma xor_crcs_cons p l : xor_crcs (p :: l) = N.lxor (point_crc p) (xor_crcs l).
Proof. unfold xor_crcs. cbn [fold_left]. rewrite xor_fold_acc, N.lxor_0_l. reflexivity. Qed.

Lemma xor_crcs_nil : xor_crcs [] = 0. Proof. reflexivity. Qed.

(* the delta returned by the merge loop is old XOR new *)
Lemma merge1_delta db p : snd (merge1 db p) = N.lxor (xor_crcs db) (xor_crcs (fst (merge1 db p))).
Proof.
  induction db as [|q db IH]; cbn [merge1].
  - cbn [fst snd]. rewrite xor_crcs_cons, xor_crcs_nil, N.lxor_0_l, N.lxor_0_r. reflexivity.
  - destruct (bytes_eqb (p_type q) (p_type p) && bytes_eqb (p_key q) (p_key p)).
    + destruct (p_time q <=? p_time p)%Z; cbn [fst snd].
      * rewrite !xor_crcs_cons.
        rewrite (N.lxor_comm (point_crc p) (xor_crcs db)), N.lxor_assoc, <- (N.lxor_assoc (xor_crcs db)), N.lxor_nilpotent, N.lxor_0_l.
        reflexivity.
      * rewrite N.lxor_nilpotent. reflexivity.
    + destruct (merge1 db p) as [r d]. cbn [fst snd] in *. rewrite IH, !xor_crcs_cons.
      rewrite N.lxor_assoc, <- (N.lxor_assoc (xor_crcs db)), (N.lxor_comm (xor_crcs db) (point_crc q)).
      rewrite !N.lxor_assoc, <- (N.lxor_assoc (point_crc q)), N.lxor_nilpotent, N.lxor_0_l. reflexivity.
Qed.

Lemma merge_batch_delta skip ps : forall db d0,
  let r := fold_left (fun '(db, d) p =>
               if skip && bytes_eqb (p_type p) str_nodeType then (db, d)
               else let '(db', d') := merge1 db (with_key p (norm_key (p_key p))) in (db', N.lxor d d'))
            ps (db, d0) in
  snd r = N.lxor d0 (N.lxor (xor_crcs db) (xor_crcs (fst r))).
Proof.
  induction ps as [|p ps IH]; intros db d0; cbn [fold_left].
  - cbn [fst snd]. rewrite N.lxor_nilpotent, N.lxor_0_r. reflexivity.
  - destruct (skip && bytes_eqb (p_type p) str_nodeType); [apply IH|].
    pose proof (merge1_delta db (with_key p (norm_key (p_key p)))) as M.
    destruct (merge1 db (with_key p (norm_key (p_key p)))) as [db' d']. cbn [fst snd] in M.
    cbv zeta in IH |- *. rewrite IH. subst d'.
    rewrite !N.lxor_assoc. f_equal. rewrite <- !N.lxor_assoc. f_equal.
    rewrite N.lxor_assoc, N.lxor_nilpotent, N.lxor_0_r. reflexivity.
Qed.

Lemma merge_batch_snd skip db ps :
  snd (merge_batch skip db ps) = N.lxor (xor_crcs db) (xor_crcs (fst (merge_batch skip db ps))).
Proof. unfold merge_batch. rewrite (merge_batch_delta skip ps db 0). cbv zeta. rewrite N.lxor_0_l. reflexivity. Qed.

(* ---------- the invariant ---------- *)
Definition local (ns : list (bytes * list point)) (e : edge) : N :=
  N.lxor (xor_crcs (node_rows ns (e_down e))) (xor_crcs (e_pts e)).

Definition Inv (st : store) : Prop :=
  forall e, In e (s_edges st) ->
    e_hash e = N.lxor (local (s_nodes st) e) (xorl e_hash (childs (s_edges st) (e_down e))).

Definition find_id (G : list edge) (id : N) : option edge := find (fun e => e_id e =? id) G.
Definition Hf (G : list edge) (id : N) : N := match find_id G id with Some e => e_hash e | None => 0 end.
Definition Lf (ns : list (bytes * list point)) (G : list edge) (id : N) : N :=
  match find_id G id with Some e => local ns e | None => 0 end.

Lemma find_id_in G e : NoDup (map e_id G) -> In e G -> find_id G (e_id e) = Some e.
Proof.
  unfold find_id. induction G as [|g G IH]; intros ND Hin; [destruct Hin|].
  cbn [find]. cbn [map] in ND. inversion ND as [|? ? Hn ND']; subst.
  destruct Hin as [->|Hin].
  - rewrite N.eqb_refl. reflexivity.
  - destruct (e_id g =? e_id e) eqn:E; [|apply IH; assumption].
    exfalso. apply N.eqb_eq in E. apply Hn. rewrite E. apply in_map. exact Hin.
Qed.

Lemma in_childs G v c : In c (childs G v) -> In c G.
Proof. unfold childs. rewrite filter_In. tauto. Qed.

Lemma xorl_ext_in (f g : edge -> N) l : (forall e, In e l -> f e = g e) -> xorl f l = xorl g l.
Proof. apply GraphCount.xorl_ext. Qed.

Lemma Inv_gInv st : NoDup (map e_id (s_edges st)) ->
  (Inv st <-> gInv (s_edges st) (Lf (s_nodes st) (s_edges st)) (Hf (s_edges st))).
Proof.
  intros ND. unfold Inv, GraphCount.Inv. split; intros H e He; specialize (H e He).
  - unfold Hf at 1, Lf. rewrite (find_id_in _ _ ND He). rewrite H. f_equal.
    apply xorl_ext_in. intros c Hc. unfold Hf. rewrite (find_id_in _ c ND); [reflexivity|].
    eapply in_childs. exact Hc.
  - unfold Hf at 1, Lf in H. rewrite (find_id_in _ _ ND He) in H. rewrite H. f_equal.
    apply xorl_ext_in. intros c Hc. unfold Hf. rewrite (find_id_in _ c ND); [reflexivity|].
    eapply in_childs. exact Hc.
Qed.

(* ---------- toggling ---------- *)
Lemma toggle_id vs d e : e_id (toggle vs d e) = e_id e.
Proof. unfold toggle. destruct (Nat.odd _); reflexivity. Qed.
Lemma toggle_up vs d e : e_up (toggle vs d e) = e_up e.
Proof. unfold toggle. destruct (Nat.odd _); reflexivity. Qed.
Lemma toggle_down vs d e : e_down (toggle vs d e) = e_down e.
Proof. unfold toggle. destruct (Nat.odd _); reflexivity. Qed.
Lemma toggle_pts vs d e : e_pts (toggle vs d e) = e_pts e.
Proof. unfold toggle. destruct (Nat.odd _); reflexivity. Qed.
Lemma toggle_type vs d e : e_type (toggle vs d e) = e_type e.
Proof. unfold toggle. destruct (Nat.odd _); reflexivity. Qed.
Lemma toggle_hash vs d e : e_hash (toggle vs d e) = N.lxor (e_hash e) (GraphCount.tog d (GraphCount.par vs (e_id e))).
Proof.
  unfold toggle, GraphCount.par, GraphCount.tog, cnt, GraphCount.cnt.
  destruct (Nat.odd _); cbn; [reflexivity|rewrite N.lxor_0_r; reflexivity].
Qed.

Lemma map_id_toggle vs d G : map e_id (map (toggle vs d) G) = map e_id G.
Proof. rewrite map_map. apply map_ext. intros e. apply toggle_id. Qed.

Lemma childs_toggle vs d G v : childs (map (toggle vs d) G) v = map (toggle vs d) (childs G v).
Proof.
  unfold childs. induction G as [|e G IH]; [reflexivity|]. cbn [map filter].
  rewrite toggle_up. destruct (bytes_eqb (e_up e) v); cbn [map]; rewrite IH; reflexivity.
Qed.

Lemma parents_toggle vs d G v : parents (map (toggle vs d) G) v = map (toggle vs d) (parents G v).
Proof.
  unfold parents. induction G as [|e G IH]; [reflexivity|]. cbn [map filter].
  rewrite toggle_down. destruct (bytes_eqb (e_down e) v); cbn [map]; rewrite IH; reflexivity.
Qed.

Lemma xorl_map (f : edge -> N) (g : edge -> edge) l : xorl f (map g l) = xorl (fun c => f (g c)) l.
Proof. induction l as [|a l IH]; cbn; [reflexivity|]. rewrite IH. reflexivity. Qed.

(* a generic invariant over G with H' = H xor toggles is realised by [map toggle] *)
Lemma inv_after_toggle ns' G vs d (L' : N -> N) :
  NoDup (map e_id G) ->
  gInv G L' (fun id => N.lxor (Hf G id) (GraphCount.tog d (GraphCount.par vs id))) ->
  (forall e, In e G -> local ns' e = L' (e_id e)) ->
  forall e', In e' (map (toggle vs d) G) ->
    e_hash e' = N.lxor (local ns' e') (xorl e_hash (childs (map (toggle vs d) G) (e_down e'))).
Proof.
  intros ND HI HL e' He'. apply in_map_iff in He' as (e & <- & He).
  rewrite toggle_hash, toggle_down, childs_toggle, xorl_map.
  specialize (HI e He). cbv beta in HI. unfold Hf at 1 in HI. rewrite (find_id_in _ _ ND He) in HI.
  rewrite HI. f_equal.
  - unfold local. rewrite toggle_down, toggle_pts. symmetry. apply (HL e He).
  - apply xorl_ext_in. intros c Hc. rewrite toggle_hash. unfold Hf.
    rewrite (find_id_in _ c ND); [reflexivity|]. eapply in_childs. exact Hc.
Qed.

(* ---------- well-formed stores ---------- *)
Record wf (st : store) : Prop := {
  wf_ids : NoDup (map e_id (s_edges st));
  wf_next : forall e, In e (s_edges st) -> e_id e < s_next st;
  wf_acyclic : gacyclic (s_edges st);
  wf_none : forall e, In e (s_edges st) -> e_down e <> str_none }.

Lemma parents_none_nil G : (forall e, In e G -> e_down e <> str_none) -> parents G str_none = [].
Proof.
  unfold parents. induction G as [|g G IHG]; intros Hn; [reflexivity|]. cbn [filter].
  destruct (bytes_eqb (e_down g) str_none) eqn:Eg.
  - exfalso. apply bytes_eqb_eq in Eg. apply (Hn g); [left; reflexivity|exact Eg].
  - apply IHG. intros e' He'. apply Hn. right. exact He'.
Qed.

(* the model's visits (which stops at the "none" sentinel) is the generic one *)
Lemma visits_generic G : (forall e, In e G -> e_down e <> str_none) ->
  forall f x, visits G f x = gvisits G f x.
Proof.
  intros Hn. induction f as [|f IH]; intros x; [reflexivity|].
  cbn [visits GraphCount.visits]. rewrite parents_eq.
  apply flat_map_ext. intros e. f_equal.
  destruct (bytes_eqb (e_up e) str_none) eqn:E; [|apply IH].
  apply bytes_eqb_eq in E. rewrite E.
  destruct f as [|f]; [reflexivity|]. cbn [GraphCount.visits].
  rewrite <- parents_eq, (parents_none_nil G Hn). reflexivity.
Qed.

Lemma fuel_ok st x : wf st ->
  gvisits (s_edges st) (S (fuel_of (s_edges st))) x = gvisits (s_edges st) (fuel_of (s_edges st)) x.
Proof.
  intros W. apply (GraphWalk.fuel_adequate bytes bytes_eqb bytes_eqb_eq edge e_id e_up e_down _ (wf_ids _ W)).
  - exact (wf_acyclic _ W).
  - unfold fuel_of. lia.
Qed.
