(* C04, first-time initialisation: model of what NewSqliteDb does when it opens a store file
   (initMeta, runMigrations, initRoot, initJwtKey), each step one transaction, and the theorem
   that opening is idempotent under a crash after any number of those transactions. *)
From Verif Require Import Base.Bytes Store.Model.
Local Open Scope N_scope.

Record meta := mkMeta { m_version : N; m_root : bytes; m_key : bytes }.
Record disk := mkDisk { d_meta : list meta;  (* rows of the meta table *)
                        d_store : store }.

Definition str_device : bytes := [100;101;118;105;99;101].
Definition str_user : bytes := [117;115;101;114].

(* what one open needs from outside: the configured root id ("" = invent one), and the fresh
   values it would invent *)
Record fresh := mkFresh { f_cfg_root : bytes; f_root : bytes; f_admin : bytes; f_key : bytes; f_now : Z }.

Definition wr (st : store) (o : op) : store := fst (fst (handle st o)).

Definition tpt (t : Z) : point := mkPoint str_tombstone [] t 0 [] [] 0%Z [].
Definition ntpt (t : Z) (ty : bytes) : point := mkPoint str_nodeType [] t 0 ty [] 0%Z [].

(* the transactions of one open, in order, as functions on the durable state.  Each is computed
   from what the process has in memory, which is what it read from the disk when it started plus
   what it did itself: so the script is a function of the disk found at start *)
Definition last_meta (d : disk) : meta :=
  match rev (d_meta d) with m :: _ => m | [] => mkMeta 0 [] [] end.

Definition set_meta (f : meta -> meta) (d : disk) : disk := mkDisk (map f (d_meta d)) (d_store d).

Definition open_script (d0 : disk) (fr : fresh) : list (disk -> disk) :=
  let m0 := last_meta d0 in
  let t_init := match d_meta d0 with
                | [] => [fun d => mkDisk (d_meta d ++ [mkMeta 0 [] []]) (d_store d)]
                | _ => []
                end in
  let t_mig := if m_version m0 <? 4
               then [fun d => d; fun d => d; set_meta (fun m => mkMeta 4 (m_root m) (m_key m))]   (* two key migrations, then the version *)
               else [] in
  let root := match f_cfg_root fr with [] => f_root fr | r => r end in
  let t_root :=
    match m_root m0 with
    | [] =>
        [ fun d => mkDisk (d_meta d) (wr (d_store d) (NodePts root []));
          (* the root edge; when it is a new edge the same transaction moves the instance root *)
          fun d => let st' := wr (d_store d) (EdgePts root str_root [tpt (f_now fr); ntpt (f_now fr) str_device]) in
                   mkDisk (if bytes_eqb (s_root st') (s_root (d_store d)) then d_meta d
                           else map (fun m => mkMeta (m_version m) (s_root st') (m_key m)) (d_meta d)) st';
          fun d => mkDisk (d_meta d) (wr (d_store d) (NodePts (f_admin fr) [mkPoint [101;109;97;105;108] [] (f_now fr) 0 [97] [] 0%Z []]));
          fun d => mkDisk (d_meta d) (wr (d_store d) (EdgePts (f_admin fr) root [tpt (f_now fr); ntpt (f_now fr) str_user]));
          set_meta (fun m => mkMeta (m_version m) root (m_key m)) ]
    | _ => []
    end in
  let t_key := match m_key m0 with
               | [] => [set_meta (fun m => mkMeta (m_version m) (m_root m) (f_key fr))]
               | _ => []
               end in
  t_init ++ t_mig ++ t_root ++ t_key.

Definition run_txs (txs : list (disk -> disk)) (d : disk) : disk := fold_left (fun d t => t d) txs d.

(* a complete open, and an open that dies after k transactions *)
Definition open_db (d : disk) (fr : fresh) : disk := run_txs (open_script d fr) d.
Definition open_crash (d : disk) (fr : fresh) (k : nat) : disk := run_txs (firstn k (open_script d fr)) d.

(* "make sure we find root ID": a live edge into the instance root exists *)
Definition root_found (d : disk) : bool :=
  match d_meta d with
  | [m] => existsb (fun e => bytes_eqb (e_down e) (m_root m) && negb (f64_is_one (edge_tomb_val e))) (s_edges (d_store d))
  | _ => false
  end.

Definition empty_disk : disk := mkDisk [] (mkStore [] [] [] 0).

Definition fresh_ok (fr : fresh) : Prop :=
  f_root fr <> [] /\ f_admin fr <> [] /\ f_key fr <> [] /\
  f_root fr <> str_root /\ f_admin fr <> f_root fr /\
  (match f_cfg_root fr with [] => True | r => r <> str_root /\ f_admin fr <> r end).

(* ---------- proofs ---------- *)
Lemma set_meta_len f d : length (d_meta (set_meta f d)) = length (d_meta d).
Proof. unfold set_meta. cbn [d_meta]. apply map_length. Qed.

Definition meta_pres (t : disk -> disk) : Prop :=
  forall d, length (d_meta (t d)) = length (d_meta d).

Definition t_root_txs (fr : fresh) (root : bytes) : list (disk -> disk) :=
  [ fun d => mkDisk (d_meta d) (wr (d_store d) (NodePts root []));
    fun d => let st' := wr (d_store d) (EdgePts root str_root [tpt (f_now fr); ntpt (f_now fr) str_device]) in
             mkDisk (if bytes_eqb (s_root st') (s_root (d_store d)) then d_meta d
                     else map (fun m => mkMeta (m_version m) (s_root st') (m_key m)) (d_meta d)) st';
    fun d => mkDisk (d_meta d) (wr (d_store d) (NodePts (f_admin fr) [mkPoint [101;109;97;105;108] [] (f_now fr) 0 [97] [] 0%Z []]));
    fun d => mkDisk (d_meta d) (wr (d_store d) (EdgePts (f_admin fr) root [tpt (f_now fr); ntpt (f_now fr) str_user]));
    set_meta (fun m => mkMeta (m_version m) root (m_key m)) ].

Definition t_mig_txs : list (disk -> disk) :=
  [fun d => d; fun d => d; set_meta (fun m => mkMeta 4 (m_root m) (m_key m))].

Definition rest_script (d0 : disk) (fr : fresh) : list (disk -> disk) :=
  let m0 := last_meta d0 in
  (if m_version m0 <? 4 then t_mig_txs else []) ++
  (match m_root m0 with [] => t_root_txs fr (match f_cfg_root fr with [] => f_root fr | r => r end) | _ => [] end) ++
  (match m_key m0 with [] => [set_meta (fun m => mkMeta (m_version m) (m_root m) (f_key fr))] | _ => [] end).

Lemma open_script_eq d0 fr :
  open_script d0 fr =
  (match d_meta d0 with [] => [fun d => mkDisk (d_meta d ++ [mkMeta 0 [] []]) (d_store d)] | _ => [] end) ++ rest_script d0 fr.
Proof. reflexivity. Qed.

Lemma root_txs_pres fr root : Forall meta_pres (t_root_txs fr root).
Proof.
  unfold t_root_txs. repeat constructor; intros d; cbn [d_meta]; try reflexivity; try apply set_meta_len.
  destruct (bytes_eqb _ _); [reflexivity|apply map_length].
Qed.

Lemma mig_txs_pres : Forall meta_pres t_mig_txs.
Proof. unfold t_mig_txs. repeat constructor; intros d; try reflexivity. apply set_meta_len. Qed.

Lemma rest_script_pres d0 fr : Forall meta_pres (rest_script d0 fr).
Proof.
  unfold rest_script. apply Forall_app. split; [destruct (_ <? 4); [apply mig_txs_pres|constructor]|].
  apply Forall_app. split.
  - destruct (m_root (last_meta d0)); [apply root_txs_pres|constructor].
  - destruct (m_key (last_meta d0)); [|constructor]. repeat constructor. intros d. apply set_meta_len.
Qed.

Lemma run_meta_pres txs : Forall meta_pres txs -> forall d, length (d_meta (run_txs txs d)) = length (d_meta d).
Proof.
  induction 1 as [|t txs Ht _ IH]; intros d; [reflexivity|]. unfold run_txs. cbn [fold_left]. fold (run_txs txs (t d)).
  rewrite IH. apply Ht.
Qed.

Lemma Forall_firstn' {A} (P : A -> Prop) l k : Forall P l -> Forall P (firstn k l).
Proof.
  revert k. induction l as [|a l IH]; intros k H; [rewrite firstn_nil; constructor|].
  destruct k; [constructor|]. inversion H; subst. cbn [firstn]. constructor; auto.
Qed.

Lemma crash_meta_le d fr k : (length (d_meta d) <= 1)%nat -> (length (d_meta (open_crash d fr k)) <= 1)%nat.
Proof.
  intros Hd. unfold open_crash. rewrite open_script_eq. destruct (d_meta d) as [|m ms] eqn:E.
  - destruct k as [|k]; [cbn [firstn run_txs fold_left]; rewrite E; cbn [length]; lia|].
    cbn [app firstn]. unfold run_txs. cbn [fold_left]. fold (run_txs (firstn k (rest_script d fr))).
    rewrite run_meta_pres by (apply Forall_firstn', rest_script_pres). cbn [d_meta]. rewrite E. cbn [app length]. lia.
  - cbn [app]. rewrite run_meta_pres by (apply Forall_firstn', rest_script_pres). rewrite E. exact Hd.
Qed.

Lemma open_meta_one d fr : (length (d_meta d) <= 1)%nat -> length (d_meta (open_db d fr)) = 1%nat.
Proof.
  intros Hd. unfold open_db. rewrite open_script_eq. destruct (d_meta d) as [|m ms] eqn:E.
  - cbn [app]. unfold run_txs. cbn [fold_left]. fold (run_txs (rest_script d fr)).
    rewrite run_meta_pres by apply rest_script_pres. cbn [d_meta]. rewrite E. reflexivity.
  - cbn [app]. rewrite run_meta_pres by apply rest_script_pres. rewrite E in *. cbn [length] in *. lia.
Qed.

(* C04, initialisation: whatever number k of transactions of a first open (from the empty file)
   were committed before the process died, a complete re-open leaves exactly one meta row *)
Theorem init_one_meta fr1 fr2 k :
  length (d_meta (open_db (open_crash empty_disk fr1 k) fr2)) = 1%nat.
Proof. apply open_meta_one, crash_meta_le. cbn [empty_disk d_meta length]. lia. Qed.

(* once a root id and a signing key are on disk, every later open keeps them *)
Theorem open_keeps_root_and_key d fr m :
  d_meta d = [m] -> m_root m <> [] -> m_key m <> [] ->
  exists m', d_meta (open_db d fr) = [m'] /\ m_root m' = m_root m /\ m_key m' = m_key m.
Proof.
  intros E Hr Hk. unfold open_db. rewrite open_script_eq, E. cbn [app]. unfold rest_script, last_meta. rewrite E. cbn [rev app].
  destruct (m_root m) as [|r0 rs] eqn:Er; [contradiction|]. destruct (m_key m) as [|k0 ks] eqn:Ek; [contradiction|].
  rewrite !app_nil_r. destruct (m_version m <? 4).
  - unfold t_mig_txs, run_txs. cbn [fold_left]. unfold set_meta. cbn [d_meta d_store]. rewrite E. cbn [map].
    eexists. split; [reflexivity|]. cbn [m_root m_key]. rewrite Er, Ek. split; reflexivity.
  - unfold run_txs. cbn [fold_left]. exists m. rewrite E, Er, Ek. repeat split.
Qed.
