(* C20: concurrency at the level the model can carry.  A request's store step is
   atomic (one write lock + one transaction), reads are snapshots, so an execution
   is an interleaving = a list of requests in the order their steps were taken.
   Theorems: what is read never goes back in time, an acknowledged write is visible
   to every later read, and the content at quiescence does not depend on which
   interleaving happened (it is what any serial order of the writes gives). *)
From Coq Require Import Permutation ZifyBool.
From Verif Require Import Base.Bytes Store.GraphCount Store.GraphWalk Store.Model Store.ProofsRows Store.ProofsHash Store.ProofsTop.
Local Open Scope Z_scope.

(* "at least as new as": None is older than everything *)
Definition ole (a b : option point) : Prop :=
  match a, b with
  | None, _ => True
  | Some x, Some y => p_time x <= p_time y
  | Some _, None => False
  end.

Lemma ole_refl a : ole a a.
Proof. destruct a; cbn; lia. Qed.
Lemma ole_trans a b c : ole a b -> ole b c -> ole a c.
Proof. destruct a, b, c; cbn; try lia; tauto. Qed.

Lemma newer_mono acc p : ole acc (newer acc p) /\ ole (Some p) (newer acc p).
Proof.
  destruct acc as [q|]; cbn [newer ole].
  - destruct (p_time q <=? p_time p) eqn:E; cbn [ole]; lia.
  - lia.
Qed.

Lemma fold_newer_mono l : forall acc,
  ole acc (fold_left newer l acc) /\
  (forall p, In p l -> ole (Some p) (fold_left newer l acc)).
Proof.
  induction l as [|x l IH]; intros acc; cbn [fold_left].
  - split; [apply ole_refl|intros p []].
  - destruct (IH (newer acc x)) as [H1 H2]. destruct (newer_mono acc x) as [H3 H4]. split.
    + eapply ole_trans; eassumption.
    + intros p [<-|Hp]; [eapply ole_trans; eassumption|apply H2; assumption].
Qed.

Lemma run_app ops1 : forall st ops2, run st (ops1 ++ ops2) = run (run st ops1) ops2.
Proof. induction ops1 as [|o ops1 IH]; intros st ops2; cbn [run app]; [reflexivity|apply IH]. Qed.

(* successive reads of an identity never go back to an older timestamp *)
Theorem monotone_reads st ops1 ops2 id t k : nodes_ok st ->
  ole (lookup (node_rows (s_nodes (run st ops1)) id) t k)
      (lookup (node_rows (s_nodes (run st (ops1 ++ ops2))) id) t k).
Proof.
  intros RO. rewrite run_app. rewrite (newest_wins_node ops2 (run st ops1) id t k (run_nodes_ok ops1 st RO)).
  apply fold_newer_mono.
Qed.

(* an acknowledged node point write is visible to every later read: for each of its points the
   read returns a point of that identity at least as new *)
Theorem ack_visible st ops1 id pts ops2 p : nodes_ok st ->
  reply_of (handle (run st ops1) (NodePts id pts)) = 0%N ->
  In p pts ->
  ole (Some (normp p)) (lookup (node_rows (s_nodes (run st (ops1 ++ NodePts id pts :: ops2))) id) (p_type p) (p_key p)).
Proof.
  intros RO Hack Hin. rewrite run_app.
  rewrite (newest_wins_node (NodePts id pts :: ops2) (run st ops1) id (p_type p) (p_key p) (run_nodes_ok ops1 st RO)).
  apply fold_newer_mono.
  cbn [accepted_node]. rewrite Hack, bytes_eqb_refl. cbn [N.eqb andb].
  rewrite map_app, sel_app. apply in_or_app. left.
  unfold sel. apply filter_In. split.
  - apply in_map_iff. exists p. split; [|exact Hin]. reflexivity.
  - rewrite is_id_normp. unfold is_id. apply ident_eqb_refl.
Qed.

(* ---------- independence of the interleaving ---------- *)
(* which node points of a history are accepted does not depend on the state: only what the store cannot
   represent (a value that is not a number, a time outside the int64 nanosecond range) is refused *)
Definition node_pts_of (o : op) (id : bytes) : list point :=
  match o with
  | NodePts i pts => if negb (has_nan pts || bad_times pts) && bytes_eqb i id then pts else []
  | EdgePts _ _ _ => []
  end.

Lemma node_reply st i pts : reply_of (handle st (NodePts i pts)) = if has_nan pts || bad_times pts then 1%N else 0%N.
Proof.
  cbn [handle]. unfold node_points. destruct (has_nan pts); [reflexivity|]. destruct (bad_times pts); [reflexivity|].
  destruct (merge_batch false _ _). reflexivity.
Qed.

Lemma accepted_node_flat ops : forall st id,
  accepted_node st ops id = flat_map (fun o => node_pts_of o id) ops.
Proof.
  induction ops as [|o ops IH]; intros st id; cbn [accepted_node flat_map]; [reflexivity|].
  rewrite IH. f_equal. destruct o as [i pts|i par pts]; [|reflexivity].
  cbn [node_pts_of]. rewrite node_reply. destruct (has_nan pts), (bad_times pts); reflexivity.
Qed.

Lemma flat_map_perm {A B} (f : A -> list B) l l' : Permutation l l' -> Permutation (flat_map f l) (flat_map f l').
Proof.
  induction 1; cbn.
  - constructor.
  - apply Permutation_app_head. assumption.
  - rewrite !app_assoc. apply Permutation_app_tail. apply Permutation_app_comm.
  - eapply Permutation_trans; eassumption.
Qed.

(* the content read at quiescence is the same for every interleaving of the same requests: with
   distinct times per identity any two orders of the acknowledged writes give the same reads *)
Theorem interleaving_independent ops ops' id t k :
  Permutation ops ops' ->
  distinct_times (sel t k (map normp (flat_map (fun o => node_pts_of o id) ops))) ->
  lookup (node_rows (s_nodes (run st0 ops)) id) t k = lookup (node_rows (s_nodes (run st0 ops')) id) t k.
Proof.
  intros HP HD.
  rewrite !(newest_wins_node _ st0 id t k nodes_ok_st0). rewrite !accepted_node_flat.
  cbn [st0 s_nodes node_rows lookup find].
  apply history_independent; [|exact HD]. apply flat_map_perm. exact HP.
Qed.

Lemma run_edges_ok ops : forall st, wf st -> Inv st -> edges_ok st -> Forall op_ok ops -> edges_ok (run st ops).
Proof.
  induction ops as [|o ops IH]; intros st W HI HO H1; cbn [run]; [exact HO|].
  inversion H1 as [|? ? Ho Hos]; subst. destruct (handle_inv st o W HI Ho) as [W' HI'].
  apply IH; try assumption.
  destruct o as [i pts|i p pts]; cbn [handle].
  - destruct (node_points st i pts) as [st'|e] eqn:E; cbn [state_of fst]; [|exact HO].
    eapply node_points_edges_ok; eassumption.
  - pose proof Ho as Hp. cbn [op_ok] in Hp. destruct (edge_points st i p pts) as [st'|e] eqn:E; cbn [state_of fst]; [|exact HO].
    apply (edge_points_edge_rows st i p pts st' W HO Hp E).
Qed.

(* the same for edge points: whatever requests follow, the point read for an identity of an edge
   is never replaced by an older one *)
Theorem monotone_reads_edge st ops1 ops2 par id t k :
  wf st -> Inv st -> edges_ok st -> Forall op_ok ops1 -> Forall op_ok ops2 ->
  ole (lookup (edge_rows (run st ops1) par id) t k)
      (lookup (edge_rows (run st (ops1 ++ ops2)) par id) t k).
Proof.
  intros W HI HO H1 H2. rewrite run_app.
  destruct (run_inv ops1 st W HI H1) as [W1 HI1].
  rewrite (newest_wins_edge ops2 (run st ops1) par id t k W1 HI1 (run_edges_ok ops1 st W HI HO H1) H2).
  apply fold_newer_mono.
Qed.
