(* The executable specification the checker evaluates on a dump IS the invariant of the theorems:
   for a model state, [spec_hashes_ok] of its observable projection holds exactly when [Inv] does. *)
From Coq Require Import Permutation.
From Verif Require Import Base.Bytes Store.GraphCount Store.GraphWalk Store.Model Store.ProofsRows Store.ProofsHash.
Local Open Scope N_scope.

Lemma insert_by_perm {A} (leb : A -> A -> bool) x l : Permutation (insert_by leb x l) (x :: l).
Proof.
  induction l as [|y l IH]; cbn [insert_by]; [apply Permutation_refl|].
  destruct (leb x y); [apply Permutation_refl|].
  eapply Permutation_trans; [apply perm_skip; exact IH|apply perm_swap].
Qed.

Lemma sort_by_perm {A} (leb : A -> A -> bool) l : Permutation (sort_by leb l) l.
Proof.
  unfold sort_by. induction l as [|x l IH]; cbn [fold_right]; [constructor|].
  eapply Permutation_trans; [apply insert_by_perm|apply perm_skip; exact IH].
Qed.

Definition xsum {A} (f : A -> N) (l : list A) : N := fold_left (fun a x => N.lxor a (f x)) l 0.

Lemma xsum_acc {A} (f : A -> N) l : forall a, fold_left (fun a x => N.lxor a (f x)) l a = N.lxor a (xsum f l).
Proof.
  unfold xsum. induction l as [|x l IH]; intros a; cbn [fold_left]; [rewrite N.lxor_0_r; reflexivity|].
  rewrite (IH (N.lxor a (f x))), (IH (N.lxor 0 (f x))). xor_ac.
Qed.

Lemma xsum_cons {A} (f : A -> N) x l : xsum f (x :: l) = N.lxor (f x) (xsum f l).
Proof. unfold xsum at 1. cbn [fold_left]. rewrite xsum_acc. xor_ac. Qed.

Lemma xsum_perm {A} (f : A -> N) l l' : Permutation l l' -> xsum f l = xsum f l'.
Proof.
  induction 1 as [|x l l' _ IH|x y l|l l' l'' _ IH1 _ IH2]; [reflexivity| | |congruence].
  - rewrite !xsum_cons, IH. reflexivity.
  - rewrite !xsum_cons. xor_ac.
Qed.

Lemma xor_crcs_xsum ps : xor_crcs ps = xsum point_crc ps.
Proof. reflexivity. Qed.

Lemma xor_crcs_sorted ps : xor_crcs (sort_points ps) = xor_crcs ps.
Proof. rewrite !xor_crcs_xsum. apply xsum_perm. apply sort_by_perm. Qed.

Lemma xsum_xorl (f : edge -> N) l : xsum f l = GraphCount.xorl edge f l.
Proof. induction l as [|x l IH]; [reflexivity|]. rewrite xsum_cons, IH. reflexivity. Qed.

Lemma xsum_map {A B} (g : A -> B) (f : B -> N) l : xsum f (map g l) = xsum (fun a => f (g a)) l.
Proof. induction l as [|x l IH]; [reflexivity|]. cbn [map]. rewrite !xsum_cons, IH. reflexivity. Qed.

Lemma filter_perm {A} (p : A -> bool) l l' : Permutation l l' -> Permutation (filter p l) (filter p l').
Proof.
  induction 1; cbn.
  - constructor.
  - destruct (p x); [constructor|]; assumption.
  - destruct (p x), (p y); try apply Permutation_refl; constructor.
  - eapply Permutation_trans; eassumption.
Qed.

(* the children sum of the specification, over the projection, is the children sum of the invariant *)
Lemma spec_children st v :
  fold_left (fun a c => N.lxor a (v_hash c)) (filter (fun c => bytes_eqb (v_up c) v) (project st)) 0 =
  GraphCount.xorl edge e_hash (childs (s_edges st) v).
Proof.
  change (fold_left (fun a c => N.lxor a (v_hash c)) ?l 0) with (xsum v_hash l).
  rewrite (xsum_perm v_hash _ (filter (fun c => bytes_eqb (v_up c) v) (map (view_of st) (s_edges st))))
    by (apply filter_perm; unfold project; apply sort_by_perm).
  rewrite <- xsum_xorl. unfold childs.
  induction (s_edges st) as [|e G IH]; [reflexivity|]. cbn [map filter]. unfold view_of at 1. cbn [v_up].
  destruct (bytes_eqb (e_up e) v); [|exact IH]. rewrite !xsum_cons, IH. reflexivity.
Qed.

Lemma spec_hash_ok_view st e :
  spec_hash_ok (project st) (view_of st e) = true <->
  e_hash e = N.lxor (local (s_nodes st) e) (GraphCount.xorl edge e_hash (childs (s_edges st) (e_down e))).
Proof.
  unfold spec_hash_ok. unfold view_of at 1 2 3 4. cbn [v_hash v_npts v_epts v_down].
  rewrite !xor_crcs_sorted, spec_children, N.eqb_eq. unfold local. reflexivity.
Qed.

Theorem spec_is_inv st : spec_hashes_ok (project st) = true <-> Inv st.
Proof.
  unfold spec_hashes_ok, Inv. rewrite forallb_forall. split.
  - intros H e He. apply spec_hash_ok_view. apply H.
    apply (Permutation_in _ (Permutation_sym (sort_by_perm view_leb _))). apply in_map. exact He.
  - intros H v Hv. apply (Permutation_in _ (sort_by_perm view_leb _)) in Hv.
    apply in_map_iff in Hv as (e & <- & He). apply spec_hash_ok_view. apply H. exact He.
Qed.

(* C01: the executable specification ("newest delivered point per identity", a fold of
   [newest_step] over the deliveries) reads, per identity, as the fold of [newer] the theorems use *)
Lemma fold_newest_step ps : forall acc, fold_left newest_step ps acc = fold_left newest_ins (map normp ps) acc.
Proof. induction ps as [|p ps IH]; intros acc; [reflexivity|]. cbn [fold_left map]. rewrite IH. reflexivity. Qed.

Theorem spec_newest_lookup init ps t k :
  lookup (fold_left newest_step ps init) t k = fold_left newer (sel t k (map normp ps)) (lookup init t k).
Proof. rewrite fold_newest_step. apply lookup_fold_ins. Qed.
