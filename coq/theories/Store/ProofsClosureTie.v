(* The specification side of C05 / C06 / C08 evaluates [ancestors] on an observed dump.  On the dump of a
   model state ([project st]) that set is exactly the set of ends of upward walks the C06 theorems speak
   about: dump-level reachability (ProofsClosure.ancestors_spec) = store-level walks. *)
From Verif Require Import Base.Bytes Store.GraphCount Store.GraphWalk Store.Model Store.ProofsRows Store.ProofsHash Store.ProofsTop Store.ProofsSpec Store.ProofsClosure.
From Coq Require Import Lia Permutation.

(* ---- a predicate met by at most one row: find does not depend on the order ---- *)
Lemma filter_unique (f : point -> bool) rows : nodup_rows rows ->
  (forall p q, f p = true -> f q = true -> same_ident p q = true) -> length (filter f rows) <= 1.
Proof.
  intros ND Hf. induction rows as [|q rows IH]; cbn [filter length]; [lia|].
  cbn [nodup_rows] in ND. destruct ND as [Hq ND]. specialize (IH ND).
  destruct (f q) eqn:Eq; [|exact IH]. cbn [length].
  destruct (filter f rows) as [|r rest] eqn:Er; [cbn; lia|exfalso].
  assert (Hr : In r (filter f rows)) by (rewrite Er; left; reflexivity).
  apply filter_In in Hr. destruct Hr as [Hin Hfr].
  specialize (Hf q r Eq Hfr). rewrite (Hq r Hin) in Hf. discriminate.
Qed.

Lemma find_hd {A} (f : A -> bool) l : find f l = hd_error (filter f l).
Proof. induction l as [|a l IH]; cbn [find filter]; [reflexivity|]. destruct (f a); [reflexivity|exact IH]. Qed.

Lemma perm_le1 {A} (l l' : list A) : Permutation l l' -> length l <= 1 -> l' = l.
Proof.
  intros HP Hl. destruct l as [|a [|b l]]; cbn [length] in Hl; [| |lia].
  - apply Permutation_nil in HP. exact HP.
  - apply Permutation_length_1_inv in HP. exact HP.
Qed.

Lemma find_perm_unique (f : point -> bool) l l' : Permutation l l' -> length (filter f l) <= 1 -> find f l' = find f l.
Proof.
  intros HP Hl. rewrite !find_hd. f_equal. apply perm_le1; [apply filter_perm; exact HP|exact Hl].
Qed.

Definition tomb_pred (p : point) : bool := bytes_eqb (p_type p) str_tombstone && bytes_eqb (p_key p) str_0.

Lemma tomb_pred_ident p q : tomb_pred p = true -> tomb_pred q = true -> same_ident p q = true.
Proof.
  unfold tomb_pred, same_ident, ident_eqb. intros Hp Hq.
  apply andb_true_iff in Hp, Hq. destruct Hp as [Hp1 Hp2], Hq as [Hq1 Hq2].
  apply bytes_eqb_eq in Hp1, Hp2, Hq1, Hq2. rewrite Hp1, Hp2, Hq1, Hq2, !bytes_eqb_refl. reflexivity.
Qed.

(* the tombstone value read from a dumped edge is the one the store reads *)
Lemma view_tomb_edge st e : nodup_rows (e_pts e) ->
  match find tomb_pred (v_epts (view_of st e)) with Some p => p_val p | None => 0%N end = edge_tomb_val e.
Proof.
  intros ND. unfold edge_tomb_val. cbn [view_of v_epts]. fold tomb_pred.
  rewrite (find_perm_unique tomb_pred (e_pts e) (sort_points (e_pts e))); [reflexivity| |].
  - apply Permutation_sym, sort_by_perm.
  - apply filter_unique; [exact ND|apply tomb_pred_ident].
Qed.

Section Tie.
Variable st : store.
Hypothesis W : wf st.
Hypothesis EO : edges_ok st.
Variable incl : bool.

Notation G := (s_edges st).
Notation lo := (negb incl).

Lemma sel_ups_project z y :
  In y (sel_ups (project st) lo z) <-> exists e, In e G /\ e_down e = z /\ sel_of incl e = true /\ e_up e = y.
Proof.
  unfold sel_ups. rewrite in_map_iff. split.
  - intros (v & <- & Hv). apply filter_In in Hv. destruct Hv as [Hin Hp].
    unfold project in Hin. apply (Permutation_in _ (sort_by_perm view_leb _)) in Hin.
    apply in_map_iff in Hin. destruct Hin as (e & <- & He). exists e. split; [exact He|].
    apply andb_true_iff in Hp. destruct Hp as [Hd Hs]. apply bytes_eqb_eq in Hd. cbn [view_of v_down v_up] in *.
    split; [exact Hd|]. split; [|reflexivity].
    unfold sel_of. fold tomb_pred in Hs. rewrite (view_tomb_edge st e (proj2 (EO e He))) in Hs.
    rewrite negb_involutive in Hs. exact Hs.
  - intros (e & He & Hd & Hs & Hu). exists (view_of st e). split; [exact Hu|].
    apply filter_In. split.
    + unfold project. apply (Permutation_in _ (Permutation_sym (sort_by_perm view_leb _))). apply in_map. exact He.
    + cbn [view_of v_down]. rewrite Hd, bytes_eqb_refl. cbn [andb].
      fold tomb_pred. change (v_epts (view_of st e)) with (sort_points (e_pts e)).
      pose proof (view_tomb_edge st e (proj2 (EO e He))) as Ht. cbn [view_of v_epts] in Ht. rewrite Ht.
      rewrite negb_involutive. exact Hs.
Qed.

Lemma reach_walk x a : reach (project st) lo x a -> exists l, gswalk G (sel_of incl) x l /\ gendpoint x l = a.
Proof.
  induction 1 as [|z y Hz IH Hy].
  - exists []. split; [exact I|reflexivity].
  - destruct IH as (l & Hl & He). unfold ups in Hy.
    apply sel_ups_project in Hy. destruct Hy as (e & Hin & Hd & Hs & Hu).
    exists (l ++ [e]). split.
    + apply swalk_app. split; [exact Hl|]. rewrite He. cbn. repeat split; assumption.
    + rewrite endpoint_app, He. exact Hu.
Qed.

Lemma walk_reach x l : gswalk G (sel_of incl) x l -> reach (project st) lo x (gendpoint x l).
Proof.
  induction l as [|e l IH] using rev_ind; intros Hl; [constructor|].
  apply swalk_app in Hl. destruct Hl as [Hl He]. cbn in He. destruct He as (Hin & Hs & Hd & _).
  rewrite endpoint_app. cbn. eapply reach_step; [apply IH; exact Hl|].
  unfold ups. apply sel_ups_project. exists e. repeat split; assumption.
Qed.

Theorem ancestors_walks x a :
  In a (ancestors (project st) lo x) <-> exists l, gswalk G (sel_of incl) x l /\ gendpoint x l = a.
Proof.
  rewrite ancestors_spec. split; [apply reach_walk|]. intros (l & Hl & <-). apply walk_reach. exact Hl.
Qed.
End Tie.
