(* C04, first-time initialisation, the general statement: for whatever ids and key the two runs invent,
   whatever number of the transactions of a first open were committed before the process died, a complete
   re-open ends with one meta row carrying a root id and a signing key, and finds that root through a live
   edge.  (Store/Init.v has the model of the open sequence; Properties/C04.v had this for concrete ids only.) *)
From Verif Require Import Base.Bytes Store.GraphCount Store.GraphWalk Store.Model Store.ProofsRows Store.ProofsHash Store.ProofsTop Store.Concurrent Store.Init.
From Coq Require Import Lia.
Local Open Scope N_scope.

Definition okst (st : store) : Prop := wf st /\ Inv st /\ edges_ok st.

Lemma okst_st0 : okst st0.
Proof. split; [exact wf_st0|]. split; [exact inv_st0|]. intros e []. Qed.

Lemma okst_wr st o : okst st -> op_ok o -> okst (wr st o).
Proof.
  intros (W & I & E) Ho. destruct (handle_inv st o W I Ho) as [W' I'].
  split; [exact W'|]. split; [exact I'|].
  apply (run_edges_ok [o] st W I E). constructor; [exact Ho|constructor].
Qed.

Definition rows_tomb (rows : list point) : N :=
  match find (fun p => bytes_eqb (p_type p) str_tombstone && bytes_eqb (p_key p) str_0) rows with
  | Some p => p_val p
  | None => 0%N
  end.

(* a live edge into r *)
Definition found (st : store) (r : bytes) : Prop :=
  exists p, edge_rows st p r <> [] /\ f64_is_one (rows_tomb (edge_rows st p r)) = false.

Lemma found_root_found d m : d_meta d = [m] -> found (d_store d) (m_root m) -> root_found d = true.
Proof.
  intros Hm (p & Hne & Hl). unfold root_found. rewrite Hm. apply existsb_exists.
  unfold edge_rows in Hne, Hl. destruct (find_edge (s_edges (d_store d)) p (m_root m)) as [e|] eqn:E; [|contradiction].
  destruct (find_edge_spec _ _ _ _ E) as (Hin & _ & Hd). exists e. split; [exact Hin|].
  rewrite Hd, bytes_eqb_refl. cbn [andb]. unfold edge_tomb_val. fold (rows_tomb (e_pts e)). rewrite Hl. reflexivity.
Qed.

(* ---- node point requests ---- *)
Lemma wr_np_root st i pts : s_root (wr st (NodePts i pts)) = s_root st.
Proof.
  unfold wr. cbn [handle]. unfold node_points. destruct (has_nan pts); [reflexivity|]. destruct (bad_times pts); [reflexivity|].
  destruct (merge_batch false _ _). reflexivity.
Qed.

Lemma wr_np_edges_nil st i pts : s_edges st = [] -> s_edges (wr st (NodePts i pts)) = [].
Proof.
  intros H. unfold wr. cbn [handle]. unfold node_points. destruct (has_nan pts); [exact H|]. destruct (bad_times pts); [exact H|].
  destruct (merge_batch false _ _). cbn [fst s_edges]. unfold update_hash. rewrite H. reflexivity.
Qed.

Lemma wr_np_rows st i pts up down : edge_rows (wr st (NodePts i pts)) up down = edge_rows st up down.
Proof.
  unfold wr. cbn [handle]. destruct (node_points st i pts) as [st'|e] eqn:E; cbn [fst]; [|reflexivity].
  apply (node_points_edge_rows _ _ _ _ _ _ E).
Qed.

Lemma wr_np_found st i pts r : found st r -> found (wr st (NodePts i pts)) r.
Proof. intros (p & H1 & H2). exists p. rewrite wr_np_rows. auto. Qed.

(* ---- edge point requests elsewhere ---- *)
Lemma wr_ep_root st id par pts : par <> [] -> par <> str_root -> s_root (wr st (EdgePts id par pts)) = s_root st.
Proof.
  intros Hp Hr. unfold wr. cbn [handle]. unfold edge_points.
  destruct (has_nan pts); [reflexivity|]. destruct (bad_times pts); [reflexivity|]. destruct (bytes_eqb id par); [reflexivity|].
  destruct (bytes_eqb id (s_root st) && _); [reflexivity|].
  assert (match par with [] => str_root | _ :: _ => par end = par) as -> by (destruct par; [contradiction|reflexivity]).
  destruct (find_edge (s_edges st) par id).
  - destruct (merge_batch true _ _). reflexivity.
  - destruct (is_upstream _ _ _ _); [reflexivity|]. destruct (merge_batch true [] _).
    destruct (last_node_type _); [reflexivity|]. cbn [fst s_root].
    destruct (bytes_eqb par str_root) eqn:E; [apply bytes_eqb_eq in E; contradiction|reflexivity].
Qed.

Lemma wr_ep_found st id par pts r : okst st -> par <> [] -> id <> r -> found st r -> found (wr st (EdgePts id par pts)) r.
Proof.
  intros (W & I & HO) Hp Hne (p & H1 & H2). exists p. unfold wr. cbn [handle].
  destruct (edge_points st id par pts) as [st'|e] eqn:E; cbn [fst]; [|auto].
  destruct (edge_points_edge_rows st id par pts st' W HO Hp E) as (_ & Hother & _).
  rewrite Hother; [auto|]. intros Heq. inversion Heq. subst. contradiction.
Qed.

(* ---- the root edge ---- *)
Definition in_range (t : Z) : Prop := (min_ns <= t <= max_ns)%Z.
Lemma bad_times_init t ty : in_range t -> bad_times [tpt t; ntpt t ty] = false.
Proof.
  intros [H1 H2]. unfold bad_times, bad_time. cbn [existsb tpt ntpt p_time].
  assert ((t <? min_ns)%Z = false) as -> by (apply Z.ltb_ge; exact H1).
  assert ((max_ns <? t)%Z = false) as -> by (apply Z.ltb_ge; exact H2). reflexivity.
Qed.

Lemma has_nan_init t ty : has_nan [tpt t; ntpt t ty] = false.
Proof. reflexivity. Qed.

Lemma no_pos_tomb t ty :
  existsb (fun p => bytes_eqb (p_type p) str_tombstone && f64_gt0 (p_val p)) (collapse [tpt t; ntpt t ty]) = false.
Proof. reflexivity. Qed.

Lemma init_node_type t ty : last_node_type (collapse [tpt t; ntpt t ty]) = ty.
Proof. reflexivity. Qed.

Lemma init_rows t ty : batch_rows true [] [tpt t; ntpt t ty] = [mkPoint str_tombstone str_0 t 0 [] [] 0%Z []].
Proof. unfold batch_rows. rewrite merge_batch_ins by constructor. reflexivity. Qed.

Lemma bytes_neq_eqb' a b : a <> b -> bytes_eqb a b = false.
Proof. intros H. destruct (bytes_eqb a b) eqn:E; [|reflexivity]. apply bytes_eqb_eq in E. contradiction. Qed.

Lemma wr_root_edge st r t ty :
  okst st -> s_edges st = [] -> r <> str_root -> ty <> [] -> in_range t ->
  let st' := wr st (EdgePts r str_root [tpt t; ntpt t ty]) in
  s_root st' = r /\ found st' r.
Proof.
  intros (W & I & HO) Hnil Hr Hty Hrange. cbv zeta. unfold wr. cbn [handle].
  destruct (edge_points st r str_root [tpt t; ntpt t ty]) as [st'|err] eqn:E; cbn [fst].
  - split.
    + revert E. unfold edge_points. rewrite has_nan_init, (bad_times_init t ty Hrange), (bytes_neq_eqb' r str_root Hr), no_pos_tomb, andb_false_r.
      change (match str_root with [] => str_root | _ :: _ => str_root end) with str_root.
      rewrite Hnil. cbn [find_edge find]. destruct (is_upstream [] _ r str_root); [discriminate|].
      destruct (merge_batch true [] _). rewrite init_node_type. destruct ty; [contradiction|].
      intros E. injection E as <-. cbn [s_root]. reflexivity.
    + destruct (edge_points_edge_rows st r str_root _ st' W HO ltac:(discriminate) E) as (Hsame & _ & _).
      exists str_root. rewrite Hsame. unfold edge_rows at 1 2. rewrite Hnil. cbn [find_edge find].
      rewrite init_rows. split; [discriminate|reflexivity].
  - exfalso. revert E. unfold edge_points. rewrite has_nan_init, (bad_times_init t ty Hrange), (bytes_neq_eqb' r str_root Hr), no_pos_tomb, andb_false_r.
    change (match str_root with [] => str_root | _ :: _ => str_root end) with str_root.
    rewrite Hnil. cbn [find_edge find].
    assert (Hup : is_upstream [] (fuel_of []) r str_root = false).
    { unfold fuel_of. cbn [length is_upstream parents filter existsb]. rewrite bytes_eqb_sym, (bytes_neq_eqb' r str_root Hr). reflexivity. }
    rewrite Hup. destruct (merge_batch true [] _). rewrite init_node_type. destruct ty; [contradiction|discriminate].
Qed.

(* ---------- the open sequence ---------- *)
Definition the_root (fr : fresh) : bytes := match f_cfg_root fr with [] => f_root fr | r => r end.

Definition ids_ok (fr : fresh) : Prop :=
  fresh_ok fr /\ f_root fr <> str_none /\ f_admin fr <> str_none /\
  match f_cfg_root fr with [] => True | r => r <> str_none end /\ in_range (f_now fr).

Lemma the_root_facts fr : ids_ok fr ->
  the_root fr <> [] /\ the_root fr <> str_root /\ the_root fr <> str_none /\ f_admin fr <> the_root fr /\
  f_admin fr <> str_none /\ f_key fr <> [] /\ in_range (f_now fr).
Proof.
  intros ((H1 & H2 & H3 & H4 & H5 & H6) & N1 & N2 & N3 & N4). unfold the_root. pose proof N4 as [N4a N4b].
  destruct (f_cfg_root fr) as [|c cs]; [repeat split; assumption|].
  destruct H6 as [H6 H7]. repeat split; try assumption. discriminate.
Qed.

Lemma run_txs_app a b d : run_txs (a ++ b) d = run_txs b (run_txs a d).
Proof. unfold run_txs. apply fold_left_app. Qed.

(* before the root exists / once it exists *)
Definition Pre (d : disk) : Prop :=
  exists v key, d_meta d = [mkMeta v [] key] /\ okst (d_store d) /\ s_edges (d_store d) = [] /\ s_root (d_store d) = [].
Definition Post (d : disk) : Prop :=
  exists v r key, d_meta d = [mkMeta v r key] /\ r <> [] /\ found (d_store d) r.

Lemma pre_mig d : Pre d -> forall j, Pre (run_txs (firstn j t_mig_txs) d).
Proof.
  intros (v & key & Hm & Hrest) j. unfold t_mig_txs.
  do 3 (destruct j as [|j]; [cbn [firstn run_txs fold_left]; exists v, key; auto|]).
  cbn [firstn]. rewrite firstn_nil. unfold run_txs. cbn [fold_left]. unfold set_meta. cbn [d_store d_meta]. rewrite Hm. cbn [map m_root m_key].
  exists 4%N, key. auto.
Qed.

Lemma post_mig d : Post d -> forall j, Post (run_txs (firstn j t_mig_txs) d).
Proof.
  intros (v & r & key & Hm & Hrest) j. unfold t_mig_txs.
  do 3 (destruct j as [|j]; [cbn [firstn run_txs fold_left]; exists v, r, key; auto|]).
  cbn [firstn]. rewrite firstn_nil. unfold run_txs. cbn [fold_left]. unfold set_meta. cbn [d_store d_meta]. rewrite Hm. cbn [map m_root m_key].
  exists 4%N, r, key. auto.
Qed.

Lemma root_txs_prefix fr d j : ids_ok fr -> Pre d ->
  let d' := run_txs (firstn j (t_root_txs fr (the_root fr))) d in
  Pre d' \/ (Post d' /\ exists v key, d_meta d' = [mkMeta v (the_root fr) key] /\ True).
Proof.
  intros Hids (v & key & Hm & Hok & Hnil & Hroot). cbv zeta.
  destruct (the_root_facts fr Hids) as (R1 & R2 & R3 & R4 & R5 & R6 & R7).
  set (r := the_root fr) in *.
  set (st1 := wr (d_store d) (NodePts r [])).
  assert (Hok1 : okst st1) by (apply okst_wr; [exact Hok|exact I]).
  assert (Hnil1 : s_edges st1 = []) by (apply wr_np_edges_nil; exact Hnil).
  assert (Hroot1 : s_root st1 = []) by (unfold st1; rewrite wr_np_root; exact Hroot).
  set (st2 := wr st1 (EdgePts r str_root [tpt (f_now fr); ntpt (f_now fr) str_device])).
  destruct (wr_root_edge st1 r (f_now fr) str_device Hok1 Hnil1 R2 ltac:(discriminate) R7) as [Hr2 Hf2]. fold st2 in Hr2, Hf2.
  assert (Hok2 : okst st2) by (apply okst_wr; [exact Hok1|discriminate]).
  set (st3 := wr st2 (NodePts (f_admin fr) [mkPoint [101;109;97;105;108] [] (f_now fr) 0 [97] [] 0%Z []])).
  assert (Hok3 : okst st3) by (apply okst_wr; [exact Hok2|exact I]).
  assert (Hf3 : found st3 r) by (apply wr_np_found; exact Hf2).
  set (st4 := wr st3 (EdgePts (f_admin fr) r [tpt (f_now fr); ntpt (f_now fr) str_user])).
  assert (Hf4 : found st4 r) by (apply wr_ep_found; [exact Hok3|exact R1|exact R4|exact Hf3]).
  unfold t_root_txs.
  destruct j as [|j]; [left; cbn [firstn run_txs fold_left]; exists v, key; auto|].
  destruct j as [|j]; [left; cbn [firstn run_txs fold_left d_meta d_store]; fold st1; exists v, key; auto|].
  (* from the second transaction on the root is on disk *)
  assert (Hmeta2 : (if bytes_eqb (s_root st2) (s_root st1) then [mkMeta v [] key]
                    else map (fun m => mkMeta (m_version m) (s_root st2) (m_key m)) [mkMeta v [] key]) = [mkMeta v r key]).
  { rewrite Hr2, Hroot1. rewrite (bytes_neq_eqb' r [] R1). reflexivity. }
  right.
  destruct j as [|j].
  { cbn [firstn run_txs fold_left d_meta d_store]. fold st1. fold st2. rewrite Hm, Hmeta2.
    split; [exists v, r, key; cbn [d_meta d_store]; auto|exists v, key; auto]. }
  destruct j as [|j].
  { cbn [firstn run_txs fold_left d_meta d_store]. fold st1. fold st2. rewrite Hm, Hmeta2. cbn [d_meta d_store]. fold st3.
    split; [exists v, r, key; cbn [d_meta d_store]; auto|exists v, key; auto]. }
  destruct j as [|j].
  { cbn [firstn run_txs fold_left d_meta d_store]. fold st1. fold st2. rewrite Hm, Hmeta2. cbn [d_meta d_store]. fold st3. fold st4.
    split; [exists v, r, key; cbn [d_meta d_store]; auto|exists v, key; auto]. }
  cbn [firstn]. rewrite firstn_nil. cbn [run_txs fold_left d_meta d_store]. fold st1. fold st2. rewrite Hm, Hmeta2. cbn [d_meta d_store]. fold st3. fold st4.
  unfold set_meta. cbn [d_meta d_store map m_version m_key].
  split; [exists v, r, key; cbn [d_meta d_store]; auto|exists v, key; auto].
Qed.

Lemma post_key d fr : Post d -> forall j,
  Post (run_txs (firstn j [set_meta (fun m => mkMeta (m_version m) (m_root m) (f_key fr))]) d).
Proof.
  intros (v & r & key & Hm & Hrest) j. destruct j as [|j]; [cbn [firstn run_txs fold_left]; exists v, r, key; auto|].
  cbn [firstn]. rewrite firstn_nil. unfold run_txs. cbn [fold_left]. unfold set_meta. cbn [d_store d_meta]. rewrite Hm. cbn [map m_root m_version].
  exists v, r, (f_key fr). auto.
Qed.

Lemma pre_key d fr : Pre d -> forall j,
  Pre (run_txs (firstn j [set_meta (fun m => mkMeta (m_version m) (m_root m) (f_key fr))]) d).
Proof.
  intros (v & key & Hm & Hrest) j. destruct j as [|j]; [cbn [firstn run_txs fold_left]; exists v, key; auto|].
  cbn [firstn]. rewrite firstn_nil. unfold run_txs. cbn [fold_left]. unfold set_meta. cbn [d_store d_meta]. rewrite Hm. cbn [map m_root m_version].
  exists v, (f_key fr). auto.
Qed.

Lemma firstn_all_ge {A} (l : list A) : firstn (length l) l = l.
Proof. apply firstn_all. Qed.

(* a prefix of the transactions after the meta row exists, from a disk without root *)
Lemma rest_prefix_pre fr d k : ids_ok fr -> Pre d ->
  let d' := run_txs (firstn k (rest_script d fr)) d in Pre d' \/ Post d'.
Proof.
  intros Hids HP. cbv zeta. destruct HP as (v & key & Hm & Hrest).
  assert (HP : Pre d) by (exists v, key; auto).
  unfold rest_script, last_meta. rewrite Hm. cbn [rev app m_version m_root m_key].
  fold (the_root fr).
  set (mig := if v <? 4 then t_mig_txs else []).
  set (keytx := match key with [] => [set_meta (fun m => mkMeta (m_version m) (m_root m) (f_key fr))] | _ :: _ => [] end).
  rewrite firstn_app, run_txs_app.
  assert (H1 : Pre (run_txs (firstn k mig) d)).
  { unfold mig. destruct (v <? 4); [apply pre_mig; exact HP|]. rewrite firstn_nil. exact HP. }
  rewrite firstn_app, run_txs_app.
  destruct (root_txs_prefix fr _ (k - length mig) Hids H1) as [H2|[H2 _]].
  - left. unfold keytx. destruct key; [apply pre_key; exact H2|]. rewrite firstn_nil. exact H2.
  - right. unfold keytx. destruct key; [apply post_key; exact H2|]. rewrite firstn_nil. exact H2.
Qed.

Lemma crash_shape fr k : ids_ok fr ->
  let d := open_crash empty_disk fr k in d = empty_disk \/ Pre d \/ Post d.
Proof.
  intros Hids. cbv zeta. unfold open_crash. rewrite open_script_eq. cbn [empty_disk d_meta app].
  destruct k as [|k]; [left; reflexivity|right].
  cbn [firstn]. unfold run_txs. cbn [fold_left d_meta d_store app].
  set (d1 := mkDisk [mkMeta 0 [] []] (mkStore [] [] [] 0)).
  assert (HP : Pre d1).
  { exists 0, []. split; [reflexivity|]. split; [exact okst_st0|]. split; reflexivity. }
  change (rest_script (mkDisk [] (mkStore [] [] [] 0)) fr) with (rest_script d1 fr).
  apply (rest_prefix_pre fr d1 k Hids HP).
Qed.

(* ---------- a complete open ---------- *)
Lemma root_txs_full fr d v key : ids_ok fr ->
  d_meta d = [mkMeta v [] key] -> okst (d_store d) -> s_edges (d_store d) = [] -> s_root (d_store d) = [] ->
  let d' := run_txs (t_root_txs fr (the_root fr)) d in
  d_meta d' = [mkMeta v (the_root fr) key] /\ found (d_store d') (the_root fr).
Proof.
  intros Hids Hm Hok Hnil Hroot. cbv zeta.
  destruct (the_root_facts fr Hids) as (R1 & R2 & R3 & R4 & R5 & R6 & R7).
  set (r := the_root fr) in *.
  set (st1 := wr (d_store d) (NodePts r [])).
  assert (Hok1 : okst st1) by (apply okst_wr; [exact Hok|exact I]).
  assert (Hnil1 : s_edges st1 = []) by (apply wr_np_edges_nil; exact Hnil).
  assert (Hroot1 : s_root st1 = []) by (unfold st1; rewrite wr_np_root; exact Hroot).
  set (st2 := wr st1 (EdgePts r str_root [tpt (f_now fr); ntpt (f_now fr) str_device])).
  destruct (wr_root_edge st1 r (f_now fr) str_device Hok1 Hnil1 R2 ltac:(discriminate) R7) as [Hr2 Hf2]. fold st2 in Hr2, Hf2.
  assert (Hok2 : okst st2) by (apply okst_wr; [exact Hok1|discriminate]).
  set (st3 := wr st2 (NodePts (f_admin fr) [mkPoint [101;109;97;105;108] [] (f_now fr) 0 [97] [] 0%Z []])).
  assert (Hok3 : okst st3) by (apply okst_wr; [exact Hok2|exact I]).
  assert (Hf3 : found st3 r) by (apply wr_np_found; exact Hf2).
  set (st4 := wr st3 (EdgePts (f_admin fr) r [tpt (f_now fr); ntpt (f_now fr) str_user])).
  assert (Hf4 : found st4 r) by (apply wr_ep_found; [exact Hok3|exact R1|exact R4|exact Hf3]).
  assert (Hmeta2 : (if bytes_eqb (s_root st2) (s_root st1) then [mkMeta v [] key]
                    else map (fun m => mkMeta (m_version m) (s_root st2) (m_key m)) [mkMeta v [] key]) = [mkMeta v r key]).
  { rewrite Hr2, Hroot1. rewrite (bytes_neq_eqb' r [] R1). reflexivity. }
  unfold t_root_txs, run_txs. cbn [fold_left d_meta d_store]. fold st1. fold st2. rewrite Hm, Hmeta2. cbn [d_meta d_store]. fold st3. fold st4.
  unfold set_meta. cbn [d_meta d_store map m_version m_key]. split; [reflexivity|exact Hf4].
Qed.

Lemma mig_full d v r key : d_meta d = [mkMeta v r key] ->
  let d' := run_txs t_mig_txs d in d_meta d' = [mkMeta 4 r key] /\ d_store d' = d_store d.
Proof.
  intros Hm. cbv zeta. unfold t_mig_txs, run_txs. cbn [fold_left]. unfold set_meta. cbn [d_meta d_store]. rewrite Hm. split; reflexivity.
Qed.

Lemma key_full d fr v r key : d_meta d = [mkMeta v r key] ->
  let d' := run_txs [set_meta (fun m => mkMeta (m_version m) (m_root m) (f_key fr))] d in
  d_meta d' = [mkMeta v r (f_key fr)] /\ d_store d' = d_store d.
Proof.
  intros Hm. cbv zeta. unfold run_txs. cbn [fold_left]. unfold set_meta. cbn [d_meta d_store]. rewrite Hm. split; reflexivity.
Qed.

(* the goal state of an open *)
Definition Opened (d : disk) : Prop :=
  exists m, d_meta d = [m] /\ m_root m <> [] /\ m_key m <> [] /\ found (d_store d) (m_root m).

(* the tail of every script: migrations when the version is old, then the key when there is none *)
Lemma finish fr d v r key : ids_ok fr -> d_meta d = [mkMeta v r key] -> r <> [] -> found (d_store d) r ->
  Opened (run_txs (match key with [] => [set_meta (fun m => mkMeta (m_version m) (m_root m) (f_key fr))] | _ :: _ => [] end) d).
Proof.
  intros Hids Hm Hr Hf. destruct (the_root_facts fr Hids) as (_ & _ & _ & _ & _ & R6 & _).
  destruct key as [|k0 ks].
  - destruct (key_full d fr v r [] Hm) as [H1 H2]. cbv zeta in H1, H2.
    exists (mkMeta v r (f_key fr)). rewrite H1, H2. cbn [m_root m_key]. auto.
  - unfold run_txs. cbn [fold_left]. exists (mkMeta v r (k0 :: ks)). cbn [m_root m_key]. split; [exact Hm|]. split; [exact Hr|]. split; [discriminate|exact Hf].
Qed.

Lemma open_from_pre fr d : ids_ok fr -> Pre d -> Opened (run_txs (rest_script d fr) d).
Proof.
  intros Hids (v & key & Hm & Hok & Hnil & Hroot).
  unfold rest_script, last_meta. rewrite Hm. cbn [rev app m_version m_root m_key]. fold (the_root fr).
  rewrite !run_txs_app.
  destruct (v <? 4).
  - destruct (mig_full d v [] key Hm) as [M1 M2]. cbv zeta in M1, M2.
    set (d1 := run_txs t_mig_txs d) in *.
    destruct (root_txs_full fr d1 4 key Hids M1) as [T1 T2]; try (rewrite M2; assumption).
    cbv zeta in T1, T2. destruct (the_root_facts fr Hids) as (R1 & _).
    apply (finish fr _ 4 (the_root fr) key Hids T1 R1 T2).
  - change (run_txs [] d) with d.
    destruct (root_txs_full fr d v key Hids Hm Hok Hnil Hroot) as [T1 T2]. cbv zeta in T1, T2.
    destruct (the_root_facts fr Hids) as (R1 & _).
    apply (finish fr _ v (the_root fr) key Hids T1 R1 T2).
Qed.

Lemma open_from_post fr d : ids_ok fr -> Post d -> Opened (run_txs (rest_script d fr) d).
Proof.
  intros Hids (v & r & key & Hm & Hr & Hf).
  unfold rest_script, last_meta. rewrite Hm. cbn [rev app m_version m_root m_key].
  destruct r as [|r0 rs]; [contradiction|]. cbn [app]. rewrite run_txs_app.
  destruct (v <? 4).
  - destruct (mig_full d v (r0 :: rs) key Hm) as [M1 M2]. cbv zeta in M1, M2.
    apply (finish fr _ 4 (r0 :: rs) key Hids M1 Hr ltac:(rewrite M2; exact Hf)).
  - change (run_txs [] d) with d. apply (finish fr d v (r0 :: rs) key Hids Hm Hr Hf).
Qed.

Theorem open_after_crash fr1 fr2 k : ids_ok fr1 -> ids_ok fr2 ->
  Opened (open_db (open_crash empty_disk fr1 k) fr2).
Proof.
  intros H1 H2. destruct (crash_shape fr1 k H1) as [E|[HP|HP]]; cbv zeta in *.
  - rewrite E. unfold open_db. rewrite open_script_eq. cbn [empty_disk d_meta app]. unfold run_txs. cbn [fold_left d_meta d_store app].
    set (d1 := mkDisk [mkMeta 0 [] []] (mkStore [] [] [] 0)).
    change (rest_script (mkDisk [] (mkStore [] [] [] 0)) fr2) with (rest_script d1 fr2).
    apply (open_from_pre fr2 d1 H2). exists 0, []. split; [reflexivity|]. split; [exact okst_st0|]. split; reflexivity.
  - unfold open_db. rewrite open_script_eq. destruct HP as (v & key & Hm & Hrest). rewrite Hm. cbn [app].
    apply open_from_pre; [exact H2|]. exists v, key. auto.
  - unfold open_db. rewrite open_script_eq. destruct HP as (v & r & key & Hm & Hrest). rewrite Hm. cbn [app].
    apply open_from_post; [exact H2|]. exists v, r, key. auto.
Qed.

(* in the terms of Store/Init.v *)
Corollary init_root_found fr1 fr2 k : ids_ok fr1 -> ids_ok fr2 ->
  let d1 := open_db (open_crash empty_disk fr1 k) fr2 in
  root_found d1 = true /\ exists m, d_meta d1 = [m] /\ m_root m <> [] /\ m_key m <> [].
Proof.
  intros H1 H2. cbv zeta. destruct (open_after_crash fr1 fr2 k H1 H2) as (m & Hm & Hr & Hk & Hf).
  split; [apply (found_root_found _ m Hm Hf)|]. exists m. auto.
Qed.
