(* C01: the row lists of a node / an edge under the NextPin merge loop and
   Points.Collapse: what a read returns per identity is the newest delivered
   point (design appendix A.1, on the full point record). *)
From Verif Require Import Base.Bytes Store.Model.
From Coq Require Import Permutation.
Local Open Scope Z_scope.

(* ---------- identities ---------- *)
Definition normp (p : point) : point := with_key p (norm_key (p_key p)).
Definition key_ok (q : point) : Prop := p_key q <> [].
Definition keys_norm (rows : list point) : Prop := Forall key_ok rows.

Lemma norm_key_idem k : norm_key (norm_key k) = norm_key k.
Proof. destruct k; reflexivity. Qed.
Lemma norm_key_ok k : k <> [] -> norm_key k = k.
Proof. destruct k; [contradiction|reflexivity]. Qed.
Lemma norm_key_nonempty k : norm_key k <> [].
Proof. destruct k; discriminate. Qed.
Lemma normp_idem p : normp (normp p) = normp p.
Proof. unfold normp, with_key. cbn. rewrite norm_key_idem. reflexivity. Qed.
Lemma normp_key_ok p : key_ok (normp p).
Proof. unfold key_ok, normp. cbn. apply norm_key_nonempty. Qed.
Lemma normp_id q : key_ok q -> normp q = q.
Proof. unfold key_ok, normp, with_key. intros H. rewrite norm_key_ok by exact H. destruct q; reflexivity. Qed.

(* an identity: type and (normalised) key *)
Definition is_id (t k : bytes) (q : point) : bool := ident_eqb (p_type q) (p_key q) t k.

Lemma bytes_eqb_sym a b : bytes_eqb a b = bytes_eqb b a.
Proof.
  destruct (bytes_eqb a b) eqn:E1, (bytes_eqb b a) eqn:E2; try reflexivity.
  - apply bytes_eqb_eq in E1. subst. rewrite bytes_eqb_refl in E2. discriminate.
  - apply bytes_eqb_eq in E2. subst. rewrite bytes_eqb_refl in E1. discriminate.
Qed.

Lemma ident_eqb_refl t k : ident_eqb t k t k = true.
Proof. unfold ident_eqb. rewrite !bytes_eqb_refl. reflexivity. Qed.

Lemma ident_eqb_true t1 k1 t2 k2 : ident_eqb t1 k1 t2 k2 = true <-> t1 = t2 /\ norm_key k1 = norm_key k2.
Proof. unfold ident_eqb. rewrite andb_true_iff, !bytes_eqb_eq. tauto. Qed.

Lemma same_ident_is_id q p t k : same_ident q p = true -> is_id t k q = is_id t k p.
Proof.
  unfold same_ident, is_id. intros H. apply ident_eqb_true in H as [Ht Hk].
  unfold ident_eqb. rewrite Ht, Hk. reflexivity.
Qed.

Lemma is_id_normp t k p : is_id t k (normp p) = is_id t k p.
Proof. unfold is_id, normp, ident_eqb. cbn. rewrite norm_key_idem. reflexivity. Qed.

Lemma same_ident_normp_r q p : same_ident q (normp p) = same_ident q p.
Proof. unfold same_ident, normp, ident_eqb. cbn. rewrite norm_key_idem. reflexivity. Qed.
Lemma same_ident_normp_l q p : same_ident (normp q) p = same_ident q p.
Proof. unfold same_ident, normp, ident_eqb. cbn. rewrite norm_key_idem. reflexivity. Qed.

(* ---------- the one-point step (specification side) ---------- *)
Notation ins := newest_ins.

Lemma newest_step_ins acc p : newest_step acc p = ins acc (normp p).
Proof. reflexivity. Qed.

Lemma collapse_ins_ins acc p : collapse_ins acc p = ins acc p.
Proof. induction acc as [|q acc IH]; cbn; [reflexivity|]. rewrite IH. reflexivity. Qed.

Definition lookup (rows : list point) (t k : bytes) : option point := find (is_id t k) rows.

Definition newer (acc : option point) (p : point) : option point :=
  match acc with
  | None => Some p
  | Some q => if p_time q <=? p_time p then Some p else Some q
  end.

Lemma lookup_cons q rows t k : lookup (q :: rows) t k = if is_id t k q then Some q else lookup rows t k.
Proof. reflexivity. Qed.

Lemma lookup_ins_same acc p t k : is_id t k p = true -> lookup (ins acc p) t k = newer (lookup acc t k) p.
Proof.
  intros Hp. induction acc as [|q acc IH]; cbn [newest_ins].
  - rewrite lookup_cons, Hp. reflexivity.
  - destruct (same_ident q p) eqn:E.
    + pose proof (same_ident_is_id _ _ t k E) as Hq. rewrite Hp in Hq.
      rewrite (lookup_cons q), Hq. cbn [newer].
      destruct (p_time q <=? p_time p); rewrite lookup_cons; [rewrite Hp|rewrite Hq]; reflexivity.
    + rewrite !lookup_cons. destruct (is_id t k q) eqn:Eq; [|exact IH].
      exfalso. unfold is_id in *. apply ident_eqb_true in Eq as [E1 E2]. apply ident_eqb_true in Hp as [E3 E4].
      assert (same_ident q p = true) by (unfold same_ident; apply ident_eqb_true; split; congruence). congruence.
Qed.

Lemma lookup_ins_other acc p t k : is_id t k p = false -> lookup (ins acc p) t k = lookup acc t k.
Proof.
  intros Hp. induction acc as [|q acc IH]; cbn [newest_ins].
  - rewrite lookup_cons, Hp. reflexivity.
  - destruct (same_ident q p) eqn:E.
    + pose proof (same_ident_is_id _ _ t k E) as Hq. rewrite Hp in Hq.
      destruct (p_time q <=? p_time p); rewrite !lookup_cons; [rewrite Hp|]; rewrite Hq; reflexivity.
    + rewrite !lookup_cons. destruct (is_id t k q); [reflexivity|exact IH].
Qed.

Definition sel (t k : bytes) (ps : list point) : list point := filter (is_id t k) ps.

Theorem lookup_fold_ins ps : forall acc t k,
  lookup (fold_left ins ps acc) t k = fold_left newer (sel t k ps) (lookup acc t k).
Proof.
  induction ps as [|p ps IH]; intros acc t k; cbn [fold_left sel filter]; [reflexivity|].
  rewrite IH. fold (sel t k ps). destruct (is_id t k p) eqn:E; cbn [fold_left].
  - rewrite lookup_ins_same by exact E. reflexivity.
  - rewrite lookup_ins_other by exact E. reflexivity.
Qed.

(* ---------- one row per identity ---------- *)
Fixpoint nodup_rows (rows : list point) : Prop :=
  match rows with
  | [] => True
  | q :: rows' => (forall r, In r rows' -> same_ident q r = false) /\ nodup_rows rows'
  end.

Lemma same_ident_sym p q : same_ident p q = same_ident q p.
Proof. unfold same_ident, ident_eqb. rewrite (bytes_eqb_sym (p_type p)), (bytes_eqb_sym (norm_key (p_key p))). reflexivity. Qed.

Lemma same_ident_trans p q r : same_ident p q = true -> same_ident q r = true -> same_ident p r = true.
Proof.
  unfold same_ident. rewrite !ident_eqb_true. intros [A B] [C D]. split; congruence.
Qed.

Lemma in_ins r acc p : In r (ins acc p) -> r = p \/ In r acc.
Proof.
  induction acc as [|q acc IH]; cbn.
  - intros [<-|[]]. left. reflexivity.
  - destruct (same_ident q p).
    + destruct (p_time q <=? p_time p); cbn; intros [<-|H]; auto.
    + cbn. intros [<-|H]; auto. destruct (IH H); auto.
Qed.

Lemma nodup_ins acc p : nodup_rows acc -> nodup_rows (ins acc p).
Proof.
  induction acc as [|q acc IH]; cbn; intros H.
  - split; [intros r []|exact I].
  - destruct H as [Hq Hacc]. destruct (same_ident q p) eqn:E.
    + destruct (p_time q <=? p_time p); cbn; [|split; assumption].
      split; [|exact Hacc]. intros r Hr. specialize (Hq r Hr).
      destruct (same_ident p r) eqn:E2; [|reflexivity].
      rewrite (same_ident_trans q p r E E2) in Hq. discriminate.
    + cbn. split; [|apply IH; exact Hacc].
      intros r Hr. apply in_ins in Hr as [->|Hr]; [exact E|apply Hq; exact Hr].
Qed.

Lemma nodup_fold_ins ps : forall acc, nodup_rows acc -> nodup_rows (fold_left ins ps acc).
Proof. induction ps as [|p ps IH]; intros acc H; cbn; [exact H|]. apply IH, nodup_ins, H. Qed.

Lemma keys_norm_ins acc p : keys_norm acc -> key_ok p -> keys_norm (ins acc p).
Proof.
  unfold keys_norm. induction acc as [|q acc IH]; cbn; intros H Hp.
  - constructor; [exact Hp|constructor].
  - inversion H; subst. destruct (same_ident q p).
    + destruct (p_time q <=? p_time p); constructor; assumption.
    + constructor; [assumption|apply IH; assumption].
Qed.

(* ---------- merge1 / merge_batch are [ins] on normalised points ---------- *)
Lemma merge1_ins db p : keys_norm db -> key_ok p -> fst (merge1 db p) = ins db p.
Proof.
  unfold keys_norm. induction db as [|q db IH]; intros H Hp; [reflexivity|].
  inversion H as [|? ? Hq Hdb]; subst.
  cbn [merge1 newest_ins].
  assert (E : bytes_eqb (p_type q) (p_type p) && bytes_eqb (p_key q) (p_key p) = same_ident q p).
  { unfold same_ident, ident_eqb. rewrite (norm_key_ok _ Hq), (norm_key_ok _ Hp). reflexivity. }
  rewrite E. destruct (same_ident q p).
  - destruct (p_time q <=? p_time p); reflexivity.
  - specialize (IH Hdb Hp). destruct (merge1 db p) as [r d]. cbn [fst] in *. rewrite IH. reflexivity.
Qed.

Definition not_nt (p : point) : bool := negb (bytes_eqb (p_type p) str_nodeType).

Lemma merge_batch_rows skip ps : forall db d, keys_norm db ->
  fst (fold_left (fun '(db, d) p =>
               if skip && bytes_eqb (p_type p) str_nodeType then (db, d)
               else let '(db', d') := merge1 db (with_key p (norm_key (p_key p))) in (db', N.lxor d d'))
            ps (db, d))
  = fold_left ins (map normp (if skip then filter not_nt ps else ps)) db.
Proof.
  induction ps as [|p ps IH]; intros db d H; [destruct skip; reflexivity|].
  cbn [fold_left]. destruct (skip && bytes_eqb (p_type p) str_nodeType) eqn:E.
  - rewrite IH by exact H. apply andb_prop in E as [-> E]. cbn [filter]. unfold not_nt at 2. rewrite E. reflexivity.
  - fold (normp p). destruct (merge1 db (normp p)) as [db' d'] eqn:E1.
    assert (db' = ins db (normp p)) as -> by (rewrite <- merge1_ins by (auto using normp_key_ok); rewrite E1; reflexivity).
    rewrite IH by (apply keys_norm_ins; auto using normp_key_ok).
    destruct skip; cbn [andb] in E.
    + cbn [filter]. unfold not_nt at 2. rewrite E. reflexivity.
    + reflexivity.
Qed.

Lemma merge_batch_ins skip db ps : keys_norm db ->
  fst (merge_batch skip db ps) = fold_left ins (map normp (if skip then filter not_nt ps else ps)) db.
Proof. intros H. unfold merge_batch. apply merge_batch_rows. exact H. Qed.

Lemma keys_norm_fold ps : forall db, keys_norm db -> keys_norm (fold_left ins (map normp ps) db).
Proof.
  induction ps as [|p ps IH]; intros db H; cbn; [exact H|]. apply IH, keys_norm_ins; auto using normp_key_ok.
Qed.

(* ---------- Collapse does not change what is read ---------- *)
Definition pmax (q p : point) : point := if p_time q <=? p_time p then p else q.

Lemma pmax_assoc q p w : pmax (pmax q p) w = pmax q (pmax p w).
Proof.
  unfold pmax.
  destruct (p_time q <=? p_time p) eqn:E1, (p_time p <=? p_time w) eqn:E2; rewrite ?E1, ?E2; try reflexivity.
  - assert (p_time q <=? p_time w = true) as -> by lia. reflexivity.
  - assert (p_time q <=? p_time w = false) as -> by lia. reflexivity.
Qed.

Lemma newer_some q p : newer (Some q) p = Some (pmax q p).
Proof. unfold pmax. cbn. destruct (p_time q <=? p_time p); reflexivity. Qed.

Lemma newer_newer a p w : newer (newer a p) w = newer a (pmax p w).
Proof.
  destruct a as [q|].
  - rewrite !newer_some, pmax_assoc. reflexivity.
  - change (newer None p) with (Some p). rewrite newer_some. reflexivity.
Qed.

Lemma fold_newer_absorb l : forall a,
  fold_left newer l a = match fold_left newer l None with
                        | None => a
                        | Some w => newer a w
                        end.
Proof.
  induction l as [|p l IH]; intros a; cbn [fold_left]; [reflexivity|].
  rewrite (IH (newer a p)). change (newer None p) with (Some p). rewrite (IH (Some p)).
  destruct (fold_left newer l None) as [w|]; [|reflexivity].
  rewrite newer_newer, newer_some. reflexivity.
Qed.

(* in a list with one row per identity, the points of identity i are exactly its lookup *)
Lemma sel_none rows t k : (forall r, In r rows -> is_id t k r = false) -> sel t k rows = [].
Proof.
  induction rows as [|q rows IH]; intros H; [reflexivity|]. cbn [sel filter].
  rewrite (H q) by (left; reflexivity). apply IH. intros r Hr. apply H. right. exact Hr.
Qed.

Lemma is_id_same q r t k : is_id t k q = true -> is_id t k r = true -> same_ident q r = true.
Proof.
  unfold is_id, same_ident. rewrite !ident_eqb_true. intros [A B] [C D]. split; congruence.
Qed.

Lemma sel_nodup rows t k : nodup_rows rows ->
  sel t k rows = match lookup rows t k with Some w => [w] | None => [] end.
Proof.
  induction rows as [|q rows IH]; intros H; [reflexivity|]. destruct H as [Hq Hr].
  rewrite lookup_cons. cbn [sel filter]. fold (sel t k rows).
  destruct (is_id t k q) eqn:E.
  - rewrite sel_none; [reflexivity|]. intros r Hin.
    destruct (is_id t k r) eqn:E2; [|reflexivity].
    specialize (Hq r Hin). rewrite (is_id_same q r t k E E2) in Hq. discriminate.
  - apply IH. exact Hr.
Qed.

Theorem collapse_invisible b db t k :
  lookup (fold_left ins (map normp (collapse b)) db) t k = lookup (fold_left ins (map normp b) db) t k.
Proof.
  destruct b as [|p1 [|p2 b]]; try reflexivity.
  unfold collapse. set (l := p1 :: p2 :: b).
  (* the collapsed list, normalised, is the fold of ins over the normalised batch *)
  assert (HW : forall acc l, map normp (fold_left collapse_ins l acc) = fold_left ins (map normp l) (map normp acc)).
  { clear. intros acc l. revert acc. induction l as [|p l IH]; intros acc; cbn [fold_left map]; [reflexivity|].
    rewrite IH. f_equal. rewrite collapse_ins_ins.
    induction acc as [|q acc IHa]; cbn; [reflexivity|].
    rewrite same_ident_normp_l, same_ident_normp_r.
    destruct (same_ident q p); [destruct (p_time q <=? p_time p); reflexivity|]. cbn. rewrite IHa. reflexivity. }
  rewrite (HW [] l). cbn [map].
  set (W := fold_left ins (map normp l) []).
  rewrite !lookup_fold_ins.
  assert (ND : nodup_rows W) by (apply nodup_fold_ins; exact I).
  rewrite (sel_nodup W t k ND).
  unfold W at 1. rewrite lookup_fold_ins. cbn [lookup find].
  rewrite (fold_newer_absorb (sel t k (map normp l)) (lookup db t k)).
  destruct (fold_left newer (sel t k (map normp l)) None) as [w|]; reflexivity.
Qed.

(* ---------- what one batch does to the rows of its target ---------- *)
Definition batch_rows (skip : bool) (db : list point) (pts : list point) : list point :=
  fst (merge_batch skip db (collapse pts)).

Lemma fold_collapse_any pts t k a :
  fold_left newer (sel t k (map normp (collapse pts))) a = fold_left newer (sel t k (map normp pts)) a.
Proof.
  pose proof (collapse_invisible pts [] t k) as C. rewrite !lookup_fold_ins in C. cbn [lookup find] in C.
  rewrite (fold_newer_absorb _ a), (fold_newer_absorb (sel t k (map normp pts)) a), C. reflexivity.
Qed.

Lemma sel_cons t k p l : sel t k (p :: l) = if is_id t k p then p :: sel t k l else sel t k l.
Proof. reflexivity. Qed.

Lemma sel_filter_nt t k l :
  sel t k (map normp (filter not_nt l)) = if bytes_eqb t str_nodeType then [] else sel t k (map normp l).
Proof.
  induction l as [|p l IH]; [destruct (bytes_eqb t str_nodeType); reflexivity|].
  assert (Ht : is_id t k (normp p) = true -> p_type p = t).
  { rewrite is_id_normp. unfold is_id. intros E. apply ident_eqb_true in E as [E _]. exact E. }
  cbn [filter map]. rewrite sel_cons. unfold not_nt at 1.
  destruct (bytes_eqb (p_type p) str_nodeType) eqn:E; cbn [negb].
  - rewrite IH. destruct (is_id t k (normp p)) eqn:E2; [|reflexivity].
    rewrite <- (Ht eq_refl), E. reflexivity.
  - cbn [map]. rewrite sel_cons, IH.
    destruct (is_id t k (normp p)) eqn:E2; [|reflexivity].
    rewrite <- (Ht eq_refl), E. reflexivity.
Qed.

(* the points of a batch that are stored: edge batches drop node type points *)
Definition eff (skip : bool) (pts : list point) : list point := if skip then filter not_nt pts else pts.

Theorem batch_rows_lookup skip db pts t k : keys_norm db ->
  lookup (batch_rows skip db pts) t k = fold_left newer (sel t k (map normp (eff skip pts))) (lookup db t k).
Proof.
  intros H. unfold batch_rows. rewrite merge_batch_ins by exact H. rewrite lookup_fold_ins.
  unfold eff. destruct skip.
  - rewrite !sel_filter_nt. destruct (bytes_eqb t str_nodeType); [reflexivity|]. apply fold_collapse_any.
  - apply fold_collapse_any.
Qed.

Lemma batch_rows_keys skip db pts : keys_norm db -> keys_norm (batch_rows skip db pts).
Proof. intros H. unfold batch_rows. rewrite merge_batch_ins by exact H. apply keys_norm_fold. exact H. Qed.

Lemma batch_rows_nodup skip db pts : keys_norm db -> nodup_rows db -> nodup_rows (batch_rows skip db pts).
Proof. intros H ND. unfold batch_rows. rewrite merge_batch_ins by exact H. apply nodup_fold_ins. exact ND. Qed.

(* ---------- the fold of [newer] is THE newest point when times are distinct ---------- *)
Definition is_max (l : list point) (m : point) := In m l /\ forall q, In q l -> p_time q <= p_time m.

Lemma fold_newer_max l : forall a,
  match fold_left newer l (Some a) with
  | Some m => is_max (a :: l) m
  | None => False
  end.
Proof.
  induction l as [|p l IH]; intros a; cbn.
  - split; [left; reflexivity|]. intros q [<-|[]]. lia.
  - destruct (p_time a <=? p_time p) eqn:E.
    + specialize (IH p). destruct (fold_left newer l (Some p)) as [m|]; [|exact IH].
      destruct IH as [Hin Hmax]. split.
      * right. exact Hin.
      * intros q [<-|Hq]; [|apply Hmax; exact Hq].
        assert (p_time p <= p_time m) by (apply Hmax; left; reflexivity). lia.
    + specialize (IH a). destruct (fold_left newer l (Some a)) as [m|]; [|exact IH].
      destruct IH as [Hin Hmax]. split.
      * destruct Hin as [<-|Hin]; [left; reflexivity|right; right; exact Hin].
      * intros q [<-|[<-|Hq]]; [apply Hmax; left; reflexivity| |apply Hmax; right; exact Hq].
        assert (p_time a <= p_time m) by (apply Hmax; left; reflexivity). lia.
Qed.

Definition distinct_times (l : list point) := NoDup (map p_time l).

Lemma max_unique l m1 m2 : distinct_times l -> is_max l m1 -> is_max l m2 -> m1 = m2.
Proof.
  intros ND [H1 M1] [H2 M2].
  assert (p_time m1 = p_time m2) by (specialize (M1 _ H2); specialize (M2 _ H1); lia).
  clear M1 M2. unfold distinct_times in ND.
  induction l as [|a l IH]; [destruct H1|].
  cbn in ND. inversion ND as [|? ? Hn ND']; subst.
  destruct H1 as [<-|H1], H2 as [<-|H2]; auto.
  - exfalso. apply Hn. rewrite H. apply in_map. exact H2.
  - exfalso. apply Hn. rewrite <- H. apply in_map. exact H1.
Qed.

(* with distinct times per identity the newest point is the same for every order of delivery *)
Theorem newest_perm l l' :
  Permutation l l' -> distinct_times l -> fold_left newer l None = fold_left newer l' None.
Proof.
  intros HP HD.
  destruct l as [|a l].
  - apply Permutation_nil in HP. subst. reflexivity.
  - destruct l' as [|a' l']; [apply Permutation_sym, Permutation_nil in HP; discriminate|].
    cbn [fold_left newer].
    pose proof (fold_newer_max l a) as M1. pose proof (fold_newer_max l' a') as M2.
    destruct (fold_left newer l (Some a)) as [m1|]; [|contradiction].
    destruct (fold_left newer l' (Some a')) as [m2|]; [|contradiction].
    f_equal. apply (max_unique (a :: l)); [exact HD|exact M1|].
    destruct M2 as [Hin Hmax]. split.
    + eapply Permutation_in; [apply Permutation_sym; exact HP|exact Hin].
    + intros q Hq. apply Hmax. eapply Permutation_in; [exact HP|exact Hq].
Qed.

Lemma sel_perm t k l l' : Permutation l l' -> Permutation (sel t k l) (sel t k l').
Proof.
  unfold sel. induction 1; cbn.
  - constructor.
  - destruct (is_id t k x); [constructor|]; assumption.
  - destruct (is_id t k x), (is_id t k y); try apply Permutation_refl; constructor.
  - eapply Permutation_trans; eassumption.
Qed.
