(* Store core: cases handed over by the harness (a script of write requests
   against one instance, with reply, rebroadcast messages and a full dump
   after every request) and the per-property case checkers C01, C03, C05, C06.
   Correspondence (shared): the model replayed from the initial dump reproduces
   every reply, every published subject and payload and every dump.
   Specifications: evaluated on the observed dumps only. *)
From Verif Require Import Base.Bytes Base.Val Store.Model.
Local Open Scope N_scope.

Record step := mkStep {
  t_op : op;
  t_reply : N;                              (* 0 ok, 1 error, 2 no reply / instance died *)
  t_pubs : list (bytes * list point);       (* subject, payload; sorted by subject by the harness *)
  t_root : bytes;                           (* root id after the request *)
  t_dump : list edge_view }.                (* every edge into every known node, sorted like [project] *)

Record case := mkCase { c_root : bytes; c_init : list edge_view; c_steps : list step;
                        c_verify : N (* mismatches logged by admin.storeVerify at the end *) }.

(* ---------- decoding ---------- *)
Definition point_of_val (v : val) : option point :=
  match v with
  | VL [ty; k; t; x; tx; d; tb; o] =>
      ty <- get_b ty ;; k <- get_b k ;; t <- get_z t ;; x <- get_n x ;; tx <- get_b tx ;;
      d <- get_b d ;; tb <- get_z tb ;; o <- get_b o ;;
      Some (mkPoint ty k t x tx d tb o)
  | _ => None
  end.
Definition points_of_val := get_list point_of_val.

Definition view_of_val (v : val) : option edge_view :=
  match v with
  | VL [u; d; ty; h; ep; np] =>
      u <- get_b u ;; d <- get_b d ;; ty <- get_b ty ;; h <- get_n h ;;
      ep <- points_of_val ep ;; np <- points_of_val np ;;
      Some (mkView u d ty h (sort_points ep) (sort_points np))
  | _ => None
  end.
Definition views_of_val (v : val) : option (list edge_view) :=
  vs <- get_list view_of_val v ;; Some (sort_by view_leb vs).

Definition op_of_val (v : val) : option op :=
  match v with
  | VL [VN 0; id; pts] => id <- get_b id ;; pts <- points_of_val pts ;; Some (NodePts id pts)
  | VL [VN 1; id; par; pts] => id <- get_b id ;; par <- get_b par ;; pts <- points_of_val pts ;; Some (EdgePts id par pts)
  | _ => None
  end.

Definition pub_of_val (v : val) : option (bytes * list point) :=
  match v with
  | VL [s; pts] => s <- get_b s ;; pts <- points_of_val pts ;; Some (s, pts)
  | _ => None
  end.

Definition step_of_val (v : val) : option step :=
  match v with
  | VL [o; r; pubs; root; dump] =>
      o <- op_of_val o ;; r <- get_n r ;; pubs <- get_list pub_of_val pubs ;;
      root <- get_b root ;; dump <- views_of_val dump ;;
      Some (mkStep o r pubs root dump)
  | _ => None
  end.

Definition case_of_val (v : val) : option case :=
  match v with
  | VL [root; init; steps; vf] =>
      root <- get_b root ;; init <- views_of_val init ;; steps <- get_list step_of_val steps ;; vf <- get_n vf ;;
      Some (mkCase root init steps vf)
  | _ => None
  end.

(* ---------- correspondence ---------- *)
Definition dot : N := 46.
Definition str_up : bytes := [117; 112].
Definition subject (o : op) (a : bytes) : bytes :=
  match o with
  | NodePts id _ => str_up ++ [dot] ++ a ++ [dot] ++ id
  | EdgePts id par _ => str_up ++ [dot] ++ a ++ [dot] ++ id ++ [dot] ++ par
  end.
Definition op_points (o : op) : list point := match o with NodePts _ p => p | EdgePts _ _ p => p end.

Definition pub_eqb (a b : bytes * list point) : bool := bytes_eqb (fst a) (fst b) && points_eqb (snd a) (snd b).

Definition model_pubs (o : op) (ids : list bytes) : list (bytes * list point) :=
  map (fun s => (s, op_points o)) (sort_by bytes_leb (map (subject o) ids)).

Fixpoint corr_steps (st : store) (steps : list step) : bool :=
  match steps with
  | [] => true
  | t :: steps' =>
      let '(st', reply, ids) := handle st (t_op t) in
      (reply =? t_reply t) &&
      list_eqb pub_eqb (model_pubs (t_op t) ids) (t_pubs t) &&
      bytes_eqb (s_root st') (t_root t) &&
      views_eqb (project st') (t_dump t) &&
      corr_steps st' steps'
  end.

Definition corr_case (c : case) : bool := corr_steps (store_of_views (c_root c) (c_init c)) (c_steps c).

(* ---------- C03 ---------- *)
Definition answered (c : case) : bool := forallb (fun t => negb (t_reply t =? 2)) (c_steps c).

Definition spec_c03 (c : case) : bool :=
  answered c && spec_hashes_ok (c_init c) && forallb (fun t => spec_hashes_ok (t_dump t)) (c_steps c) &&
  (c_verify c =? 0).

(* propagation clause: an accepted write that changes the content of a node (or of an existing edge)
   changes the hash of that placement and of every ancestor edge.  Evaluated separately: the XOR
   definition itself cancels a change below an even number of paths (known finding), so a failure
   of this clause alone is reported with its own code *)
Definition find_view (vs : list edge_view) (up down : bytes) : option edge_view :=
  find (fun v => bytes_eqb (v_up v) up && bytes_eqb (v_down v) down) vs.

Definition hash_changed (before after : list edge_view) (v : edge_view) : bool :=
  match find_view before (v_up v) (v_down v) with
  | Some b => negb (v_hash b =? v_hash v)
  | None => true
  end.

(* the clause is about the fields a point's checksum covers (time, type, key, text, value): a change of the tombstone
   counter, the data payload or the origin alone need not show in any hash *)
Definition strip_uncovered (p : point) : point :=
  mkPoint (p_type p) (p_key p) (p_time p) (p_val p) (p_text p) [] 0%Z [].
Definition covered_eqb (a b : list point) : bool := points_eqb (map strip_uncovered a) (map strip_uncovered b).

Definition prop_step (before : list edge_view) (t : step) : bool :=
  if negb (t_reply t =? 0) then true else
  let after := t_dump t in
  match t_op t with
  | NodePts id _ =>
      let changed := existsb (fun v => bytes_eqb (v_down v) id &&
                                       match find_view before (v_up v) (v_down v) with
                                       | Some b => negb (covered_eqb (v_npts b) (v_npts v))
                                       | None => false end) after in
      if changed then
        let anc := ancestors after false id in
        forallb (fun v => if mem_bytes (v_down v) anc then hash_changed before after v else true) after
      else true
  | EdgePts id par _ =>
      match find_view before par id, find_view after par id with
      | Some b, Some a =>
          if covered_eqb (v_epts b) (v_epts a) then true
          else
            let anc := ancestors after false par in
            negb (v_hash b =? v_hash a) &&
            forallb (fun v => if mem_bytes (v_down v) anc then hash_changed before after v else true) after
      | _, _ => true
      end
  end.

Fixpoint prop_steps (before : list edge_view) (steps : list step) : bool :=
  match steps with
  | [] => true
  | t :: steps' => prop_step before t && prop_steps (t_dump t) steps'
  end.
Definition spec_c03_prop (c : case) : bool := prop_steps (c_init c) (c_steps c).

(* ---------- C01 ---------- *)
Definition not_node_type (p : point) : bool := negb (bytes_eqb (p_type p) str_nodeType).
Definition delivered_node (steps : list step) (id : bytes) : list point :=
  flat_map (fun t => match t_op t with
                     | NodePts i pts => if (t_reply t =? 0) && bytes_eqb i id then pts else []
                     | _ => []
                     end) steps.
Definition delivered_edge (steps : list step) (up down : bytes) : list point :=
  flat_map (fun t => match t_op t with
                     | EdgePts i par pts => if (t_reply t =? 0) && bytes_eqb i down && bytes_eqb par up
                                            then filter not_node_type pts else []
                     | _ => []
                     end) steps.
Definition init_npts (init : list edge_view) (id : bytes) : list point :=
  match find (fun v => bytes_eqb (v_down v) id) init with Some v => v_npts v | None => [] end.
Definition init_epts (init : list edge_view) (up down : bytes) : list point :=
  match find (fun v => bytes_eqb (v_down v) down && bytes_eqb (v_up v) up) init with Some v => v_epts v | None => [] end.

Fixpoint last_dump (init : list edge_view) (steps : list step) : list edge_view :=
  match steps with
  | [] => init
  | t :: steps' => last_dump (t_dump t) steps'
  end.

Definition spec_c01 (c : case) : bool :=
  answered c && forallb (fun v =>
    points_eqb (v_npts v) (newest (init_npts (c_init c) (v_down v)) (delivered_node (c_steps c) (v_down v))) &&
    points_eqb (v_epts v) (newest (init_epts (c_init c) (v_up v) (v_down v)) (delivered_edge (c_steps c) (v_up v) (v_down v))) &&
    nodup_idents (v_npts v) && nodup_idents (v_epts v))
  (last_dump (c_init c) (c_steps c)).

(* ---------- C05 ---------- *)
Definition has_edge (vs : list edge_view) (up down : bytes) : bool :=
  existsb (fun v => bytes_eqb (v_up v) up && bytes_eqb (v_down v) down) vs.

(* must this request be refused, given the dump and root before it? *)
Definition must_refuse (vs : list edge_view) (root : bytes) (o : op) : bool :=
  match o with
  | NodePts _ pts => has_nan pts
  | EdgePts id par pts =>
      has_nan pts
      || bytes_eqb id par
      || (bytes_eqb id root && bytes_eqb par str_root &&
          existsb (fun p => bytes_eqb (p_type p) str_tombstone && f64_gt0 (p_val p)) pts)
      || (negb (has_edge vs par id) &&
          (mem_bytes id (ancestors vs false par)
           || negb (existsb (fun p => bytes_eqb (p_type p) str_nodeType && negb (bytes_eqb (p_text p) [])) pts)))
  end.

(* "leaves no trace ... and the instance keeps answering": a node-point request identical to one that was
   accepted earlier in the history is accepted again (re-sending is harmless by C01), whatever was refused
   in between *)
Definition np_eqb (a b : op) : bool :=
  match a, b with
  | NodePts i ps, NodePts j qs => bytes_eqb i j && points_eqb ps qs
  | _, _ => false
  end.

Fixpoint spec_c05_steps (vs : list edge_view) (root : bytes) (acc : list op) (steps : list step) : bool :=
  match steps with
  | [] => true
  | t :: steps' =>
      negb (t_reply t =? 2) &&
      (if must_refuse vs root (t_op t) then t_reply t =? 1 else true) &&
      (if t_reply t =? 0 then true
       else views_eqb vs (t_dump t) && bytes_eqb root (t_root t) && match t_pubs t with [] => true | _ => false end &&
            negb (existsb (np_eqb (t_op t)) acc)) &&
      spec_c05_steps (t_dump t) (t_root t) (if t_reply t =? 0 then t_op t :: acc else acc) steps'
  end.
Definition spec_c05 (c : case) : bool := spec_c05_steps (c_init c) (c_root c) [] (c_steps c).

(* ---------- C06 ---------- *)
Definition spec_c06_step (t : step) : bool :=
  if t_reply t =? 0 then
    let live_only := match t_op t with NodePts _ _ => true | EdgePts _ _ _ => false end in
    let id := match t_op t with NodePts i _ => i | EdgePts i _ _ => i end in
    let want := map (subject (t_op t)) (ancestors (t_dump t) live_only id) in
    same_set want (map fst (t_pubs t)) &&
    forallb (fun sp => points_eqb (snd sp) (op_points (t_op t))) (t_pubs t)
  else match t_pubs t with [] => true | _ => false end.
Definition spec_c06 (c : case) : bool := answered c && forallb spec_c06_step (c_steps c).

(* ---------- checkers ---------- *)
Definition check_c01 := check_with case_of_val (fun c => code (corr_case c) (spec_c01 c)).
Definition check_c03 := check_with case_of_val (fun c => (code (corr_case c) (spec_c03 c) + (if spec_c03_prop c then 0 else 4))%N).
Definition check_c05 := check_with case_of_val (fun c => code (corr_case c) (spec_c05 c)).
Definition check_c06 := check_with case_of_val (fun c => code (corr_case c) (spec_c06 c)).
