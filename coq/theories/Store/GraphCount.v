(* Graph theory shared by C03, C05, C06, C09: the per-path visit count of the upward
   recursion over a DAG given as an edge list (design appendix A.2), generic in the type
   of node identifiers. *)
From Coq Require Import List NArith Bool Lia Arith.
Import ListNotations.

Definition sum {A} (f : A -> nat) (l : list A) : nat := list_sum (map f l).

Lemma sum_nil {A} (f : A -> nat) : sum f [] = 0. Proof. reflexivity. Qed.
Lemma sum_cons {A} (f : A -> nat) a l : sum f (a :: l) = f a + sum f l. Proof. reflexivity. Qed.
Lemma sum_app {A} (f : A -> nat) l1 l2 : sum f (l1 ++ l2) = sum f l1 + sum f l2.
Proof. unfold sum. rewrite map_app, list_sum_app. reflexivity. Qed.
Lemma sum_plus {A} (f g : A -> nat) l : sum (fun a => f a + g a) l = sum f l + sum g l.
Proof. induction l as [|a l IH]; [reflexivity|]. rewrite !sum_cons, IH. lia. Qed.
Lemma sum_ext {A} (f g : A -> nat) l : (forall a, In a l -> f a = g a) -> sum f l = sum g l.
Proof. induction l as [|a l IH]; intros H; [reflexivity|]. rewrite !sum_cons, IH, (H a); auto using in_eq, in_cons. Qed.
Lemma sum_zero {A} (l : list A) : sum (fun _ => 0) l = 0.
Proof. induction l; [reflexivity|]. rewrite sum_cons; lia. Qed.
Lemma sum_swap {A B} (g : A -> B -> nat) la lb :
  sum (fun a => sum (fun b => g a b) lb) la = sum (fun b => sum (fun a => g a b) la) lb.
Proof.
  induction la as [|a la IH].
  - rewrite sum_nil. symmetry. rewrite (sum_ext _ (fun _ => 0)) by (intros; apply sum_nil). apply sum_zero.
  - rewrite sum_cons, IH. rewrite <- sum_plus. apply sum_ext. intros b _. rewrite sum_cons. reflexivity.
Qed.

Definition cnt (x : N) (l : list N) : nat := count_occ N.eq_dec l x.

Lemma cnt_app x l1 l2 : cnt x (l1 ++ l2) = cnt x l1 + cnt x l2.
Proof. apply count_occ_app. Qed.
Lemma cnt_flat_map {A} x (f : A -> list N) l : cnt x (flat_map f l) = sum (fun a => cnt x (f a)) l.
Proof. induction l as [|a l IH]; [reflexivity|]. cbn [flat_map]. rewrite cnt_app, IH, sum_cons. reflexivity. Qed.

Definition ind (b : bool) : nat := if b then 1 else 0.

Section G.
Variable node : Type.
Variable neqb : node -> node -> bool.
Hypothesis neqb_eq : forall a b, neqb a b = true <-> a = b.
Variable edge : Type.
Variable eid : edge -> N.
Variables up down : edge -> node.
Variable G : list edge.
Hypothesis G_nodup : NoDup (map eid G).

Lemma neqb_refl a : neqb a a = true.
Proof. apply neqb_eq. reflexivity. Qed.
Lemma neqb_sym a b : neqb a b = neqb b a.
Proof.
  destruct (neqb a b) eqn:E1, (neqb b a) eqn:E2; try reflexivity.
  - apply neqb_eq in E1. subst. rewrite neqb_refl in E2. discriminate.
  - apply neqb_eq in E2. subst. rewrite neqb_refl in E1. discriminate.
Qed.

Definition parents (x : node) := filter (fun e => neqb (down e) x) G.
Definition childs (v : node) := filter (fun e => neqb (up e) v) G.

Fixpoint visits (f : nat) (x : node) : list N :=
  match f with
  | 0 => []
  | S f' => flat_map (fun e => eid e :: visits f' (up e)) (parents x)
  end.

Definition C f (e : edge) (x : node) := cnt (eid e) (visits f x).

Lemma eid_inj e1 e2 : In e1 G -> In e2 G -> eid e1 = eid e2 -> e1 = e2.
Proof.
  clear -G_nodup. revert G_nodup. induction G as [|g l IH]; cbn; intros ND H1 H2 E; [contradiction|].
  inversion ND as [|? ? Hn ND']; subst.
  destruct H1 as [<-|H1], H2 as [<-|H2]; auto.
  - exfalso. apply Hn. rewrite E. apply in_map. exact H2.
  - exfalso. apply Hn. rewrite <- E. apply in_map. exact H1.
Qed.

(* number of elements of a filtered sublist of G with the same id as e (e in G) *)
Lemma sum_ind_filter (P : edge -> bool) e :
  In e G -> sum (fun p => ind (N.eqb (eid p) (eid e))) (filter P G) = ind (P e).
Proof.
  intros He.
  assert (forall l, incl l G -> NoDup (map eid l) ->
            sum (fun p => ind (N.eqb (eid p) (eid e))) (filter P l) = if in_dec N.eq_dec (eid e) (map eid l) then ind (P e) else 0) as K.
  { induction l as [|g l IH]; intros Hi ND; [reflexivity|].
    inversion ND as [|? ? Hn ND']; subst.
    assert (Hg : In g G) by (apply Hi; left; reflexivity).
    assert (Hl : incl l G) by (intros z Hz; apply Hi; right; exact Hz).
    cbn [filter map]. specialize (IH Hl ND').
    destruct (N.eq_dec (eid g) (eid e)) as [E|NE].
    - assert (g = e) by (apply eid_inj; auto). subst g.
      destruct (in_dec N.eq_dec (eid e) (eid e :: map eid l)) as [_|n]; [|exfalso; apply n; left; reflexivity].
      destruct (in_dec N.eq_dec (eid e) (map eid l)) as [i|_]; [contradiction|].
      destruct (P e); cbn [ind]; [rewrite sum_cons, IH, N.eqb_refl; cbn; lia | rewrite IH; reflexivity].
    - destruct (in_dec N.eq_dec (eid e) (eid g :: map eid l)) as [i|n];
      destruct (in_dec N.eq_dec (eid e) (map eid l)) as [i'|n'].
      + destruct (P g); [rewrite sum_cons, IH|rewrite IH]; auto.
        apply N.eqb_neq in NE. rewrite NE. reflexivity.
      + exfalso. destruct i as [i|i]; [apply NE; exact i | contradiction].
      + exfalso. apply n. right. exact i'.
      + destruct (P g); [rewrite sum_cons, IH|rewrite IH]; auto.
        apply N.eqb_neq in NE. rewrite NE. reflexivity. }
  rewrite (K G (incl_refl _) G_nodup).
  destruct (in_dec N.eq_dec (eid e) (map eid G)) as [_|n]; [reflexivity|].
  exfalso. apply n. apply in_map. exact He.
Qed.

Lemma C_first f e x :
  C (S f) e x = sum (fun p => ind (N.eqb (eid p) (eid e)) + C f e (up p)) (parents x).
Proof.
  unfold C. cbn [visits]. rewrite cnt_flat_map. apply sum_ext. intros p _.
  unfold cnt. cbn [count_occ]. destruct (N.eq_dec (eid p) (eid e)) as [E|NE].
  - rewrite E, N.eqb_refl. reflexivity.
  - apply N.eqb_neq in NE. rewrite NE. reflexivity.
Qed.

Lemma C_last : forall f e x, In e G ->
  C (S f) e x = ind (neqb (down e) x) + sum (fun c => C f c x) (childs (down e)).
Proof.
  induction f as [|f IH]; intros e x He.
  - rewrite C_first. rewrite sum_plus. unfold parents at 1. rewrite sum_ind_filter by exact He.
    unfold C at 1. cbn [visits]. unfold cnt at 1. cbn [count_occ]. rewrite sum_zero.
    unfold C. cbn [visits]. unfold cnt. cbn [count_occ]. rewrite sum_zero. lia.
  - rewrite C_first. rewrite sum_plus. unfold parents at 1. rewrite sum_ind_filter by exact He.
    (* rewrite inner with IH *)
    rewrite (sum_ext (fun p => C (S f) e (up p))
                     (fun p => ind (neqb (down e) (up p)) + sum (fun c => C f c (up p)) (childs (down e)))).
    2:{ intros p _. apply IH. exact He. }
    rewrite sum_plus.
    (* RHS *)
    rewrite (sum_ext (fun c => C (S f) c x)
                     (fun c => sum (fun p => ind (N.eqb (eid p) (eid c))) (parents x) + sum (fun p => C f c (up p)) (parents x))).
    2:{ intros c _. rewrite C_first. apply sum_plus. }
    rewrite sum_plus.
    rewrite (sum_swap (fun p c => C f c (up p)) (parents x) (childs (down e))).
    assert (K : sum (fun p => ind (neqb (down e) (up p))) (parents x) =
                sum (fun c => sum (fun p => ind (N.eqb (eid p) (eid c))) (parents x)) (childs (down e))).
    { rewrite (sum_swap (fun c p => ind (N.eqb (eid p) (eid c))) (childs (down e)) (parents x)).
      apply sum_ext. intros p Hp.
      assert (HpG : In p G) by (unfold parents in Hp; apply filter_In in Hp; tauto).
      rewrite (sum_ext _ (fun c => ind (N.eqb (eid c) (eid p)))) by (intros; rewrite N.eqb_sym; reflexivity).
      unfold childs. rewrite sum_ind_filter by exact HpG. rewrite neqb_sym. reflexivity. }
    rewrite K. lia.
Qed.

(* ---------- hashes ---------- *)
Definition tog (d : N) (b : bool) : N := if b then d else 0%N.
Definition par (l : list N) (id : N) : bool := Nat.odd (cnt id l).
Fixpoint xorl (f : edge -> N) (l : list edge) : N :=
  match l with [] => 0%N | e :: l' => N.lxor (f e) (xorl f l') end.

(* [L id]: the local term of edge [id] (XOR of the CRCs of its node points and edge points);
   [H id]: its stored hash *)
Definition Inv (L : N -> N) (H : N -> N) : Prop :=
  forall e, In e G -> H (eid e) = N.lxor (L (eid e)) (xorl (fun c => H (eid c)) (childs (down e))).

Lemma lxor_swap4 a b c d : N.lxor (N.lxor a b) (N.lxor c d) = N.lxor (N.lxor a c) (N.lxor b d).
Proof. rewrite !N.lxor_assoc. f_equal. rewrite <- !N.lxor_assoc. f_equal. apply N.lxor_comm. Qed.

Lemma xorl_lxor f g l : xorl (fun e => N.lxor (f e) (g e)) l = N.lxor (xorl f l) (xorl g l).
Proof.
  induction l as [|a l IH]; cbn [xorl]; [reflexivity|]. rewrite IH.
  rewrite !N.lxor_assoc. f_equal. rewrite <- !N.lxor_assoc. f_equal. apply N.lxor_comm.
Qed.

Lemma xorl_ext f g l : (forall e, In e l -> f e = g e) -> xorl f l = xorl g l.
Proof.
  induction l as [|a l IH]; intros Hfg; cbn [xorl]; [reflexivity|].
  rewrite (Hfg a) by (left; reflexivity). rewrite IH; [reflexivity|]. intros e He. apply Hfg. right. exact He.
Qed.

Lemma tog_xor d a b : tog d (xorb a b) = N.lxor (tog d a) (tog d b).
Proof. destruct a, b; cbn; rewrite ?N.lxor_nilpotent, ?N.lxor_0_r, ?N.lxor_0_l; reflexivity. Qed.

Lemma xorl_tog_odd d (f : edge -> nat) l :
  xorl (fun c => tog d (Nat.odd (f c))) l = tog d (Nat.odd (sum f l)).
Proof.
  induction l as [|a l IH]; cbn [xorl]; [reflexivity|].
  rewrite IH, sum_cons, Nat.odd_add, tog_xor. reflexivity.
Qed.

(* node-point write on node x: the local term of every edge into x changes by d; every edge
   visited by the upward recursion is toggled once per visit *)
Theorem node_update_preserves_inv (L L' H : N -> N) (F : nat) (x : node) (d : N) :
  Inv L H ->
  visits (S F) x = visits F x ->
  (forall e, In e G -> L' (eid e) = if neqb (down e) x then N.lxor (L (eid e)) d else L (eid e)) ->
  let V := visits F x in
  Inv L' (fun id => N.lxor (H id) (tog d (par V id))).
Proof.
  intros HI Had HL V e He. cbv beta.
  rewrite (HI e He), (HL e He).
  rewrite xorl_lxor.
  assert (P : par V (eid e) = xorb (neqb (down e) x) (Nat.odd (sum (fun c => cnt (eid c) V) (childs (down e))))).
  { unfold par, V. change (cnt (eid e) (visits F x)) with (C F e x).
    assert (C F e x = C (S F) e x) as -> by (unfold C; rewrite Had; reflexivity).
    rewrite C_last by exact He. rewrite Nat.odd_add. f_equal.
    destruct (neqb (down e) x); reflexivity. }
  unfold par at 2. rewrite (xorl_tog_odd d (fun c => cnt (eid c) V)).
  rewrite P, tog_xor.
  set (S1 := xorl (fun c => H (eid c)) (childs (down e))).
  set (T := tog d (Nat.odd (sum (fun c => cnt (eid c) V) (childs (down e))))).
  destruct (neqb (down e) x); cbn [tog].
  - apply lxor_swap4.
  - rewrite N.lxor_0_l. rewrite !N.lxor_assoc. reflexivity.
Qed.

(* edge-point write (or insertion) on edge e0: its local term changes by d; e0 itself is
   toggled, then every edge visited by the upward recursion from its parent *)
Theorem edge_update_preserves_inv (L L' H : N -> N) (F : nat) (e0 : edge) (d : N) :
  Inv L H ->
  In e0 G ->
  visits (S F) (up e0) = visits F (up e0) ->
  (forall e, In e G -> L' (eid e) = if N.eqb (eid e) (eid e0) then N.lxor (L (eid e)) d else L (eid e)) ->
  let V := eid e0 :: visits F (up e0) in
  Inv L' (fun id => N.lxor (H id) (tog d (par V id))).
Proof.
  intros HI He0 Had HL V e He. cbv beta.
  rewrite (HI e He), (HL e He).
  rewrite xorl_lxor.
  assert (Pc : forall g, cnt (eid g) V = ind (N.eqb (eid g) (eid e0)) + C F g (up e0)).
  { intros g. unfold V, cnt. cbn [count_occ]. destruct (N.eq_dec (eid e0) (eid g)) as [E|NE].
    - rewrite E, N.eqb_refl. reflexivity.
    - assert (N.eqb (eid g) (eid e0) = false) as -> by (apply N.eqb_neq; congruence). reflexivity. }
  assert (P : par V (eid e) = xorb (N.eqb (eid e) (eid e0)) (Nat.odd (sum (fun c => cnt (eid c) V) (childs (down e))))).
  { unfold par. rewrite Pc.
    assert (C F e (up e0) = C (S F) e (up e0)) as -> by (unfold C; rewrite Had; reflexivity).
    rewrite C_last by exact He.
    rewrite (sum_ext (fun c => cnt (eid c) V) (fun c => ind (N.eqb (eid c) (eid e0)) + C F c (up e0))) by (intros; apply Pc).
    rewrite sum_plus. unfold childs at 2. rewrite sum_ind_filter by exact He0.
    rewrite (neqb_sym (up e0) (down e)).
    rewrite !Nat.odd_add.
    destruct (N.eqb (eid e) (eid e0)), (neqb (down e) (up e0)); cbn [ind Nat.odd xorb];
      destruct (Nat.odd (sum (fun c => C F c (up e0)) (childs (down e)))); reflexivity. }
  unfold par at 2. rewrite (xorl_tog_odd d (fun c => cnt (eid c) V)).
  rewrite P, tog_xor.
  set (S1 := xorl (fun c => H (eid c)) (childs (down e))).
  set (T := tog d (Nat.odd (sum (fun c => cnt (eid c) V) (childs (down e))))).
  destruct (N.eqb (eid e) (eid e0)); cbn [tog].
  - apply lxor_swap4.
  - rewrite N.lxor_0_l. rewrite !N.lxor_assoc. reflexivity.
Qed.

End G.
