(* Store core (C01, C03, C05, C06): executable model of store/sqlite.go
   (nodePoints, edgePoints, updateHash, up) and of the two write handlers of
   store/store.go with their rebroadcast, plus the executable specifications.
   No proofs here. *)
From Verif Require Import Base.Bytes Base.Val.
Local Open Scope N_scope.

(* ---------- points ---------- *)
Record point := mkPoint {
  p_type : bytes; p_key : bytes; p_time : Z;   (* ns since the epoch *)
  p_val : N;                                   (* float64 bit pattern *)
  p_text : bytes; p_data : bytes; p_tomb : Z; p_origin : bytes }.

Definition str_0 : bytes := [48].                         (* "0" *)
Definition str_tombstone : bytes := [116;111;109;98;115;116;111;110;101].
Definition str_nodeType : bytes := [110;111;100;101;84;121;112;101].
Definition str_root : bytes := [114;111;111;116].
Definition str_none : bytes := [110;111;110;101].

Definition norm_key (k : bytes) : bytes := match k with [] => str_0 | _ => k end.
Definition ident_eqb (t1 k1 t2 k2 : bytes) : bool := bytes_eqb t1 t2 && bytes_eqb (norm_key k1) (norm_key k2).
Definition same_ident (p q : point) : bool := ident_eqb (p_type p) (p_key p) (p_type q) (p_key q).
Definition with_key (p : point) (k : bytes) : point :=
  mkPoint (p_type p) k (p_time p) (p_val p) (p_text p) (p_data p) (p_tomb p) (p_origin p).

Definition point_eqb (p q : point) : bool :=
  bytes_eqb (p_type p) (p_type q) && bytes_eqb (p_key p) (p_key q) && (p_time p =? p_time q)%Z &&
  (p_val p =? p_val q) && bytes_eqb (p_text p) (p_text q) && bytes_eqb (p_data p) (p_data q) &&
  (p_tomb p =? p_tomb q)%Z && bytes_eqb (p_origin p) (p_origin q).

(* ---------- float64 predicates on bit patterns ---------- *)
Definition f64_exp (b : N) : N := N.land (N.shiftr b 52) 2047.
Definition f64_man (b : N) : N := N.land b (2^52 - 1).
Definition f64_neg (b : N) : bool := N.testbit b 63.
Definition f64_is_nan (b : N) : bool := (f64_exp b =? 2047) && negb (f64_man b =? 0).
Definition f64_is_zero (b : N) : bool := (f64_exp b =? 0) && (f64_man b =? 0).
Definition f64_gt0 (b : N) : bool := negb (f64_neg b) && negb (f64_is_zero b) && negb (f64_is_nan b).
Definition f64_is_one (b : N) : bool := b =? 0x3FF0000000000000.
(* math.Mod(v, 2) == 0 *)
Definition f64_even (b : N) : bool :=
  let e := f64_exp b in let m := f64_man b in
  if e =? 2047 then false
  else if e =? 0 then m =? 0
  else if 1076 <=? e then true
  else ((2^52 + m) mod 2 ^ (1075 - e + 1)) =? 0.

(* ---------- CRC-32/IEEE and Point.CRC ---------- *)
Definition crc32_round (c : N) : N := if N.odd c then N.lxor (N.shiftr c 1) 0xEDB88320 else N.shiftr c 1.
Definition crc32_byte (c b : N) : N :=
  let c := N.lxor c b in
  crc32_round (crc32_round (crc32_round (crc32_round (crc32_round (crc32_round (crc32_round (crc32_round c))))))).
Definition crc32 (bs : bytes) : N := N.lxor (fold_left crc32_byte bs 0xFFFFFFFF) 0xFFFFFFFF.

Fixpoint le_bytes (n : nat) (x : N) : bytes :=
  match n with O => [] | S n' => (x mod 256) :: le_bytes n' (x / 256) end.
Definition u64_of_Z (z : Z) : N := Z.to_N (z mod 2^64)%Z.

(* the fields hashed, in order: time, type, key, text, value; node type points hash to 0 *)
Definition point_crc (p : point) : N :=
  if bytes_eqb (p_type p) str_nodeType then 0
  else crc32 (le_bytes 8 (u64_of_Z (p_time p)) ++ p_type p ++ p_key p ++ p_text p ++ le_bytes 8 (p_val p)).

Definition xor_crcs (ps : list point) : N := fold_left (fun a p => N.lxor a (point_crc p)) ps 0.

(* ---------- Points.Collapse (identity = type + normalised key; newest wins, ties: later) ---------- *)
Fixpoint collapse_ins (acc : list point) (p : point) : list point :=
  match acc with
  | [] => [p]
  | q :: acc' => if same_ident q p
                 then (if (p_time q <=? p_time p)%Z then p else q) :: acc'
                 else q :: collapse_ins acc' p
  end.
Definition collapse (ps : list point) : list point :=
  match ps with
  | [] | [_] => ps
  | _ => fold_left collapse_ins ps []
  end.

(* ---------- the NextPin merge loop ---------- *)
(* rows of one node / edge, oldest row first; returns new rows and the hash delta *)
Fixpoint merge1 (db : list point) (p : point) : list point * N :=
  match db with
  | [] => ([p], point_crc p)
  | q :: db' =>
      if bytes_eqb (p_type q) (p_type p) && bytes_eqb (p_key q) (p_key p)
      then if (p_time q <=? p_time p)%Z then (p :: db', N.lxor (point_crc q) (point_crc p)) else (db, 0)
      else let '(r, d) := merge1 db' p in (q :: r, d)
  end.

Definition merge_batch (skip_node_type : bool) (db : list point) (ps : list point) : list point * N :=
  fold_left (fun '(db, d) p =>
               if skip_node_type && bytes_eqb (p_type p) str_nodeType then (db, d)
               else let '(db', d') := merge1 db (with_key p (norm_key (p_key p))) in (db', N.lxor d d'))
            ps (db, 0).

(* ---------- the store ---------- *)
Record edge := mkEdge {
  e_id : N;                 (* model-internal row id (the uuid is not observable) *)
  e_up : bytes; e_down : bytes; e_type : bytes;
  e_pts : list point; e_hash : N }.

Record store := mkStore {
  s_nodes : list (bytes * list point);
  s_edges : list edge;
  s_root : bytes;
  s_next : N }.

Fixpoint node_rows (ns : list (bytes * list point)) (id : bytes) : list point :=
  match ns with
  | [] => []
  | (i, r) :: ns' => if bytes_eqb i id then r else node_rows ns' id
  end.

Fixpoint set_node_rows (ns : list (bytes * list point)) (id : bytes) (rows : list point) :=
  match ns with
  | [] => [(id, rows)]
  | (i, r) :: ns' => if bytes_eqb i id then (i, rows) :: ns' else (i, r) :: set_node_rows ns' id rows
  end.

Definition parents (G : list edge) (x : bytes) : list edge := filter (fun e => bytes_eqb (e_down e) x) G.
Definition childs (G : list edge) (v : bytes) : list edge := filter (fun e => bytes_eqb (e_up e) v) G.

Definition find_edge (G : list edge) (up down : bytes) : option edge :=
  find (fun e => bytes_eqb (e_up e) up && bytes_eqb (e_down e) down) G.

(* updateHashHelper: ids of the edges toggled, once per upward path *)
Fixpoint visits (G : list edge) (f : nat) (x : bytes) : list N :=
  match f with
  | O => []
  | S f' => flat_map (fun e => e_id e :: visits G f' (e_up e)) (parents G x)
  end.

Definition cnt (x : N) (l : list N) : nat := count_occ N.eq_dec l x.
Definition toggle (vs : list N) (d : N) (e : edge) : edge :=
  if Nat.odd (cnt (e_id e) vs)
  then mkEdge (e_id e) (e_up e) (e_down e) (e_type e) (e_pts e) (N.lxor (e_hash e) d)
  else e.
Definition fuel_of (G : list edge) : nat := S (length G).

(* updateHash(id, d) *)
Definition update_hash (G : list edge) (id : bytes) (d : N) : list edge :=
  map (toggle (visits G (fuel_of G) id) d) G.

(* updateEdgeHash(edge, parent, d): the written edge, then every path upward from its parent *)
Definition update_edge_hash (G : list edge) (eid : N) (parent : bytes) (d : N) : list edge :=
  let vs := eid :: visits G (fuel_of G) parent in
  map (toggle vs d) G.

(* isUpstream(upID, id): upID is id or reachable from id walking up through any edge *)
Fixpoint is_upstream (G : list edge) (f : nat) (target id : bytes) : bool :=
  bytes_eqb id target ||
  match f with
  | O => false
  | S f' => existsb (fun e => is_upstream G f' target (e_up e)) (parents G id)
  end.

Definition has_nan (ps : list point) : bool := existsb (fun p => f64_is_nan (p_val p)) ps.

(* a time that does not fit the int64 nanosecond column (outside 1677-09-21 .. 2262-04-11): refused like a
   value that is not a number *)
Definition min_ns : Z := (-9223372036854775808)%Z.
Definition max_ns : Z := 9223372036854775807%Z.
Definition bad_time (p : point) : bool := (p_time p <? min_ns)%Z || (max_ns <? p_time p)%Z.
Definition bad_times (ps : list point) : bool := existsb bad_time ps.

Inductive outcome (A : Type) := Ok (a : A) | Err (e : N).
Arguments Ok {A}. Arguments Err {A}.
(* error kinds: 1 NaN, 2 self edge, 3 root tombstone, 4 cycle, 5 node type missing, 6 time out of range *)

Definition node_points (st : store) (id : bytes) (pts : list point) : outcome store :=
  if has_nan pts then Err 1 else
  if bad_times pts then Err 6 else
  let ps := collapse pts in
  let '(rows, d) := merge_batch false (node_rows (s_nodes st) id) ps in
  Ok (mkStore (set_node_rows (s_nodes st) id rows) (update_hash (s_edges st) id d) (s_root st) (s_next st)).

Definition last_node_type (ps : list point) : bytes :=
  fold_left (fun acc p => if bytes_eqb (p_type p) str_nodeType then p_text p else acc) ps [].

Definition set_edge (G : list edge) (e' : edge) : list edge :=
  map (fun e => if e_id e =? e_id e' then e' else e) G.

Definition edge_points (st : store) (node parent : bytes) (pts : list point) : outcome store :=
  if has_nan pts then Err 1 else
  if bad_times pts then Err 6 else
  let ps := collapse pts in
  if bytes_eqb node parent then Err 2 else
  if bytes_eqb node (s_root st) &&
     existsb (fun p => bytes_eqb (p_type p) str_tombstone && f64_gt0 (p_val p)) ps then Err 3 else
  let parent := match parent with [] => str_root | _ => parent end in
  let G := s_edges st in
  match find_edge G parent node with
  | Some e =>
      let '(rows, d) := merge_batch true (e_pts e) ps in
      let e' := mkEdge (e_id e) (e_up e) (e_down e) (e_type e) rows (e_hash e) in
      Ok (mkStore (s_nodes st) (update_edge_hash (set_edge G e') (e_id e) parent d) (s_root st) (s_next st))
  | None =>
      if is_upstream G (fuel_of G) node parent then Err 4 else
      let '(rows, d) := merge_batch true [] ps in
      let nt := last_node_type ps in
      match nt with
      | [] => Err 5
      | _ =>
        let d := N.lxor (N.lxor d (xor_crcs (node_rows (s_nodes st) node)))
                        (fold_left (fun a c => N.lxor a (e_hash c)) (childs G node) 0) in
        let e := mkEdge (s_next st) parent node nt rows 0 in
        let G' := G ++ [e] in
        Ok (mkStore (s_nodes st) (update_edge_hash G' (e_id e) parent d)
                    (if bytes_eqb parent str_root then node else s_root st) (s_next st + 1))
      end
  end.

(* ---------- up() and the recursive publishers ---------- *)
Definition edge_tomb_val (e : edge) : N :=
  match find (fun p => bytes_eqb (p_type p) str_tombstone && bytes_eqb (p_key p) str_0) (e_pts e) with
  | Some p => p_val p
  | None => 0
  end.
Definition edge_live (e : edge) : bool := f64_even (edge_tomb_val e).

Definition ups (G : list edge) (id : bytes) (include_deleted : bool) : list bytes :=
  map e_up (filter (fun e => include_deleted || edge_live e) (parents G id)).

(* ids on whose subject the change is republished, in publish order *)
Fixpoint pubs (G : list edge) (include_deleted : bool) (f : nat) (x : bytes) : list bytes :=
  x :: match f with
       | O => []
       | S f' => flat_map (pubs G include_deleted f') (ups G x include_deleted)
       end.

(* ---------- the two write handlers ---------- *)
Inductive op := NodePts (id : bytes) (pts : list point) | EdgePts (id parent : bytes) (pts : list point).

(* reply: 0 = ok, 1 = error.  publishes: (ancestor id) list; subject = up.<a>.<node>[.<parent>] *)
Definition handle (st : store) (o : op) : store * N * list bytes :=
  match o with
  | NodePts id pts =>
      match node_points st id pts with
      | Ok st' => (st', 0, pubs (s_edges st') false (fuel_of (s_edges st')) id)
      | Err _ => (st, 1, [])
      end
  | EdgePts id parent pts =>
      match edge_points st id parent pts with
      | Ok st' => (st', 0, pubs (s_edges st') true (fuel_of (s_edges st')) id)
      | Err _ => (st, 1, [])
      end
  end.

(* ---------- observable projection of a state: what nodes.all.<id> shows ---------- *)
Record edge_view := mkView {
  v_up : bytes; v_down : bytes; v_type : bytes; v_hash : N; v_epts : list point; v_npts : list point }.

Fixpoint bytes_leb (a b : bytes) : bool :=
  match a, b with
  | [], _ => true
  | _ :: _, [] => false
  | x :: a', y :: b' => if x <? y then true else if y <? x then false else bytes_leb a' b'
  end.

Fixpoint insert_by {A} (leb : A -> A -> bool) (x : A) (l : list A) : list A :=
  match l with
  | [] => [x]
  | y :: l' => if leb x y then x :: l else y :: insert_by leb x l'
  end.
Definition sort_by {A} (leb : A -> A -> bool) (l : list A) : list A := fold_right (insert_by leb) [] l.

Definition point_leb (p q : point) : bool :=
  if bytes_eqb (p_type p) (p_type q) then bytes_leb (p_key p) (p_key q) else bytes_leb (p_type p) (p_type q).
Definition sort_points := sort_by point_leb.

Definition view_leb (a b : edge_view) : bool :=
  if bytes_eqb (v_down a) (v_down b) then bytes_leb (v_up a) (v_up b) else bytes_leb (v_down a) (v_down b).

Definition view_of (st : store) (e : edge) : edge_view :=
  mkView (e_up e) (e_down e) (e_type e) (e_hash e) (sort_points (e_pts e))
         (sort_points (node_rows (s_nodes st) (e_down e))).

Definition project (st : store) : list edge_view := sort_by view_leb (map (view_of st) (s_edges st)).

Definition points_eqb := list_eqb point_eqb.
Definition view_eqb (a b : edge_view) : bool :=
  bytes_eqb (v_up a) (v_up b) && bytes_eqb (v_down a) (v_down b) && bytes_eqb (v_type a) (v_type b) &&
  (v_hash a =? v_hash b) && points_eqb (v_epts a) (v_epts b) && points_eqb (v_npts a) (v_npts b).
Definition views_eqb := list_eqb view_eqb.

(* rebuild a model state from an observed dump (views sorted by the harness like [project]) *)
Definition store_of_views (root : bytes) (vs : list edge_view) : store :=
  let nodes := fold_left (fun ns v => set_node_rows ns (v_down v) (v_npts v)) vs [] in
  let edges := snd (fold_left (fun '(i, es) v => (i + 1, es ++ [mkEdge i (v_up v) (v_down v) (v_type v) (v_epts v) (v_hash v)]))
                              vs (0, [])) in
  mkStore nodes edges root (N.of_nat (length vs)).

(* ================= specifications, evaluated on observed dumps only ================= *)

(* C03: the hash of every edge equals the XOR of the CRCs of its node points, its edge points and the
   hashes of its child edges (what CalcHash computes over children fetched with deleted ones included) *)
Definition spec_hash_ok (vs : list edge_view) (v : edge_view) : bool :=
  v_hash v =? N.lxor (N.lxor (xor_crcs (v_npts v)) (xor_crcs (v_epts v)))
                     (fold_left (fun a c => N.lxor a (v_hash c))
                                (filter (fun c => bytes_eqb (v_up c) (v_down v)) vs) 0).
Definition spec_hashes_ok (vs : list edge_view) : bool := forallb (spec_hash_ok vs) vs.

(* C01: newest delivered point per identity.  [newest cur p]: fold step over deliveries in order *)
Fixpoint newest_ins (acc : list point) (p : point) : list point :=
  match acc with
  | [] => [p]
  | q :: acc' => if same_ident q p then (if (p_time q <=? p_time p)%Z then p else q) :: acc' else q :: newest_ins acc' p
  end.
Definition newest_step (acc : list point) (p : point) : list point :=
  newest_ins acc (with_key p (norm_key (p_key p))).
Definition newest (init : list point) (delivered : list point) : list point :=
  sort_points (fold_left newest_step delivered init).

Fixpoint nodup_idents (ps : list point) : bool :=
  match ps with
  | [] => true
  | p :: ps' => negb (existsb (same_ident p) ps') && nodup_idents ps'
  end.

(* upward closure used by the C05 / C06 specifications: ids reachable from x through selected edges *)
Definition sel_ups (vs : list edge_view) (live_only : bool) (x : bytes) : list bytes :=
  map v_up (filter (fun v => bytes_eqb (v_down v) x &&
                             (negb live_only ||
                              f64_even (match find (fun p => bytes_eqb (p_type p) str_tombstone && bytes_eqb (p_key p) str_0) (v_epts v)
                                        with Some p => p_val p | None => 0 end))) vs).
Definition mem_bytes (x : bytes) (l : list bytes) : bool := existsb (bytes_eqb x) l.
Fixpoint closure (vs : list edge_view) (live_only : bool) (f : nat) (todo seen : list bytes) : list bytes :=
  match f with
  | O => seen
  | S f' =>
      match todo with
      | [] => seen
      | x :: todo' =>
          if mem_bytes x seen then closure vs live_only f' todo' seen
          else closure vs live_only f' (todo' ++ sel_ups vs live_only x) (x :: seen)
      end
  end.
Definition ancestors (vs : list edge_view) (live_only : bool) (x : bytes) : list bytes :=
  closure vs live_only (S (length vs) * S (length vs) + 2) [x] [].

Definition subset_bytes (a b : list bytes) : bool := forallb (fun x => mem_bytes x b) a.
Definition same_set (a b : list bytes) : bool := subset_bytes a b && subset_bytes b a.
