(* The executable upward closure used by the C05 / C06 / C08 specifications ([ancestors], a worklist
   search with fuel over an observed dump) is exactly reachability through the selected parent links:
   sound, complete, and its fuel is always sufficient.  So the set the checker compares the observed
   rebroadcast subjects with is the set the C06 theorems speak about. *)
From Verif Require Import Base.Bytes Store.Model.
From Coq Require Import Lia.

Lemma sel_ups_le_gen (l : list edge_view) lo x : length (sel_ups l lo x) <= length (filter (fun v => bytes_eqb (v_down v) x) l).
Proof.
  unfold sel_ups. rewrite map_length. induction l as [|v l IH]; cbn [filter]; [lia|].
  destruct (bytes_eqb (v_down v) x); cbn [andb].
  - match goal with |- context [if ?c then _ else _] => destruct c end; cbn [length]; [apply le_n_S|apply le_S]; exact IH.
  - exact IH.
Qed.

Lemma mem_bytes_cons y x seen : mem_bytes y (x :: seen) = bytes_eqb y x || mem_bytes y seen.
Proof. reflexivity. Qed.

Lemma unseen_add_gen (l : list edge_view) x seen : mem_bytes x seen = false ->
  length (filter (fun v => negb (mem_bytes (v_down v) (x :: seen))) l) + length (filter (fun v => bytes_eqb (v_down v) x) l)
  <= length (filter (fun v => negb (mem_bytes (v_down v) seen)) l).
Proof.
  intros Hx. induction l as [|v l IH]; cbn [filter length]; [lia|].
  rewrite (mem_bytes_cons (v_down v)).
  destruct (bytes_eqb (v_down v) x) eqn:E.
  - apply bytes_eqb_eq in E. rewrite E, Hx. cbn [orb negb length]. lia.
  - cbn [orb]. destruct (mem_bytes (v_down v) seen); cbn [negb length]; lia.
Qed.

Lemma filter_len_le {A} (f : A -> bool) l : length (filter f l) <= length l.
Proof. induction l as [|a l IH]; cbn [filter length]; [apply le_n|]. destruct (f a); cbn [length]; [apply le_n_S|apply le_S]; exact IH. Qed.

Section Closure.
Variable vs : list edge_view.
Variable lo : bool.

Definition ups (x : bytes) : list bytes := sel_ups vs lo x.

(* y is reachable from x by following parent links upwards *)
Inductive reach (x : bytes) : bytes -> Prop :=
| reach_refl : reach x x
| reach_step z y : reach x z -> In y (ups z) -> reach x y.

Lemma mem_bytes_in x l : mem_bytes x l = true <-> In x l.
Proof.
  unfold mem_bytes. rewrite existsb_exists. split.
  - intros (y & Hy & E). apply bytes_eqb_eq in E. subst. exact Hy.
  - intros H. exists x. split; [exact H|apply bytes_eqb_refl].
Qed.

Lemma mem_bytes_false x l : mem_bytes x l = false <-> ~ In x l.
Proof.
  split.
  - intros E H. apply mem_bytes_in in H. congruence.
  - intros H. destruct (mem_bytes x l) eqn:E; [|reflexivity]. apply mem_bytes_in in E. contradiction.
Qed.

Lemma closure_step f x todo seen :
  closure vs lo (S f) (x :: todo) seen =
  if mem_bytes x seen then closure vs lo f todo seen else closure vs lo f (todo ++ ups x) (x :: seen).
Proof. reflexivity. Qed.

(* ---- soundness ---- *)
Lemma closure_sound x0 f : forall todo seen,
  (forall t, In t todo -> reach x0 t) -> (forall s, In s seen -> reach x0 s) ->
  forall y, In y (closure vs lo f todo seen) -> reach x0 y.
Proof.
  induction f as [|f IH]; intros todo seen Ht Hs y Hy; [apply Hs; exact Hy|].
  destruct todo as [|x todo]; [apply Hs; exact Hy|].
  rewrite closure_step in Hy. destruct (mem_bytes x seen).
  - apply (IH todo seen); auto. intros t H. apply Ht. right. exact H.
  - apply (IH (todo ++ ups x) (x :: seen)); auto.
    + intros t H. apply in_app_or in H. destruct H as [H|H]; [apply Ht; right; exact H|].
      eapply reach_step; [apply Ht; left; reflexivity|exact H].
    + intros s [<-|H]; [apply Ht; left; reflexivity|apply Hs; exact H].
Qed.

(* ---- completeness ---- *)
(* everything seen stays, and the result is closed under parent links as soon as the work list empties *)
Definition closed_in (seen rest : list bytes) : Prop :=
  forall s, In s seen -> forall p, In p (ups s) -> In p seen \/ In p rest.

Lemma closure_mono f : forall todo seen s, In s seen -> In s (closure vs lo f todo seen).
Proof.
  induction f as [|f IH]; intros todo seen s H; [exact H|].
  destruct todo as [|x todo]; [exact H|]. rewrite closure_step.
  destruct (mem_bytes x seen); apply IH; [exact H|right; exact H].
Qed.

(* potential: work list length + views whose lower node has not been seen *)
Definition unseen (seen : list bytes) : nat := length (filter (fun v => negb (mem_bytes (v_down v) seen)) vs).

Lemma sel_ups_le x : length (sel_ups vs lo x) <= length (filter (fun v => bytes_eqb (v_down v) x) vs).
Proof. apply sel_ups_le_gen. Qed.

Lemma unseen_add x seen : ~ In x seen ->
  unseen (x :: seen) + length (filter (fun v => bytes_eqb (v_down v) x) vs) <= unseen seen.
Proof. intros Hx. apply unseen_add_gen. apply mem_bytes_false. exact Hx. Qed.

Lemma ups_le x seen : ~ In x seen -> unseen (x :: seen) + length (ups x) <= unseen seen.
Proof.
  intros Hx. pose proof (unseen_add x seen Hx). pose proof (sel_ups_le x). unfold ups. lia.
Qed.

Lemma closure_complete_gen x0 f : forall todo seen,
  length todo + unseen seen < f ->
  closed_in seen todo -> (In x0 seen \/ In x0 todo) ->
  let r := closure vs lo f todo seen in
  In x0 r /\ closed_in r [].
Proof.
  induction f as [|f IH]; intros todo seen Hf Hc Hx; [lia|].
  destruct todo as [|x todo].
  - cbn [closure]. split; [destruct Hx as [H|[]]; exact H|].
    intros s Hs p Hp. destruct (Hc s Hs p Hp) as [H|[]]. left. exact H.
  - cbv zeta. rewrite closure_step. destruct (mem_bytes x seen) eqn:Em.
    + apply mem_bytes_in in Em. apply IH.
      * cbn [length] in Hf. lia.
      * intros s Hs p Hp. destruct (Hc s Hs p Hp) as [H|[<-|H]]; auto.
      * destruct Hx as [H|[<-|H]]; auto.
    + apply mem_bytes_false in Em. apply IH.
      * pose proof (ups_le x seen Em). rewrite app_length. cbn [length] in Hf. lia.
      * intros s [<-|Hs] p Hp.
        -- right. apply in_or_app. right. exact Hp.
        -- destruct (Hc s Hs p Hp) as [H|[<-|H]]; [left; right; exact H|left; left; reflexivity|right; apply in_or_app; left; exact H].
      * destruct Hx as [H|[<-|H]]; [left; right; exact H|left; left; reflexivity|right; apply in_or_app; left; exact H].
Qed.

Lemma unseen_le seen : unseen seen <= length vs.
Proof. unfold unseen. apply filter_len_le. Qed.

Theorem ancestors_spec x y : In y (ancestors vs lo x) <-> reach x y.
Proof.
  unfold ancestors. split.
  - apply closure_sound; [intros t [<-|[]]; constructor|intros s []].
  - intros H.
    destruct (closure_complete_gen x (S (length vs) * S (length vs) + 2) [x] []) as [Hx Hc].
    + pose proof (unseen_le []). cbn [length]. nia.
    + intros s [].
    + right. left. reflexivity.
    + cbv zeta in Hx, Hc. induction H as [|z y Hz IH Hy]; [exact Hx|].
      destruct (Hc z IH y Hy) as [H|[]]. exact H.
Qed.
End Closure.
