(* C20 / C04 case checkers: histories observed without per-request dumps
   (concurrent stress rounds; crash-recovery runs). *)
From Verif Require Import Base.Bytes Base.Val Store.Model Store.Check.
Local Open Scope N_scope.

Definition run_ops (st : store) (ops : list op) : store :=
  fold_left (fun s o => fst (fst (handle s o))) ops st.

(* ---------- C20 ---------- *)
Record read := mkRead { r_node : bytes; r_pts : list point }.

Record ccase := mkCCase {
  cc_root : bytes; cc_init : list edge_view;
  cc_acked : list op;                       (* acknowledged writes, in some order *)
  cc_final : list edge_view;                (* dump at quiescence *)
  cc_reopen : list edge_view;               (* dump after shutdown and reopen of the same file *)
  cc_readers : list (list read);            (* per reader: successive reads *)
  cc_raa : list (op * list point);          (* write, then what the writer read back after its ack *)
  cc_unanswered : N; cc_races : N; cc_shutdown_ok : bool; cc_reopen_ok : bool; cc_verify_ok : bool }.

Definition read_of_val (v : val) : option read :=
  match v with VL [n; p] => n <- get_b n ;; p <- points_of_val p ;; Some (mkRead n p) | _ => None end.
Definition raa_of_val (v : val) : option (op * list point) :=
  match v with VL [o; p] => o <- op_of_val o ;; p <- points_of_val p ;; Some (o, p) | _ => None end.

Definition ccase_of_val (v : val) : option ccase :=
  match v with
  | VL [root; init; acked; final; reopen; readers; raa; un; races; sd; ro; vf] =>
      root <- get_b root ;; init <- views_of_val init ;; acked <- get_list op_of_val acked ;;
      final <- views_of_val final ;; reopen <- views_of_val reopen ;;
      readers <- get_list (get_list read_of_val) readers ;; raa <- get_list raa_of_val raa ;;
      un <- get_n un ;; races <- get_n races ;; sd <- get_bool sd ;; ro <- get_bool ro ;; vf <- get_bool vf ;;
      Some (mkCCase root init acked final reopen readers raa un races sd ro vf)
  | _ => None
  end.

Definition find_ident (ps : list point) (p : point) : option point := find (same_ident p) ps.

(* every identity present in [a] is present in [b] with a time at least as large *)
Definition not_older (a b : list point) : bool :=
  forallb (fun p => match find_ident b p with Some q => (p_time p <=? p_time q)%Z | None => false end) a.

Fixpoint monotone (node_last : list (bytes * list point)) (rs : list read) : bool :=
  match rs with
  | [] => true
  | r :: rs' =>
      not_older (node_rows node_last (r_node r)) (r_pts r) &&
      monotone (set_node_rows node_last (r_node r) (r_pts r)) rs'
  end.

Definition raa_ok (x : op * list point) : bool :=
  match fst x with
  | NodePts _ pts => not_older pts (snd x)
  | EdgePts _ _ _ => true
  end.

(* the content at quiescence is the newest of what was acknowledged (C01) with consistent hashes (C03) *)
Definition acked_steps (ops : list op) : list step := map (fun o => mkStep o 0 [] [] []) ops.

Definition final_content_ok (c : ccase) : bool :=
  forallb (fun v =>
    points_eqb (v_npts v) (newest (init_npts (cc_init c) (v_down v)) (delivered_node (acked_steps (cc_acked c)) (v_down v))) &&
    points_eqb (v_epts v) (newest (init_epts (cc_init c) (v_up v) (v_down v)) (delivered_edge (acked_steps (cc_acked c)) (v_up v) (v_down v))) &&
    nodup_idents (v_npts v) && nodup_idents (v_epts v))
  (cc_final c).

Definition check_c20_case (c : ccase) : N :=
  let corr := views_eqb (project (run_ops (store_of_views (cc_root c) (cc_init c)) (cc_acked c))) (cc_final c) in
  let spec := (cc_unanswered c =? 0) && (cc_races c =? 0) && cc_shutdown_ok c && cc_reopen_ok c && cc_verify_ok c &&
              spec_hashes_ok (cc_final c) && views_eqb (cc_final c) (cc_reopen c) &&
              forallb (monotone []) (cc_readers c) && forallb raa_ok (cc_raa c) && final_content_ok c in
  code corr spec.
Definition check_c20 := check_with ccase_of_val check_c20_case.

(* ---------- C04 ---------- *)
Record kcase := mkKCase {
  k_has_init : bool;                      (* the writer got as far as dumping the initial state *)
  k_root : bytes; k_init : list edge_view;
  k_ops : list op;                        (* the script *)
  k_acked : nat;                          (* how many requests were acknowledged before the kill *)
  k_reopen_ok : bool;                     (* the file opened again *)
  k_root_after : bytes; k_after : list edge_view;
  k_reopen2_same : bool;                  (* a second reopen shows the same root, key and content *)
  k_key_same : bool;                      (* signing key unchanged w.r.t. what the writer saw *)
  k_one_meta : bool;                      (* exactly one meta row *)
  k_one_root : bool;
  k_resumed : bool;                       (* after the recovery the unacknowledged tail of the script was sent again and answered *)
  k_root_final : bytes; k_final : list edge_view }.   (* ... and this is what the store holds then *)                    (* the instance root is the lower end of a top-level edge (the only one after a kill during initialisation) *)

Definition kcase_of_val (v : val) : option kcase :=
  match v with
  | VL [hi; root; init; ops; acked; rok; root2; after; r2; ks; om; orr; rs; root3; final] =>
      rs <- get_bool rs ;; root3 <- get_b root3 ;; final <- views_of_val final ;;
      hi <- get_bool hi ;; root <- get_b root ;; init <- views_of_val init ;; ops <- get_list op_of_val ops ;;
      acked <- get_nat acked ;; rok <- get_bool rok ;; root2 <- get_b root2 ;; after <- views_of_val after ;;
      r2 <- get_bool r2 ;; ks <- get_bool ks ;; om <- get_bool om ;; orr <- get_bool orr ;;
      Some (mkKCase hi root init ops acked rok root2 after r2 ks om orr rs root3 final)
  | _ => None
  end.

(* the recovered state is the state after the first j requests, for j = acked or acked + 1
   (the request in flight is present completely or not at all) *)
Definition after_prefix (c : kcase) (j : nat) : bool :=
  let st := run_ops (store_of_views (k_root c) (k_init c)) (firstn j (k_ops c)) in
  views_eqb (project st) (k_after c) && bytes_eqb (s_root st) (k_root_after c).

(* nothing acknowledged is lost even where a dump cannot show it (points of a node that has no edge yet): when the
   client carries on after the recovery - the request in flight and everything after it, sent again - the store ends
   in the state of the uninterrupted run (re-sending is harmless by C01) *)
Definition resumed_ok (c : kcase) : bool :=
  let st := run_ops (store_of_views (k_root c) (k_init c)) (k_ops c) in
  k_resumed c && views_eqb (project st) (k_final c) && bytes_eqb (s_root st) (k_root_final c) && spec_hashes_ok (k_final c).

Definition check_c04_case (c : kcase) : N :=
  let basic := k_reopen_ok c && k_reopen2_same c && k_key_same c && k_one_meta c && k_one_root c && spec_hashes_ok (k_after c) in
  if k_has_init c then
    let atomic := after_prefix c (k_acked c) || after_prefix c (S (k_acked c)) in
    (* model prefix = observed recovery: both the correspondence and the atomicity specification *)
    code (atomic && resumed_ok c) (basic && atomic && resumed_ok c)
  else code true basic.
Definition check_c04 := check_with kcase_of_val check_c04_case.
