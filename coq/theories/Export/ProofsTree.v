(* C15, tree level: induction principle for trees, insertion-sort facts,
   [project] against export / marker / renaming, and ReplaceIDs as a renaming. *)
From Coq Require Import List NArith ZArith Bool Lia Arith Permutation.
From Verif Require Import Base.Bytes Base.Val Store.Model Store.ProofsRows.
Require Import Verif.Export.Model.
Import ListNotations.
Local Open Scope N_scope.

(* ---------- induction over trees ---------- *)
Section TreeInd.
  Variable P : tree -> Prop.
  Hypothesis step : forall i ty pa ps es ks, Forall P ks -> P (Node i ty pa ps es ks).
  Fixpoint tree_rect' (t : tree) : P t :=
    match t with
    | Node i ty pa ps es ks =>
        step i ty pa ps es ks
             ((fix go (l : list tree) : Forall P l :=
                 match l with
                 | [] => Forall_nil P
                 | k :: l' => Forall_cons k (tree_rect' k) (go l')
                 end) ks)
    end.
End TreeInd.

Section PTreeInd.
  Variable P : ptree -> Prop.
  Hypothesis step : forall i ty pa ps es ks, Forall P ks -> P (PNode i ty pa ps es ks).
  Fixpoint ptree_rect' (t : ptree) : P t :=
    match t with
    | PNode i ty pa ps es ks =>
        step i ty pa ps es ks
             ((fix go (l : list ptree) : Forall P l :=
                 match l with
                 | [] => Forall_nil P
                 | k :: l' => Forall_cons k (ptree_rect' k) (go l')
                 end) ks)
    end.
End PTreeInd.

Definition live (k : tree) : bool := negb (tree_deleted k).

(* ---------- the inner loops as list functions ---------- *)
Lemma export_norm_eq i ty pa ps es ks :
  export_norm (Node i ty pa ps es ks) =
  Node i ty pa (exp_pts ps) (exp_epts es) (map export_norm (filter live ks)).
Proof.
  cbn [export_norm]. f_equal.
  induction ks as [|k ks IH]; [reflexivity|]. cbn [filter map]. unfold live at 1.
  destruct (tree_deleted k); cbn [negb]; [exact IH|]. cbn [map]. f_equal. exact IH.
Qed.

Lemma project_eq i ty pa ps es ks :
  project (Node i ty pa ps es ks) =
  PNode i ty pa (proj_pts ps) (proj_epts es) (sort_by q_leb (map project (filter live ks))).
Proof.
  cbn [project]. f_equal. f_equal.
  induction ks as [|k ks IH]; [reflexivity|]. cbn [filter map]. unfold live at 1.
  destruct (tree_deleted k); cbn [negb]; [exact IH|]. cbn [map]. f_equal. exact IH.
Qed.

Lemma all_live_eq i ty pa ps es ks :
  all_live (Node i ty pa ps es ks) = forallb (fun k => live k && all_live k) ks.
Proof.
  cbn [all_live]. induction ks as [|k ks IH]; [reflexivity|]. cbn [forallb]. unfold live at 1.
  rewrite IH. reflexivity.
Qed.

Lemma live_ids_eq i ty pa ps es ks :
  live_ids (Node i ty pa ps es ks) = i :: flat_map live_ids (filter live ks).
Proof.
  cbn [live_ids]. f_equal. induction ks as [|k ks IH]; [reflexivity|]. cbn [filter]. unfold live at 1.
  destruct (tree_deleted k); cbn [negb]; [exact IH|]. cbn [flat_map]. f_equal. exact IH.
Qed.

Lemma check_ids_eq i ty pa ps es ks parent :
  check_ids (Node i ty pa ps es ks) parent =
  negb (is_empty parent) && bytes_eqb pa parent && negb (is_empty i) && forallb (fun k => check_ids k i) ks.
Proof.
  reflexivity.
Qed.

(* every identifier of a tree, deleted parts included *)
Fixpoint all_ids (t : tree) : list bytes :=
  match t with
  | Node i _ _ _ _ ks =>
      i :: (fix go (l : list tree) : list bytes :=
              match l with [] => [] | k :: l' => all_ids k ++ go l' end) ks
  end.
Lemma all_ids_eq i ty pa ps es ks : all_ids (Node i ty pa ps es ks) = i :: flat_map all_ids ks.
Proof.
  reflexivity.
Qed.

(* ---------- insertion sort ---------- *)
Section Sort.
  Context {A : Type} (leb : A -> A -> bool).

  Fixpoint lsorted (l : list A) : Prop :=
    match l with
    | x :: ((y :: _) as r) => leb x y = true /\ lsorted r
    | _ => True
    end.

  Lemma sort_by_cons x l : sort_by leb (x :: l) = insert_by leb x (sort_by leb l).
  Proof. reflexivity. Qed.

  Lemma insert_perm x l : Permutation (insert_by leb x l) (x :: l).
  Proof.
    induction l as [|y l IH]; cbn; [apply Permutation_refl|].
    destruct (leb x y); [apply Permutation_refl|].
    eapply Permutation_trans; [apply perm_skip, IH|apply perm_swap].
  Qed.

  Lemma sort_perm l : Permutation (sort_by leb l) l.
  Proof.
    induction l as [|x l IH]; [constructor|]. rewrite sort_by_cons.
    eapply Permutation_trans; [apply insert_perm|]. apply perm_skip, IH.
  Qed.

  Hypothesis total : forall a b, leb a b = false -> leb b a = true.
  Hypothesis trans : forall a b c, leb a b = true -> leb b c = true -> leb a c = true.

  (* strongly sorted: every element is below everything after it *)
  Fixpoint ssorted (l : list A) : Prop :=
    match l with
    | [] => True
    | x :: r => (forall y, In y r -> leb x y = true) /\ ssorted r
    end.

  Lemma insert_ssorted x l : ssorted l -> ssorted (insert_by leb x l).
  Proof.
    induction l as [|y l IH]; intros H; [cbn; split; [intros ? []|exact I]|]. cbn [insert_by].
    destruct H as [Hy Hs]. destruct (leb x y) eqn:E.
    - split; [|split; assumption]. intros z [<-|Hz]; [exact E|]. eapply trans; [exact E|apply Hy, Hz].
    - split; [|apply IH, Hs]. intros z Hz.
      apply (Permutation_in _ (insert_perm x l)) in Hz. destruct Hz as [<-|Hz]; [apply total, E|apply Hy, Hz].
  Qed.

  Lemma sort_ssorted l : ssorted (sort_by leb l).
  Proof. induction l as [|x l IH]; [exact I|]. rewrite sort_by_cons. apply insert_ssorted, IH. Qed.

  Lemma ssorted_perm_eq l : forall l',
    (forall x y, In x l -> In y l -> leb x y = true -> leb y x = true -> x = y) ->
    ssorted l -> ssorted l' -> Permutation l l' -> l = l'.
  Proof.
    induction l as [|x l IH]; intros l' AS Hl Hl' HP.
    - apply Permutation_nil in HP. subst. reflexivity.
    - destruct l' as [|y l']; [apply Permutation_sym, Permutation_nil in HP; discriminate|].
      destruct Hl as [Hx Hs], Hl' as [Hy Hs'].
      assert (x = y) as <-.
      { assert (Ix : In x (y :: l')) by (eapply Permutation_in; [exact HP|left; reflexivity]).
        assert (Iy : In y (x :: l)) by (eapply Permutation_in; [apply Permutation_sym, HP|left; reflexivity]).
        destruct Ix as [->|Ix]; [reflexivity|]. destruct Iy as [->|Iy]; [reflexivity|].
        apply AS; [left; reflexivity|right; exact Iy|apply Hx, Iy|apply Hy, Ix]. }
      f_equal. apply IH; [intros a b Ha Hb; apply AS; right; assumption|exact Hs|exact Hs'|].
      eapply Permutation_cons_inv. exact HP.
  Qed.

  (* the sort only depends on the multiset when the order separates its elements *)
  Lemma sort_perm_eq l l' :
    (forall x y, In x l -> In y l -> leb x y = true -> leb y x = true -> x = y) ->
    Permutation l l' -> sort_by leb l = sort_by leb l'.
  Proof.
    intros AS HP. apply ssorted_perm_eq; [|apply sort_ssorted|apply sort_ssorted|].
    - intros x y Hx Hy. apply AS; eapply Permutation_in; try apply sort_perm; assumption.
    - eapply Permutation_trans; [apply sort_perm|]. eapply Permutation_trans; [exact HP|apply Permutation_sym, sort_perm].
  Qed.
End Sort.

(* a map that respects the order commutes with the sort *)
Lemma insert_map {A B} (la : A -> A -> bool) (lb : B -> B -> bool) (f : A -> B) x l :
  (forall y, In y l -> lb (f x) (f y) = la x y) ->
  insert_by lb (f x) (map f l) = map f (insert_by la x l).
Proof.
  induction l as [|y l IH]; intros H; [reflexivity|]. cbn [map insert_by].
  rewrite (H y) by (left; reflexivity). destruct (la x y); [reflexivity|]. cbn [map]. f_equal.
  apply IH. intros z Hz. apply H. right. exact Hz.
Qed.

Lemma sort_map {A B} (la : A -> A -> bool) (lb : B -> B -> bool) (f : A -> B) l :
  (forall x y, In x l -> In y l -> lb (f x) (f y) = la x y) ->
  sort_by lb (map f l) = map f (sort_by la l).
Proof.
  induction l as [|x l IH]; intros H; [reflexivity|]. cbn [map]. rewrite !sort_by_cons.
  rewrite IH by (intros a b Ha Hb; apply H; right; assumption).
  apply insert_map. intros y Hy. apply H; [left; reflexivity|right].
  eapply Permutation_in; [apply sort_perm|exact Hy].
Qed.

(* ---------- the order on byte strings and on projected points ---------- *)
Lemma bytes_leb_total a : forall b, bytes_leb a b = false -> bytes_leb b a = true.
Proof.
  induction a as [|x a IH]; intros [|y b] H; cbn in *; try discriminate; try reflexivity.
  destruct (x <? y) eqn:E1; [discriminate|]. destruct (y <? x) eqn:E2; [reflexivity|]. apply IH, H.
Qed.

Lemma bytes_leb_trans a : forall b c, bytes_leb a b = true -> bytes_leb b c = true -> bytes_leb a c = true.
Proof.
  induction a as [|x a IH]; intros [|y b] [|z c] H1 H2; cbn in *; try discriminate; try reflexivity.
  destruct (x <? y) eqn:E1.
  - destruct (y <? z) eqn:E2.
    + assert (x <? z = true) as -> by (apply N.ltb_lt; apply N.ltb_lt in E1, E2; lia). reflexivity.
    + destruct (z <? y) eqn:E3; [discriminate|].
      assert (y = z) as <- by (apply N.ltb_ge in E2, E3; lia). rewrite E1. reflexivity.
  - destruct (y <? x) eqn:E1'; [discriminate|].
    assert (x = y) as <- by (apply N.ltb_ge in E1, E1'; lia).
    destruct (x <? z) eqn:E2; [reflexivity|]. destruct (z <? x) eqn:E3; [discriminate|]. eapply IH; eassumption.
Qed.

Lemma bytes_leb_antisym a : forall b, bytes_leb a b = true -> bytes_leb b a = true -> a = b.
Proof.
  induction a as [|x a IH]; intros [|y b] H1 H2; cbn in *; try discriminate; try reflexivity.
  destruct (x <? y) eqn:E1, (y <? x) eqn:E2; try discriminate.
  - apply N.ltb_lt in E1, E2. lia.
  - assert (x = y) as <- by (apply N.ltb_ge in E1, E2; lia). f_equal. apply IH; assumption.
Qed.

Lemma bytes_leb_refl a : bytes_leb a a = true.
Proof. induction a as [|x a IH]; [reflexivity|]. cbn. rewrite N.ltb_irrefl. exact IH. Qed.

Lemma bytes_eqb_false_ne a b : bytes_eqb a b = false -> a <> b.
Proof. intros H ->. rewrite bytes_eqb_refl in H. discriminate. Qed.

Lemma bytes_eqb_true a b : bytes_eqb a b = true -> a = b.
Proof. apply bytes_eqb_eq. Qed.

Lemma pp_leb_total a b : pp_leb a b = false -> pp_leb b a = true.
Proof.
  unfold pp_leb. rewrite (bytes_eqb_sym (pp_type b)). destruct (bytes_eqb (pp_type a) (pp_type b)); apply bytes_leb_total.
Qed.

Lemma pp_leb_trans a b c : pp_leb a b = true -> pp_leb b c = true -> pp_leb a c = true.
Proof.
  destruct a as [ta ka ? ? ?], b as [tb kb ? ? ?], c as [tc kc ? ? ?]. unfold pp_leb. cbn.
  destruct (bytes_eqb ta tb) eqn:E1, (bytes_eqb tb tc) eqn:E2.
  - apply bytes_eqb_true in E1, E2. subst. rewrite bytes_eqb_refl. apply bytes_leb_trans.
  - apply bytes_eqb_true in E1. subst. rewrite E2. intros _ H. exact H.
  - apply bytes_eqb_true in E2. subst. rewrite E1. intros H _. exact H.
  - intros H1 H2. destruct (bytes_eqb ta tc) eqn:E3.
    + apply bytes_eqb_true in E3. subst tc.
      apply bytes_eqb_false_ne in E1. exfalso. apply E1. apply bytes_leb_antisym; assumption.
    + eapply bytes_leb_trans; eassumption.
Qed.

(* the order decides type and key *)
Lemma pp_leb_antisym a b : pp_leb a b = true -> pp_leb b a = true -> pp_type a = pp_type b /\ pp_key a = pp_key b.
Proof.
  unfold pp_leb. rewrite (bytes_eqb_sym (pp_type b)).
  destruct (bytes_eqb (pp_type a) (pp_type b)) eqn:E; intros H1 H2.
  - split; [apply bytes_eqb_true, E|apply bytes_leb_antisym; assumption].
  - apply bytes_eqb_false_ne in E. exfalso. apply E, bytes_leb_antisym; assumption.
Qed.

(* ---------- rows with one point per identity ---------- *)
Lemma nodup_rows_in l : nodup_rows l -> forall x y, In x l -> In y l -> same_ident x y = true -> x = y.
Proof.
  induction l as [|q l IH]; intros H x y Hx Hy S; [destruct Hx|]. destruct H as [Hq Hl].
  destruct Hx as [<-|Hx], Hy as [<-|Hy]; try reflexivity.
  - rewrite (Hq _ Hy) in S. discriminate.
  - rewrite same_ident_sym, (Hq _ Hx) in S. discriminate.
  - apply IH; assumption.
Qed.

Lemma pp_of_same_ident p q :
  pp_type (pp_of p) = pp_type (pp_of q) -> pp_key (pp_of p) = pp_key (pp_of q) -> same_ident p q = true.
Proof. cbn. intros Ht Hk. unfold same_ident. apply ident_eqb_true. split; assumption. Qed.

Lemma proj_sort_perm (l l' : list point) :
  nodup_rows l -> Permutation l l' -> sort_by pp_leb (map pp_of l) = sort_by pp_leb (map pp_of l').
Proof.
  intros ND HP. apply sort_perm_eq; [apply pp_leb_total|apply pp_leb_trans| |apply Permutation_map, HP].
  intros a b Ha Hb H1 H2. apply in_map_iff in Ha as [p [<- Hp]]. apply in_map_iff in Hb as [q [<- Hq]].
  destruct (pp_leb_antisym _ _ H1 H2) as [Ht Hk]. f_equal.
  apply (nodup_rows_in l ND); [exact Hp|exact Hq|apply pp_of_same_ident; assumption].
Qed.

Lemma nodup_rows_filter h l : nodup_rows l -> nodup_rows (filter h l).
Proof.
  induction l as [|q l IH]; intros H; [exact I|]. destruct H as [Hq Hl]. cbn [filter].
  destruct (h q); [|apply IH, Hl]. split; [|apply IH, Hl].
  intros r Hr. apply filter_In in Hr as [Hr _]. apply Hq, Hr.
Qed.

(* ---------- export against the projection ---------- *)
Lemma norm_key_out k : norm_key (key_out k) = norm_key k.
Proof.
  unfold key_out. destruct (bytes_eqb k str_0) eqn:E; [|reflexivity].
  apply bytes_eqb_true in E. subst. reflexivity.
Qed.

Lemma pp_of_exp_point p : pp_of (exp_point p) = pp_of p.
Proof. unfold pp_of, exp_point. cbn. rewrite norm_key_out. reflexivity. Qed.

Lemma map_pp_of_exp l : map pp_of (map exp_point l) = map pp_of l.
Proof. rewrite map_map. apply map_ext. intros; apply pp_of_exp_point. Qed.

Lemma proj_pts_exp ps : nodup_rows ps -> proj_pts (exp_pts ps) = proj_pts ps.
Proof.
  intros ND. unfold proj_pts, exp_pts. rewrite map_pp_of_exp.
  symmetry. apply proj_sort_perm; [exact ND|]. apply Permutation_sym, sort_perm.
Qed.

(* tombstone edge points carry the key "0" (written "" or "0") *)
Definition tomb_keys_ok (es : list point) : Prop :=
  forall p, In p es -> bytes_eqb (p_type p) str_tombstone = true -> norm_key (p_key p) = str_0.

Lemma is_tomb0_exp p : is_tomb0 (exp_point p) = is_tomb0 p.
Proof. reflexivity. Qed.

Lemma pp_tomb0_of p : pp_tomb0 (pp_of p) = true -> is_tomb0 p = true.
Proof.
  unfold pp_tomb0, is_tomb0. cbn. rewrite !andb_true_iff. intros [[A _] B]. split; assumption.
Qed.

Lemma tomb0_pp_of es p : tomb_keys_ok es -> In p es -> pp_tomb0 (pp_of p) = is_tomb0 p.
Proof.
  intros OK Hp. unfold pp_tomb0, is_tomb0. cbn.
  destruct (bytes_eqb (p_type p) str_tombstone) eqn:E; [|reflexivity].
  rewrite (OK p Hp E), bytes_eqb_refl. reflexivity.
Qed.

Lemma filter_map_comm {A B} (f : A -> B) (h : B -> bool) l : filter h (map f l) = map f (filter (fun x => h (f x)) l).
Proof. induction l as [|x l IH]; [reflexivity|]. cbn. destruct (h (f x)); cbn; rewrite IH; reflexivity. Qed.

Lemma filter_ext_in' {A} (f g : A -> bool) l : (forall x, In x l -> f x = g x) -> filter f l = filter g l.
Proof.
  induction l as [|x l IH]; intros H; [reflexivity|]. cbn. rewrite (H x) by (left; reflexivity).
  rewrite IH by (intros y Hy; apply H; right; exact Hy). reflexivity.
Qed.

Lemma filter_all {A} (f : A -> bool) l : (forall x, In x l -> f x = true) -> filter f l = l.
Proof.
  induction l as [|x l IH]; intros H; [reflexivity|]. cbn. rewrite (H x) by (left; reflexivity).
  f_equal. apply IH. intros y Hy. apply H. right. exact Hy.
Qed.

Lemma proj_epts_exp es : nodup_rows es -> tomb_keys_ok es -> proj_epts (exp_epts es) = proj_epts es.
Proof.
  intros ND OK. unfold proj_epts, exp_epts.
  set (f := fun p => negb (is_tomb0 p)).
  (* left: the second filter removes nothing *)
  rewrite (filter_map_comm exp_point).
  rewrite (filter_ext_in' _ f) by (intros; reflexivity).
  rewrite map_pp_of_exp, (filter_map_comm pp_of).
  rewrite (filter_all _ (filter f (sort_points es))).
  2:{ intros p Hp. apply filter_In in Hp as [_ Hp]. unfold f in Hp.
      destruct (pp_tomb0 (pp_of p)) eqn:E; [|reflexivity]. apply pp_tomb0_of in E. rewrite E in Hp. discriminate. }
  (* right *)
  rewrite (filter_map_comm pp_of).
  rewrite (filter_ext_in' _ f es) by (intros p Hp; unfold f; rewrite (tomb0_pp_of es p OK Hp); reflexivity).
  symmetry. apply proj_sort_perm; [apply nodup_rows_filter, ND|].
  (* filtering a permutation *)
  assert (HP : Permutation es (sort_points es)) by (apply Permutation_sym, sort_perm).
  clear -HP. induction HP; cbn.
  - constructor.
  - destruct (f x); [apply perm_skip|]; assumption.
  - destruct (f x), (f y); try apply perm_swap; try apply perm_skip; apply Permutation_refl.
  - eapply Permutation_trans; eassumption.
Qed.

(* deleted or not: decided by the one tombstone point with key "0" *)
Lemma find_unique_perm {A} (f : A -> bool) l l' :
  (forall x y, In x l -> In y l -> f x = true -> f y = true -> x = y) ->
  Permutation l l' -> find f l = find f l'.
Proof.
  intros U HP. induction HP.
  - reflexivity.
  - cbn. destruct (f x); [reflexivity|]. apply IHHP. intros a b Ha Hb. apply U; right; assumption.
  - cbn. destruct (f x) eqn:Ex, (f y) eqn:Ey; try reflexivity.
    f_equal. apply U; [left; reflexivity|right; left; reflexivity|assumption|assumption].
  - rewrite IHHP1 by exact U. apply IHHP2.
    intros a b Ha Hb. apply U; eapply Permutation_in; try (apply Permutation_sym; exact HP1); assumption.
Qed.

Lemma tomb_key0_same p q : is_tomb_key0 p = true -> is_tomb_key0 q = true -> same_ident p q = true.
Proof.
  unfold is_tomb_key0. rewrite !andb_true_iff. intros [A B] [C D].
  apply bytes_eqb_true in A, B, C, D. unfold same_ident. apply ident_eqb_true. split; congruence.
Qed.

Lemma is_tomb_key0_exp p : is_tomb_key0 (exp_point p) = is_tomb_key0 p.
Proof. unfold is_tomb_key0, exp_point. cbn. rewrite norm_key_out. reflexivity. Qed.

Lemma find_map {A B} (f : A -> B) (h : B -> bool) l : find h (map f l) = option_map f (find (fun x => h (f x)) l).
Proof. induction l as [|x l IH]; [reflexivity|]. cbn. destruct (h (f x)); [reflexivity|exact IH]. Qed.

Lemma find_filter_unique {A} (f g : A -> bool) l :
  (forall x y, In x l -> In y l -> f x = true -> f y = true -> x = y) ->
  find f (filter g l) = match find f l with Some x => if g x then Some x else None | None => None end.
Proof.
  induction l as [|x l IH]; intros U; [reflexivity|]. cbn [filter find].
  assert (U' : forall a b, In a l -> In b l -> f a = true -> f b = true -> a = b)
    by (intros a b Ha Hb; apply U; right; assumption).
  destruct (f x) eqn:Fx.
  - destruct (g x) eqn:Gx; [cbn; rewrite Fx; reflexivity|].
    rewrite IH by exact U'. destruct (find f l) as [y|] eqn:Fy; [|reflexivity].
    apply find_some in Fy as [Iy Fy].
    assert (x = y) as <- by (apply U; [left; reflexivity|right; exact Iy|exact Fx|exact Fy]).
    rewrite Gx. reflexivity.
  - destruct (g x); [cbn; rewrite Fx|]; apply IH, U'.
Qed.

Lemma find_ext' {A} (f g : A -> bool) l : (forall x, f x = g x) -> find f l = find g l.
Proof. intros H. induction l as [|x l IH]; [reflexivity|]. cbn. rewrite H, IH. reflexivity. Qed.

Lemma deleted_exp es : nodup_rows es -> deleted (exp_epts es) = deleted es.
Proof.
  intros ND. unfold deleted, tomb_val, exp_epts.
  assert (U : forall x y, In x es -> In y es -> is_tomb_key0 x = true -> is_tomb_key0 y = true -> x = y).
  { intros x y Hx Hy A B. apply (nodup_rows_in es ND); [exact Hx|exact Hy|apply tomb_key0_same; assumption]. }
  rewrite filter_map_comm, find_map.
  rewrite (find_filter_unique (fun x => is_tomb_key0 (exp_point x))).
  2:{ intros x y Hx Hy. rewrite !is_tomb_key0_exp. intros A B.
      apply U; try assumption; (eapply Permutation_in; [apply sort_perm|eassumption]). }
  rewrite (find_ext' _ is_tomb_key0) by (intros; apply is_tomb_key0_exp).
  rewrite <- (find_unique_perm is_tomb_key0 es (sort_points es) U) by (apply Permutation_sym, sort_perm).
  destruct (find is_tomb_key0 es) as [p|]; [|reflexivity].
  rewrite is_tomb0_exp. unfold is_tomb0.
  destruct (bytes_eqb (p_type p) str_tombstone); cbn [andb negb option_map]; [|reflexivity].
  destruct (f64_is_zero (p_val p)) eqn:Z; cbn [negb option_map]; [|reflexivity].
  (* a zero is not the value 1 *)
  unfold f64_is_one. unfold f64_is_zero in Z. apply andb_true_iff in Z as [Z1 Z2].
  destruct (p_val p =? 0x3FF0000000000000) eqn:E; [|reflexivity].
  apply N.eqb_eq in E. rewrite E in Z1. vm_compute in Z1. discriminate.
Qed.

(* ---------- well-formed trees: rows as the store keeps them ---------- *)
(* every subtree, in pre-order, deleted parts included *)
Fixpoint flat (t : tree) : list tree :=
  match t with
  | Node i ty pa ps es ks =>
      Node i ty pa ps es ks ::
      (fix go (l : list tree) : list tree := match l with [] => [] | k :: l' => flat k ++ go l' end) ks
  end.
Lemma flat_eq i ty pa ps es ks : flat (Node i ty pa ps es ks) = Node i ty pa ps es ks :: flat_map flat ks.
Proof. reflexivity. Qed.

Lemma Forall_flat_map' {A B} (P : B -> Prop) (f : A -> list B) l :
  Forall P (flat_map f l) <-> Forall (fun x => Forall P (f x)) l.
Proof.
  induction l as [|x l IH]; cbn; [split; constructor|]. rewrite Forall_app, IH. split.
  - intros [A1 A2]. constructor; assumption.
  - intros H. inversion H; subst. split; assumption.
Qed.

(* one point per identity in the node and edge rows; tombstone edge points keyed "0" *)
Definition node_ok (t : tree) : Prop :=
  nodup_rows (t_pts t) /\ nodup_rows (t_epts t) /\ tomb_keys_ok (t_epts t).
Definition wf_tree (t : tree) : Prop := Forall node_ok (flat t).

Lemma wf_tree_inv i ty pa ps es ks :
  wf_tree (Node i ty pa ps es ks) ->
  nodup_rows ps /\ nodup_rows es /\ tomb_keys_ok es /\ Forall wf_tree ks.
Proof.
  unfold wf_tree. rewrite flat_eq. intros H. inversion H as [|? ? [A [B C]] D]; subst.
  apply Forall_flat_map' in D. repeat split; assumption.
Qed.

Lemma live_export k : wf_tree k -> live (export_norm k) = live k.
Proof.
  destruct k as [i ty pa ps es ks]. intros H. apply wf_tree_inv in H as [_ [ND _]].
  rewrite export_norm_eq. unfold live, tree_deleted. cbn [t_epts]. rewrite deleted_exp by exact ND. reflexivity.
Qed.

Lemma filter_live_export l :
  Forall wf_tree l -> filter live (map export_norm l) = map export_norm (filter live l).
Proof.
  induction 1 as [|k l Hk Hl IH]; [reflexivity|]. cbn [map filter]. rewrite (live_export k Hk).
  destruct (live k); cbn [map]; rewrite IH; reflexivity.
Qed.

Lemma filter_idem {A} (f : A -> bool) l : filter f (filter f l) = filter f l.
Proof. apply filter_all. intros x Hx. apply filter_In in Hx as [_ Hx]. exact Hx. Qed.

Lemma Forall_filter {A} (P : A -> Prop) (f : A -> bool) l : Forall P l -> Forall P (filter f l).
Proof. intros H. apply Forall_forall. intros x Hx. apply filter_In in Hx as [Hx _]. revert x Hx. apply Forall_forall, H. Qed.

(* what the export leaves out is invisible to the projection *)
Theorem project_export_norm t : wf_tree t -> project (export_norm t) = project t.
Proof.
  induction t as [i ty pa ps es ks IH] using tree_rect'. intros W.
  apply wf_tree_inv in W as [NP [NE [TK WK]]].
  rewrite export_norm_eq, !project_eq. rewrite proj_pts_exp, proj_epts_exp by assumption.
  f_equal. f_equal.
  rewrite filter_live_export by (apply Forall_filter, WK). rewrite filter_idem, map_map.
  apply map_ext_in. intros k Hk. apply filter_In in Hk as [Hk _].
  rewrite Forall_forall in IH, WK. apply IH; [exact Hk|apply WK, Hk].
Qed.

(* deleted nodes are not exported *)
Theorem export_all_live t : wf_tree t -> all_live (export_norm t) = true.
Proof.
  induction t as [i ty pa ps es ks IH] using tree_rect'. intros W.
  apply wf_tree_inv in W as [_ [_ [_ WK]]].
  rewrite export_norm_eq, all_live_eq. apply forallb_forall. intros k' Hk'.
  apply in_map_iff in Hk' as [k [<- Hk]]. apply filter_In in Hk as [Hk Lk].
  rewrite Forall_forall in IH, WK. rewrite (live_export k (WK k Hk)), Lk, (IH k Hk (WK k Hk)). reflexivity.
Qed.

Lemma flat_map_ext_in' {A B} (f g : A -> list B) l : (forall x, In x l -> f x = g x) -> flat_map f l = flat_map g l.
Proof.
  induction l as [|x l IH]; intros H; [reflexivity|]. cbn. rewrite (H x) by (left; reflexivity).
  f_equal. apply IH. intros y Hy. apply H. right. exact Hy.
Qed.
Lemma flat_map_map {A B C} (f : B -> list C) (g : A -> B) l : flat_map f (map g l) = flat_map (fun x => f (g x)) l.
Proof. induction l as [|x l IH]; [reflexivity|]. cbn. rewrite IH. reflexivity. Qed.

(* the identifiers in the export are those reachable through live edges *)
Theorem export_ids t : all_ids (export_norm t) = live_ids t.
Proof.
  induction t as [i ty pa ps es ks IH] using tree_rect'.
  rewrite export_norm_eq, all_ids_eq, live_ids_eq. f_equal. rewrite flat_map_map.
  apply flat_map_ext_in'. intros k Hk. apply filter_In in Hk as [Hk _].
  rewrite Forall_forall in IH. apply IH, Hk.
Qed.

(* ---------- marker, new parent, renaming: on trees and on projections ---------- *)
Definition is_ref (p : point) : bool := bytes_eqb (p_type p) str_nodeID && negb (is_empty (p_text p)).
Definition ren_point (rho : bytes -> bytes) (p : point) : point :=
  if is_ref p then with_text p (rho (p_text p)) else p.
(* replaceHelper with the final id map: node ids, parent fields, text of nodeID points *)
Fixpoint ren_tree (rho : bytes -> bytes) (parent : bytes) (t : tree) : tree :=
  match t with
  | Node i ty _ ps es ks => Node (rho i) ty parent (map (ren_point rho) ps) es (map (ren_tree rho (rho i)) ks)
  end.

(* each child names its parent *)
Definition well_parented (t : tree) : Prop :=
  Forall (fun n => Forall (fun k => t_parent k = t_id n) (t_kids n)) (flat t).

Lemma well_parented_inv i ty pa ps es ks :
  well_parented (Node i ty pa ps es ks) -> Forall (fun k => t_parent k = i) ks /\ Forall well_parented ks.
Proof.
  unfold well_parented. rewrite flat_eq. intros H. inversion H as [|? ? A B]; subst.
  apply Forall_flat_map' in B. split; assumption.
Qed.

Lemma pp_of_mark p : pp_of (mark_point p) = pmark_point (pp_of p).
Proof. unfold mark_point, pmark_point. cbn. destruct (bytes_eqb (p_type p) str_description); reflexivity. Qed.

Lemma pp_leb_pmark a b : pp_leb (pmark_point a) (pmark_point b) = pp_leb a b.
Proof.
  unfold pmark_point.
  destruct (bytes_eqb (pp_type a) str_description), (bytes_eqb (pp_type b) str_description); reflexivity.
Qed.

Lemma project_mark t : project (mark t) = pmark (project t).
Proof.
  destruct t as [i ty pa ps es ks]. cbn [mark]. rewrite !project_eq. cbn [pmark]. f_equal.
  unfold proj_pts. rewrite map_map. rewrite (map_ext _ (fun p => pmark_point (pp_of p))) by (intros; apply pp_of_mark).
  rewrite <- (map_map pp_of pmark_point). apply sort_map. intros; apply pp_leb_pmark.
Qed.

Lemma project_reparent parent t : project (reparent parent t) = set_parent parent (project t).
Proof. destruct t as [i ty pa ps es ks]. cbn [reparent]. rewrite !project_eq. reflexivity. Qed.

Lemma pp_of_ren rho p : pp_of (ren_point rho p) = pren_point rho (pp_of p).
Proof.
  unfold ren_point, pren_point, is_ref, pp_is_ref. cbn.
  destruct (bytes_eqb (p_type p) str_nodeID && negb (is_empty (p_text p))); reflexivity.
Qed.

Lemma pp_leb_pren rho a b : pp_leb (pren_point rho a) (pren_point rho b) = pp_leb a b.
Proof. unfold pren_point. destruct (pp_is_ref a), (pp_is_ref b); reflexivity. Qed.

Lemma pp_sig_pren rho q : pp_sig (pren_point rho q) = pp_sig q.
Proof.
  unfold pren_point. destruct (pp_is_ref q) eqn:E; [|reflexivity].
  unfold pp_sig. cbn [pp_with_text pp_type pp_key pp_val pp_text pp_tomb]. rewrite E.
  unfold pp_is_ref in *. cbn [pp_with_text pp_type pp_text].
  apply andb_true_iff in E as [E1 _]. rewrite E1. cbn [andb].
  destruct (rho (pp_text q)); reflexivity.
Qed.

Lemma q_sig_pmap rho t : q_sig (pmap_ids rho t) = q_sig t.
Proof.
  destruct t as [i ty pa ps es ks]. cbn [pmap_ids q_sig]. f_equal. f_equal.
  rewrite flat_map_map. apply flat_map_ext_in'. intros; apply pp_sig_pren.
Qed.

Lemma q_parent_pmap rho t : q_parent (pmap_ids rho t) = rho (q_parent t).
Proof. destruct t; reflexivity. Qed.

Lemma set_parent_same t : set_parent (q_parent t) t = t.
Proof. destruct t; reflexivity. Qed.

Lemma q_parent_project t : q_parent (project t) = t_parent t.
Proof. destruct t. rewrite project_eq. reflexivity. Qed.

Lemma live_ren rho parent k : live (ren_tree rho parent k) = live k.
Proof. destruct k; reflexivity. Qed.

Lemma filter_live_ren rho parent l : filter live (map (ren_tree rho parent) l) = map (ren_tree rho parent) (filter live l).
Proof.
  induction l as [|k l IH]; [reflexivity|]. cbn [map filter]. rewrite live_ren.
  destruct (live k); cbn [map]; rewrite IH; reflexivity.
Qed.

Theorem project_ren rho parent t :
  well_parented t -> project (ren_tree rho parent t) = set_parent parent (pmap_ids rho (project t)).
Proof.
  revert parent. induction t as [i ty pa ps es ks IH] using tree_rect'. intros parent W.
  apply well_parented_inv in W as [WP WK].
  cbn [ren_tree]. rewrite !project_eq. cbn [pmap_ids set_parent]. f_equal.
  - unfold proj_pts. rewrite map_map. rewrite (map_ext _ (fun p => pren_point rho (pp_of p))) by (intros; apply pp_of_ren).
    rewrite <- (map_map pp_of (pren_point rho)). apply sort_map. intros; apply pp_leb_pren.
  - rewrite filter_live_ren, map_map.
    rewrite (map_ext_in _ (fun k => pmap_ids rho (project k))).
    + rewrite <- (map_map project (pmap_ids rho)). apply sort_map.
      intros x y _ _. unfold q_leb. rewrite !q_sig_pmap. reflexivity.
    + intros k Hk. apply filter_In in Hk as [Hk _]. rewrite Forall_forall in IH, WP, WK.
      rewrite (IH k Hk (rho i) (WK k Hk)).
      rewrite <- (WP k Hk), <- q_parent_project, <- q_parent_pmap. apply set_parent_same.
Qed.

(* ---------- ReplaceIDs is a renaming ---------- *)
Section ReplaceProofs.
  Variable fresh : nat -> bytes.
  Hypothesis fresh_inj : forall a b, fresh a = fresh b -> a = b.

  Definition inv (s : rstate) : Prop :=
    (forall k v, lookup_id (fst s) k = Some v -> exists j, (j < snd s)%nat /\ v = fresh j) /\
    (forall k1 k2 v, lookup_id (fst s) k1 = Some v -> lookup_id (fst s) k2 = Some v -> k1 = k2).
  Definition ext (s s' : rstate) : Prop :=
    (snd s <= snd s')%nat /\ forall k v, lookup_id (fst s) k = Some v -> lookup_id (fst s') k = Some v.

  Lemma ext_refl s : ext s s.
  Proof. split; [lia|auto]. Qed.
  Lemma ext_trans a b c : ext a b -> ext b c -> ext a c.
  Proof. intros [A1 A2] [B1 B2]. split; [lia|auto]. Qed.

  Lemma lookup_cons a b m x : lookup_id ((a, b) :: m) x = if bytes_eqb a x then Some b else lookup_id m x.
  Proof. reflexivity. Qed.

  (* adding a key that is not there, bound to the next fresh identifier *)
  Lemma add_fresh m n x :
    inv (m, n) -> lookup_id m x = None ->
    inv ((x, fresh n) :: m, S n) /\ ext (m, n) ((x, fresh n) :: m, S n) /\
    lookup_id ((x, fresh n) :: m) x = Some (fresh n).
  Proof.
    intros [I1 I2] Hx. cbn [fst snd] in *. repeat split; cbn [fst snd].
    - intros k v. rewrite lookup_cons. destruct (bytes_eqb x k).
      + intros [= <-]. exists n. split; [lia|reflexivity].
      + intros H. destruct (I1 k v H) as [j [Hj ->]]. exists j. split; [lia|reflexivity].
    - intros k1 k2 v. rewrite !lookup_cons.
      destruct (bytes_eqb x k1) eqn:E1, (bytes_eqb x k2) eqn:E2.
      + apply bytes_eqb_true in E1, E2. congruence.
      + intros [= <-] H. destruct (I1 k2 _ H) as [j [Hj Hf]]. apply fresh_inj in Hf. lia.
      + intros H [= <-]. destruct (I1 k1 _ H) as [j [Hj Hf]]. apply fresh_inj in Hf. lia.
      + apply I2.
    - lia.
    - intros k v H. rewrite lookup_cons. destruct (bytes_eqb x k) eqn:E; [|exact H].
      apply bytes_eqb_true in E. subst. rewrite Hx in H. discriminate.
    - rewrite lookup_cons, bytes_eqb_refl. reflexivity.
  Qed.

  Lemma rep_id_spec x s y s' :
    rep_id fresh x s = (y, s') -> x <> [] -> inv s ->
    inv s' /\ ext s s' /\ lookup_id (fst s') x = Some y.
  Proof.
    destruct s as [m n]. unfold rep_id. destruct x as [|c x]; [intros _ H; contradiction|]. cbn [is_empty].
    destruct (lookup_id m (c :: x)) as [v|] eqn:L; intros [= <- <-] _ I.
    - split; [exact I|split; [apply ext_refl|exact L]].
    - apply add_fresh; assumption.
  Qed.

  Lemma rho_of_lookup m x y : lookup_id m x = Some y -> rho_of m x = y.
  Proof. unfold rho_of. intros ->. reflexivity. Qed.

  Definition covers_point (m : idmap) (p : point) : Prop := is_ref p = true -> lookup_id m (p_text p) <> None.

  Lemma rep_point_spec p s p' s' :
    rep_point fresh p s = (p', s') -> inv s ->
    inv s' /\ ext s s' /\ p' = ren_point (rho_of (fst s')) p /\ covers_point (fst s') p.
  Proof.
    destruct s as [m n]. unfold rep_point, ren_point, covers_point, is_ref.
    destruct (bytes_eqb (p_type p) str_nodeID && negb (is_empty (p_text p))) eqn:R.
    - destruct (lookup_id m (p_text p)) as [v|] eqn:L; intros [= <- <-] I.
      + cbn [fst]. rewrite (rho_of_lookup _ _ _ L).
        split; [exact I|split; [apply ext_refl|split; [reflexivity|]]].
        intros _. rewrite L. discriminate.
      + destruct (add_fresh m n (p_text p) I L) as [A [B C]]. cbn [fst].
        rewrite (rho_of_lookup _ _ _ C).
        split; [exact A|split; [exact B|split; [reflexivity|]]].
        intros _. rewrite C. discriminate.
    - intros [= <- <-] I. split; [exact I|split; [apply ext_refl|split; [reflexivity|discriminate]]].
  Qed.

  Lemma ren_point_agree rho rho' p :
    (is_ref p = true -> rho (p_text p) = rho' (p_text p)) -> ren_point rho p = ren_point rho' p.
  Proof. unfold ren_point. destruct (is_ref p); [intros ->; reflexivity|reflexivity]. Qed.

  Lemma covers_ext s s' p : ext s s' -> covers_point (fst s) p ->
    covers_point (fst s') p /\ ren_point (rho_of (fst s')) p = ren_point (rho_of (fst s)) p.
  Proof.
    intros [_ E] C. split.
    - intros R. specialize (C R). destruct (lookup_id (fst s) (p_text p)) as [v|] eqn:L; [|contradiction].
      rewrite (E _ _ L). discriminate.
    - apply ren_point_agree. intros R. specialize (C R).
      destruct (lookup_id (fst s) (p_text p)) as [v|] eqn:L; [|contradiction].
      unfold rho_of. rewrite L, (E _ _ L). reflexivity.
  Qed.

  Lemma rep_points_spec ps : forall s ps' s',
    rep_points fresh ps s = (ps', s') -> inv s ->
    inv s' /\ ext s s' /\ ps' = map (ren_point (rho_of (fst s'))) ps /\ Forall (covers_point (fst s')) ps.
  Proof.
    induction ps as [|p ps IH]; intros s ps' s' H I; cbn [rep_points] in H.
    - injection H as <- <-. split; [exact I|split; [apply ext_refl|split; [reflexivity|constructor]]].
    - destruct (rep_point fresh p s) as [p1 s1] eqn:E1. destruct (rep_points fresh ps s1) as [r s2] eqn:E2.
      injection H as <- <-.
      destruct (rep_point_spec _ _ _ _ E1 I) as [I1 [X1 [-> C1]]].
      destruct (IH _ _ _ E2 I1) as [I2 [X2 [-> C2]]].
      destruct (covers_ext _ _ _ X2 C1) as [C1' R1].
      split; [exact I2|split; [eapply ext_trans; eassumption|split]].
      + cbn [map]. rewrite R1. reflexivity.
      + constructor; assumption.
  Qed.

  (* identifiers a tree mentions: node ids and the text of its nodeID points *)
  Definition covers_node (m : idmap) (n : tree) : Prop :=
    lookup_id m (t_id n) <> None /\ Forall (covers_point m) (t_pts n).
  Definition covers (m : idmap) (t : tree) : Prop := Forall (covers_node m) (flat t).
  Definition nonblank (t : tree) : Prop := Forall (fun n => t_id n <> []) (flat t).

  Lemma covers_inv m i ty pa ps es ks :
    covers m (Node i ty pa ps es ks) <-> (lookup_id m i <> None /\ Forall (covers_point m) ps /\ Forall (covers m) ks).
  Proof.
    unfold covers. rewrite flat_eq. split.
    - intros H. inversion H as [|? ? [A B] C]; subst. apply Forall_flat_map' in C. auto.
    - intros [A [B C]]. constructor; [split; assumption|]. apply Forall_flat_map'. exact C.
  Qed.

  Lemma covers_mono s s' t : ext s s' -> covers (fst s) t -> covers (fst s') t.
  Proof.
    intros X. unfold covers. apply Forall_impl. intros n [A B]. split.
    - destruct (lookup_id (fst s) (t_id n)) as [v|] eqn:L; [|contradiction]. rewrite (proj2 X _ _ L). discriminate.
    - eapply Forall_impl; [|exact B]. intros p C. apply (covers_ext _ _ _ X C).
  Qed.

  Lemma ren_tree_agree s s' t : ext s s' -> covers (fst s) t ->
    forall parent, ren_tree (rho_of (fst s')) parent t = ren_tree (rho_of (fst s)) parent t.
  Proof.
    intros X. induction t as [i ty pa ps es ks IH] using tree_rect'. intros C parent.
    apply covers_inv in C as [Ci [Cp Ck]]. cbn [ren_tree].
    assert (Ri : rho_of (fst s') i = rho_of (fst s) i).
    { destruct (lookup_id (fst s) i) as [v|] eqn:L; [|contradiction]. unfold rho_of. rewrite L, (proj2 X _ _ L). reflexivity. }
    rewrite Ri. f_equal.
    - apply map_ext_in. intros p Hp. rewrite Forall_forall in Cp. apply (covers_ext _ _ _ X (Cp p Hp)).
    - apply map_ext_in. intros k Hk. rewrite Forall_forall in IH, Ck. apply IH; [exact Hk|apply Ck, Hk].
  Qed.

  (* threading the state through a list of children *)
  Section Thread.
    Variable f : tree -> rstate -> tree * rstate.
    Fixpoint thread (l : list tree) (s : rstate) : list tree * rstate :=
      match l with
      | [] => ([], s)
      | k :: l' => let '(k', sa) := f k s in let '(r, sb) := thread l' sa in (k' :: r, sb)
      end.
  End Thread.

  Lemma rep_tree_eq i ty pa ps es ks parent s :
    rep_tree fresh (Node i ty pa ps es ks) parent s =
    let '(i', s1) := rep_id fresh i s in
    let '(ps', s2) := rep_points fresh ps s1 in
    let '(ks', s3) := thread (fun k => rep_tree fresh k i') ks s2 in
    (Node i' ty parent ps' es ks', s3).
  Proof. reflexivity. Qed.

  Lemma thread_spec (f : tree -> rstate -> tree * rstate) parent ks :
    Forall (fun k => forall s k' s', f k s = (k', s') -> inv s ->
                     inv s' /\ ext s s' /\ k' = ren_tree (rho_of (fst s')) parent k /\ covers (fst s') k) ks ->
    forall s ks' s', thread f ks s = (ks', s') -> inv s ->
    inv s' /\ ext s s' /\ ks' = map (ren_tree (rho_of (fst s')) parent) ks /\ Forall (covers (fst s')) ks.
  Proof.
    induction 1 as [|k ks Hk Hks IH]; intros s ks' s' H I; cbn [thread] in H.
    - injection H as <- <-. split; [exact I|split; [apply ext_refl|split; [reflexivity|constructor]]].
    - destruct (f k s) as [k1 s1] eqn:E1. destruct (thread f ks s1) as [r s2] eqn:E2. injection H as <- <-.
      destruct (Hk _ _ _ E1 I) as [I1 [X1 [-> C1]]].
      destruct (IH _ _ _ E2 I1) as [I2 [X2 [-> C2]]].
      split; [exact I2|split; [eapply ext_trans; eassumption|split]].
      + cbn [map]. rewrite (ren_tree_agree _ _ _ X2 C1). reflexivity.
      + constructor; [eapply covers_mono; eassumption|exact C2].
  Qed.

  Lemma rep_tree_spec t : forall parent s t' s',
    rep_tree fresh t parent s = (t', s') -> nonblank t -> inv s ->
    inv s' /\ ext s s' /\ t' = ren_tree (rho_of (fst s')) parent t /\ covers (fst s') t.
  Proof.
    induction t as [i ty pa ps es ks IH] using tree_rect'. intros parent s t' s' H NB I.
    rewrite rep_tree_eq in H.
    destruct (rep_id fresh i s) as [i1 s1] eqn:E1.
    destruct (rep_points fresh ps s1) as [ps1 s2] eqn:E2.
    destruct (thread (fun k => rep_tree fresh k i1) ks s2) as [ks1 s3] eqn:E3.
    injection H as <- <-.
    unfold nonblank in NB. rewrite flat_eq in NB. inversion NB as [|? ? NBi NBk]; subst. cbn [t_id] in NBi.
    apply Forall_flat_map' in NBk.
    destruct (rep_id_spec _ _ _ _ E1 NBi I) as [I1 [X1 L1]].
    destruct (rep_points_spec _ _ _ _ E2 I1) as [I2 [X2 [-> C2]]].
    assert (HK : Forall (fun k => forall s k' s', rep_tree fresh k i1 s = (k', s') -> inv s ->
                inv s' /\ ext s s' /\ k' = ren_tree (rho_of (fst s')) i1 k /\ covers (fst s') k) ks).
    { rewrite Forall_forall in IH, NBk |- *. intros k Hk s0 k' s0' E I0. eapply IH; eauto. apply NBk, Hk. }
    destruct (thread_spec _ i1 ks HK _ _ _ E3 I2) as [I3 [X3 [-> C3]]].
    assert (X13 : ext s1 s3) by (eapply ext_trans; eassumption).
    assert (L3 : lookup_id (fst s3) i = Some i1) by (apply (proj2 X13), L1).
    split; [exact I3|split; [|split]].
    - eapply ext_trans; [exact X1|exact X13].
    - cbn [ren_tree]. rewrite (rho_of_lookup _ _ _ L3). f_equal.
      apply map_ext_in. intros p Hp. rewrite Forall_forall in C2. symmetry. apply (covers_ext _ _ _ X3 (C2 p Hp)).
    - apply covers_inv. split; [rewrite L3; discriminate|]. split; [|exact C3].
      eapply Forall_impl; [|exact C2]. intros p C. apply (covers_ext _ _ _ X3 C).
  Qed.

  (* ReplaceIDs renames with one map: equal identifiers (mirrors, references) get one new identifier,
     different identifiers get different ones, every new identifier is one of the generated ones *)
  Theorem replace_ids_renaming t parent :
    nonblank t ->
    exists m,
      replace_ids fresh t parent = ren_tree (rho_of m) parent t /\
      covers m t /\
      (forall k1 k2 v, lookup_id m k1 = Some v -> lookup_id m k2 = Some v -> k1 = k2) /\
      (forall k v, lookup_id m k = Some v -> exists j, v = fresh j).
  Proof.
    intros NB. unfold replace_ids. destruct (rep_tree fresh t parent ([], 0%nat)) as [t' [m n]] eqn:E.
    assert (I0 : inv ([], 0%nat)) by (split; cbn; intros; discriminate).
    destruct (rep_tree_spec t _ _ _ _ E NB I0) as [[I1 I2] [_ [-> C]]]. cbn [fst snd] in *.
    exists m. repeat split; try assumption.
    intros k v H. destruct (I1 k v H) as [j [_ ->]]. exists j. reflexivity.
  Qed.
End ReplaceProofs.
