(* C15, store level: SendNode per node in pre-order onto a store that knows none
   of the identifiers, and the GetNodes walk of the result.  Trees whose node
   identifiers are pairwise different (no mirror inside the imported tree). *)
From Coq Require Import List NArith ZArith Bool Lia Arith Permutation.
From Verif Require Import Base.Bytes Base.Val Store.Model Store.ProofsRows.
Require Import Verif.Export.Model Verif.Export.ProofsTree.
Import ListNotations.
Local Open Scope N_scope.

(* ---------- rows: a batch of points with pairwise different identities lands as it is ---------- *)
Lemma ins_new acc p : (forall q, In q acc -> same_ident q p = false) -> newest_ins acc p = acc ++ [p].
Proof.
  induction acc as [|q acc IH]; intros H; [reflexivity|]. cbn [newest_ins app].
  rewrite (H q) by (left; reflexivity). f_equal. apply IH. intros r Hr. apply H. right. exact Hr.
Qed.

Lemma nodup_rows_mid a : forall p l, nodup_rows (a ++ p :: l) -> forall q, In q a -> same_ident q p = false.
Proof.
  induction a as [|x a IH]; intros p l H q Hq; [destruct Hq|]. cbn in H. destruct H as [Hx Hr].
  destruct Hq as [<-|Hq]; [apply Hx, in_or_app; right; left; reflexivity|]. eapply IH; eassumption.
Qed.

Lemma fold_ins_nodup l : forall acc, nodup_rows (acc ++ l) -> fold_left newest_ins l acc = acc ++ l.
Proof.
  induction l as [|p l IH]; intros acc H; [rewrite app_nil_r; reflexivity|]. cbn [fold_left].
  rewrite ins_new by (apply (nodup_rows_mid acc p l H)).
  rewrite IH; rewrite <- app_assoc; [reflexivity|exact H].
Qed.

Lemma fold_left_ext' {A B} (f g : A -> B -> A) l : (forall a b, f a b = g a b) -> forall a, fold_left f l a = fold_left g l a.
Proof. intros H. induction l as [|x l IH]; intros a; [reflexivity|]. cbn. rewrite H. apply IH. Qed.

Lemma collapse_nodup pts : nodup_rows pts -> collapse pts = pts.
Proof.
  intros H. destruct pts as [|p1 [|p2 r]]; try reflexivity. unfold collapse.
  rewrite (fold_left_ext' collapse_ins newest_ins) by (intros; apply collapse_ins_ins).
  apply (fold_ins_nodup _ []). exact H.
Qed.

Lemma nodup_rows_map f l :
  (forall p q, same_ident (f p) (f q) = same_ident p q) -> nodup_rows l -> nodup_rows (map f l).
Proof.
  intros Hf. induction l as [|x l IH]; intros H; [exact I|]. destruct H as [Hx Hl]. cbn [map]. split; [|apply IH, Hl].
  intros r Hr. apply in_map_iff in Hr as [y [<- Hy]]. rewrite Hf. apply Hx, Hy.
Qed.

Lemma same_ident_normp p q : same_ident (normp p) (normp q) = same_ident p q.
Proof. rewrite same_ident_normp_l, same_ident_normp_r. reflexivity. Qed.

Lemma rows_of_batch skip pts :
  nodup_rows pts -> (skip = true -> Forall (fun p => not_nt p = true) pts) ->
  fst (merge_batch skip [] pts) = map normp pts.
Proof.
  intros ND NT. rewrite merge_batch_ins by constructor.
  assert (E : (if skip then filter not_nt pts else pts) = pts).
  { destruct skip; [|reflexivity]. apply filter_all. apply Forall_forall, NT. reflexivity. }
  rewrite E. apply (fold_ins_nodup _ []). cbn [app]. apply nodup_rows_map; [apply same_ident_normp|exact ND].
Qed.

(* ---------- what SendNode sends ---------- *)
Section Send.
  Variable now : Z.
  Variable origin : bytes.

  Definition prep (p : point) : point := stamp now (fill_origin origin p).
  Definition esent (es : list point) : list point :=
    match map prep es with [] => [default_tombstone now origin] | l => l end.
  Definition nrows (ps : list point) : list point := map normp (map prep ps).
  Definition erows (es : list point) : list point := map normp (esent es).

  Lemma prep_type p : p_type (prep p) = p_type p.
  Proof.
    unfold prep, stamp, fill_origin.
    destruct (is_empty origin), (is_empty (p_origin p)); cbn; destruct (_ =? _)%Z; reflexivity.
  Qed.
  Lemma prep_key p : p_key (prep p) = p_key p.
  Proof.
    unfold prep, stamp, fill_origin.
    destruct (is_empty origin), (is_empty (p_origin p)); cbn; destruct (_ =? _)%Z; reflexivity.
  Qed.
  Lemma prep_val p : p_val (prep p) = p_val p.
  Proof.
    unfold prep, stamp, fill_origin.
    destruct (is_empty origin), (is_empty (p_origin p)); cbn; destruct (_ =? _)%Z; reflexivity.
  Qed.
  Lemma prep_text p : p_text (prep p) = p_text p.
  Proof.
    unfold prep, stamp, fill_origin.
    destruct (is_empty origin), (is_empty (p_origin p)); cbn; destruct (_ =? _)%Z; reflexivity.
  Qed.
  Lemma prep_tomb p : p_tomb (prep p) = p_tomb p.
  Proof.
    unfold prep, stamp, fill_origin.
    destruct (is_empty origin), (is_empty (p_origin p)); cbn; destruct (_ =? _)%Z; reflexivity.
  Qed.

  Lemma same_ident_prep p q : same_ident (prep p) (prep q) = same_ident p q.
  Proof. unfold same_ident. rewrite !prep_type, !prep_key. reflexivity. Qed.

  Lemma has_nan_prep ps : has_nan (map prep ps) = has_nan ps.
  Proof. unfold has_nan. induction ps as [|p ps IH]; [reflexivity|]. cbn [map existsb]. rewrite prep_val, IH. reflexivity. Qed.

  Lemma not_nt_prep p : not_nt (prep p) = not_nt p.
  Proof. unfold not_nt. rewrite prep_type. reflexivity. Qed.

  (* a node that SendNode can create: usable id and type, numbers only, one point per identity,
     no nodeType among the edge points (the store never returns one) *)
  Definition reserved (x : bytes) : Prop := x = [] \/ x = str_none \/ x = str_root.
  Definition sendable (n : tree) : Prop :=
    ~ reserved (t_id n) /\ t_type n <> [] /\
    has_nan (t_pts n) = false /\ has_nan (t_epts n) = false /\
    nodup_rows (t_pts n) /\ nodup_rows (t_epts n) /\
    Forall (fun p => not_nt p = true) (t_epts n).

  Lemma esent_props es :
    has_nan es = false -> nodup_rows es -> Forall (fun p => not_nt p = true) es ->
    has_nan (esent es) = false /\ nodup_rows (esent es) /\ Forall (fun p => not_nt p = true) (esent es) /\ esent es <> [].
  Proof.
    intros HN ND NT. unfold esent. destruct (map prep es) as [|x l] eqn:E.
    - repeat split; try discriminate. intros r []. repeat constructor.
    - rewrite <- E. repeat split.
      + rewrite has_nan_prep. exact HN.
      + apply nodup_rows_map; [apply same_ident_prep|exact ND].
      + apply Forall_forall. intros p Hp. apply in_map_iff in Hp as [q [<- Hq]]. rewrite not_nt_prep.
        rewrite Forall_forall in NT. apply NT, Hq.
      + rewrite E. discriminate.
  Qed.

  (* ---------- the store side ---------- *)
  Definition unmentioned (G : list edge) (x : bytes) : Prop := forall e, In e G -> e_up e <> x /\ e_down e <> x.
  Definition fresh_in (st : store) (x : bytes) : Prop :=
    unmentioned (s_edges st) x /\ node_rows (s_nodes st) x = [].

  Lemma bytes_eqb_neq a b : a <> b -> bytes_eqb a b = false.
  Proof. intros H. destruct (bytes_eqb a b) eqn:E; [apply bytes_eqb_true in E; contradiction|reflexivity]. Qed.

  Lemma find_edge_none G up down : (forall e, In e G -> e_down e <> down) -> find_edge G up down = None.
  Proof.
    intros H. unfold find_edge. induction G as [|e G IH]; [reflexivity|]. cbn [find].
    rewrite (bytes_eqb_neq (e_down e) down) by (apply H; left; reflexivity). rewrite andb_false_r.
    apply IH. intros e' He'. apply H. right. exact He'.
  Qed.

  Lemma is_upstream_none G target :
    (forall e, In e G -> e_up e <> target) -> forall f x, x <> target -> is_upstream G f target x = false.
  Proof.
    intros H. induction f as [|f IH]; intros x Hx; cbn [is_upstream]; rewrite (bytes_eqb_neq x target Hx); [reflexivity|].
    cbn [orb]. destruct (existsb _ _) eqn:E; [|reflexivity].
    apply existsb_exists in E as [e [He Ee]]. unfold parents in He. apply filter_In in He as [He _].
    rewrite IH in Ee by (apply H, He). discriminate.
  Qed.

  Lemma nodup_rows_snoc l p : nodup_rows l -> (forall q, In q l -> same_ident q p = false) -> nodup_rows (l ++ [p]).
  Proof.
    induction l as [|x l IH]; intros ND H; [cbn; split; [intros ? []|exact I]|]. destruct ND as [Hx Hl]. cbn [app nodup_rows].
    split.
    - intros r Hr. apply in_app_or in Hr as [Hr|[<-|[]]]; [apply Hx, Hr|apply H; left; reflexivity].
    - apply IH; [exact Hl|]. intros q Hq. apply H. right. exact Hq.
  Qed.

  Lemma rows_of_batch' skip pts :
    nodup_rows (eff skip pts) -> fst (merge_batch skip [] pts) = map normp (eff skip pts).
  Proof.
    intros ND. rewrite merge_batch_ins by constructor. unfold eff in *.
    apply (fold_ins_nodup _ []). cbn [app]. apply nodup_rows_map; [apply same_ident_normp|exact ND].
  Qed.

  Lemma x_node_points_fresh st id pts :
    has_nan pts = false -> nodup_rows pts -> node_rows (s_nodes st) id = [] ->
    x_node_points st id pts =
    Ok (mkStore (set_node_rows (s_nodes st) id (map normp pts)) (s_edges st) (s_root st) (s_next st)).
  Proof.
    intros HN ND HR. unfold x_node_points. rewrite HN, collapse_nodup, HR by exact ND.
    rewrite (rows_of_batch' false) by exact ND. reflexivity.
  Qed.

  Lemma x_edge_points_new st node parent ty es :
    has_nan es = false -> nodup_rows es -> Forall (fun p => not_nt p = true) es ->
    ty <> [] -> node <> parent -> node <> s_root st -> parent <> [] ->
    unmentioned (s_edges st) node ->
    x_edge_points st node parent (es ++ [node_type_point now ty origin]) =
    Ok (mkStore (s_nodes st) (s_edges st ++ [mkEdge (s_next st) parent node ty (map normp es) 0])
                (if bytes_eqb parent str_root then node else s_root st) (s_next st + 1)).
  Proof.
    intros HN ND NT Hty Hnp Hroot Hpar UM.
    set (ntp := node_type_point now ty origin).
    assert (ND' : nodup_rows (es ++ [ntp])).
    { apply nodup_rows_snoc; [exact ND|]. intros q Hq. rewrite Forall_forall in NT. specialize (NT q Hq).
      unfold not_nt in NT. apply negb_true_iff in NT. unfold same_ident, ident_eqb. cbn [p_type ntp node_type_point].
      rewrite NT. reflexivity. }
    assert (EF : eff true (es ++ [ntp]) = es).
    { unfold eff. rewrite filter_app. cbn [filter]. unfold not_nt at 2. cbn [p_type ntp node_type_point].
      rewrite bytes_eqb_refl. cbn [negb]. rewrite app_nil_r. apply filter_all. apply Forall_forall, NT. }
    unfold x_edge_points.
    assert (HN' : has_nan (es ++ [ntp]) = false).
    { unfold has_nan in *. rewrite existsb_app, HN. reflexivity. }
    rewrite HN', (collapse_nodup _ ND'), (bytes_eqb_neq node parent Hnp), (bytes_eqb_neq node (s_root st) Hroot).
    cbn [andb].
    assert (P : match parent with [] => str_root | _ :: _ => parent end = parent) by (destruct parent; [contradiction|reflexivity]).
    rewrite P.
    rewrite (find_edge_none (s_edges st) parent node) by (intros e He; apply (UM e He)).
    rewrite (is_upstream_none (s_edges st) node) by (try (intros e He; apply (UM e He)); intros E; apply Hnp; symmetry; exact E).
    rewrite (rows_of_batch' true), EF by (rewrite EF; exact ND).
    assert (L : last_node_type (es ++ [ntp]) = ty).
    { unfold last_node_type. rewrite fold_left_app. cbn [fold_left p_type p_text ntp node_type_point].
      rewrite bytes_eqb_refl. reflexivity. }
    rewrite L. destruct ty; [contradiction|]. reflexivity.
  Qed.

  Lemma send_node_fresh st n :
    sendable n -> fresh_in st (t_id n) -> t_parent n <> t_id n -> ~ reserved (t_parent n) -> t_id n <> s_root st ->
    send_node now origin st (t_id n) (t_type n) (t_parent n) (t_pts n) (t_epts n) =
    Ok (mkStore (set_node_rows (s_nodes st) (t_id n) (nrows (t_pts n)))
                (s_edges st ++ [mkEdge (s_next st) (t_parent n) (t_id n) (t_type n) (erows (t_epts n)) 0])
                (s_root st) (s_next st + 1)).
  Proof.
    intros [Rid [Hty [HNp [HNe [NDp [NDe NTe]]]]]] [UM HR] Hpi Rpa Hroot.
    unfold send_node. fold prep.
    change (map (fun p => prep p) (t_pts n)) with (map prep (t_pts n)).
    change (map (fun p => prep p) (t_epts n)) with (map prep (t_epts n)).
    assert (E1 : is_empty (t_id n) = false) by (destruct (t_id n); [exfalso; apply Rid; left; reflexivity|reflexivity]).
    assert (E2 : is_empty (t_parent n) || bytes_eqb (t_parent n) str_none = false).
    { apply orb_false_iff. split.
      - destruct (t_parent n); [exfalso; apply Rpa; left; reflexivity|reflexivity].
      - apply bytes_eqb_neq. intros E. apply Rpa. right. left. exact E. }
    rewrite E1, E2.
    rewrite x_node_points_fresh; [|rewrite has_nan_prep; exact HNp|apply nodup_rows_map; [apply same_ident_prep|exact NDp]|exact HR].
    destruct (esent_props (t_epts n) HNe NDe NTe) as [A [B [C D]]].
    assert (ES : match map prep (t_epts n) with [] => [default_tombstone now origin] | _ :: _ => map prep (t_epts n) end = esent (t_epts n)).
    { unfold esent. destruct (map prep (t_epts n)); reflexivity. }
    rewrite ES.
    rewrite x_edge_points_new; cbn [s_nodes s_edges s_root s_next]; try assumption.
    - assert (R : bytes_eqb (t_parent n) str_root = false) by (apply bytes_eqb_neq; intros E; apply Rpa; right; right; exact E).
      rewrite R. reflexivity.
    - intros E. apply Hpi. symmetry. exact E.
    - intros E. apply Rpa. left. exact E.
  Qed.
End Send.

(* ---------- structure of trees: identifiers and parents ---------- *)
Lemma all_ids_flat t : all_ids t = map t_id (flat t).
Proof.
  induction t as [i ty pa ps es ks IH] using tree_rect'. rewrite all_ids_eq, flat_eq. cbn [map t_id]. f_equal.
  induction IH as [|k l Hk Hl IHl]; [reflexivity|]. cbn [flat_map]. rewrite map_app, Hk, IHl. reflexivity.
Qed.

Lemma id_in_flat t n : In n (flat t) -> In (t_id n) (all_ids t).
Proof. intros H. rewrite all_ids_flat. apply in_map, H. Qed.

Lemma flat_self t : In t (flat t).
Proof. destruct t. rewrite flat_eq. left. reflexivity. Qed.

Lemma ids_kid_sub i ty pa ps es ks k x : In k ks -> In x (all_ids k) -> In x (all_ids (Node i ty pa ps es ks)).
Proof. intros Hk Hx. rewrite all_ids_eq. right. apply in_flat_map. exists k. split; assumption. Qed.

(* below the top, every parent field names a node of the tree *)
Lemma parent_in_ids t : well_parented t -> forall n, In n (flat_map flat (t_kids t)) -> In (t_parent n) (all_ids t).
Proof.
  induction t as [i ty pa ps es ks IH] using tree_rect'. intros W n Hn. cbn [t_kids] in Hn.
  apply well_parented_inv in W as [WP WK]. apply in_flat_map in Hn as [k [Hk Hn]].
  rewrite Forall_forall in IH, WP, WK. destruct k as [i' ty' pa' ps' es' ks'] eqn:Ek. rewrite flat_eq in Hn.
  destruct Hn as [<-|Hn].
  - specialize (WP _ Hk). cbn [t_parent] in *. rewrite WP. rewrite all_ids_eq. left. reflexivity.
  - eapply ids_kid_sub; [exact Hk|]. apply (IH _ Hk (WK _ Hk)). exact Hn.
Qed.

Lemma node_rows_set_same ns id r : node_rows (set_node_rows ns id r) id = r.
Proof.
  induction ns as [|[i r0] ns IH]; cbn [set_node_rows node_rows]; [rewrite bytes_eqb_refl; reflexivity|].
  destruct (bytes_eqb i id) eqn:E; cbn [node_rows]; rewrite E; [reflexivity|exact IH].
Qed.

Lemma node_rows_set_other ns id r x : x <> id -> node_rows (set_node_rows ns id r) x = node_rows ns x.
Proof.
  intros H. induction ns as [|[i r0] ns IH]; cbn [set_node_rows node_rows].
  - rewrite (bytes_eqb_neq id x) by (intros E; apply H; symmetry; exact E). reflexivity.
  - destruct (bytes_eqb i id) eqn:E; cbn [node_rows].
    + apply bytes_eqb_true in E. subst i. rewrite (bytes_eqb_neq id x) by (intros E; apply H; symmetry; exact E). reflexivity.
    + destruct (bytes_eqb i x); [reflexivity|exact IH].
Qed.

Lemma NoDup_app_parts {A} (a b : list A) :
  NoDup (a ++ b) -> NoDup a /\ NoDup b /\ (forall x, In x a -> In x b -> False).
Proof.
  induction a as [|x a IH]; cbn; intros H; [repeat split; [constructor|exact H|intros ? []]|].
  inversion H as [|? ? Hx Hr]; subst. destruct (IH Hr) as [A1 [A2 A3]]. repeat split.
  - constructor; [|exact A1]. intros Hin. apply Hx, in_or_app. left. exact Hin.
  - exact A2.
  - intros y [<-|Hy] Hb; [apply Hx, in_or_app; right; exact Hb|eapply A3; eassumption].
Qed.

Lemma Forall2_in_r {A B} (R : A -> B -> Prop) l l' : Forall2 R l l' -> forall y, In y l' -> exists x, In x l /\ R x y.
Proof.
  induction 1 as [|x y l l' H H2 IH]; intros z Hz; [destruct Hz|]. destruct Hz as [<-|Hz].
  - exists x. split; [left; reflexivity|exact H].
  - destruct (IH z Hz) as [x' [A1 A2]]. exists x'. split; [right; exact A1|exact A2].
Qed.

(* ---------- importing a tree none of whose identifiers the store knows ---------- *)
Section ImportFresh.
  Variable now : Z.
  Variable origin : bytes.

  Section Iter.
    Variable f : store -> tree -> store * N.
    Fixpoint iter_import (l : list tree) (st : store) : store * N :=
      match l with
      | [] => (st, 0)
      | k :: l' => let '(st2, e) := f st k in if e =? 0 then iter_import l' st2 else (st2, e)
      end.
  End Iter.

  Lemma import_tree_eq st i ty pa ps es ks :
    import_tree now origin st (Node i ty pa ps es ks) =
    match send_node now origin st i ty pa ps es with
    | Err e => (st, e)
    | Ok st1 => iter_import (import_tree now origin) ks st1
    end.
  Proof. reflexivity. Qed.

  Definition edge_of (n : tree) (e : edge) : Prop :=
    e_up e = t_parent n /\ e_down e = t_id n /\ e_type e = t_type n /\ e_pts e = erows now origin (t_epts n).

  (* the store after the nodes [ns] (identifiers [ids]) were added *)
  Definition imported (st st' : store) (ns : list tree) (ids : list bytes) : Prop :=
    exists es, s_edges st' = s_edges st ++ es /\ Forall2 edge_of ns es /\
    (forall n, In n ns -> node_rows (s_nodes st') (t_id n) = nrows now origin (t_pts n)) /\
    (forall x, ~ In x ids -> node_rows (s_nodes st') x = node_rows (s_nodes st) x) /\
    s_root st' = s_root st.

  (* siblings under [p], ready to be sent to [st] *)
  Definition ready (st : store) (p : bytes) (ts : list tree) : Prop :=
    Forall (fun t => Forall sendable (flat t) /\ well_parented t /\ t_parent t = p) ts /\
    NoDup (flat_map all_ids ts) /\
    (forall x, In x (flat_map all_ids ts) -> fresh_in st x /\ x <> s_root st) /\
    ~ In p (flat_map all_ids ts) /\ ~ reserved p.

  Lemma edges_mention k es :
    well_parented k -> Forall2 edge_of (flat k) es ->
    forall e, In e es -> (e_up e = t_parent k \/ In (e_up e) (all_ids k)) /\ In (e_down e) (all_ids k).
  Proof.
    intros W F e He. destruct (Forall2_in_r _ _ _ F e He) as [n [Hn [Eu [Ed _]]]]. rewrite Eu, Ed.
    split; [|apply id_in_flat, Hn]. destruct k as [i ty pa ps es0 ks]. rewrite flat_eq in Hn.
    destruct Hn as [<-|Hn]; [left; reflexivity|]. right. apply (parent_in_ids _ W). exact Hn.
  Qed.

  Definition import_ok (t : tree) : Prop :=
    forall st, ready st (t_parent t) [t] ->
    exists st', import_tree now origin st t = (st', 0) /\ imported st st' (flat t) (all_ids t).

  Lemma ready_single st p t : ready st p [t] <->
    (Forall sendable (flat t) /\ well_parented t /\ t_parent t = p) /\ NoDup (all_ids t) /\
    (forall x, In x (all_ids t) -> fresh_in st x /\ x <> s_root st) /\ ~ In p (all_ids t) /\ ~ reserved p.
  Proof.
    unfold ready. cbn [flat_map]. rewrite app_nil_r. split.
    - intros [A B]. inversion A; subst. tauto.
    - intros [A B]. split; [constructor; [exact A|constructor]|exact B].
  Qed.

  Lemma import_list ts : Forall import_ok ts -> forall st p, ready st p ts ->
    exists st', iter_import (import_tree now origin) ts st = (st', 0) /\
                imported st st' (flat_map flat ts) (flat_map all_ids ts).
  Proof.
    induction 1 as [|k l Hk Hl IH]; intros st p R.
    - exists st. split; [reflexivity|]. exists []. rewrite app_nil_r. repeat split; try constructor; auto. intros n [].
    - destruct R as [RF [RN [RX [RP RR]]]]. inversion RF as [|? ? [Sk [Wk Pk]] RFl]; subst.
      cbn [flat_map] in RN, RX, RP.
      destruct (NoDup_app_parts _ _ RN) as [Nk [Nl Dj]].
      destruct (Hk st) as [st1 [E1 [es1 [G1 [F1 [R1 [O1 T1]]]]]]].
      { apply ready_single. split; [split; [exact Sk|split; [exact Wk|reflexivity]]|].
        split; [exact Nk|]. split; [|split; [|exact RR]].
        - intros x Hx. apply RX, in_or_app. left. exact Hx.
        - intros Hp. apply RP, in_or_app. left. exact Hp. }
      destruct (IH st1 (t_parent k)) as [st2 [E2 [es2 [G2 [F2 [R2 [O2 T2]]]]]]].
      { split; [exact RFl|]. split; [exact Nl|]. split; [|split; [intros Hp; apply RP, in_or_app; right; exact Hp|exact RR]].
        intros x Hx. destruct (RX x (in_or_app _ _ _ (or_intror Hx))) as [[UM HR] HS]. rewrite T1. split; [split|exact HS].
        - rewrite G1. intros e He. apply in_app_or in He as [He|He]; [apply UM, He|].
          destruct (edges_mention k es1 Wk F1 e He) as [[Eu|Eu] Ed].
          + split.
            * rewrite Eu. intros E. apply RP. apply in_or_app. right. rewrite E. exact Hx.
            * intros E. rewrite E in Ed. exact (Dj x Ed Hx).
          + split; intros E; rewrite E in *; exact (Dj x ltac:(assumption) Hx).
        - rewrite O1; [exact HR|]. intros Hk'. eapply Dj; eassumption. }
      exists st2. split.
      + cbn [iter_import]. rewrite E1. cbn [N.eqb]. exact E2.
      + exists (es1 ++ es2). cbn [flat_map]. split; [rewrite G2, G1, app_assoc; reflexivity|].
        split; [apply Forall2_app; assumption|]. split; [|split].
        * intros n Hn. apply in_app_or in Hn as [Hn|Hn]; [|apply R2, Hn].
          rewrite O2; [apply R1, Hn|]. intros Hx. eapply Dj; [apply id_in_flat, Hn|exact Hx].
        * intros x Hx. rewrite O2, O1; [reflexivity| |]; intros Hy; apply Hx, in_or_app; [left|right]; exact Hy.
        * rewrite T2. exact T1.
  Qed.

  Theorem import_fresh t : import_ok t.
  Proof.
    induction t as [i ty pa ps es ks IH] using tree_rect'. intros st R.
    apply ready_single in R as [[S [W P]] [ND [RX [RP RR]]]]. cbn [t_parent] in *. clear P.
    rewrite flat_eq in S. inversion S as [|? ? S0 SK]; subst. apply Forall_flat_map' in SK.
    rewrite all_ids_eq in ND, RX, RP. inversion ND as [|? ? Ni NK]; subst.
    destruct (well_parented_inv _ _ _ _ _ _ W) as [WP WK].
    destruct (RX i (or_introl eq_refl)) as [Fi Ri].
    pose proof (send_node_fresh now origin st (Node i ty pa ps es ks) S0 Fi) as SN. cbn [t_id t_type t_parent t_pts t_epts] in SN.
    rewrite import_tree_eq, SN; [|intros E; apply RP; left; symmetry; exact E|exact RR|exact Ri].
    set (st1 := mkStore _ _ _ _).
    destruct (import_list ks IH st1 i) as [st2 [E2 [es2 [G2 [F2 [R2 [O2 T2]]]]]]].
    { split; [|split; [exact NK|split; [|split; [exact Ni|apply S0]]]].
      - rewrite Forall_forall in SK, WP, WK |- *. intros k Hk. repeat split; [apply SK, Hk|apply WK, Hk|apply WP, Hk].
      - intros x Hx. destruct (RX x (or_intror Hx)) as [[UM HR] HS]. split; [split|exact HS].
        + intros e He. unfold st1 in He; cbn [s_edges] in He. apply in_app_or in He as [He|[<-|[]]]; [apply UM, He|]. cbn [e_up e_down].
          split; [intros E; apply RP; right; rewrite E; exact Hx|intros E; apply Ni; rewrite E; exact Hx].
        + unfold st1; cbn [s_nodes]. rewrite node_rows_set_other; [exact HR|]. intros E. apply Ni. rewrite <- E. exact Hx. }
    exists st2. split; [exact E2|].
    exists (mkEdge (s_next st) pa i ty (erows now origin es) 0 :: es2). rewrite flat_eq. split; [|split; [|split; [|split]]].
    - rewrite G2. unfold st1; cbn [s_edges]. rewrite <- app_assoc. reflexivity.
    - constructor; [repeat split|exact F2].
    - intros n [<-|Hn]; [|apply R2, Hn]. cbn [t_id t_pts]. rewrite O2 by exact Ni. unfold st1; cbn [s_nodes]. apply node_rows_set_same.
    - intros x Hx. rewrite all_ids_eq in Hx. rewrite O2 by (intros Hy; apply Hx; right; exact Hy).
      unfold st1; cbn [s_nodes]. apply node_rows_set_other. intros ->. apply Hx. left. reflexivity.
    - rewrite T2. reflexivity.
  Qed.
End ImportFresh.

(* ---------- reading the imported tree back ---------- *)
Section WalkFresh.
  Variable now : Z.
  Variable origin : bytes.

  (* the tree as the store holds it: keys normalised, times stamped, origin filled, default tombstone *)
  Fixpoint stored (t : tree) : tree :=
    match t with
    | Node i ty pa ps es ks => Node i ty pa (nrows now origin ps) (erows now origin es) (map stored ks)
    end.
  Fixpoint height (t : tree) : nat :=
    match t with Node _ _ _ _ _ ks => S (fold_right Nat.max O (map height ks)) end.

  Lemma find_skip {A} (f : A -> bool) pre l : (forall x, In x pre -> f x = false) -> find f (pre ++ l) = find f l.
  Proof.
    induction pre as [|x pre IH]; intros H; [reflexivity|]. cbn. rewrite (H x) by (left; reflexivity).
    apply IH. intros y Hy. apply H. right. exact Hy.
  Qed.

  Lemma filter_none {A} (f : A -> bool) l : (forall x, In x l -> f x = false) -> filter f l = [].
  Proof.
    induction l as [|x l IH]; intros H; [reflexivity|]. cbn. rewrite (H x) by (left; reflexivity).
    apply IH. intros y Hy. apply H. right. exact Hy.
  Qed.

  Lemma edges_mention_list ts es i :
    Forall (fun k => well_parented k /\ t_parent k = i) ts ->
    Forall2 (edge_of now origin) (flat_map flat ts) es ->
    forall e, In e es -> (e_up e = i \/ In (e_up e) (flat_map all_ids ts)) /\ In (e_down e) (flat_map all_ids ts).
  Proof.
    intros W F e He. destruct (Forall2_in_r _ _ _ F e He) as [n [Hn [Eu [Ed _]]]]. rewrite Eu, Ed.
    apply in_flat_map in Hn as [k [Hk Hn]]. rewrite Forall_forall in W. destruct (W k Hk) as [Wk Pk].
    split; [|apply in_flat_map; exists k; split; [exact Hk|apply id_in_flat, Hn]].
    destruct k as [i' ty pa ps es0 ks]. rewrite flat_eq in Hn. destruct Hn as [<-|Hn]; [left; exact Pk|].
    right. apply in_flat_map. eexists. split; [exact Hk|]. apply (parent_in_ids _ Wk). exact Hn.
  Qed.

  Definition walk_ok (t : tree) : Prop :=
    forall st pre es post f,
      s_edges st = pre ++ es ++ post ->
      Forall2 (edge_of now origin) (flat t) es ->
      (forall e, In e (pre ++ post) -> ~ In (e_up e) (all_ids t) /\ ~ In (e_down e) (all_ids t)) ->
      NoDup (all_ids t) -> well_parented t -> ~ In (t_parent t) (all_ids t) ->
      (forall n, In n (flat t) -> node_rows (s_nodes st) (t_id n) = nrows now origin (t_pts n)) ->
      (height t <= f)%nat ->
      walk st f (t_parent t) (t_id t) = Some (stored t).

  Definition pick (st : store) (f : nat) (i : bytes) (c : edge) : list tree :=
    match walk st f i (e_down c) with Some t => [t] | None => [] end.

  Lemma kids_walk ks : Forall walk_ok ks ->
    forall st A es B f i,
      s_edges st = A ++ es ++ B ->
      Forall2 (edge_of now origin) (flat_map flat ks) es ->
      (forall e, In e (A ++ B) -> ~ In (e_up e) (flat_map all_ids ks) /\ ~ In (e_down e) (flat_map all_ids ks)) ->
      NoDup (flat_map all_ids ks) ->
      Forall (fun k => well_parented k /\ t_parent k = i) ks ->
      ~ In i (flat_map all_ids ks) ->
      (forall n, In n (flat_map flat ks) -> node_rows (s_nodes st) (t_id n) = nrows now origin (t_pts n)) ->
      Forall (fun k => (height k <= f)%nat) ks ->
      flat_map (pick st f i) (filter (fun e => bytes_eqb (e_up e) i) es) = map stored ks.
  Proof.
    induction 1 as [|k l Hk Hl IH]; intros st A es B f i HG F HAB ND W Hi HR HH.
    - cbn in F. inversion F; subst. reflexivity.
    - cbn [flat_map] in F, HAB, ND, Hi, HR.
      apply Forall2_app_inv_l in F as [es1 [es2 [F1 [F2 ->]]]].
      inversion W as [|? ? [Wk Pk] Wl]; subst. inversion HH as [|? ? Hhk Hhl]; subst.
      destruct (NoDup_app_parts _ _ ND) as [Nk [Nl Dj]].
      pose proof (edges_mention now origin k es1 Wk F1) as M1.
      pose proof (edges_mention_list l es2 (t_parent k) Wl F2) as M2.
      rewrite filter_app, flat_map_app. cbn [map].
      change (stored k :: map stored l) with ([stored k] ++ map stored l). f_equal.
      + (* the edges of k: only its top edge hangs below i *)
        destruct k as [ik ty pa ps es0 ks]. cbn [t_parent] in *. rewrite flat_eq in F1.
        inversion F1 as [|? e0 ? r1 [Eu [Ed [Et Ep]]] F1']; subst. cbn [t_parent t_id] in Eu, Ed.
        cbn [filter]. rewrite Eu, bytes_eqb_refl.
        rewrite (filter_none _ r1).
        2:{ intros e He. destruct (Forall2_in_r _ _ _ F1' e He) as [n [Hn [Eu' _]]]. rewrite Eu'.
            apply bytes_eqb_neq. intros E. apply Hi, in_or_app. left. rewrite <- E.
            apply (parent_in_ids (Node ik ty pa ps es0 ks) Wk). exact Hn. }
        cbn [flat_map]. rewrite app_nil_r. unfold pick. rewrite Ed.
        assert (HW : walk st f pa ik = Some (stored (Node ik ty pa ps es0 ks))); [|rewrite HW; reflexivity].
        apply (Hk st A (e0 :: r1) (es2 ++ B) f); try assumption.
        * rewrite HG, <- app_assoc. reflexivity.
        * intros e He. apply in_app_or in He as [He|He]; [|apply in_app_or in He as [He|He]].
          -- destruct (HAB e (in_or_app _ _ _ (or_introl He))) as [X Y].
             split; intros Z; [apply X|apply Y]; apply in_or_app; left; exact Z.
          -- destruct (M2 e He) as [[X|X] Y].
             ++ split; [rewrite X; intros Z; apply Hi, in_or_app; left; exact Z|intros Z; exact (Dj _ Z Y)].
             ++ split; intros Z; [exact (Dj _ Z X)|exact (Dj _ Z Y)].
          -- destruct (HAB e (in_or_app _ _ _ (or_intror He))) as [X Y].
             split; intros Z; [apply X|apply Y]; apply in_or_app; left; exact Z.
        * cbn [t_parent]. intros Z. apply Hi, in_or_app. left. exact Z.
        * intros n Hn. apply HR, in_or_app. left. exact Hn.
      + apply (IH st (A ++ es1) es2 B f (t_parent k)); try assumption.
        * rewrite HG, <- !app_assoc. reflexivity.
        * intros e He. apply in_app_or in He as [He|He]; [apply in_app_or in He as [He|He]|].
          -- destruct (HAB e (in_or_app _ _ _ (or_introl He))) as [X Y].
             split; intros Z; [apply X|apply Y]; apply in_or_app; right; exact Z.
          -- destruct (M1 e He) as [[X|X] Y].
             ++ split; [rewrite X; intros Z; apply Hi, in_or_app; right; exact Z|intros Z; exact (Dj _ Y Z)].
             ++ split; intros Z; [exact (Dj _ X Z)|exact (Dj _ Y Z)].
          -- destruct (HAB e (in_or_app _ _ _ (or_intror He))) as [X Y].
             split; intros Z; [apply X|apply Y]; apply in_or_app; right; exact Z.
        * intros Z. apply Hi, in_or_app. right. exact Z.
        * intros n Hn. apply HR, in_or_app. right. exact Hn.
  Qed.

  Lemma height_kids i ty pa ps es ks f :
    (height (Node i ty pa ps es ks) <= S f)%nat -> Forall (fun k => (height k <= f)%nat) ks.
  Proof.
    cbn [height]. intros H. apply le_S_n in H. induction ks as [|k ks IH]; [constructor|].
    cbn [map fold_right] in H. constructor; [lia|apply IH; lia].
  Qed.

  Theorem walk_fresh t : walk_ok t.
  Proof.
    induction t as [i ty pa ps es0 ks IH] using tree_rect'.
    intros st pre es post f HG F HPP ND W HP HR HH.
    destruct f as [|f]; [cbn [height] in HH; lia|].
    rewrite flat_eq in F. inversion F as [|? e0 ? es' [Eu [Ed [Et Ep]]] F']; subst.
    cbn [t_parent t_id t_type t_epts] in *. rewrite all_ids_eq in ND, HP, HPP. apply NoDup_cons_iff in ND as [Ni NK].
    destruct (well_parented_inv _ _ _ _ _ _ W) as [WP WK].
    assert (Hpre : forall e, In e pre -> bytes_eqb (e_up e) i = false /\ bytes_eqb (e_down e) i = false).
    { intros e He. destruct (HPP e (in_or_app _ _ _ (or_introl He))) as [X Y].
      split; apply bytes_eqb_neq; intros Z; [apply X|apply Y]; left; symmetry; exact Z. }
    assert (Hpost : forall e, In e post -> bytes_eqb (e_up e) i = false).
    { intros e He. destruct (HPP e (in_or_app _ _ _ (or_intror He))) as [X Y].
      apply bytes_eqb_neq; intros Z; apply X; left; symmetry; exact Z. }
    assert (Epa : bytes_eqb pa i = false) by (apply bytes_eqb_neq; intros Z; apply HP; left; symmetry; exact Z).
    cbn [walk]. unfold find_edge. rewrite HG, find_skip.
    2:{ intros e He. rewrite (proj2 (Hpre e He)). apply andb_false_r. }
    cbn [app find]. rewrite Eu, Ed, !bytes_eqb_refl. cbn [andb]. rewrite Et, Ep.
    pose proof (HR (Node i ty pa ps es0 ks) ltac:(rewrite flat_eq; left; reflexivity)) as HR0. cbn [t_id t_pts] in HR0.
    rewrite HR0. cbn [stored].
    f_equal. f_equal.
    (* the children *)
    unfold childs. rewrite filter_app. cbn [filter]. rewrite Eu, Epa, filter_app.
    rewrite (filter_none _ pre) by (intros e He; apply (Hpre e He)).
    rewrite (filter_none _ post) by exact Hpost. rewrite app_nil_r. cbn [app].
    apply (kids_walk ks IH st (pre ++ [e0]) es' post f i).
    - rewrite HG, <- app_assoc. reflexivity.
    - exact F'.
    - intros e He. assert (Hc : In e (pre ++ post) \/ e = e0).
      { apply in_app_or in He as [He|He].
        - apply in_app_or in He as [He|He]; [left; apply in_or_app; left; exact He|].
          destruct He as [He|[]]. right. symmetry. exact He.
        - left. apply in_or_app. right. exact He. }
      destruct Hc as [Hc| ->].
      + destruct (HPP e Hc) as [X Y]. split; intros Z; [apply X|apply Y]; right; exact Z.
      + rewrite Eu, Ed. split; intros Z; [apply HP; right; exact Z|apply Ni, Z].
    - exact NK.
    - rewrite Forall_forall in WP, WK |- *. intros k Hk. split; [apply WK, Hk|apply WP, Hk].
    - exact Ni.
    - intros n Hn. apply HR. rewrite flat_eq. right. exact Hn.
    - eapply height_kids. exact HH.
  Qed.
End WalkFresh.
