(* C15: export followed by import reproduces the tree — main theorems about the
   model of Export/Model.v, under the hypothesis that the YAML text layer is a
   round trip.  Tree-level facts are in ProofsTree.v, the import onto a store
   and the walk back in ProofsImport.v. *)
From Coq Require Import List NArith ZArith Bool Lia Arith Permutation.
From Verif Require Import Base.Bytes Base.Val Store.Model Store.ProofsRows.
Require Import Verif.Export.Model Verif.Export.ProofsTree Verif.Export.ProofsImport.
Import ListNotations.
Local Open Scope N_scope.

(* ---------- rows under permutation and under the maps of export / marker / renaming ---------- *)
Lemma nodup_rows_perm l l' : Permutation l l' -> nodup_rows l -> nodup_rows l'.
Proof.
  induction 1 as [|x l l' HP IH|x y l|l l' l'' H1 IH1 H2 IH2]; intros H.
  - exact I.
  - destruct H as [Hx Hl]. split; [|apply IH, Hl]. intros r Hr. apply Hx. eapply Permutation_in; [apply Permutation_sym, HP|exact Hr].
  - destruct H as [Hy [Hx Hl]]. split; [|split; [|exact Hl]].
    + intros r [<-|Hr]; [rewrite same_ident_sym; apply Hy; left; reflexivity|apply Hx, Hr].
    + intros r Hr. apply Hy. right. exact Hr.
  - apply IH2, IH1, H.
Qed.

Lemma has_nan_perm l l' : Permutation l l' -> has_nan l = has_nan l'.
Proof.
  unfold has_nan. induction 1 as [|x l l' HP IH|x y l|l l' l'' H1 IH1 H2 IH2]; cbn.
  - reflexivity.
  - rewrite IH. reflexivity.
  - destruct (f64_is_nan (p_val x)), (f64_is_nan (p_val y)); reflexivity.
  - congruence.
Qed.

Lemma has_nan_map f l : (forall p, p_val (f p) = p_val p) -> has_nan (map f l) = has_nan l.
Proof. intros H. unfold has_nan. induction l as [|p l IH]; [reflexivity|]. cbn. rewrite H, IH. reflexivity. Qed.

Lemma same_ident_exp p q : same_ident (exp_point p) (exp_point q) = same_ident p q.
Proof. unfold same_ident, ident_eqb. cbn. rewrite !norm_key_out. reflexivity. Qed.

Lemma same_ident_mark p q : same_ident (mark_point p) (mark_point q) = same_ident p q.
Proof.
  unfold mark_point. destruct (bytes_eqb (p_type p) str_description), (bytes_eqb (p_type q) str_description); reflexivity.
Qed.

Lemma same_ident_ren rho p q : same_ident (ren_point rho p) (ren_point rho q) = same_ident p q.
Proof. unfold ren_point. destruct (is_ref p), (is_ref q); reflexivity. Qed.

Lemma mark_val p : p_val (mark_point p) = p_val p.
Proof. unfold mark_point. destruct (bytes_eqb _ _); reflexivity. Qed.
Lemma ren_val rho p : p_val (ren_point rho p) = p_val p.
Proof. unfold ren_point. destruct (is_ref p); reflexivity. Qed.

(* ---------- a predicate on the node's own fields goes through export, marker and renaming ---------- *)
Definition same_fields (a b : tree) : Prop := t_id a = t_id b /\ t_type a = t_type b.

Lemma sendable_exp i ty pa pa' ps es ks ks' :
  sendable (Node i ty pa ps es ks) -> sendable (Node i ty pa' (exp_pts ps) (exp_epts es) ks').
Proof.
  unfold sendable. cbn [t_id t_type t_pts t_epts]. intros [A [B [C [D [E [F G]]]]]].
  assert (PS : Permutation (sort_points ps) ps) by apply sort_perm.
  assert (PE : Permutation (sort_points es) es) by apply sort_perm.
  repeat split; try assumption.
  - unfold exp_pts. rewrite has_nan_map by reflexivity. rewrite (has_nan_perm _ _ PS). exact C.
  - unfold exp_epts. unfold has_nan in *. destruct (existsb _ (filter _ _)) eqn:X; [|reflexivity].
    apply existsb_exists in X as [p [Hp Np]]. apply filter_In in Hp as [Hp _].
    apply in_map_iff in Hp as [q [<- Hq]]. cbn in Np.
    assert (existsb (fun p => f64_is_nan (p_val p)) es = true); [|congruence].
    apply existsb_exists. exists q. split; [eapply Permutation_in; eassumption|exact Np].
  - unfold exp_pts. apply nodup_rows_map; [apply same_ident_exp|]. eapply nodup_rows_perm; [apply Permutation_sym, PS|exact E].
  - unfold exp_epts. apply nodup_rows_filter. apply nodup_rows_map; [apply same_ident_exp|].
    eapply nodup_rows_perm; [apply Permutation_sym, PE|exact F].
  - unfold exp_epts. apply Forall_forall. intros p Hp. apply filter_In in Hp as [Hp _].
    apply in_map_iff in Hp as [q [<- Hq]]. rewrite Forall_forall in G.
    apply (G q). eapply Permutation_in; eassumption.
Qed.

Lemma sendable_export t : Forall sendable (flat t) -> Forall sendable (flat (export_norm t)).
Proof.
  induction t as [i ty pa ps es ks IH] using tree_rect'. rewrite export_norm_eq, !flat_eq. intros H.
  inversion H as [|? ? H0 HK]; subst. constructor; [eapply sendable_exp; exact H0|].
  apply Forall_flat_map' in HK. apply Forall_flat_map'. apply Forall_forall. intros k' Hk'.
  apply in_map_iff in Hk' as [k [<- Hk]]. apply filter_In in Hk as [Hk _].
  rewrite Forall_forall in IH, HK. apply IH; [exact Hk|apply HK, Hk].
Qed.

Lemma well_parented_export t : well_parented t -> well_parented (export_norm t).
Proof.
  induction t as [i ty pa ps es ks IH] using tree_rect'. intros W.
  apply well_parented_inv in W as [WP WK]. rewrite export_norm_eq. unfold well_parented. rewrite flat_eq.
  constructor.
  - cbn [t_kids t_id]. apply Forall_forall. intros k' Hk'. apply in_map_iff in Hk' as [k [<- Hk]].
    apply filter_In in Hk as [Hk _]. rewrite Forall_forall in WP. specialize (WP k Hk).
    destruct k. rewrite export_norm_eq. exact WP.
  - apply Forall_flat_map'. apply Forall_forall. intros k' Hk'. apply in_map_iff in Hk' as [k [<- Hk]].
    apply filter_In in Hk as [Hk _]. rewrite Forall_forall in IH, WK. apply IH; [exact Hk|apply WK, Hk].
Qed.

(* the tree handed to checkIDs / ReplaceIDs *)
Definition prepared (parent : bytes) (t : tree) : tree := mark (reparent parent t).

Lemma prepared_eq parent i ty pa ps es ks :
  prepared parent (Node i ty pa ps es ks) = Node i ty parent (map mark_point ps) es ks.
Proof. reflexivity. Qed.

Lemma sendable_prepared parent t : Forall sendable (flat t) -> Forall sendable (flat (prepared parent t)).
Proof.
  destruct t as [i ty pa ps es ks]. rewrite prepared_eq, !flat_eq. intros H. inversion H as [|? ? H0 HK]; subst.
  constructor; [|exact HK]. unfold sendable in *. cbn [t_id t_type t_pts t_epts] in *.
  destruct H0 as [A [B [C [D [E [F G]]]]]]. repeat split; try assumption.
  - rewrite has_nan_map by apply mark_val. exact C.
  - apply nodup_rows_map; [apply same_ident_mark|exact E].
Qed.

Lemma well_parented_prepared parent t : well_parented t -> well_parented (prepared parent t).
Proof.
  destruct t as [i ty pa ps es ks]. rewrite prepared_eq. unfold well_parented. rewrite !flat_eq.
  intros H. inversion H; subst. constructor; assumption.
Qed.

Lemma all_ids_prepared parent t : all_ids (prepared parent t) = all_ids t.
Proof. destruct t. reflexivity. Qed.

Lemma check_ids_ok t :
  well_parented t -> Forall (fun n => t_id n <> []) (flat t) -> t_parent t <> [] ->
  check_ids t (t_parent t) = true.
Proof.
  induction t as [i ty pa ps es ks IH] using tree_rect'. intros W NB HP.
  apply well_parented_inv in W as [WP WK]. rewrite flat_eq in NB. inversion NB as [|? ? N0 NK]; subst.
  apply Forall_flat_map' in NK. cbn [t_id t_parent] in *.
  rewrite check_ids_eq, bytes_eqb_refl.
  destruct pa as [|c0 pa]; [contradiction|]. destruct i as [|c i]; [contradiction|]. cbn [is_empty negb andb].
  apply forallb_forall. intros k Hk. rewrite Forall_forall in IH, WP, WK, NK.
  rewrite <- (WP k Hk). apply IH; [exact Hk|apply WK, Hk|apply NK, Hk|rewrite (WP k Hk); discriminate].
Qed.

(* ---------- what the store holds projects like what was sent ---------- *)
Section Stored.
  Variable now : Z.
  Variable origin : bytes.

  Lemma pp_of_stored p : pp_of (normp (prep now origin p)) = pp_of p.
  Proof.
    unfold pp_of, normp, with_key. cbn [p_type p_key p_val p_text p_tomb].
    rewrite norm_key_idem, prep_type, prep_key, prep_val, prep_text, prep_tomb. reflexivity.
  Qed.

  Lemma proj_pts_stored ps : proj_pts (nrows now origin ps) = proj_pts ps.
  Proof.
    unfold proj_pts, nrows. rewrite !map_map. f_equal. apply map_ext. intros; apply pp_of_stored.
  Qed.

  Lemma map_pp_erows es : es <> [] -> map pp_of (erows now origin es) = map pp_of es.
  Proof.
    intros H. unfold erows, esent. destruct es as [|e es]; [contradiction|]. cbn [map].
    rewrite !map_map. f_equal; [apply pp_of_stored|]. apply map_ext. intros; apply pp_of_stored.
  Qed.

  Lemma proj_epts_stored es : proj_epts (erows now origin es) = proj_epts es.
  Proof.
    destruct es as [|e es]; [reflexivity|]. unfold proj_epts. rewrite map_pp_erows by discriminate. reflexivity.
  Qed.

  Lemma is_tomb_key0_stored p : is_tomb_key0 (normp (prep now origin p)) = is_tomb_key0 p.
  Proof.
    unfold is_tomb_key0, normp, with_key. cbn [p_type p_key]. rewrite norm_key_idem, prep_type, prep_key. reflexivity.
  Qed.

  Lemma deleted_stored es : deleted (erows now origin es) = deleted es.
  Proof.
    destruct es as [|e es]; [reflexivity|].
    assert (E : erows now origin (e :: es) = map (fun p => normp (prep now origin p)) (e :: es))
      by (unfold erows, esent; cbn [map]; rewrite map_map; reflexivity).
    unfold deleted, tomb_val. rewrite E, find_map.
    rewrite (find_ext' _ is_tomb_key0) by (intros; apply is_tomb_key0_stored).
    destruct (find is_tomb_key0 (e :: es)) as [p|]; [|reflexivity]. cbn [option_map].
    unfold normp, with_key. cbn [p_val]. rewrite prep_val. reflexivity.
  Qed.

  Lemma live_stored k : live (stored now origin k) = live k.
  Proof. destruct k as [i ty pa ps es ks]. unfold live, tree_deleted. cbn [stored t_epts]. rewrite deleted_stored. reflexivity. Qed.

  Theorem project_stored t : project (stored now origin t) = project t.
  Proof.
    induction t as [i ty pa ps es ks IH] using tree_rect'. cbn [stored]. rewrite !project_eq.
    rewrite proj_pts_stored, proj_epts_stored. f_equal. f_equal.
    assert (F : filter live (map (stored now origin) ks) = map (stored now origin) (filter live ks)).
    { clear IH. induction ks as [|k ks IHk]; [reflexivity|]. cbn [map filter]. rewrite live_stored.
      destruct (live k); cbn [map]; rewrite IHk; reflexivity. }
    rewrite F, map_map. apply map_ext_in. intros k Hk. apply filter_In in Hk as [Hk _].
    rewrite Forall_forall in IH. apply IH, Hk.
  Qed.
End Stored.

(* ---------- small facts about the right-hand side ---------- *)
Lemma pren_point_id q : pren_point (fun x => x) q = q.
Proof. unfold pren_point. destruct (pp_is_ref q); [destruct q; reflexivity|reflexivity]. Qed.

Lemma pmap_ids_id t : pmap_ids (fun x => x) t = t.
Proof.
  induction t as [i ty pa ps es ks IH] using ptree_rect'. cbn [pmap_ids]. f_equal.
  - rewrite (map_ext _ (fun q => q)) by apply pren_point_id. apply map_id.
  - rewrite <- (map_id ks) at 2. apply map_ext_in. intros k Hk. rewrite Forall_forall in IH. apply IH, Hk.
Qed.

Lemma pmark_set_parent p t : pmark (set_parent p t) = set_parent p (pmark t).
Proof. destruct t; reflexivity. Qed.

Lemma expected_absorb rho p q t : set_parent p (pmap_ids rho (pmark (set_parent q t))) = expected rho p t.
Proof. destruct t; reflexivity. Qed.

Lemma project_prepared parent t : project (prepared parent t) = set_parent parent (pmark (project t)).
Proof. unfold prepared. rewrite project_mark, project_reparent, pmark_set_parent. reflexivity. Qed.

Lemma t_id_prepared parent t : t_id (prepared parent t) = t_id t.
Proof. destruct t; reflexivity. Qed.
Lemma t_parent_prepared parent t : t_parent (prepared parent t) = parent.
Proof. destruct t; reflexivity. Qed.
Lemma t_id_export t : t_id (export_norm t) = t_id t.
Proof. destruct t. rewrite export_norm_eq. reflexivity. Qed.

Lemma all_live_prepared parent t : all_live (prepared parent t) = all_live t.
Proof. destruct t. reflexivity. Qed.

Lemma all_live_stored now origin t : all_live (stored now origin t) = all_live t.
Proof.
  induction t as [i ty pa ps es ks IH] using tree_rect'. cbn [stored]. rewrite !all_live_eq.
  induction IH as [|k l Hk Hl IHl]; [reflexivity|]. cbn [map forallb]. rewrite live_stored, Hk, IHl. reflexivity.
Qed.

Lemma height_le_flat t : (height t <= length (flat t))%nat.
Proof.
  induction t as [i ty pa ps es ks IH] using tree_rect'. cbn [height]. rewrite flat_eq. cbn [length].
  apply le_n_S. induction IH as [|k l Hk Hl IHl]; [cbn; lia|]. cbn [map fold_right flat_map]. rewrite app_length. lia.
Qed.

Lemma Forall2_len {A B} (R : A -> B -> Prop) l l' : Forall2 R l l' -> length l = length l'.
Proof. induction 1; cbn; congruence. Qed.

Lemma has_live_keep st st' es x :
  s_edges st' = s_edges st ++ es -> has_live st x = true -> has_live st' x = true.
Proof.
  unfold has_live, parents. intros -> H. rewrite filter_app, existsb_app, H. reflexivity.
Qed.

(* ---------- the renamed tree ---------- *)
Lemma flat_ren rho p t : map t_id (flat (ren_tree rho p t)) = map rho (map t_id (flat t)).
Proof.
  revert p. induction t as [i ty pa ps es ks IH] using tree_rect'. intros p. cbn [ren_tree]. rewrite !flat_eq.
  cbn [map t_id]. f_equal. generalize (rho i). intros q.
  induction IH as [|k l Hk Hl IHl]; [reflexivity|]. cbn [map flat_map]. rewrite !map_app, Hk, IHl. reflexivity.
Qed.

Lemma all_ids_ren rho p t : all_ids (ren_tree rho p t) = map rho (all_ids t).
Proof. rewrite !all_ids_flat. apply flat_ren. Qed.

Lemma well_parented_ren rho p t : well_parented (ren_tree rho p t).
Proof.
  revert p. induction t as [i ty pa ps es ks IH] using tree_rect'. intros p. cbn [ren_tree].
  unfold well_parented. rewrite flat_eq. constructor.
  - cbn [t_kids t_id]. apply Forall_forall. intros k' Hk'. apply in_map_iff in Hk' as [k [<- Hk]]. destruct k; reflexivity.
  - apply Forall_flat_map'. apply Forall_forall. intros k' Hk'. apply in_map_iff in Hk' as [k [<- Hk]].
    rewrite Forall_forall in IH. apply IH, Hk.
Qed.

Lemma sendable_ren rho p t :
  Forall sendable (flat t) -> (forall x, In x (all_ids t) -> ~ reserved (rho x)) ->
  Forall sendable (flat (ren_tree rho p t)).
Proof.
  revert p. induction t as [i ty pa ps es ks IH] using tree_rect'. intros p S R. cbn [ren_tree].
  rewrite flat_eq in *. inversion S as [|? ? S0 SK]; subst. apply Forall_flat_map' in SK.
  constructor.
  - unfold sendable in *. cbn [t_id t_type t_pts t_epts] in *. destruct S0 as [A [B [C [D [E [F G]]]]]].
    repeat split; try assumption.
    + apply R. rewrite all_ids_eq. left. reflexivity.
    + rewrite has_nan_map by apply ren_val. exact C.
    + apply nodup_rows_map; [apply same_ident_ren|exact E].
  - apply Forall_flat_map'. apply Forall_forall. intros k' Hk'. apply in_map_iff in Hk' as [k [<- Hk]].
    rewrite Forall_forall in IH, SK. apply IH; [exact Hk|apply SK, Hk|].
    intros x Hx. apply R. eapply ids_kid_sub; eassumption.
Qed.

Lemma t_id_ren rho p t : t_id (ren_tree rho p t) = rho (t_id t).
Proof. destruct t; reflexivity. Qed.
Lemma t_parent_ren rho p t : t_parent (ren_tree rho p t) = p.
Proof. destruct t; reflexivity. Qed.

Lemma all_live_ren rho p t : all_live (ren_tree rho p t) = all_live t.
Proof.
  revert p. induction t as [i ty pa ps es ks IH] using tree_rect'. intros p. cbn [ren_tree]. rewrite !all_live_eq.
  generalize (rho i). intros q.
  induction IH as [|k l Hk Hl IHl]; [reflexivity|]. cbn [map forallb]. rewrite live_ren, Hk, IHl. reflexivity.
Qed.

Lemma NoDup_map_on {A B} (f : A -> B) l :
  (forall x y, In x l -> In y l -> f x = f y -> x = y) -> NoDup l -> NoDup (map f l).
Proof.
  induction l as [|x l IH]; intros Inj ND; [constructor|]. inversion ND as [|? ? Hx Hl]; subst. cbn [map]. constructor.
  - intros Hin. apply in_map_iff in Hin as [y [E Hy]]. apply Hx.
    rewrite (Inj x y); [exact Hy|left; reflexivity|right; exact Hy|symmetry; exact E].
  - apply IH; [|exact Hl]. intros a b Ha Hb. apply Inj; right; assumption.
Qed.

(* identifiers a tree mentions: node ids and the text of its nodeID points *)
Definition node_mentions (n : tree) : list bytes := t_id n :: map p_text (filter is_ref (t_pts n)).
Definition mentions (t : tree) : list bytes := flat_map node_mentions (flat t).

Lemma covers_mentions m t : covers m t -> forall x, In x (mentions t) -> lookup_id m x <> None.
Proof.
  unfold covers, mentions. intros C x Hx. apply in_flat_map in Hx as [n [Hn Hx]].
  rewrite Forall_forall in C. destruct (C n Hn) as [A B]. destruct Hx as [<-|Hx]; [exact A|].
  apply in_map_iff in Hx as [p [<- Hp]]. apply filter_In in Hp as [Hp R]. rewrite Forall_forall in B.
  apply (B p Hp R).
Qed.

Lemma is_ref_mark p : is_ref (mark_point p) = is_ref p /\ (is_ref p = true -> p_text (mark_point p) = p_text p).
Proof.
  unfold mark_point, is_ref. destruct (bytes_eqb (p_type p) str_description) eqn:E; [|split; reflexivity].
  apply bytes_eqb_true in E. cbn [with_text p_type p_text]. rewrite E.
  change (bytes_eqb str_description str_nodeID) with false. cbn [andb]. split; [reflexivity|discriminate].
Qed.

Lemma mentions_prepared parent t : mentions (prepared parent t) = mentions t.
Proof.
  destruct t as [i ty pa ps es ks]. rewrite prepared_eq. unfold mentions. rewrite !flat_eq. cbn [flat_map]. f_equal.
  unfold node_mentions. cbn [t_id t_pts]. f_equal.
  induction ps as [|p ps IH]; [reflexivity|]. cbn [map filter]. destruct (is_ref_mark p) as [A B]. rewrite A.
  destruct (is_ref p) eqn:R; [cbn [map]; rewrite (B eq_refl), IH; reflexivity|exact IH].
Qed.

Lemma ids_in_mentions t x : In x (all_ids t) -> In x (mentions t).
Proof.
  rewrite all_ids_flat. intros H. apply in_map_iff in H as [n [<- Hn]]. unfold mentions. apply in_flat_map.
  exists n. split; [exact Hn|left; reflexivity].
Qed.

(* ================= main theorems ================= *)
Section RoundTrip.
  Variable text : Type.
  Variable yaml : tree -> text.
  Variable unyaml : text -> option tree.
  (* the assumed part: the YAML library reads back what it wrote *)
  Hypothesis yaml_roundtrip : forall t, unyaml (yaml t) = Some t.
  Variable now : Z.

  (* the exported subtree as a GetNodes walk shows it (deleted children included): rows as the store
     keeps them, children name their parent, usable ids and types, numbers only, no mirror inside *)
  Definition source_ok (src : tree) : Prop :=
    wf_tree src /\ well_parented src /\ Forall sendable (flat src) /\ NoDup (live_ids src).

  (* the place to import to: a live parent that is none of the special names, and a store that
     knows none of the identifiers about to be created *)
  Definition target_ok (st : store) (parent : bytes) (ids : list bytes) : Prop :=
    has_live st parent = true /\ ~ reserved parent /\ ~ In parent ids /\
    (forall x, In x ids -> fresh_in st x /\ x <> s_root st).

  Lemma not_at_root parent : ~ reserved parent -> is_empty parent || bytes_eqb parent str_root = false.
  Proof.
    intros R. apply orb_false_iff. split.
    - destruct parent; [exfalso; apply R; left; reflexivity|reflexivity].
    - apply bytes_eqb_neq. intros E. apply R. right. right. exact E.
  Qed.

  (* importing a tree [t] (already prepared / renamed) whose identifiers the store does not know *)
  Lemma import_and_walk st parent origin t :
    Forall sendable (flat t) -> well_parented t -> t_parent t = parent -> NoDup (all_ids t) ->
    target_ok st parent (all_ids t) ->
    exists st',
      import_tree now origin st t = (st', 0) /\ s_root st' = s_root st /\
      walk st' (walk_fuel st') parent (t_id t) = Some (stored now origin t).
  Proof.
    intros S W P ND [HL [RP [NP FX]]].
    destruct (import_fresh now origin t st) as [st' [E [es [G [F [R [O T]]]]]]].
    { rewrite P. apply ready_single.
      split; [split; [exact S|split; [exact W|exact P]]|split; [exact ND|split; [exact FX|split; [exact NP|exact RP]]]]. }
    exists st'. split; [exact E|]. split; [exact T|].
    rewrite <- P. apply (walk_fresh now origin t st' (s_edges st) es []); try assumption.
    - rewrite app_nil_r. exact G.
    - rewrite app_nil_r. intros e He. split; intros Z; destruct (FX _ Z) as [[UM _] _]; destruct (UM e He) as [X Y]; [apply X|apply Y]; reflexivity.
    - rewrite P. exact NP.
    - unfold walk_fuel. rewrite G, app_length, <- (Forall2_len _ _ _ F).
      pose proof (height_le_flat t). lia.
  Qed.

  (* C15, identifiers preserved *)
  Theorem roundtrip_preserve st src parent origin fresh :
    source_ok src -> target_ok st parent (live_ids src) ->
    exists st' imp,
      import_nodes text unyaml fresh now st parent (yaml (export_norm src)) origin true = (st', 0) /\
      walk st' (walk_fuel st') parent (t_id src) = Some imp /\
      project imp = expected (fun x => x) parent (project src) /\
      all_live imp = true.
  Proof.
    intros [WF [WP [SD ND]]] T. pose proof T as [HL [RP [NP FX]]].
    set (e := export_norm src). set (t1 := prepared parent e).
    assert (S1 : Forall sendable (flat t1)) by (apply sendable_prepared, sendable_export, SD).
    assert (W1 : well_parented t1) by (apply well_parented_prepared, well_parented_export, WP).
    assert (I1 : all_ids t1 = live_ids src) by (unfold t1; rewrite all_ids_prepared; apply export_ids).
    assert (P1 : t_parent t1 = parent) by apply t_parent_prepared.
    destruct (import_and_walk st parent origin t1 S1 W1 P1) as [st' [E [TR WK]]];
      [rewrite I1; exact ND|rewrite I1; exact T|].
    exists st', (stored now origin t1). split; [|split; [|split]].
    - unfold import_nodes. rewrite (not_at_root parent RP), HL. cbn [negb].
      unfold import_prepare. rewrite yaml_roundtrip. fold e. fold (prepared parent e). fold t1.
      assert (C : check_ids t1 parent = true).
      { rewrite <- P1. apply check_ids_ok; [exact W1| |rewrite P1; intros Z; apply RP; left; exact Z].
        eapply Forall_impl; [|exact S1]. intros n [A _] Z. apply A. left. exact Z. }
      rewrite C, E.
      assert (R : bytes_eqb parent str_root = false) by (apply bytes_eqb_neq; intros Z; apply RP; right; right; exact Z).
      rewrite R. reflexivity.
    - unfold t1 in WK. rewrite t_id_prepared in WK. unfold e in WK. rewrite t_id_export in WK. exact WK.
    - rewrite project_stored. unfold t1. rewrite project_prepared. unfold e. rewrite project_export_norm by exact WF.
      unfold expected. rewrite pmap_ids_id. reflexivity.
    - rewrite all_live_stored. unfold t1. rewrite all_live_prepared. apply export_all_live, WF.
  Qed.

  (* C15, new identifiers: [fresh] is what uuid.New() hands out *)
  Theorem roundtrip_rename st src parent origin fresh :
    (forall a b, fresh a = fresh b -> a = b) ->
    (forall j, fresh_in st (fresh j) /\ fresh j <> s_root st /\ fresh j <> parent /\ ~ reserved (fresh j)) ->
    source_ok src -> has_live st parent = true -> ~ reserved parent ->
    exists st' imp rho,
      import_nodes text unyaml fresh now st parent (yaml (export_norm src)) origin false = (st', 0) /\
      walk st' (walk_fuel st') parent (rho (t_id src)) = Some imp /\
      project imp = expected rho parent (project src) /\
      (forall x y, In x (mentions (export_norm src)) -> In y (mentions (export_norm src)) -> rho x = rho y -> x = y) /\
      (forall x, In x (mentions (export_norm src)) -> exists j, rho x = fresh j) /\
      all_live imp = true.
  Proof.
    intros FI FF [WF [WP [SD ND]]] HL RP.
    set (e := export_norm src). set (t1 := prepared parent e).
    assert (S1 : Forall sendable (flat t1)) by (apply sendable_prepared, sendable_export, SD).
    assert (W1 : well_parented t1) by (apply well_parented_prepared, well_parented_export, WP).
    assert (I1 : all_ids t1 = live_ids src) by (unfold t1; rewrite all_ids_prepared; apply export_ids).
    assert (NB : nonblank t1).
    { unfold nonblank. eapply Forall_impl; [|exact S1]. intros n [A _] Z. apply A. left. exact Z. }
    destruct (replace_ids_renaming fresh FI t1 parent NB) as [m [RE [CV [INJ FR]]]].
    set (rho := rho_of m) in *. set (t2 := ren_tree rho parent t1).
    assert (DOM : forall x, In x (mentions t1) -> exists v, lookup_id m x = Some v /\ rho x = v).
    { intros x Hx. pose proof (covers_mentions m t1 CV x Hx) as L.
      destruct (lookup_id m x) as [v|] eqn:Lx; [|contradiction]. exists v. split; [reflexivity|].
      unfold rho, rho_of. rewrite Lx. reflexivity. }
    assert (RINJ : forall x y, In x (mentions t1) -> In y (mentions t1) -> rho x = rho y -> x = y).
    { intros x y Hx Hy E. destruct (DOM x Hx) as [vx [Lx Rx]]. destruct (DOM y Hy) as [vy [Ly Ry]].
      apply (INJ x y vx); [exact Lx|]. rewrite Ly. f_equal. congruence. }
    assert (RFR : forall x, In x (mentions t1) -> exists j, rho x = fresh j).
    { intros x Hx. destruct (DOM x Hx) as [v [Lx Rx]]. destruct (FR x v Lx) as [j ->]. exists j. exact Rx. }
    assert (S2 : Forall sendable (flat t2)).
    { apply sendable_ren; [exact S1|]. intros x Hx. destruct (RFR x (ids_in_mentions _ _ Hx)) as [j ->]. apply FF. }
    assert (N2 : NoDup (all_ids t2)).
    { unfold t2. rewrite all_ids_ren. apply NoDup_map_on; [|rewrite I1; exact ND].
      intros x y Hx Hy. apply RINJ; apply ids_in_mentions; assumption. }
    assert (T2 : target_ok st parent (all_ids t2)).
    { split; [exact HL|]. split; [exact RP|]. unfold t2. rewrite all_ids_ren. split.
      - intros Hin. apply in_map_iff in Hin as [x [E Hx]]. destruct (RFR x (ids_in_mentions _ _ Hx)) as [j Ej].
        rewrite Ej in E. destruct (FF j) as [_ [_ [A _]]]. apply A. exact E.
      - intros y Hy. apply in_map_iff in Hy as [x [<- Hx]]. destruct (RFR x (ids_in_mentions _ _ Hx)) as [j ->].
        destruct (FF j) as [A [B _]]. split; assumption. }
    destruct (import_and_walk st parent origin t2 S2 (well_parented_ren _ _ _) (t_parent_ren _ _ _) N2 T2) as [st' [E [TR WK]]].
    exists st', (stored now origin t2), rho. split; [|split; [|split; [|split; [|split]]]].
    - unfold import_nodes. rewrite (not_at_root parent RP), HL. cbn [negb].
      unfold import_prepare. rewrite yaml_roundtrip. fold e. fold (prepared parent e). fold t1.
      rewrite RE. fold t2. rewrite E.
      assert (R : bytes_eqb parent str_root = false) by (apply bytes_eqb_neq; intros Z; apply RP; right; right; exact Z).
      rewrite R. reflexivity.
    - unfold t2 in WK at 1. rewrite t_id_ren in WK. unfold t1 in WK at 1. rewrite t_id_prepared in WK.
      unfold e in WK at 1. rewrite t_id_export in WK. exact WK.
    - rewrite project_stored. unfold t2. rewrite project_ren by exact W1. unfold t1. rewrite project_prepared.
      rewrite <- pmark_set_parent, expected_absorb. unfold e. rewrite project_export_norm by exact WF. reflexivity.
    - unfold t1 in RINJ. rewrite mentions_prepared in RINJ. exact RINJ.
    - unfold t1 in RFR. rewrite mentions_prepared in RFR. exact RFR.
    - rewrite all_live_stored. unfold t2. rewrite all_live_ren. unfold t1. rewrite all_live_prepared.
      apply export_all_live, WF.
  Qed.
End RoundTrip.

(* ---------- ReplaceIDs on any tree (mirrors and cross references included) ---------- *)
Theorem replace_ids_consistent fresh t parent :
  (forall a b, fresh a = fresh b -> a = b) -> nonblank t -> well_parented t ->
  exists rho,
    project (replace_ids fresh t parent) = set_parent parent (pmap_ids rho (project t)) /\
    (forall x y, In x (mentions t) -> In y (mentions t) -> rho x = rho y -> x = y) /\
    (forall x, In x (mentions t) -> exists j, rho x = fresh j).
Proof.
  intros FI NB W. destruct (replace_ids_renaming fresh FI t parent NB) as [m [RE [CV [INJ FR]]]].
  exists (rho_of m).
  assert (DOM : forall x, In x (mentions t) -> exists v, lookup_id m x = Some v /\ rho_of m x = v).
  { intros x Hx. pose proof (covers_mentions m t CV x Hx) as L.
    destruct (lookup_id m x) as [v|] eqn:Lx; [|contradiction]. exists v. split; [reflexivity|].
    unfold rho_of. rewrite Lx. reflexivity. }
  split; [rewrite RE; apply project_ren, W|]. split.
  - intros x y Hx Hy E. destruct (DOM x Hx) as [vx [Lx Rx]]. destruct (DOM y Hy) as [vy [Ly Ry]].
    apply (INJ x y vx); [exact Lx|]. rewrite Ly. f_equal. congruence.
  - intros x Hx. destruct (DOM x Hx) as [v [Lx Rx]]. destruct (FR x v Lx) as [j ->]. exists j. exact Rx.
Qed.

(* ---------- the marker ---------- *)
(* what ImportNodes hands to SendNode: the marker is put on the description points of the top node,
   and nothing below the top is touched except identifiers *)
Theorem prepare_marks_top_only text (unyaml : text -> option tree) fresh parent y preserve t0 t :
  (forall a b, fresh a = fresh b -> a = b) ->
  unyaml y = Some t0 -> nonblank t0 ->
  import_prepare text unyaml fresh parent y preserve = Ok t ->
  t_kids (prepared parent t0) = t_kids t0 /\
  t_pts (prepared parent t0) = map mark_point (t_pts t0) /\
  (if preserve then t = prepared parent t0
   else exists rho, t = ren_tree rho parent (prepared parent t0)).
Proof.
  intros FI U NB H. split; [destruct t0; reflexivity|]. split; [destruct t0; reflexivity|].
  unfold import_prepare in H. rewrite U in H. fold (prepared parent t0) in H. destruct preserve.
  - destruct (check_ids (prepared parent t0) parent); [injection H as <-; reflexivity|discriminate].
  - injection H as <-.
    assert (NB' : nonblank (prepared parent t0)).
    { destruct t0 as [i ty pa ps es ks]. rewrite prepared_eq. unfold nonblank in *. rewrite flat_eq in *.
      inversion NB; subst. constructor; assumption. }
    destruct (replace_ids_renaming fresh FI (prepared parent t0) parent NB') as [m [RE _]].
    exists (rho_of m). exact RE.
Qed.

Lemma expected_parts rho parent t :
  q_pts (expected rho parent t) = map (pren_point rho) (map pmark_point (q_pts t)) /\
  q_kids (expected rho parent t) = map (pmap_ids rho) (q_kids t) /\
  q_parent (expected rho parent t) = parent /\ q_id (expected rho parent t) = rho (q_id t).
Proof. destruct t. repeat split. Qed.
