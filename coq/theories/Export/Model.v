(* C15 — export followed by import reproduces the tree.
   Executable model of client/node.go: ExportNodes / exportNodesHelper,
   ImportNodes, checkIDs, ReplaceIDs, SendNode, on top of the store model of
   Store/Model.v (rows, edges, key normalisation, collapse, merge, cycle test),
   the executable specification ([project] and the round-trip equation), and
   the case checker.  The YAML text layer is a pair of abstract functions.
   No proofs here. *)
From Verif Require Import Base.Bytes Base.Val Store.Model Store.Check.
Local Open Scope N_scope.

(* ---------- trees as seen through client.GetNodes / data.NodeEdgeChildren ---------- *)
Inductive tree := Node (id typ parent : bytes) (pts epts : list point) (kids : list tree).

Definition t_id (t : tree) := match t with Node i _ _ _ _ _ => i end.
Definition t_type (t : tree) := match t with Node _ ty _ _ _ _ => ty end.
Definition t_parent (t : tree) := match t with Node _ _ pa _ _ _ => pa end.
Definition t_pts (t : tree) := match t with Node _ _ _ ps _ _ => ps end.
Definition t_epts (t : tree) := match t with Node _ _ _ _ es _ => es end.
Definition t_kids (t : tree) := match t with Node _ _ _ _ _ ks => ks end.

Definition str_description : bytes := [100;101;115;99;114;105;112;116;105;111;110].
Definition str_nodeID : bytes := [110;111;100;101;73;68].
Definition str_marker : bytes := [32;40;105;109;112;111;114;116;41].        (* " (import)" *)
Definition str_import : bytes := [105;109;112;111;114;116].                 (* "import" *)

Definition with_text (p : point) (tx : bytes) : point :=
  mkPoint (p_type p) (p_key p) (p_time p) (p_val p) tx (p_data p) (p_tomb p) (p_origin p).
Definition with_time (p : point) (t : Z) : point :=
  mkPoint (p_type p) (p_key p) t (p_val p) (p_text p) (p_data p) (p_tomb p) (p_origin p).
Definition with_origin (p : point) (o : bytes) : point :=
  mkPoint (p_type p) (p_key p) (p_time p) (p_val p) (p_text p) (p_data p) (p_tomb p) o.

Definition is_empty (b : bytes) : bool := match b with [] => true | _ => false end.

(* NodeEdge.IsTombstone: the tombstone edge point with key "0" carries exactly 1 *)
Definition is_tomb_key0 (p : point) : bool :=
  bytes_eqb (p_type p) str_tombstone && bytes_eqb (norm_key (p_key p)) str_0.
Definition tomb_val (es : list point) : N :=
  match find is_tomb_key0 es with Some p => p_val p | None => 0 end.
Definition deleted (es : list point) : bool := f64_is_one (tomb_val es).
Definition tree_deleted (t : tree) : bool := deleted (t_epts t).

(* ---------- exportNodesHelper ---------- *)
Definition key_out (k : bytes) : bytes := if bytes_eqb k str_0 then [] else k.
(* what the YAML structure carries of a point: the time is not exported (yaml:"-") *)
Definition exp_point (p : point) : point :=
  mkPoint (p_type p) (key_out (p_key p)) 0 (p_val p) (p_text p) (p_data p) (p_tomb p) (p_origin p).
(* p.Type == tombstone && p.Value == 0 (either zero) *)
Definition is_tomb0 (p : point) : bool := bytes_eqb (p_type p) str_tombstone && f64_is_zero (p_val p).
Definition exp_pts (ps : list point) : list point := map exp_point (sort_points ps).
Definition exp_epts (es : list point) : list point := filter (fun p => negb (is_tomb0 p)) (map exp_point (sort_points es)).

(* the argument is the subtree with deleted children still in it (a GetNodes walk that includes
   deleted nodes); children come in the order the store returns them *)
Fixpoint export_norm (t : tree) : tree :=
  match t with
  | Node i ty pa ps es ks =>
      Node i ty pa (exp_pts ps) (exp_epts es)
           ((fix go (l : list tree) : list tree :=
               match l with
               | [] => []
               | k :: l' => if tree_deleted k then go l' else export_norm k :: go l'
               end) ks)
  end.

(* ---------- ImportNodes: marker, checkIDs, ReplaceIDs ---------- *)
Definition mark_point (p : point) : point :=
  if bytes_eqb (p_type p) str_description then with_text p (p_text p ++ str_marker) else p.
Definition mark (t : tree) : tree :=
  match t with Node i ty pa ps es ks => Node i ty pa (map mark_point ps) es ks end.
Definition reparent (parent : bytes) (t : tree) : tree :=
  match t with Node i ty _ ps es ks => Node i ty parent ps es ks end.

Fixpoint check_ids (t : tree) (parent : bytes) : bool :=
  match t with
  | Node i _ pa _ _ ks =>
      negb (is_empty parent) && bytes_eqb pa parent && negb (is_empty i) &&
      (fix go (l : list tree) : bool :=
         match l with [] => true | k :: l' => check_ids k i && go l' end) ks
  end.

(* idMap and the number of identifiers uuid.New() has handed out so far *)
Definition idmap := list (bytes * bytes).
Fixpoint lookup_id (m : idmap) (x : bytes) : option bytes :=
  match m with
  | [] => None
  | (a, b) :: m' => if bytes_eqb a x then Some b else lookup_id m' x
  end.

Section Replace.
  Variable fresh : nat -> bytes.

  Definition rstate := (idmap * nat)%type.

  Definition rep_id (x : bytes) (s : rstate) : bytes * rstate :=
    let '(m, n) := s in
    if is_empty x then (fresh n, (m, S n))
    else match lookup_id m x with
         | Some y => (y, s)
         | None => (fresh n, ((x, fresh n) :: m, S n))
         end.

  Definition rep_point (p : point) (s : rstate) : point * rstate :=
    if bytes_eqb (p_type p) str_nodeID && negb (is_empty (p_text p)) then
      let '(m, n) := s in
      match lookup_id m (p_text p) with
      | Some y => (with_text p y, s)
      | None => (with_text p (fresh n), ((p_text p, fresh n) :: m, S n))
      end
    else (p, s).

  Fixpoint rep_points (ps : list point) (s : rstate) : list point * rstate :=
    match ps with
    | [] => ([], s)
    | p :: ps' => let '(p', s1) := rep_point p s in
                  let '(r, s2) := rep_points ps' s1 in (p' :: r, s2)
    end.

  Fixpoint rep_tree (t : tree) (parent : bytes) (s : rstate) : tree * rstate :=
    match t with
    | Node i ty _ ps es ks =>
        let '(i', s1) := rep_id i s in
        let '(ps', s2) := rep_points ps s1 in
        let '(ks', s3) :=
          (fix go (l : list tree) (s : rstate) : list tree * rstate :=
             match l with
             | [] => ([], s)
             | k :: l' => let '(k', sa) := rep_tree k i' s in
                          let '(r, sb) := go l' sa in (k' :: r, sb)
             end) ks s2 in
        (Node i' ty parent ps' es ks', s3)
    end.

  Definition replace_ids (t : tree) (parent : bytes) : tree := fst (rep_tree t parent ([], O)).
End Replace.

(* ---------- the two write handlers without the hash columns ----------
   nodePoints / edgePoints exactly as in Store/Model.v ([node_points], [edge_points]) except that the
   hash column of the edges is left alone: C15 does not look at hashes (they are C03's subject). *)
Definition x_node_points (st : store) (id : bytes) (pts : list point) : outcome store :=
  if has_nan pts then Err 1 else
  let ps := collapse pts in
  let rows := fst (merge_batch false (node_rows (s_nodes st) id) ps) in
  Ok (mkStore (set_node_rows (s_nodes st) id rows) (s_edges st) (s_root st) (s_next st)).

Definition x_edge_points (st : store) (node parent : bytes) (pts : list point) : outcome store :=
  if has_nan pts then Err 1 else
  let ps := collapse pts in
  if bytes_eqb node parent then Err 2 else
  if bytes_eqb node (s_root st) &&
     existsb (fun p => bytes_eqb (p_type p) str_tombstone && f64_gt0 (p_val p)) ps then Err 3 else
  let parent := match parent with [] => str_root | _ => parent end in
  let G := s_edges st in
  match find_edge G parent node with
  | Some e =>
      let rows := fst (merge_batch true (e_pts e) ps) in
      let e' := mkEdge (e_id e) (e_up e) (e_down e) (e_type e) rows (e_hash e) in
      Ok (mkStore (s_nodes st) (set_edge G e') (s_root st) (s_next st))
  | None =>
      if is_upstream G (fuel_of G) node parent then Err 4 else
      let rows := fst (merge_batch true [] ps) in
      let nt := last_node_type ps in
      match nt with
      | [] => Err 5
      | _ =>
        let e := mkEdge (s_next st) parent node nt rows 0 in
        Ok (mkStore (s_nodes st) (G ++ [e])
                    (if bytes_eqb parent str_root then node else s_root st) (s_next st + 1))
      end
  end.

(* ---------- SendNode ---------- *)
(* [now]: the clock value SendPoints stamps on points whose time is zero (0 stands for the zero time) *)
Definition stamp (now : Z) (p : point) : point := if (p_time p =? 0)%Z then with_time p now else p.
Definition fill_origin (origin : bytes) (p : point) : point :=
  if is_empty origin then p else if is_empty (p_origin p) then with_origin p origin else p.

Definition node_type_point (now : Z) (ty origin : bytes) : point :=
  mkPoint str_nodeType [] now 0 ty [] 0 origin.
Definition default_tombstone (now : Z) (origin : bytes) : point :=
  mkPoint str_tombstone [] now 0 [] [] 0 origin.

(* errors 6: blank id, 7: parent not set *)
Definition send_node (now : Z) (origin : bytes) (st : store) (i ty pa : bytes) (ps es : list point) : outcome store :=
  let ps' := map (fun p => stamp now (fill_origin origin p)) ps in
  let es' := map (fun p => stamp now (fill_origin origin p)) es in
  if is_empty i then Err 6 else
  if is_empty pa || bytes_eqb pa str_none then Err 7 else
  match x_node_points st i ps' with
  | Err e => Err e
  | Ok st1 =>
      let es2 := match es' with [] => [default_tombstone now origin] | _ => es' end in
      x_edge_points st1 i pa (es2 ++ [node_type_point now ty origin])
  end.

(* importHelper: SendNode per node in pre-order, stopping at the first error; the nodes sent before stay *)
Fixpoint import_tree (now : Z) (origin : bytes) (st : store) (t : tree) : store * N :=
  match t with
  | Node i ty pa ps es ks =>
      match send_node now origin st i ty pa ps es with
      | Err e => (st, e)
      | Ok st1 =>
          (fix go (l : list tree) (st : store) : store * N :=
             match l with
             | [] => (st, 0)
             | k :: l' => let '(st2, e) := import_tree now origin st k in
                          if e =? 0 then go l' st2 else (st2, e)
             end) ks st1
      end
  end.

(* GetNodes(nc, "all", id, "", false): is there a live edge into id? *)
Definition live_edge (e : edge) : bool := negb (deleted (e_pts e)).
Definition has_live (st : store) (id : bytes) : bool :=
  existsb live_edge (parents (s_edges st) id).

Section Import.
  Variable text : Type.
  Variable yaml : tree -> text.
  Variable unyaml : text -> option tree.
  Variable fresh : nat -> bytes.
  Variable now : Z.

  (* ExportNodes on the subtree found under the first live edge into the node (None: there is none) *)
  Definition export_nodes (src : option tree) : option text :=
    match src with Some t => Some (yaml (export_norm t)) | None => None end.

  (* the tree handed to importHelper; errors 8: parent missing, 9: YAML, 10: checkIDs *)
  Definition import_prepare (parent : bytes) (y : text) (preserve : bool) : outcome tree :=
    match unyaml y with
    | None => Err 9
    | Some t0 =>
        let t1 := mark (reparent parent t0) in
        if preserve then (if check_ids t1 parent then Ok t1 else Err 10)
        else Ok (replace_ids fresh t1 parent)
    end.

  (* ImportNodes: resulting store and error (0 = nil) *)
  Definition import_nodes (st : store) (parent : bytes) (y : text) (origin : bytes) (preserve : bool) : store * N :=
    let at_root := is_empty parent || bytes_eqb parent str_root in
    if negb (if at_root then has_live st (s_root st) else has_live st parent) then (st, 8) else
    match import_prepare parent y preserve with
    | Err e => (st, e)
    | Ok t =>
        let old_root := s_root st in
        let '(st1, e) := import_tree now origin st t in
        if bytes_eqb parent str_root && negb (bytes_eqb old_root (t_id t)) then
          (* DeleteNode(old root, "root", "import") *)
          match x_edge_points st1 old_root str_root [mkPoint str_tombstone [] now 0x3FF0000000000000 [] [] 0 str_import] with
          | Ok st2 => (st2, e)
          | Err e' => (st1, e')
          end
        else (st1, e)
    end.
End Import.

(* ---------- reading a subtree back: client.GetNodes walks, deleted nodes included ---------- *)
Fixpoint walk (st : store) (f : nat) (up down : bytes) : option tree :=
  match f with
  | O => None
  | S f' =>
      match find_edge (s_edges st) up down with
      | None => None
      | Some e =>
          Some (Node down (e_type e) up (node_rows (s_nodes st) down) (e_pts e)
                     (flat_map (fun c => match walk st f' down (e_down c) with Some t => [t] | None => [] end)
                               (childs (s_edges st) down)))
      end
  end.
Definition walk_fuel (st : store) : nat := S (S (length (s_edges st))).

(* ================= executable specification ================= *)
(* what the property compares of a point *)
Record ppoint := mkPP { pp_type : bytes; pp_key : bytes; pp_val : N; pp_text : bytes; pp_tomb : Z }.
Inductive ptree := PNode (id typ parent : bytes) (pts epts : list ppoint) (kids : list ptree).

Definition q_id (t : ptree) := match t with PNode i _ _ _ _ _ => i end.
Definition q_parent (t : ptree) := match t with PNode _ _ pa _ _ _ => pa end.
Definition q_pts (t : ptree) := match t with PNode _ _ _ ps _ _ => ps end.
Definition q_kids (t : ptree) := match t with PNode _ _ _ _ _ ks => ks end.

Definition pp_of (p : point) : ppoint := mkPP (p_type p) (norm_key (p_key p)) (p_val p) (p_text p) (p_tomb p).
Definition pp_leb (a b : ppoint) : bool :=
  if bytes_eqb (pp_type a) (pp_type b) then bytes_leb (pp_key a) (pp_key b) else bytes_leb (pp_type a) (pp_type b).
(* "no tombstone edge point" and "tombstone edge point of value 0" are the same thing *)
Definition pp_tomb0 (q : ppoint) : bool :=
  bytes_eqb (pp_type q) str_tombstone && bytes_eqb (pp_key q) str_0 && f64_is_zero (pp_val q).
Definition proj_pts (ps : list point) : list ppoint := sort_by pp_leb (map pp_of ps).
Definition proj_epts (es : list point) : list ppoint :=
  sort_by pp_leb (filter (fun q => negb (pp_tomb0 q)) (map pp_of es)).

(* children are compared as a set: sorted by what they carry apart from identifiers *)
Definition pp_is_ref (q : ppoint) : bool := bytes_eqb (pp_type q) str_nodeID && negb (is_empty (pp_text q)).
Definition pp_sig (q : ppoint) : list bytes :=
  [pp_type q; pp_key q; le_bytes 8 (pp_val q); (if pp_is_ref q then [] else pp_text q); le_bytes 8 (u64_of_Z (pp_tomb q))].
Definition q_sig (t : ptree) : list bytes :=
  match t with PNode _ ty _ ps es _ => ty :: flat_map pp_sig ps ++ [[]] ++ flat_map pp_sig es end.
Fixpoint lex_leb (a b : list bytes) : bool :=
  match a, b with
  | [], _ => true
  | _ :: _, [] => false
  | x :: a', y :: b' => if bytes_eqb x y then lex_leb a' b' else bytes_leb x y
  end.
Definition q_leb (a b : ptree) : bool := lex_leb (q_sig a) (q_sig b).

Fixpoint project (t : tree) : ptree :=
  match t with
  | Node i ty pa ps es ks =>
      PNode i ty pa (proj_pts ps) (proj_epts es)
            (sort_by q_leb
               ((fix go (l : list tree) : list ptree :=
                   match l with
                   | [] => []
                   | k :: l' => if tree_deleted k then go l' else project k :: go l'
                   end) ks))
  end.

Definition pp_eqb (a b : ppoint) : bool :=
  bytes_eqb (pp_type a) (pp_type b) && bytes_eqb (pp_key a) (pp_key b) && (pp_val a =? pp_val b) &&
  bytes_eqb (pp_text a) (pp_text b) && (pp_tomb a =? pp_tomb b)%Z.
Fixpoint ptree_eqb (a b : ptree) : bool :=
  match a, b with
  | PNode i ty pa ps es ks, PNode i' ty' pa' ps' es' ks' =>
      bytes_eqb i i' && bytes_eqb ty ty' && bytes_eqb pa pa' && list_eqb pp_eqb ps ps' && list_eqb pp_eqb es es' &&
      (fix go (l l' : list ptree) : bool :=
         match l, l' with
         | [], [] => true
         | k :: r, k' :: r' => ptree_eqb k k' && go r r'
         | _, _ => false
         end) ks ks'
  end.

(* the right-hand side of the property: marker on the top description, renaming of identifiers
   (node ids, parent fields, text of nodeID points), new parent for the top node *)
Definition pp_with_text (q : ppoint) (tx : bytes) : ppoint := mkPP (pp_type q) (pp_key q) (pp_val q) tx (pp_tomb q).
Definition pmark_point (q : ppoint) : ppoint :=
  if bytes_eqb (pp_type q) str_description then pp_with_text q (pp_text q ++ str_marker) else q.
Definition pmark (t : ptree) : ptree :=
  match t with PNode i ty pa ps es ks => PNode i ty pa (map pmark_point ps) es ks end.
Definition set_parent (parent : bytes) (t : ptree) : ptree :=
  match t with PNode i ty _ ps es ks => PNode i ty parent ps es ks end.
Definition pren_point (rho : bytes -> bytes) (q : ppoint) : ppoint :=
  if pp_is_ref q then pp_with_text q (rho (pp_text q)) else q.
Fixpoint pmap_ids (rho : bytes -> bytes) (t : ptree) : ptree :=
  match t with
  | PNode i ty pa ps es ks => PNode (rho i) ty (rho pa) (map (pren_point rho) ps) es (map (pmap_ids rho) ks)
  end.
Definition expected (rho : bytes -> bytes) (parent : bytes) (src : ptree) : ptree :=
  set_parent parent (pmap_ids rho (pmark src)).

(* the renaming read off the two trees position by position *)
Fixpoint zip_refs (a b : list ppoint) : list (bytes * bytes) :=
  match a, b with
  | x :: a', y :: b' => (if pp_is_ref x then [(pp_text x, pp_text y)] else []) ++ zip_refs a' b'
  | _, _ => []
  end.
Fixpoint zip_ids (top : bool) (a b : ptree) : list (bytes * bytes) :=
  match a, b with
  | PNode i _ pa ps _ ks, PNode i' _ pa' ps' _ ks' =>
      (i, i') :: (if top then [] else [(pa, pa')]) ++ zip_refs ps ps' ++
      (fix go (l l' : list ptree) : list (bytes * bytes) :=
         match l, l' with
         | k :: r, k' :: r' => zip_ids false k k' ++ go r r'
         | _, _ => []
         end) ks ks'
  end.
Definition rho_of (m : list (bytes * bytes)) (x : bytes) : bytes :=
  match lookup_id m x with Some y => y | None => x end.
Definition functional (m : list (bytes * bytes)) : bool :=
  forallb (fun ab => forallb (fun cd => negb (bytes_eqb (fst ab) (fst cd)) || bytes_eqb (snd ab) (snd cd)) m) m.
Definition injective (m : list (bytes * bytes)) : bool :=
  forallb (fun ab => forallb (fun cd => negb (bytes_eqb (snd ab) (snd cd)) || bytes_eqb (fst ab) (fst cd)) m) m.
Definition identity (m : list (bytes * bytes)) : bool := forallb (fun ab => bytes_eqb (fst ab) (snd ab)) m.

(* no deleted node anywhere below the top *)
Fixpoint all_live (t : tree) : bool :=
  match t with
  | Node _ _ _ _ _ ks =>
      (fix go (l : list tree) : bool :=
         match l with [] => true | k :: l' => negb (tree_deleted k) && all_live k && go l' end) ks
  end.

Fixpoint live_ids (t : tree) : list bytes :=
  match t with
  | Node i _ _ _ _ ks =>
      i :: (fix go (l : list tree) : list bytes :=
              match l with [] => [] | k :: l' => if tree_deleted k then go l' else live_ids k ++ go l' end) ks
  end.

(* the round trip, on what was observed: [src] the exported subtree (deleted children included),
   [imp] the imported subtree read back *)
Definition spec_roundtrip (preserve : bool) (parent : bytes) (src imp : tree) : bool :=
  let ps := project src in
  let pi := project imp in
  let m := zip_ids true ps pi in
  functional m && injective m && (if preserve then identity m else true) &&
  ptree_eqb pi (expected (rho_of m) parent ps).

(* ================= cases ================= *)
Record experiment := mkExp {
  x_preserve : bool;
  x_parent : bytes;
  x_origin : bytes;
  x_src : option tree;          (* GetNodes walk of the exported subtree, deleted children included *)
  x_xerr : N;                   (* ExportNodes: 0 ok, 1 error, 2 panic *)
  x_exp : option tree;          (* the YAML text decoded by the library (None: it does not decode) *)
  x_fresh : list bytes;         (* identifiers handed out by uuid.New() during ImportNodes, in order *)
  x_pre_root : bytes;
  x_pre : list edge_view;       (* every edge of the target instance before the import *)
  x_ierr : N;                   (* ImportNodes: 0 ok, 1 error, 2 panic *)
  x_post_root : bytes;
  x_post : list edge_view;      (* ... and after *)
  x_imp : option tree }.        (* GetNodes walk of the imported subtree *)

Fixpoint tree_of_val (f : nat) (v : val) : option tree :=
  match f with
  | O => None
  | S f' =>
      match v with
      | VL [i; ty; pa; ps; es; VL ks] =>
          i <- get_b i ;; ty <- get_b ty ;; pa <- get_b pa ;; ps <- points_of_val ps ;; es <- points_of_val es ;;
          ks <- map_opt (tree_of_val f') ks ;;
          Some (Node i ty pa ps es ks)
      | _ => None
      end
  end.
Definition tree_val := tree_of_val 64.

Definition exp_of_val (v : val) : option experiment :=
  match v with
  | VL [pr; _; pa; og; src; xe; ex; fr; r0; pre; ie; r1; post; imp] =>
      pr <- get_bool pr ;; pa <- get_b pa ;; og <- get_b og ;; src <- get_opt tree_val src ;;
      xe <- get_n xe ;; ex <- get_opt tree_val ex ;; fr <- get_list get_b fr ;;
      r0 <- get_b r0 ;; pre <- views_of_val pre ;; ie <- get_n ie ;; r1 <- get_b r1 ;;
      post <- views_of_val post ;; imp <- get_opt tree_val imp ;;
      Some (mkExp pr pa og src xe ex fr r0 pre ie r1 post imp)
  | _ => None
  end.
Definition case_of_val (v : val) : option (list experiment) := get_list exp_of_val v.

(* ---------- correspondence ---------- *)
Definition blur (p : point) : point := with_time p 0.
Definition blur_view (v : edge_view) : edge_view :=
  mkView (v_up v) (v_down v) (v_type v) 0 (map blur (v_epts v)) (map blur (v_npts v)).

Fixpoint tree_eqb (a b : tree) : bool :=
  match a, b with
  | Node i ty pa ps es ks, Node i' ty' pa' ps' es' ks' =>
      bytes_eqb i i' && bytes_eqb ty ty' && bytes_eqb pa pa' && points_eqb ps ps' && points_eqb es es' &&
      (fix go (l l' : list tree) : bool :=
         match l, l' with
         | [], [] => true
         | k :: r, k' :: r' => tree_eqb k k' && go r r'
         | _, _ => false
         end) ks ks'
  end.

(* canonical form for comparing walks: times blurred, points sorted, children sorted by id *)
Definition id_leb (a b : tree) : bool := bytes_leb (t_id a) (t_id b).
Fixpoint canon (t : tree) : tree :=
  match t with
  | Node i ty pa ps es ks =>
      Node i ty pa (sort_points (map blur ps)) (sort_points (map blur es))
           (sort_by id_leb ((fix go (l : list tree) : list tree :=
                               match l with [] => [] | k :: l' => canon k :: go l' end) ks))
  end.

Definition the_now : Z := (2 ^ 62)%Z.
Definition fresh_of (l : list bytes) (n : nat) : bytes := nth n l [].

(* the tree ImportNodes sends, to know where to look for the result *)
Definition sent_top (x : experiment) (t : tree) : bytes :=
  match import_prepare tree (fun y => Some y) (fresh_of (x_fresh x)) (x_parent x) t (x_preserve x) with
  | Ok t' => t_id t'
  | Err _ => []
  end.

Definition err_class (e : N) : N := if e =? 0 then 0 else 1.

Definition corr_exp (x : experiment) : bool :=
  match export_nodes tree (fun t => t) (x_src x) with
  | None => (x_xerr x =? 1) && negb (x_ierr x =? 0) && views_eqb (map blur_view (x_pre x)) (map blur_view (x_post x))
  | Some y =>
      (x_xerr x =? 0) &&
      option_eqb tree_eqb (x_exp x) (Some y) &&
      let st := store_of_views (x_pre_root x) (x_pre x) in
      let '(st', e) := import_nodes tree (fun y => Some y) (fresh_of (x_fresh x)) the_now st (x_parent x) y (x_origin x) (x_preserve x) in
      (err_class e =? x_ierr x) &&
      bytes_eqb (s_root st') (x_post_root x) &&
      views_eqb (map blur_view (Store.Model.project st')) (map blur_view (x_post x)) &&
      option_eqb tree_eqb
        (option_map canon (walk st' (walk_fuel st') (x_parent x) (sent_top x y)))
        (option_map canon (x_imp x))
  end.

(* ---------- specification on the observations ---------- *)
Definition view_ids (vs : list edge_view) : list bytes := map v_down vs.
Definition target_fresh (x : experiment) (src : tree) : bool :=
  negb (x_preserve x) || forallb (fun i => negb (mem_bytes i (view_ids (x_pre x)))) (live_ids src).

Definition spec_exp (x : experiment) : bool :=
  match x_src x, x_imp x with
  | Some src, Some imp =>
      (x_xerr x =? 0) && (x_ierr x =? 0) &&
      spec_roundtrip (x_preserve x) (x_parent x) src imp &&
      (* deleted nodes are not exported: none in the text, none below the imported top when the target had none of the ids *)
      (* the text, read by the library, describes the exported subtree, and no deleted node is in it *)
      match x_exp x with Some t => all_live t && ptree_eqb (project t) (project src) | None => false end &&
      (* ... nor below the imported top, when the target had none of the identifiers before *)
      (if target_fresh x src then all_live imp else true)
  | _, _ => false
  end.

Definition check_case (c : list experiment) : N :=
  code (forallb corr_exp c) (forallb spec_exp c && match c with [] => false | _ => true end).

Definition check_val := check_with case_of_val check_case.

(* ---------- diagnosis (not part of the check): which comparison fails first ---------- *)
Definition diag_exp (x : experiment) : N :=
  match export_nodes tree (fun t => t) (x_src x) with
  | None => 1
  | Some y =>
      let st := store_of_views (x_pre_root x) (x_pre x) in
      let '(st', e) := import_nodes tree (fun y => Some y) (fresh_of (x_fresh x)) the_now st (x_parent x) y (x_origin x) (x_preserve x) in
      (if x_xerr x =? 0 then 0 else 2) +
      (if option_eqb tree_eqb (x_exp x) (Some y) then 0 else 4) +
      (if err_class e =? x_ierr x then 0 else 8) +
      (if bytes_eqb (s_root st') (x_post_root x) then 0 else 16) +
      (if views_eqb (map blur_view (Store.Model.project st')) (map blur_view (x_post x)) then 0 else 32) +
      (if option_eqb tree_eqb (option_map canon (walk st' (walk_fuel st') (x_parent x) (sent_top x y))) (option_map canon (x_imp x)) then 0 else 64) +
      match x_src x, x_imp x with
      | Some src, Some imp =>
          (if spec_roundtrip (x_preserve x) (x_parent x) src imp then 0 else 128) +
          (if match x_exp x with Some t => all_live t && ptree_eqb (project t) (project src) | None => false end then 0 else 256) +
          (if (if target_fresh x src then all_live imp else true) then 0 else 512) +
          (if x_ierr x =? 0 then 0 else 1024)
      | _, _ => 2048
      end + 4096 * e
  end.
Fixpoint diag_first (i : N) (c : list experiment) : N :=
  match c with
  | [] => 0
  | x :: c' => if corr_exp x && spec_exp x then diag_first (i + 1) c' else 1000000 * (i + 1) + diag_exp x
  end.
Definition diag_val := check_with case_of_val (diag_first 0).
