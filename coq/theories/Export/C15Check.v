(* Entry point of the C15 case checker for extract/Extract.v.  The directory name [Export] is a
   keyword after [Require], so [From Verif Require Export.Model] does not parse; this module can be
   required by its short name, and the other files use [Require Import Verif.Export.Model]. *)
Require Verif.Export.Model.
Definition check_val := Verif.Export.Model.check_val.
Definition diag_val := Verif.Export.Model.diag_val.
